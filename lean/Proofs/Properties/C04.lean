import Proofs.Lemmas.PrecRT2
import Generated.C04Precedence
import Model.LexCfg
/-!
# C04 — expressions parse by the fixed precedence and associativity table;
adding or removing redundant parentheses never changes the tree (hence the value)

`Model.Prec` is a table-driven mirror of `parser/expression_parser.go`; the table is
regenerated from the source on every run (`Generated.C04.table`). The round trip is
proved once for EVERY well-formed table (`Prec_roundtrip`); the generated table is
shown well-formed and shown to satisfy the operator table of the property statement
by `decide`, so a change of the parser chain that violates either breaks the build.
-/
namespace C04
open Model.Prec Proofs.Prec

/-! ### decidable well-formedness -/

def levelIdxs (T : Table) : List Nat := List.range T.levels.length

/-- Boolean form of `WF` -/
def wfB (T : Table) : Bool :=
  (levelIdxs T).all (fun j => match levelAt T j with
    | some L =>
      (if L.shape == .prefix then L.ops.all (fun o => levelOfP T o == j)
       else L.ops.all (fun o => levelOfC T o == j)) &&
      (if L.shape == .tern then
        (levelIdxs T).all (fun i => match levelAt T i with
          | some L' => L'.shape == .prefix || !L'.ops.contains L.sep
          | none => true)
       else true)
    | none => true) &&
  (match T.reenter with
   | some a => (match levelAt T a with | some L => L.shape == .binR | none => false)
   | none => true)

theorem idx_mem {T : Table} {j : Nat} {L : Level} (h : levelAt T j = some L) : j ∈ levelIdxs T := by
  simp only [levelIdxs, List.mem_range]
  simp only [levelAt] at h
  exact (List.getElem?_eq_some_iff.mp h).1

theorem wf_of_wfB {T : Table} (h : wfB T = true) : WF T := by
  simp only [wfB, Bool.and_eq_true, List.all_eq_true] at h
  obtain ⟨h1, h2⟩ := h
  refine ⟨?_, ?_, ?_, ?_⟩
  · intro o j L hL hs ho
    have := h1 j (idx_mem hL)
    simp only [hL, Bool.and_eq_true] at this
    have hs' : (L.shape == Shape.prefix) = false := by
      cases hsh : L.shape <;> simp_all
    simp only [hs', Bool.false_eq_true, if_false, List.all_eq_true] at this
    simpa using this.1 o ho
  · intro o j L hL hs ho
    have := h1 j (idx_mem hL)
    simp only [hL, Bool.and_eq_true] at this
    have hs' : (L.shape == Shape.prefix) = true := by simp [hs]
    simp only [hs', if_true, List.all_eq_true] at this
    simpa using this.1 o ho
  · intro j L hL hs i L' hL' hs'
    have := h1 j (idx_mem hL)
    simp only [hL, Bool.and_eq_true] at this
    have hst : (L.shape == Shape.tern) = true := by simp [hs]
    simp only [hst, if_true, List.all_eq_true] at this
    have := this.2 i (idx_mem hL')
    simp only [hL', Bool.or_eq_true] at this
    rcases this with h | h
    · exfalso; apply hs'; simpa using h
    · simpa using h
  · intro a ha
    simp only [ha] at h2
    cases hL : levelAt T a with
    | none => simp [hL] at h2
    | some L => exact ⟨L, rfl, by simpa [hL] using h2⟩

/-! ### the operator table of the property statement, as a decidable predicate on a table -/

open Generated.C04 in
/-- groups of the statement, tightest first; every group is strictly tighter than the next -/
def specGroups : List (Shape × List Nat) := [
  (.binR,   [O_POWER]),
  (.prefix, [O_SUB, O_NOT, O_BIT_NOT, O_CAST]),
  (.binL,   [O_MUL, O_QUO, O_REM]),
  (.binL,   [O_ADD, O_SUB]),
  (.binL,   [O_SHL, O_SHR]),
  (.binL,   [O_LT, O_LE, O_GT, O_GE, O_SPACESHIP]),
  (.binL,   [O_EQ, O_NE, O_EQ_STRICT, O_NE_STRICT]),
  (.binL,   [O_BIT_AND]),
  (.binL,   [O_BIT_XOR]),
  (.binL,   [O_BIT_OR]),
  (.binL,   [O_LAND]),
  (.binL,   [O_LOR]),
  (.binL,   [O_NULL_COALESCE]),
  (.tern,   [O_TERNARY]),
  (.binR,   [O_ASSIGN, O_ADD_EQ, O_SUB_EQ, O_MUL_EQ, O_QUO_EQ, O_REM_EQ, O_CONCAT_EQ, O_NULL_COALESCE_ASSIGN])]

def levelOfIn (T : Table) (s : Shape) (o : Nat) : Nat := if s == .prefix then levelOfP T o else levelOfC T o

/-- all operators of a group sit at one level of the group's shape -/
def groupOK (T : Table) (g : Shape × List Nat) : Bool :=
  match g.2 with
  | [] => true
  | o :: os =>
    let j := levelOfIn T g.1 o
    decide (j < T.levels.length) && shapeAt T j == some g.1 &&
      (o :: os).all (fun x => levelOfIn T g.1 x == j && (opsAt T j).contains x)

def groupLevel (T : Table) (g : Shape × List Nat) : Nat := levelOfIn T g.1 (g.2.headD 0)

/-- consecutive groups: the earlier (tighter) one has the larger level index -/
def chainOK (T : Table) : List (Shape × List Nat) → Bool
  | a :: b :: rest => decide (groupLevel T b < groupLevel T a) && chainOK T (b :: rest)
  | _ => true

open Generated.C04 in
/-- `.` is looser than arithmetic (`* / % + -`, shifts) and tighter than `??`; it is left-associative -/
def dotOK (T : Table) : Bool :=
  let d := levelOfC T O_DOT
  decide (d < T.levels.length) && shapeAt T d == some .binL && (opsAt T d).contains O_DOT &&
  decide (d < levelOfC T O_ADD) && decide (d < levelOfC T O_MUL) && decide (d < levelOfC T O_SHL) &&
  decide (levelOfC T O_NULL_COALESCE < d)

def satisfiesSpec (T : Table) : Bool :=
  specGroups.all (groupOK T) && chainOK T specGroups && dotOK T

/-! ### obligations on the regenerated table -/

/-- the translator found every syntactic shape it expects in `expression_parser.go` / `lparen_parser.go` -/
theorem C04_shape_unchanged : Generated.C04.shapeChanged = [] := by decide

/-- the generated table is well-formed: every operator belongs to one level, `:` is not an operator,
the re-entry level of `parseUnary` is the right-associative assignment level -/
theorem C04_table_wf : WF Generated.C04.table := wf_of_wfB (by decide)

/-- the generated table satisfies the operator table of the property statement -/
theorem C04_table_satisfies_spec : satisfiesSpec Generated.C04.table = true := by decide

/-- the operand of a cast is parsed by the prefix-operator level (casts bind like `! ~ -`) -/
theorem C04_cast_is_unary :
    ∃ j, Generated.C04.castLevel = some j ∧ shapeAt Generated.C04.table j = some .prefix := ⟨14, by decide, by decide⟩

/-- the assignment operators re-entered inside `parseUnary` are those of the assignment level -/
theorem C04_reenter_ops_match :
    (Generated.C04.reenterOpsSeen.all (fun o => (reenterOps Generated.C04.table).contains o) &&
     (reenterOps Generated.C04.table).all (fun o => Generated.C04.reenterOpsSeen.contains o)) = true := by decide

/-! ### the theorems -/

/-- **Round trip, every well-formed table.** Printing a tree with any choice of redundant
parentheses (`X`) and parsing the text gives the tree back. -/
theorem Prec_roundtrip {T : Table} (wf : WF T) (X : Expr → Bool) (e : Expr) (h : InLang T e) :
    ∃ f, parse T f 0 (pr T X 0 e) = .ok e [] := roundtrip wf X e h

/-- **Parentheses are irrelevant** for origami's table: minimal printing, full parenthesisation and
anything in between parse to the same tree — so any evaluation of the parsed tree gives the same value. -/
theorem C04_parens_irrelevant {α : Type} (eval : Expr → α) (e : Expr) (h : InLang Generated.C04.table e)
    (X Y : Expr → Bool) :
    ∃ f e₁ e₂, parse Generated.C04.table f 0 (pr Generated.C04.table X 0 e) = .ok e₁ [] ∧
               parse Generated.C04.table f 0 (pr Generated.C04.table Y 0 e) = .ok e₂ [] ∧
               eval e₁ = eval e ∧ eval e₂ = eval e := by
  obtain ⟨f1, h1⟩ := roundtrip C04_table_wf X e h
  obtain ⟨f2, h2⟩ := roundtrip C04_table_wf Y e h
  exact ⟨max f1 f2, e, e, parse_mono_le _ h1 (Nat.le_max_left _ _), parse_mono_le _ h2 (Nat.le_max_right _ _), rfl, rfl⟩

/-- in particular `printMin` and `printFull` -/
theorem C04_min_full (e : Expr) (h : InLang Generated.C04.table e) :
    ∃ f, parse Generated.C04.table f 0 (printMin Generated.C04.table e) = .ok e [] ∧
         parse Generated.C04.table f 0 (printFull Generated.C04.table e) = .ok e [] := by
  obtain ⟨f, e₁, e₂, h1, h2, _, _⟩ := C04_parens_irrelevant (fun x => x) e h (fun _ => false) (fun e => !isAtom e)
  have : e₁ = e ∧ e₂ = e := by
    obtain ⟨f1, g1⟩ := roundtrip C04_table_wf (fun _ => false) e h
    obtain ⟨f2, g2⟩ := roundtrip C04_table_wf (fun e => !isAtom e) e h
    have a := parse_mono_le _ g1 (Nat.le_max_left f1 f)
    have b := parse_mono_le _ h1 (Nat.le_max_right f1 f)
    have c := parse_mono_le _ g2 (Nat.le_max_left f2 f)
    have d := parse_mono_le _ h2 (Nat.le_max_right f2 f)
    rw [a] at b; rw [c] at d
    cases b; cases d; exact ⟨rfl, rfl⟩
  obtain ⟨rfl, rfl⟩ := this
  exact ⟨f, h1, h2⟩

/-! ### known deviation (lexer level): a sign in front of a number literal is part of the number token,
so `-2 ** 2` reaches the parser as the literal `-2` raised to 2 (value 4) instead of `-(2 ** 2)` -/

theorem C04_negative_literal_witness :
    ((Model.Lex.tokenize Model.Lex.genCfg #[45, 50, 32, 42, 42, 32, 50] .script).1.toks.map
      (fun t => (t.ty, t.lit))) =
      [(Generated.C01.T_INT, [45, 50]), (Generated.C01.T_POWER, [42, 42]), (Generated.C01.T_INT, [50])] := by
  decide +kernel

/-! ### non-vacuity -/

open Generated.C04 in
/-- `$a = -$b ** 2 * 3 + 4 . 5 ?? 6 ? 7 : 8` is in the language and round-trips both ways -/
example :
    let e : Expr := .bin O_ASSIGN (.atom 0)
      (.tern O_TERNARY
        (.bin O_NULL_COALESCE
          (.bin O_DOT (.bin O_ADD (.bin O_MUL (.un O_SUB (.bin O_POWER (.atom 1) (.atom 2))) (.atom 3)) (.atom 4)) (.atom 5))
          (.atom 6))
        (.atom 7) (.atom 8))
    parse table 64 0 (printMin table e) = .ok e [] ∧ parse table 400 0 (printFull table e) = .ok e [] ∧
    (printMin table e).length = 18 := by
  decide +kernel

end C04
