import Proofs.Lemmas.Resp
import Proofs.Lemmas.Mw
import Model.RespCache
import Generated.C13StatusSites
import Proofs.Lemmas.RespLayer
import Generated.C13LayerEntries
import Proofs.Lemmas.MwTopo
import Generated.C13DerivedSlices
/-!
# C13 — HTTP response commits once; pre-commit status/headers reach the client;
middlewares run in ascending priority, ties in registration order.

Property theorems only.  `Model.Resp` mirrors `std/net/http/response.go`,
`Spec.Resp.run` is the commit-once reference, `Model.Mw` mirrors
`applyMiddlewares`.
-/
namespace C13
open Model.Resp Spec.Resp Proofs.Resp

/-- both views at once: on a recorder (`e = false`) and over a connection (`e = true`) the client-visible
result of the buffered writer is the commit-once reference, its body cut down to what the wire keeps. -/
theorem C13_refines_core (e : Bool) (ops : List Op) :
    (Model.Resp.runOn e ops).client =
      { Spec.Resp.run ops with body := kept e (Spec.Resp.run ops).status (Spec.Resp.run ops).body } := by
  have hsplit := List.takeWhile_append_dropWhile (p := fun o => !committing o) (l := ops)
  have hpre := pre_foldl e (ops.takeWhile (fun o => !committing o)) (takeWhile_all ops) _ [] (pre_init e)
  simp only [List.nil_append] at hpre
  unfold Spec.Resp.run
  cases hd : ops.dropWhile (fun o => !committing o) with
  | nil =>
    rw [hd, List.append_nil] at hsplit
    rw [hsplit] at hpre
    obtain ⟨h1, h2, h3, h4, h5⟩ := hpre
    simp only [Model.Resp.runOn, hsplit, kept_empty]
    cases hs : lastStatus ops with
    | none =>
      simp [hs] at h4 h5
      simp [St.finish, St.client, h1, h2, h3, h4]
    | some c =>
      simp [hs] at h4 h5
      simp [St.finish, St.client, St.writeHeader, Wire.writeHeader, h1, h2, h3, h4, h5]
  | cons c rest =>
    have hc : committing c = true := dw_head ops c rest hd
    have hpost0 := commit_step e _ _ c hpre hc
    have hpost := post_foldl e rest _ _ _ _ hpost0
    have hrun : Model.Resp.runOn e ops =
        (rest.foldl step (step ((ops.takeWhile (fun o => !committing o)).foldl step
          { wire := { enforce := e } }) c)).finish := by
      conv => lhs; rw [Model.Resp.runOn, ← hsplit, hd]
      simp [List.foldl_append]
    rw [hrun, post_finish e _ _ _ _ hpost, post_client e _ _ _ _ hpost]
    have hbody : concat (ops.map bodyOf) = bodyOf c ++ concat (rest.map bodyOf) := by
      conv => lhs; rw [← hsplit, hd]
      rw [List.map_append, concat_append, concat_map_bodyOf_pre _ (takeWhile_all ops), List.map_cons,
        concat_cons]
      simp
    simp [hbody]

/-- **Refinement.** For every operation sequence what the client observes from
the buffered writer is exactly what the commit-once reference prescribes:
last status set up to the first committing operation (200 if none), the header
map at that point, the concatenation of all bodies, and the number of header
commits on the underlying connection. (Recorder view: every write is kept.) -/
theorem C13_refines (ops : List Op) : (Model.Resp.run ops).client = Spec.Resp.run ops := by
  have := C13_refines_core false ops
  simpa [Model.Resp.run, kept] using this

/-- **Refinement over a real connection.** What an HTTP client receives is the commit-once reference
with the body present exactly when the COMMITTED status can carry one (not 1xx/204/304). The model
enforces this write by write, as net/http does (`ErrBodyNotAllowed`, swallowed by the writer); the
reference decides it once, from the committed status alone — so a status that was chosen and then
replaced before the commit has no say in whether the body arrives. -/
theorem C13_conn_refines (ops : List Op) : (Model.Resp.runConn ops).client = Spec.Resp.runConn ops := by
  rw [Model.Resp.runConn, C13_refines_core true ops]
  simp only [Spec.Resp.runConn, kept, bodyAllowed_eq, Bool.true_and, Bool.not_not]
  split <;> simp_all

/-- **Every body byte reaches the client when the committed status allows a body**, for every operation
sequence — whatever statuses were chosen and replaced before the commit, and whatever is called after it. -/
theorem C13_body_reaches_client (ops : List Op)
    (h : bodyAllowed (Model.Resp.runConn ops).client.status = true) :
    (Model.Resp.runConn ops).client.body = concat (ops.map bodyOf) := by
  have hb : (Spec.Resp.run ops).body = concat (ops.map bodyOf) := by
    unfold Spec.Resp.run
    cases hd : ops.dropWhile (fun o => !committing o) with
    | nil => simp [concat_map_bodyOf_pre ops (dw_nil_all ops hd)]
    | cons c rest => simp
  rw [Model.Resp.runConn, C13_refines_core true ops] at h ⊢
  simp only [kept] at h ⊢
  simp_all

/-- The shape a stale status-derived decision breaks: non-committing operations `pre` (any statuses,
for instance `status(204)`), then a committing operation `c` that carries the status `k`, then anything.
If `k` allows a body the client receives `k` and every body byte of `c :: rest`. -/
theorem C13_replaced_status_cannot_drop_body (pre rest : List Op) (c : Op) (k : Nat)
    (hpre : ∀ o ∈ pre, committing o = false) (hc : committing c = true) (hk : statusOf c = some k)
    (hb : bodyAllowed k = true) :
    (Model.Resp.runConn (pre ++ c :: rest)).client.status = k ∧
    (Model.Resp.runConn (pre ++ c :: rest)).client.body = concat ((c :: rest).map bodyOf) := by
  have htw : (pre ++ c :: rest).takeWhile (fun o => !committing o) = pre := by
    rw [List.takeWhile_append_of_pos (by simpa using hpre)]
    simp [hc]
  have hdw : (pre ++ c :: rest).dropWhile (fun o => !committing o) = c :: rest := by
    rw [List.dropWhile_append_of_pos (by simpa using hpre)]
    simp [hc]
  have hst : (Spec.Resp.run (pre ++ c :: rest)).status = k := by
    simp only [Spec.Resp.run, htw, hdw]
    simp [lastStatus_snoc_some pre c k hk]
  have hst' : (Model.Resp.runConn (pre ++ c :: rest)).client.status = k := by
    rw [Model.Resp.runConn, C13_refines_core true]; exact hst
  refine ⟨hst', ?_⟩
  rw [C13_body_reaches_client _ (by rw [hst']; exact hb), List.map_append, concat_append,
    concat_map_bodyOf_pre pre hpre]
  simp

/-- **At most one header commit** reaches the underlying connection, for every
operation sequence, on a recorder and over a connection. (Also a corollary of the refinement; proved
from the invariant so that it does not depend on the spec.) -/
theorem C13_single_commit (e : Bool) (ops : List Op) : (Model.Resp.runOn e ops).wire.commits ≤ 1 := by
  have h := inv_foldl ops _ (inv_init e)
  have hf : Inv (ops.foldl step { wire := { enforce := e } }).finish := by
    unfold St.finish; split
    · exact inv_writeHeader _ _ h
    · exact h
  unfold Model.Resp.runOn
  rcases hh : (ops.foldl step { wire := { enforce := e } }).finish.headerSent with _ | _
  · have := (hf.unsent hh).2.1; omega
  · have := (hf.sent hh).2; omega

/-- **Calls after the commit are inert** for status and already-sent headers:
once `ops₁` contains a committing operation, no continuation changes the status
or the header block the client receives; it can only append body bytes. -/
theorem C13_post_commit_inert (ops₁ ops₂ : List Op) (h : ∃ o ∈ ops₁, committing o = true) :
    (Model.Resp.run (ops₁ ++ ops₂)).client.status = (Model.Resp.run ops₁).client.status ∧
    (Model.Resp.run (ops₁ ++ ops₂)).client.hdr = (Model.Resp.run ops₁).client.hdr ∧
    (Model.Resp.run (ops₁ ++ ops₂)).client.commits = 1 ∧
    (Model.Resp.run (ops₁ ++ ops₂)).client.body =
      (Model.Resp.run ops₁).client.body ++ concat (ops₂.map bodyOf) := by
  obtain ⟨o, ho, hc⟩ := h
  have hd1 : ∃ c rest, ops₁.dropWhile (fun o => !committing o) = c :: rest := by
    cases hd : ops₁.dropWhile (fun o => !committing o) with
    | nil =>
      have := dw_nil_all ops₁ hd o ho
      simp [hc] at this
    | cons c rest => exact ⟨c, rest, rfl⟩
  obtain ⟨c, rest, hd⟩ := hd1
  obtain ⟨htw, hdw⟩ := split_append ops₁ ops₂ c rest hd
  rw [C13_refines, C13_refines]
  simp only [Spec.Resp.run, htw, hdw, hd]
  simp [List.map_append, concat_append]

/-- the same over a real connection: a call after the commit cannot alter the status or the header
block the client receives, and the connection still sees exactly one commit. -/
theorem C13_post_commit_inert_conn (ops₁ ops₂ : List Op) (h : ∃ o ∈ ops₁, committing o = true) :
    (Model.Resp.runConn (ops₁ ++ ops₂)).client.status = (Model.Resp.runConn ops₁).client.status ∧
    (Model.Resp.runConn (ops₁ ++ ops₂)).client.hdr = (Model.Resp.runConn ops₁).client.hdr ∧
    (Model.Resp.runConn (ops₁ ++ ops₂)).client.commits = 1 := by
  have h0 := C13_post_commit_inert ops₁ ops₂ h
  rw [C13_refines, C13_refines] at h0
  simp only [Model.Resp.runConn, C13_refines_core true]
  exact ⟨h0.1, h0.2.1, h0.2.2.1⟩

/-- **Default 200**: if no operation up to and including the first committing
one asks for a status, the client receives 200. -/
theorem C13_default_200 (ops : List Op) (h : ∀ o ∈ ops, statusOf o = none) :
    (Model.Resp.run ops).client.status = 200 := by
  rw [C13_refines]
  have hnone : ∀ l : List Op, (∀ o ∈ l, o ∈ ops) → lastStatus l = none := by
    intro l hl
    have : l.filterMap statusOf = [] := by
      rw [List.filterMap_eq_nil_iff]; intro a ha; exact h a (hl a ha)
    simp [lastStatus, this]
  have hsplit := List.takeWhile_append_dropWhile (p := fun o => !committing o) (l := ops)
  unfold Spec.Resp.run
  cases hd : ops.dropWhile (fun o => !committing o) with
  | nil =>
    have := hnone (ops.takeWhile (fun o => !committing o))
      (fun o ho => (List.takeWhile_sublist _).subset ho)
    simp [this]
  | cons c rest =>
    have := hnone (ops.takeWhile (fun o => !committing o) ++ [c]) (by
      intro o ho
      rw [← hsplit, hd]
      rcases List.mem_append.mp ho with h1 | h1
      · exact List.mem_append_left _ h1
      · exact List.mem_append_right _ (by simp at h1; simp [h1]))
    simp [this]

/-! ### a decision cached from the status is recomputed wherever the status is assigned

`Generated.C13.facts` (regenerated from std/net/http/*.go on every run) lists the places that assign
`bufferedWriter.status` and the fields of the struct that some assignment computes from the status.
The abstract machine `Model.RespCache.CSt` is a status plus ONE such cached value. -/
section cache
open Model.RespCache

/-- **A cache that every assignment site refreshes is always coherent**: after any history of site runs
with any codes, the cached value is the function of the CURRENT status — whatever the function is,
whatever the state was before. -/
theorem C13_status_cache_coherent {α : Type} (g : Nat → α) (s0 : CSt α) (hist : List (Bool × Nat))
    (h0 : Coherent g s0) (hall : ∀ p ∈ hist, p.1 = true) : Coherent g (runSites g s0 hist) := by
  unfold runSites
  induction hist generalizing s0 with
  | nil => exact h0
  | cons p ps ih =>
    rw [List.foldl_cons]
    apply ih
    · have := hall p List.mem_cons_self
      simp [Coherent, CSt.assign, this]
    · exact fun q hq => hall q (List.mem_cons_of_mem _ hq)

/-- **One site that does not refresh is enough to go stale** (negation witness, for every function that
distinguishes two codes): a refreshing site stores `c₁`, a non-refreshing one replaces it by `c₂` — the
cache still answers for `c₁`. With `g = "forbids a body"`, `c₁ = 204`, `c₂ = 200` this is
`status(204); writeHeader(200)` followed by a body write that is dropped. -/
theorem C13_stale_site_breaks_cache {α : Type} (g : Nat → α) (s0 : CSt α) (c₁ c₂ : Nat) (hne : g c₁ ≠ g c₂) :
    ¬ Coherent g (runSites g s0 [(true, c₁), (false, c₂)]) := by
  simp [runSites, Coherent, CSt.assign, hne]

/-- the generic step from the regenerated table to the machine: if no (site, field) pair is listed as a
violation, every history over the status-assigning sites keeps every status-derived field coherent. -/
theorem C13_status_sites_sound (f : Facts) (hwf : f.violations = []) {α : Type} (g : Nat → α) (s0 : CSt α)
    (h0 : Coherent g s0) (d : String) (hd : d ∈ f.derivedFields) (h : List (Site × Nat))
    (hs : ∀ p ∈ h, p.1 ∈ f.assignSites) : Coherent g (runSites g s0 (histOf d h)) := by
  apply C13_status_cache_coherent g s0 _ h0
  intro p hp
  simp only [histOf, List.mem_map] at hp
  obtain ⟨q, hq, rfl⟩ := hp
  show q.1.refreshes.contains d = true
  have hsite := hs q hq
  cases hc : q.1.refreshes.contains d with
  | true => rfl
  | false =>
    exfalso
    have : (q.1.fn, d) ∈ f.violations := by
      unfold Facts.violations
      rw [List.mem_flatMap]
      exact ⟨q.1, hsite, List.mem_map.mpr ⟨d, List.mem_filter.mpr ⟨hd, by rw [hc]; rfl⟩, rfl⟩⟩
    rw [hwf] at this
    cases this

/-- **Obligation on the current source**: no place that assigns `bufferedWriter.status` leaves a field
computed from the status as it was, and the translator found the shapes it expects. -/
theorem C13_status_sites_wf :
    Generated.C13.facts.violations = [] ∧ Generated.C13.facts.shapeChanged = [] := by decide

/-- … hence every history over the real assignment sites keeps every status-derived field coherent. -/
theorem C13_status_sites_coherent {α : Type} (g : Nat → α) (s0 : CSt α) (h0 : Coherent g s0) (d : String)
    (hd : d ∈ Generated.C13.facts.derivedFields) (h : List (Site × Nat))
    (hs : ∀ p ∈ h, p.1 ∈ Generated.C13.facts.assignSites) : Coherent g (runSites g s0 (histOf d h)) :=
  C13_status_sites_sound _ C13_status_sites_wf.1 g s0 h0 d hd h hs

/-- non-vacuity of the obligation: the table of a writer that caches "forbids a body" in `SetStatus`
only is rejected, with the three stale sites named. -/
example : Facts.violations
    { fields := ["status", "statusSet", "headerSent", "noBody"],
      derived := [{ field := "noBody", fn := "bufferedWriter.SetStatus", how := "rhs" }],
      sites := [{ fn := "bufferedWriter.NoContent", kind := "assign", refreshes := ["headerSent", "status", "statusSet"] },
                { fn := "bufferedWriter.SetStatus", kind := "assign", refreshes := ["noBody", "status", "statusSet"] },
                { fn := "bufferedWriter.WriteHeader", kind := "assign", refreshes := ["headerSent", "status"] },
                { fn := "newBufferedWriter", kind := "literal", refreshes := ["status"] }],
      shapeChanged := [] }
    = [("bufferedWriter.NoContent", "noBody"), ("bufferedWriter.WriteHeader", "noBody")] := by decide

example : ¬ Coherent (fun c => !bodyAllowed c) (runSites (fun c => !bodyAllowed c) ⟨200, false⟩ [(true, 204), (false, 200)]) :=
  C13_stale_site_breaks_cache _ _ 204 200 (by decide)

example : Coherent (fun c => !bodyAllowed c) (⟨200, false⟩ : CSt Bool) := by simp [Coherent, bodyAllowed]

end cache

/-! ### layers over one response: every layer entry commits what is pending when it returns

A request passes through closure middlewares, class middlewares and the route handler; all of them share
ONE `bufferedWriter` and every one of them is a handler of its own: it may answer by itself (not call
`$next`), or touch the response after `$next` returned. `Model.RespLayer.runLayers` mirrors the layer
entries (`beginResponse` + `defer commitPending`), `Spec.RespLayer` is the commit-once reference read in
execution order across the layers, where the return of a layer with a status pending and nothing committed
counts as the terminal call that commits it. -/
section layers
open Model.RespLayer Spec.RespLayer Proofs.RespLayer

/-- for every stack whatsoever (any layer may or may not commit on return): once the request is over and
what is still pending is committed, the layered run is the single-handler run of the lowered sequence —
provided every layer that ran committed on return. -/
theorem C13_layers_run_eq (e : Bool) (ls : List Layer) (hall : ∀ l ∈ ls, l.commits = true) :
    (serveOn e ls).finish = Model.Resp.runOn e (flat ls) := by
  unfold serveOn Model.Resp.runOn flat
  rw [runLayers_eq, lower_sim (events ls) (events_rets ls hall) _ none false (track_init e)]

/-- **Refinement for layered requests.** If every layer entry commits what is pending when it returns,
then for every stack of layers (any depth, any operations before and after `$next`, any layer
short-circuiting) the client receives exactly what the commit-once reference prescribes: the last status
set before the first body byte / terminal call / return of a layer with a status pending, the headers set
before that point, every body byte, and the connection sees one header commit. -/
theorem C13_layers_refine (e : Bool) (ls : List Layer) (hne : ls ≠ [])
    (hall : ∀ l ∈ ls, l.commits = true) :
    (serveOn e ls).client = Spec.RespLayer.runOn e ls := by
  obtain ⟨l, rest, rfl⟩ := List.exists_cons_of_ne_nil hne
  have hfin := serve_finish e l rest (hall l List.mem_cons_self)
  rw [← hfin, C13_layers_run_eq e _ hall, Spec.RespLayer.runOn]
  cases e with
  | false => exact C13_refines _
  | true => exact C13_conn_refines _

/-- **A layer that answers by itself with a bare status is heard.** Outer layers that only choose statuses /
set headers before calling `$next`, then a layer that commits on return, does not call `$next` and only
chooses statuses / sets headers: the client receives the last status chosen, committed once — whatever the
inner layers are (they never run) and whether or not the outer layers commit on return. -/
theorem C13_short_circuit_status_reaches_client (e : Bool) (outers inner : List Layer) (l : Layer)
    (hout : ∀ o ∈ outers, o.calls = true ∧ ∀ x ∈ o.pre, committing x = false)
    (hl : l.commits = true) (hcalls : l.calls = false)
    (hops : ∀ x ∈ l.pre ++ l.post, committing x = false) (c : Nat)
    (hst : lastStatus (outers.flatMap (·.pre) ++ (l.pre ++ l.post)) = some c) :
    (serveOn e (outers ++ l :: inner)).client.status = c ∧
    (serveOn e (outers ++ l :: inner)).client.commits = 1 := by
  -- state reached when the short-circuiting layer returns: committed with status c
  have key : ∀ (outers : List Layer) (s : St) (done : List Op),
      (∀ o ∈ outers, o.calls = true ∧ ∀ x ∈ o.pre, committing x = false) → Pre e s done →
      lastStatus (done ++ outers.flatMap (·.pre) ++ (l.pre ++ l.post)) = some c →
      ∃ h b, Post e (runLayers s (outers ++ l :: inner)) c h b := by
    intro outers
    induction outers with
    | nil =>
      intro s done _ hp hls
      have hp1 := pre_foldl e (l.pre ++ l.post) hops s done hp
      simp only [List.flatMap_nil, List.append_nil] at hls
      obtain ⟨p1, p2, p3, p4, p5⟩ := hp1
      rw [hls] at p4 p5
      simp only [List.nil_append, runLayers, hcalls, hl, if_true, Bool.false_eq_true, if_false,
        ← List.foldl_append]
      generalize (l.pre ++ l.post).foldl step s = t at p1 p2 p3 p4 p5 ⊢
      have hf : t.finish = t.writeHeader c := by simp [St.finish, p1, p4, p5]
      rw [hf]
      exact ⟨_, "", fresh_writeHeader ⟨p1, p2⟩ c⟩
    | cons o os ih =>
      intro s done ho hp hls
      have ho1 := ho o List.mem_cons_self
      have hp1 := pre_foldl e o.pre ho1.2 s done hp
      have hls' : lastStatus (done ++ o.pre ++ os.flatMap (·.pre) ++ (l.pre ++ l.post)) = some c := by
        simpa [List.flatMap_cons, List.append_assoc] using hls
      obtain ⟨h, b, hpost⟩ := ih (o.pre.foldl step s) (done ++ o.pre)
        (fun x hx => ho x (List.mem_cons_of_mem _ hx)) hp1 hls'
      have hpost2 := post_foldl e o.post _ _ _ _ hpost
      simp only [List.cons_append, runLayers, ho1.1, if_true]
      cases o.commits with
      | false => exact ⟨h, _, hpost2⟩
      | true => simp only [if_true]; rw [post_finish e _ _ _ _ hpost2]; exact ⟨h, _, hpost2⟩
  obtain ⟨h, b, hp⟩ := key outers _ [] hout (pre_init e) (by simpa using hst)
  have := post_client e _ _ _ _ hp
  simp only [serveOn]
  rw [this]
  exact ⟨rfl, rfl⟩

/-- **Negation witness (the layer that no longer commits).** A middleware that does not commit on return
answers by itself with a bare `status(c)`: nothing is committed by anybody — the inner layers and their
deferred commit never run — and the client receives net/http's implicit 200, whatever `c` was, whatever the
inner layers are; the reference owes the client `c`. -/
theorem C13_uncommitted_layer_loses_status (e : Bool) (c : Nat) (inner : List Layer) :
    (serveOn e ({ commits := false, pre := [.status c], calls := false } :: inner)).client
      = { status := 200, hdr := [], body := "", commits := 0 } ∧
    (Spec.RespLayer.runOn e ({ commits := false, pre := [.status c], calls := false } :: inner)).status = c ∧
    (Spec.RespLayer.runOn e ({ commits := false, pre := [.status c], calls := false } :: inner)).commits = 1 := by
  refine ⟨by simp [serveOn, runLayers, step, St.setStatus, St.client, concat], ?_, ?_⟩ <;>
  · cases e <;>
      simp [Spec.RespLayer.runOn, Spec.Resp.runOn, Spec.Resp.runConn, flat, events, lower, statusOf, committing,
        Spec.Resp.run, lastStatus]
    all_goals (try split) <;> simp_all

/-- the same after `$next`: the route handler (which commits on return) set only a header, the
non-committing middleware then chooses the status — it is lost. -/
theorem C13_uncommitted_layer_loses_late_status (e : Bool) (c : Nat) (k v : String) :
    (serveOn e [{ commits := false, post := [.status c] }, { commits := true, pre := [.header k v], calls := false }]).client.status = 200 ∧
    (serveOn e [{ commits := false, post := [.status c] }, { commits := true, pre := [.header k v], calls := false }]).client.commits = 0 := by
  simp [serveOn, runLayers, step, St.setStatus, St.setHeader, St.finish, St.client]

/-- **At most one header commit** reaches the connection for every stack, whichever layers commit. -/
theorem C13_layers_single_commit (e : Bool) (ls : List Layer) : (serveOn e ls).wire.commits ≤ 1 := by
  have h : Inv (serveOn e ls) := by
    unfold serveOn; rw [runLayers_eq]; exact foldl_stepEv_inv _ _ (inv_init e)
  rcases hh : (serveOn e ls).headerSent with _ | _
  · have := (h.unsent hh).2.1; omega
  · have := (h.sent hh).2; omega

/-- from the regenerated table to the model: if no layer entry is listed as returning without a commit, then
every stack made of those entries — with any script code in them — gives the client what the reference says. -/
theorem C13_layer_entries_sound (f : EntryFacts) (hwf : f.violations = []) (e : Bool)
    (stack : List (Entry × List Op × Bool × List Op)) (hne : stack ≠ [])
    (hs : ∀ p ∈ stack, p.1 ∈ f.entries) :
    (serveOn e (stack.map fun p => layerOf p.1 p.2.1 p.2.2.1 p.2.2.2)).client =
      Spec.RespLayer.runOn e (stack.map fun p => layerOf p.1 p.2.1 p.2.2.1 p.2.2.2) := by
  apply C13_layers_refine e _ (by simpa using hne)
  intro l hl
  obtain ⟨p, hp, rfl⟩ := List.mem_map.mp hl
  show p.1.commits = true
  cases hc : p.1.commits with
  | true => rfl
  | false =>
    exfalso
    have : p.1.fn ∈ f.violations := by
      unfold EntryFacts.violations
      exact List.mem_map.mpr ⟨p.1, List.mem_filter.mpr ⟨hs p hp, by simp [hc]⟩, rfl⟩
    rw [hwf] at this
    cases this

/-- **Obligation on the current source: every layer entry commits pending.** Every function of
std/net/http that obtains the response through `beginResponse` binds the writer and defers `commitPending`
on it, there is at least one such function, and the translator found the shapes it expects. -/
theorem C13_layer_entries_wf :
    Generated.C13.layerEntries.violations = [] ∧ Generated.C13.layerEntries.shapeChanged = [] ∧
    Generated.C13.layerEntries.entries ≠ [] := by decide

/-- … hence every stack over the real layer entries gives the client what the reference says. -/
theorem C13_layer_entries_refine (e : Bool) (stack : List (Entry × List Op × Bool × List Op)) (hne : stack ≠ [])
    (hs : ∀ p ∈ stack, p.1 ∈ Generated.C13.layerEntries.entries) :
    (serveOn e (stack.map fun p => layerOf p.1 p.2.1 p.2.2.1 p.2.2.2)).client =
      Spec.RespLayer.runOn e (stack.map fun p => layerOf p.1 p.2.1 p.2.2.1 p.2.2.2) :=
  C13_layer_entries_sound _ C13_layer_entries_wf.1 e stack hne hs

/-- non-vacuity: a closure guard `header; status(403); return` in front of a handler that would write. -/
example : (serveOn true [{ pre := [.header "X-Denied" "closure", .status 403], calls := false },
      { pre := [.write "handler"], calls := false }]).client
    = { status := 403, hdr := [("X-Denied", ["closure"])], body := "", commits := 1 } := by decide

/-- a middleware that turns the handler's untouched response into a 404 after `$next`. -/
example : (serveOn true [{ post := [.status 404] }, { pre := [.header "X-Handler" "ran"], calls := false }]).client
    = { status := 404, hdr := [("X-Handler", ["ran"])], body := "", commits := 1 } := by decide

/-- the handler's own bare status is committed when the handler returns: a status chosen by the middleware
afterwards comes after the commit. -/
example : (serveOn false [{ post := [.status 500] }, { pre := [.status 201], calls := false }]).client.status = 201 := by decide

/-- the table of the tree in which the two middleware entries dropped the defer is rejected, naming them. -/
example : EntryFacts.violations
    { entries := [{ fn := "Handler.ServeHTTP", binds := true, defers := true },
                  { fn := "ServerMiddlewareMethod.Call#1#1", binds := false, defers := false },
                  { fn := "newMiddleware#1#1", binds := false, defers := false }],
      shapeChanged := [] } = ["ServerMiddlewareMethod.Call#1#1", "newMiddleware#1#1"] := by decide

end layers

/-! ### middleware order -/
open Model.Mw Proofs.Mw

/-- **Middleware order.** The served trace is: `pre` of every middleware in
ascending priority, the final handler, then `post` in the reverse order — each
middleware wraps all later ones — where the order is a stable sort of the
registration list: it is a permutation, ascending in priority, and entries of
equal priority keep their registration order. -/
theorem C13_mw_order (final : Handler) (entries : List Entry) (hcalls : ∀ e ∈ entries, e.calls = true) :
    ∃ sorted : List Entry,
      sorted.Perm entries ∧
      sorted.Pairwise (fun a b => a.prio ≤ b.prio) ∧
      (∀ p : Int, sorted.filter (fun x => x.prio == p) = entries.filter (fun x => x.prio == p)) ∧
      Model.Mw.apply final entries =
        sorted.map (fun e => Ev.pre e.id) ++ final ++ sorted.reverse.map (fun e => Ev.post e.id) := by
  refine ⟨sortStable entries, sort_perm entries, sort_asc entries, sort_stable entries, ?_⟩
  unfold Model.Mw.apply
  split
  · rename_i he
    have : entries = [] := by simpa using he
    subst this; simp [sortStable]
  · exact chain_all_call final _ (fun e he => hcalls e ((sort_perm entries).mem_iff.mp he))

/-- With short-circuiting middlewares the trace is the nested expansion of the
sorted list (everything inside the first non-calling middleware is skipped). -/
theorem C13_mw_order_general (final : Handler) (entries : List Entry) :
    Model.Mw.apply final entries = expected final (sortStable entries) := by
  unfold Model.Mw.apply
  split
  · rename_i he
    have : entries = [] := by simpa using he
    subst this; rfl
  · exact chain_eq_expected final _

/-! ### non-vacuity -/

example : (Model.Resp.runConn [.status 204, .writeHeader 200, .write "x"]).client
    = { status := 200, hdr := [], body := "x", commits := 1 } := by decide

example : (Model.Resp.runConn [.status 200, .noContent 204, .write "x", .json "[1]"]).client
    = { status := 204, hdr := [], body := "", commits := 1 } := by decide

example : ∀ o ∈ [Op.status 204, Op.header "X" "1"], committing o = false := by decide

example : (Model.Resp.run [.header "X" "1", .status 201, .write "a", .status 500, .header "Y" "2", .write "b"]).client
    = { status := 201, hdr := [("X", ["1"])], body := "ab", commits := 1 } := by decide

example : ∃ o ∈ [Op.status 404, Op.noContent 204], committing o = true := ⟨Op.noContent 204, by simp, rfl⟩

example : Model.Mw.apply [Ev.final] [⟨5, 0, true⟩, ⟨0, 1, true⟩, ⟨0, 2, true⟩, ⟨-1, 3, true⟩]
    = [.pre 3, .pre 1, .pre 2, .pre 0, .final, .post 0, .post 2, .post 1, .post 3] := by decide

/-! ### trees of server objects (round 7): `group()` and the middleware slices

`Model.MwTopo` has Go's slices — (backing array, len), capacity = length of the array, `append` in place when
there is room — and one `middlewares` slice per server object; `Spec.MwTopo` has one plain list per object. -/

/-- **Every route is wrapped with its own object's middlewares.** If derived server objects copy the slice, then
for every program of `middleware()` / `group()` / route registrations on any tree of server objects, in any
order, every route is finalised with exactly the list the reference gives: what its object inherited when it was
created plus what was registered on that very object before the route. -/
theorem C13_topo_refines (ops : List Model.MwTopo.Op) :
    (Model.MwTopo.run true ops).routes = (Spec.MwTopo.run ops).routes :=
  (Proofs.MwTopo.inv_run ops).routes_eq

/-- … hence the trace of every route is the documented order over that list. -/
theorem C13_topo_traces (ops : List Model.MwTopo.Op) :
    Model.MwTopo.traces true ops = Spec.MwTopo.traces ops := by
  unfold Model.MwTopo.traces Spec.MwTopo.traces
  rw [C13_topo_refines]
  exact List.map_congr_left (fun l _ => Proofs.MwTopo.apply_eq_chain l)

/-- after any program every server object shows its own list -/
theorem C13_topo_object_lists (ops : List Model.MwTopo.Op) (i : Nat) (hi : i < (Model.MwTopo.run true ops).n) :
    Model.MwTopo.view (Model.MwTopo.run true ops).heap ((Model.MwTopo.run true ops).objs i) =
      (Spec.MwTopo.run ops).objs i :=
  (Proofs.MwTopo.inv_run ops).views i hi

/-- **Registrations on different server objects are independent.** After any program, a `middleware()` call on
object `o` leaves what every other object shows as it was (whatever the lengths and capacities are). -/
theorem C13_topo_append_independent (ops : List Model.MwTopo.Op) (o i : Nat) (e : Model.Mw.Entry)
    (hi : i < (Model.MwTopo.run true ops).n) (hne : i ≠ o) :
    Model.MwTopo.view (Model.MwTopo.run true (ops ++ [.mw o e])).heap ((Model.MwTopo.run true (ops ++ [.mw o e])).objs i) =
      Model.MwTopo.view (Model.MwTopo.run true ops).heap ((Model.MwTopo.run true ops).objs i) := by
  have hn : (Model.MwTopo.run true (ops ++ [.mw o e])).n = (Model.MwTopo.run true ops).n := by
    rw [Proofs.MwTopo.run_snoc]; simp only [Model.MwTopo.step]; split <;> rfl
  rw [C13_topo_object_lists _ i (by omega), C13_topo_object_lists _ i hi, Proofs.MwTopo.srun_snoc]
  simp only [Spec.MwTopo.step]
  split
  · simp [hne]
  · rfl

/-- **Two holders of one slice with spare capacity clobber each other.** Whatever the backing array holds: when
two server objects hold the same slice (same array, same len) and there is room (`len < cap`), then after the
first registers `a` and the second registers `b`, the FIRST one's list ends with `b` — its own middleware is gone
and a foreign one runs in its place. -/
theorem C13_alias_append_clobbers (h : Model.MwTopo.Heap) (next : Nat) (s : Model.MwTopo.Slice) (a b : Model.Mw.Entry)
    (hroom : s.len < (h s.arr).length) :
    Model.MwTopo.view (Model.MwTopo.appendS (Model.MwTopo.appendS h next s a).1 (Model.MwTopo.appendS h next s a).2.1 s b).1
        (Model.MwTopo.appendS h next s a).2.2 =
      Model.MwTopo.view h s ++ [b] := by
  have h1 : Model.MwTopo.appendS h next s a =
      (fun x => if x = s.arr then (h s.arr).set s.len a else h x, next, { arr := s.arr, len := s.len + 1 }) := by
    unfold Model.MwTopo.appendS; rw [if_pos hroom]
  rw [h1]
  have hroom2 : s.len < ((fun x => if x = s.arr then (h s.arr).set s.len a else h x) s.arr).length := by
    simp [hroom]
  unfold Model.MwTopo.appendS
  rw [if_pos hroom2]
  simp only [Model.MwTopo.view, if_true]
  rw [List.set_set, Proofs.MwTopo.take_set_append _ _ _ hroom]

/-- negation witness at len 3, cap 4 (the seeded shape): three middlewares on the parent, a group that takes the
slice itself, the group registers 4, the parent registers 5, the group registers a route: the route is finalised
with the parent's middleware 5 instead of the group's 4. -/
theorem C13_topo_alias_counterexample :
    (Model.MwTopo.run false [.mw 0 { prio := -1, id := 1 }, .mw 0 { prio := 0, id := 2 }, .mw 0 { prio := 0, id := 3 },
        .group 0, .mw 1 { prio := 1, id := 4 }, .mw 0 { prio := 0, id := 5 }, .route 1]).routes
      = [[{ prio := -1, id := 1 }, { prio := 0, id := 2 }, { prio := 0, id := 3 }, { prio := 0, id := 5 }]] ∧
    (Spec.MwTopo.run [.mw 0 { prio := -1, id := 1 }, .mw 0 { prio := 0, id := 2 }, .mw 0 { prio := 0, id := 3 },
        .group 0, .mw 1 { prio := 1, id := 4 }, .mw 0 { prio := 0, id := 5 }, .route 1]).routes
      = [[{ prio := -1, id := 1 }, { prio := 0, id := 2 }, { prio := 0, id := 3 }, { prio := 1, id := 4 }]] := by
  decide

/-- control: with two (or four) middlewares on the parent the slice is full, both appends reallocate, and the
aliasing constructor behaves — which is why ordinary use does not notice. -/
example : (Model.MwTopo.run false [.mw 0 { prio := -1, id := 1 }, .mw 0 { prio := 0, id := 2 },
        .group 0, .mw 1 { prio := 1, id := 4 }, .mw 0 { prio := 0, id := 5 }, .route 1]).routes
      = [[{ prio := -1, id := 1 }, { prio := 0, id := 2 }, { prio := 1, id := 4 }]] := by decide

/-- non-vacuity of `C13_topo_refines`: the same program on the copying model -/
example : (Model.MwTopo.run true [.mw 0 { prio := -1, id := 1 }, .mw 0 { prio := 0, id := 2 }, .mw 0 { prio := 0, id := 3 },
        .group 0, .mw 1 { prio := 1, id := 4 }, .mw 0 { prio := 0, id := 5 }, .route 1, .route 0]).routes
      = [[{ prio := -1, id := 1 }, { prio := 0, id := 2 }, { prio := 0, id := 3 }, { prio := 1, id := 4 }],
         [{ prio := -1, id := 1 }, { prio := 0, id := 2 }, { prio := 0, id := 3 }, { prio := 0, id := 5 }]] := by decide

/-- from the regenerated table to the model: if no place hands a derived object another object's slice itself,
the derivation the code performs is the copying one and every route of every program gets the documented trace. -/
theorem C13_derived_slices_sound (f : Model.MwTopo.Facts) (hwf : f.aliased = []) (ops : List Model.MwTopo.Op) :
    Model.MwTopo.traces f.copies ops = Spec.MwTopo.traces ops := by
  have : f.copies = true := by simp [Model.MwTopo.Facts.copies, hwf]
  rw [this]; exact C13_topo_traces ops

/-- **Obligation on the current source: derived server objects copy slice fields.** No composite literal or
assignment of std/net/http stores another object's slice-typed field (or a re-slice / `append` onto it) into a
slice-typed field; at least one derivation exists (`NewServerClassFromGroup`) and it is a recognised copy. -/
theorem C13_derived_slices_wf :
    Generated.C13.derivedSlices.aliased = [] ∧ Generated.C13.derivedSlices.shapeChanged = [] ∧
    Generated.C13.derivedSlices.derives ≠ [] := by decide

/-- … hence on the real constructors every tree of server objects gives every route the documented trace. -/
theorem C13_derived_slices_refine (ops : List Model.MwTopo.Op) :
    Model.MwTopo.traces Generated.C13.derivedSlices.copies ops = Spec.MwTopo.traces ops :=
  C13_derived_slices_sound _ C13_derived_slices_wf.1 ops

end C13
