import Proofs.Lemmas.Resp
import Proofs.Lemmas.Mw
/-!
# C13 — HTTP response commits once; pre-commit status/headers reach the client;
middlewares run in ascending priority, ties in registration order.

Property theorems only.  `Model.Resp` mirrors `std/net/http/response.go`,
`Spec.Resp.run` is the commit-once reference, `Model.Mw` mirrors
`applyMiddlewares`.
-/
namespace C13
open Model.Resp Spec.Resp Proofs.Resp

/-- **Refinement.** For every operation sequence what the client observes from
the buffered writer is exactly what the commit-once reference prescribes:
last status set up to the first committing operation (200 if none), the header
map at that point, the concatenation of all bodies, and the number of header
commits on the underlying connection. -/
theorem C13_refines (ops : List Op) : (Model.Resp.run ops).client = Spec.Resp.run ops := by
  have hsplit := List.takeWhile_append_dropWhile (p := fun o => !committing o) (l := ops)
  have hpre := pre_foldl (ops.takeWhile (fun o => !committing o)) (takeWhile_all ops) {} [] pre_init
  simp only [List.nil_append] at hpre
  unfold Spec.Resp.run
  cases hd : ops.dropWhile (fun o => !committing o) with
  | nil =>
    rw [hd, List.append_nil] at hsplit
    rw [hsplit] at hpre
    obtain ⟨h1, h2, h3, h4, h5⟩ := hpre
    simp only [Model.Resp.run, hsplit]
    cases hs : lastStatus ops with
    | none =>
      simp [hs] at h4 h5
      simp [St.finish, St.client, h1, h2, h3, h4]
    | some c =>
      simp [hs] at h4 h5
      simp [St.finish, St.client, St.writeHeader, Wire.writeHeader, h1, h2, h3, h4, h5]
  | cons c rest =>
    have hc : committing c = true := dw_head ops c rest hd
    have hpost0 := commit_step _ _ c hpre hc
    have hpost := post_foldl rest _ _ _ _ hpost0
    have hrun : Model.Resp.run ops =
        (rest.foldl step (step ((ops.takeWhile (fun o => !committing o)).foldl step {}) c)).finish := by
      conv => lhs; rw [Model.Resp.run, ← hsplit, hd]
      simp [List.foldl_append]
    rw [hrun, post_finish _ _ _ _ hpost, post_client _ _ _ _ hpost]
    have hbody : concat (ops.map bodyOf) = bodyOf c ++ concat (rest.map bodyOf) := by
      conv => lhs; rw [← hsplit, hd]
      rw [List.map_append, concat_append, concat_map_bodyOf_pre _ (takeWhile_all ops), List.map_cons,
        concat_cons]
      simp
    simp [hbody]

/-- **At most one header commit** reaches the underlying connection, for every
operation sequence. (Also a corollary of `C13_refines`; proved from the
invariant so that it does not depend on the spec.) -/
theorem C13_single_commit (ops : List Op) : (Model.Resp.run ops).wire.commits ≤ 1 := by
  have h := inv_foldl ops {} inv_init
  have hf : Inv (ops.foldl step {}).finish := by
    unfold St.finish; split
    · exact inv_writeHeader _ _ h
    · exact h
  unfold Model.Resp.run
  rcases hh : (ops.foldl step {}).finish.headerSent with _ | _
  · have := (hf.unsent hh).2.1; omega
  · have := (hf.sent hh).2; omega

/-- **Calls after the commit are inert** for status and already-sent headers:
once `ops₁` contains a committing operation, no continuation changes the status
or the header block the client receives; it can only append body bytes. -/
theorem C13_post_commit_inert (ops₁ ops₂ : List Op) (h : ∃ o ∈ ops₁, committing o = true) :
    (Model.Resp.run (ops₁ ++ ops₂)).client.status = (Model.Resp.run ops₁).client.status ∧
    (Model.Resp.run (ops₁ ++ ops₂)).client.hdr = (Model.Resp.run ops₁).client.hdr ∧
    (Model.Resp.run (ops₁ ++ ops₂)).client.commits = 1 ∧
    (Model.Resp.run (ops₁ ++ ops₂)).client.body =
      (Model.Resp.run ops₁).client.body ++ concat (ops₂.map bodyOf) := by
  obtain ⟨o, ho, hc⟩ := h
  have hd1 : ∃ c rest, ops₁.dropWhile (fun o => !committing o) = c :: rest := by
    cases hd : ops₁.dropWhile (fun o => !committing o) with
    | nil =>
      have := dw_nil_all ops₁ hd o ho
      simp [hc] at this
    | cons c rest => exact ⟨c, rest, rfl⟩
  obtain ⟨c, rest, hd⟩ := hd1
  obtain ⟨htw, hdw⟩ := split_append ops₁ ops₂ c rest hd
  rw [C13_refines, C13_refines]
  simp only [Spec.Resp.run, htw, hdw, hd]
  simp [List.map_append, concat_append]

/-- **Default 200**: if no operation up to and including the first committing
one asks for a status, the client receives 200. -/
theorem C13_default_200 (ops : List Op) (h : ∀ o ∈ ops, statusOf o = none) :
    (Model.Resp.run ops).client.status = 200 := by
  rw [C13_refines]
  have hnone : ∀ l : List Op, (∀ o ∈ l, o ∈ ops) → lastStatus l = none := by
    intro l hl
    have : l.filterMap statusOf = [] := by
      rw [List.filterMap_eq_nil_iff]; intro a ha; exact h a (hl a ha)
    simp [lastStatus, this]
  have hsplit := List.takeWhile_append_dropWhile (p := fun o => !committing o) (l := ops)
  unfold Spec.Resp.run
  cases hd : ops.dropWhile (fun o => !committing o) with
  | nil =>
    have := hnone (ops.takeWhile (fun o => !committing o))
      (fun o ho => (List.takeWhile_sublist _).subset ho)
    simp [this]
  | cons c rest =>
    have := hnone (ops.takeWhile (fun o => !committing o) ++ [c]) (by
      intro o ho
      rw [← hsplit, hd]
      rcases List.mem_append.mp ho with h1 | h1
      · exact List.mem_append_left _ h1
      · exact List.mem_append_right _ (by simp at h1; simp [h1]))
    simp [this]

/-! ### middleware order -/
open Model.Mw Proofs.Mw

/-- **Middleware order.** The served trace is: `pre` of every middleware in
ascending priority, the final handler, then `post` in the reverse order — each
middleware wraps all later ones — where the order is a stable sort of the
registration list: it is a permutation, ascending in priority, and entries of
equal priority keep their registration order. -/
theorem C13_mw_order (final : Handler) (entries : List Entry) (hcalls : ∀ e ∈ entries, e.calls = true) :
    ∃ sorted : List Entry,
      sorted.Perm entries ∧
      sorted.Pairwise (fun a b => a.prio ≤ b.prio) ∧
      (∀ p : Int, sorted.filter (fun x => x.prio == p) = entries.filter (fun x => x.prio == p)) ∧
      Model.Mw.apply final entries =
        sorted.map (fun e => Ev.pre e.id) ++ final ++ sorted.reverse.map (fun e => Ev.post e.id) := by
  refine ⟨sortStable entries, sort_perm entries, sort_asc entries, sort_stable entries, ?_⟩
  unfold Model.Mw.apply
  split
  · rename_i he
    have : entries = [] := by simpa using he
    subst this; simp [sortStable]
  · exact chain_all_call final _ (fun e he => hcalls e ((sort_perm entries).mem_iff.mp he))

/-- With short-circuiting middlewares the trace is the nested expansion of the
sorted list (everything inside the first non-calling middleware is skipped). -/
theorem C13_mw_order_general (final : Handler) (entries : List Entry) :
    Model.Mw.apply final entries = expected final (sortStable entries) := by
  unfold Model.Mw.apply
  split
  · rename_i he
    have : entries = [] := by simpa using he
    subst this; rfl
  · exact chain_eq_expected final _

/-! ### non-vacuity -/

example : (Model.Resp.run [.header "X" "1", .status 201, .write "a", .status 500, .header "Y" "2", .write "b"]).client
    = { status := 201, hdr := [("X", ["1"])], body := "ab", commits := 1 } := by decide

example : ∃ o ∈ [Op.status 404, Op.noContent 204], committing o = true := ⟨Op.noContent 204, by simp, rfl⟩

example : Model.Mw.apply [Ev.final] [⟨5, 0, true⟩, ⟨0, 1, true⟩, ⟨0, 2, true⟩, ⟨-1, 3, true⟩]
    = [.pre 3, .pre 1, .pre 2, .pre 0, .final, .post 0, .post 2, .post 1, .post 3] := by decide

end C13
