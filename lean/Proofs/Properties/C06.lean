import Proofs.Lemmas.HeapSpecLocal
import Proofs.Lemmas.RefSlotLocal
import Generated.C06ScalarWrites
import Proofs.Lemmas.Summary
import Generated.C06ArrayFields
/-!
# C06 — arrays are values: writes through a copy never show through the original

Property theorems only.  `Model.Heap` mirrors how origami stores, copies and mutates
arrays (cells and array objects with identities; an in-place mutation reaches every
holder of the mutated identity); `Cfg.fixed` is the tree with the C06 fixes, `Cfg.shallow`
the tree before the last of them (copies share their inner array objects), `Cfg.pinned`
the tree before all of them.  `Spec.Val` is what a user relies on: every name denotes an
immutable tree and a write rebuilds the tree of the written name only.  `abs` forgets all
identities.

Programs are lists of statements over any number of variables (`$x = rhs` — which is
also by-value parameter binding and `$x = f(…)` —, `$x->p = rhs`, `place[k] = rhs`,
`place[] = rhs`, `unset(place[k])`, `place->push/pop/shift/unshift/sort`, `new`,
`clone`, `$x = &$y`); a *place* is `$x`, `$x->p` or `place[k]` to **any depth**
(`$x[i][j][] = …`; missing keys on the way are created by a store, as PHP does);
right-hand sides are scalars, array literals of any depth (whose items may read places),
reads of places of any depth, and **call results** (`RV.call p`: the value of a call that
returns what place `p` holds — a getter, a function returning a static local / a global,
an element of a by-value copy). A call result is the owner's own pointer (`return` does
not copy); it reaches the next by-value boundary (`f($o->get())`, `new K($o->get())`,
`$q->p = $o->get()`, `$c[] = $o->get()`) with no variable in between — a *composite* copy
route. The theorems below cover these routes because `RV` ranges over them;
`C06_call_result_copy_needed` shows that the copy made at such a boundary is necessary.

**Scalar payloads.**  Elements are integers, strings, null or object handles, and a
right-hand side may be `RV.upd place f`: the new scalar a *compound assignment*
(`place .= c`, `+=`, `*=`, `??=`) computes from the one the place holds, so
`$b[k] .= 'x'` is the statement `setIdx b k (.upd (.idx b k) (.concat x))` and every theorem
below ranges over such statements.  A scalar has no identity in the model — there is no
`*StringValue` object that two cells could share — so the model cannot express an
implementation that appends to the element's value object in place; it states the design
(copies share the cells and value objects of scalar elements *because* neither is ever
mutated; `C06_compound_rhs_pure`, `C06_compound_is_store`) and the correspondence run, the
before/after oracle over every element kind × mutation form × copy route and the regenerated
list of Go sites that assign a scalar value object's field (`C06_scalar_objects_immutable`)
tie the code to it.

The statement holds at full strength since the copy made at every copy point
(`CloneArrayValue` / `CloneObjectValue`) is recursive (fix C06-6): no array object is
reachable from two places, so the in-place mutation the interpreter performs for a nested
write touches one name only.  With the shallow copy the statement was false
(`C06_shallow_nested_counterexample`, replayed on the real code by the harness).
-/
namespace C06
open Model.Heap Proofs.Heap
open Spec.Val (abs eraseVal Tree)

/-- the invariant of the simulation (`Proofs.Heap.Inv`): every array object occurs at most
once in the whole state — no two variables / properties / array elements reach the same
array object — and identities in use are below the allocator -/
abbrev NoSharing (s : St) : Prop := Proofs.Heap.Inv s

/-- **Value semantics.**  For every number of variables and every program — writes through
places of any depth, missing intermediate keys created on the way — the values of all names
after the run on the implementation model are exactly the values the immutable-tree
semantics gives, whatever was copied by assignment, parameter binding, return, property
store / read, element store / read, array literal or `clone` in between. -/
theorem C06_value_semantics (nv : Nat) (ops : List Op) :
    abs (run .fixed nv ops) = Spec.Val.run nv ops :=
  (run_sim nv ops).2

/-- **The invariant behind it** holds in every reachable state. -/
theorem C06_no_sharing (nv : Nat) (ops : List Op) : NoSharing (run .fixed nv ops) :=
  (run_sim nv ops).1

/-- **The reference semantics has the property.**  In `Spec.Val` a mutating statement
through a place of any depth (`$x[i][j][] = …`, `unset($o->p[k][l])`, `$x[i]->push(…)`)
changes the name the place is rooted in and nothing else. -/
theorem C06_spec_write_local (s : Spec.Val.St) (w : Op) (b : Place) (hw : w.target = some b) :
    match b.root with
    | .var x =>
      (Spec.Val.step s w).objs = s.objs ∧
      ∀ y, s.names[y]? ≠ s.names[x]? → (Spec.Val.step s w).varVal? y = s.varVal? y
    | .prop x p =>
      (∀ y, (Spec.Val.step s w).varVal? y = s.varVal? y) ∧
      ∀ h p', (s.varObj? x ≠ some h ∨ p' ≠ p) → (Spec.Val.step s w).propVal? h p' = s.propVal? h p'
    | .idx _ _ => True := by
  rcases spec_step_target s w b hw with h | ⟨c, g, h⟩
  · rw [h]; cases b.root <;> simp
  · exact spec_modify_local s _ c b _ h

/-- **A write through one name is invisible through every other name.**  After any
program, a mutating statement `w` (element store, append, unset, push / pop / shift /
unshift / sort) through a place of any depth rooted in `$x` changes no object and no
variable other than the ones `&`-bound to `$x`; through a place rooted in `$x->p` it
changes no variable and no property other than property `p` of the object `$x` holds. -/
theorem C06_write_invisible (nv : Nat) (ops : List Op) (w : Op) (b : Place) (hw : w.target = some b) :
    match b.root with
    | .var x =>
      (abs (run .fixed nv (ops ++ [w]))).objs = (abs (run .fixed nv ops)).objs ∧
      ∀ y, (run .fixed nv ops).names[y]? ≠ (run .fixed nv ops).names[x]? →
        (abs (run .fixed nv (ops ++ [w]))).varVal? y = (abs (run .fixed nv ops)).varVal? y
    | .prop x p =>
      (∀ y, (abs (run .fixed nv (ops ++ [w]))).varVal? y = (abs (run .fixed nv ops)).varVal? y) ∧
      ∀ h p', ((run .fixed nv ops).varObj? x ≠ some h ∨ p' ≠ p) →
        (abs (run .fixed nv (ops ++ [w]))).propVal? h p' = (abs (run .fixed nv ops)).propVal? h p'
    | .idx _ _ => True := by
  have hn : (run .fixed nv ops).names = (Spec.Val.run nv ops).names := by
    rw [← C06_value_semantics nv ops]; rfl
  have ho : ∀ x, (run .fixed nv ops).varObj? x = (Spec.Val.run nv ops).varObj? x := by
    intro x; rw [← C06_value_semantics nv ops, abs_varObj?]
  have hstep : Spec.Val.run nv (ops ++ [w]) = Spec.Val.step (Spec.Val.run nv ops) w := by
    simp [Spec.Val.run, List.foldl_append]
  have := C06_spec_write_local (Spec.Val.run nv ops) w b hw
  rw [C06_value_semantics nv (ops ++ [w]), C06_value_semantics nv ops, hstep, hn]
  cases hb : b.root with
  | idx b' k => trivial
  | var x => rw [hb] at this; exact this
  | prop x p => rw [hb] at this; simp only [ho]; exact this

/-- **`clone` yields an independent object.**  After any program in which `$y` holds the
(live) object `h`: execute `$x = clone $y;` and then any mutating statement through a place
of any depth below a property of the clone (`$x->p[i][] = …`) — every property of the
original object `h`, array-valued ones included, is what it was.  Symmetrically (when `$x`
is not `&`-bound to `$y`) a write below a property of the original leaves every property of
the clone alone. -/
theorem C06_clone_independent (nv : Nat) (ops : List Op) (x y p h : Nat) (w : Op) (b : Place)
    (hy : (run .fixed nv ops).varObj? y = some h) (hlive : h < (run .fixed nv ops).objs.length)
    (hw : w.target = some b) :
    (b.root = .prop x p → ∀ p',
      (abs (run .fixed nv (ops ++ [.clone x y, w]))).propVal? h p' = (abs (run .fixed nv ops)).propVal? h p') ∧
    (b.root = .prop y p → (run .fixed nv ops).names[y]? ≠ (run .fixed nv ops).names[x]? → ∀ p',
      (abs (run .fixed nv (ops ++ [.clone x y, w]))).propVal? (run .fixed nv ops).objs.length p' =
        (abs (run .fixed nv (ops ++ [.clone x y]))).propVal? (run .fixed nv ops).objs.length p') := by
  have hs := C06_value_semantics nv ops
  have hy' : (Spec.Val.run nv ops).varObj? y = some h := by rw [← hs, abs_varObj?]; exact hy
  have hlen : (Spec.Val.run nv ops).objs.length = (run .fixed nv ops).objs.length := by
    rw [← hs]; simp [abs]
  have hl' : h < (Spec.Val.run nv ops).objs.length := by omega
  have hnames : (run .fixed nv ops).names = (Spec.Val.run nv ops).names := by rw [← hs]; rfl
  have r2 : Spec.Val.run nv (ops ++ [.clone x y, w]) =
      Spec.Val.step (Spec.Val.step (Spec.Val.run nv ops) (.clone x y)) w := by
    simp [Spec.Val.run, List.foldl_append]
  have r1 : Spec.Val.run nv (ops ++ [.clone x y]) = Spec.Val.step (Spec.Val.run nv ops) (.clone x y) := by
    simp [Spec.Val.run, List.foldl_append]
  obtain ⟨c1, c2, c3, c4⟩ := spec_clone (Spec.Val.run nv ops) x y h hy' hl'
  have hloc := C06_spec_write_local (Spec.Val.step (Spec.Val.run nv ops) (.clone x y)) w b hw
  rw [C06_value_semantics nv (ops ++ [Op.clone x y, w]), C06_value_semantics nv (ops ++ [Op.clone x y]), hs, r2, r1, ← hlen]
  constructor
  · intro hb p'
    rw [hb] at hloc
    rw [hloc.2 h p' (Or.inl (by rcases c3 with e | e <;> rw [e] <;> simp <;> omega))]
    simp only [Spec.Val.St.propVal?, c1, List.getElem?_append_left hl']
  · intro hb hne p'
    rw [hb] at hloc
    apply hloc.2
    left
    -- `$y` still holds the original object
    have hyv : (Spec.Val.step (Spec.Val.run nv ops) (.clone x y)).varObj? y = some h := by
      simp only [Spec.Val.St.varObj?]
      rw [c4 y (by rw [← hnames]; exact hne)]
      exact hy'
    rw [hyv]; simp; omega

/-- **An explicit reference does share.**  On either tree: once `$x = &$y` has run,
and as long as no later statement rebinds a name with `&`, `$x` and `$y` are the same
variable — they read the same value after any further statements, including writes
through either of them. -/
theorem C06_reference_shared (cfg : Cfg) (nv : Nat) (ops₁ ops₂ : List Op) (x y : Nat) (hx : x < nv) (hy : y < nv)
    (hr : ∀ op ∈ ops₂, op.isRef = false) :
    (run cfg nv (ops₁ ++ .ref x y :: ops₂)).names[x]? = (run cfg nv (ops₁ ++ .ref x y :: ops₂)).names[y]? ∧
    (run cfg nv (ops₁ ++ .ref x y :: ops₂)).varVal? x = (run cfg nv (ops₁ ++ .ref x y :: ops₂)).varVal? y := by
  have hnames : (run cfg nv (ops₁ ++ .ref x y :: ops₂)).names[x]? = (run cfg nv (ops₁ ++ .ref x y :: ops₂)).names[y]? := by
    simp only [run, List.foldl_append, List.foldl_cons]
    rw [foldl_names cfg ops₂ hr]
    have hlen : (List.foldl (step cfg) (init nv) ops₁).names.length = nv := by
      rw [foldl_names_length]; simp [init]
    exact ref_names cfg _ x y (by omega) (by omega)
  exact ⟨hnames, by simp only [St.varVal?, hnames]⟩

/-! ### What is false: negation witnesses (replayed on the real code by the harness) -/

mutual
/-- the scalars of a tree, left to right (a decidable observation of a value) -/
def leaves : Tree → List Int
  | .sc (.int n) => [n]
  | .sc _ => [-1]
  | .arr kids => leavesL kids
def leavesL : List (Key × Tree) → List Int
  | [] => []
  | (_, t) :: r => leaves t ++ leavesL r
end

/-- what variable `x` holds, as a list of scalars -/
def obs (s : Spec.Val.St) (x : Nat) : List Int :=
  match s.varVal? x with
  | some t => leaves t
  | none => []

def lit123 : Lit := .arr [(.pos, .int 1), (.pos, .int 2), (.pos, .int 3)]
def litNested : Lit := .arr [(.pos, .arr [(.pos, .int 1), (.pos, .int 2)]), (.pos, .arr [(.pos, .int 3)])]

/-- `$a = [[1,2],[3]]; $b = $a; $b[0][0] = 9;` -/
def nestedWitness : List Op :=
  [.setVar 0 (.lit litNested), .setVar 1 (.rd (.var 0)), .setIdx (.idx (.var 1) (.int 0)) (some (.int 0)) (.int 9)]

/-- `$a = [1,2,3]; $b = $a; $b[0] = 9;` -/
def flatWitness : List Op :=
  [.setVar 0 (.lit lit123), .setVar 1 (.rd (.var 0)), .setIdx (.var 1) (some (.int 0)) (.int 9)]

/-- `$c = [0,0]; $a = [1,2,3]; $c[1] = $a; $a[] = 9;` -/
def elemWitness : List Op :=
  [.setVar 1 (.lit (.arr [(.pos, .int 0), (.pos, .int 0)])), .setVar 0 (.lit lit123),
   .setIdx (.var 1) (some (.int 1)) (.rd (.var 0)), .setIdx (.var 0) none (.int 9)]

/-- **With the shallow copy the statement was false**: `$b = $a; $b[0][0] = 9;` changed
`$a` — `CloneArrayValue` copied the slot list only, the two copies shared the inner array
object, and the nested store mutates that object in place. -/
theorem C06_shallow_nested_counterexample :
    ¬ (∀ (nv : Nat) (ops : List Op), abs (run .shallow nv ops) = Spec.Val.run nv ops) := by
  intro h
  have := congrArg (fun s => obs s 0) (h 2 nestedWitness)
  revert this
  decide

/-- outcomes of the nested witness, as the harness replays them: `$a` reads `1,2,3` on the
model of this tree (and on the real code) and under value semantics, `9,2,3` with the
shallow copy; `$b` reads `9,2,3` everywhere -/
theorem C06_nested_witness_outcomes :
    obs (abs (run .fixed 2 nestedWitness)) 0 = [1, 2, 3] ∧ obs (Spec.Val.run 2 nestedWitness) 0 = [1, 2, 3] ∧
    obs (abs (run .shallow 2 nestedWitness)) 0 = [9, 2, 3] ∧
    obs (abs (run .fixed 2 nestedWitness)) 1 = [9, 2, 3] ∧ obs (abs (run .shallow 2 nestedWitness)) 1 = [9, 2, 3] := by
  decide

/-- `$a = [[1]]; $a[0][] = $a;` -/
def selfStoreWitness : List Op :=
  [.setVar 0 (.lit (.arr [(.pos, .arr [(.pos, .int 1)])])),
   .setIdx (.idx (.var 0) (.int 0)) none (.rd (.var 0))]

/-- **A copy of an array stored into one of its own inner arrays is a finite value.**
With the shallow copy the stored copy shared `$a[0]`, the array it was appended to — a
cyclic value, fatal to print; now `$a` is `[[1, [[1]]]]`, as under value semantics. -/
theorem C06_self_store_outcomes :
    obs (abs (run .fixed 1 selfStoreWitness)) 0 = [1, 1] ∧ obs (Spec.Val.run 1 selfStoreWitness) 0 = [1, 1] := by
  decide

/-- **Before the fixes the flat case was false as well**: `$b = $a; $b[0] = 9;` changed
`$a` (`SetIntKey` assigned the cell shared by both arrays); with the fix it does not. -/
theorem C06_pinned_flat_counterexample :
    obs (abs (run .pinned 2 flatWitness)) 0 = [9, 2, 3] ∧ obs (abs (run .fixed 2 flatWitness)) 0 = [1, 2, 3] ∧
    obs (Spec.Val.run 2 flatWitness) 0 = [1, 2, 3] := by
  decide

/-- **… and an array stored into another array stayed the same object**: after
`$c[1] = $a;` an append to `$a` showed in `$c[1]`; with the fix it does not. -/
theorem C06_pinned_elemstore_counterexample :
    obs (abs (run .pinned 2 elemWitness)) 1 = [0, 1, 2, 3, 9] ∧ obs (abs (run .fixed 2 elemWitness)) 1 = [0, 1, 2, 3] ∧
    obs (Spec.Val.run 2 elemWitness) 1 = [0, 1, 2, 3] := by
  decide

/-- `$o = new O; $o->p0 = [1,2,3]; f($o->get0())` where `f($p) { $p[] = 9; }`
(`$v1` is the callee's parameter) -/
def callResultWitness : List Op :=
  [.new 0, .setProp 0 0 (.lit lit123), .setVar 1 (.call (.prop 0 0)), .setIdx (.var 1) none (.int 9)]

/-- what property `p` of object `h` holds, as a list of scalars -/
def obsProp (s : Spec.Val.St) (h p : Nat) : List Int :=
  match s.propVal? h p with
  | some t => leaves t
  | none => []

/-- **A call result bound to a by-value parameter must be copied.**  With the copy at
the binding elided for call results (`Cfg.elided` — "a call result is a temporary nobody
else holds"), value semantics fails already for a *flat* program: the getter returns the
property's own array, the parameter becomes that array, and the callee's append lands in
the property.  With the copy (`Cfg.fixed`) the same program is fine — it is an instance
of `C06_value_semantics_partial`. -/
theorem C06_call_result_copy_needed :
    FlatWrites callResultWitness ∧
    ¬ (∀ (nv : Nat) (ops : List Op), FlatWrites ops → abs (run .elided nv ops) = Spec.Val.run nv ops) := by
  refine ⟨by decide, ?_⟩
  intro h
  have := congrArg (fun s => obsProp s 0 0) (h 2 callResultWitness (by decide))
  revert this
  decide

/-- outcomes of that witness, as the harness replays them on the real code: the property
reads `1,2,3` on the model of this tree and under value semantics, `1,2,3,9` under the
elision; the parameter reads `1,2,3,9` everywhere -/
theorem C06_call_result_witness_outcomes :
    obsProp (abs (run .fixed 2 callResultWitness)) 0 0 = [1, 2, 3] ∧
    obsProp (Spec.Val.run 2 callResultWitness) 0 0 = [1, 2, 3] ∧
    obsProp (abs (run .elided 2 callResultWitness)) 0 0 = [1, 2, 3, 9] ∧
    obs (abs (run .fixed 2 callResultWitness)) 1 = [1, 2, 3, 9] ∧
    obs (abs (run .elided 2 callResultWitness)) 1 = [1, 2, 3, 9] := by
  decide

/-- **A composite route is an ordinary route**: on this tree (and in the reference
semantics) a by-value boundary fed from a call result behaves exactly as if the value had
been read from the place directly — for every statement kind that has a right-hand side,
in every state.  (This is why the invariant and the simulation extend to composite
routes without a new case; under `Cfg.elided` the first equation is false.) -/
theorem C06_call_result_is_read (s : St) (x p : Nat) (b pl : Place) (k : Option IKey) :
    stepOpt .fixed s (.setVar x (.call pl)) = stepOpt .fixed s (.setVar x (.rd pl)) ∧
    stepOpt .fixed s (.setProp x p (.call pl)) = stepOpt .fixed s (.setProp x p (.rd pl)) ∧
    stepOpt .fixed s (.setIdx b k (.call pl)) = stepOpt .fixed s (.setIdx b k (.rd pl)) ∧
    ∀ t : Spec.Val.St, Spec.Val.evalRV t (.call pl) = Spec.Val.evalRV t (.rd pl) :=
  ⟨rfl, rfl, rfl, fun _ => rfl⟩

/-! ### Compound assignments on elements: a scalar payload is never changed in place -/

/-- **The right-hand side of a compound assignment only reads.**  Evaluating `place op= c`'s
right-hand side (`RV.upd place f`) on any tree leaves the state exactly as it was and yields
the scalar `f` computes from the scalar the place holds — nothing is written before the
store.  (The implementation: `assignIndexConcat` reads the element, `concatPHPValues` builds a
NEW value, the slot store replaces the cell.  An in-place `ls.Value += rs.Value` on the
element's `*StringValue` — shared by every copy of the array — has no counterpart here.) -/
theorem C06_compound_rhs_pure (cfg : Cfg) (s s' : St) (p : Place) (u : Upd) (v : Val)
    (h : evalRV cfg s (.upd p u) = some (v, s')) :
    s' = s ∧ ∃ sv r, readPlace s p = some (.sc sv) ∧ u.apply sv = some r ∧ v = .sc r := by
  simp only [evalRV] at h
  cases hr : readPlace s p with
  | none => simp [hr] at h
  | some w =>
    cases w with
    | arr a kids => simp [hr] at h
    | sc sv =>
      cases hu : u.apply sv with
      | none => simp [hr, hu] at h
      | some r =>
        simp [hr, hu] at h
        exact ⟨h.2.symm, sv, r, rfl, hu, h.1.symm⟩

/-- **… so a compound assignment IS the plain store of the computed scalar**, on every tree
and in every state: `$b[k] .= 'x'` with `$b[k] = 'ab'` is `$b[k] = 'abx'`; `$b[k] += 3`
with `$b[k] = 4` is `$b[k] = 7`.  Everything proved about stores — the cell is replaced, the
array object of the written name only is touched — holds for compound assignments. -/
theorem C06_compound_is_store (cfg : Cfg) (s : St) (b p : Place) (k : Option IKey) (u : Upd) (sv : Scalar)
    (hr : readPlace s p = some (.sc sv)) :
    (∀ cs, u.apply sv = some (.str cs) →
      stepOpt cfg s (.setIdx b k (.upd p u)) = stepOpt cfg s (.setIdx b k (.str cs))) ∧
    (∀ n, u.apply sv = some (.int n) →
      stepOpt cfg s (.setIdx b k (.upd p u)) = stepOpt cfg s (.setIdx b k (.int n))) := by
  constructor
  · intro cs hu; simp [stepOpt, evalRV, hr, hu]
  · intro n hu; simp [stepOpt, evalRV, hr, hu]

/-- **A compound assignment through one name is invisible through every other name** — the
instance of `C06_write_invisible` for `place[k] op= c` at any depth, after any program. -/
theorem C06_compound_assign_invisible (nv : Nat) (ops : List Op) (b : Place) (k : IKey) (u : Upd) :
    match b.root with
    | .var x =>
      (abs (run .fixed nv (ops ++ [.setIdx b (some k) (.upd (.idx b k) u)]))).objs = (abs (run .fixed nv ops)).objs ∧
      ∀ y, (run .fixed nv ops).names[y]? ≠ (run .fixed nv ops).names[x]? →
        (abs (run .fixed nv (ops ++ [.setIdx b (some k) (.upd (.idx b k) u)]))).varVal? y = (abs (run .fixed nv ops)).varVal? y
    | .prop x p =>
      (∀ y, (abs (run .fixed nv (ops ++ [.setIdx b (some k) (.upd (.idx b k) u)]))).varVal? y = (abs (run .fixed nv ops)).varVal? y) ∧
      ∀ h p', ((run .fixed nv ops).varObj? x ≠ some h ∨ p' ≠ p) →
        (abs (run .fixed nv (ops ++ [.setIdx b (some k) (.upd (.idx b k) u)]))).propVal? h p' = (abs (run .fixed nv ops)).propVal? h p'
    | .idx _ _ => True :=
  C06_write_invisible nv ops (.setIdx b (some k) (.upd (.idx b k) u)) b rfl

mutual
/-- the scalars of a tree, left to right, strings included -/
def sleaves : Tree → List Scalar
  | .sc s => [s]
  | .arr kids => sleavesL kids
def sleavesL : List (Key × Tree) → List Scalar
  | [] => []
  | (_, t) :: r => sleaves t ++ sleavesL r
end

def sobs (s : Spec.Val.St) (x : Nat) : List Scalar :=
  match s.varVal? x with
  | some t => sleaves t
  | none => []

/-- `$a = ['ab', 'cd', 7]; $b = $a; $b[0] .= 'x'; $b[2] .= 'y'; $a[1] .= 'z';` -/
def concatWitness : List Op :=
  [.setVar 0 (.lit (.arr [(.pos, .str [97, 98]), (.pos, .str [99, 100]), (.pos, .int 7)])), .setVar 1 (.rd (.var 0)),
   .setIdx (.var 1) (some (.int 0)) (.upd (.idx (.var 1) (.int 0)) (.concat [120])),
   .setIdx (.var 1) (some (.int 2)) (.upd (.idx (.var 1) (.int 2)) (.concat [121])),
   .setIdx (.var 0) (some (.int 1)) (.upd (.idx (.var 0) (.int 1)) (.concat [122]))]

/-- outcomes of the `.=` witness, as the harness replays them on the real code: on the model
(of this tree, and of the trees before the fixes that do not concern flat copies) and under
value semantics `$a` reads `ab, cdz, 7` and `$b` reads `abx, cd, 7y` — an implementation
that appends to the shared string object gives `abx, cdz, 7` for both -/
theorem C06_concat_witness_outcomes :
    sobs (abs (run .fixed 2 concatWitness)) 0 = [.str [97, 98], .str [99, 100, 122], .int 7] ∧
    sobs (abs (run .fixed 2 concatWitness)) 1 = [.str [97, 98, 120], .str [99, 100], .str [55, 121]] ∧
    sobs (Spec.Val.run 2 concatWitness) 0 = [.str [97, 98], .str [99, 100, 122], .int 7] ∧
    sobs (Spec.Val.run 2 concatWitness) 1 = [.str [97, 98, 120], .str [99, 100], .str [55, 121]] ∧
    sobs (abs (run .shallow 2 concatWitness)) 0 = [.str [97, 98], .str [99, 100, 122], .int 7] := by
  decide

/-! ### Regenerated facts: the two conventions the sharing of scalar elements rests on

Copies of an array share the `*ZVal` cells of their scalar elements and the scalar value
objects in them.  That is sound only as long as (1) no scalar value object is changed after
construction and (2) no cell of an array's slot list is written in place unless it is bound by
an explicit `&`.  No Go type enforces either; `extract/c06` lists, from the type-checked source
of every package linked into the interpreter, every site that could break them
(`Generated.C06ScalarWrites`), and the two theorems below say that the list holds nothing but
the sites examined here.  A new `x.Value += …` on a `*StringValue`, a new `list[i].Value = v`
on a slot, breaks `lake build`. -/

open Model.ScalarSites

/-- sites (file, function, struct, kind) that write a scalar value object after construction,
each with the reason it cannot be observed through another holder of that object -/
def knownScalarWrites : List (String × String × String × String) := [
  -- `ReferenceValue.Scan` (target of database/sql `Scan`) updates the variable's current value
  -- object when the variable has no declared type. Latent: its only script-level entry points,
  -- `Database\Sql` `Rows::scan` / `Row::scan`, fail in their by-reference variadic binding
  -- before they get here (checked on the CLI); if it becomes reachable it must store a new
  -- value (`SetVariableValue`) like its `assignTo…Type` siblings do.
  ("data/value_reference.go", "ReferenceValue.updateIntValue", "IntValue", "assign"),
  ("data/value_reference.go", "ReferenceValue.updateFloatValue", "FloatValue", "assign"),
  ("data/value_reference.go", "ReferenceValue.updateStringValue", "StringValue", "assign"),
  ("data/value_reference.go", "ReferenceValue.updateBoolValue", "BoolValue", "assign"),
  -- `Serializer.Unmarshal…(data, v)`: decodes JSON into the object it is handed. Its caller
  -- `unmarshalWithExpected` hands it a freshly created object (fix C06-8; before, it handed the
  -- property's current value object, so `json_decode($json, 'K')` rewrote K's default values and
  -- every array element sharing them — expectation `json-decode-class-default` of the harness).
  ("std/serializer/json/json_serializer.go", "JsonSerializer.UnmarshalInt", "IntValue", "addr"),
  ("std/serializer/json/json_serializer.go", "JsonSerializer.UnmarshalString", "StringValue", "addr"),
  ("std/serializer/json/json_serializer.go", "JsonSerializer.UnmarshalBool", "BoolValue", "addr"),
  ("std/serializer/json/json_serializer.go", "JsonSerializer.UnmarshalFloat", "FloatValue", "addr")]

/-- unguarded writes (file, function, field) to a cell taken from an array's slot list that are
fine because the array was built in the same call and nobody else holds it yet -/
def knownSlotWrites : List (String × String × String) := [
  -- a later `'k' => v` of an array literal overwrites an earlier one: the literal under construction
  ("node/array.go", "setArrayLiteralEntry", "Value"),
  -- names the slots of the result array it has just built from values
  ("std/php/array/array_intersect_key.go", "ArrayIntersectKeyFunction.Call", "Name")]

def scalarWriteViolations (tbl : List ScalarWrite) : List ScalarWrite :=
  tbl.filter (fun w => !(knownScalarWrites.contains (w.file, w.fn, w.typ, w.kind)))

/-- a write to a slot cell is fine when guarded by `RefSlotCount > 0` (the slot is bound by an
explicit `&`: write-through is the point), when the cell is the array's own (`OwnSlot`), or
when it is one of the examined sites -/
def slotWriteViolations (tbl : List CellWrite) : List CellWrite :=
  tbl.filter (fun w => w.origin == "slot" && !w.guarded && !(knownSlotWrites.contains (w.file, w.fn, w.field)))

/-- what the decidable check means, for any table -/
theorem C06_scalar_site_check_sound (tbl : List ScalarWrite) (h : scalarWriteViolations tbl = []) :
    ∀ w ∈ tbl, (w.file, w.fn, w.typ, w.kind) ∈ knownScalarWrites := by
  intro w hw
  have : w ∉ scalarWriteViolations tbl := by rw [h]; simp
  simp only [scalarWriteViolations, List.mem_filter, hw, true_and, Bool.not_eq_true, Bool.not_eq_eq_eq_not,
    Bool.not_false] at this
  simpa [List.contains_iff_mem] using this

theorem C06_slot_site_check_sound (tbl : List CellWrite) (h : slotWriteViolations tbl = []) :
    ∀ w ∈ tbl, w.origin = "slot" → w.guarded = true ∨ (w.file, w.fn, w.field) ∈ knownSlotWrites := by
  intro w hw ho
  have : w ∉ slotWriteViolations tbl := by rw [h]; simp
  simp only [slotWriteViolations, List.mem_filter, hw, true_and] at this
  cases hg : w.guarded with
  | true => exact Or.inl rfl
  | false =>
    right
    simp [ho, hg] at this
    simpa [List.contains_iff_mem] using this

/-- **No scalar value object is changed in place** anywhere in the interpreter, except at the
examined sites — regenerated from the source on every run. (`x.Value += …` on the element's
`*StringValue` in `assignIndexConcat` would be listed as `node/index.go … StringValue opassign`.) -/
theorem C06_scalar_objects_immutable :
    (∀ w ∈ Generated.C06ScalarWrites.scalarWrites, (w.file, w.fn, w.typ, w.kind) ∈ knownScalarWrites) ∧
    Generated.C06ScalarWrites.shapeChanged = [] :=
  ⟨C06_scalar_site_check_sound _ (by decide), by decide⟩

/-- **No cell of an array's slot list is written in place** unless the slot is reference-bound,
owned, or the array is still private to the function that builds it. -/
theorem C06_shared_cells_replaced :
    ∀ w ∈ Generated.C06ScalarWrites.cellWrites, w.origin = "slot" →
      w.guarded = true ∨ (w.file, w.fn, w.field) ∈ knownSlotWrites :=
  C06_slot_site_check_sound _ (by decide)

/-! ### Non-vacuity -/
/- the translator looked at the code: packages and functions were examined, the guarded stores of
   `storeSlot` / `SetIntKey` / `normalizeDenseIntKeys` and the owned stores are in the table -/
example : 40 ≤ Generated.C06ScalarWrites.packagesChecked ∧ 5000 ≤ Generated.C06ScalarWrites.functionsChecked := by decide
example : (Generated.C06ScalarWrites.cellWrites.filter (fun w => w.origin == "slot" && w.guarded)).length ≥ 3 := by decide
example : (Generated.C06ScalarWrites.cellWrites.filter (fun w => w.origin == "owned")).length ≥ 1 := by decide
/- the checks do reject: an in-place append to a string element's value object, an unguarded slot write -/
example : scalarWriteViolations [⟨"node/index.go", "assignIndexConcat", "StringValue", "opassign", 0⟩] ≠ [] := by decide
example : slotWriteViolations [⟨"std/php/array/array_walk.go", "ArrayWalkFunction.Call", "Value", "slot", false, 0⟩] ≠ [] := by decide
example : slotWriteViolations [⟨"data/value_array.go", "ArrayValue.storeSlot", "Value", "slot", true, 0⟩] = [] := by decide
/- the hypotheses of `C06_compound_rhs_pure` / `C06_compound_is_store` are satisfiable, for each kind of update -/
example : Upd.apply (.concat [120]) (.str [97]) = some (.str [97, 120]) ∧ Upd.apply (.concat [120]) (.int (-12)) = some (.str [45, 49, 50, 120]) ∧
    Upd.apply (.add 3) (.int 4) = some (.int 7) ∧ Upd.apply (.mul 3) (.int 4) = some (.int 12) ∧
    Upd.apply (.coalesce 5) .null = some (.int 5) ∧ Upd.apply (.coalesce 5) (.int 1) = some (.int 1) ∧ Upd.apply (.add 3) .null = some (.int 3) ∧
    Upd.apply (.add 3) (.str [97]) = none := by decide
example : evalRV .fixed (run .fixed 2 (concatWitness.take 2)) (.upd (.idx (.var 1) (.int 0)) (.concat [120])) =
    some (.sc (.str [97, 98, 120]), run .fixed 2 (concatWitness.take 2)) := by rfl
example : readPlace (run .fixed 2 (concatWitness.take 2)) (.idx (.var 1) (.int 0)) = some (.sc (.str [97, 98])) := by rfl

/- a program with nested values, every route and every kind of write, at the root of a name
   and inside inner arrays, with keys created on the way:
   literal, copy, property store/read, element store of an array, unset, methods, clone, `&` -/
def prog₀ : List Op :=
  [.setVar 0 (.lit litNested), .setVar 1 (.rd (.var 0)), .setIdx (.idx (.var 1) (.int 0)) (some (.int 0)) (.int 9),
   .new 2, .setProp 2 0 (.rd (.var 0)), .setIdx (.idx (.prop 2 0) (.int 1)) none (.rd (.idx (.var 0) (.int 1))),
   .setIdx (.idx (.idx (.var 0) (.str 0)) (.int 5)) (some (.str 1)) (.lit (.arr [(.pos, .rd (.var 1))])),
   .unset (.idx (.var 1) (.int 0)) (.int 1), .meth (.idx (.prop 2 0) (.int 0)) (.push 5), .clone 3 2,
   .meth (.idx (.prop 3 0) (.int 0)) .shift, .ref 1 0, .meth (.idx (.var 1) (.int 1)) .pop]

example : ¬ FlatWrites prog₀ := by decide
example : obs (Spec.Val.run 4 prog₀) 0 = [1, 2, 9, 2, 3] ∧ obs (abs (run .fixed 4 prog₀)) 0 = [1, 2, 9, 2, 3] ∧
    obs (abs (run .fixed 4 prog₀)) 1 = [1, 2, 9, 2, 3] ∧ obsProp (abs (run .fixed 4 prog₀)) 0 0 = [1, 2, 5, 3, 3] ∧
    obsProp (abs (run .fixed 4 prog₀)) 1 0 = [2, 5, 3, 3] := by decide +kernel
/- the shallow copy gets the same program wrong: `$v0` reads 5,3,5,3 -/
example : obs (abs (run .shallow 4 prog₀)) 0 ≠ obs (Spec.Val.run 4 prog₀) 0 := by decide +kernel
/- the hypotheses of `C06_write_invisible`, `C06_clone_independent`, `C06_reference_shared` are satisfiable -/
example : (Op.meth (.idx (.prop 3 0) (.int 0)) .shift).target = some (.idx (.prop 3 0) (.int 0)) ∧
    (Place.idx (.prop 3 0) (.int 0)).root = .prop 3 0 := ⟨rfl, rfl⟩
example : (run .fixed 4 (prog₀.take 9)).varObj? 2 = some 0 ∧ 0 < (run .fixed 4 (prog₀.take 9)).objs.length := by decide +kernel
example : ∀ op ∈ [Op.meth (.idx (.var 1) (.int 1)) .pop], op.isRef = false := by decide
/- the reference really shares: a write through `$v1` is read through `$v0` -/
example : obs (abs (run .fixed 2 [.setVar 0 (.lit lit123), .ref 1 0, .setIdx (.var 1) (some (.int 0)) (.int 9)])) 0 = [9, 2, 3] := by
  decide
/- `C06_spec_write_local` / `C06_write_invisible` at depth 2 -/
example : (Op.setIdx (.idx (.var 1) (.int 0)) (some (.int 0)) (.int 9)).target = some (.idx (.var 1) (.int 0)) ∧
    (Place.idx (.var 1) (.int 0)).root = .var 1 := ⟨rfl, rfl⟩
/- the invariant is not trivially true: the shallow copy breaks it on the nested witness
   (after `$b = $a` the inner array object of `$a[0]` occurs twice), the recursive copy keeps it -/
example : scnt (run .shallow 2 (nestedWitness.take 2)) 5 = 2 := by decide +kernel
example : ∀ a, a < 40 → scnt (run .fixed 2 (nestedWitness.take 2)) a ≤ 1 := by decide +kernel
example : scnt (run .fixed 2 (nestedWitness.take 2)) 13 = 1 := by decide +kernel
/- composite routes: getter result into a parameter, a property, an element; an element of a copy
   into a parameter, with a nested write in the callee — value semantics on the model, as the theorem says -/
def prog₁ : List Op :=
  [.new 0, .setProp 0 0 (.lit litNested), .setVar 1 (.call (.prop 0 0)), .setIdx (.idx (.var 1) (.int 0)) none (.int 9),
   .new 2, .setProp 2 1 (.call (.prop 0 0)), .meth (.idx (.prop 2 1) (.int 1)) .pop,
   .setVar 3 (.lit (.arr [(.pos, .int 0)])), .setIdx (.var 3) none (.call (.prop 0 0)),
   .setVar 1 (.call (.idx (.var 3) (.int 1))), .meth (.idx (.var 1) (.int 0)) .shift, .unset (.prop 0 0) (.int 0)]
example : obsProp (abs (run .fixed 4 prog₁)) 0 0 = [3] ∧ obsProp (Spec.Val.run 4 prog₁) 0 0 = [3] ∧
    obs (abs (run .fixed 4 prog₁)) 3 = [0, 1, 2, 3] ∧ obs (abs (run .fixed 4 prog₁)) 1 = [2, 3] := by decide +kernel

/-! ## References to array slots: the mark on a slot counts its live binders

`Model.RefSlot` (flat integer arrays, cells with a value and the mark `RefSlotCount`, reference
variables and by-reference parameters bound to slots).  What a copy shares with its source
depends on the marks earlier statements left on the source: `copy` hands over the very cells,
`store` replaces an unmarked cell and writes a marked one in place.  The property therefore needs
the mark to be *exact*: under `Cfg.counted` it IS the number of live binders, on every program. -/

/-- **The mark is the number of live binders** — after every program (any statements, any
order, copies made while references are live included), for every cell. -/
theorem C06_binder_count_exact (nv nr : Nat) (ops : List Model.RefSlot.Op) (c : Nat) (cl : Model.RefSlot.Cell)
    (h : (Model.RefSlot.run .counted nv nr ops).heap[c]? = some cl) :
    cl.cnt = Model.RefSlot.binders (Model.RefSlot.run .counted nv nr ops) c :=
  (Proofs.RefSlot.wf_run nv nr ops).count c cl h

/-- **After the last binder has gone the slot is an ordinary value slot.**  After ANY program
that ends with no reference variable / parameter bound (whatever was bound, written through,
copied while bound and released before): no cell is marked, and for `$x = $y` made now a store
through either name leaves the other name as it was — `$x = $y; $x[i] = v` does not change `$y`,
`$x = $y; $y[i] = v` does not change `$x`. -/
theorem C06_released_slot_is_value_slot (nv nr : Nat) (ops : List Model.RefSlot.Op)
    (hq : ∀ (r c : Nat) (k : Model.RefSlot.Kind), (Model.RefSlot.run .counted nv nr ops).bnd[r]? ≠ some (some (c, k)))
    (x y i : Nat) (v : Int) (hxy : x ≠ y) :
    (∀ (c : Nat) (cl : Model.RefSlot.Cell), (Model.RefSlot.run .counted nv nr ops).heap[c]? = some cl → cl.cnt = 0) ∧
    (Model.RefSlot.vals (Model.RefSlot.run .counted nv nr (ops ++ [.copy x y, .store x i v])))[y]? =
      (Model.RefSlot.vals (Model.RefSlot.run .counted nv nr (ops ++ [.copy x y])))[y]? ∧
    (Model.RefSlot.vals (Model.RefSlot.run .counted nv nr (ops ++ [.copy x y, .store y i v])))[x]? =
      (Model.RefSlot.vals (Model.RefSlot.run .counted nv nr (ops ++ [.copy x y])))[x]? := by
  have hw := Proofs.RefSlot.wf_run nv nr ops
  have hu := Proofs.RefSlot.unmarked_of_no_binder _ hw hq
  have hcb := Proofs.RefSlot.copy_heap_bnd .counted (Model.RefSlot.run .counted nv nr ops) x y
  have hw1 : Proofs.RefSlot.WF (Model.RefSlot.run .counted nv nr (ops ++ [.copy x y])) :=
    Proofs.RefSlot.wf_run nv nr _
  have e1 : Model.RefSlot.run .counted nv nr (ops ++ [.copy x y]) =
      Model.RefSlot.step .counted (Model.RefSlot.run .counted nv nr ops) (.copy x y) := by
    simp [Model.RefSlot.run, List.foldl_append]
  have hu1 : ∀ (c : Nat) (cl : Model.RefSlot.Cell),
      (Model.RefSlot.run .counted nv nr (ops ++ [.copy x y])).heap[c]? = some cl → cl.cnt = 0 := by
    rw [e1, hcb.1]; exact hu
  have e2 : ∀ w, Model.RefSlot.run .counted nv nr (ops ++ [.copy x y, w]) =
      Model.RefSlot.step .counted (Model.RefSlot.run .counted nv nr (ops ++ [.copy x y])) w := by
    intro w; simp [Model.RefSlot.run, List.foldl_append]
  refine ⟨hu, ?_, ?_⟩
  · rw [e2]; exact Proofs.RefSlot.store_local_of_unmarked _ hw1 hu1 x i v y (Ne.symm hxy)
  · rw [e2]; exact Proofs.RefSlot.store_local_of_unmarked _ hw1 hu1 y i v x hxy

/-- **References are gone before the array is copied ⇒ arrays are values.**  For every program
that keeps the discipline `disc` (an array is assigned — literal or copy — only while no reference
into an array is live; a reference variable is bound only while it is not live) the values of all
variables computed by the implementation model equal the reference semantics `Spec.RefVal`, in
which there are no cells and no marks, every variable holds an immutable list and a reference is
just another name for its element.  However often elements were bound to variables or to
by-reference parameters and released again, a later copy is independent of its source. -/
theorem C06_reference_discipline_value_semantics (nv nr : Nat) (ops : List Model.RefSlot.Op)
    (hd : Model.RefSlot.disc [] ops = true) :
    Model.RefSlot.vals (Model.RefSlot.run .counted nv nr ops) = (Spec.RefVal.run nv nr ops).arrs := by
  obtain ⟨L, hs⟩ := Proofs.RefSlot.sim_run nv nr ops hd
  exact hs.arrs.symm

/-- `$v0 = [1,2,3]; f($v0[0])` with `function f(&$p) { $p = 5; }` `; $v1 = $v0; $v1[0] = 9;` -/
def stickyWitness : List Model.RefSlot.Op :=
  [.lit 0 [1, 2, 3], .bind .param 0 0 0, .wr 0 5, .release 0, .copy 1 0, .store 1 0 9]

/-- the same history with a VARIABLE as the binder: `$r = &$v0[0]; $r = 5; unset($r)` -/
def staleWitness : List Model.RefSlot.Op :=
  [.lit 0 [1, 2, 3], .bind .var 0 0 0, .wr 0 5, .release 0, .copy 1 0, .store 1 0 9]

/-- **A mark that is never taken back breaks value semantics.**  If binding an element to a
by-reference parameter marks the slot and the return of the call does not unmark it
(`Cfg.sticky`), the disciplined program `stickyWitness` — the call has returned before the copy
is made — ends with `$v0[0] = 9`: the later copy shares the slot.  The harness replays it on
the real code first. -/
theorem C06_sticky_mark_counterexample :
    ¬ (∀ (nv nr : Nat) (ops : List Model.RefSlot.Op), Model.RefSlot.disc [] ops = true →
        Model.RefSlot.vals (Model.RefSlot.run .sticky nv nr ops) = (Spec.RefVal.run nv nr ops).arrs) := by
  intro h
  have := h 2 1 stickyWitness (by decide)
  revert this
  decide

/-- outcomes of the witness: the design and this tree (a parameter binding leaves no mark) keep
`$v0 = [5,2,3]`, the sticky mark gives `[9,2,3]` -/
theorem C06_sticky_witness_outcomes :
    Model.RefSlot.vals (Model.RefSlot.run .counted 2 1 stickyWitness) = [[5, 2, 3], [9, 2, 3]] ∧
    Model.RefSlot.vals (Model.RefSlot.run .tree 2 1 stickyWitness) = [[5, 2, 3], [9, 2, 3]] ∧
    (Spec.RefVal.run 2 1 stickyWitness).arrs = [[5, 2, 3], [9, 2, 3]] ∧
    Model.RefSlot.vals (Model.RefSlot.run .sticky 2 1 stickyWitness) = [[9, 2, 3], [9, 2, 3]] := by
  decide

/-- **This tree, known finding** (`hstale:*`): `$r = &$x[i]` marks the slot and nothing ever
unmarks it (`Cfg.tree`), so when the binder is a variable that has gone the later copy shares the
slot — `staleWitness` ends with `$v0[0] = 9` where the design and the reference semantics give 5. -/
theorem C06_tree_variable_binder_stale :
    Model.RefSlot.disc [] staleWitness = true ∧
    Model.RefSlot.vals (Model.RefSlot.run .tree 2 1 staleWitness) = [[9, 2, 3], [9, 2, 3]] ∧
    Model.RefSlot.vals (Model.RefSlot.run .counted 2 1 staleWitness) = [[5, 2, 3], [9, 2, 3]] ∧
    (Spec.RefVal.run 2 1 staleWitness).arrs = [[5, 2, 3], [9, 2, 3]] := by
  decide

/- non-vacuity: a disciplined program that binds, writes through, releases, copies, binds again —
   and an undisciplined one (copy while a reference is live) that `C06_binder_count_exact` still covers -/
def rsProg₀ : List Model.RefSlot.Op :=
  [.lit 0 [1, 2, 3], .bind .var 0 0 1, .store 0 1 7, .wr 0 8, .bind .param 1 0 1, .wr 1 6, .release 1, .release 0,
   .copy 1 0, .bind .var 0 1 1, .wr 0 4, .store 0 1 5, .release 0, .copy 2 1, .store 2 1 0]
example : Model.RefSlot.disc [] rsProg₀ = true := by decide
example : Model.RefSlot.vals (Model.RefSlot.run .counted 3 2 rsProg₀) = [[1, 5, 3], [1, 4, 3], [1, 0, 3]] := by decide
example : ∀ (r c : Nat) (k : Model.RefSlot.Kind), (Model.RefSlot.run .counted 3 2 rsProg₀).bnd[r]? ≠ some (some (c, k)) := by
  intro r c k
  have : (Model.RefSlot.run .counted 3 2 rsProg₀).bnd = [none, none] := by decide
  rw [this]
  match r with
  | 0 => simp
  | 1 => simp
  | n + 2 => simp
/- copy while a reference is live: the slot is shared by both copies (as in PHP), the mark counts one binder -/
example : Model.RefSlot.disc [] [.lit 0 [1, 2], .bind .var 0 0 0, .copy 1 0, .store 1 0 9] = false := by decide
example : Model.RefSlot.vals (Model.RefSlot.run .counted 2 1 [.lit 0 [1, 2], .bind .var 0 0 0, .copy 1 0, .store 1 0 9]) =
    [[9, 2], [9, 2]] := by decide
example : ((Model.RefSlot.run .counted 2 1 [.lit 0 [1, 2], .bind .var 0 0 0, .copy 1 0, .store 1 0 9]).heap.map (·.cnt)) =
    [0, 0, 1] := by decide

/-! ## Round 6: a cached summary of an array's contents (seeded change C06-scalaronly-flag-stale)

`Model.Summary`: an array object carries, next to its elements, a flag "held no array when last
copied"; the copy routine trusts it (`Cfg.useHint`) and copies a flagged array by copying the
element list only. The flag is a statement about the element list, so it is true only as long as
EVERY editor of the list keeps it (`Cfg.maintains : Editor → Bool`). -/

section Summary
open Spec.SummaryVal Proofs.Lemmas.Summary

/-- **Copies are deep for all histories iff every editor maintains the summary.** For a copy
routine that trusts the flag: the values of all variables equal the immutable-value semantics
after EVERY program (any number of variables, any length: literals, copies, the four kinds of
editor at any position, removals, in-place writes on inner arrays) exactly when every editor
clears the flag when it stores an array. -/
theorem C06_summary_copies_deep_iff (cfg : Model.Summary.Cfg) (hu : cfg.useHint = true) :
    (∀ nv p, Spec.SummaryVal.abs (Model.Summary.run cfg nv p) = Spec.SummaryVal.run nv p) ↔ ∀ e, cfg.maintains e = true := by
  constructor
  · intro h e
    cases hm : cfg.maintains e with
    | true => rfl
    | false => exact absurd (h 3 (Proofs.Lemmas.Summary.witness e)) (stale_leaks cfg hu e hm)
  · intro h nv p
    exact sim cfg (fun _ => h) nv p

/-- a copy routine that consults nothing but the elements (this tree) needs nothing from the editors -/
theorem C06_summary_unconsulted_value_semantics (cfg : Model.Summary.Cfg) (hu : cfg.useHint = false) (nv : Nat) (p : List Model.Summary.Op) :
    Spec.SummaryVal.abs (Model.Summary.run cfg nv p) = Spec.SummaryVal.run nv p :=
  sim cfg (fun h => by rw [hu] at h; cases h) nv p

/-- the invariant behind it: when every editor maintains the flag, after every program a
flagged array holds scalars only -/
theorem C06_summary_flag_sound (cfg : Model.Summary.Cfg) (h : ∀ e, cfg.maintains e = true) (nv : Nat) (p : List Model.Summary.Op) :
    ∀ a ∈ (Model.Summary.run cfg nv p).vars, a.hint = true → ∀ e ∈ a.elems, e.isSc = true :=
  hint_sound cfg h nv p

/-- **One editor that leaves the flag alone is enough**: flat at the last copy, an array enters
through that editor, copy, nested write through the copy — the source changes. -/
theorem C06_summary_stale_counterexample (cfg : Model.Summary.Cfg) (hu : cfg.useHint = true) (e : Model.Summary.Editor)
    (he : cfg.maintains e = false) :
    Spec.SummaryVal.abs (Model.Summary.run cfg 3 (Proofs.Lemmas.Summary.witness e)) ≠ Spec.SummaryVal.run 3 (Proofs.Lemmas.Summary.witness e) :=
  stale_leaks cfg hu e he

/-- the witness, replayed first on the real code by the harness:
`$v0 = [1, 2]; $v1 = $v0; array_push($v1, [10, 20]); $v2 = $v1; $v2[2][0] = 99;` -/
theorem C06_summary_witness_outcomes :
    Spec.SummaryVal.abs (Model.Summary.run Model.Summary.Cfg.stale 3 (Proofs.Lemmas.Summary.witness Model.Summary.Editor.libfn)) = [[.sc 1, .sc 2], [.sc 1, .sc 2, .arr [99, 20]], [.sc 1, .sc 2, .arr [99, 20]]] ∧
    Spec.SummaryVal.abs (Model.Summary.run Model.Summary.Cfg.stale 3 (Proofs.Lemmas.Summary.witness Model.Summary.Editor.store)) = [[.sc 1, .sc 2], [.sc 1, .sc 2, .arr [10, 20]], [.sc 1, .sc 2, .arr [99, 20]]] ∧
    Spec.SummaryVal.abs (Model.Summary.run Model.Summary.Cfg.maintained 3 (Proofs.Lemmas.Summary.witness Model.Summary.Editor.libfn)) = [[.sc 1, .sc 2], [.sc 1, .sc 2, .arr [10, 20]], [.sc 1, .sc 2, .arr [99, 20]]] ∧
    Spec.SummaryVal.abs (Model.Summary.run Model.Summary.Cfg.plain 3 (Proofs.Lemmas.Summary.witness Model.Summary.Editor.method)) = [[.sc 1, .sc 2], [.sc 1, .sc 2, .arr [10, 20]], [.sc 1, .sc 2, .arr [99, 20]]] ∧
    Spec.SummaryVal.run 3 (Proofs.Lemmas.Summary.witness Model.Summary.Editor.libfn) = [[.sc 1, .sc 2], [.sc 1, .sc 2, .arr [10, 20]], [.sc 1, .sc 2, .arr [99, 20]]] := by
  decide

end Summary

/-! ### The tree's side of it, regenerated (`Generated.C06ArrayFields`)

`CloneArrayValue` / `CloneObjectValue` read the element storage and nothing else about the
contents, because there is nothing else: the field lists below are all there is. A new field is
`derived` until examined — a `shapeChanged` entry names it — and `C06_derived_fields_maintained`
is `∀ e, cfg.maintains e` of `C06_summary_copies_deep_iff` read off the source: every site that
edits the element storage assigns every derived field of its owner. -/

open Model.ArrayFields

def knownFields : List (String × String × String) := [
  ("ArrayValue", "List", "storage"), ("ArrayValue", "iterator", "cursor"), ("ArrayValue", "IndirectOverloadClass", "tag"),
  ("ObjectValue", "Value", "embedded"), ("ObjectValue", "Context", "embedded"), ("ObjectValue", "property", "storage"),
  ("ObjectValue", "iterator", "cursor"), ("ObjectValue", "IndirectOverloadClass", "tag")]

/-- functions that edit the element storage of an array (the edit-history stream of the harness
draws its editors from the script-level entry points of these; a new one belongs there too) -/
def knownListEditors : List (String × String) := [
  ("data/value_array.go", "ArrayValue.OwnSlot"),
  ("data/value_array.go", "ArrayValue.SetIntKey"),
  ("data/value_array.go", "ArrayValue.storeSlot"),
  ("data/value_array.go", "ArrayValue.SetStringKey"),
  ("data/value_array.go", "ArrayValue.normalizeDenseIntKeys"),
  ("data/value_array.go", "ArrayValue.UnsetKey"),
  ("data/value_array_pop.go", "ArrayValuePop.Call"),
  ("data/value_array_push.go", "ArrayValuePush.Call"),
  ("data/value_array_reverse.go", "ArrayValueReverse.Call"),
  ("data/value_array_shift.go", "ArrayValueShift.Call"),
  ("data/value_array_sort.go", "ArrayValueSort.Call"),
  ("data/value_array_splice.go", "ArrayValueSplice.Call"),
  ("data/value_array_unshift.go", "ArrayValueUnshift.Call"),
  ("data/value_object.go", "CloneObjectValue"),
  ("data/value_object.go", "ObjectValue.UnsetProperty"),
  ("data/value_object.go", "ObjectValue.SetProperty"),
  ("node/array.go", "setArrayLiteralEntry"),
  ("node/call_method.go", "CallMethod.handleFuncValue"),
  ("node/index.go", "IndexExpression.SetValue"),
  ("node/index.go", "indexSetValueOnContainer"),
  ("node/new.go", "paramSetValue"),
  ("node/value_reference.go", "ValueReference.resolveIndexRef"),
  ("std/php/array/array_flip.go", "ArrayFlipFunction.Call"),
  ("std/php/array/array_pop.go", "ArrayPopFunction.Call"),
  ("std/php/array/array_push.go", "ArrayPushFunction.Call"),
  ("std/php/array/array_shift.go", "ArrayShiftFunction.Call"),
  ("std/php/array/array_splice.go", "ArraySpliceFunction.Call"),
  ("std/php/array/array_unshift.go", "ArrayUnshiftFunction.Call"),
  ("std/php/array/krsort.go", "KrsortFunction.Call"),
  ("std/php/array/usort.go", "UsortFunction.Call"),
  ("std/php/core/array.go", "ArrayFunction.Call"),
  ("std/php/spl/array_iterator.go", "ArrayIteratorAppendMethod.Call"),
  ("std/php/spl/array_object.go", "aoObjectToArrayValue"),
  ("std/php/spl/array_object.go", "aoOffsetSet"),
  ("std/php/spl/array_object.go", "ArrayObjectAppendMethod.Call"),
  ("std/php/spl/caching_iterator.go", "ciUpdateCache"),
  ("std/php/spl/recursive_array_iterator.go", "raiValueToStorage"),
  ("std/php/spl/spl_doubly_linked_list.go", "splListRemoveAt"),
  ("std/php/spl/spl_doubly_linked_list.go", "SplDLLPushMethod.Call"),
  ("std/php/spl/spl_doubly_linked_list.go", "SplDLLPopMethod.Call"),
  ("std/php/spl/spl_doubly_linked_list.go", "SplDLLShiftMethod.Call"),
  ("std/php/spl/spl_doubly_linked_list.go", "SplDLLUnshiftMethod.Call"),
  ("std/php/spl/spl_doubly_linked_list.go", "SplDLLOffsetSetMethod.Call"),
  ("std/php/spl/spl_heap.go", "splHeapBubbleUp"),
  ("std/php/spl/spl_heap.go", "splHeapBubbleDown"),
  ("std/php/spl/spl_heap.go", "splHeapInsert"),
  ("std/php/spl/spl_heap.go", "splHeapExtractTop"),
  ("std/php/spl/spl_queue.go", "SplQueueEnqueueMethod.Call"),
  ("std/php/spl/spl_queue.go", "SplQueueDequeueMethod.Call"),
  ("std/php/unset.go", "UnsetFunction.Call"),
  ("std/serializer/json/json_serializer.go", "JsonSerializer.UnmarshalArray")]

/-- **An array object holds its elements and nothing about them**: no field of `ArrayValue` /
`ObjectValue` beyond the examined ones. (`scalarOnly bool` would be listed as `derived`.) -/
theorem C06_array_fields_known :
    (∀ f ∈ Generated.C06ArrayFields.fields, (f.owner, f.name, f.role) ∈ knownFields) ∧
    Generated.C06ArrayFields.shapeChanged = [] := by
  decide

/-- **Every editor of the element storage maintains every derived field** of its owner. -/
theorem C06_derived_fields_maintained :
    unmaintained Generated.C06ArrayFields.fields Generated.C06ArrayFields.listEdits = [] := by
  decide

/-- the editors of element storage are the examined ones -/
theorem C06_list_editors_known :
    ∀ e ∈ Generated.C06ArrayFields.listEdits, (e.file, e.fn) ∈ knownListEditors := by
  decide

/- non-vacuity: the table holds the setters and the library editors; the obligation does reject -/
example : 60 ≤ Generated.C06ArrayFields.listEdits.length ∧ 8 ≤ Generated.C06ArrayFields.fields.length := by decide
example : ("std/php/array/array_push.go", "ArrayPushFunction.Call") ∈ knownListEditors ∧ ("data/value_array_push.go", "ArrayValuePush.Call") ∈ knownListEditors := by decide
example : unmaintained [⟨"ArrayValue", "List", "storage"⟩, ⟨"ArrayValue", "scalarOnly", "derived"⟩]
    [⟨"data/value_array.go", "ArrayValue.Append", "ArrayValue", "list", 0, ["scalarOnly"]⟩,
     ⟨"std/php/array/array_push.go", "ArrayPushFunction.Call", "ArrayValue", "list", 0, []⟩] =
    [⟨"std/php/array/array_push.go", "ArrayPushFunction.Call", "ArrayValue", "list", 0, []⟩] := by decide
example : Model.Summary.Cfg.stale.maintains .libfn = false ∧ Model.Summary.Cfg.stale.useHint = true := by decide

end C06
