import Proofs.Lemmas.RegConc
import Proofs.Lemmas.CpmConc
import Proofs.Lemmas.Cpm
import Proofs.Lemmas.Memo
import Generated.C10VmLocks
import Generated.C10PathLocks
import Proofs.Lemmas.Publish
import Generated.C10Publish
import Proofs.Lemmas.Split
import Generated.C10LockNames
/-!
# C10 — VM registries stay consistent under concurrent definition and lookup

Property theorems only.

* `Model.RW` — the lock protocol: threads execute sections
  `acquire mode; access…; release` over an abstract `sync.RWMutex`; schedules are
  arbitrary lists of thread ids, the number of threads and of calls is unbounded.
* `Model.Reg` — the sequential registry of `runtime.VM` (results of every call as coded).
* `Generated.C10VmLocks` — regenerated from `runtime/vm.go` on every run: every
  access to a registry map with the half of `vm.mu` held at that point, every call
  made while the lock is held.
* `Model.Cpm` — the class-path manager (`parser/class_path_manager.go`) that every
  lookup missing the VM's maps continues into: the tree of namespace nodes with
  lazily memoised children, `AddNamespace`, `FindClassFile` as coded.
* `Generated.C10PathLocks` — regenerated from `parser/class_path_manager.go` on
  every run: every access to the `children` map / `paths` slice of a namespace node
  (also through helpers such as `findNamespaceNode`) with the half of the manager's
  mutex held there, every call made while it is held, and any other mutex-carrying
  struct or variable of the resolution-path packages the translator does not know.

* `Model.Memo` — a lookup that keeps DERIVED state next to the registry (a negative cache consulted without
  the lock, invalidated by every registration): linearizable when the miss is recorded inside the read
  section that observed it, not when it is recorded after the section has been left; the discipline is
  read off `Generated.C10VmLocks.auxFacts` (every access of state the translator has no table for, by
  a method on the resolution path).

* `Model.Publish` — what is PUT INTO the registry: a declaration object built by a sequence of field writes
  and inserted (published) at some point of that sequence; other goroutines see the object as it is at the
  moment of their lookup.  Observers only ever see finished objects iff no write follows the publication;
  the discipline is read off `Generated.C10Publish.pubFacts` (every `AddClass` / `AddInterface` / `AddFunc` /
  `SetConstant` call of parser/, node/, runtime/ with the writes to the published object after it).

* `Model.Split` — a LOCK SPLIT: any number of mutexes, one map, check-then-insert sections
  (`EnsureGlobalZVal`, `RegisterGlobalContext`) each under the mutex its method takes.  All sections under the
  SAME mutex ⇒ a name is bound once in every schedule; two writers under different mutexes ⇒ one name gets two
  bindings.  The discipline is read off `Generated.C10LockNames` (every access of a guarded map with the NAMES of
  the receiver's mutexes held there).

Trusted, not proved: `sync.RWMutex` behaves as `Model.RW.enter/leave`; Go's memory
model (accesses that never overlap conflictingly behave atomically).  The race
detector and the fatal-error check of the Go runtime sample the real lock in the
harness.
-/
namespace C10
open Model.RW Model.Reg Proofs.RW Proofs.Reg Proofs.RegConc

/-! ## The lock protocol -/

/-- **Exclusion.** If every access of every section is permitted by the lock the
section holds (write under `Lock`; read under `RLock` or `Lock`), then in every
state reachable under every schedule — any number of threads, any number of
sections — no two threads are simultaneously inside accesses of the same map of
which one is a write.  (Go: no `concurrent map writes`, no race report.) -/
theorem RW_exclusion {Λ L S : Type} (store : S) (loc : Tid → L) (prog : Tid → List (Sec Λ L S))
    (hd : ∀ t, ∀ sec ∈ prog t, sec.ok) (sched : List Tid) (t1 t2 : Tid) :
    ¬ Conflict (run (mkInit store loc prog) sched) t1 t2 :=
  inv_no_conflict _ (inv_run _ sched (inv_init store loc prog hd)) t1 t2

/-- the protocol of the pinned tree before the fix: `AddClass` inserts into
`classMap` while holding only `RLock` -/
def addClassUnderRLock : Sec Unit Unit Unit := ⟨(), .R, [.wr "classMap" (fun l s => (l, s))]⟩

/-- **Negation witness (pinned tree before fixes/C10-registry-locks.patch).**
Discipline is necessary: two goroutines running `AddClass` under `RLock` are
both inside the map write after four steps.  The harness replays it on the real
code as the smallest stress configuration (2 goroutines defining classes). -/
theorem RW_exclusion_counterexample :
    ¬ (∀ (prog : Tid → List (Sec Unit Unit Unit)) (sched : List Tid) (t1 t2 : Tid),
        ¬ Conflict (run (mkInit () (fun _ => ()) prog) sched) t1 t2) := by
  intro h
  apply h (fun t => if t < 2 then [addClassUnderRLock] else []) [0, 1, 0, 1] 0 1
  refine ⟨by decide, .wr "classMap" (fun l s => (l, s)), .wr "classMap" (fun l s => (l, s)), ?_, ?_, rfl, .inl rfl⟩ <;> rfl

/-- **Sections are atomic.** While a thread is inside a section of a disciplined
program, what it still has to execute, run on the *current* store, gives exactly
the private result — and for a `Lock` section exactly the store — that executing
the whole section in one piece gives on the sequential witness (the log of
completed sections, in release order, run one after the other).  So a `Lock`
section sees no interleaved access and an `RLock` section no interleaved write. -/
theorem RW_sections_atomic {Λ L S : Type} (store : S) (loc : Tid → L) (prog : Tid → List (Sec Λ L S))
    (hd : ∀ t, ∀ sec ∈ prog t, sec.ok) (sched : List Tid) (t : Tid) (sec : Sec Λ L S) :
    let s := run (mkInit store loc prog) sched
    let w := seqExec s.log (store, loc)
    sec ∈ (s.thr t).pc.sec →
      (execAccs (s.thr t).pc.todo ((s.thr t).loc, s.store)).1 = (execAccs sec.accs (w.2 t, w.1)).1 ∧
      (sec.mode = .W →
        (execAccs (s.thr t).pc.todo ((s.thr t).loc, s.store)).2 = (execAccs sec.accs (w.2 t, w.1)).2) := by
  intro s w hs
  have hl := lin_run store loc prog _ sched (inv_init store loc prog hd) (lin_init store loc prog)
  exact ⟨hl.secLoc t sec hs, hl.secStore t sec hs⟩

/-- **Sequential witness (generic).** For a disciplined program and any schedule:
the log of completed sections is an interleaving of the threads' programs
(per thread: completed ++ current ++ remaining = its program); every thread that
is between sections holds exactly the private state, and — whenever no writer is
inside — the store is exactly the store, that running the logged sections one
after the other from the initial state produces. -/
theorem RW_linearizable {Λ L S : Type} (store : S) (loc : Tid → L) (prog : Tid → List (Sec Λ L S))
    (hd : ∀ t, ∀ sec ∈ prog t, sec.ok) (sched : List Tid) :
    let s := run (mkInit store loc prog) sched
    let w := seqExec s.log (store, loc)
    (∀ t, logOf s.log t ++ (s.thr t).pc.sec ++ (s.thr t).prog = prog t) ∧
    (∀ t, (s.thr t).pc = .idle → (s.thr t).loc = w.2 t) ∧
    (s.writer = none → s.store = w.1) := by
  intro s w
  have hl := lin_run store loc prog _ sched (inv_init store loc prog hd) (lin_init store loc prog)
  exact ⟨hl.order, hl.idleLoc, hl.store⟩

/-- **No deadlock.** In every reachable state of a disciplined program in which
some thread has not finished, some thread has an enabled step (sections do not
nest and nothing is called while the lock is held — the `heldCalls` obligation
below — so every section runs to its release). -/
theorem RW_no_deadlock {Λ L S : Type} (store : S) (loc : Tid → L) (prog : Tid → List (Sec Λ L S))
    (hd : ∀ t, ∀ sec ∈ prog t, sec.ok) (sched : List Tid) (t : Tid) :
    let s := run (mkInit store loc prog) sched
    ((s.thr t).pc ≠ .idle ∨ (s.thr t).prog ≠ []) → ∃ u, enabled s u = true := by
  intro s h
  exact enabled_of_inv s (inv_run _ sched (inv_init store loc prog hd)) t h

/-! ## Obligations on the regenerated facts -/

/-- **Obligation (regenerated every run).** In the current `runtime/vm.go` every write of a
registry map happens under `vm.mu.Lock`, every read under `RLock` or `Lock`, no
method calls a loader (`LoadClass`, `LoadAndRun`, a function value, …) or a
method that takes `vm.mu` again while holding the lock, and the translator
understood every method.  Known findings: none after
fixes/C10-registry-locks.patch (status "fixed"); on the tree before the patch
this list is `AddClass/AddInterface/AddFunc:…:write-under-RLock` and the
unlocked readers, and the build fails. -/
theorem C10_vm_locks_disciplined :
    violations Generated.C10VmLocks.facts Generated.C10VmLocks.heldCalls Generated.C10VmLocks.shape = [] := by
  decide

/-- the lock each exported registry method holds around its map accesses, read off
the regenerated facts -/
def generatedLock : String → Mode := methodMode Generated.C10VmLocks.apiFacts

/-- **Obligation.** The table read off the facts is disciplined for every registry call
of `Model.Reg.Op` (writers hold `Lock`, readers `RLock`). -/
theorem C10_generated_lock_table : discB generatedLock = true := by decide

/-! ## The resolution path behind the registry maps: the class-path manager -/

/-- **Obligation (regenerated every run).** In the current `parser/class_path_manager.go`
every write of a namespace node's `children` map or `paths` slice — including the
memoising insert of `findNamespaceNode`, reached from `FindClassFile` — happens under
`m.mu.Lock`, every read under `RLock` or `Lock`, nothing that can load a class or take
the mutex again is called while it is held, the translator understood every method, and
no other struct / package-level variable of `parser/` and `runtime/` carries a mutex the
translator does not know.  (A `FindClassFile` that takes only `RLock` fails here with
`findNamespaceNode:children:write-under-RLock`.) -/
theorem C10_path_locks_disciplined :
    violations Generated.C10PathLocks.facts Generated.C10PathLocks.heldCalls Generated.C10PathLocks.shape = [] := by
  decide

/-- the lock each exported method of the class-path manager holds around its accesses of
the namespace tree, read off the regenerated facts -/
def pathLock : String → Mode := methodMode Generated.C10PathLocks.apiFacts

/-- **Obligation.** Both calls of `Model.Cpm.Op` write the tree (`FindClassFile` memoises),
so both hold `Lock` in the table read off the facts. -/
theorem C10_path_lock_table : Proofs.CpmConc.discB pathLock = true := by decide

/-- **Exclusion and linearizability of the class-path manager** for the regenerated lock
table, over every file system `d`: goroutines (parser clones, request handlers, coroutines)
issue arbitrary sequences of `AddNamespace` / `FindClassFile`; under every schedule no two of
them are inside conflicting accesses of the namespace tree, every goroutine has received
exactly the answers the *sequential* manager `Model.Cpm.step` gives when the completed calls
are executed one after the other in the order of their release, and whenever no writer is
inside, the tree (with everything memoised so far) is the tree of that sequential run. -/
theorem C10_path_linearizable_generated (d : Model.Cpm.Disk) (progs : Tid → List Model.Cpm.Op) (sched : List Tid) :
    let s := run (mkInit Model.Cpm.init (fun _ => []) (fun t => (progs t).map (Model.Cpm.secOf d pathLock))) sched
    let lin := s.log.map (fun e => (e.1, e.2.lbl))
    (∀ t, ((lin.filter (fun e => e.1 == t)).map (·.2)) ++ (s.thr t).pc.sec.map (·.lbl) ++
        (s.thr t).prog.map (·.lbl) = progs t) ∧
    (∀ t, (s.thr t).pc = .idle →
        (s.thr t).loc = (Proofs.CpmConc.cpmRun d lin (Model.Cpm.init, fun _ => [])).2 t) ∧
    (s.writer = none → s.store = Model.Cpm.runOps d Model.Cpm.init (lin.map (·.2))) ∧
    (∀ t1 t2, ¬ Conflict s t1 t2) := by
  intro s lin
  have hd := Proofs.CpmConc.disc_of_discB pathLock C10_path_lock_table
  have hok : ∀ t, ∀ sec ∈ (progs t).map (Model.Cpm.secOf d pathLock), sec.ok := by
    intro t sec hs
    obtain ⟨op, _, rfl⟩ := List.mem_map.mp hs
    exact Proofs.CpmConc.secOf_ok d pathLock hd op
  obtain ⟨hord, hloc, hst⟩ := RW_linearizable Model.Cpm.init (fun _ => []) _ hok sched
  have hlog : ∀ e ∈ s.log, e.2 = Model.Cpm.secOf d pathLock e.2.lbl := by
    intro e he
    have h1 := mem_logOf s.log e he
    have h2 : e.2 ∈ (progs e.1).map (Model.Cpm.secOf d pathLock) := by
      rw [← hord e.1]
      exact List.mem_append_left _ (List.mem_append_left _ h1)
    obtain ⟨op, _, hop⟩ := List.mem_map.mp h2
    rw [← hop]; rfl
  have hw := Proofs.CpmConc.seqExec_secOf d pathLock s.log hlog (Model.Cpm.init, fun _ => [])
  refine ⟨?_, ?_, ?_, fun t1 t2 => RW_exclusion _ _ _ hok sched t1 t2⟩
  · intro t
    have h := congrArg (List.map (·.lbl)) (hord t)
    simp only [List.map_append, List.map_map] at h
    rw [← logOf_map_lbl]
    have hid : (List.map ((fun x => x.lbl) ∘ Model.Cpm.secOf d pathLock) (progs t)) = progs t := by
      rw [show ((fun x => x.lbl) ∘ Model.Cpm.secOf d pathLock) = id from rfl]; simp
    rw [hid] at h
    exact h
  · intro t hi
    have := hloc t hi
    rw [hw] at this
    exact this
  · intro hn
    have := hst hn
    rw [hw, Proofs.CpmConc.cpmRun_store] at this
    exact this

/-- the protocol of a `FindClassFile` that takes only the read half of the mutex although
`findNamespaceNode` inserts into `children` -/
def findUnderRLock : Sec Unit Unit Unit := ⟨(), .R, [.wr "children" (fun l s => (l, s))]⟩

/-- **Discipline is necessary for the manager too**: two goroutines resolving not-yet-visited
namespaces under `RLock` are both inside the insert into `children` after four steps (Go:
`fatal error: concurrent map writes`).  The harness's `find` / `parse` / `load` / `temp`
streams look for exactly this on the real code. -/
theorem C10_path_exclusion_needs_lock :
    Conflict (run (mkInit () (fun _ => ()) (fun t => if t < 2 then [findUnderRLock] else [])) [0, 1, 0, 1]) 0 1 := by
  refine ⟨by decide, .wr "children" (fun l s => (l, s)), .wr "children" (fun l s => (l, s)), ?_, ?_, rfl, .inl rfl⟩ <;> rfl

/-- **A registered namespace directory stays visible to every later lookup** (the class-path
manager's share of "every registration that reported success is visible"): after
`AddNamespace(ns, path)` with an existing path, whatever `AddNamespace` / `FindClassFile` calls
follow (each of them may memoise further nodes), the node of `ns` still lists `path`, and a
lookup of any class of that namespace whose file lies in `path` finds a file — without
memoising anything, i.e. from then on such a lookup really is read-only.  Holds for every
well-formed tree (root present, prefix-closed), in particular for every tree reachable from
the empty manager (`Proofs.Cpm.runOps_spec`). -/
theorem C10_path_registered_visible (d : Model.Cpm.Disk) (ns : Model.Cpm.Nodes) (hwf : Proofs.Cpm.WF ns)
    (parts : List String) (path : Model.Cpm.Dir) (ops : List Model.Cpm.Op)
    (hparts : parts ≠ []) (hpath : path ≠ "") (hex : d.exist path = true) :
    let ns₂ := Model.Cpm.runOps d (Model.Cpm.addNamespace d ns parts path) ops
    (∃ ps, Model.Cpm.look ns₂ parts = some ps ∧ path ∈ ps) ∧
    ∀ cls full f, d.file path cls = some f →
      (Model.Cpm.find d ns₂ parts cls full).2 ≠ none ∧ (Model.Cpm.find d ns₂ parts cls full).1 = ns₂ := by
  intro ns₂
  have hadd : Model.Cpm.addNamespace d ns parts path = Model.Cpm.addWalk ns [] parts path := by
    simp [Model.Cpm.addNamespace, hpath, hex]
  obtain ⟨a1, a2, a3⟩ := Proofs.Cpm.addWalk_spec parts path ns [] hwf.2 hwf.1
  have hwf1 : Proofs.Cpm.WF (Model.Cpm.addNamespace d ns parts path) := by
    rw [hadd]; exact ⟨a2.exists hwf.1, a1⟩
  obtain ⟨_, hm⟩ := Proofs.Cpm.runOps_spec d ops _ hwf1
  obtain ⟨ps, hps, hin⟩ := a3 hparts
  simp only [List.nil_append] at hps
  obtain ⟨ps', hps', hsub⟩ := hm parts ps (by rw [hadd]; exact hps)
  have hall : Proofs.Cpm.AllNodes ns₂ [] parts :=
    Proofs.Cpm.allNodes_mono hm [] parts (by rw [hadd]; exact Proofs.Cpm.addWalk_allNodes parts path ns [] hwf.2 hwf.1)
  refine ⟨⟨ps', hps', hsub _ hin⟩, fun cls full f hf => ?_⟩
  have hw := Proofs.Cpm.walk_allNodes d parts ns₂ [] hall
  simp only [List.nil_append] at hw
  have hps'' : Model.Cpm.look ns₂ parts = some ps' := hps'
  have hfind : Model.Cpm.find d ns₂ parts cls full = (ns₂, Model.Cpm.findFile d cls full ps') := by
    simp only [Model.Cpm.find, hw, hps'']
  rw [hfind]
  exact ⟨Proofs.Cpm.findFile_hit d cls full ps' path f (hsub _ hin) hf, rfl⟩

/-! ## The registry behind the lock -/

/-- **Linearizability of the registry.** Goroutines issue arbitrary sequences of
single-section registry calls (`progs`), each call executing `Model.Reg.step`
under the lock its method takes; the lock table is disciplined.  Then under every
schedule, with `lin` = the completed calls in the order of their release:
`lin` is an interleaving of the goroutines' call sequences; whenever no writer
is inside, the registry is exactly `runOps init lin`; and every goroutine has
received exactly the results the *sequential* registry gives when the calls are
executed one after the other in the order `lin`. -/
theorem C10_linearizable (lockOf : String → Mode) (hd : Disc lockOf) (progs : Tid → List Op)
    (_single : ∀ t, ∀ op ∈ progs t, op.single = true) (sched : List Tid) :
    let s := run (mkInit Model.Reg.init (fun _ => []) (fun t => (progs t).map (secOf lockOf))) sched
    let lin := s.log.map (fun e => (e.1, e.2.lbl))
    let w := regRun lin (Model.Reg.init, fun _ => [])
    (∀ t, ((lin.filter (fun e => e.1 == t)).map (·.2)) ++ (s.thr t).pc.sec.map (·.lbl) ++
        (s.thr t).prog.map (·.lbl) = progs t) ∧
    (∀ t, (s.thr t).pc = .idle → (s.thr t).loc = w.2 t) ∧
    (s.writer = none → s.store = runOps Model.Reg.init (lin.map (·.2))) := by
  intro s lin w
  have hok : ∀ t, ∀ sec ∈ (progs t).map (secOf lockOf), sec.ok := by
    intro t sec hs
    obtain ⟨op, _, rfl⟩ := List.mem_map.mp hs
    exact secOf_ok lockOf hd op
  obtain ⟨hord, hloc, hst⟩ := RW_linearizable Model.Reg.init (fun _ => []) _ hok sched
  have hlog : ∀ e ∈ s.log, e.2 = secOf lockOf e.2.lbl := by
    intro e he
    have h1 := mem_logOf s.log e he
    have h2 : e.2 ∈ (progs e.1).map (secOf lockOf) := by
      rw [← hord e.1]
      exact List.mem_append_left _ (List.mem_append_left _ h1)
    obtain ⟨op, _, hop⟩ := List.mem_map.mp h2
    rw [← hop]; rfl
  have hw := seqExec_secOf lockOf s.log hlog (Model.Reg.init, fun _ => [])
  refine ⟨?_, ?_, ?_⟩
  · intro t
    have h := congrArg (List.map (·.lbl)) (hord t)
    simp only [List.map_append, List.map_map] at h
    rw [← logOf_map_lbl]
    have hid : (List.map ((fun x => x.lbl) ∘ secOf lockOf) (progs t)) = progs t := by
      rw [show ((fun x => x.lbl) ∘ secOf lockOf) = id from rfl]; simp
    rw [hid] at h
    exact h
  · intro t hi
    have := hloc t hi
    rw [hw] at this
    exact this
  · intro hn
    have := hst hn
    rw [hw, regRun_store] at this
    exact this

/-- `C10_linearizable` for the lock table regenerated from the current source. -/
theorem C10_linearizable_generated (progs : Tid → List Op)
    (single : ∀ t, ∀ op ∈ progs t, op.single = true) (sched : List Tid) :
    let s := run (mkInit Model.Reg.init (fun _ => []) (fun t => (progs t).map (secOf generatedLock))) sched
    let lin := s.log.map (fun e => (e.1, e.2.lbl))
    (∀ t, (s.thr t).pc = .idle → (s.thr t).loc = (regRun lin (Model.Reg.init, fun _ => [])).2 t) ∧
    (s.writer = none → s.store = runOps Model.Reg.init (lin.map (·.2))) ∧
    (∀ t1 t2, ¬ Conflict s t1 t2) := by
  intro s lin
  have hd := disc_of_discB generatedLock C10_generated_lock_table
  obtain ⟨_, h2, h3⟩ := C10_linearizable generatedLock hd progs single sched
  refine ⟨h2, h3, fun t1 t2 => ?_⟩
  apply RW_exclusion
  intro t sec hs
  obtain ⟨op, _, rfl⟩ := List.mem_map.mp hs
  exact secOf_ok generatedLock hd op

/-! ## Lookups that keep derived state: a memo of lookup answers next to the registry

`C10_linearizable` covers calls that are ONE locked section over the guarded maps.  A lookup that
remembers its answer in state of its own (a `sync.Map` of known misses, consulted without the lock and
cleared by `AddClass`) is several atomic steps: `Load` · read section · `Store`.  `Model.Memo` has
exactly these steps; `Disc` says whether there is a memo and where the `Store` happens. -/

/-- **Linearizability with a lookup memo.** Under a discipline that is `ok` (no memo, or the miss is
recorded inside the read section that observed it), for any number of goroutines issuing arbitrary
sequences of `add` / `get` and every schedule: the log — every call at one of its own steps, i.e.
between its invocation and its response — is an interleaving of the programs; read as a sequential
history it yields exactly the registry and exactly the logged results under the sequential
specification `specStep`; and every goroutine has received exactly the results logged for it. -/
theorem C10_memo_linearizable (d : Model.Memo.Disc) (hd : d.ok = true) (progs : Tid → List Model.Memo.Op)
    (sched : List Tid) :
    let s := Model.Memo.run d (Model.Memo.init progs) sched
    (∀ t, (Model.Memo.logOf s.log t).map (·.1) ++ (s.thr t).pc.pending ++ (s.thr t).prog = progs t) ∧
    Model.Memo.specRun [] (s.log.map (·.2.1)) = (s.reg, s.log.map (·.2.2)) ∧
    (∀ t, (s.thr t).out = (Model.Memo.logOf s.log t).map (·.2)) := by
  intro s
  have hi := Proofs.Memo.inv_run d hd progs _ sched (Proofs.Memo.inv_init progs)
  exact ⟨hi.order, hi.lin, hi.outs⟩

/-- the statement of visibility for one discipline: once `add x` has reported success, every `get x`
that takes effect afterwards — in particular every lookup invoked afterwards — hits, whatever the
other goroutines do and however long the history goes on -/
def MemoVisible (d : Model.Memo.Disc) : Prop :=
  ∀ (progs : Tid → List Model.Memo.Op) (s₁ s₂ : List Tid) (t : Tid) (x : Model.Memo.Name),
    (t, Model.Memo.Op.add x, Model.Memo.Res.ok) ∈ (Model.Memo.run d (Model.Memo.init progs) s₁).log →
    ∃ ext, (Model.Memo.run d (Model.Memo.init progs) (s₁ ++ s₂)).log =
        (Model.Memo.run d (Model.Memo.init progs) s₁).log ++ ext ∧
      ∀ e ∈ ext, e.2.1 = .get x → e.2.2 = .hit

/-- **A successful registration is visible to all later lookups — also through the memo.**
Full statement: `∀ d, MemoVisible d` (FALSE, see the counterexample); this is the `_partial` form with
the hypothesis that excludes the defect: the discipline is `ok`. -/
theorem C10_memo_registered_visible (d : Model.Memo.Disc) (hd : d.ok = true) : MemoVisible d := by
  intro progs s₁ s₂ t x hadd
  have hi := Proofs.Memo.inv_run d hd progs _ s₁ (Proofs.Memo.inv_init progs)
  rw [Proofs.Memo.run_append]
  exact Proofs.Memo.visible_run d hd progs _ s₂ hi x (hi.added t x hadd)

/-- the discipline of a lookup that records its miss after leaving the read section -/
def storeOutside : Model.Memo.Disc := ⟨true, false⟩

/-- goroutine 0 registers name 7, goroutine 1 looks it up twice -/
def staleProgs : Tid → List Model.Memo.Op :=
  fun t => if t = 0 then [.add 7] else if t = 1 then [.get 7, .get 7] else []

/-- **Negation witness: the discipline is necessary.** With the `Store` outside the section, under the
schedule `Load₁ · scan₁ (miss) · add₀ (ok, Clear) · Store₁`: goroutine 0's `add 7` has reported success
and goroutine 1 has not yet invoked its second lookup; that lookup — invoked after the registration
returned — answers `miss`, and so does every later one.  Every step is atomic and properly locked
(no data race, nothing for the race detector).  The harness's overlap streams drive exactly this
window on the real VM (a registrant and first-time probers of one fresh name released together, then
a lookup after the join). -/
theorem C10_memo_stale_counterexample : ¬ (∀ d, MemoVisible d) := by
  intro h
  obtain ⟨ext, hlog, hhit⟩ := h storeOutside staleProgs [1, 1, 0, 1] [1] 0 7 (by decide)
  have hext : ext = [(1, .get 7, .miss)] := by
    have h2 : (Model.Memo.run storeOutside (Model.Memo.init staleProgs) ([1, 1, 0, 1] ++ [1])).log =
        (Model.Memo.run storeOutside (Model.Memo.init staleProgs) [1, 1, 0, 1]).log ++ [(1, .get 7, .miss)] := by
      decide
    exact (List.append_cancel_left (hlog.symm.trans h2)).symm ▸ rfl
  have := hhit (1, .get 7, .miss) (by rw [hext]; simp) rfl
  cases this

/-- **Obligation (regenerated every run).** No method on the resolution path of `runtime/vm.go` or
`parser/class_path_manager.go` touches AUXILIARY state — a field of `VM` / the manager that is not in the
translator's tables, or a package-level variable — outside the discipline: plain state obeys the lock
like a guarded map; a self-synchronised container (`sync.Map`, `atomic.*`) may be read anywhere but is
updated only inside a critical section that also accesses the registry.  (A `classMiss sync.Map` stored
into after `RUnlock` fails here with `findClassCaseInsensitive:classMiss:memo-updated-outside-every-critical-section`.) -/
theorem C10_vm_aux_disciplined :
    Model.Memo.auxViolations Generated.C10VmLocks.auxFacts = [] ∧
    Model.Memo.auxViolations Generated.C10PathLocks.auxFacts = [] := by
  decide

/-- facts that pass the obligation describe a discipline that is `ok` -/
theorem memoDisc_ok_of_disciplined (aux : List Model.Memo.AuxFact) (h : Model.Memo.auxViolations aux = []) :
    (Model.Memo.memoDiscOf aux).ok = true := by
  have hb : ∀ f ∈ aux, f.bad = false := by
    intro f hf
    simp only [Model.Memo.auxViolations, List.map_eq_nil_iff, List.filter_eq_nil_iff] at h
    simpa using h f hf
  have hall : (Model.Memo.memoDiscOf aux).storeInside = true := by
    simp only [Model.Memo.memoDiscOf, List.all_eq_true]
    intro f hf
    have := hb f hf
    simp only [Model.Memo.AuxFact.bad] at this
    cases hs : f.sync <;> cases hk : f.kind <;> cases hh : f.held <;> cases hw : f.withReg <;> simp_all
  simp [Model.Memo.Disc.ok, hall]

/-- the discipline of the current source, read off the regenerated facts -/
def generatedMemoDisc : Model.Memo.Disc := Model.Memo.memoDiscOf Generated.C10VmLocks.auxFacts

/-- `C10_memo_linearizable` and `C10_memo_registered_visible` for the discipline regenerated from the
current source. -/
theorem C10_memo_linearizable_generated (progs : Tid → List Model.Memo.Op) (sched : List Tid) :
    let s := Model.Memo.run generatedMemoDisc (Model.Memo.init progs) sched
    Model.Memo.specRun [] (s.log.map (·.2.1)) = (s.reg, s.log.map (·.2.2)) ∧
    (∀ t, (s.thr t).out = (Model.Memo.logOf s.log t).map (·.2)) ∧
    MemoVisible generatedMemoDisc := by
  intro s
  have hd := memoDisc_ok_of_disciplined _ C10_vm_aux_disciplined.1
  obtain ⟨_, h2, h3⟩ := C10_memo_linearizable generatedMemoDisc hd progs sched
  exact ⟨h2, h3, C10_memo_registered_visible generatedMemoDisc hd⟩

/-! ## Publication: what is put into the registry is finished (round 7)

A registration publishes a POINTER.  `Model.Publish`: the registrant of object `o` runs its program (field
writes and one `publish`), any number of goroutines look `o` up at any time and get a miss or the object as
it is at that moment.  The user's reading of "register class C" is one step: a lookup misses or returns the
finished class (`specLook`). -/

/-- every observation of every schedule returns a finished object -/
def PublishComplete (progs : Nat → Model.Publish.Prog) : Prop :=
  ∀ sched : List Model.Publish.Ev, ∀ e ∈ (Model.Publish.run (Model.Publish.init progs) sched).log,
    ∀ h, e.2.2 = some h → h = Model.Publish.final (progs e.2.1)

/-- **What an observer can miss.** For EVERY program (any discipline), any number of objects and observing
goroutines, every schedule: an object returned by a lookup lacks, compared with the finished object, only
writes that follow the publication step in its registrant's program — `seen ++ missing = final`,
`missing ⊆ postWrites`. -/
theorem C10_publish_lacks_only_post_writes (progs : Nat → Model.Publish.Prog) (sched : List Model.Publish.Ev) :
    ∀ e ∈ (Model.Publish.run (Model.Publish.init progs) sched).log, ∀ h, e.2.2 = some h →
      ∃ m, h ++ m = Model.Publish.final (progs e.2.1) ∧ ∀ x ∈ m, x ∈ Model.Publish.postWrites (progs e.2.1) := by
  intro e he h hh
  obtain ⟨n, hn⟩ := (Proofs.Publish.inv_run progs _ (Proofs.Publish.inv_init progs) sched).log e he
  rw [hn, Proofs.Publish.look_stepN] at hh
  split at hh
  · rename_i hc
    cases hh
    exact Proofs.Publish.seen_lacks_post _ n hc
  · cases hh

/-- **Linearizable publication** (full strength): observers only ever see finished objects — under every
schedule, for any number of objects and goroutines — IF AND ONLY IF no registrant writes to its object after
publishing it.  (⇐: the publication step is the linearization point of the whole construction; ⇒: stop the
registrant right after `publish` and look.) -/
theorem C10_publish_complete_iff (progs : Nat → Model.Publish.Prog) :
    PublishComplete progs ↔ ∀ o, (progs o).ok = true := by
  constructor
  · intro hc o
    by_cases hp : Model.Publish.postWrites (progs o) = []
    · simp [Model.Publish.Prog.ok, hp]
    · exfalso
      obtain ⟨h1, h2⟩ := Proofs.Publish.at_pubIdx (progs o) hp
      let sched := List.replicate (Model.Publish.pubIdx (progs o)) (Model.Publish.Ev.reg o) ++ [Model.Publish.Ev.obs 0 o]
      obtain ⟨ho, hl⟩ := Proofs.Publish.run_regs (Model.Publish.init progs) o (Model.Publish.pubIdx (progs o))
      have hlog : (Model.Publish.run (Model.Publish.init progs) sched).log =
          [(0, o, some (Model.Publish.inits ((progs o).take (Model.Publish.pubIdx (progs o)))))] := by
        simp only [sched, Model.Publish.run, List.foldl_append, List.foldl_cons, List.foldl_nil, Model.Publish.step]
        simp only [Model.Publish.run] at ho hl
        rw [hl, ho]
        have h1' : Model.Publish.Step.publish ∈ List.take (Model.Publish.pubIdx (progs o)) (progs o) := by
          simpa using h1
        simp [Model.Publish.init, Proofs.Publish.look_stepN, h1']
      have := hc sched _ (by rw [hlog]; exact List.mem_singleton.mpr rfl) _ rfl
      simp only [Model.Publish.final] at this
      rw [this] at h2
      exact hp (by simpa using h2)
  · intro hok sched e he h hh
    obtain ⟨m, hm, hsub⟩ := C10_publish_lacks_only_post_writes progs sched e he h hh
    have hnil : Model.Publish.postWrites (progs e.2.1) = [] := by
      simpa [Model.Publish.Prog.ok] using hok e.2.1
    have : m = [] := by
      cases m with
      | nil => rfl
      | cons x r => have := hsub x (by simp); rw [hnil] at this; cases this
    subst this
    simpa using hm

/-- **Refinement of the one-step reading.** Under the discipline every logged observation is the answer of the
specification in which registration is ONE step taken at the publication point (`specLook`: miss before,
the FINISHED object after), for the number of steps the registrant had taken. -/
theorem C10_publish_linearizable (progs : Nat → Model.Publish.Prog) (hok : ∀ o, (progs o).ok = true)
    (sched : List Model.Publish.Ev) :
    ∀ e ∈ (Model.Publish.run (Model.Publish.init progs) sched).log,
      ∃ n, e.2.2 = Model.Publish.specLook (progs e.2.1) n := by
  intro e he
  obtain ⟨n, hn⟩ := (Proofs.Publish.inv_run progs _ (Proofs.Publish.inv_init progs) sched).log e he
  refine ⟨n, ?_⟩
  rw [hn, Proofs.Publish.look_stepN]
  simp only [Model.Publish.specLook]
  split
  · rename_i hc
    obtain ⟨m, hm, hsub⟩ := Proofs.Publish.seen_lacks_post (progs e.2.1) n hc
    have hnil : Model.Publish.postWrites (progs e.2.1) = [] := by
      simpa [Model.Publish.Prog.ok] using hok e.2.1
    have : m = [] := by
      cases m with
      | nil => rfl
      | cons x r => have := hsub x (by simp); rw [hnil] at this; cases this
    subst this
    simp only [List.append_nil] at hm
    simp [Model.Publish.final, hm]
  · rfl

/-- the seeded shape: the class is registered, THEN the inherited constructor is stored -/
def publishBeforeConstruct : Nat → Model.Publish.Prog :=
  fun _ => [.init "Methods", .publish, .init "Construct"]

/-- **Negation witness** (`ClassParser.Parse` with `AddClass` moved before the search for the inherited
constructor): the registrant publishes, a lookup returns the class without `Construct`, the registrant
stores it.  The harness finds the same on the real parser (publish stream). -/
theorem C10_publish_counterexample : ¬ PublishComplete publishBeforeConstruct := by
  intro h
  have := h [.reg 0, .reg 0, .obs 1 0, .reg 0] (1, 0, some ["Methods"]) (by decide) _ rfl
  revert this; decide

/-- the unchanged shape: constructor resolved, then registered -/
def constructBeforePublish : Nat → Model.Publish.Prog :=
  fun _ => [.init "Methods", .init "Construct", .publish]

example : PublishComplete constructBeforePublish :=
  (C10_publish_complete_iff _).mpr (fun _ => by simp only [constructBeforePublish]; decide)

/-- post-publication writes of the unchanged tree (deliberate in the source, each a window in which another
goroutine sees the declaration without them; see notes/C10.md round 7): annotations are evaluated with the class
registered (an annotation class may refer to it); an enum's cases are instances of the enum, created with `new`
after the class is registered; an interface registers itself before its constants are evaluated ("avoid the
self-dependency loop") and then normalises its parents' names. -/
def knownPostPublicationWrites : List String := [
  "parser/class_parser.go:ClassParser.Parse:AddClass(classStmt):callClassAnnotation→AddAnnotations()",
  "parser/trait_parser.go:TraitParser.Parse:AddClass(trait):callClassAnnotation→AddAnnotations()",
  "parser/enum_parser.go:EnumParser.Parse:AddClass(classStmt):StaticProperty.Store",
  "parser/interface_parser.go:InterfaceParser.Parse:AddInterface(i):StaticProperty.Store",
  "parser/interface_parser.go:InterfaceParser.Parse:AddInterface(i):Extends[]"]

/-- **Obligation on the regenerated facts** (`Generated.C10Publish`, from parser/, node/, runtime/ on every
run): no write to a published object after its publication, beyond the known ones; the scan found the
registration sites it exists for.  (`AddClass` before `c.Construct = inherited` fails here with
`…ClassParser.Parse:AddClass(classStmt):Construct`.) -/
theorem C10_publication_disciplined :
    (Model.Publish.pubViolations Generated.C10Publish.pubFacts).all (knownPostPublicationWrites.contains ·) = true ∧
    Generated.C10Publish.shape = [] := by
  decide

/-- the program a fact describes has exactly the fact's `after` list as post-publication writes -/
theorem postWrites_progOf (f : Model.Publish.PubFact) : Model.Publish.postWrites (Model.Publish.progOf f) = f.after := by
  have h : ∀ (b : List String) (r : Model.Publish.Prog),
      Model.Publish.afterPub (b.map .init ++ (.publish :: r)) = r := by
    intro b r
    induction b with
    | nil => rfl
    | cons x b ih => simpa [Model.Publish.afterPub] using ih
  simp only [Model.Publish.postWrites, Model.Publish.progOf, List.append_assoc, List.singleton_append, h]
  exact Proofs.Publish.inits_map_init _

/-- **The regenerated sites.** Objects registered at the sites of the current source (object `k` by the
`k`-th site; beyond the table: nothing), any number of observers, every schedule: an observed declaration
lacks at most writes listed for its site in `knownPostPublicationWrites`'s terms — `seen ++ missing = final`
with `missing ⊆ after` of that site; for a site with no write after the publication the observed declaration
IS the finished one. -/
theorem C10_publish_generated (sched : List Model.Publish.Ev) :
    let progs : Nat → Model.Publish.Prog := fun k =>
      (Generated.C10Publish.pubFacts[k]?.map Model.Publish.progOf).getD []
    ∀ e ∈ (Model.Publish.run (Model.Publish.init progs) sched).log, ∀ h, e.2.2 = some h →
      ∃ f, Generated.C10Publish.pubFacts[e.2.1]? = some f ∧
        ∃ m, h ++ m = Model.Publish.final (Model.Publish.progOf f) ∧ (∀ x ∈ m, x ∈ f.after) ∧
          (f.after = [] → h = Model.Publish.final (Model.Publish.progOf f)) := by
  intro progs e he h hh
  obtain ⟨m, hm, hsub⟩ := C10_publish_lacks_only_post_writes progs sched e he h hh
  cases hf : Generated.C10Publish.pubFacts[e.2.1]? with
  | none =>
    exfalso
    obtain ⟨n, hn⟩ := (Proofs.Publish.inv_run progs _ (Proofs.Publish.inv_init progs) sched).log e he
    have hp : progs e.2.1 = [] := by simp [progs, hf]
    rw [hn, hp, Proofs.Publish.look_stepN] at hh
    simp at hh
  | some f =>
    have hp : progs e.2.1 = Model.Publish.progOf f := by simp [progs, hf]
    rw [hp] at hm hsub
    rw [postWrites_progOf] at hsub
    refine ⟨f, rfl, m, hm, hsub, ?_⟩
    intro hnil
    have : m = [] := by
      cases m with
      | nil => rfl
      | cons x r => have := hsub x (by simp); rw [hnil] at this; cases this
    subst this
    simpa using hm

/-! ## Calls made of several sections: the autoload path (known finding)

Full statement (FALSE on the pinned tree, with or without the lock fix):
  `C10_loader_linearizable` — when goroutines call `GetOrLoadClass` for classes that
  have a class file, every call returns what some sequential order of the
  *calls* would give (i.e. the class).
`C10_linearizable` above is the `_partial` form: it holds for calls that are a
single locked section (hypothesis `single`); `GetOrLoadClass`/`LoadClass`/`LoadAndRun`
is seven sections, and `SetPhpFileCache(f)` happens before the file's classes
are registered. -/

/-- two goroutines each calling `GetOrLoadClass("A")`, class file 1 declares `A` -/
def twoLoaders : Tid → List (Sec Op (List Res) Model.Reg.State) :=
  fun t => if t < 2 then loadCall ⟨"A".toList, 1, some 1⟩ 1 else []

/-- goroutine 0 runs up to and including `SetPhpFileCache`, goroutine 1 runs its whole call,
goroutine 0 finishes -/
def loaderSchedule : List Tid := List.replicate 20 0 ++ List.replicate 28 1 ++ List.replicate 8 0

/-- **Negation witness (known finding C10-autoload-file-marked-before-registered).**
All sections are properly locked (no data race), yet under `loaderSchedule`
goroutine 1's `GetOrLoadClass("A")` fails with the loader's error while goroutine 0's
identical call returns the class — and in both sequential orders of the two
calls both return the class.  The harness reproduces it on the real VM in its
load stream. -/
theorem C10_autoload_counterexample :
    (∀ t, ∀ sec ∈ twoLoaders t, sec.ok) ∧
    loadOutcome ((run (mkInit Model.Reg.init (fun _ => []) twoLoaders) loaderSchedule).thr 1).loc = .errLoad ∧
    loadOutcome ((run (mkInit Model.Reg.init (fun _ => []) twoLoaders) loaderSchedule).thr 0).loc = .hit 1 ∧
    (∀ t, t < 2 → loadOutcome ((run (mkInit Model.Reg.init (fun _ => []) twoLoaders)
        (List.replicate 28 0 ++ List.replicate 28 1)).thr t).loc = .hit 1) ∧
    (∀ t, t < 2 → loadOutcome ((run (mkInit Model.Reg.init (fun _ => []) twoLoaders)
        (List.replicate 28 1 ++ List.replicate 28 0)).thr t).loc = .hit 1) := by
  refine ⟨?_, by decide, by decide, by decide, by decide⟩
  intro t sec hs
  unfold twoLoaders at hs
  split at hs
  · simp only [loadCall, List.mem_cons, List.not_mem_nil, or_false] at hs
    rcases hs with h | h | h | h | h | h | h <;> subst h <;> intro a ha <;>
      simp [rdSec, wrSec] at ha <;> subst ha <;> rfl
  · simp at hs

/-! ## The sequential registry (what the witness order gives) -/

/-- **A successful registration is visible to every later lookup.** After
`AddClass d` reported success, whatever calls follow, the name resolves
(`LoadPkg`'s lookup finds a class or an interface), and unless the name was
already held by an interface (a same-file `AddClass` of an interface's name
reports success and registers nothing — see notes) `GetClass` finds a class.
(The conclusion does not even need the success hypothesis: a rejected `AddClass`
means the name is taken, hence found.) -/
theorem C10_add_visible (s : State) (d : Decl) (ops : List Op) (_ok : (addClass s d).2 = .ok) :
    isFound (lookPkg (runOps (addClass s d).1 ops) d.name) = true ∧
    (look s.ifaces d.name = none → isFound (findClass (runOps (addClass s d).1 ops) d.name) = true) := by
  have hk := keeps_run (addClass s d).1 ops
  have key : (∃ x, look (addClass s d).1.classes d.name = some x) ∨
      (look s.ifaces d.name ≠ none ∧ ∃ x, look (addClass s d).1.ifaces d.name = some x) := by
    unfold addClass
    cases hc : look s.classes d.name with
    | some has => simp only []; split <;> exact .inl ⟨has, hc⟩
    | none =>
      simp only []
      cases hi : look s.ifaces d.name with
      | some has => simp only []; split <;> exact .inr ⟨by simp, has, hi⟩
      | none => exact .inl ⟨d, look_append_new _ _ _ hc⟩
  rcases key with ⟨x, hx⟩ | ⟨hne, x, hx⟩
  · have := hk.classes _ _ hx
    exact ⟨by simp [lookPkg, this, isFound], fun _ => by simp [findClass, this, isFound]⟩
  · have := hk.ifaces _ _ hx
    refine ⟨?_, fun h0 => absurd h0 hne⟩
    unfold lookPkg
    cases look (runOps (addClass s d).1 ops).classes d.name <;> simp [this, isFound]

/-- the same for interfaces, functions, constants (`GetConstant` strips one leading
backslash of the *query*), globals (the same ZVal every time) and the file cache -/
theorem C10_add_visible_others (s : State) (ops : List Op) :
    (∀ d, (addIface s d).2 = .ok →
        isFound (lookPkg (runOps (addIface s d).1 ops) d.name) = true ∧
        (look s.classes d.name = none → isFound (getIface (runOps (addIface s d).1 ops) d.name) = true)) ∧
    (∀ n id, (addFunc s n id).2 = .ok → getFunc (runOps (addFunc s n id).1 ops) n = .hit id) ∧
    (∀ n v q, (setConst s n v).2 = .ok → strip q = n → getConst (runOps (setConst s n v).1 ops) q = .hit v) ∧
    (∀ n z, (ensureGlobal s n).2 = .hit z →
        (ensureGlobal (runOps (ensureGlobal s n).1 ops) n).2 = .hit z) := by
  refine ⟨?_, ?_, ?_, ?_⟩
  · intro d h
    have hk := keeps_run (addIface s d).1 ops
    have key : (look s.classes d.name ≠ none ∧ ∃ x, look (addIface s d).1.classes d.name = some x) ∨
        (∃ x, look (addIface s d).1.ifaces d.name = some x) := by
      unfold addIface at h ⊢
      cases hc : look s.classes d.name with
      | some has => simp only [hc] at h ⊢; split <;> exact .inl ⟨by simp, has, hc⟩
      | none =>
        simp only [hc] at h ⊢
        cases hi : look s.ifaces d.name with
        | some has => simp only [hi] at h ⊢; split <;> exact .inr ⟨has, hi⟩
        | none => exact .inr ⟨d, look_append_new _ _ _ hi⟩
    rcases key with ⟨hne, x, hx⟩ | ⟨x, hx⟩
    · have := hk.classes _ _ hx
      exact ⟨by simp [lookPkg, this, isFound], fun h0 => absurd h0 hne⟩
    · have := hk.ifaces _ _ hx
      refine ⟨?_, fun _ => by simp [getIface, this, isFound]⟩
      unfold lookPkg
      cases look (runOps (addIface s d).1 ops).classes d.name <;> simp [this, isFound]
  · intro n id h
    have hk := keeps_run (addFunc s n id).1 ops
    unfold addFunc at h hk ⊢
    cases hf : look s.funcs n with
    | some x => simp [hf] at h
    | none =>
      simp only [hf] at hk ⊢
      have := hk.funcs n id (look_append_new _ _ _ hf)
      simp [getFunc, this]
  · intro n v q h hq
    have hk := keeps_run (setConst s n v).1 ops
    unfold setConst at h hk ⊢
    cases hf : look s.consts n with
    | some x => simp [hf] at h
    | none =>
      simp only [hf] at hk ⊢
      have := hk.consts n v (look_append_new _ _ _ hf)
      simp [getConst, hq, this]
  · intro n z h
    have hk := keeps_run (ensureGlobal s n).1 ops
    have hx : look (ensureGlobal s n).1.globals n = some z := by
      unfold ensureGlobal at h ⊢
      cases hg : look s.globals n with
      | some x => simp only [hg] at h ⊢; simpa using h
      | none =>
        simp only [hg] at h ⊢
        have hz : s.globals.length = z := by simpa using h
        rw [← hz]; exact look_append_new _ _ _ hg
    have := hk.globals n z hx
    generalize runOps (ensureGlobal s n).1 ops = s₂ at this
    simp [ensureGlobal, this]

/-- **A taken name has one winner.** Once `d₁` has been registered under a free
name, then after any further calls: every `AddClass`/`AddInterface` of that name
leaves the registry unchanged and reports success only for a same-file re-add of
`d₁` (otherwise the duplicate error), and `GetClass` keeps answering `d₁`. -/
theorem C10_duplicate_one_winner (s : State) (d₁ : Decl) (ops : List Op)
    (hc : look s.classes d₁.name = none) (hi : look s.ifaces d₁.name = none) :
    let s₂ := runOps (addClass s d₁).1 ops
    (addClass s d₁).2 = .ok ∧ findClass s₂ d₁.name = .hit d₁.id ∧
    ∀ d₂, d₂.name = d₁.name →
      addClass s₂ d₂ = (s₂, if samePhp d₂.src d₁.src then .ok else .errClass) ∧
      addIface s₂ d₂ = (s₂, if samePhp d₂.src d₁.src then .ok else .errIface) := by
  intro s₂
  have h1 : addClass s d₁ = ({ s with classes := s.classes ++ [(d₁.name, d₁)] }, .ok) := by
    simp [addClass, hc, hi]
  have hk := keeps_run (addClass s d₁).1 ops
  have hl : look s₂.classes d₁.name = some d₁ := by
    apply hk.classes
    rw [h1]; exact look_append_new _ _ _ hc
  refine ⟨by rw [h1], by simp [findClass, hl], fun d₂ hn => ?_⟩
  constructor
  · simp only [addClass, hn, hl]; split <;> simp_all
  · simp only [addIface, hn, hl]; split <;> simp_all

/-- functions and constants: after a successful registration every later one of
the same name is rejected and changes nothing -/
theorem C10_duplicate_one_winner_others (s : State) (ops : List Op) :
    (∀ n id id', (addFunc s n id).2 = .ok →
        addFunc (runOps (addFunc s n id).1 ops) n id' = (runOps (addFunc s n id).1 ops, .errFunc)) ∧
    (∀ n v v', (setConst s n v).2 = .ok →
        setConst (runOps (setConst s n v).1 ops) n v' = (runOps (setConst s n v).1 ops, .errConst)) := by
  constructor
  · intro n id id' h
    have hk := keeps_run (addFunc s n id).1 ops
    have hx : look (addFunc s n id).1.funcs n = some id := by
      unfold addFunc at h ⊢
      cases hf : look s.funcs n with
      | some x => simp [hf] at h
      | none => exact look_append_new _ _ _ hf
    have := hk.funcs n id hx
    generalize runOps (addFunc s n id).1 ops = s₂ at this
    simp [addFunc, this]
  · intro n v v' h
    have hk := keeps_run (setConst s n v).1 ops
    have hx : look (setConst s n v).1.consts n = some v := by
      unfold setConst at h ⊢
      cases hf : look s.consts n with
      | some x => simp [hf] at h
      | none => exact look_append_new _ _ _ hf
    have := hk.consts n v hx
    generalize runOps (setConst s n v).1 ops = s₂ at this
    simp [setConst, this]

/-! ## Non-vacuity -/

/-- a disciplined two-thread program with real accesses exists and runs: a writer and a reader -/
example : ∃ (prog : Tid → List (Sec Unit Nat Nat)), (∀ t, ∀ sec ∈ prog t, sec.ok) ∧
    (run (mkInit 0 (fun _ => 0) prog) [0, 1, 0, 0, 0, 1, 1, 1, 1]).store = 7 ∧
    ((run (mkInit 0 (fun _ => 0) prog) [0, 1, 0, 0, 0, 1, 1, 1, 1]).thr 1).loc = 7 :=
  ⟨fun t => if t = 0 then [⟨(), .W, [.wr "classMap" (fun l _ => (l, 7))]⟩]
            else if t = 1 then [⟨(), .R, [.rd "classMap" (fun _ s => s)]⟩] else [],
   by
    intro t sec hs
    by_cases h0 : t = 0
    · subst h0
      simp at hs; subst hs; intro a ha; simp at ha; subst ha; rfl
    · by_cases h1 : t = 1
      · subst h1
        simp at hs; subst hs; intro a ha; simp at ha; subst ha; rfl
      · simp [h0, h1] at hs,
   by decide, by decide⟩

/-- the generated lock table is not the trivial one: writers really are under `Lock`, readers under `RLock` -/
example : generatedLock "AddClass" = .W ∧ generatedLock "GetClass" = .R ∧ generatedLock "LoadPkg" = .R ∧
    generatedLock "NoSuchMethod" = .none := by decide

/-- `C10_add_visible` / `C10_duplicate_one_winner` on a concrete history: Foo from file 1 wins,
file 2 is rejected, a same-file re-add is accepted, the lookup (also case-insensitively) sees #1 -/
example :
    trace Model.Reg.init [.addClass ⟨"Foo".toList, 1, some 1⟩, .addClass ⟨"Foo".toList, 2, some 2⟩,
      .addClass ⟨"Foo".toList, 3, some 1⟩, .getClass "Foo".toList, .getClass "foo".toList,
      .addIface ⟨"Foo".toList, 4, some 2⟩, .loadPkg "\\Foo".toList, .getOrLoadClass "Bar".toList]
    = [.ok, .errClass, .ok, .hit 1, .hitAny [1], .errIface, .hit 1, .errLoad] := by decide

/-- the cross-kind same-file re-add that reports success and registers nothing (see notes) -/
example :
    trace Model.Reg.init [.addIface ⟨"Foo".toList, 1, some 1⟩, .addClass ⟨"Foo".toList, 2, some 1⟩,
      .getClass "Foo".toList, .lookPkg "Foo".toList]
    = [.ok, .ok, .miss, .hitI 1] := by decide

/-- the regenerated table of the class-path manager is not the trivial one: both calls hold `Lock`,
and the memoising helper is reached from `FindClassFile` -/
example : pathLock "FindClassFile" = .W ∧ pathLock "AddNamespace" = .W ∧ pathLock "LoadClass" = .W ∧
    methodWrites Generated.C10PathLocks.apiFacts "FindClassFile" = true ∧
    methodWrites Generated.C10PathLocks.facts "findNamespaceNode" = true := by decide

/-- a tiny file system: `/r1/A/C.php`, `/r2/A/C.php`, `/r2/A/F.php`, namespace `App` ↦ `/r1`, `/r2` -/
def demoDisk : Model.Cpm.Disk where
  exist p := p == "/r1" || p == "/r2" || p == "/r2/A"
  sub p part := if part == "A" && (p == "/r1" || p == "/r2") then some (p ++ "/A") else none
  file p cls := if (p == "/r1/A" || p == "/r2/A") && cls == "C" then some (p ++ "/C.php")
    else if p == "/r2/A" && cls == "F" then some (p ++ "/F.php") else none

/-- `FindClassFile` is a writer: the first lookup memoises `App\A` (here twice — the inner loop of
`findNamespaceNode` goes on after its first hit with `current` already moved, so the second root's
directory becomes a child of the first hit); the same lookup then answers from the memoised node.
The sequential correspondence run confirms this trace on the real manager. -/
example :
    Model.Cpm.trace demoDisk Model.Cpm.init
      [.add ["App"] "/r1", .add ["App"] "/r2", .find ["App", "A"] "C" (some "App\\A\\C"),
       .find ["App", "A"] "C" (some "App\\A\\C"), .find ["App", "A"] "F" (some "App\\A\\F")]
    = [.ok, .ok, .hit "/r2/A/C.php", .hit "/r1/A/C.php", .miss] := by decide

/-- `C10_path_registered_visible` is not vacuous: the empty manager is well-formed, the path exists -/
example : Proofs.Cpm.WF Model.Cpm.init ∧ demoDisk.exist "/r2/A" = true ∧
    (Model.Cpm.find demoDisk (Model.Cpm.runOps demoDisk (Model.Cpm.addNamespace demoDisk Model.Cpm.init ["App", "A"] "/r2/A") [])
      ["App", "A"] "F" none).2 = some "/r2/A/F.php" := by
  refine ⟨Proofs.Cpm.wf_init, by decide, by decide⟩

/-- `C10_memo_linearizable` is not vacuous: the store-inside discipline is `ok`, and under the schedule of the
counterexample it answers `miss` (before the registration) and then `hit`; the facts of a lookup that stores
after `RUnlock` describe `storeOutside`, are rejected by the obligation, and give `miss`, `miss` -/
example : (⟨true, true⟩ : Model.Memo.Disc).ok = true ∧
    ((Model.Memo.run ⟨true, true⟩ (Model.Memo.init staleProgs) [1, 1, 0, 1, 1]).thr 1).out = [.miss, .hit] ∧
    ((Model.Memo.run storeOutside (Model.Memo.init staleProgs) [1, 1, 0, 1, 1]).thr 1).out = [.miss, .miss] ∧
    ((Model.Memo.run storeOutside (Model.Memo.init staleProgs) [1, 1, 0, 1, 1]).thr 0).out = [.ok] ∧
    Model.Memo.memoDiscOf [⟨"AddClass", "classMiss", .wr, .W, true, true⟩,
      ⟨"findClassCaseInsensitive", "classMiss", .rd, .none, true, false⟩,
      ⟨"findClassCaseInsensitive", "classMiss", .wr, .none, true, false⟩] = storeOutside ∧
    Model.Memo.auxViolations [⟨"AddClass", "classMiss", .wr, .W, true, true⟩,
      ⟨"findClassCaseInsensitive", "classMiss", .rd, .none, true, false⟩,
      ⟨"findClassCaseInsensitive", "classMiss", .wr, .none, true, false⟩] =
      ["findClassCaseInsensitive:classMiss:memo-updated-outside-every-critical-section"] ∧
    Model.Memo.auxViolations [⟨"AddClass", "classMiss", .wr, .W, true, true⟩,
      ⟨"scanClass", "classMiss", .wr, .R, true, true⟩,
      ⟨"findClassCaseInsensitive", "classMiss", .rd, .none, true, false⟩] = [] := by decide

/-! ## Round 8 — one lock per map (Model.Split) -/

/-- **Obligation (regenerated facts with lock names)**: every access of a guarded map of `runtime.VM` and of the
class-path manager holds a mutex, and all accesses of one map hold the SAME mutex — a lock split that converts
some but not all accessors of a map (`EnsureGlobalZVal` under `valMu`, `RegisterGlobalContext` still under `mu`)
fails here by name. -/
theorem C10_one_lock_per_map :
    Model.Split.oneLock Generated.C10LockNames.vm = true ∧ Model.Split.oneLock Generated.C10LockNames.paths = true ∧
    Generated.C10LockNames.shape = [] := by decide

/-- what the decidable obligation says: two facts about the same map name the same lock(s), none of them "" -/
theorem C10_oneLock_spec (tbl : List Model.Split.LockFact) (h : Model.Split.oneLock tbl = true) :
    ∀ f ∈ tbl, f.locks ≠ "" ∧ ∀ g ∈ tbl, f.map = g.map → f.locks = g.locks := by
  intro f hf
  simp only [Model.Split.oneLock, List.all_eq_true, Bool.and_eq_true, Bool.or_eq_true, bne_iff_ne, beq_iff_eq] at h
  obtain ⟨h1, h2⟩ := h f hf
  refine ⟨h1, fun g hg hm => ?_⟩
  rcases h2 g hg with h3 | h3
  · exact absurd hm h3
  · exact h3

/-- **A name is bound once** (full strength: any number of goroutines, calls, mutexes and names, every schedule):
if all binding sections hold the same mutex, every two responses for one name carry the same binding. -/
theorem C10_split_bound_once (prog : Model.Split.Tid → List Model.Split.Sec) (h : Model.Split.SameLock prog)
    (sched : List Model.Split.Tid) :
    Model.Split.BoundOnce (Model.Split.run (Model.Split.init prog) sched).log := by
  have key : ∃ ℓ, ∀ t sec, sec ∈ prog t → sec.lk = ℓ := by
    by_cases hex : ∃ t sec, sec ∈ prog t
    · obtain ⟨t0, sec0, h0⟩ := hex
      exact ⟨sec0.lk, fun t sec hm => h t sec hm t0 sec0 h0⟩
    · exact ⟨0, fun t sec hm => absurd ⟨t, sec, hm⟩ hex⟩
  obtain ⟨ℓ, hℓ⟩ := key
  have inv := Model.Split.inv_run (ℓ := ℓ) sched (Model.Split.inv_init ℓ prog hℓ)
  intro e₁ h₁ e₂ h₂ heq
  have a := inv.logged e₁ h₁
  have b := inv.logged e₂ h₂
  rw [heq] at a
  rw [a] at b
  exact Option.some.inj b

/-- **A completed binding is what every later call returns**: under the discipline a binding present in the
table at some point is still the binding after any further schedule, and every response agrees with the table. -/
theorem C10_split_binding_stable (prog : Model.Split.Tid → List Model.Split.Sec) (h : Model.Split.SameLock prog)
    (s₁ s₂ : List Model.Split.Tid) (n : Model.Split.Name) (v : Model.Split.Val)
    (hb : (Model.Split.run (Model.Split.init prog) s₁).store n = some v) :
    (Model.Split.run (Model.Split.run (Model.Split.init prog) s₁) s₂).store n = some v ∧
    ∀ e ∈ (Model.Split.run (Model.Split.run (Model.Split.init prog) s₁) s₂).log, e.1 = n → e.2 = v := by
  have key : ∃ ℓ, ∀ t sec, sec ∈ prog t → sec.lk = ℓ := by
    by_cases hex : ∃ t sec, sec ∈ prog t
    · obtain ⟨t0, sec0, h0⟩ := hex
      exact ⟨sec0.lk, fun t sec hm => h t sec hm t0 sec0 h0⟩
    · exact ⟨0, fun t sec hm => absurd ⟨t, sec, hm⟩ hex⟩
  obtain ⟨ℓ, hℓ⟩ := key
  have inv₁ := Model.Split.inv_run (ℓ := ℓ) s₁ (Model.Split.inv_init ℓ prog hℓ)
  have st := Model.Split.store_stable_run s₂ inv₁ hb
  refine ⟨st, fun e he hn => ?_⟩
  have a := (Model.Split.inv_run s₂ inv₁).logged e he
  rw [hn, st] at a
  exact (Option.some.inj a).symm

/-- the lock split: goroutine 0 binds name 7 under mutex 0 (`RegisterGlobalContext`, `vm.mu`), goroutine 1 binds it
under mutex 1 (`EnsureGlobalZVal`, `vm.valMu`) -/
def splitProgs : Model.Split.Tid → List Model.Split.Sec
  | 0 => [⟨0, 7, 100⟩]
  | 1 => [⟨1, 7, 200⟩]
  | _ => []

/-- **Negation witness**: with the two writers under DIFFERENT mutexes both look the name up before either
inserts; the name is bound twice (the two calls are answered with different bindings, the first binding is
lost from the table) — the harness meets this on the real code as `fatal error: concurrent map writes`. -/
theorem C10_split_counterexample :
    ¬ Model.Split.SameLock splitProgs ∧
    (Model.Split.run (Model.Split.init splitProgs) [0, 1, 0, 1, 0, 1, 0, 1]).log = [(7, 200), (7, 100)] ∧
    ¬ Model.Split.BoundOnce (Model.Split.run (Model.Split.init splitProgs) [0, 1, 0, 1, 0, 1, 0, 1]).log := by
  have hlog : (Model.Split.run (Model.Split.init splitProgs) [0, 1, 0, 1, 0, 1, 0, 1]).log = [(7, 200), (7, 100)] := by
    decide
  refine ⟨?_, hlog, ?_⟩
  · intro h
    have := h 0 ⟨0, 7, 100⟩ (by simp [splitProgs]) 1 ⟨1, 7, 200⟩ (by simp [splitProgs])
    simp at this
  · intro h
    rw [hlog] at h
    have := h (7, 200) (by simp) (7, 100) (by simp) rfl
    simp at this

/-- sections drawn from the facts of one map: a call of a method the table lists for `m`, under the mutex (index
`idx` of its name) the table gives for it -/
def SecsFrom (tbl : List Model.Split.LockFact) (idx : String → Model.Split.Lock) (m : String)
    (prog : Model.Split.Tid → List Model.Split.Sec) : Prop :=
  ∀ t sec, sec ∈ prog t → ∃ f ∈ tbl, f.map = m ∧ sec.lk = idx f.locks

/-- **Instantiated by the regenerated facts**: for every guarded map of `runtime.VM`, any goroutines running any
binding calls through the methods the facts list for that map bind every name once, in every schedule. -/
theorem C10_split_generated (idx : String → Model.Split.Lock) (m : String)
    (prog : Model.Split.Tid → List Model.Split.Sec) (h : SecsFrom Generated.C10LockNames.vm idx m prog)
    (sched : List Model.Split.Tid) :
    Model.Split.BoundOnce (Model.Split.run (Model.Split.init prog) sched).log := by
  apply C10_split_bound_once
  intro t sec hs t' sec' hs'
  obtain ⟨f, hf, hfm, hfl⟩ := h t sec hs
  obtain ⟨g, hg, hgm, hgl⟩ := h t' sec' hs'
  have := (C10_oneLock_spec _ C10_one_lock_per_map.1 f hf).2 g hg (hfm.trans hgm.symm)
  rw [hfl, hgl, this]

/-- `C10_split_bound_once` is not vacuous: the same two writers under ONE mutex — the schedule of the
counterexample serialises them, both calls are answered with the first binding -/
example : Model.Split.SameLock (fun t => (splitProgs t).map fun s => { s with lk := 0 }) ∧
    (Model.Split.run (Model.Split.init (fun t => (splitProgs t).map fun s => { s with lk := 0 })) [0, 1, 0, 1, 0, 1, 0, 1, 1, 1, 1]).log
      = [(7, 100), (7, 100)] ∧
    Model.Split.oneLock [⟨"EnsureGlobalZVal", "globalVars", "valMu"⟩, ⟨"RegisterGlobalContext", "globalVars", "mu"⟩] = false := by
  refine ⟨?_, by decide, by decide⟩
  intro t sec hs t' sec' hs'
  simp only [List.mem_map] at hs hs'
  obtain ⟨a, _, rfl⟩ := hs
  obtain ⟨b, _, rfl⟩ := hs'
  rfl

end C10
