import Model.Access
import Model.Types
import Model.Inst
import Spec.Access
import Spec.Inst
import Generated.C07Access
import Proofs.Lemmas.Access
import Proofs.Lemmas.AccessTypes
import Proofs.Lemmas.AccessKnown
import Proofs.Lemmas.Inst
/-!
# C07 — visibility and declared types are enforced at every access path and boundary

All theorems quantify over every class hierarchy `H` (any size, any depth), every site and every
table `T : Path → Recv → Check` of the shape the translator regenerates; the instance regenerated from the
source (`Generated.C07Access`) is held against the known findings by `decide` at the end of the file.

FULL STATEMENT (false on the pinned tree, kept as the goal):

    theorem C07_paths_agree : ∀ H s, WfSite H s → decide Generated.C07Access.table H s ≠ .stuck →
        (decide Generated.C07Access.table H s = .allowed ↔ Spec.Access.allowed H s.m s.lex s.decl)
    theorem C07_types_exact_at_every_boundary : ∀ b t v,
        admits isA (Generated.C07Access.boundary b) t v = true ↔ Spec.Types.denote H t v

What the pinned code (after the `fixes/C07-*` patches) does satisfy is proved below, what it does not is
proved as negation witnesses which the harness replays on the real interpreter (known findings).

After the second round of repairs (`fixes/C07-1-*` … `C07-6-*`) `C07_paths_agree` holds at full strength on every
`->`, dynamic-name, `A::m()`, `self::m()`, `static::m()`, `unset($o->p)` and `foreach` arm (`C07_lexical_exact`,
`C07_known_exact_arms`, instantiated for the regenerated table in `C07_generated_exact_paths`) and
`C07_types_exact_at_every_boundary` on eleven of the thirteen boundaries (`C07_generated_exact_boundaries`);
what keeps the two full statements false is `A::$p` / `self::$p` / `static::$p` (modifier and declared type of a
static property are lost when the class is parsed), the return type of closures (dropped), and the index paths
`$o['p']`, which are sound but refuse more than PHP's rule. The witnesses of the repaired defects are kept
against the table as it was (`pinnedBefore`), next to the proof that the same sites are now refused.
-/
namespace C07
open Model.Access Model.Types Spec.Access Spec.Types Proofs.Access Proofs.AccessTypes Proofs.AccessKnown

/-- what the language guarantees about where code runs (not about visibility): a class context runs code
of the context class or of a class it inherits from; code written in a class runs in a class context
(closures keep it); the receiver has the member; `$this` is an object of the context class -/
structure WfSite (H : Hier) (s : Site) : Prop where
  ctxLex : ∀ r, s.ctx = some r → ∃ l, s.lex = some l ∧ Sub H r l
  lexCtx : ∀ l, s.lex = some l → ∃ r, s.ctx = some r
  objDecl : Sub H s.obj s.decl
  thisObj : s.recv = .this → s.ctx = some s.obj

/-! ## protected: sound on every path that tests it, for every site (also for inherited methods) -/

/-- **C07_protected_sound.** On a path whose arm guards `protected` with `isCallerInClassHierarchy`
(whatever the target: the object's class or the declaring class), an access the interpreter lets through is
one PHP allows — for every hierarchy and every well-formed site, including code inherited by the running
object's class. -/
theorem C07_protected_sound (T : Table) (H : Hier) (s : Site) (hd : NoDangling H) (wf : WfSite H s)
    (hm : s.m = .prot) (gp td : Bool) (hT : T s.path s.recv = .hier gp true td)
    (h : decide T H s = .allowed) : allowed H s.m s.lex s.decl := by
  unfold Model.Access.decide at h
  rw [hT] at h
  simp only [decideCheck, hm, guarded, if_true] at h
  obtain ⟨c, hc, hr⟩ := ofCheck_allowed hd h
  obtain ⟨l, hl, hcl⟩ := wf.ctxLex c hc
  rw [hm]
  refine ⟨l, hl, ?_⟩
  -- the context class is related to the declaring class
  have hcd : Related H c s.decl := by
    cases td with
    | true => simpa using hr
    | false =>
      simp only [Bool.false_eq_true, if_false] at hr
      cases hr with
      | inl h1 => exact Or.inl (Sub.trans h1 wf.objDecl)
      | inr h2 => exact (Sub.linear h2 wf.objDecl)
  cases hcd with
  | inl h1 => exact Sub.linear hcl h1
  | inr h2 => exact Or.inr (Sub.trans h2 hcl)

example : C07.WfSite [⟨1, none, []⟩, ⟨2, some 1, []⟩, ⟨3, some 2, []⟩] ⟨.propRead, .other, .prot, some 3, some 2, 2, 1⟩ :=
  ⟨fun r hr => ⟨2, rfl, by cases hr; exact Sub.of_ext rfl⟩, fun _ _ => ⟨3, rfl⟩, Sub.of_ext rfl,
   fun h => by cases h⟩

/-- **C07_this_protected_sound.** `$this->x` needs no test for `protected`: the lexical class and the
declaring class are both ancestors (or the class) of the running object, hence related — whatever the arm
does. -/
theorem C07_this_protected_sound (H : Hier) (s : Site) (wf : WfSite H s) (hr : s.recv = .this)
    (hm : s.m = .prot) : allowed H s.m s.lex s.decl := by
  have hc := wf.thisObj hr
  obtain ⟨l, hl, hcl⟩ := wf.ctxLex _ hc
  rw [hm]
  exact ⟨l, hl, Sub.linear hcl wf.objDecl⟩

/-! ## the lexical test is exact: `private` = declaring class only, `protected` = declaring class, descendants, ancestors -/

/-- **C07_lexical_exact.** (`C07_paths_agree`, full strength, for every arm that tests both modifiers with
`canAccessProperty` / `canAccessMethod` / `canAccessMember`.) On such an arm the decision of the access path
as coded IS PHP's visibility rule on (class whose text contains the access, class that declares the member):
for every hierarchy, every site — inherited methods, closures, `$this` or another object, code of ancestors,
descendants, siblings, unrelated classes, code outside every class — and every modifier. No hypothesis about the
site is needed any more (compare `C07_hier_exact_partial`); `hc` only says that `self::` / `static::` stand in
class code. -/
theorem C07_lexical_exact (T : Table) (H : Hier) (s : Site) (hd : NoDangling H) (nc : Bool)
    (hT : T s.path s.recv = .lexical true true nc) (hc : nc = true → s.ctx.isSome)
    (hns : decide T H s ≠ .stuck) :
    decide T H s = .allowed ↔ allowed H s.m s.lex s.decl := by
  unfold Model.Access.decide at hns ⊢
  rw [hT] at hns ⊢
  have hcond : (nc && s.ctx.isNone) = false := by
    cases nc with
    | false => rfl
    | true =>
      have := hc rfl
      cases hx : s.ctx with
      | none => rw [hx] at this; cases this
      | some _ => rfl
  simp only [decideCheck, hcond, Bool.false_eq_true, if_false] at hns ⊢
  cases hm : s.m with
  | pub => simp [guarded, allowed]
  | prot =>
    simp only [hm, guarded, if_true] at hns ⊢
    cases hr : lexRule H .prot s.lex s.decl with
    | none => rw [hr] at hns; exact absurd rfl hns
    | some b =>
      have := lexRule_spec hd hr
      cases b with
      | true => simp only [Out.ofCheck, true_iff]; exact this.mp rfl
      | false =>
        simp only [Out.ofCheck]
        constructor
        · intro h; cases h
        · intro h; have := this.mpr h; cases this
  | priv =>
    simp only [hm, guarded, if_true] at hns ⊢
    cases hr : lexRule H .priv s.lex s.decl with
    | none => rw [hr] at hns; exact absurd rfl hns
    | some b =>
      have := lexRule_spec hd hr
      cases b with
      | true => simp only [Out.ofCheck, true_iff]; exact this.mp rfl
      | false =>
        simp only [Out.ofCheck]
        constructor
        · intro h; cases h
        · intro h; have := this.mpr h; cases this

/-- the site of `leak:propRead/this:priv:ancestor`: code of class 1 (ancestor), inherited by and running on an object
of class 2, reads `$this->p` declared private by class 2 — refused; the declaring class's own code — allowed -/
example : decide pinned [⟨1, none, []⟩, ⟨2, some 1, []⟩] ⟨.propRead, .this, .priv, some 2, some 1, 2, 2⟩ = .denied ∧
    decide pinned [⟨1, none, []⟩, ⟨2, some 1, []⟩] ⟨.propRead, .this, .priv, some 2, some 2, 2, 2⟩ = .allowed := by
  decide

/-- **C07_known_exact_arms.** Whatever table the translator regenerates: if it is within the known findings
(`TableOK`, the obligation discharged for the regenerated table at the end of this file), then on every arm the
known findings grade `exact` the decision is PHP's rule. A source change that weakens one of these arms fails
`C07_table_within_known`; one that keeps them leaves this theorem applicable. (`hc`: an arm that also asks for
a class context — `self::`, `static::` — is used in class code.) -/
theorem C07_known_exact_arms (T : Table) (hOK : TableOK T = true) (H : Hier) (s : Site) (hd : NoDangling H)
    (hk : known s.path s.recv = .exact)
    (hc : ∀ nc, T s.path s.recv = .lexical true true nc → nc = true → s.ctx.isSome)
    (hns : decide T H s ≠ .stuck) :
    decide T H s = .allowed ↔ allowed H s.m s.lex s.decl := by
  obtain ⟨nc, hT⟩ := TableOK_exact hOK hk
  exact C07_lexical_exact T H s hd nc hT (hc nc hT) hns

/-! ## the hierarchy test is exact where the context is the lexical class and the target the declaring class

(the shape of the `->` arms before `fixes/C07-1-*`; kept because the theorem is about every table) -/

/-- **C07_hier_exact_partial.** (`C07_paths_agree` for the `->`, dynamic-name and `A::m()` paths, *partial*.)
Excluded by hypothesis, each a known finding: (1) `ctx = lex` — the code looks at the runtime class of
`$this`, not at the class whose text contains the access (inherited methods); (2) the test targets the
declaring class — on the `->` paths it targets the object's class; (3) for `private`, the caller is the
declaring class or unrelated to it — the code enforces `private` exactly like `protected`. -/
theorem C07_hier_exact_partial (T : Table) (H : Hier) (s : Site) (hd : NoDangling H)
    (td : Bool) (hT : T s.path s.recv = .hier true true td)
    (hctx : s.ctx = s.lex) (htgt : td = false → s.obj = s.decl)
    (hpriv : s.m = .priv → s.lex = some s.decl ∨ ¬ ∃ c, s.lex = some c ∧ Related H c s.decl)
    (hns : decide T H s ≠ .stuck) :
    decide T H s = .allowed ↔ allowed H s.m s.lex s.decl := by
  unfold Model.Access.decide at hns ⊢
  rw [hT] at hns ⊢
  have htarget : (if td = true then s.decl else s.obj) = s.decl := by
    cases td with
    | true => simp
    | false => simp [htgt rfl]
  cases hm : s.m with
  | pub => simp [decideCheck, hm, guarded, allowed]
  | prot =>
    simp only [decideCheck, hm, guarded, if_true, htarget, hctx] at hns ⊢
    constructor
    · intro h; exact ofCheck_allowed hd h
    · intro h
      rcases ofCheck_cases (inHierarchy H s.lex s.decl) with h1 | h1 | h1
      · exact h1
      · exact absurd h (ofCheck_denied hd h1)
      · exact absurd h1 hns
  | priv =>
    simp only [decideCheck, hm, guarded, if_true, htarget, hctx] at hns ⊢
    constructor
    · intro h
      have := ofCheck_allowed hd h
      cases hpriv hm with
      | inl h1 => exact h1
      | inr h2 => exact absurd this h2
    · intro h
      have h' : s.lex = some s.decl := h
      have hrel : ∃ c, s.lex = some c ∧ Related H c s.decl := ⟨s.decl, h', Related.refl _⟩
      rcases ofCheck_cases (inHierarchy H s.lex s.decl) with h1 | h1 | h1
      · exact h1
      · exact absurd hrel (ofCheck_denied hd h1)
      · exact absurd h1 hns

example : decide pinnedBefore [⟨1, none, []⟩, ⟨2, some 1, []⟩] ⟨.staticMeth, .other, .prot, some 2, some 2, 2, 1⟩ = .allowed := by
  decide

/-- **C07_private_as_protected_counterexample.** (Pre-fix behaviour, repaired by `fixes/C07-1-*`.) Code of a
subclass reads a private member of its parent through `$o->p`: the decision of the tree as it was is `allowed`,
PHP's is not. (Was `leak:propRead:priv:descendant`; the replay is kept and must now be refused.) -/
theorem C07_private_as_protected_counterexample :
    ¬ ∀ (H : Hier) (s : Site), WfSite H s → decide pinnedBefore H s = .allowed → allowed H s.m s.lex s.decl := by
  intro h
  have := h [⟨1, none, []⟩, ⟨2, some 1, []⟩] ⟨.propRead, .other, .priv, some 2, some 2, 1, 1⟩
    ⟨fun r hr => ⟨2, rfl, by cases hr; exact Sub.refl 2⟩, fun _ _ => ⟨2, rfl⟩, Sub.refl 1, fun h => by cases h⟩
    (by decide)
  simp [allowed] at this

/-- **C07_runtime_class_counterexample.** (Pre-fix behaviour, repaired by `fixes/C07-1-*`.) A method inherited
from an unrelated-to-the-member ancestor, run on an object of the declaring class, reaches that class's private
member: the test looked at the class of `$this`, not at the class whose text contains the access. (Was
`leak:propRead:priv:ancestor`.) -/
theorem C07_runtime_class_counterexample :
    ¬ ∀ (H : Hier) (s : Site), WfSite H s → decide pinnedBefore H s = .allowed → allowed H s.m s.lex s.decl := by
  intro h
  have := h [⟨1, none, []⟩, ⟨2, some 1, []⟩] ⟨.propRead, .other, .priv, some 2, some 1, 2, 2⟩
    ⟨fun r hr => ⟨1, rfl, by cases hr; exact Sub.of_ext rfl⟩, fun _ _ => ⟨2, rfl⟩, Sub.refl 2, fun h => by cases h⟩
    (by decide)
  simp [allowed] at this

/-- **C07_repaired_sites_refused.** The two witnesses above, on the table of the repaired tree: refused. -/
theorem C07_repaired_sites_refused :
    decide pinned [⟨1, none, []⟩, ⟨2, some 1, []⟩] ⟨.propRead, .other, .priv, some 2, some 2, 1, 1⟩ = .denied ∧
    decide pinned [⟨1, none, []⟩, ⟨2, some 1, []⟩] ⟨.propRead, .other, .priv, some 2, some 1, 2, 2⟩ = .denied := by
  decide

/-! ## arms that test nothing -/

/-- **C07_unchecked_leaks.** An arm that performs no test lets every access through; so it is right exactly
at the sites where PHP allows the access anyway, and every other site is a leak. This is what makes the
obligation `TableOK Generated.C07Access.table` (below) bite: a path that loses its test becomes `unchecked`. -/
theorem C07_unchecked_leaks (T : Table) (H : Hier) (s : Site) (hT : T s.path s.recv = .unchecked) :
    decide T H s = .allowed := by
  simp [Model.Access.decide, hT, decideCheck]

/-- **C07_static_property_counterexample.** `A::$priv` from top-level code. (Replayed as
`leak:staticPropRead:priv:outside`.) -/
theorem C07_static_property_counterexample :
    ¬ ∀ (H : Hier) (s : Site), WfSite H s → decide pinned H s = .allowed → allowed H s.m s.lex s.decl := by
  intro h
  have := h [⟨1, none, []⟩] ⟨.staticPropRead, .other, .priv, none, none, 1, 1⟩
    ⟨fun r hr => (by cases hr), fun l hl => (by cases hl), Sub.refl 1, fun h => (by cases h)⟩ (by decide)
  simp [allowed] at this

/-- **C07_self_keyword_counterexample.** `self::$priv` in a subclass of the declaring class. (Replayed as
`leak:selfProp:priv:descendant`.) -/
theorem C07_self_keyword_counterexample :
    ¬ ∀ (H : Hier) (s : Site), WfSite H s → decide pinned H s = .allowed → allowed H s.m s.lex s.decl := by
  intro h
  have := h [⟨1, none, []⟩, ⟨2, some 1, []⟩] ⟨.selfProp, .other, .priv, some 2, some 2, 2, 1⟩
    ⟨fun r hr => ⟨2, rfl, by cases hr; exact Sub.refl 2⟩, fun _ _ => ⟨2, rfl⟩, Sub.of_ext rfl, fun h => by cases h⟩
    (by decide)
  simp [allowed] at this

/-! ## paths that are right -/

/-- where `parent::m()` stands: in a class context, in a class whose strict ancestor declares `m` -/
def ParentSite (H : Hier) (s : Site) : Prop :=
  s.ctx.isSome ∧ ∃ l p, s.lex = some l ∧ extOf H l = some p ∧ Sub H p s.decl ∧ l ≠ s.decl

/-- **C07_parent_exact.** `parent::m()` agrees with PHP's rule at full strength: a private method of an
ancestor is refused, public and protected ones are callable. -/
theorem C07_parent_exact (T : Table) (H : Hier) (s : Site) (hT : T s.path s.recv = .privDenied)
    (hp : ParentSite H s) : decide T H s = .allowed ↔ allowed H s.m s.lex s.decl := by
  obtain ⟨hc, l, p, hl, hext, hsub, hne⟩ := hp
  unfold Model.Access.decide
  rw [hT]
  cases hm : s.m with
  | pub => simp [decideCheck, hc, hm, allowed]
  | prot =>
    constructor
    · intro _
      show ∃ c, s.lex = some c ∧ Related H c s.decl
      exact ⟨l, hl, Or.inl (Sub.step hext hsub)⟩
    · intro _
      simp [decideCheck, hc, hm]
  | priv =>
    constructor
    · intro h
      simp [decideCheck, hc, hm] at h
    · intro h
      have h' : s.lex = some s.decl := h
      rw [hl] at h'
      cases h'
      exact absurd rfl hne

example : C07.ParentSite [⟨1, none, []⟩, ⟨2, some 1, []⟩] ⟨.parentMeth, .other, .prot, some 2, some 2, 2, 1⟩ :=
  ⟨rfl, 2, 1, rfl, rfl, Sub.refl 1, by decide⟩

/-- **C07_public_only_sound.** `$o['p']` lets through public members only: whatever it allows, PHP allows. -/
theorem C07_public_only_sound (T : Table) (H : Hier) (s : Site) (hT : T s.path s.recv = .pubOnly)
    (h : decide T H s = .allowed) : allowed H s.m s.lex s.decl := by
  unfold Model.Access.decide at h
  rw [hT] at h
  cases hm : s.m <;> simp [decideCheck, hm, allowed] at h ⊢

example : decide pinned [] ⟨.idxRead, .other, .pub, none, none, 1, 1⟩ = .allowed := by decide

/-! ## all paths together -/

/-- the sites at which the arm `T s.path s.recv` is right — one clause per kind of arm, each excluded site
class is a known finding (leak) or an over-refusal recorded in notes/C07.md -/
def Faithful (T : Table) (H : Hier) (s : Site) : Prop :=
  match T s.path s.recv with
  | .unchecked => allowed H s.m s.lex s.decl
  | .lexical gp gq nc => gp = true ∧ gq = true ∧ (nc = true → s.ctx.isSome)
  | .hier gp gq td =>
    gp = true ∧ gq = true ∧ s.ctx = s.lex ∧ (td = false → s.obj = s.decl) ∧
    (s.m = .priv → s.lex = some s.decl ∨ ¬ ∃ c, s.lex = some c ∧ Related H c s.decl)
  | .pubOnly => s.m = .pub ∨ ¬ allowed H s.m s.lex s.decl
  | .pubOnlyOwn ea =>
    (s.decl = s.obj → s.m = .pub ∨ ¬ allowed H s.m s.lex s.decl) ∧
    (s.decl ≠ s.obj → if ea then allowed H s.m s.lex s.decl else ¬ allowed H s.m s.lex s.decl)
  | .classCtxOnly => s.ctx.isSome ∧ allowed H s.m s.lex s.decl
  | .privDenied => ParentSite H s
  | .shapeChanged => False

/-- **C07_paths_agree_partial.** For every table, hierarchy and site: at the sites where the arm is
faithful (see `Faithful`), the decision of the access path as coded is PHP's visibility rule. -/
theorem C07_paths_agree_partial (T : Table) (H : Hier) (s : Site) (hd : NoDangling H)
    (hf : Faithful T H s) (hns : decide T H s ≠ .stuck) :
    decide T H s = .allowed ↔ allowed H s.m s.lex s.decl := by
  unfold Faithful at hf
  cases hT : T s.path s.recv with
  | unchecked =>
    rw [hT] at hf
    simp [C07_unchecked_leaks T H s hT, hf]
  | lexical gp gq nc =>
    rw [hT] at hf
    obtain ⟨h1, h2, h3⟩ := hf
    subst h1; subst h2
    exact C07_lexical_exact T H s hd nc hT h3 hns
  | hier gp gq td =>
    rw [hT] at hf
    obtain ⟨h1, h2, h3, h4, h5⟩ := hf
    subst h1; subst h2
    exact C07_hier_exact_partial T H s hd td hT h3 h4 h5 hns
  | pubOnly =>
    rw [hT] at hf
    unfold Model.Access.decide
    rw [hT]
    cases hf with
    | inl h => simp [decideCheck, h, allowed]
    | inr h =>
      have hm : s.m ≠ .pub := by intro hm; rw [hm] at h; simp [allowed] at h
      simp [decideCheck, hm, h]
  | pubOnlyOwn ea =>
    rw [hT] at hf
    unfold Model.Access.decide
    rw [hT]
    by_cases hdo : s.decl = s.obj
    · cases hf.1 hdo with
      | inl h =>
        simp only [decideCheck, if_pos hdo, if_pos h]
        rw [h]
        simp [allowed]
      | inr h =>
        have hm : s.m ≠ .pub := by intro hm; rw [hm] at h; simp [allowed] at h
        simp only [decideCheck, if_pos hdo, if_neg hm]
        constructor
        · intro h'; cases h'
        · intro h'; exact absurd h' h
    · have := hf.2 hdo
      cases ea with
      | true =>
        simp only [if_true] at this
        simp only [decideCheck, if_neg hdo, if_true]
        exact ⟨fun _ => this, fun _ => trivial⟩
      | false =>
        simp only [Bool.false_eq_true, if_false] at this
        simp only [decideCheck, if_neg hdo, Bool.false_eq_true, if_false]
        constructor
        · intro h'; cases h'
        · intro h'; exact absurd h' this
  | classCtxOnly =>
    rw [hT] at hf
    simp [Model.Access.decide, hT, decideCheck, hf.1, hf.2]
  | privDenied =>
    rw [hT] at hf
    exact C07_parent_exact T H s hT hf
  | shapeChanged =>
    rw [hT] at hf
    exact hf.elim

example : C07.Faithful pinnedBefore [⟨1, none, []⟩, ⟨2, some 1, []⟩] ⟨.methCall, .other, .prot, some 2, some 2, 1, 1⟩ :=
  ⟨rfl, rfl, rfl, fun _ => rfl, fun h => by cases h⟩
/-- on the repaired tree every site of a `->` arm is faithful: also code of class 1 inherited by an object of class 2 -/
example : C07.Faithful pinned [⟨1, none, []⟩, ⟨2, some 1, []⟩] ⟨.methCall, .this, .priv, some 2, some 1, 2, 2⟩ :=
  ⟨rfl, rfl, fun h => by cases h⟩

/-- **C07_spec_decision_procedure.** `Spec.Access.allowedB` (what the driver answers to `spec` requests, against
which the harness holds its own Go oracle on every cell) decides `Spec.Access.allowed`. -/
theorem C07_spec_decision_procedure (H : Hier) (hd : NoDangling H) (m : Mod) (caller : Option Name) (decl : Name)
    (r : Bool) (h : allowedB H m caller decl = some r) : r = true ↔ allowed H m caller decl :=
  allowedB_spec hd h

example : allowedB [⟨1, none, []⟩, ⟨2, some 1, []⟩, ⟨3, none, []⟩] .prot (some 2) 1 = some true ∧
    allowedB [⟨1, none, []⟩, ⟨2, some 1, []⟩, ⟨3, none, []⟩] .prot (some 3) 1 = some false := by decide

/-! ## denied ⇒ no effect -/

/-- **C07_denied_no_effect.** On every path, for every table: an access that does not succeed — wrong type
at a typed store, modifier test failed, walk stuck — leaves every member cell and every call counter as it
was. -/
theorem C07_denied_no_effect (T : Table) (H : Hier) (s : Site) (σ : Store) (op : Op)
    (h : ∀ v, (exec T H s σ op).1 ≠ .ok v) : (exec T H s σ op).2 = σ := by
  cases op with
  | read k =>
    unfold exec at h ⊢
    cases hd : decide T H s <;> simp [hd] at h ⊢
  | write k v ok =>
    unfold exec at h ⊢
    cases ok with
    | false => simp
    | true =>
      cases hd : decide T H s <;> simp [hd] at h ⊢
  | call k =>
    unfold exec at h ⊢
    cases hd : decide T H s <;> simp [hd] at h ⊢

/-- **C07_allowed_effect_exact.** A successful write changes exactly the addressed cell, a successful call
runs the body exactly once, a read changes nothing. -/
theorem C07_allowed_effect_exact (T : Table) (H : Hier) (s : Site) (σ : Store) (op : Op) (r : Option Val)
    (h : (exec T H s σ op).1 = .ok r) :
    (exec T H s σ op).2 = σ.after op := by
  cases op with
  | read k =>
    unfold exec at h ⊢
    cases hd : decide T H s <;> simp [hd, Store.after] at h ⊢
  | write k v ok =>
    unfold exec at h ⊢
    cases ok with
    | false => simp at h
    | true => cases hd : decide T H s <;> simp [hd, Store.after] at h ⊢
  | call k =>
    unfold exec at h ⊢
    cases hd : decide T H s <;> simp [hd, Store.after] at h ⊢

example : (exec pinned [⟨1, none, []⟩] ⟨.propWrite, .other, .priv, none, none, 1, 1⟩
    ⟨fun _ => 1, fun _ => 0⟩ (.write 0 2 true)).1 = .denied := by decide

/-! ## declared types -/

/-- **C07_types_exact.** `Types.Is` accepts exactly the values the declared type stands for — for every
nesting of `?T` and `T1|T2|…` (induction on the type), given that the object test is `IsA` (C07_isA_exact
below for the class/implements part, C08 for interface inheritance). -/
theorem C07_types_exact (H : Hier) (isA : Name → Name → Bool) (hi : ∀ c n, isA c n = true ↔ IsA H c n)
    (t : Ty) (v : ValKind) : accepts isA t v = true ↔ denote H t v :=
  accepts_iff hi t v

/-- **C07_isA_exact.** The `Class.Is` walk (own name, own implements, then each ancestor's) answers `IsA`
whenever it terminates. -/
theorem C07_isA_exact (H : Hier) (c t : Name) (b : Bool) (h : isA H c t = some b) : b = true ↔ IsA H c t :=
  isA_spec h

example : isA [⟨1, none, [9]⟩, ⟨2, some 1, []⟩] 2 9 = some true := by decide

/-- **C07_boundary_exact.** A boundary that applies `Is` and nothing else (typed property store through
`->`, function return) admits exactly the denotation of the declared type. -/
theorem C07_boundary_exact (H : Hier) (isA : Name → Name → Bool) (hi : ∀ c n, isA c n = true ↔ IsA H c n)
    (t : Ty) (v : ValKind) : admits isA .exact t v = true ↔ denote H t v := by
  simp only [admits]
  exact accepts_iff hi t v

/-- **C07_boundary_null_partial.** A boundary of kind `nullAlso` lets `null` through whatever the declared type
is; for every other value it is exact. (Parameter binding and method return were of this kind before
`fixes/C07-4-*`, `C07-5-*`; no boundary of the repaired tree is, and `C07_boundaries_within_known` fails the build
if one becomes so again.) -/
theorem C07_boundary_null_partial (H : Hier) (isA : Name → Name → Bool)
    (hi : ∀ c n, isA c n = true ↔ IsA H c n) (t : Ty) (v : ValKind) (hv : v ≠ .null) :
    admits isA .nullAlso t v = true ↔ denote H t v := by
  cases v with
  | null => exact absurd rfl hv
  | _ => simp only [admits]; exact accepts_iff hi _ _

/-- **C07_boundary_null_counterexample.** (Pre-fix behaviour.) `function f(int $x)` called with `null` under a
`nullAlso` boundary (was `type:fnParam:null`, …; the replays are kept and must now be refused). -/
theorem C07_boundary_null_counterexample (H : Hier) (isA : Name → Name → Bool) :
    admits isA .nullAlso .int .null = true ∧ ¬ denote H .int .null := by
  refine ⟨rfl, ?_⟩
  intro h
  cases h

/-- **C07_boundary_unchecked_counterexample.** `A::$p = "x"` for `int $p`, a closure declared `: int` returning
"x" (replayed as `type:staticStore:nonnull`, `type:closureReturn:nonnull`; `$o['p'] = "x"` was of this kind before
`fixes/C07-6-*`). -/
theorem C07_boundary_unchecked_counterexample (H : Hier) (isA : Name → Name → Bool) :
    admits isA .unchecked .int .str = true ∧ ¬ denote H .int .str := by
  refine ⟨rfl, ?_⟩
  intro h
  cases h

example : accepts (fun c n => (isA [⟨1, none, [9]⟩, ⟨2, some 1, []⟩] c n).getD false)
    (.union [.int, .nullable (.cls 9)]) (.obj 2) = true := by decide

/-! ## abstract classes, interfaces, abstract completeness -/

/-- **C07_abstract_rules.** If `new C` succeeds then `C` names a declared class (not an interface), the
class is not abstract, declares no abstract method itself, and implements every abstract method of its
ancestors and every method of every interface it or an ancestor implements (directly or through interface
inheritance) — for every world of classes and interfaces. -/
theorem C07_abstract_rules (W : Model.Inst.World) (n : Model.Inst.Name)
    (h : Model.Inst.instantiate W n = .ok) :
    ∃ c, Model.Inst.getClass W n = some c ∧ c.isAbstract = false ∧ c.abstr = [] ∧ Spec.Inst.Complete W c :=
  Proofs.Inst.instantiate_ok h

/-- **C07_abstract_no_false_refusal.** The converse: when `new C` is refused for incompleteness, some
non-abstract class in the chain of `C` really declares an abstract method itself or leaves a required method
unimplemented. -/
theorem C07_abstract_no_false_refusal (W : Model.Inst.World) (n : Model.Inst.Name) (c : Model.Inst.ACls)
    (hc : Model.Inst.getClass W n = some c)
    (h : Model.Inst.instantiate W n = .missing ∨ Model.Inst.instantiate W n = .selfAbstract) :
    ∃ a, Spec.Inst.Anc W c a ∧ a.isAbstract = false ∧ (a.abstr ≠ [] ∨ ¬ Spec.Inst.Complete W a) := by
  unfold Model.Inst.instantiate at h
  rw [hc] at h
  simp only [] at h
  cases ha : c.isAbstract with
  | true => rw [ha] at h; simp at h
  | false =>
    rw [ha] at h
    simp only [Bool.false_eq_true, if_false] at h
    obtain ⟨a, haa, hab, hv⟩ := Proofs.Inst.instChain_refusal _ c _ rfl h
    refine ⟨a, haa, hab, ?_⟩
    cases h with
    | inl h1 => rw [h1] at hv; exact Or.inr (Proofs.Inst.validate_missing hv)
    | inr h1 => rw [h1] at hv; exact Or.inl (Proofs.Inst.validate_selfAbstract hv)

/-- **C07_abstract_refused.** An abstract class and a name that is not a class (an interface) are refused
outright. -/
theorem C07_abstract_refused (W : Model.Inst.World) (n : Model.Inst.Name) :
    (∀ c, Model.Inst.getClass W n = some c → c.isAbstract = true → Model.Inst.instantiate W n = .abstr) ∧
    (Model.Inst.getClass W n = none → Model.Inst.instantiate W n = .noClass) := by
  constructor
  · intro c hc ha; simp [Model.Inst.instantiate, hc, ha]
  · intro hn; simp [Model.Inst.instantiate, hn]

example : Model.Inst.instantiate ⟨[⟨1, none, [], true, [], [7]⟩, ⟨2, some 1, [], false, [7], []⟩], []⟩ 2 = .ok := by
  decide
example : Model.Inst.instantiate ⟨[⟨1, none, [], true, [], [7]⟩, ⟨2, some 1, [], false, [], []⟩], []⟩ 2 = .missing := by
  decide

/-! ## enforcement has no memory: the verdict recurs on every attempt, whatever came before

The matrices probe each enforcement point once. These theorems say what the model guarantees for *sequences*
of attempts within one VM, and the harness's history stream holds the interpreter against them (same site
twice, another site, after a caught denial, after a legitimate access, interleaved with other classes). -/

/-- **C07_verdict_state_independent.** The outcome kind of one access is `verdict`: a function of the site and
the operation, the same from every store. -/
theorem C07_verdict_state_independent (T : Table) (H : Hier) (s : Site) (σ : Store) (op : Op) :
    (exec T H s σ op).1.out = verdict T H ⟨s, op⟩ := by
  cases op with
  | read k =>
    unfold exec verdict
    cases hd : decide T H s <;> simp [Res.out]
  | write k v ok =>
    unfold exec verdict
    cases ok with
    | false => simp [Res.out]
    | true => cases hd : decide T H s <;> simp [Res.out]
  | call k =>
    unfold exec verdict
    cases hd : decide T H s <;> simp [Res.out]

/-- **C07_history_independent.** In any sequence of accesses run on one store, from any initial store, the
k-th outcome is the verdict of the k-th access alone. -/
theorem C07_history_independent (T : Table) (H : Hier) : ∀ (steps : List Step) (σ : Store),
    ((run T H σ steps).1).map Res.out = steps.map (verdict T H)
  | [], _ => rfl
  | st :: rest, σ => by
    simp only [run, List.map_cons]
    rw [C07_verdict_state_independent, C07_history_independent T H rest]

/-- **C07_enforcement_recurs.** After any two histories (from any two stores) the same access gets the same
outcome: a denial recurs on every later attempt, and so does a grant. -/
theorem C07_enforcement_recurs (T : Table) (H : Hier) (pre₁ pre₂ : List Step) (σ₁ σ₂ : Store) (st : Step) :
    (exec T H st.site (run T H σ₁ pre₁).2 st.op).1.out = (exec T H st.site (run T H σ₂ pre₂).2 st.op).1.out := by
  rw [C07_verdict_state_independent, C07_verdict_state_independent]

/-- **C07_sequence_effect_exact.** The store after a sequence of attempts is the initial store plus exactly
the effects of the allowed ones, in order; the denied attempts, however many and wherever they stand, leave
no trace. -/
theorem C07_sequence_effect_exact (T : Table) (H : Hier) : ∀ (steps : List Step) (σ : Store),
    (run T H σ steps).2 = effects T H σ steps
  | [], _ => rfl
  | st :: rest, σ => by
    simp only [run]
    rw [C07_sequence_effect_exact T H rest, exec_store]
    unfold effects
    by_cases hv : verdict T H st = .allowed
    · simp [hv]
    · simp [hv]

/-- **C07_denied_sequence_no_effect.** Any number of denied attempts in a row changes nothing. -/
theorem C07_denied_sequence_no_effect (T : Table) (H : Hier) (steps : List Step) (σ : Store)
    (h : ∀ st ∈ steps, verdict T H st ≠ .allowed) : (run T H σ steps).2 = σ := by
  rw [C07_sequence_effect_exact]
  unfold effects
  have : steps.filter (fun st => verdict T H st == .allowed) = [] := by
    apply List.filter_eq_nil_iff.mpr
    intro st hst
    simp [h st hst]
  rw [this]
  rfl

example : ((run pinned [⟨1, none, []⟩] ⟨fun _ => 1, fun _ => 0⟩
    [⟨⟨.propWrite, .other, .priv, none, none, 1, 1⟩, .write 0 2 true⟩,
     ⟨⟨.propWrite, .other, .priv, some 1, some 1, 1, 1⟩, .write 0 3 true⟩,
     ⟨⟨.propWrite, .other, .priv, none, none, 1, 1⟩, .write 0 4 true⟩]).1).map Res.out
    = [.denied, .allowed, .denied] := by decide

/-- **C07_boundary_history_independent.** A typed slot crossed repeatedly: the k-th crossing is admitted iff
the boundary admits that value for that declared type — whatever was offered, admitted or rejected before. -/
theorem C07_boundary_history_independent (isA : Name → Name → Bool) (k : BKind) (t : Ty) :
    ∀ (vs : List ValKind) (slot : Option ValKind), (storeRun isA k t slot vs).1 = vs.map (admits isA k t)
  | [], _ => rfl
  | v :: rest, slot => by
    simp only [storeRun, List.map_cons]
    rw [C07_boundary_history_independent isA k t rest]
    unfold storeStep
    cases admits isA k t v <;> simp

/-- **C07_typed_slot_invariant.** A slot behind an exact boundary never holds a value outside its declared
type, whatever sequence of stores is attempted: rejected stores leave the previous (well-typed) content. -/
theorem C07_typed_slot_invariant (H : Hier) (isA : Name → Name → Bool) (hi : ∀ c n, isA c n = true ↔ IsA H c n)
    (t : Ty) : ∀ (vs : List ValKind) (slot : Option ValKind), (∀ v, slot = some v → denote H t v) →
    ∀ v, (storeRun isA .exact t slot vs).2 = some v → denote H t v
  | [], slot, h0, v, h => h0 v h
  | w :: rest, slot, h0, v, h => by
    simp only [storeRun] at h
    refine C07_typed_slot_invariant H isA hi t rest _ ?_ v h
    intro u hu
    unfold storeStep at hu
    by_cases ha : admits isA .exact t w = true
    · rw [if_pos ha] at hu
      have hw : w = u := by simpa using hu
      rw [← hw]
      exact (C07_boundary_exact H isA hi t w).mp ha
    · rw [if_neg ha] at hu
      exact h0 u hu

example : storeRun (fun _ _ => false) .exact .int none [.str, .int, .str, .null] = ([false, true, false, false], some .int) := by
  decide

/-- **C07_instantiation_history_independent.** `new` attempted repeatedly: the k-th outcome is the outcome of
that `new` alone — a refusal recurs on every later attempt. -/
theorem C07_instantiation_history_independent (W : Model.Inst.World) :
    ∀ (ns live : List Model.Inst.Name), (Model.Inst.newRun W live ns).1 = ns.map (Model.Inst.instantiate W)
  | [], _ => rfl
  | n :: rest, live => by
    simp only [Model.Inst.newRun, List.map_cons]
    rw [C07_instantiation_history_independent W rest]
    unfold Model.Inst.newStep
    cases Model.Inst.instantiate W n <;> rfl

/-- **C07_no_incomplete_instance.** Whatever sequence of `new` is attempted, every object that comes to exist
is of a declared, non-abstract class that declares no abstract method and implements everything it inherits
as abstract. -/
theorem C07_no_incomplete_instance (W : Model.Inst.World) :
    ∀ (ns live : List Model.Inst.Name) (n : Model.Inst.Name), n ∈ (Model.Inst.newRun W live ns).2 →
      n ∈ live ∨ ∃ c, Model.Inst.getClass W n = some c ∧ c.isAbstract = false ∧ c.abstr = [] ∧ Spec.Inst.Complete W c
  | [], _, _, h => Or.inl h
  | m :: rest, live, n, h => by
    simp only [Model.Inst.newRun] at h
    rcases C07_no_incomplete_instance W rest _ n h with h1 | h1
    · unfold Model.Inst.newStep at h1
      cases hi : Model.Inst.instantiate W m with
      | ok =>
        rw [hi] at h1
        simp only [List.mem_cons] at h1
        rcases h1 with h2 | h2
        · subst h2
          exact Or.inr (C07_abstract_rules W n hi)
        · exact Or.inl h2
      | _ => rw [hi] at h1; exact Or.inl h1
    · exact Or.inr h1

example : Model.Inst.newRun ⟨[⟨1, none, [], true, [], [7]⟩, ⟨2, some 1, [], false, [], []⟩, ⟨3, some 1, [], false, [7], []⟩], []⟩ []
    [2, 2, 3, 2, 1] = ([.missing, .missing, .ok, .missing, .abstr], [3]) := by decide

/-! ## obligations on the regenerated tables (re-checked by `lake build` on every run) -/

/-- every arm of every access node is at least as strict as the known findings say -/
theorem C07_table_within_known : TableOK Generated.C07Access.table = true := by decide

/-- every typed boundary is at least as strict as the known findings say -/
theorem C07_boundaries_within_known : BoundariesOK Generated.C07Access.boundary = true := by decide

/-- **C07_generated_exact_paths.** For the table regenerated from the source on this run: on the `->`,
dynamic-name, `unset($o->p)`, `foreach`, `A::m()` arms (any site) and on `self::m()` / `static::m()` (in class
code) the decision is PHP's rule, whenever the chain walks terminate. -/
theorem C07_generated_exact_paths (H : Hier) (s : Site) (hd : NoDangling H)
    (hk : known s.path s.recv = .exact) (hc : s.path = .selfMeth ∨ s.path = .staticKwMeth → s.ctx.isSome)
    (hns : decide Generated.C07Access.table H s ≠ .stuck) :
    decide Generated.C07Access.table H s = .allowed ↔ allowed H s.m s.lex s.decl := by
  obtain ⟨nc, hT⟩ := TableOK_exact C07_table_within_known hk
  refine C07_lexical_exact _ H s hd nc hT ?_ hns
  intro hn
  subst hn
  by_cases h1 : s.path = .selfMeth ∨ s.path = .staticKwMeth
  · exact hc h1
  · -- on every other exact arm the regenerated check does not ask for a class context
    exfalso
    have hp : ∀ (p : Path) (r : Recv), known p r = .exact → Generated.C07Access.table p r = .lexical true true true →
        p = .selfMeth ∨ p = .staticKwMeth := by
      intro p r
      cases p <;> cases r <;> decide
    exact h1 (hp s.path s.recv hk hT)

/-- **C07_generated_exact_boundaries.** For the boundary kinds regenerated on this run: wherever `exact` is what
is known (everything but `A::$p = v` and closure return types), the boundary admits exactly the denotation of the
declared type — `null` included. -/
theorem C07_generated_exact_boundaries (H : Hier) (isA : Name → Name → Bool) (hi : ∀ c n, isA c n = true ↔ IsA H c n)
    (b : Boundary) (hk : knownBoundary b = .exact) (t : Ty) (v : ValKind) :
    admits isA (Generated.C07Access.boundary b) t v = true ↔ denote H t v := by
  rw [BoundariesOK_exact C07_boundaries_within_known hk]
  exact C07_boundary_exact H isA hi t v

/-- **C07_known_tightened.** The known tables shrank: no arm and no boundary is known worse than before the
second round of repairs, 23 of the 38 arms and 8 of the 13 boundaries are known strictly better. -/
theorem C07_known_tightened :
    (Path.all.all fun p => [Recv.this, Recv.other].all fun r =>
        (known p r).rank ≤ (knownBefore p r).rank) = true ∧
    ((Path.all.flatMap fun p => [Recv.this, Recv.other].filter fun r =>
        (known p r).rank < (knownBefore p r).rank).length) = 23 ∧
    (Boundary.all.all fun b => BKind.rank (knownBoundary b) ≤ BKind.rank (knownBoundaryBefore b)) = true ∧
    (Boundary.all.filter fun b => BKind.rank (knownBoundary b) < BKind.rank (knownBoundaryBefore b)).length = 8 := by
  decide

/-- `new` runs the abstract test and the completeness validation on every call (what `Model.Inst.newRun` and
the two theorems above about sequences of `new` presume about the glue) -/
theorem C07_inst_glue_every_call : Generated.C07Access.instGlue = ⟨true, true⟩ := by decide

/-- the translator recognised every shape, and no enforcement call sits inside a function literal -/
theorem C07_no_shape_change : Generated.C07Access.shapeNotes = [] := by decide

end C07
