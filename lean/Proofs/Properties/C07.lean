import Model.Access
import Model.Types
import Model.Inst
import Spec.Access
import Spec.Inst
import Generated.C07Access
import Proofs.Lemmas.Access
import Proofs.Lemmas.AccessTypes
import Proofs.Lemmas.AccessKnown
import Proofs.Lemmas.Inst
/-!
# C07 — visibility and declared types are enforced at every access path and boundary

All theorems quantify over every class hierarchy `H` (any size, any depth), every site and every
table `T : Path → Recv → Check` of the shape the translator regenerates; the instance regenerated from the
source (`Generated.C07Access`) is held against the known findings by `decide` at the end of the file.

FULL STATEMENT (false on the pinned tree, kept as the goal):

    theorem C07_paths_agree : ∀ H s, WfSite H s → decide Generated.C07Access.table H s ≠ .stuck →
        (decide Generated.C07Access.table H s = .allowed ↔ Spec.Access.allowed H s.m s.lex s.decl)
    theorem C07_types_exact_at_every_boundary : ∀ b t v,
        admits isA (Generated.C07Access.boundary b) t v = true ↔ Spec.Types.denote H t v

What the pinned code (after the `fixes/C07-*` patches) does satisfy is proved below, what it does not is
proved as negation witnesses which the harness replays on the real interpreter (known findings).
-/
namespace C07
open Model.Access Model.Types Spec.Access Spec.Types Proofs.Access Proofs.AccessTypes Proofs.AccessKnown

/-- what the language guarantees about where code runs (not about visibility): a class context runs code
of the context class or of a class it inherits from; code written in a class runs in a class context
(closures keep it); the receiver has the member; `$this` is an object of the context class -/
structure WfSite (H : Hier) (s : Site) : Prop where
  ctxLex : ∀ r, s.ctx = some r → ∃ l, s.lex = some l ∧ Sub H r l
  lexCtx : ∀ l, s.lex = some l → ∃ r, s.ctx = some r
  objDecl : Sub H s.obj s.decl
  thisObj : s.recv = .this → s.ctx = some s.obj

/-! ## protected: sound on every path that tests it, for every site (also for inherited methods) -/

/-- **C07_protected_sound.** On a path whose arm guards `protected` with `isCallerInClassHierarchy`
(whatever the target: the object's class or the declaring class), an access the interpreter lets through is
one PHP allows — for every hierarchy and every well-formed site, including code inherited by the running
object's class. -/
theorem C07_protected_sound (T : Table) (H : Hier) (s : Site) (hd : NoDangling H) (wf : WfSite H s)
    (hm : s.m = .prot) (gp td : Bool) (hT : T s.path s.recv = .hier gp true td)
    (h : decide T H s = .allowed) : allowed H s.m s.lex s.decl := by
  unfold Model.Access.decide at h
  rw [hT] at h
  simp only [decideCheck, hm, guarded, if_true] at h
  obtain ⟨c, hc, hr⟩ := ofCheck_allowed hd h
  obtain ⟨l, hl, hcl⟩ := wf.ctxLex c hc
  rw [hm]
  refine ⟨l, hl, ?_⟩
  -- the context class is related to the declaring class
  have hcd : Related H c s.decl := by
    cases td with
    | true => simpa using hr
    | false =>
      simp only [Bool.false_eq_true, if_false] at hr
      cases hr with
      | inl h1 => exact Or.inl (Sub.trans h1 wf.objDecl)
      | inr h2 => exact (Sub.linear h2 wf.objDecl)
  cases hcd with
  | inl h1 => exact Sub.linear hcl h1
  | inr h2 => exact Or.inr (Sub.trans h2 hcl)

example : C07.WfSite [⟨1, none, []⟩, ⟨2, some 1, []⟩, ⟨3, some 2, []⟩] ⟨.propRead, .other, .prot, some 3, some 2, 2, 1⟩ :=
  ⟨fun r hr => ⟨2, rfl, by cases hr; exact Sub.of_ext rfl⟩, fun _ _ => ⟨3, rfl⟩, Sub.of_ext rfl,
   fun h => by cases h⟩

/-- **C07_this_protected_sound.** `$this->x` needs no test for `protected`: the lexical class and the
declaring class are both ancestors (or the class) of the running object, hence related — whatever the arm
does. -/
theorem C07_this_protected_sound (H : Hier) (s : Site) (wf : WfSite H s) (hr : s.recv = .this)
    (hm : s.m = .prot) : allowed H s.m s.lex s.decl := by
  have hc := wf.thisObj hr
  obtain ⟨l, hl, hcl⟩ := wf.ctxLex _ hc
  rw [hm]
  exact ⟨l, hl, Sub.linear hcl wf.objDecl⟩

/-! ## the hierarchy test is exact where the context is the lexical class and the target the declaring class -/

/-- **C07_hier_exact_partial.** (`C07_paths_agree` for the `->`, dynamic-name and `A::m()` paths, *partial*.)
Excluded by hypothesis, each a known finding: (1) `ctx = lex` — the code looks at the runtime class of
`$this`, not at the class whose text contains the access (inherited methods); (2) the test targets the
declaring class — on the `->` paths it targets the object's class; (3) for `private`, the caller is the
declaring class or unrelated to it — the code enforces `private` exactly like `protected`. -/
theorem C07_hier_exact_partial (T : Table) (H : Hier) (s : Site) (hd : NoDangling H)
    (td : Bool) (hT : T s.path s.recv = .hier true true td)
    (hctx : s.ctx = s.lex) (htgt : td = false → s.obj = s.decl)
    (hpriv : s.m = .priv → s.lex = some s.decl ∨ ¬ ∃ c, s.lex = some c ∧ Related H c s.decl)
    (hns : decide T H s ≠ .stuck) :
    decide T H s = .allowed ↔ allowed H s.m s.lex s.decl := by
  unfold Model.Access.decide at hns ⊢
  rw [hT] at hns ⊢
  have htarget : (if td = true then s.decl else s.obj) = s.decl := by
    cases td with
    | true => simp
    | false => simp [htgt rfl]
  cases hm : s.m with
  | pub => simp [decideCheck, hm, guarded, allowed]
  | prot =>
    simp only [decideCheck, hm, guarded, if_true, htarget, hctx] at hns ⊢
    constructor
    · intro h; exact ofCheck_allowed hd h
    · intro h
      rcases ofCheck_cases (inHierarchy H s.lex s.decl) with h1 | h1 | h1
      · exact h1
      · exact absurd h (ofCheck_denied hd h1)
      · exact absurd h1 hns
  | priv =>
    simp only [decideCheck, hm, guarded, if_true, htarget, hctx] at hns ⊢
    constructor
    · intro h
      have := ofCheck_allowed hd h
      cases hpriv hm with
      | inl h1 => exact h1
      | inr h2 => exact absurd this h2
    · intro h
      have h' : s.lex = some s.decl := h
      have hrel : ∃ c, s.lex = some c ∧ Related H c s.decl := ⟨s.decl, h', Related.refl _⟩
      rcases ofCheck_cases (inHierarchy H s.lex s.decl) with h1 | h1 | h1
      · exact h1
      · exact absurd hrel (ofCheck_denied hd h1)
      · exact absurd h1 hns

example : decide pinned [⟨1, none, []⟩, ⟨2, some 1, []⟩] ⟨.staticMeth, .other, .prot, some 2, some 2, 2, 1⟩ = .allowed := by
  decide

/-- **C07_private_as_protected_counterexample.** Code of a subclass reads a private member of its parent
through `$o->p`: the pinned decision is `allowed`, PHP's is not. (Replayed as `leak:propRead:priv:descendant`.) -/
theorem C07_private_as_protected_counterexample :
    ¬ ∀ (H : Hier) (s : Site), WfSite H s → decide pinned H s = .allowed → allowed H s.m s.lex s.decl := by
  intro h
  have := h [⟨1, none, []⟩, ⟨2, some 1, []⟩] ⟨.propRead, .other, .priv, some 2, some 2, 1, 1⟩
    ⟨fun r hr => ⟨2, rfl, by cases hr; exact Sub.refl 2⟩, fun _ _ => ⟨2, rfl⟩, Sub.refl 1, fun h => by cases h⟩
    (by decide)
  simp [allowed] at this

/-- **C07_runtime_class_counterexample.** A method inherited from an unrelated-to-the-member ancestor, run on
an object of the declaring class, reaches that class's private member: the test looks at the class of
`$this`, not at the class whose text contains the access. (Replayed as `leak:propRead:priv:ancestor`.) -/
theorem C07_runtime_class_counterexample :
    ¬ ∀ (H : Hier) (s : Site), WfSite H s → decide pinned H s = .allowed → allowed H s.m s.lex s.decl := by
  intro h
  have := h [⟨1, none, []⟩, ⟨2, some 1, []⟩] ⟨.propRead, .other, .priv, some 2, some 1, 2, 2⟩
    ⟨fun r hr => ⟨1, rfl, by cases hr; exact Sub.of_ext rfl⟩, fun _ _ => ⟨2, rfl⟩, Sub.refl 2, fun h => by cases h⟩
    (by decide)
  simp [allowed] at this

/-! ## arms that test nothing -/

/-- **C07_unchecked_leaks.** An arm that performs no test lets every access through; so it is right exactly
at the sites where PHP allows the access anyway, and every other site is a leak. This is what makes the
obligation `TableOK Generated.C07Access.table` (below) bite: a path that loses its test becomes `unchecked`. -/
theorem C07_unchecked_leaks (T : Table) (H : Hier) (s : Site) (hT : T s.path s.recv = .unchecked) :
    decide T H s = .allowed := by
  simp [Model.Access.decide, hT, decideCheck]

/-- **C07_static_property_counterexample.** `A::$priv` from top-level code. (Replayed as
`leak:staticPropRead:priv:outside`.) -/
theorem C07_static_property_counterexample :
    ¬ ∀ (H : Hier) (s : Site), WfSite H s → decide pinned H s = .allowed → allowed H s.m s.lex s.decl := by
  intro h
  have := h [⟨1, none, []⟩] ⟨.staticPropRead, .other, .priv, none, none, 1, 1⟩
    ⟨fun r hr => (by cases hr), fun l hl => (by cases hl), Sub.refl 1, fun h => (by cases h)⟩ (by decide)
  simp [allowed] at this

/-- **C07_self_keyword_counterexample.** `self::$priv` in a subclass of the declaring class. (Replayed as
`leak:selfProp:priv:descendant`.) -/
theorem C07_self_keyword_counterexample :
    ¬ ∀ (H : Hier) (s : Site), WfSite H s → decide pinned H s = .allowed → allowed H s.m s.lex s.decl := by
  intro h
  have := h [⟨1, none, []⟩, ⟨2, some 1, []⟩] ⟨.selfProp, .other, .priv, some 2, some 2, 2, 1⟩
    ⟨fun r hr => ⟨2, rfl, by cases hr; exact Sub.refl 2⟩, fun _ _ => ⟨2, rfl⟩, Sub.of_ext rfl, fun h => by cases h⟩
    (by decide)
  simp [allowed] at this

/-! ## paths that are right -/

/-- where `parent::m()` stands: in a class context, in a class whose strict ancestor declares `m` -/
def ParentSite (H : Hier) (s : Site) : Prop :=
  s.ctx.isSome ∧ ∃ l p, s.lex = some l ∧ extOf H l = some p ∧ Sub H p s.decl ∧ l ≠ s.decl

/-- **C07_parent_exact.** `parent::m()` agrees with PHP's rule at full strength: a private method of an
ancestor is refused, public and protected ones are callable. -/
theorem C07_parent_exact (T : Table) (H : Hier) (s : Site) (hT : T s.path s.recv = .privDenied)
    (hp : ParentSite H s) : decide T H s = .allowed ↔ allowed H s.m s.lex s.decl := by
  obtain ⟨hc, l, p, hl, hext, hsub, hne⟩ := hp
  unfold Model.Access.decide
  rw [hT]
  cases hm : s.m with
  | pub => simp [decideCheck, hc, hm, allowed]
  | prot =>
    constructor
    · intro _
      show ∃ c, s.lex = some c ∧ Related H c s.decl
      exact ⟨l, hl, Or.inl (Sub.step hext hsub)⟩
    · intro _
      simp [decideCheck, hc, hm]
  | priv =>
    constructor
    · intro h
      simp [decideCheck, hc, hm] at h
    · intro h
      have h' : s.lex = some s.decl := h
      rw [hl] at h'
      cases h'
      exact absurd rfl hne

example : C07.ParentSite [⟨1, none, []⟩, ⟨2, some 1, []⟩] ⟨.parentMeth, .other, .prot, some 2, some 2, 2, 1⟩ :=
  ⟨rfl, 2, 1, rfl, rfl, Sub.refl 1, by decide⟩

/-- **C07_public_only_sound.** `$o['p']` lets through public members only: whatever it allows, PHP allows. -/
theorem C07_public_only_sound (T : Table) (H : Hier) (s : Site) (hT : T s.path s.recv = .pubOnly)
    (h : decide T H s = .allowed) : allowed H s.m s.lex s.decl := by
  unfold Model.Access.decide at h
  rw [hT] at h
  cases hm : s.m <;> simp [decideCheck, hm, allowed] at h ⊢

example : decide pinned [] ⟨.idxRead, .other, .pub, none, none, 1, 1⟩ = .allowed := by decide

/-! ## all paths together -/

/-- the sites at which the arm `T s.path s.recv` is right — one clause per kind of arm, each excluded site
class is a known finding (leak) or an over-refusal recorded in notes/C07.md -/
def Faithful (T : Table) (H : Hier) (s : Site) : Prop :=
  match T s.path s.recv with
  | .unchecked => allowed H s.m s.lex s.decl
  | .hier gp gq td =>
    gp = true ∧ gq = true ∧ s.ctx = s.lex ∧ (td = false → s.obj = s.decl) ∧
    (s.m = .priv → s.lex = some s.decl ∨ ¬ ∃ c, s.lex = some c ∧ Related H c s.decl)
  | .pubOnly => s.m = .pub ∨ ¬ allowed H s.m s.lex s.decl
  | .pubOnlyOwn ea =>
    (s.decl = s.obj → s.m = .pub ∨ ¬ allowed H s.m s.lex s.decl) ∧
    (s.decl ≠ s.obj → if ea then allowed H s.m s.lex s.decl else ¬ allowed H s.m s.lex s.decl)
  | .classCtxOnly => s.ctx.isSome ∧ allowed H s.m s.lex s.decl
  | .privDenied => ParentSite H s
  | .shapeChanged => False

/-- **C07_paths_agree_partial.** For every table, hierarchy and site: at the sites where the arm is
faithful (see `Faithful`), the decision of the access path as coded is PHP's visibility rule. -/
theorem C07_paths_agree_partial (T : Table) (H : Hier) (s : Site) (hd : NoDangling H)
    (hf : Faithful T H s) (hns : decide T H s ≠ .stuck) :
    decide T H s = .allowed ↔ allowed H s.m s.lex s.decl := by
  unfold Faithful at hf
  cases hT : T s.path s.recv with
  | unchecked =>
    rw [hT] at hf
    simp [C07_unchecked_leaks T H s hT, hf]
  | hier gp gq td =>
    rw [hT] at hf
    obtain ⟨h1, h2, h3, h4, h5⟩ := hf
    subst h1; subst h2
    exact C07_hier_exact_partial T H s hd td hT h3 h4 h5 hns
  | pubOnly =>
    rw [hT] at hf
    unfold Model.Access.decide
    rw [hT]
    cases hf with
    | inl h => simp [decideCheck, h, allowed]
    | inr h =>
      have hm : s.m ≠ .pub := by intro hm; rw [hm] at h; simp [allowed] at h
      simp [decideCheck, hm, h]
  | pubOnlyOwn ea =>
    rw [hT] at hf
    unfold Model.Access.decide
    rw [hT]
    by_cases hdo : s.decl = s.obj
    · cases hf.1 hdo with
      | inl h =>
        simp only [decideCheck, if_pos hdo, if_pos h]
        rw [h]
        simp [allowed]
      | inr h =>
        have hm : s.m ≠ .pub := by intro hm; rw [hm] at h; simp [allowed] at h
        simp only [decideCheck, if_pos hdo, if_neg hm]
        constructor
        · intro h'; cases h'
        · intro h'; exact absurd h' h
    · have := hf.2 hdo
      cases ea with
      | true =>
        simp only [if_true] at this
        simp only [decideCheck, if_neg hdo, if_true]
        exact ⟨fun _ => this, fun _ => trivial⟩
      | false =>
        simp only [Bool.false_eq_true, if_false] at this
        simp only [decideCheck, if_neg hdo, Bool.false_eq_true, if_false]
        constructor
        · intro h'; cases h'
        · intro h'; exact absurd h' this
  | classCtxOnly =>
    rw [hT] at hf
    simp [Model.Access.decide, hT, decideCheck, hf.1, hf.2]
  | privDenied =>
    rw [hT] at hf
    exact C07_parent_exact T H s hT hf
  | shapeChanged =>
    rw [hT] at hf
    exact hf.elim

example : C07.Faithful pinned [⟨1, none, []⟩, ⟨2, some 1, []⟩] ⟨.methCall, .other, .prot, some 2, some 2, 1, 1⟩ :=
  ⟨rfl, rfl, rfl, fun _ => rfl, fun h => by cases h⟩

/-- **C07_spec_decision_procedure.** `Spec.Access.allowedB` (what the driver answers to `spec` requests, against
which the harness holds its own Go oracle on every cell) decides `Spec.Access.allowed`. -/
theorem C07_spec_decision_procedure (H : Hier) (hd : NoDangling H) (m : Mod) (caller : Option Name) (decl : Name)
    (r : Bool) (h : allowedB H m caller decl = some r) : r = true ↔ allowed H m caller decl :=
  allowedB_spec hd h

example : allowedB [⟨1, none, []⟩, ⟨2, some 1, []⟩, ⟨3, none, []⟩] .prot (some 2) 1 = some true ∧
    allowedB [⟨1, none, []⟩, ⟨2, some 1, []⟩, ⟨3, none, []⟩] .prot (some 3) 1 = some false := by decide

/-! ## denied ⇒ no effect -/

/-- **C07_denied_no_effect.** On every path, for every table: an access that does not succeed — wrong type
at a typed store, modifier test failed, walk stuck — leaves every member cell and every call counter as it
was. -/
theorem C07_denied_no_effect (T : Table) (H : Hier) (s : Site) (σ : Store) (op : Op)
    (h : ∀ v, (exec T H s σ op).1 ≠ .ok v) : (exec T H s σ op).2 = σ := by
  cases op with
  | read k =>
    unfold exec at h ⊢
    cases hd : decide T H s <;> simp [hd] at h ⊢
  | write k v ok =>
    unfold exec at h ⊢
    cases ok with
    | false => simp
    | true =>
      cases hd : decide T H s <;> simp [hd] at h ⊢
  | call k =>
    unfold exec at h ⊢
    cases hd : decide T H s <;> simp [hd] at h ⊢

/-- **C07_allowed_effect_exact.** A successful write changes exactly the addressed cell, a successful call
runs the body exactly once, a read changes nothing. -/
theorem C07_allowed_effect_exact (T : Table) (H : Hier) (s : Site) (σ : Store) (op : Op) (r : Option Val)
    (h : (exec T H s σ op).1 = .ok r) :
    (exec T H s σ op).2 = σ.after op := by
  cases op with
  | read k =>
    unfold exec at h ⊢
    cases hd : decide T H s <;> simp [hd, Store.after] at h ⊢
  | write k v ok =>
    unfold exec at h ⊢
    cases ok with
    | false => simp at h
    | true => cases hd : decide T H s <;> simp [hd, Store.after] at h ⊢
  | call k =>
    unfold exec at h ⊢
    cases hd : decide T H s <;> simp [hd, Store.after] at h ⊢

example : (exec pinned [⟨1, none, []⟩] ⟨.propWrite, .other, .priv, none, none, 1, 1⟩
    ⟨fun _ => 1, fun _ => 0⟩ (.write 0 2 true)).1 = .denied := by decide

/-! ## declared types -/

/-- **C07_types_exact.** `Types.Is` accepts exactly the values the declared type stands for — for every
nesting of `?T` and `T1|T2|…` (induction on the type), given that the object test is `IsA` (C07_isA_exact
below for the class/implements part, C08 for interface inheritance). -/
theorem C07_types_exact (H : Hier) (isA : Name → Name → Bool) (hi : ∀ c n, isA c n = true ↔ IsA H c n)
    (t : Ty) (v : ValKind) : accepts isA t v = true ↔ denote H t v :=
  accepts_iff hi t v

/-- **C07_isA_exact.** The `Class.Is` walk (own name, own implements, then each ancestor's) answers `IsA`
whenever it terminates. -/
theorem C07_isA_exact (H : Hier) (c t : Name) (b : Bool) (h : isA H c t = some b) : b = true ↔ IsA H c t :=
  isA_spec h

example : isA [⟨1, none, [9]⟩, ⟨2, some 1, []⟩] 2 9 = some true := by decide

/-- **C07_boundary_exact.** A boundary that applies `Is` and nothing else (typed property store through
`->`, function return) admits exactly the denotation of the declared type. -/
theorem C07_boundary_exact (H : Hier) (isA : Name → Name → Bool) (hi : ∀ c n, isA c n = true ↔ IsA H c n)
    (t : Ty) (v : ValKind) : admits isA .exact t v = true ↔ denote H t v := by
  simp only [admits]
  exact accepts_iff hi t v

/-- **C07_boundary_null_partial.** Parameter binding and method return let `null` through whatever the
declared type is; for every other value they are exact. -/
theorem C07_boundary_null_partial (H : Hier) (isA : Name → Name → Bool)
    (hi : ∀ c n, isA c n = true ↔ IsA H c n) (t : Ty) (v : ValKind) (hv : v ≠ .null) :
    admits isA .nullAlso t v = true ↔ denote H t v := by
  cases v with
  | null => exact absurd rfl hv
  | _ => simp only [admits]; exact accepts_iff hi _ _

/-- **C07_boundary_null_counterexample.** `function f(int $x)` called with `null` (replayed as
`type:fnParam:null`, …). -/
theorem C07_boundary_null_counterexample (H : Hier) (isA : Name → Name → Bool) :
    admits isA .nullAlso .int .null = true ∧ ¬ denote H .int .null := by
  refine ⟨rfl, ?_⟩
  intro h
  cases h

/-- **C07_boundary_unchecked_counterexample.** `$o['p'] = "x"` / `A::$p = "x"` for `int $p` (replayed as
`type:idxStore:nonnull`, `type:staticStore:nonnull`). -/
theorem C07_boundary_unchecked_counterexample (H : Hier) (isA : Name → Name → Bool) :
    admits isA .unchecked .int .str = true ∧ ¬ denote H .int .str := by
  refine ⟨rfl, ?_⟩
  intro h
  cases h

example : accepts (fun c n => (isA [⟨1, none, [9]⟩, ⟨2, some 1, []⟩] c n).getD false)
    (.union [.int, .nullable (.cls 9)]) (.obj 2) = true := by decide

/-! ## abstract classes, interfaces, abstract completeness -/

/-- **C07_abstract_rules.** If `new C` succeeds then `C` names a declared class (not an interface), the
class is not abstract, declares no abstract method itself, and implements every abstract method of its
ancestors and every method of every interface it or an ancestor implements (directly or through interface
inheritance) — for every world of classes and interfaces. -/
theorem C07_abstract_rules (W : Model.Inst.World) (n : Model.Inst.Name)
    (h : Model.Inst.instantiate W n = .ok) :
    ∃ c, Model.Inst.getClass W n = some c ∧ c.isAbstract = false ∧ c.abstr = [] ∧ Spec.Inst.Complete W c :=
  Proofs.Inst.instantiate_ok h

/-- **C07_abstract_no_false_refusal.** The converse: when `new C` is refused for incompleteness, some
non-abstract class in the chain of `C` really declares an abstract method itself or leaves a required method
unimplemented. -/
theorem C07_abstract_no_false_refusal (W : Model.Inst.World) (n : Model.Inst.Name) (c : Model.Inst.ACls)
    (hc : Model.Inst.getClass W n = some c)
    (h : Model.Inst.instantiate W n = .missing ∨ Model.Inst.instantiate W n = .selfAbstract) :
    ∃ a, Spec.Inst.Anc W c a ∧ a.isAbstract = false ∧ (a.abstr ≠ [] ∨ ¬ Spec.Inst.Complete W a) := by
  unfold Model.Inst.instantiate at h
  rw [hc] at h
  simp only [] at h
  cases ha : c.isAbstract with
  | true => rw [ha] at h; simp at h
  | false =>
    rw [ha] at h
    simp only [Bool.false_eq_true, if_false] at h
    obtain ⟨a, haa, hab, hv⟩ := Proofs.Inst.instChain_refusal _ c _ rfl h
    refine ⟨a, haa, hab, ?_⟩
    cases h with
    | inl h1 => rw [h1] at hv; exact Or.inr (Proofs.Inst.validate_missing hv)
    | inr h1 => rw [h1] at hv; exact Or.inl (Proofs.Inst.validate_selfAbstract hv)

/-- **C07_abstract_refused.** An abstract class and a name that is not a class (an interface) are refused
outright. -/
theorem C07_abstract_refused (W : Model.Inst.World) (n : Model.Inst.Name) :
    (∀ c, Model.Inst.getClass W n = some c → c.isAbstract = true → Model.Inst.instantiate W n = .abstr) ∧
    (Model.Inst.getClass W n = none → Model.Inst.instantiate W n = .noClass) := by
  constructor
  · intro c hc ha; simp [Model.Inst.instantiate, hc, ha]
  · intro hn; simp [Model.Inst.instantiate, hn]

example : Model.Inst.instantiate ⟨[⟨1, none, [], true, [], [7]⟩, ⟨2, some 1, [], false, [7], []⟩], []⟩ 2 = .ok := by
  decide
example : Model.Inst.instantiate ⟨[⟨1, none, [], true, [], [7]⟩, ⟨2, some 1, [], false, [], []⟩], []⟩ 2 = .missing := by
  decide

/-! ## enforcement has no memory: the verdict recurs on every attempt, whatever came before

The matrices probe each enforcement point once. These theorems say what the model guarantees for *sequences*
of attempts within one VM, and the harness's history stream holds the interpreter against them (same site
twice, another site, after a caught denial, after a legitimate access, interleaved with other classes). -/

/-- **C07_verdict_state_independent.** The outcome kind of one access is `verdict`: a function of the site and
the operation, the same from every store. -/
theorem C07_verdict_state_independent (T : Table) (H : Hier) (s : Site) (σ : Store) (op : Op) :
    (exec T H s σ op).1.out = verdict T H ⟨s, op⟩ := by
  cases op with
  | read k =>
    unfold exec verdict
    cases hd : decide T H s <;> simp [Res.out]
  | write k v ok =>
    unfold exec verdict
    cases ok with
    | false => simp [Res.out]
    | true => cases hd : decide T H s <;> simp [Res.out]
  | call k =>
    unfold exec verdict
    cases hd : decide T H s <;> simp [Res.out]

/-- **C07_history_independent.** In any sequence of accesses run on one store, from any initial store, the
k-th outcome is the verdict of the k-th access alone. -/
theorem C07_history_independent (T : Table) (H : Hier) : ∀ (steps : List Step) (σ : Store),
    ((run T H σ steps).1).map Res.out = steps.map (verdict T H)
  | [], _ => rfl
  | st :: rest, σ => by
    simp only [run, List.map_cons]
    rw [C07_verdict_state_independent, C07_history_independent T H rest]

/-- **C07_enforcement_recurs.** After any two histories (from any two stores) the same access gets the same
outcome: a denial recurs on every later attempt, and so does a grant. -/
theorem C07_enforcement_recurs (T : Table) (H : Hier) (pre₁ pre₂ : List Step) (σ₁ σ₂ : Store) (st : Step) :
    (exec T H st.site (run T H σ₁ pre₁).2 st.op).1.out = (exec T H st.site (run T H σ₂ pre₂).2 st.op).1.out := by
  rw [C07_verdict_state_independent, C07_verdict_state_independent]

/-- **C07_sequence_effect_exact.** The store after a sequence of attempts is the initial store plus exactly
the effects of the allowed ones, in order; the denied attempts, however many and wherever they stand, leave
no trace. -/
theorem C07_sequence_effect_exact (T : Table) (H : Hier) : ∀ (steps : List Step) (σ : Store),
    (run T H σ steps).2 = effects T H σ steps
  | [], _ => rfl
  | st :: rest, σ => by
    simp only [run]
    rw [C07_sequence_effect_exact T H rest, exec_store]
    unfold effects
    by_cases hv : verdict T H st = .allowed
    · simp [hv]
    · simp [hv]

/-- **C07_denied_sequence_no_effect.** Any number of denied attempts in a row changes nothing. -/
theorem C07_denied_sequence_no_effect (T : Table) (H : Hier) (steps : List Step) (σ : Store)
    (h : ∀ st ∈ steps, verdict T H st ≠ .allowed) : (run T H σ steps).2 = σ := by
  rw [C07_sequence_effect_exact]
  unfold effects
  have : steps.filter (fun st => verdict T H st == .allowed) = [] := by
    apply List.filter_eq_nil_iff.mpr
    intro st hst
    simp [h st hst]
  rw [this]
  rfl

example : ((run pinned [⟨1, none, []⟩] ⟨fun _ => 1, fun _ => 0⟩
    [⟨⟨.propWrite, .other, .priv, none, none, 1, 1⟩, .write 0 2 true⟩,
     ⟨⟨.propWrite, .other, .priv, some 1, some 1, 1, 1⟩, .write 0 3 true⟩,
     ⟨⟨.propWrite, .other, .priv, none, none, 1, 1⟩, .write 0 4 true⟩]).1).map Res.out
    = [.denied, .allowed, .denied] := by decide

/-- **C07_boundary_history_independent.** A typed slot crossed repeatedly: the k-th crossing is admitted iff
the boundary admits that value for that declared type — whatever was offered, admitted or rejected before. -/
theorem C07_boundary_history_independent (isA : Name → Name → Bool) (k : BKind) (t : Ty) :
    ∀ (vs : List ValKind) (slot : Option ValKind), (storeRun isA k t slot vs).1 = vs.map (admits isA k t)
  | [], _ => rfl
  | v :: rest, slot => by
    simp only [storeRun, List.map_cons]
    rw [C07_boundary_history_independent isA k t rest]
    unfold storeStep
    cases admits isA k t v <;> simp

/-- **C07_typed_slot_invariant.** A slot behind an exact boundary never holds a value outside its declared
type, whatever sequence of stores is attempted: rejected stores leave the previous (well-typed) content. -/
theorem C07_typed_slot_invariant (H : Hier) (isA : Name → Name → Bool) (hi : ∀ c n, isA c n = true ↔ IsA H c n)
    (t : Ty) : ∀ (vs : List ValKind) (slot : Option ValKind), (∀ v, slot = some v → denote H t v) →
    ∀ v, (storeRun isA .exact t slot vs).2 = some v → denote H t v
  | [], slot, h0, v, h => h0 v h
  | w :: rest, slot, h0, v, h => by
    simp only [storeRun] at h
    refine C07_typed_slot_invariant H isA hi t rest _ ?_ v h
    intro u hu
    unfold storeStep at hu
    by_cases ha : admits isA .exact t w = true
    · rw [if_pos ha] at hu
      have hw : w = u := by simpa using hu
      rw [← hw]
      exact (C07_boundary_exact H isA hi t w).mp ha
    · rw [if_neg ha] at hu
      exact h0 u hu

example : storeRun (fun _ _ => false) .exact .int none [.str, .int, .str, .null] = ([false, true, false, false], some .int) := by
  decide

/-- **C07_instantiation_history_independent.** `new` attempted repeatedly: the k-th outcome is the outcome of
that `new` alone — a refusal recurs on every later attempt. -/
theorem C07_instantiation_history_independent (W : Model.Inst.World) :
    ∀ (ns live : List Model.Inst.Name), (Model.Inst.newRun W live ns).1 = ns.map (Model.Inst.instantiate W)
  | [], _ => rfl
  | n :: rest, live => by
    simp only [Model.Inst.newRun, List.map_cons]
    rw [C07_instantiation_history_independent W rest]
    unfold Model.Inst.newStep
    cases Model.Inst.instantiate W n <;> rfl

/-- **C07_no_incomplete_instance.** Whatever sequence of `new` is attempted, every object that comes to exist
is of a declared, non-abstract class that declares no abstract method and implements everything it inherits
as abstract. -/
theorem C07_no_incomplete_instance (W : Model.Inst.World) :
    ∀ (ns live : List Model.Inst.Name) (n : Model.Inst.Name), n ∈ (Model.Inst.newRun W live ns).2 →
      n ∈ live ∨ ∃ c, Model.Inst.getClass W n = some c ∧ c.isAbstract = false ∧ c.abstr = [] ∧ Spec.Inst.Complete W c
  | [], _, _, h => Or.inl h
  | m :: rest, live, n, h => by
    simp only [Model.Inst.newRun] at h
    rcases C07_no_incomplete_instance W rest _ n h with h1 | h1
    · unfold Model.Inst.newStep at h1
      cases hi : Model.Inst.instantiate W m with
      | ok =>
        rw [hi] at h1
        simp only [List.mem_cons] at h1
        rcases h1 with h2 | h2
        · subst h2
          exact Or.inr (C07_abstract_rules W n hi)
        · exact Or.inl h2
      | _ => rw [hi] at h1; exact Or.inl h1
    · exact Or.inr h1

example : Model.Inst.newRun ⟨[⟨1, none, [], true, [], [7]⟩, ⟨2, some 1, [], false, [], []⟩, ⟨3, some 1, [], false, [7], []⟩], []⟩ []
    [2, 2, 3, 2, 1] = ([.missing, .missing, .ok, .missing, .abstr], [3]) := by decide

/-! ## obligations on the regenerated tables (re-checked by `lake build` on every run) -/

/-- every arm of every access node is at least as strict as the known findings say -/
theorem C07_table_within_known : TableOK Generated.C07Access.table = true := by decide

/-- every typed boundary is at least as strict as the known findings say -/
theorem C07_boundaries_within_known : BoundariesOK Generated.C07Access.boundary = true := by decide

/-- `new` runs the abstract test and the completeness validation on every call (what `Model.Inst.newRun` and
the two theorems above about sequences of `new` presume about the glue) -/
theorem C07_inst_glue_every_call : Generated.C07Access.instGlue = ⟨true, true⟩ := by decide

/-- the translator recognised every shape, and no enforcement call sits inside a function literal -/
theorem C07_no_shape_change : Generated.C07Access.shapeNotes = [] := by decide

end C07
