import Model.Access
import Model.Types
import Model.Inst
import Spec.Access
import Spec.Inst
import Generated.C07Access
import Proofs.Lemmas.Access
import Proofs.Lemmas.AccessTypes
import Proofs.Lemmas.AccessKnown
import Proofs.Lemmas.Inst
import Proofs.Lemmas.AccessPos
import Proofs.Lemmas.AccessNamed
import Model.DeclMods
import Spec.DeclMods
import Generated.C07Decl
import Proofs.Lemmas.DeclMods
import Model.AccessDecl
import Spec.AccessDecl
import Proofs.Lemmas.AccessDecl
import Model.ScopeEntry
/-!
# C07 — visibility and declared types are enforced at every access path and boundary

All theorems quantify over every class hierarchy `H` (any size, any depth), every site and every
table `T : Path → Recv → Check` of the shape the translator regenerates; the instance regenerated from the
source (`Generated.C07Access`) is held against the known findings by `decide` at the end of the file.

FULL STATEMENT (false on the pinned tree, kept as the goal):

    theorem C07_paths_agree : ∀ H s, WfSite H s → decide Generated.C07Access.table H s ≠ .stuck →
        (decide Generated.C07Access.table H s = .allowed ↔ Spec.Access.allowed H s.m s.lex s.decl)
    theorem C07_types_exact_at_every_boundary : ∀ b t v,
        admits isA (Generated.C07Access.boundary b) t v = true ↔ Spec.Types.denote H t v

What the pinned code (after the `fixes/C07-*` patches) does satisfy is proved below, what it does not is
proved as negation witnesses which the harness replays on the real interpreter (known findings).

After the second round of repairs (`fixes/C07-1-*` … `C07-6-*`) `C07_paths_agree` holds at full strength on every
`->`, dynamic-name, `A::m()`, `self::m()`, `static::m()`, `unset($o->p)` and `foreach` arm (`C07_lexical_exact`,
`C07_known_exact_arms`, instantiated for the regenerated table in `C07_generated_exact_paths`) and
`C07_types_exact_at_every_boundary` on eleven of the thirteen boundaries (`C07_generated_exact_boundaries`);
what keeps the two full statements false is `A::$p` / `self::$p` / `static::$p` (modifier and declared type of a
static property are lost when the class is parsed), the return type of closures (dropped), and the index paths
`$o['p']`, which are sound but refuse more than PHP's rule. The witnesses of the repaired defects are kept
against the table as it was (`pinnedBefore`), next to the proof that the same sites are now refused.
-/
namespace C07
open Model.Access Model.Types Spec.Access Spec.Types Proofs.Access Proofs.AccessTypes Proofs.AccessKnown Proofs.AccessPos

/-- what the language guarantees about where code runs (not about visibility): a class context runs code
of the context class or of a class it inherits from; code written in a class runs in a class context
(closures keep it); the receiver has the member; `$this` is an object of the context class -/
structure WfSite (H : Hier) (s : Site) : Prop where
  ctxLex : ∀ r, s.ctx = some r → ∃ l, s.lex = some l ∧ Sub H r l
  lexCtx : ∀ l, s.lex = some l → ∃ r, s.ctx = some r
  objDecl : Sub H s.obj s.decl
  thisObj : s.recv = .this → s.ctx = some s.obj

/-! ## protected: sound on every path that tests it, for every site (also for inherited methods) -/

/-- **C07_protected_sound.** On a path whose arm guards `protected` with `isCallerInClassHierarchy`
(whatever the target: the object's class or the declaring class), an access the interpreter lets through is
one PHP allows — for every hierarchy and every well-formed site, including code inherited by the running
object's class. -/
theorem C07_protected_sound (T : Table) (H : Hier) (s : Site) (hd : NoDangling H) (wf : WfSite H s)
    (hm : s.m = .prot) (gp td : Bool) (hT : T s.path s.recv = .hier gp true td)
    (h : decide T H s = .allowed) : allowed H s.m s.lex s.decl := by
  unfold Model.Access.decide at h
  rw [hT] at h
  simp only [decideCheck, hm, guarded, if_true] at h
  obtain ⟨c, hc, hr⟩ := ofCheck_allowed hd h
  obtain ⟨l, hl, hcl⟩ := wf.ctxLex c hc
  rw [hm]
  refine ⟨l, hl, ?_⟩
  -- the context class is related to the declaring class
  have hcd : Related H c s.decl := by
    cases td with
    | true => simpa using hr
    | false =>
      simp only [Bool.false_eq_true, if_false] at hr
      cases hr with
      | inl h1 => exact Or.inl (Sub.trans h1 wf.objDecl)
      | inr h2 => exact (Sub.linear h2 wf.objDecl)
  cases hcd with
  | inl h1 => exact Sub.linear hcl h1
  | inr h2 => exact Or.inr (Sub.trans h2 hcl)

example : C07.WfSite [⟨1, none, []⟩, ⟨2, some 1, []⟩, ⟨3, some 2, []⟩] ⟨.propRead, .other, .prot, some 3, some 2, 2, 1⟩ :=
  ⟨fun r hr => ⟨2, rfl, by cases hr; exact Sub.of_ext rfl⟩, fun _ _ => ⟨3, rfl⟩, Sub.of_ext rfl,
   fun h => by cases h⟩

/-- **C07_this_protected_sound.** `$this->x` needs no test for `protected`: the lexical class and the
declaring class are both ancestors (or the class) of the running object, hence related — whatever the arm
does. -/
theorem C07_this_protected_sound (H : Hier) (s : Site) (wf : WfSite H s) (hr : s.recv = .this)
    (hm : s.m = .prot) : allowed H s.m s.lex s.decl := by
  have hc := wf.thisObj hr
  obtain ⟨l, hl, hcl⟩ := wf.ctxLex _ hc
  rw [hm]
  exact ⟨l, hl, Sub.linear hcl wf.objDecl⟩

/-! ## the lexical test is exact: `private` = declaring class only, `protected` = declaring class, descendants, ancestors -/

/-- **C07_lexical_exact.** (`C07_paths_agree`, full strength, for every arm that tests both modifiers with
`canAccessProperty` / `canAccessMethod` / `canAccessMember`.) On such an arm the decision of the access path
as coded IS PHP's visibility rule on (class whose text contains the access, class that declares the member):
for every hierarchy, every site — inherited methods, closures, `$this` or another object, code of ancestors,
descendants, siblings, unrelated classes, code outside every class — and every modifier. No hypothesis about the
site is needed any more (compare `C07_hier_exact_partial`); `hc` only says that `self::` / `static::` stand in
class code. -/
theorem C07_lexical_exact (T : Table) (H : Hier) (s : Site) (hd : NoDangling H) (nc : Bool)
    (hT : T s.path s.recv = .lexical true true nc) (hc : nc = true → s.ctx.isSome)
    (hns : decide T H s ≠ .stuck) :
    decide T H s = .allowed ↔ allowed H s.m s.lex s.decl := by
  unfold Model.Access.decide at hns ⊢
  rw [hT] at hns ⊢
  have hcond : (nc && s.ctx.isNone) = false := by
    cases nc with
    | false => rfl
    | true =>
      have := hc rfl
      cases hx : s.ctx with
      | none => rw [hx] at this; cases this
      | some _ => rfl
  simp only [decideCheck, hcond, Bool.false_eq_true, if_false] at hns ⊢
  cases hm : s.m with
  | pub => simp [guarded, allowed]
  | prot =>
    simp only [hm, guarded, if_true] at hns ⊢
    cases hr : lexRule H .prot s.lex s.decl with
    | none => rw [hr] at hns; exact absurd rfl hns
    | some b =>
      have := lexRule_spec hd hr
      cases b with
      | true => simp only [Out.ofCheck, true_iff]; exact this.mp rfl
      | false =>
        simp only [Out.ofCheck]
        constructor
        · intro h; cases h
        · intro h; have := this.mpr h; cases this
  | priv =>
    simp only [hm, guarded, if_true] at hns ⊢
    cases hr : lexRule H .priv s.lex s.decl with
    | none => rw [hr] at hns; exact absurd rfl hns
    | some b =>
      have := lexRule_spec hd hr
      cases b with
      | true => simp only [Out.ofCheck, true_iff]; exact this.mp rfl
      | false =>
        simp only [Out.ofCheck]
        constructor
        · intro h; cases h
        · intro h; have := this.mpr h; cases this

/-- the site of `leak:propRead/this:priv:ancestor`: code of class 1 (ancestor), inherited by and running on an object
of class 2, reads `$this->p` declared private by class 2 — refused; the declaring class's own code — allowed -/
example : decide pinned [⟨1, none, []⟩, ⟨2, some 1, []⟩] ⟨.propRead, .this, .priv, some 2, some 1, 2, 2⟩ = .denied ∧
    decide pinned [⟨1, none, []⟩, ⟨2, some 1, []⟩] ⟨.propRead, .this, .priv, some 2, some 2, 2, 2⟩ = .allowed := by
  decide

/-- **C07_known_exact_arms.** Whatever table the translator regenerates: if it is within the known findings
(`TableOK`, the obligation discharged for the regenerated table at the end of this file), then on every arm the
known findings grade `exact` the decision is PHP's rule. A source change that weakens one of these arms fails
`C07_table_within_known`; one that keeps them leaves this theorem applicable. (`hc`: an arm that also asks for
a class context — `self::`, `static::` — is used in class code.) -/
theorem C07_known_exact_arms (T : Table) (hOK : TableOK T = true) (H : Hier) (s : Site) (hd : NoDangling H)
    (hk : known s.path s.recv = .exact)
    (hc : ∀ nc, T s.path s.recv = .lexical true true nc → nc = true → s.ctx.isSome)
    (hns : decide T H s ≠ .stuck) :
    decide T H s = .allowed ↔ allowed H s.m s.lex s.decl := by
  obtain ⟨nc, hT⟩ := TableOK_exact hOK hk
  exact C07_lexical_exact T H s hd nc hT (hc nc hT) hns

/-! ## the hierarchy test is exact where the context is the lexical class and the target the declaring class

(the shape of the `->` arms before `fixes/C07-1-*`; kept because the theorem is about every table) -/

/-- **C07_hier_exact_partial.** (`C07_paths_agree` for the `->`, dynamic-name and `A::m()` paths, *partial*.)
Excluded by hypothesis, each a known finding: (1) `ctx = lex` — the code looks at the runtime class of
`$this`, not at the class whose text contains the access (inherited methods); (2) the test targets the
declaring class — on the `->` paths it targets the object's class; (3) for `private`, the caller is the
declaring class or unrelated to it — the code enforces `private` exactly like `protected`. -/
theorem C07_hier_exact_partial (T : Table) (H : Hier) (s : Site) (hd : NoDangling H)
    (td : Bool) (hT : T s.path s.recv = .hier true true td)
    (hctx : s.ctx = s.lex) (htgt : td = false → s.obj = s.decl)
    (hpriv : s.m = .priv → s.lex = some s.decl ∨ ¬ ∃ c, s.lex = some c ∧ Related H c s.decl)
    (hns : decide T H s ≠ .stuck) :
    decide T H s = .allowed ↔ allowed H s.m s.lex s.decl := by
  unfold Model.Access.decide at hns ⊢
  rw [hT] at hns ⊢
  have htarget : (if td = true then s.decl else s.obj) = s.decl := by
    cases td with
    | true => simp
    | false => simp [htgt rfl]
  cases hm : s.m with
  | pub => simp [decideCheck, hm, guarded, allowed]
  | prot =>
    simp only [decideCheck, hm, guarded, if_true, htarget, hctx] at hns ⊢
    constructor
    · intro h; exact ofCheck_allowed hd h
    · intro h
      rcases ofCheck_cases (inHierarchy H s.lex s.decl) with h1 | h1 | h1
      · exact h1
      · exact absurd h (ofCheck_denied hd h1)
      · exact absurd h1 hns
  | priv =>
    simp only [decideCheck, hm, guarded, if_true, htarget, hctx] at hns ⊢
    constructor
    · intro h
      have := ofCheck_allowed hd h
      cases hpriv hm with
      | inl h1 => exact h1
      | inr h2 => exact absurd this h2
    · intro h
      have h' : s.lex = some s.decl := h
      have hrel : ∃ c, s.lex = some c ∧ Related H c s.decl := ⟨s.decl, h', Related.refl _⟩
      rcases ofCheck_cases (inHierarchy H s.lex s.decl) with h1 | h1 | h1
      · exact h1
      · exact absurd hrel (ofCheck_denied hd h1)
      · exact absurd h1 hns

example : decide pinnedBefore [⟨1, none, []⟩, ⟨2, some 1, []⟩] ⟨.staticMeth, .other, .prot, some 2, some 2, 2, 1⟩ = .allowed := by
  decide

/-- **C07_private_as_protected_counterexample.** (Pre-fix behaviour, repaired by `fixes/C07-1-*`.) Code of a
subclass reads a private member of its parent through `$o->p`: the decision of the tree as it was is `allowed`,
PHP's is not. (Was `leak:propRead:priv:descendant`; the replay is kept and must now be refused.) -/
theorem C07_private_as_protected_counterexample :
    ¬ ∀ (H : Hier) (s : Site), WfSite H s → decide pinnedBefore H s = .allowed → allowed H s.m s.lex s.decl := by
  intro h
  have := h [⟨1, none, []⟩, ⟨2, some 1, []⟩] ⟨.propRead, .other, .priv, some 2, some 2, 1, 1⟩
    ⟨fun r hr => ⟨2, rfl, by cases hr; exact Sub.refl 2⟩, fun _ _ => ⟨2, rfl⟩, Sub.refl 1, fun h => by cases h⟩
    (by decide)
  simp [allowed] at this

/-- **C07_runtime_class_counterexample.** (Pre-fix behaviour, repaired by `fixes/C07-1-*`.) A method inherited
from an unrelated-to-the-member ancestor, run on an object of the declaring class, reaches that class's private
member: the test looked at the class of `$this`, not at the class whose text contains the access. (Was
`leak:propRead:priv:ancestor`.) -/
theorem C07_runtime_class_counterexample :
    ¬ ∀ (H : Hier) (s : Site), WfSite H s → decide pinnedBefore H s = .allowed → allowed H s.m s.lex s.decl := by
  intro h
  have := h [⟨1, none, []⟩, ⟨2, some 1, []⟩] ⟨.propRead, .other, .priv, some 2, some 1, 2, 2⟩
    ⟨fun r hr => ⟨1, rfl, by cases hr; exact Sub.of_ext rfl⟩, fun _ _ => ⟨2, rfl⟩, Sub.refl 2, fun h => by cases h⟩
    (by decide)
  simp [allowed] at this

/-- **C07_repaired_sites_refused.** The two witnesses above, on the table of the repaired tree: refused. -/
theorem C07_repaired_sites_refused :
    decide pinned [⟨1, none, []⟩, ⟨2, some 1, []⟩] ⟨.propRead, .other, .priv, some 2, some 2, 1, 1⟩ = .denied ∧
    decide pinned [⟨1, none, []⟩, ⟨2, some 1, []⟩] ⟨.propRead, .other, .priv, some 2, some 1, 2, 2⟩ = .denied := by
  decide

/-! ## arms that test nothing -/

/-- **C07_unchecked_leaks.** An arm that performs no test lets every access through; so it is right exactly
at the sites where PHP allows the access anyway, and every other site is a leak. This is what makes the
obligation `TableOK Generated.C07Access.table` (below) bite: a path that loses its test becomes `unchecked`. -/
theorem C07_unchecked_leaks (T : Table) (H : Hier) (s : Site) (hT : T s.path s.recv = .unchecked) :
    decide T H s = .allowed := by
  simp [Model.Access.decide, hT, decideCheck]

/-- **C07_static_property_counterexample.** `A::$priv` from top-level code. (Replayed as
`leak:staticPropRead:priv:outside`.) -/
theorem C07_static_property_counterexample :
    ¬ ∀ (H : Hier) (s : Site), WfSite H s → decide pinned H s = .allowed → allowed H s.m s.lex s.decl := by
  intro h
  have := h [⟨1, none, []⟩] ⟨.staticPropRead, .other, .priv, none, none, 1, 1⟩
    ⟨fun r hr => (by cases hr), fun l hl => (by cases hl), Sub.refl 1, fun h => (by cases h)⟩ (by decide)
  simp [allowed] at this

/-- **C07_self_keyword_counterexample.** `self::$priv` in a subclass of the declaring class. (Replayed as
`leak:selfProp:priv:descendant`.) -/
theorem C07_self_keyword_counterexample :
    ¬ ∀ (H : Hier) (s : Site), WfSite H s → decide pinned H s = .allowed → allowed H s.m s.lex s.decl := by
  intro h
  have := h [⟨1, none, []⟩, ⟨2, some 1, []⟩] ⟨.selfProp, .other, .priv, some 2, some 2, 2, 1⟩
    ⟨fun r hr => ⟨2, rfl, by cases hr; exact Sub.refl 2⟩, fun _ _ => ⟨2, rfl⟩, Sub.of_ext rfl, fun h => by cases h⟩
    (by decide)
  simp [allowed] at this

/-! ## paths that are right -/

/-- where `parent::m()` stands: in a class context, in a class whose strict ancestor declares `m` -/
def ParentSite (H : Hier) (s : Site) : Prop :=
  s.ctx.isSome ∧ ∃ l p, s.lex = some l ∧ extOf H l = some p ∧ Sub H p s.decl ∧ l ≠ s.decl

/-- **C07_parent_exact.** `parent::m()` agrees with PHP's rule at full strength: a private method of an
ancestor is refused, public and protected ones are callable. -/
theorem C07_parent_exact (T : Table) (H : Hier) (s : Site) (hT : T s.path s.recv = .privDenied)
    (hp : ParentSite H s) : decide T H s = .allowed ↔ allowed H s.m s.lex s.decl := by
  obtain ⟨hc, l, p, hl, hext, hsub, hne⟩ := hp
  unfold Model.Access.decide
  rw [hT]
  cases hm : s.m with
  | pub => simp [decideCheck, hc, hm, allowed]
  | prot =>
    constructor
    · intro _
      show ∃ c, s.lex = some c ∧ Related H c s.decl
      exact ⟨l, hl, Or.inl (Sub.step hext hsub)⟩
    · intro _
      simp [decideCheck, hc, hm]
  | priv =>
    constructor
    · intro h
      simp [decideCheck, hc, hm] at h
    · intro h
      have h' : s.lex = some s.decl := h
      rw [hl] at h'
      cases h'
      exact absurd rfl hne

example : C07.ParentSite [⟨1, none, []⟩, ⟨2, some 1, []⟩] ⟨.parentMeth, .other, .prot, some 2, some 2, 2, 1⟩ :=
  ⟨rfl, 2, 1, rfl, rfl, Sub.refl 1, by decide⟩

/-- **C07_public_only_sound.** `$o['p']` lets through public members only: whatever it allows, PHP allows. -/
theorem C07_public_only_sound (T : Table) (H : Hier) (s : Site) (hT : T s.path s.recv = .pubOnly)
    (h : decide T H s = .allowed) : allowed H s.m s.lex s.decl := by
  unfold Model.Access.decide at h
  rw [hT] at h
  cases hm : s.m <;> simp [decideCheck, hm, allowed] at h ⊢

example : decide pinned [] ⟨.idxRead, .other, .pub, none, none, 1, 1⟩ = .allowed := by decide

/-! ## all paths together -/

/-- the sites at which the arm `T s.path s.recv` is right — one clause per kind of arm, each excluded site
class is a known finding (leak) or an over-refusal recorded in notes/C07.md -/
def Faithful (T : Table) (H : Hier) (s : Site) : Prop :=
  match T s.path s.recv with
  | .unchecked => allowed H s.m s.lex s.decl
  | .lexical gp gq nc => gp = true ∧ gq = true ∧ (nc = true → s.ctx.isSome)
  | .hier gp gq td =>
    gp = true ∧ gq = true ∧ s.ctx = s.lex ∧ (td = false → s.obj = s.decl) ∧
    (s.m = .priv → s.lex = some s.decl ∨ ¬ ∃ c, s.lex = some c ∧ Related H c s.decl)
  | .pubOnly => s.m = .pub ∨ ¬ allowed H s.m s.lex s.decl
  | .pubOnlyOwn ea =>
    (s.decl = s.obj → s.m = .pub ∨ ¬ allowed H s.m s.lex s.decl) ∧
    (s.decl ≠ s.obj → if ea then allowed H s.m s.lex s.decl else ¬ allowed H s.m s.lex s.decl)
  | .classCtxOnly => s.ctx.isSome ∧ allowed H s.m s.lex s.decl
  | .privDenied => ParentSite H s
  | .shapeChanged => False

/-- **C07_paths_agree_partial.** For every table, hierarchy and site: at the sites where the arm is
faithful (see `Faithful`), the decision of the access path as coded is PHP's visibility rule. -/
theorem C07_paths_agree_partial (T : Table) (H : Hier) (s : Site) (hd : NoDangling H)
    (hf : Faithful T H s) (hns : decide T H s ≠ .stuck) :
    decide T H s = .allowed ↔ allowed H s.m s.lex s.decl := by
  unfold Faithful at hf
  cases hT : T s.path s.recv with
  | unchecked =>
    rw [hT] at hf
    simp [C07_unchecked_leaks T H s hT, hf]
  | lexical gp gq nc =>
    rw [hT] at hf
    obtain ⟨h1, h2, h3⟩ := hf
    subst h1; subst h2
    exact C07_lexical_exact T H s hd nc hT h3 hns
  | hier gp gq td =>
    rw [hT] at hf
    obtain ⟨h1, h2, h3, h4, h5⟩ := hf
    subst h1; subst h2
    exact C07_hier_exact_partial T H s hd td hT h3 h4 h5 hns
  | pubOnly =>
    rw [hT] at hf
    unfold Model.Access.decide
    rw [hT]
    cases hf with
    | inl h => simp [decideCheck, h, allowed]
    | inr h =>
      have hm : s.m ≠ .pub := by intro hm; rw [hm] at h; simp [allowed] at h
      simp [decideCheck, hm, h]
  | pubOnlyOwn ea =>
    rw [hT] at hf
    unfold Model.Access.decide
    rw [hT]
    by_cases hdo : s.decl = s.obj
    · cases hf.1 hdo with
      | inl h =>
        simp only [decideCheck, if_pos hdo, if_pos h]
        rw [h]
        simp [allowed]
      | inr h =>
        have hm : s.m ≠ .pub := by intro hm; rw [hm] at h; simp [allowed] at h
        simp only [decideCheck, if_pos hdo, if_neg hm]
        constructor
        · intro h'; cases h'
        · intro h'; exact absurd h' h
    · have := hf.2 hdo
      cases ea with
      | true =>
        simp only [if_true] at this
        simp only [decideCheck, if_neg hdo, if_true]
        exact ⟨fun _ => this, fun _ => trivial⟩
      | false =>
        simp only [Bool.false_eq_true, if_false] at this
        simp only [decideCheck, if_neg hdo, Bool.false_eq_true, if_false]
        constructor
        · intro h'; cases h'
        · intro h'; exact absurd h' this
  | classCtxOnly =>
    rw [hT] at hf
    simp [Model.Access.decide, hT, decideCheck, hf.1, hf.2]
  | privDenied =>
    rw [hT] at hf
    exact C07_parent_exact T H s hT hf
  | shapeChanged =>
    rw [hT] at hf
    exact hf.elim

example : C07.Faithful pinnedBefore [⟨1, none, []⟩, ⟨2, some 1, []⟩] ⟨.methCall, .other, .prot, some 2, some 2, 1, 1⟩ :=
  ⟨rfl, rfl, rfl, fun _ => rfl, fun h => by cases h⟩
/-- on the repaired tree every site of a `->` arm is faithful: also code of class 1 inherited by an object of class 2 -/
example : C07.Faithful pinned [⟨1, none, []⟩, ⟨2, some 1, []⟩] ⟨.methCall, .this, .priv, some 2, some 1, 2, 2⟩ :=
  ⟨rfl, rfl, fun h => by cases h⟩

/-- **C07_spec_decision_procedure.** `Spec.Access.allowedB` (what the driver answers to `spec` requests, against
which the harness holds its own Go oracle on every cell) decides `Spec.Access.allowed`. -/
theorem C07_spec_decision_procedure (H : Hier) (hd : NoDangling H) (m : Mod) (caller : Option Name) (decl : Name)
    (r : Bool) (h : allowedB H m caller decl = some r) : r = true ↔ allowed H m caller decl :=
  allowedB_spec hd h

example : allowedB [⟨1, none, []⟩, ⟨2, some 1, []⟩, ⟨3, none, []⟩] .prot (some 2) 1 = some true ∧
    allowedB [⟨1, none, []⟩, ⟨2, some 1, []⟩, ⟨3, none, []⟩] .prot (some 3) 1 = some false := by decide

/-! ## denied ⇒ no effect -/

/-- **C07_denied_no_effect.** On every path, for every table: an access that does not succeed — wrong type
at a typed store, modifier test failed, walk stuck — leaves every member cell and every call counter as it
was. -/
theorem C07_denied_no_effect (T : Table) (H : Hier) (s : Site) (σ : Store) (op : Op)
    (h : ∀ v, (exec T H s σ op).1 ≠ .ok v) : (exec T H s σ op).2 = σ := by
  cases op with
  | read k =>
    unfold exec at h ⊢
    cases hd : decide T H s <;> simp [hd] at h ⊢
  | write k v ok =>
    unfold exec at h ⊢
    cases ok with
    | false => simp
    | true =>
      cases hd : decide T H s <;> simp [hd] at h ⊢
  | call k =>
    unfold exec at h ⊢
    cases hd : decide T H s <;> simp [hd] at h ⊢

/-- **C07_allowed_effect_exact.** A successful write changes exactly the addressed cell, a successful call
runs the body exactly once, a read changes nothing. -/
theorem C07_allowed_effect_exact (T : Table) (H : Hier) (s : Site) (σ : Store) (op : Op) (r : Option Val)
    (h : (exec T H s σ op).1 = .ok r) :
    (exec T H s σ op).2 = σ.after op := by
  cases op with
  | read k =>
    unfold exec at h ⊢
    cases hd : decide T H s <;> simp [hd, Store.after] at h ⊢
  | write k v ok =>
    unfold exec at h ⊢
    cases ok with
    | false => simp at h
    | true => cases hd : decide T H s <;> simp [hd, Store.after] at h ⊢
  | call k =>
    unfold exec at h ⊢
    cases hd : decide T H s <;> simp [hd, Store.after] at h ⊢

example : (exec pinned [⟨1, none, []⟩] ⟨.propWrite, .other, .priv, none, none, 1, 1⟩
    ⟨fun _ => 1, fun _ => 0⟩ (.write 0 2 true)).1 = .denied := by decide

/-! ## declared types -/

/-- **C07_types_exact.** `Types.Is` accepts exactly the values the declared type stands for — for every
nesting of `?T` and `T1|T2|…` (induction on the type), given that the object test is `IsA` (C07_isA_exact
below for the class/implements part, C08 for interface inheritance). -/
theorem C07_types_exact (H : Hier) (isA : Name → Name → Bool) (hi : ∀ c n, isA c n = true ↔ IsA H c n)
    (t : Ty) (v : ValKind) : accepts isA t v = true ↔ denote H t v :=
  accepts_iff hi t v

/-- **C07_isA_exact.** The `Class.Is` walk (own name, own implements, then each ancestor's) answers `IsA`
whenever it terminates. -/
theorem C07_isA_exact (H : Hier) (c t : Name) (b : Bool) (h : isA H c t = some b) : b = true ↔ IsA H c t :=
  isA_spec h

example : isA [⟨1, none, [9]⟩, ⟨2, some 1, []⟩] 2 9 = some true := by decide

/-- **C07_boundary_exact.** A boundary that applies `Is` and nothing else (typed property store through
`->`, function return) admits exactly the denotation of the declared type. -/
theorem C07_boundary_exact (H : Hier) (isA : Name → Name → Bool) (hi : ∀ c n, isA c n = true ↔ IsA H c n)
    (t : Ty) (v : ValKind) : admits isA .exact t v = true ↔ denote H t v := by
  simp only [admits]
  exact accepts_iff hi t v

/-- **C07_boundary_null_partial.** A boundary of kind `nullAlso` lets `null` through whatever the declared type
is; for every other value it is exact. (Parameter binding and method return were of this kind before
`fixes/C07-4-*`, `C07-5-*`; no boundary of the repaired tree is, and `C07_boundaries_within_known` fails the build
if one becomes so again.) -/
theorem C07_boundary_null_partial (H : Hier) (isA : Name → Name → Bool)
    (hi : ∀ c n, isA c n = true ↔ IsA H c n) (t : Ty) (v : ValKind) (hv : v ≠ .null) :
    admits isA .nullAlso t v = true ↔ denote H t v := by
  cases v with
  | null => exact absurd rfl hv
  | _ => simp only [admits]; exact accepts_iff hi _ _

/-- **C07_boundary_null_counterexample.** (Pre-fix behaviour.) `function f(int $x)` called with `null` under a
`nullAlso` boundary (was `type:fnParam:null`, …; the replays are kept and must now be refused). -/
theorem C07_boundary_null_counterexample (H : Hier) (isA : Name → Name → Bool) :
    admits isA .nullAlso .int .null = true ∧ ¬ denote H .int .null := by
  refine ⟨rfl, ?_⟩
  intro h
  cases h

/-- **C07_boundary_unchecked_counterexample.** `A::$p = "x"` for `int $p`, a closure declared `: int` returning
"x" (replayed as `type:staticStore:nonnull`, `type:closureReturn:nonnull`; `$o['p'] = "x"` was of this kind before
`fixes/C07-6-*`). -/
theorem C07_boundary_unchecked_counterexample (H : Hier) (isA : Name → Name → Bool) :
    admits isA .unchecked .int .str = true ∧ ¬ denote H .int .str := by
  refine ⟨rfl, ?_⟩
  intro h
  cases h

example : accepts (fun c n => (isA [⟨1, none, [9]⟩, ⟨2, some 1, []⟩] c n).getD false)
    (.union [.int, .nullable (.cls 9)]) (.obj 2) = true := by decide

/-! ## abstract classes, interfaces, abstract completeness -/

/-- **C07_abstract_rules.** If `new C` succeeds then `C` names a declared class (not an interface), the
class is not abstract, declares no abstract method itself, and implements every abstract method of its
ancestors and every method of every interface it or an ancestor implements (directly or through interface
inheritance) — for every world of classes and interfaces. -/
theorem C07_abstract_rules (W : Model.Inst.World) (n : Model.Inst.Name)
    (h : Model.Inst.instantiate W n = .ok) :
    ∃ c, Model.Inst.getClass W n = some c ∧ c.isAbstract = false ∧ c.abstr = [] ∧ Spec.Inst.Complete W c :=
  Proofs.Inst.instantiate_ok h

/-- **C07_abstract_no_false_refusal.** The converse: when `new C` is refused for incompleteness, some
non-abstract class in the chain of `C` really declares an abstract method itself or leaves a required method
unimplemented. -/
theorem C07_abstract_no_false_refusal (W : Model.Inst.World) (n : Model.Inst.Name) (c : Model.Inst.ACls)
    (hc : Model.Inst.getClass W n = some c)
    (h : Model.Inst.instantiate W n = .missing ∨ Model.Inst.instantiate W n = .selfAbstract) :
    ∃ a, Spec.Inst.Anc W c a ∧ a.isAbstract = false ∧ (a.abstr ≠ [] ∨ ¬ Spec.Inst.Complete W a) := by
  unfold Model.Inst.instantiate at h
  rw [hc] at h
  simp only [] at h
  cases ha : c.isAbstract with
  | true => rw [ha] at h; simp at h
  | false =>
    rw [ha] at h
    simp only [Bool.false_eq_true, if_false] at h
    obtain ⟨a, haa, hab, hv⟩ := Proofs.Inst.instChain_refusal _ c _ rfl h
    refine ⟨a, haa, hab, ?_⟩
    cases h with
    | inl h1 => rw [h1] at hv; exact Or.inr (Proofs.Inst.validate_missing hv)
    | inr h1 => rw [h1] at hv; exact Or.inl (Proofs.Inst.validate_selfAbstract hv)

/-- **C07_abstract_refused.** An abstract class and a name that is not a class (an interface) are refused
outright. -/
theorem C07_abstract_refused (W : Model.Inst.World) (n : Model.Inst.Name) :
    (∀ c, Model.Inst.getClass W n = some c → c.isAbstract = true → Model.Inst.instantiate W n = .abstr) ∧
    (Model.Inst.getClass W n = none → Model.Inst.instantiate W n = .noClass) := by
  constructor
  · intro c hc ha; simp [Model.Inst.instantiate, hc, ha]
  · intro hn; simp [Model.Inst.instantiate, hn]

example : Model.Inst.instantiate ⟨[⟨1, none, [], true, [], [7]⟩, ⟨2, some 1, [], false, [7], []⟩], []⟩ 2 = .ok := by
  decide
example : Model.Inst.instantiate ⟨[⟨1, none, [], true, [], [7]⟩, ⟨2, some 1, [], false, [], []⟩], []⟩ 2 = .missing := by
  decide

/-! ## enforcement has no memory: the verdict recurs on every attempt, whatever came before

The matrices probe each enforcement point once. These theorems say what the model guarantees for *sequences*
of attempts within one VM, and the harness's history stream holds the interpreter against them (same site
twice, another site, after a caught denial, after a legitimate access, interleaved with other classes). -/

/-- **C07_verdict_state_independent.** The outcome kind of one access is `verdict`: a function of the site and
the operation, the same from every store. -/
theorem C07_verdict_state_independent (T : Table) (H : Hier) (s : Site) (σ : Store) (op : Op) :
    (exec T H s σ op).1.out = verdict T H ⟨s, op⟩ := by
  cases op with
  | read k =>
    unfold exec verdict
    cases hd : decide T H s <;> simp [Res.out]
  | write k v ok =>
    unfold exec verdict
    cases ok with
    | false => simp [Res.out]
    | true => cases hd : decide T H s <;> simp [Res.out]
  | call k =>
    unfold exec verdict
    cases hd : decide T H s <;> simp [Res.out]

/-- **C07_history_independent.** In any sequence of accesses run on one store, from any initial store, the
k-th outcome is the verdict of the k-th access alone. -/
theorem C07_history_independent (T : Table) (H : Hier) : ∀ (steps : List Step) (σ : Store),
    ((run T H σ steps).1).map Res.out = steps.map (verdict T H)
  | [], _ => rfl
  | st :: rest, σ => by
    simp only [run, List.map_cons]
    rw [C07_verdict_state_independent, C07_history_independent T H rest]

/-- **C07_enforcement_recurs.** After any two histories (from any two stores) the same access gets the same
outcome: a denial recurs on every later attempt, and so does a grant. -/
theorem C07_enforcement_recurs (T : Table) (H : Hier) (pre₁ pre₂ : List Step) (σ₁ σ₂ : Store) (st : Step) :
    (exec T H st.site (run T H σ₁ pre₁).2 st.op).1.out = (exec T H st.site (run T H σ₂ pre₂).2 st.op).1.out := by
  rw [C07_verdict_state_independent, C07_verdict_state_independent]

/-- **C07_sequence_effect_exact.** The store after a sequence of attempts is the initial store plus exactly
the effects of the allowed ones, in order; the denied attempts, however many and wherever they stand, leave
no trace. -/
theorem C07_sequence_effect_exact (T : Table) (H : Hier) : ∀ (steps : List Step) (σ : Store),
    (run T H σ steps).2 = effects T H σ steps
  | [], _ => rfl
  | st :: rest, σ => by
    simp only [run]
    rw [C07_sequence_effect_exact T H rest, exec_store]
    unfold effects
    by_cases hv : verdict T H st = .allowed
    · simp [hv]
    · simp [hv]

/-- **C07_denied_sequence_no_effect.** Any number of denied attempts in a row changes nothing. -/
theorem C07_denied_sequence_no_effect (T : Table) (H : Hier) (steps : List Step) (σ : Store)
    (h : ∀ st ∈ steps, verdict T H st ≠ .allowed) : (run T H σ steps).2 = σ := by
  rw [C07_sequence_effect_exact]
  unfold effects
  have : steps.filter (fun st => verdict T H st == .allowed) = [] := by
    apply List.filter_eq_nil_iff.mpr
    intro st hst
    simp [h st hst]
  rw [this]
  rfl

example : ((run pinned [⟨1, none, []⟩] ⟨fun _ => 1, fun _ => 0⟩
    [⟨⟨.propWrite, .other, .priv, none, none, 1, 1⟩, .write 0 2 true⟩,
     ⟨⟨.propWrite, .other, .priv, some 1, some 1, 1, 1⟩, .write 0 3 true⟩,
     ⟨⟨.propWrite, .other, .priv, none, none, 1, 1⟩, .write 0 4 true⟩]).1).map Res.out
    = [.denied, .allowed, .denied] := by decide

/-- **C07_boundary_history_independent.** A typed slot crossed repeatedly: the k-th crossing is admitted iff
the boundary admits that value for that declared type — whatever was offered, admitted or rejected before. -/
theorem C07_boundary_history_independent (isA : Name → Name → Bool) (k : BKind) (t : Ty) :
    ∀ (vs : List ValKind) (slot : Option ValKind), (storeRun isA k t slot vs).1 = vs.map (admits isA k t)
  | [], _ => rfl
  | v :: rest, slot => by
    simp only [storeRun, List.map_cons]
    rw [C07_boundary_history_independent isA k t rest]
    unfold storeStep
    cases admits isA k t v <;> simp

/-- **C07_typed_slot_invariant.** A slot behind an exact boundary never holds a value outside its declared
type, whatever sequence of stores is attempted: rejected stores leave the previous (well-typed) content. -/
theorem C07_typed_slot_invariant (H : Hier) (isA : Name → Name → Bool) (hi : ∀ c n, isA c n = true ↔ IsA H c n)
    (t : Ty) : ∀ (vs : List ValKind) (slot : Option ValKind), (∀ v, slot = some v → denote H t v) →
    ∀ v, (storeRun isA .exact t slot vs).2 = some v → denote H t v
  | [], slot, h0, v, h => h0 v h
  | w :: rest, slot, h0, v, h => by
    simp only [storeRun] at h
    refine C07_typed_slot_invariant H isA hi t rest _ ?_ v h
    intro u hu
    unfold storeStep at hu
    by_cases ha : admits isA .exact t w = true
    · rw [if_pos ha] at hu
      have hw : w = u := by simpa using hu
      rw [← hw]
      exact (C07_boundary_exact H isA hi t w).mp ha
    · rw [if_neg ha] at hu
      exact h0 u hu

example : storeRun (fun _ _ => false) .exact .int none [.str, .int, .str, .null] = ([false, true, false, false], some .int) := by
  decide

/-- **C07_instantiation_history_independent.** `new` attempted repeatedly: the k-th outcome is the outcome of
that `new` alone — a refusal recurs on every later attempt. -/
theorem C07_instantiation_history_independent (W : Model.Inst.World) :
    ∀ (ns live : List Model.Inst.Name), (Model.Inst.newRun W live ns).1 = ns.map (Model.Inst.instantiate W)
  | [], _ => rfl
  | n :: rest, live => by
    simp only [Model.Inst.newRun, List.map_cons]
    rw [C07_instantiation_history_independent W rest]
    unfold Model.Inst.newStep
    cases Model.Inst.instantiate W n <;> rfl

/-- **C07_no_incomplete_instance.** Whatever sequence of `new` is attempted, every object that comes to exist
is of a declared, non-abstract class that declares no abstract method and implements everything it inherits
as abstract. -/
theorem C07_no_incomplete_instance (W : Model.Inst.World) :
    ∀ (ns live : List Model.Inst.Name) (n : Model.Inst.Name), n ∈ (Model.Inst.newRun W live ns).2 →
      n ∈ live ∨ ∃ c, Model.Inst.getClass W n = some c ∧ c.isAbstract = false ∧ c.abstr = [] ∧ Spec.Inst.Complete W c
  | [], _, _, h => Or.inl h
  | m :: rest, live, n, h => by
    simp only [Model.Inst.newRun] at h
    rcases C07_no_incomplete_instance W rest _ n h with h1 | h1
    · unfold Model.Inst.newStep at h1
      cases hi : Model.Inst.instantiate W m with
      | ok =>
        rw [hi] at h1
        simp only [List.mem_cons] at h1
        rcases h1 with h2 | h2
        · subst h2
          exact Or.inr (C07_abstract_rules W n hi)
        · exact Or.inl h2
      | _ => rw [hi] at h1; exact Or.inl h1
    · exact Or.inr h1

example : Model.Inst.newRun ⟨[⟨1, none, [], true, [], [7]⟩, ⟨2, some 1, [], false, [], []⟩, ⟨3, some 1, [], false, [7], []⟩], []⟩ []
    [2, 2, 3, 2, 1] = ([.missing, .missing, .ok, .missing, .abstr], [3]) := by decide

/-! ## obligations on the regenerated tables (re-checked by `lake build` on every run) -/

/-! ## several items in one construct: the outcome does not depend on WHERE the offending item stands

Added after the seeded change `C07-ctor-arg-error-overwritten` (the test of `acl` inside the constructor's
binding loop removed as a "duplicate" of the test after it: only the last parameter's result survived). The
boundary model above has ONE slot; here a call has a list of slots, a statement sequence a list of stores, an
expression a list of operands. -/

/-- **C07_call_accepted_iff_all.** A call through a loop that tests each binding runs the callee's body iff EVERY
parameter is handed a value and lets it in — for every number of parameters, every position. -/
theorem C07_call_accepted_iff_all (isA : Name → Name → Bool) (slots : List Slot) :
    bindArgs .eachChecked isA slots = .ran ↔ ∀ s ∈ slots, s.fine isA = true :=
  bindEach_ran_iff isA slots 0

/-- **C07_call_reports_first.** … and what is reported otherwise is the FIRST parameter that is not fine: a
refusal of slot `j` (`raised` when its argument threw) where every slot before `j` is fine. -/
theorem C07_call_reports_first (isA : Name → Name → Bool) (slots : List Slot) (o : CallOut)
    (h : bindArgs .eachChecked isA slots = o) (hne : o ≠ .ran) :
    ∃ j s, slots[j]? = some s ∧ s.fine isA = false ∧
      (∀ k, k < j → ∀ u, slots[k]? = some u → u.fine isA = true) ∧
      ((s.a = .throws ∧ o = .raised j) ∨ (s.a ≠ .throws ∧ o = .rejected j)) := by
  have := bindEach_first isA slots 0 o h hne
  simpa using this

/-- **C07_call_exact.** With exact boundaries (what `C07_boundaries_within_known` demands of every parameter
boundary): the body runs iff every parameter is handed a value that its declared type denotes. -/
theorem C07_call_exact (H : Hier) (isA : Name → Name → Bool) (hi : ∀ c n, isA c n = true ↔ IsA H c n)
    (slots : List Slot) (hk : ∀ s ∈ slots, s.k = .exact) :
    bindArgs .eachChecked isA slots = .ran ↔ ∀ s ∈ slots, ∃ v, s.a = .val v ∧ denote H s.t v := by
  rw [C07_call_accepted_iff_all]
  constructor
  · intro h s hs
    have hf := h s hs
    unfold Slot.fine at hf
    cases ha : s.a with
    | val v =>
      rw [ha] at hf
      simp only at hf
      rw [hk s hs] at hf
      exact ⟨v, rfl, (C07_boundary_exact H isA hi s.t v).mp hf⟩
    | throws => rw [ha] at hf; cases hf
    | missing => rw [ha] at hf; cases hf
  · intro h s hs
    obtain ⟨v, hv, hd⟩ := h s hs
    unfold Slot.fine
    rw [hv]
    simp only
    rw [hk s hs]
    exact (C07_boundary_exact H isA hi s.t v).mpr hd

/-- **C07_call_eval_order_irrelevant.** Methods evaluate every argument before they bind the first
(`callMethodParams`), the other callables evaluate each argument when they bind it: which offender is reported
may differ, whether the body runs does not. -/
theorem C07_call_eval_order_irrelevant (isA : Name → Name → Bool) (slots : List Slot) :
    bindEvalFirst .eachChecked isA slots = .ran ↔ bindArgs .eachChecked isA slots = .ran :=
  bindEvalFirst_ran_iff isA slots

/-- **C07_refused_call_body_does_not_run.** The callee's body runs (once) exactly when every slot is fine. -/
theorem C07_refused_call_body_does_not_run (isA : Name → Name → Bool) (slots : List Slot) :
    (bindArgs .eachChecked isA slots).bodyRuns = 1 ↔ ∀ s ∈ slots, s.fine isA = true := by
  rw [← C07_call_accepted_iff_all]
  cases bindArgs .eachChecked isA slots <;> simp [CallOut.bodyRuns]

/-- **C07_last_only_depends_on_last.** A loop that tests the result after its last iteration only: whether the
body runs depends on the LAST slot and on nothing else. -/
theorem C07_last_only_depends_on_last (isA : Name → Name → Bool) (pre : List Slot) (s : Slot) :
    bindArgs .lastOnly isA (pre ++ [s]) = .ran ↔ s.fine isA = true := by
  simp only [bindArgs]
  rw [bindLast_append]
  cases hb : bindStep isA (0 + pre.length) s with
  | none => simpa using (bindStep_none_iff isA _ s).mp hb
  | some o =>
    have ho := bindStep_some isA _ s o hb
    rw [ho.1]
    constructor
    · intro h
      rcases ho.2 with ⟨_, h2⟩ | ⟨_, h2⟩ <;> (rw [h2] at h; cases h)
    · intro h; cases h

/-- **C07_last_only_counterexample.** `new Pair("one", "s")` for `__construct(int $a, string $b)` under such a
loop: the first slot refuses its value and the body runs all the same. (The seeded change; the harness replays
it as `argpos:ctorParam/pos:admitted:mistyped:nonlast`.) -/
theorem C07_last_only_counterexample (isA : Name → Name → Bool) :
    ∃ slots : List Slot, (∃ s ∈ slots, s.fine isA = false) ∧ bindArgs .lastOnly isA slots = .ran :=
  ⟨[⟨.exact, .int, .val .str⟩, ⟨.exact, .str, .val .str⟩], ⟨⟨.exact, .int, .val .str⟩, by simp, rfl⟩, rfl⟩

example : bindArgs .eachChecked (fun _ _ => false) [⟨.exact, .int, .val .str⟩, ⟨.exact, .str, .val .str⟩] = .rejected 0 := by
  decide
example : bindArgs .eachChecked (fun _ _ => false) [⟨.exact, .int, .val .int⟩, ⟨.exact, .str, .throws⟩, ⟨.exact, .arr, .val .int⟩] = .raised 1 := by
  decide
example : bindEvalFirst .eachChecked (fun _ _ => false) [⟨.exact, .int, .val .str⟩, ⟨.exact, .str, .throws⟩] = .raised 1 := by
  decide
example : bindArgs .eachChecked (fun _ _ => false) [⟨.exact, .int, .val .int⟩, ⟨.exact, .nullable .str, .val .null⟩] = .ran := by
  decide

/-- **C07_store_sequence_all_or_first.** Several typed properties written in one go: no store is refused iff every
value is admitted; otherwise the refused store is the first whose value is not admitted, every slot before it is
written with the value offered to it and no slot from it on is written. -/
theorem C07_store_sequence_all_or_first (isA : Name → Name → Bool) (l : List (BKind × Ty × ValKind)) :
    ((storeSeq isA 0 l).1 = none ↔ ∀ x ∈ l, admits isA x.1 x.2.1 x.2.2 = true) ∧
    (∀ n, (storeSeq isA 0 l).1 = some n →
      ∃ x, l[n]? = some x ∧ admits isA x.1 x.2.1 x.2.2 = false ∧
        (∀ k, k < n → ∀ y, l[k]? = some y → admits isA y.1 y.2.1 y.2.2 = true ∧ (storeSeq isA 0 l).2[k]? = some (some y.2.2)) ∧
        (∀ k, n ≤ k → k < l.length → (storeSeq isA 0 l).2[k]? = some none)) := by
  refine ⟨storeSeq_none_iff isA l 0, ?_⟩
  intro n h
  obtain ⟨j, x, hn, hx, hxa, hb, ha⟩ := storeSeq_first isA l 0 n h
  have : n = j := by omega
  subst this
  exact ⟨x, hx, hxa, hb, ha⟩

/-- **C07_store_sequence_typed.** Whatever the sequence and wherever it stops: a slot behind an exact boundary
holds afterwards nothing but a value its declared type denotes. -/
theorem C07_store_sequence_typed (H : Hier) (isA : Name → Name → Bool) (hi : ∀ c n, isA c n = true ↔ IsA H c n)
    (l : List (BKind × Ty × ValKind)) (hk : ∀ x ∈ l, x.1 = .exact) (j : Nat) (w : ValKind)
    (h : (storeSeq isA 0 l).2[j]? = some (some w)) : ∃ x, l[j]? = some x ∧ denote H x.2.1 w := by
  obtain ⟨x, hx, _, hxa⟩ := storeSeq_holds isA l 0 j w h
  have hm : x ∈ l := List.mem_of_getElem? hx
  rw [hk x hm] at hxa
  exact ⟨x, hx, (C07_boundary_exact H isA hi x.2.1 w).mp hxa⟩

example : storeSeq (fun _ _ => false) 0 [(.exact, .int, .int), (.exact, .str, .int), (.exact, .arr, .arr)]
    = (some 1, [some .int, none, none]) := by decide

/-- **C07_expression_allowed_iff_all.** Several member accesses in one argument list / array literal / operator
expression / statement sequence: it is evaluated to the end iff every access is allowed. -/
theorem C07_expression_allowed_iff_all (T : Table) (H : Hier) (steps : List Step) (σ : Store) :
    (evalArgs T H 0 σ steps).1 = none ↔ ∀ st ∈ steps, verdict T H st = .allowed :=
  evalArgs_none_iff T H steps 0 σ

/-- **C07_expression_stops_at_first_refusal.** … otherwise it stops at the first access that is not allowed, and
the store holds the effects of the operands before it and nothing else (not of the refused one, not of those
after it; the callee, which comes after all of them, does not run). -/
theorem C07_expression_stops_at_first_refusal (T : Table) (H : Hier) (steps : List Step) (σ : Store) (n : Nat)
    (h : (evalArgs T H 0 σ steps).1 = some n) :
    ∃ st, steps[n]? = some st ∧ verdict T H st ≠ .allowed ∧
      (∀ k, k < n → ∀ u, steps[k]? = some u → verdict T H u = .allowed) ∧
      (evalArgs T H 0 σ steps).2 = (steps.take n).foldl (fun σ u => σ.after u.op) σ := by
  obtain ⟨j, st, hn, hst, hv, hb, hs⟩ := evalArgs_first T H steps 0 σ n h
  have : n = j := by omega
  subst this
  exact ⟨st, hst, hv, hb, hs⟩

example : (evalArgs pinned [⟨1, none, []⟩] 0 ⟨fun _ => 1, fun _ => 0⟩
    [⟨⟨.methCall, .other, .pub, none, none, 1, 1⟩, .call 1⟩,
     ⟨⟨.propRead, .other, .priv, none, none, 1, 1⟩, .read 9⟩,
     ⟨⟨.methCall, .other, .pub, none, none, 1, 1⟩, .call 3⟩]).1 = some 1 := by decide

/-- every arm of every access node is at least as strict as the known findings say -/
theorem C07_table_within_known : TableOK Generated.C07Access.table = true := by decide

/-- every typed boundary is at least as strict as the known findings say -/
theorem C07_boundaries_within_known : BoundariesOK Generated.C07Access.boundary = true := by decide

/-- **C07_generated_exact_paths.** For the table regenerated from the source on this run: on the `->`,
dynamic-name, `unset($o->p)`, `foreach`, `A::m()` arms (any site) and on `self::m()` / `static::m()` (in class
code) the decision is PHP's rule, whenever the chain walks terminate. -/
theorem C07_generated_exact_paths (H : Hier) (s : Site) (hd : NoDangling H)
    (hk : known s.path s.recv = .exact) (hc : s.path = .selfMeth ∨ s.path = .staticKwMeth → s.ctx.isSome)
    (hns : decide Generated.C07Access.table H s ≠ .stuck) :
    decide Generated.C07Access.table H s = .allowed ↔ allowed H s.m s.lex s.decl := by
  obtain ⟨nc, hT⟩ := TableOK_exact C07_table_within_known hk
  refine C07_lexical_exact _ H s hd nc hT ?_ hns
  intro hn
  subst hn
  by_cases h1 : s.path = .selfMeth ∨ s.path = .staticKwMeth
  · exact hc h1
  · -- on every other exact arm the regenerated check does not ask for a class context
    exfalso
    have hp : ∀ (p : Path) (r : Recv), known p r = .exact → Generated.C07Access.table p r = .lexical true true true →
        p = .selfMeth ∨ p = .staticKwMeth := by
      intro p r
      cases p <;> cases r <;> decide
    exact h1 (hp s.path s.recv hk hT)

/-- **C07_generated_exact_boundaries.** For the boundary kinds regenerated on this run: wherever `exact` is what
is known (everything but `A::$p = v` and closure return types), the boundary admits exactly the denotation of the
declared type — `null` included. -/
theorem C07_generated_exact_boundaries (H : Hier) (isA : Name → Name → Bool) (hi : ∀ c n, isA c n = true ↔ IsA H c n)
    (b : Boundary) (hk : knownBoundary b = .exact) (t : Ty) (v : ValKind) :
    admits isA (Generated.C07Access.boundary b) t v = true ↔ denote H t v := by
  rw [BoundariesOK_exact C07_boundaries_within_known hk]
  exact C07_boundary_exact H isA hi t v

/-- every binding loop tests the result of binding a parameter before it binds the next one (regenerated from
`CallExpression.GetValue`, `createInstanceFromClassStmt`, `callMethodParams`, `handleFuncValue` on every run) -/
theorem C07_bind_loops_each_checked :
    Generated.C07Access.bindLoops.map (·.1) = ["fn", "ctor", "method", "funcValue"] ∧
    Generated.C07Access.bindLoops.all (fun p => p.2 == .eachChecked) = true := by decide

/-- **C07_generated_calls_exact.** For the loops and the boundary kinds regenerated on this run: a call through
any of the four loops, over parameters whose boundaries are known as exact, runs the body iff every parameter is
handed a value its declared type denotes. -/
theorem C07_generated_calls_exact (H : Hier) (isA : Name → Name → Bool) (hi : ∀ c n, isA c n = true ↔ IsA H c n)
    (loop : String × LoopShape) (hl : loop ∈ Generated.C07Access.bindLoops)
    (ps : List (Boundary × Ty × Arg)) (hk : ∀ p ∈ ps, knownBoundary p.1 = .exact) :
    bindArgs loop.2 isA (ps.map fun p => ⟨Generated.C07Access.boundary p.1, p.2.1, p.2.2⟩) = .ran ↔
      ∀ p ∈ ps, ∃ v, p.2.2 = .val v ∧ denote H p.2.1 v := by
  have hsh : loop.2 = .eachChecked := by
    have := List.all_eq_true.mp C07_bind_loops_each_checked.2 loop hl
    simpa using this
  rw [hsh, C07_call_exact H isA hi]
  · simp only [List.mem_map, forall_exists_index, and_imp]
    constructor
    · intro h p hp
      exact h _ p hp rfl
    · intro h s p hp hs
      subst hs
      exact h p hp
  · simp only [List.mem_map, forall_exists_index, and_imp]
    intro s p hp hs
    subst hs
    exact BoundariesOK_exact C07_boundaries_within_known (hk p hp)

/-! ## named arguments: which parameter an argument reaches does not depend on how the call is written

`fixes/C07-7-named-arguments` put one function, `resolveNamedArguments`, in front of the four binding loops
(`Model.ArgNames.resolve` mirrors it; `Generated.C07Access.namedFirst` and the text checks of the translator tie
it to the source on every run). The theorems above take the slots in parameter order; these say how a call as
WRITTEN — positional arguments, `name: expr` in any order, parameters left out — becomes such a list. -/
section NamedArguments
open Model.ArgNames Proofs.AccessNamed

/-- **C07_named_call_admitted_iff.** A call with positional and named arguments, through a loop that tests each
binding, runs the callee's body iff the names resolve and, parameter by parameter: an argument that reaches the
parameter is a value its boundary lets in (no argument throws); a parameter that no argument reaches has a default
value or a declared type that accepts `null`. Nothing else matters — not the order in which the arguments are
written, not the position of the parameter, not whether all arguments are evaluated before the first is bound. -/
theorem C07_named_call_admitted_iff (evalFirst : Bool) (isA : Name → Name → Bool) (params : List Param)
    (args : List CallArg) :
    callNamed .eachChecked evalFirst isA params args = .call .ran ↔
      ∃ out, resolve (params.map (·.name)) args = .ok out ∧
        ∀ i p, params[i]? = some p →
          match recv out i with
          | some (.val v) => admits isA p.k p.t v = true
          | some .throws => False
          | none => p.dflt.isSome = true ∨ admits isA p.k p.t .null = true := by
  unfold callNamed
  cases hr : resolve (params.map (·.name)) args with
  | error e => simp
  | ok out =>
    simp only [Outcome.call.injEq, Except.ok.injEq, exists_eq_left']
    have hran : (if evalFirst = true then bindEvalFirst .eachChecked isA (slotsFrom isA out 0 params)
        else bindArgs .eachChecked isA (slotsFrom isA out 0 params)) = .ran ↔
        bindArgs .eachChecked isA (slotsFrom isA out 0 params) = .ran := by
      cases evalFirst
      · simp
      · simpa using bindEvalFirst_ran_iff isA (slotsFrom isA out 0 params)
    rw [hran, C07_call_accepted_iff_all]
    constructor
    · intro h i p hp
      have hs : (slotsFrom isA out 0 params)[i]? = some (slotOf isA p (recv out i)) := by
        rw [slotsFrom_getElem, hp]; simp
      exact (slotOf_fine isA p (recv out i)).mp (h _ (List.mem_of_getElem? hs))
    · intro h s hs
      obtain ⟨i, hi⟩ := List.getElem?_of_mem hs
      rw [slotsFrom_getElem] at hi
      cases hp : params[i]? with
      | none => rw [hp] at hi; cases hi
      | some p =>
        rw [hp] at hi
        simp only [Option.map_some, Nat.zero_add, Option.some.injEq] at hi
        rw [← hi]
        exact (slotOf_fine isA p (recv out i)).mpr (h i p hp)

/-- **C07_named_call_exact.** With exact parameter boundaries (what `C07_boundaries_within_known` demands of every
parameter kind): a call as written runs the body iff the names resolve, every argument that reaches a parameter is
a value the parameter's declared type denotes, and every parameter that no argument reaches has a default value or
a declared type that denotes `null`. -/
theorem C07_named_call_exact (H : Hier) (isA : Name → Name → Bool) (hi : ∀ c n, isA c n = true ↔ IsA H c n)
    (evalFirst : Bool) (params : List Param) (hk : ∀ p ∈ params, p.k = .exact) (args : List CallArg) :
    callNamed .eachChecked evalFirst isA params args = .call .ran ↔
      ∃ out, resolve (params.map (·.name)) args = .ok out ∧
        ∀ i p, params[i]? = some p →
          match recv out i with
          | some (.val v) => denote H p.t v
          | some .throws => False
          | none => p.dflt.isSome = true ∨ denote H p.t .null := by
  rw [C07_named_call_admitted_iff]
  constructor
  · rintro ⟨out, hr, h⟩
    refine ⟨out, hr, fun i p hp => ?_⟩
    have h' := h i p hp
    have hke := hk p (List.mem_of_getElem? hp)
    cases hrv : recv out i with
    | none =>
      rw [hrv] at h'
      simp only at h' ⊢
      rw [hke] at h'
      exact h'.imp id (C07_boundary_exact H isA hi p.t .null).mp
    | some a =>
      cases a with
      | val v =>
        rw [hrv] at h'
        simp only at h' ⊢
        rw [hke] at h'
        exact (C07_boundary_exact H isA hi p.t v).mp h'
      | throws => rw [hrv] at h'; exact h'
  · rintro ⟨out, hr, h⟩
    refine ⟨out, hr, fun i p hp => ?_⟩
    have h' := h i p hp
    have hke := hk p (List.mem_of_getElem? hp)
    cases hrv : recv out i with
    | none =>
      rw [hrv] at h'
      simp only at h' ⊢
      rw [hke]
      exact h'.imp id (C07_boundary_exact H isA hi p.t .null).mpr
    | some a =>
      cases a with
      | val v =>
        rw [hrv] at h'
        simp only at h' ⊢
        rw [hke]
        exact (C07_boundary_exact H isA hi p.t v).mpr h'
      | throws => rw [hrv] at h'; exact h'

/-- **C07_named_order_irrelevant.** Write the named arguments of a call in any order (after whatever comes before
them): either every order is refused before anything is bound, or every order yields the same outcome — the same
parameters receive the same arguments, the same slot is reported, the body runs or it does not. For every
parameter list, every loop shape, every number of arguments. -/
theorem C07_named_order_irrelevant (sh : LoopShape) (evalFirst : Bool) (isA : Name → Name → Bool)
    (params : List Param) (pre : List CallArg) (l₁ l₂ : List (PName × ArgV)) (hp : l₁.Perm l₂) :
    (∃ e₁ e₂, callNamed sh evalFirst isA params (pre ++ mkNamed l₁) = .unresolved e₁ ∧
        callNamed sh evalFirst isA params (pre ++ mkNamed l₂) = .unresolved e₂) ∨
    (∃ o, callNamed sh evalFirst isA params (pre ++ mkNamed l₁) = .call o ∧
        callNamed sh evalFirst isA params (pre ++ mkNamed l₂) = .call o) := by
  unfold callNamed resolve
  rw [resolveFrom_append, resolveFrom_append]
  cases hpre : resolveFrom (params.map (·.name)) [] pre with
  | error e => exact .inl ⟨e, e, rfl, rfl⟩
  | ok o =>
    simp only
    rcases resolveFrom_perm (params.map (·.name)) hp o o (Same.rfl' o) with ⟨e₁, e₂, h₁, h₂⟩ | ⟨r₁, r₂, h₁, h₂, hs⟩
    · rw [h₁, h₂]; exact .inl ⟨e₁, e₂, rfl, rfl⟩
    · rw [h₁, h₂]
      simp only
      rw [slotsFrom_congr isA r₁ r₂ hs params 0]
      exact .inr ⟨_, rfl, rfl⟩

/-- **C07_named_unknown_or_repeated_refused.** A call is refused before anything is evaluated or bound when an
argument names no parameter, names a parameter that a positional argument has filled, or names a parameter that an
earlier named argument has filled — wherever that argument stands; and resolving never indexes out of range. -/
theorem C07_named_unknown_or_repeated_refused (sh : LoopShape) (evalFirst : Bool) (isA : Name → Name → Bool)
    (params : List Param) :
    (∀ args n a, CallArg.named n a ∈ args → indexOf n (params.map (·.name)) = none →
        ∃ e, callNamed sh evalFirst isA params args = .unresolved e) ∧
    (∀ (l : List ArgV) rest n a idx, CallArg.named n a ∈ rest → indexOf n (params.map (·.name)) = some idx →
        idx < l.length → ∃ e, callNamed sh evalFirst isA params (l.map .pos ++ rest) = .unresolved e) ∧
    (∀ pre rest n a n' b idx, indexOf n (params.map (·.name)) = some idx →
        indexOf n' (params.map (·.name)) = some idx → CallArg.named n' b ∈ rest →
        ∃ e, callNamed sh evalFirst isA params (pre ++ CallArg.named n a :: rest) = .unresolved e) ∧
    (∀ args, callNamed sh evalFirst isA params args ≠ .unresolved .crash) := by
  refine ⟨?_, ?_, ?_, ?_⟩
  · intro args n a hm hi
    obtain ⟨e, he⟩ := resolveFrom_unknown (params.map (·.name)) args [] n a hm hi
    exact ⟨e, by simp [callNamed, resolve, he]⟩
  · intro l rest n a idx hm hi hlt
    have hpos := resolveFrom_positional (params.map (·.name)) l []
    have hrecv : recv ([] ++ l.map some) idx = some l[idx] := by
      rw [List.nil_append, recv_positional, List.getElem?_eq_getElem hlt]
    obtain ⟨e, he⟩ := resolveFrom_taken (params.map (·.name)) rest _ idx _ n a hrecv hm hi
    refine ⟨e, ?_⟩
    simp only [callNamed, resolve]
    rw [resolveFrom_append, hpos]
    simp only
    rw [he]
  · intro pre rest n a n' b idx hi hi' hm
    simp only [callNamed, resolve]
    rw [resolveFrom_append]
    cases hpre : resolveFrom (params.map (·.name)) [] pre with
    | error e => exact ⟨e, rfl⟩
    | ok o =>
      simp only
      rw [resolveFrom_cons]
      rcases place_named (params.map (·.name)) o n a with ⟨_, he⟩ | ⟨_, _, _, _, he⟩ | ⟨idx₁, o', hi₁, _, he, hv⟩
      · rw [he]; exact ⟨_, rfl⟩
      · rw [he]; exact ⟨_, rfl⟩
      · rw [he]
        simp only
        rw [hi] at hi₁
        cases hi₁
        have hr : recv o' idx = some a := by rw [hv idx]; simp
        obtain ⟨e, he'⟩ := resolveFrom_taken (params.map (·.name)) rest o' idx a n' b hr hm hi'
        rw [he']
        exact ⟨e, rfl⟩
  · intro args h
    simp only [callNamed, resolve] at h
    cases hr : resolveFrom (params.map (·.name)) [] args with
    | error e =>
      rw [hr] at h
      simp only [Outcome.unresolved.injEq] at h
      subst h
      exact resolveFrom_no_crash _ _ _ hr
    | ok o => rw [hr] at h; cases h

/-- **C07_positional_call_unchanged.** A call without names: the `i`-th parameter receives the `i`-th argument
(`resolveNamedArguments` hands the list back untouched), so `callNamed` is the binding loop of the theorems above. -/
theorem C07_positional_call_unchanged (params : List Param) (l : List ArgV) :
    resolve (params.map (·.name)) (l.map .pos) = .ok (l.map some) ∧ ∀ i, recv (l.map some) i = l[i]? := by
  refine ⟨?_, recv_positional l⟩
  have := resolveFrom_positional (params.map (·.name)) l []
  simpa [resolve] using this

/-- every binding loop resolves the named arguments before it binds (regenerated from the four functions on every
run: `x, err := resolveNamedArguments(params, args)` followed by the test of `err`, before the loop) -/
theorem C07_named_resolved_before_binding :
    Generated.C07Access.namedFirst = [("fn", true), ("ctor", true), ("method", true), ("funcValue", true)] := by
  decide

-- `f(1, c: [5])` for `f(int $a, string $b = "d", array $c = [])`: `$b` takes its default, the body runs
example : callNamed .eachChecked false (fun _ _ => false)
    [⟨0, .exact, .int, none⟩, ⟨1, .exact, .str, some .str⟩, ⟨2, .exact, .arr, some .arr⟩]
    [.pos (.val .int), .named 2 (.val .arr)] = .call .ran := by decide
-- `$o->m(b: "s", a: 1)` for `m(int $a, string $b)`: accepted; `m(b: 1, a: "s")`: parameter 0 is reported
example : callNamed .eachChecked true (fun _ _ => false) [⟨0, .exact, .int, none⟩, ⟨1, .exact, .str, none⟩]
    [.named 1 (.val .str), .named 0 (.val .int)] = .call .ran := by decide
example : callNamed .eachChecked true (fun _ _ => false) [⟨0, .exact, .int, none⟩, ⟨1, .exact, .str, none⟩]
    [.named 1 (.val .int), .named 0 (.val .str)] = .call (.rejected 0) := by decide
-- `f(1)` for `f(int $a, array $c)`: refused (缺少参数); for `f(int $a, ?array $c)`: `$c` stays null
example : callNamed .eachChecked false (fun _ _ => false) [⟨0, .exact, .int, none⟩, ⟨1, .exact, .arr, none⟩]
    [.pos (.val .int)] = .call (.rejected 1) := by decide
example : callNamed .eachChecked false (fun _ _ => false) [⟨0, .exact, .int, none⟩, ⟨1, .exact, .nullable .arr, none⟩]
    [.pos (.val .int)] = .call .ran := by decide
-- `f(1, a: 2)`: the parameter is filled already; `f(zz: 1)`: no such parameter
example : callNamed .eachChecked false (fun _ _ => false) [⟨0, .exact, .int, none⟩]
    [.pos (.val .int), .named 0 (.val .int)] = .unresolved (.duplicate 0) := by decide
example : callNamed .eachChecked false (fun _ _ => false) [⟨0, .exact, .int, none⟩]
    [.named 7 (.val .int)] = .unresolved (.unknown 7) := by decide

end NamedArguments

/-! ## Which modifier a member carries: the keywords in front of its declaration

Everything above is about the modifier a member CARRIES. Which one it carries is decided by the parser from the
keywords written in front of the declaration (`Model.DeclMods`): a sequence of keyword stages, each keyword branch
assigning some of the variables that are later handed to the node constructor. The stage lists and the assignments
of every branch are regenerated from the six places that read declaration keywords (`Generated.C07Decl.parsers`).
The theorems are about EVERY parser of that shape whose branches assign their own variable (`wf`), every list of
keywords of any length; the regenerated parsers are held to `wf` by `decide` below. -/
section DeclarationKeywords
open Model.DeclMods Spec.DeclMods Proofs.DeclMods

/-- **C07_modifiers_resolved_as_written.** Whatever spelling a well-formed parser accepts, the member carries
exactly what is written: the written visibility wherever it stands among the other keywords, the default only when
no visibility keyword occurs, and each flag iff its keyword occurs. -/
theorem C07_modifiers_resolved_as_written (p : Parser) (hw : wf p = true) (kws : List Kw) (m : Mods)
    (h : parse p kws = some m) : Resolved p.init kws m := by
  rw [parse_fold hw h]
  exact fold_resolved _ _

/-- **C07_modifier_order_irrelevant.** Two accepted spellings of the same keywords (any permutation, at most one
visibility written) give the member the same modifiers. -/
theorem C07_modifier_order_irrelevant (p : Parser) (hw : wf p = true) (k1 k2 : List Kw) (m1 m2 : Mods)
    (hp : k1.Perm k2) (ho : VisOnce k1) (h1 : parse p k1 = some m1) (h2 : parse p k2 = some m2) : m1 = m2 :=
  resolved_unique (fun _ => hp.mem_iff) ho
    (C07_modifiers_resolved_as_written p hw k1 m1 h1) (C07_modifiers_resolved_as_written p hw k2 m2 h2)

/-- **C07_explicit_visibility_preserved.** A written visibility is the one the member carries, whatever other
keywords stand before or after it. -/
theorem C07_explicit_visibility_preserved (p : Parser) (hw : wf p = true) (kws : List Kw) (m : Mods)
    (h : parse p kws = some m) (v : Mod) (hv : Kw.vis v ∈ kws) (ho : VisOnce kws) : m.vis = some v :=
  (C07_modifiers_resolved_as_written p hw kws m h).explicit v hv ho

/-- **C07_default_visibility_only_without_keyword.** The parser's default (`public` for class members) is what the
member carries exactly when no visibility keyword is written: a carried visibility is either written, or nothing
is written and it is the default. -/
theorem C07_default_visibility_only_without_keyword (p : Parser) (hw : wf p = true) (kws : List Kw) (m : Mods)
    (h : parse p kws = some m) (ho : VisOnce kws) :
    ((∀ v, Kw.vis v ∉ kws) → m.vis = p.init.vis) ∧
    (∀ v, m.vis = some v → Kw.vis v ∈ kws ∨ ((∀ w, Kw.vis w ∉ kws) ∧ p.init.vis = some v)) := by
  have r := C07_modifiers_resolved_as_written p hw kws m h
  refine ⟨r.default, ?_⟩
  intro v hv
  by_cases hex : ∃ w, Kw.vis w ∈ kws
  · obtain ⟨w, hw'⟩ := hex
    have := r.explicit w hw' ho
    rw [hv] at this
    cases this
    exact .inl hw'
  · have hn : ∀ w, Kw.vis w ∉ kws := fun w hw' => hex ⟨w, hw'⟩
    refine .inr ⟨hn, ?_⟩
    rw [← r.default hn, hv]

theorem parse_loop (p : Parser) (bs : List Branch) (hs : p.stages = [⟨true, bs⟩])
    (hx : p.finalXorAbstract = false) (k : List Kw) :
    parse p k = if (runRep bs k p.init).2 = [] then some (runRep bs k p.init).1 else none := by
  unfold parse
  rw [hs, hx]
  simp [runStages, runStage]

/-- **C07_keyword_loop_order_irrelevant.** A parser that reads the keywords in ONE loop (the loop in front of a
constructor parameter) treats every permutation alike: all are refused, or all are accepted with the same modifiers. -/
theorem C07_keyword_loop_order_irrelevant (p : Parser) (hw : wf p = true) (bs : List Branch)
    (hs : p.stages = [⟨true, bs⟩]) (hx : p.finalXorAbstract = false) (k1 k2 : List Kw)
    (hp : k1.Perm k2) (ho : VisOnce k1) : parse p k1 = parse p k2 := by
  by_cases hall : ∀ k ∈ k1, (findBranch bs k).isSome = true
  · have hall2 : ∀ k ∈ k2, (findBranch bs k).isSome = true := fun k hk => hall k (hp.mem_iff.mpr hk)
    have e1 := (runRep_rest_nil bs k1 p.init).mpr hall
    have e2 := (runRep_rest_nil bs k2 p.init).mpr hall2
    have a1 : parse p k1 = some (runRep bs k1 p.init).1 := by rw [parse_loop p bs hs hx, if_pos e1]
    have a2 : parse p k2 = some (runRep bs k2 p.init).1 := by rw [parse_loop p bs hs hx, if_pos e2]
    rw [a1, a2, C07_modifier_order_irrelevant p hw k1 k2 _ _ hp ho a1 a2]
  · have hall2 : ¬ ∀ k ∈ k2, (findBranch bs k).isSome = true := fun h => hall (fun k hk => h k (hp.mem_iff.mp hk))
    have e1 : ¬ (runRep bs k1 p.init).2 = [] := fun e => hall ((runRep_rest_nil bs k1 p.init).mp e)
    have e2 : ¬ (runRep bs k2 p.init).2 = [] := fun e => hall2 ((runRep_rest_nil bs k2 p.init).mp e)
    rw [parse_loop p bs hs hx, parse_loop p bs hs hx, if_neg e1, if_neg e2]

/-- **C07_written_visibility_enforced.** End to end: a member written with visibility `v` among any other
keywords, in any order the parser accepts, is usable through an access path that applies the lexical rule exactly
from the code PHP's rule allows for `v` — the composition of the declaration parser and `C07_lexical_exact`. -/
theorem C07_written_visibility_enforced (p : Parser) (hw : wf p = true) (kws : List Kw) (m : Mods)
    (h : parse p kws = some m) (v : Mod) (hv : Kw.vis v ∈ kws) (ho : VisOnce kws)
    (T : Table) (H : Hier) (s : Site) (hd : NoDangling H) (nc : Bool)
    (hm : m.vis = some s.m)
    (hT : T s.path s.recv = .lexical true true nc) (hc : nc = true → s.ctx.isSome)
    (hns : Model.Access.decide T H s ≠ .stuck) :
    Model.Access.decide T H s = .allowed ↔ allowed H v s.lex s.decl := by
  have e := C07_explicit_visibility_preserved p hw kws m h v hv ho
  rw [hm] at e
  cases e
  exact C07_lexical_exact T H s hd nc hT hc hns

/-- **C07_foreign_visibility_assignment_counterexample.** The parameter loop of the change
`C07-promoted-readonly-public-override` (the `readonly` branch also assigns `paramModifier = "public"`):
`private readonly int $a` is promoted to a PUBLIC property, `readonly private int $a` to a private one — the written
visibility is not preserved and the order of the keywords matters. The harness replays it as
`leak:propRead:priv:outside` on a member spelled `private readonly`. -/
theorem C07_foreign_visibility_assignment_counterexample :
    parse seededParam [.vis .priv, .flag .readonly] = some ⟨some .pub, false, true, false, false, false⟩ ∧
    parse seededParam [.flag .readonly, .vis .priv] = some ⟨some .priv, false, true, false, false, false⟩ ∧
    wf seededParam = false ∧
    ¬ (∀ k1 k2 m1 m2, k1.Perm k2 → VisOnce k1 → parse seededParam k1 = some m1 →
        parse seededParam k2 = some m2 → m1 = m2) := by
  refine ⟨by decide, by decide, by decide, ?_⟩
  intro hall
  have hp : [Kw.vis .priv, Kw.flag .readonly].Perm [Kw.flag .readonly, Kw.vis .priv] := List.Perm.swap _ _ _
  have ho : VisOnce [Kw.vis .priv, Kw.flag .readonly] := by
    intro v w hv hw
    simp at hv hw
    rw [hv, hw]
  have := hall _ _ ⟨some .pub, false, true, false, false, false⟩ ⟨some .priv, false, true, false, false, false⟩
    hp ho (by decide) (by decide)
  exact absurd this (by decide)

/-- every keyword branch of the six regenerated parsers assigns its own variable and nothing else (a visibility
keyword the visibility it names, every other keyword its flag) -/
theorem C07_declaration_keywords_own_variable : Generated.C07Decl.parsers.all wf = true := by decide

/-- in particular no branch of a keyword that is not a visibility keyword assigns the visibility variable -/
theorem C07_no_keyword_assigns_foreign_visibility :
    (Generated.C07Decl.parsers.all fun p => p.stages.all fun st => st.branches.all fun b => !foreignVis b) = true := by
  decide

/-- the six parsers were read completely in the shapes the translator knows, the variables are not assigned
outside a keyword branch, and the member parsers hand the modifier to the node constructor unchanged -/
theorem C07_declaration_stages_recognised :
    Generated.C07Decl.recognised = [("param", true), ("class", true), ("anon", true), ("trait", true),
      ("enum", true), ("interface", true)] ∧
    Generated.C07Decl.passThrough = [("property", true), ("method", true), ("interfaceMethod", true)] := by decide

/-- what a member carries when no visibility keyword is written: `public` in a class, an anonymous class, a trait
and an enum; a constructor parameter without a visibility keyword is not promoted; an interface member gets its
`public` in the member parser (`passThrough`) -/
theorem C07_declaration_defaults :
    Generated.C07Decl.parsers.map (fun p => (p.name, p.init.vis)) =
      [("param", none), ("class", some .pub), ("anon", some .pub), ("trait", some .pub), ("enum", some .pub),
       ("interface", none)] := by decide

/-- **C07_generated_modifiers_resolved.** For the parsers as regenerated on this run: whatever spelling is
accepted, the member carries what is written. -/
theorem C07_generated_modifiers_resolved (p : Parser) (hp : p ∈ Generated.C07Decl.parsers) (kws : List Kw)
    (m : Mods) (h : parse p kws = some m) : Resolved p.init kws m :=
  C07_modifiers_resolved_as_written p (List.all_eq_true.mp C07_declaration_keywords_own_variable p hp) kws m h

-- `final protected static function f()`: accepted, protected + static + final
example : parse pinnedClass [.flag .final, .vis .prot, .flag .static] = some ⟨some .prot, true, false, true, false, false⟩ := by decide
-- `protected final static …`: the same member
example : parse pinnedClass [.vis .prot, .flag .final, .flag .static] = some ⟨some .prot, true, false, true, false, false⟩ := by decide
-- `static private $x`: refused by the member loop (an over-refusal, not a leak)
example : parse pinnedClass [.flag .static, .vis .priv] = none := by decide
-- the parameter loop takes both orders and resolves them alike
example : parse pinnedParam [.vis .priv, .flag .readonly] = parse pinnedParam [.flag .readonly, .vis .priv] := by decide
example : wf pinnedParam = true ∧ wf pinnedClass = true := by decide
example : VisOnce [Kw.vis .priv, Kw.flag .readonly, Kw.vis .priv] := by
  intro v w hv hw
  simp at hv hw
  rw [hv, hw]

end DeclarationKeywords

/-! ## Round 6: an access is decided on three classes — scope, receiver, declaring class — and on shadowing

`Site.decl` above is GIVEN; the nodes compute it: `canAccessDeclared` walks from the receiver's class to the first
class that declares the name, applies the rule, and falls back to the scope class's own same-named member when the
receiver's class inherits the scope class. `Model.AccessDecl` mirrors that function; which relation the fallback
tests is the regenerated fact `Generated.C07Access.fallbackRel`. -/
section Shadow
open Model.AccessDecl Spec.AccessDecl Proofs.AccessDecl

/-- **C07_declared_exact.** For every hierarchy (any depth), every assignment of declarations of one member name
to classes (any subset, any modifiers PHP accepts), every scope (a class or none) and every receiver class: an
access through `->` as coded — lookup from the receiver's class, public shortcut, `canAccessDeclared` with the
directional fallback — is allowed exactly when PHP's rule allows it: the scope's own private member on an
instance of the scope class, otherwise the rule on (scope, class of the nearest declaration, its modifier). -/
theorem C07_declared_exact (H : Hier) (hd : NoDangling H) (ha : Acyclic H) (D : Decls) (hv : ValidOverride H D)
    (scope : Option Name) (r : Name)
    (hns : access H .recvExtendsScope D scope r ≠ .stuck) (hnm : access H .recvExtendsScope D scope r ≠ .nomember) :
    access H .recvExtendsScope D scope r = .allowed ↔ allowedOn H D scope r :=
  access_exact hd ha hv scope r hns hnm

example : access shadowH .recvExtendsScope shadowD (some 1) 2 = .allowed ∧
    access shadowH .recvExtendsScope shadowD (some 2) 2 = .allowed ∧
    access shadowH .recvExtendsScope shadowD none 1 = .denied := by decide

/-- **C07_ancestor_private_refused.** Code of a strict descendant `s` of the receiver's class never gets at a
member whose nearest declaration from the receiver is private — whether or not `s` declares the name too. -/
theorem C07_ancestor_private_refused (H : Hier) (hd : NoDangling H) (ha : Acyclic H) (D : Decls)
    (hv : ValidOverride H D) (s r d : Name) (hsr : Sub H s r) (hne : s ≠ r)
    (hn : Nearest H D r d) (hp : D d = some .priv) :
    access H .recvExtendsScope D (some s) r ≠ .allowed := by
  intro hacc
  have hal := (access_exact hd ha hv (some s) r (by rw [hacc]; decide) (by rw [hacc]; decide)).mp hacc
  cases hal with
  | inl h1 =>
    obtain ⟨s', hs', hsub, _⟩ := h1
    cases hs'
    exact hne (ha _ _ hsr hsub)
  | inr h2 =>
    obtain ⟨d', m', hn', hm', hal'⟩ := h2
    have hdd := nearest_unique ha hn hn'
    rw [← hdd, hp] at hm'
    cases hm'
    have hsd : some s = some d' := hal'
    cases hsd
    exact hne (ha _ _ hsr hn'.1)

/-- **C07_symmetric_fallback_counterexample.** (the seeded change `C07-fallback-hierarchy-symmetric`, replayed by
the shadowing stream as `shadow:leak:*:priv:descendant:shadowed`) With the symmetric relation in the fallback, code
of class 2 — which extends 1 and declares a public member of the name — uses the PRIVATE member of class 1 on an
object of class 1; the directional fallback refuses, and PHP's rule refuses. -/
theorem C07_symmetric_fallback_counterexample :
    access shadowH .symmetric shadowD (some 2) 1 = .allowed ∧
    access shadowH .recvExtendsScope shadowD (some 2) 1 = .denied ∧
    ¬ allowedOn shadowH shadowD (some 2) 1 := by
  refine ⟨by decide, by decide, ?_⟩
  intro h
  have hroot : ∀ x, Sub shadowH 1 x → x = 1 := fun x hx => sub_of_root (by decide) hx
  cases h with
  | inl h1 =>
    obtain ⟨s, hs, hsub, _⟩ := h1
    cases hs
    exact absurd (hroot 2 hsub) (by decide)
  | inr h2 =>
    obtain ⟨d, m, hn, hm, hal⟩ := h2
    have hd1 := hroot d hn.1
    subst hd1
    have hmp : m = .priv := by
      have : shadowD 1 = some .priv := by decide
      rw [this] at hm; exact (Option.some.inj hm).symm
    subst hmp
    exact absurd hal (by simp [allowed])

/-- without the fallback clause the scope class's own private member is refused on an object of a subclass that
redeclares the name (the over-refusal the clause exists for; the stream reports it as `shadow:refused:*`) -/
example : access shadowH .absent (fun n => if n = 1 then some .priv else if n = 2 then some .priv else none) (some 1) 2 = .denied ∧
    access shadowH .recvExtendsScope (fun n => if n = 1 then some .priv else if n = 2 then some .priv else none) (some 1) 2 = .allowed := by
  decide

/-- **C07_fallback_directional.** Obligation on the regenerated fact: the last conjunct of `canAccessDeclared` is
`classExtends(vm, class, scope.GetName())` — the receiver's class inherits the scope class — and `classExtends` is
the one upward loop. -/
theorem C07_fallback_directional : Generated.C07Access.fallbackRel = .recvExtendsScope := by decide

/-- **C07_generated_declared_exact.** `C07_declared_exact` for the relation regenerated on this run. -/
theorem C07_generated_declared_exact (H : Hier) (hd : NoDangling H) (ha : Acyclic H) (D : Decls)
    (hv : ValidOverride H D) (scope : Option Name) (r : Name)
    (hns : access H Generated.C07Access.fallbackRel D scope r ≠ .stuck)
    (hnm : access H Generated.C07Access.fallbackRel D scope r ≠ .nomember) :
    access H Generated.C07Access.fallbackRel D scope r = .allowed ↔ allowedOn H D scope r := by
  have e := C07_fallback_directional
  rw [e] at hns hnm ⊢
  exact access_exact hd ha hv scope r hns hnm

/-! ### Round 7: which class a protected member is judged by; siblings under a common ancestor

`Hier` is a parent FUNCTION (`extOf`), so the theorems above already range over trees. What they did not expose is
the one degree of freedom the seeded change `C07-protected-judged-by-root-declarer` used: the class handed to
`canAccessMember` need not be the class the walk stopped at. `Model.AccessDecl.Judge` / `accessJ` make it a parameter,
`Generated.C07Access.judgeRel` regenerates it. -/

/-- **C07_judged_by_nearest_exact.** With the nearest declaration as the judged class (and the directional fallback)
the access as coded is PHP's rule `allowedOn`, for every hierarchy — trees included —, every assignment of
declarations PHP accepts, every scope and every receiver class. -/
theorem C07_judged_by_nearest_exact (H : Hier) (hd : NoDangling H) (ha : Acyclic H) (D : Decls) (hv : ValidOverride H D)
    (scope : Option Name) (r : Name)
    (hns : accessJ H .recvExtendsScope .nearest D scope r ≠ .stuck)
    (hnm : accessJ H .recvExtendsScope .nearest D scope r ≠ .nomember) :
    accessJ H .recvExtendsScope .nearest D scope r = .allowed ↔ allowedOn H D scope r := by
  rw [accessJ_nearest] at hns hnm ⊢
  exact access_exact hd ha hv scope r hns hnm

/-- **C07_sibling_protected_refused.** In every hierarchy: code of a class `s` that is neither the class `d` whose
PROTECTED declaration the lookup from the receiver's class `r` finds, nor below it, nor above it — a sibling, a
cousin, an unrelated class — is refused, whatever other classes (a common ancestor included) declare under that
name, unless `r` is an instance of `s` (then `s` is above `d` or `d` above `s`, excluded by the hypotheses when `s`
declares nothing; stated here through `¬ Sub H r s`). -/
theorem C07_sibling_protected_refused (H : Hier) (hd : NoDangling H) (ha : Acyclic H) (D : Decls)
    (hv : ValidOverride H D) (s r d : Name) (hn : Nearest H D r d) (hp : D d = some .prot)
    (h1 : ¬ Sub H s d) (h2 : ¬ Sub H d s) (h3 : ¬ Sub H r s) :
    accessJ H .recvExtendsScope .nearest D (some s) r ≠ .allowed := by
  intro hacc
  rw [accessJ_nearest] at hacc
  have hal := (access_exact hd ha hv (some s) r (by rw [hacc]; decide) (by rw [hacc]; decide)).mp hacc
  cases hal with
  | inl x =>
    obtain ⟨s', hs', hsub, _⟩ := x
    cases hs'
    exact h3 hsub
  | inr x =>
    obtain ⟨d', m', hn', hm', hal'⟩ := x
    have hdd := nearest_unique ha hn hn'
    rw [← hdd, hp] at hm'
    cases hm'
    obtain ⟨c, hc, hrel⟩ := hal'
    cases hc
    rw [← hdd] at hrel
    cases hrel with
    | inl y => exact h1 y
    | inr y => exact h2 y

/-- **C07_topmost_judge_counterexample.** (the seeded change `C07-protected-judged-by-root-declarer`, replayed by
the shadowing stream on trees as `shadow:leak:*:prot:sibling`) Classes 2 and 3 extend 1; 3 declares the member
protected, 1 declares the name PRIVATE. Judged by the top-most declaring class, code of 2 uses the protected member
of 3 on an object of 3; judged by the nearest declaration it is refused, judged by PHP's method prototype (which a
private declaration never is) it is refused, and the specification refuses. -/
theorem C07_topmost_judge_counterexample :
    accessJ sibH .recvExtendsScope .topmost (sibD .priv) (some 2) 3 = .allowed ∧
    accessJ sibH .recvExtendsScope .nearest (sibD .priv) (some 2) 3 = .denied ∧
    accessJ sibH .recvExtendsScope .prototype (sibD .priv) (some 2) 3 = .denied ∧
    ¬ allowedOn sibH (sibD .priv) (some 2) 3 :=
  ⟨by decide, by decide, by decide, sib_not_allowedOn .priv⟩

/-- **C07_prototype_judge_witness.** (known finding `shadow:refused:*:prot:sibling`) When the common ancestor's
declaration is PROTECTED, PHP judges an overriding protected METHOD by the class of its prototype — code of the
sibling 2 may call it —, while the nearest-declaration rule origami applies refuses: an over-refusal, never a leak
(`C07_judged_by_nearest_exact` + `C07_sibling_protected_refused`). Both other judges agree there. -/
theorem C07_prototype_judge_witness :
    accessJ sibH .recvExtendsScope .prototype (sibD .prot) (some 2) 3 = .allowed ∧
    accessJ sibH .recvExtendsScope .topmost (sibD .prot) (some 2) 3 = .allowed ∧
    accessJ sibH .recvExtendsScope .nearest (sibD .prot) (some 2) 3 = .denied := by decide

/-- **C07_protected_judged_by_nearest.** Obligation on the regenerated fact: `canAccessDeclared` hands the class its
walk stopped at to `canAccessMember` (no statement between the walk and the test). -/
theorem C07_protected_judged_by_nearest : Generated.C07Access.judgeRel = .nearest := by decide

/-- **C07_generated_judged_exact.** `C07_judged_by_nearest_exact` for the two facts regenerated on this run. -/
theorem C07_generated_judged_exact (H : Hier) (hd : NoDangling H) (ha : Acyclic H) (D : Decls)
    (hv : ValidOverride H D) (scope : Option Name) (r : Name)
    (hns : accessJ H Generated.C07Access.fallbackRel Generated.C07Access.judgeRel D scope r ≠ .stuck)
    (hnm : accessJ H Generated.C07Access.fallbackRel Generated.C07Access.judgeRel D scope r ≠ .nomember) :
    accessJ H Generated.C07Access.fallbackRel Generated.C07Access.judgeRel D scope r = .allowed ↔ allowedOn H D scope r := by
  have e := C07_fallback_directional
  have e2 := C07_protected_judged_by_nearest
  rw [e, e2] at hns hnm ⊢
  exact C07_judged_by_nearest_exact H hd ha D hv scope r hns hnm

/-! ### Round 8: entry paths — the scope class is per-call state every way into a body has to establish -/
section EntryPaths
open Model.ScopeEntry

/-- class 2 extends 1 and alone declares the member, private -/
def subPrivD : Decls := fun n => if n = 2 then some .priv else none
/-- class 1 alone declares the member, private; 2 extends 1 -/
def ownPrivD : Decls := fun n => if n = 1 then some .priv else none

theorem shadowH_sub_21 : Sub shadowH 2 1 := .step (p := 1) (by decide) (.refl 1)

/-- **C07_callable_kind_exact.** Code entered through a path that records the class of the code is judged by PHP's
rule on the class where it is WRITTEN — whatever the runtime class of `$this`, for every hierarchy, every valid
assignment of declarations and every receiver. -/
theorem C07_callable_kind_exact (H : Hier) (hd : NoDangling H) (ha : Acyclic H) (D : Decls) (hv : ValidOverride H D)
    (e : Entry) (he : e.records = true) (lex rt r : Name)
    (hns : accessVia H .recvExtendsScope .nearest D e lex rt r ≠ .stuck)
    (hnm : accessVia H .recvExtendsScope .nearest D e lex rt r ≠ .nomember) :
    accessVia H .recvExtendsScope .nearest D e lex rt r = .allowed ↔ allowedOn H D (some lex) r := by
  have hs : scopeOf e lex rt = lex := by simp [scopeOf, he]
  unfold accessVia at hns hnm ⊢
  rw [hs] at hns hnm ⊢
  exact C07_judged_by_nearest_exact H hd ha D hv (some lex) r hns hnm

/-- **C07_callable_kind_independent.** When every entry path records the class of the code, the decision does not
depend on the path the code was entered through (ordinary call, generator, closure called later …), nor on the
runtime class of `$this`. -/
theorem C07_callable_kind_independent (es : List Entry) (h : ∀ e ∈ es, e.records = true)
    (H : Hier) (fb : Fallback) (j : Judge) (D : Decls) (e₁ e₂ : Entry) (h1 : e₁ ∈ es) (h2 : e₂ ∈ es)
    (lex rt₁ rt₂ r : Name) :
    accessVia H fb j D e₁ lex rt₁ r = accessVia H fb j D e₂ lex rt₂ r := by
  simp [accessVia, scopeOf, h e₁ h1, h e₂ h2]

/-- **C07_callable_kind_independent_iff.** … and only then: the decisions of all paths coincide with the decision on
the lexical class, for all hierarchies, declarations and receivers with the runtime class below the lexical class,
IFF every path of the list records the class before the body runs. (⇐ fails on the two-class hierarchy where the
subclass alone declares the member private.) -/
theorem C07_callable_kind_independent_iff (es : List Entry) :
    (∀ e ∈ es, e.records = true) ↔
    (∀ e ∈ es, ∀ (H : Hier) (D : Decls) (lex rt r : Name), Sub H rt lex →
      accessVia H .recvExtendsScope .nearest D e lex rt r = accessJ H .recvExtendsScope .nearest D (some lex) r) := by
  constructor
  · intro h e he H D lex rt r _
    simp [accessVia, scopeOf, h e he]
  · intro h e he
    cases hr : e.records with
    | true => rfl
    | false =>
      have := h e he shadowH subPrivD 1 2 2 shadowH_sub_21
      simp [accessVia, scopeOf, hr] at this
      exact absurd this (by decide)

/-- **C07_unrecorded_entry_counterexample.** (the seeded change `C07-generator-method-scope-unset`, replayed by the
shadowing stream as `shadow:kind-dependent:*/gen` + `shadow:leak:*/this/gen:priv:ancestor`) A generator method of
class 1 running on an object of class 2 ⊂ 1 through a path that does not record the class: it READS the private
member only class 2 declares (PHP refuses, the recording path refuses), and it is REFUSED the private member of
its own class 1 (PHP allows, the recording path allows). The seeded list of paths is not all-recording. -/
theorem C07_unrecorded_entry_counterexample :
    accessVia shadowH .recvExtendsScope .nearest subPrivD ⟨"generator", false⟩ 1 2 2 = .allowed ∧
    accessVia shadowH .recvExtendsScope .nearest subPrivD ⟨"generator", true⟩ 1 2 2 = .denied ∧
    ¬ allowedOn shadowH subPrivD (some 1) 2 ∧
    accessVia shadowH .recvExtendsScope .nearest ownPrivD ⟨"generator", false⟩ 1 2 2 = .denied ∧
    accessVia shadowH .recvExtendsScope .nearest ownPrivD ⟨"generator", true⟩ 1 2 2 = .allowed ∧
    allowedOn shadowH ownPrivD (some 1) 2 ∧
    ¬ (∀ e ∈ Model.ScopeEntry.seeded, e.records = true) ∧
    (∀ e ∈ Model.ScopeEntry.pinned, e.records = true) := by
  refine ⟨by decide, by decide, ?_, by decide, by decide, ?_, by decide, by decide⟩
  · intro h
    cases h with
    | inl h1 =>
      obtain ⟨s, hs, _, hp⟩ := h1
      cases hs
      exact absurd hp (by decide)
    | inr h2 =>
      obtain ⟨d, m, hn, hm, hal⟩ := h2
      have hd2 : d = 2 := by
        have := hn.2.1
        by_cases h2 : d = 2
        · exact h2
        · simp [subPrivD, h2] at this
      subst hd2
      have hmp : m = .priv := by
        have : subPrivD 2 = some .priv := by decide
        rw [this] at hm; exact (Option.some.inj hm).symm
      subst hmp
      exact absurd hal (by simp [allowed])
  · exact Or.inl ⟨1, rfl, shadowH_sub_21, by decide⟩

/-- **C07_every_entry_path_records_scope.** Obligation on the regenerated fact: every exit of `ClassMethod.Call`
(generator branch, depth-limit error, body loop) lies behind the statement that records the class of the code, and
the closure / function-in-method paths inherit it; the paths the harness drives are all listed. -/
theorem C07_every_entry_path_records_scope :
    (Generated.C07Access.entryPaths.all fun e => e.records) = true ∧
    (["generator", "body", "closure", "functionInMethod"].all fun n =>
      Generated.C07Access.entryPaths.any fun e => e.name == n) = true := by decide

/-- **C07_generated_callable_kind_exact.** `C07_callable_kind_exact` for the facts regenerated on this run: code
entered through ANY path the translator found in the source is judged by PHP's rule on its lexical class. -/
theorem C07_generated_callable_kind_exact (H : Hier) (hd : NoDangling H) (ha : Acyclic H) (D : Decls)
    (hv : ValidOverride H D) (e : Entry) (he : e ∈ Generated.C07Access.entryPaths) (lex rt r : Name)
    (hns : accessVia H Generated.C07Access.fallbackRel Generated.C07Access.judgeRel D e lex rt r ≠ .stuck)
    (hnm : accessVia H Generated.C07Access.fallbackRel Generated.C07Access.judgeRel D e lex rt r ≠ .nomember) :
    accessVia H Generated.C07Access.fallbackRel Generated.C07Access.judgeRel D e lex rt r = .allowed ↔
      allowedOn H D (some lex) r := by
  have e1 := C07_fallback_directional
  have e2 := C07_protected_judged_by_nearest
  rw [e1, e2] at hns hnm ⊢
  have hrec : e.records = true := by
    have := C07_every_entry_path_records_scope.1
    rw [List.all_eq_true] at this
    exact this e he
  exact C07_callable_kind_exact H hd ha D hv e hrec lex rt r hns hnm

end EntryPaths

end Shadow

/-- **C07_known_tightened.** The known tables shrank: no arm and no boundary is known worse than before the
second round of repairs, 23 of the 38 arms and 9 of the 14 boundaries are known strictly better. -/
theorem C07_known_tightened :
    (Path.all.all fun p => [Recv.this, Recv.other].all fun r =>
        (known p r).rank ≤ (knownBefore p r).rank) = true ∧
    ((Path.all.flatMap fun p => [Recv.this, Recv.other].filter fun r =>
        (known p r).rank < (knownBefore p r).rank).length) = 23 ∧
    (Boundary.all.all fun b => BKind.rank (knownBoundary b) ≤ BKind.rank (knownBoundaryBefore b)) = true ∧
    (Boundary.all.filter fun b => BKind.rank (knownBoundary b) < BKind.rank (knownBoundaryBefore b)).length = 9 := by
  decide

/-- `new` runs the abstract test and the completeness validation on every call (what `Model.Inst.newRun` and
the two theorems above about sequences of `new` presume about the glue) -/
theorem C07_inst_glue_every_call : Generated.C07Access.instGlue = ⟨true, true⟩ := by decide

/-- the translator recognised every shape, and no enforcement call sits inside a function literal -/
theorem C07_no_shape_change : Generated.C07Access.shapeNotes = [] := by decide

end C07
