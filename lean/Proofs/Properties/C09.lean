import Proofs.Lemmas.ChanMono
import Generated.C09ChanLocks
import Model.ChanRacy
/-!
# C09 — Channel delivers each value exactly once, in sender order, under any schedule

Property theorems only. `Model.Chan` is the small-step model of `std/channel/channel.go`
(the close protocol after fix `C09-close-send-race`), `Spec.Chan` states what a script relies
on over observable histories. Every theorem quantifies over **any** capacity, **any** programs
(`prog : Nat → List Op`, so any number of threads and operations) and **any** schedule
(`sched : List Act`; a choice that is not enabled is skipped).
-/
namespace C09
open Model.Chan Proofs.Chan Spec.Chan

/-- **No Go panic is reachable**: no `send on closed channel`, no `close of closed channel`,
whatever the interleaving of sends, receives, closes (also concurrent and repeated closes). -/
theorem C09_no_panic (cap : Nat) (prog : Nat → List Op) (sched : List Act) :
    (exec (init cap prog) sched).panicked = false :=
  (inv_exec cap prog sched).proto.nopanic

/-- **Nothing is invented**: every message a receive returned carries the payload of a send, by the
thread it names, that reported success. -/
theorem C09_no_invention (cap : Nat) (prog : Nat → List Op) (sched : List Act) :
    NoInvention (obsOf (exec (init cap prog) sched)) := by
  have hd := (inv_exec cap prog sched).data
  intro r m hm
  simp only [obsOf] at hm ⊢
  rw [received_eq, ← hd.got r] at hm
  rw [sentOK_eq, ← hd.okS, ← hd.data]
  obtain ⟨p, hp, rfl⟩ := List.mem_map.1 hm
  have hp' := (List.mem_filter.1 hp).1
  exact List.mem_map_of_mem (List.mem_filter.2 ⟨List.mem_append_left _ (List.mem_map_of_mem (f := (·.2)) hp'), by simp⟩)

/-- **At most once**: no message occurs twice among everything received (by whichever receivers)
and everything still buffered. -/
theorem C09_at_most_once (cap : Nat) (prog : Nat → List Op) (sched : List Act) :
    AtMostOnce (obsOf (exec (init cap prog) sched)) :=
  (inv_exec cap prog sched).data.nodup

/-- …in particular two different receivers never get the same message. -/
theorem C09_receivers_disjoint (cap : Nat) (prog : Nat → List Op) (sched : List Act) (r r' : Nat) (m : Msg)
    (h : m ∈ received ((exec (init cap prog) sched).hist r))
    (h' : m ∈ received ((exec (init cap prog) sched).hist r')) : r = r' := by
  have hd := (inv_exec cap prog sched).data
  rw [received_eq, ← hd.got] at h h'
  obtain ⟨p, hp, e⟩ := List.mem_map.1 h
  obtain ⟨p', hp', e'⟩ := List.mem_map.1 h'
  have hn : ((exec (init cap prog) sched).recvd.map (·.2)).Nodup :=
    (List.nodup_append.1 hd.nodup).1
  have := inj_of_nodup_map (·.2) _ hn p p' (List.mem_filter.1 hp).1 (List.mem_filter.1 hp').1 (e.trans e'.symm)
  have e1 := (List.mem_filter.1 hp).2
  have e2 := (List.mem_filter.1 hp').2
  simp only [beq_iff_eq] at e1 e2
  rw [← e1, ← e2, this]

/-- **Per-sender FIFO**: in the global receive order the payloads delivered from a sender are a prefix
of the payloads it sent successfully, in program order; and every single receiver sees them in that
order. -/
theorem C09_per_sender_fifo (cap : Nat) (prog : Nat → List Op) (sched : List Act) :
    PerSenderFifo (obsOf (exec (init cap prog) sched)) ∧
    ReceiverSeesSenderOrder (obsOf (exec (init cap prog) sched)) := by
  have hd := (inv_exec cap prog sched).data
  have hpre : ∀ t, delivered (obsOf (exec (init cap prog) sched)) t <+: sentOK ((exec (init cap prog) sched).hist t) := by
    intro t
    rw [sentOK_eq, ← hd.okS, ← hd.data, List.filter_append, List.map_append]
    exact List.prefix_append _ _
  refine ⟨hpre, ?_⟩
  intro r t
  refine List.Sublist.trans ?_ (hpre t).sublist
  simp only [obsOf, delivered]
  rw [received_eq, ← hd.got r]
  exact (List.Sublist.filter _ (List.Sublist.map _ List.filter_sublist)).map _

/-- **Exactly once on quiescence**: a successfully sent value is always either delivered or still
buffered (never lost), and once the buffer is drained the values delivered from each sender are
exactly the values it sent successfully, in order (with `C09_at_most_once`: each exactly once). -/
theorem C09_exactly_once_on_quiescence (cap : Nat) (prog : Nat → List Op) (sched : List Act) :
    NothingLost (obsOf (exec (init cap prog) sched)) ∧
    ExactlyOnceWhenDrained (obsOf (exec (init cap prog) sched)) := by
  have hd := (inv_exec cap prog sched).data
  have hl : NothingLost (obsOf (exec (init cap prog) sched)) := by
    intro t
    simp only [obsOf, delivered]
    rw [sentOK_eq, ← hd.okS, ← hd.data, List.filter_append, List.map_append]
    rfl
  refine ⟨hl, ?_⟩
  intro hb t
  have := hl t
  simp only [obsOf] at hb
  simpa [obsOf, hb] using this

/-- the global receive order used above is consistent with what each receiver observed -/
theorem C09_order_consistent (cap : Nat) (prog : Nat → List Op) (sched : List Act) :
    OrderConsistent (obsOf (exec (init cap prog) sched)) := by
  intro r
  simp only [obsOf]
  rw [received_eq, ← (inv_exec cap prog sched).data.got r]

/-- **After close, receivers drain…**: once the Go channel is closed a receive is always enabled
(never blocks) and returns the head of the buffer, or null when the buffer is empty. -/
theorem C09_closed_receive_drains (cap : Nat) (prog : Nat → List Op) (sched : List Act) (r : Nat) (rest : List Op)
    (hc : (exec (init cap prog) sched).chClosed = true)
    (hpc : (exec (init cap prog) sched).pc r = .idle)
    (hpg : (exec (init cap prog) sched).prog r = .recv :: rest) :
    ∃ s', step (exec (init cap prog) sched) (.run r) = some s' ∧
      s'.buf = (exec (init cap prog) sched).buf.tail ∧
      s'.hist r = (exec (init cap prog) sched).hist r ++
        [(Op.recv, match (exec (init cap prog) sched).buf with | m :: _ => Res.got m | [] => Res.null)] := by
  have hn := (inv_exec cap prog sched).proto.nopanic
  generalize exec (init cap prog) sched = s at *
  simp only [step, hn, stepRun, hpc, hpg, stepRecv]
  cases hb : s.buf with
  | nil => simp [hc, St.finish, hb]
  | cons m rest => simp [St.finish]

/-- **…then get null, for good**: once the Go channel is closed nothing is added any more — what
leaves the buffer is what is received, no send succeeds; and once some receive has returned null the
channel is closed and empty, so nothing is ever received after that under any continuation. -/
theorem C09_drain_then_null (cap : Nat) (prog : Nat → List Op) (sched sched' : List Act) :
    let s := exec (init cap prog) sched
    let s' := exec s sched'
    (s.chClosed = true →
        s'.chClosed = true ∧ msgs s' ++ s'.buf = msgs s ++ s.buf ∧ s'.sentLog = s.sentLog ∧
        (∃ k, s'.buf = s.buf.drop k)) ∧
    ((∃ r, (Op.recv, Res.null) ∈ s.hist r) →
        s.chClosed = true ∧ s.buf = [] ∧ s'.recvd = s.recvd ∧ s'.buf = [] ∧ s'.sentLog = s.sentLog) := by
  intro s s'
  have hi : Inv s := inv_exec cap prog sched
  refine ⟨fun hc => ?_, fun ⟨r, hr⟩ => ?_⟩
  · have := closed_exec s hi hc sched'
    exact ⟨this.closed, this.same, this.log, this.shrink⟩
  · obtain ⟨hc, hb⟩ := hi.obs.nullc r hr
    have h := closed_exec s hi hc sched'
    obtain ⟨k, hk⟩ := h.shrink
    have hb' : s'.buf = [] := by rw [hk, hb]; simp
    refine ⟨hc, hb, ?_, hb', h.log⟩
    obtain ⟨e, he⟩ := h.ext
    have hs := h.same
    rw [hb, hb'] at hs
    simp only [msgs, List.append_nil, he, List.map_append] at hs
    have : e = [] := by
      have hl := congrArg List.length hs
      simpa using hl
    rw [he, this, List.append_nil]

/-- **After close, send reports failure**: once some `Close` call has returned, under any
continuation a send that starts is enabled and returns false at once; nothing is buffered or logged. -/
theorem C09_send_after_close_fails (cap : Nat) (prog : Nat → List Op) (sched sched' : List Act)
    (c t v : Nat) (rest : List Op)
    (hclose : (Op.close, Res.unit) ∈ (exec (init cap prog) sched).hist c)
    (hpc : (exec (exec (init cap prog) sched) sched').pc t = .idle)
    (hpg : (exec (exec (init cap prog) sched) sched').prog t = .send v :: rest) :
    ∃ s3, step (exec (exec (init cap prog) sched) sched') (.run t) = some s3 ∧
      s3.hist t = (exec (exec (init cap prog) sched) sched').hist t ++ [(Op.send v, Res.ok false)] ∧
      s3.buf = (exec (exec (init cap prog) sched) sched').buf ∧
      s3.sentLog = (exec (exec (init cap prog) sched) sched').sentLog ∧
      s3.recvd = (exec (exec (init cap prog) sched) sched').recvd := by
  have hi := inv_exec cap prog sched
  have hf := flag_exec _ sched' (hi.obs.closeRet c hclose)
  have hn := (inv_exec_from _ hi sched').proto.nopanic
  generalize exec (exec (init cap prog) sched) sched' = s at *
  simp [step, hn, stepRun, hpc, hpg, stepSendCheck, hf, St.finish]

/-- **Close is never blocked by senders, and wakes them**: while a closer waits for the mutex every
sender inside its send attempt can leave through `<-done` (returning false), and as soon as none is
inside, the closer's last step is enabled. (With `C09_no_panic`: that step closes an open channel.) -/
theorem C09_close_wakes_blocked_senders (cap : Nat) (prog : Nat → List Op) (sched : List Act) (c : Nat)
    (hpc : (exec (init cap prog) sched).pc c = .closeSignalled) :
    (∀ t, t ∈ (exec (init cap prog) sched).holders →
        ∃ s', step (exec (init cap prog) sched) (.abort t) = some s' ∧ s'.pc t = .idle ∧ t ∉ s'.holders) ∧
    ((exec (init cap prog) sched).holders = [] →
        ∃ s', step (exec (init cap prog) sched) (.run c) = some s' ∧ s'.chClosed = true ∧ s'.pc c = .idle) := by
  have hi := inv_exec cap prog sched
  have hw := wf_exec cap prog sched
  generalize exec (init cap prog) sched = s at *
  have hn := hi.proto.nopanic
  have hd := (hi.proto.cs c hpc)
  constructor
  · intro t ht
    have hpt := (hi.proto.hold t).1 ht
    obtain ⟨v, hv⟩ := (hw t).1 hpt
    cases hp : s.prog t with
    | nil => simp [hp] at hv
    | cons o rest =>
      simp [hp] at hv
      subst hv
      simp [step, hn, stepAbortT, hpt, hp, stepAbort, hd.1, St.finish, St.release]
  · intro hh
    have hv := (hw c).2 (by simp [hpc, isCloser])
    cases hp : s.prog c with
    | nil => simp [hp] at hv
    | cons o rest =>
      simp [hp] at hv
      subst hv
      simp [step, hn, stepRun, hpc, hp, stepCloseFinal, hh, hd.2, St.finish]

/-- **The source follows the modelled protocol** (regenerated on every run from
`std/channel/*.go`): the fields are an RWMutex, an atomic flag and the two channels; `Send` holds the
shared lock from before the flag read until after a select that offers exactly `channel <- v` and
`<-done`; `Close` is CompareAndSwap, `close(done)`, then `close(channel)` inside the exclusive lock;
`Receive`/`IsClosed`/`Construct` have the expected shape; the yield hooks sit exactly between the
model's steps; no other method of `Channel` touches the flag, the lock or the channels. -/
theorem C09_locks_match_model :
    Generated.C09ChanLocks.fields = fieldProtocol ∧
    Generated.C09ChanLocks.extraFields = 0 ∧
    Generated.C09ChanLocks.send = sendProtocol ∧
    Generated.C09ChanLocks.close = closeProtocol ∧
    Generated.C09ChanLocks.receive = receiveProtocol ∧
    Generated.C09ChanLocks.isClosed = isClosedProtocol ∧
    Generated.C09ChanLocks.construct = constructProtocol ∧
    Generated.C09ChanLocks.others.length = 0 ∧
    Generated.C09ChanLocks.shapeChanged.length = 0 := by decide

/-- The script-level method objects (`$ch->send(...)` … in `channel_methods.go`) are thin wrappers:
each `Call` invokes exactly the one `Channel` method the model's operation stands for, once, with no
loop, no goroutine and no other `Channel` method (a shortcut through `IsClosed`/`Len` before
`Receive`, say, would be a different protocol from the one the theorems above are about). -/
def wrapperProtocol : List (String × List String) :=
  [("ChannelCapMethod", ["Cap"]), ("ChannelCloseMethod", ["Close"]),
   ("ChannelConstructMethod", ["Construct"]), ("ChannelIsClosedMethod", ["IsClosed"]),
   ("ChannelLenMethod", ["Len"]), ("ChannelReceiveMethod", ["Receive"]),
   ("ChannelSendMethod", ["Send"])]

theorem C09_script_methods_are_wrappers :
    Generated.C09ChanLocks.wrappers = wrapperProtocol := by decide

/-! ### the class / dispatch layer is write-free after construction

A script call `$ch->send($v)` reaches `Channel.Send` through the class object of the Channel instance
(`ChannelClass.GetMethod`, the `Channel*Method` objects) on whichever goroutine `spawn` started, with no
lock of its own. The model's steps start at `Channel`; what makes that sound is that everything in front
of it is immutable once the object exists. Regenerated from **every** file of `std/channel`: the types of
the package with their fields, every statement that writes anything but a plain local variable, the
package-level variables and the `go` statements. -/

/-- a dispatch-layer object may hold nothing but a reference to the channel or to its class object -/
def refOnly (ty : String) : Bool := ty == "*Channel" || ty == "*ChannelClass"

/-- the only writes of non-local state in the package: the two fields `Construct` replaces -/
def constructWrites : List String := ["Channel.Construct:c.channel", "Channel.Construct:c.done"]

/-- the events between `lock` and the next `unlock` -/
def insideLock : List Ev → List Ev
  | [] => []
  | .lock :: rest => rest.takeWhile (· != .unlock)
  | _ :: rest => insideLock rest

/-- Write-free after construction: every field of every type of the package other than `Channel` is a
reference (`*Channel` / `*ChannelClass`) — no map, slice, counter, flag or cache can live in the
dispatch layer —, the only statements of the package that write non-local state are the two
assignments of `Construct`, and those sit inside its exclusive lock (the lock facts of
`C09_locks_match_model`); no package-level variable other than the verif hook; no `go` statement. -/
def DispatchWriteFree (types : List (String × List (String × String))) (writes vars gos : List String)
    (construct : List Ev) : Bool :=
  types.all (fun t => t.2.all (fun f => refOnly f.2)) &&
  writes == constructWrites &&
  insideLock construct == [.makeChan, .makeDone, .storeFlag] &&
  vars.all (· == "VerifYield") &&
  gos.isEmpty

theorem C09_dispatch_layer_write_free :
    DispatchWriteFree Generated.C09ChanLocks.dispatchTypes Generated.C09ChanLocks.sharedWrites
      Generated.C09ChanLocks.pkgVars Generated.C09ChanLocks.goStmts Generated.C09ChanLocks.construct = true := by
  decide

/-- non-vacuity: the predicate rejects a lazily filled per-object cache (a map field written by
`GetMethod`), a write outside the lock, a package-level table and a goroutine started by the glue -/
example : DispatchWriteFree [("ChannelClass", [("channel", "*Channel"), ("methods", "map[string]data.Method")])]
    (constructWrites ++ ["ChannelClass.GetMethod:c.methods[name]"]) ["VerifYield"] [] constructProtocol = false := by decide
example : DispatchWriteFree [("ChannelClass", [("channel", "*Channel")])] constructWrites ["VerifYield"] []
    [.callClose, .makeChan, .lock, .makeDone, .storeFlag, .unlock] = false := by decide
example : DispatchWriteFree [] constructWrites ["VerifYield", "methodTable"] [] constructProtocol = false := by decide
example : DispatchWriteFree [] constructWrites [] ["ChannelCloseMethod.Call"] constructProtocol = false := by decide
example : DispatchWriteFree [("ChannelSendMethod", [("source", "*ChannelClass")])] constructWrites ["VerifYield"] []
    constructProtocol = true := by decide

/-! ### the pinned (pre-fix) protocol violated `no_panic`

`∀ cap prog sched, (ChanRacy.exec (ChanRacy.init cap prog) sched).panicked = false` is **false** for
the protocol the pinned tree had (plain bool `closed`, no lock). The two witnesses below were forced on
the pinned code and killed the interpreter; after fix `C09-close-send-race` the model is `Model.Chan`
and `C09_no_panic` holds at full strength, so none of the other theorems needs a `_partial` form. -/

def racyProg : Nat → List Op
  | 0 => [.send 1]
  | 1 => [.close]
  | 2 => [.close]
  | _ => []

/-- sender reads `closed = false`; closer checks and closes; sender sends → `send on closed channel` -/
theorem C09_prefix_no_panic_counterexample_send_close :
    ¬ ∀ (cap : Nat) (prog : Nat → List Op) (sched : List Nat),
      (Model.ChanRacy.exec (Model.ChanRacy.init cap prog) sched).panicked = false := by
  intro h
  have := h 1 racyProg [0, 1, 1, 0]
  revert this
  decide

/-- two closers both read `closed = false`; both close → `close of closed channel` -/
theorem C09_prefix_no_panic_counterexample_double_close :
    ¬ ∀ (cap : Nat) (prog : Nat → List Op) (sched : List Nat),
      (Model.ChanRacy.exec (Model.ChanRacy.init cap prog) sched).panicked = false := by
  intro h
  have := h 0 racyProg [1, 2, 1, 2]
  revert this
  decide

/-! ### non-vacuity: a concrete run (2 producers, 1 consumer, 1 closer, capacity 1) in which a send
succeeds, one is woken by close and fails, values are received, and a receive returns null -/

def demoProg : Nat → List Op
  | 0 => [.send 1, .send 2]
  | 1 => [.send 7]
  | 2 => [.recv, .recv, .recv]
  | 3 => [.close]
  | _ => []

def demoSched : List Act :=
  [.run 0, .run 0, .run 0, .run 1, .run 3, .run 3, .abort 0, .abort 1, .run 3, .run 2, .run 2, .run 1]

example : (exec (init 1 demoProg) demoSched).hist 0 = [(.send 1, .ok true), (.send 2, .ok false)] := by decide
example : (exec (init 1 demoProg) demoSched).hist 2 = [(.recv, .got ⟨0, 0, 1⟩), (.recv, .null)] := by decide
example : (exec (init 1 demoProg) demoSched).chClosed = true ∧ (exec (init 1 demoProg) demoSched).buf = [] := by decide
example : (Op.close, Res.unit) ∈ (exec (init 1 demoProg) demoSched).hist 3 := by decide
example : (exec (init 1 demoProg) (demoSched.take 6)).pc 3 = .closeSignalled ∧
    (exec (init 1 demoProg) (demoSched.take 6)).holders = [1, 0] := by decide
/-- unbuffered rendezvous is reachable too -/
example : (exec (init 0 demoProg) [.run 0, .hand 0 2]).hist 2 = [(.recv, .got ⟨0, 0, 1⟩)] := by decide

end C09
