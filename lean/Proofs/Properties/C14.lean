import Proofs.Lemmas.Codec
import Proofs.Lemmas.WireRT
import Proofs.Lemmas.WireInv2
import Proofs.Lemmas.WireSound2
import Proofs.Lemmas.SerSem
import Proofs.Lemmas.SerFuel2
import Proofs.Lemmas.DepthGraph
import Proofs.Lemmas.InputFacts
import Proofs.Lemmas.CodecTable
import Generated.C14Recursion
import Generated.C14Input
import Generated.C14Wrappers
import Proofs.Lemmas.NumGuard
import Generated.C14Numbers
import Proofs.Lemmas.ReaderOrder
import Generated.C14Readers
/-!
# C14 — encoders are faithful and decoders total

Property theorems only. `Model.Codec` / `Model.Wire` mirror what origami's
codecs do (thin wrappers over Go's `encoding/hex`, `encoding/base64`,
`net/url`; `std/protowire/parser.go` over Google's `protowire` primitives),
`Spec.Codec` / `Spec.Wire` are the formats (RFC 4648, RFC 3986, the protobuf
encoding guide). Bytes are naturals `< 256` (`IsBytes`).

Decoder totality: every decoder of the model is a total Lean function (no
`partial`, structural recursion, explicit fuel where the Go code loops on a
shrinking slice); `C14_wire_total` shows the fuel is never the reason for an
answer. A Go panic (index out of range) has no counterpart because the model
has no partial indexing: every access is a pattern match with an explicit
`none`/error arm; the correspondence run checks the real functions never panic.
-/
namespace C14
open Model.Codec Proofs.Codec

/-! ## hex -/

/-- **bin2hex is read back by the reference decoder** (`encoding/hex`), for every byte string. -/
theorem C14_hex_roundtrip (bs : Bytes) (h : IsBytes bs) :
    Spec.Codec.hexDecode (bin2hex bs) = some bs := hex_roundtrip bs h

/-- bin2hex emits exactly two lower-case hex digits per byte. -/
theorem C14_hex_lowercase_length (bs : Bytes) (h : IsBytes bs) :
    (bin2hex bs).length = 2 * bs.length ∧ ∀ c ∈ bin2hex bs, Spec.Codec.isLowerHex c = true :=
  ⟨hex_length bs, hex_alphabet bs h⟩

/-- `md5` / `hash` = `hex ∘ H`: for any digest function `H` producing `n` bytes the result is
`2n` lower-case hex digits that decode to the digest. (Which `H` it is, is checked against
`crypto/*` by the correspondence run only.) -/
theorem C14_digest_hex (H : Bytes → Bytes) (n : Nat) (hH : ∀ s, (H s).length = n ∧ IsBytes (H s))
    (s : Bytes) :
    (digestHex H s).length = 2 * n ∧ (∀ c ∈ digestHex H s, Spec.Codec.isLowerHex c = true) ∧
    Spec.Codec.hexDecode (digestHex H s) = some (H s) := by
  obtain ⟨h1, h2⟩ := hH s
  exact ⟨by rw [digestHex, hex_length, h1], hex_alphabet _ h2, hex_roundtrip _ h2⟩

example : bin2hex [0, 255, 65] = [48, 48, 102, 102, 52, 49] := by decide
example : ∃ H : Bytes → Bytes, ∀ s, (H s).length = 16 ∧ IsBytes (H s) :=
  ⟨fun _ => List.replicate 16 7, fun _ => ⟨by simp, by intro b hb; simp at hb; omega⟩⟩

/-! ## base64 -/

/-- **base64_decode inverts base64_encode** on every byte string. -/
theorem C14_base64_roundtrip (bs : Bytes) (h : IsBytes bs) :
    base64Decode (base64Encode bs) = some bs := b64_roundtrip bs h

/-- **The strict RFC 4648 decoder reads base64_encode's output back** as the same bytes
(canonical padding, no stray bits, no line breaks). -/
theorem C14_base64_reference_reads_back (bs : Bytes) (h : IsBytes bs) :
    Spec.Codec.b64Decode (base64Encode bs) = some bs := b64_spec_roundtrip bs h

example : base64Encode [97, 98, 0, 255] = [89, 87, 73, 65, 47, 119, 61, 61] := by decide
example : base64Decode [89, 87, 10, 73, 65, 47, 119, 61, 61] = some [97, 98, 0, 255] := by decide
example : base64Decode [89, 87, 73, 65, 47, 119, 61] = none := by decide

/-! ## URL escaping -/

/-- **urldecode inverts urlencode** on every byte string. -/
theorem C14_urlencode_roundtrip (bs : Bytes) (h : IsBytes bs) : urldecode (urlencode bs) = bs := by
  unfold urldecode urlencode; rw [query_roundtrip bs h]; rfl

/-- **rawurldecode inverts rawurlencode** on every byte string. -/
theorem C14_rawurlencode_roundtrip (bs : Bytes) (h : IsBytes bs) :
    rawurldecode (rawurlencode bs) = bs := by
  unfold rawurldecode rawurlencode; rw [raw_roundtrip bs h]; rfl

/-- **rawurlencode is RFC 3986 percent-encoding**: every byte outside ALPHA / DIGIT / `-._~`
becomes `%XX` (after fix C14-rawurlencode; the pinned code left `$&+=:@` unescaped). -/
theorem C14_rawurlencode_is_rfc3986 (bs : Bytes) (h : IsBytes bs) :
    rawurlencode bs = Spec.Codec.pctEncode bs := raw_is_pctEncode bs h

/-- **urlencode is form encoding**: as above with space ↦ `+`. -/
theorem C14_urlencode_is_form_encoding (bs : Bytes) (h : IsBytes bs) :
    urlencode bs = Spec.Codec.formEncode bs := query_is_formEncode bs h

example : rawurlencode [38, 61, 43, 32] = [37, 50, 54, 37, 51, 68, 37, 50, 66, 37, 50, 48] := by decide
example : urldecode [97, 43, 37, 52, 49] = [97, 32, 65] := by decide
/-- a malformed escape leaves the input unchanged (the wrapper's choice), it is not an error -/
example : urldecode [37, 122, 122] = [37, 122, 122] := by decide

/-! ## protobuf wire format -/
open Model.Wire Spec.Wire Proofs.Wire

theorem max_pos (o : Opts) : 0 < o.max := by
  unfold Opts.max; split <;> omega

/-- varints and tags are read back, whatever follows them -/
theorem C14_wire_varint_roundtrip (v : Nat) (rest : Model.Wire.Bytes) (hv : v < 2 ^ 64) :
    consumeVarint (appendVarint v ++ rest) = some (v, rest) := varint_roundtrip v rest hv

theorem C14_wire_tag_roundtrip (num wt : Nat) (rest : Model.Wire.Bytes) (hn : validNum num) (hw : wt < 8) :
    consumeTag (appendTag num wt ++ rest) = some (num, wt, rest) := tag_roundtrip num wt rest hn hw

/-- **Wire round trip.** For every parse-option set and every field tree that the format can
carry and that agrees with the options (`Valid`: which numbers are messages / packed with which
element type) and stays within the parser's depth budget (`Fits`), parsing the encoding returns
exactly the tree. No bound on depth, width, payload sizes. -/
theorem C14_wire_roundtrip (o : Opts) (t : FT) (hv : Valid o t) (hf : Fits o.max t 0) :
    parse o (encode t) = .ok t := by
  unfold parse
  rw [if_neg (by have := max_pos o; omega)]
  exact (roundtrip_core o t).1 0 _ hv hf (by omega)

/-- **Depth limit honoured.** Whatever the input bytes, a successful parse never returns more
than `MaxDepth` levels of nesting (`MaxDepth ≤ 0` meaning 64). -/
theorem C14_wire_depth_honoured (o : Opts) (d : Model.Wire.Bytes) (t : FT) (h : parse o d = .ok t) :
    nest t ≤ o.max := by
  unfold parse at h
  rw [if_neg (by have := max_pos o; omega)] at h
  have := (good_all o (d.length + 1)).dF d 0 t (by omega) h (by omega)
  omega

/-- **Decoder totality.** On every byte string and every option set the parser answers with a
tree or a format error; the fuel of the model (input length + 1) is never exhausted. -/
theorem C14_wire_total (o : Opts) (d : Model.Wire.Bytes) : parse o d ≠ .error .fuel := by
  unfold parse
  split
  · simp
  · exact (good_all o (d.length + 1)).fF d 0 (by omega)

/-- **Every byte accounted for, only well-formed input accepted.** If the parser answers with a
tree, the input is — from its first to its last byte — a sequence of well-formed fields
(`Spec.Wire.Encodes`: tags with a valid number, varints of at most ten bytes, complete fixed
and length-delimited payloads, groups closed by an end-group tag with the same number, packed
payloads that are whole elements) and the tree is exactly what those fields say under the
options. Nothing is dropped, nothing is invented. (After fix C14-endgroup; the pinned code
returned a tree for `08 01 0c 08 02`, which is no such sequence.) -/
theorem C14_wire_accounts_for_all_bytes (o : Opts) (d : Model.Wire.Bytes) (t : FT)
    (h : parse o d = .ok t) : Encodes o t d := by
  unfold parse at h
  rw [if_neg (by have := max_pos o; omega)] at h
  exact (sound_all o (d.length + 1)).sF d 0 t h

/-- the canonical encoding is a well-formed input in the sense above (non-vacuity of `Encodes`
beyond the examples: by `C14_wire_roundtrip` and the theorem just stated) -/
theorem C14_wire_encode_wellformed (o : Opts) (t : FT) (hv : Valid o t) (hf : Fits o.max t 0) :
    Encodes o t (encode t) := C14_wire_accounts_for_all_bytes o _ t (C14_wire_roundtrip o t hv hf)

/-- the replay of the pinned defect: a stray end-group tag is an error (the pinned code returned
field 1 and dropped the last three bytes) -/
theorem C14_wire_stray_endgroup_rejected : parse {} [8, 1, 12, 8, 2] = .error .endGroup := by rfl

def exOpts : Opts := { msg := [3], packed := [5], elemType := [(5, 0)] }
def exTree : FT :=
  .sub 3 false (.leaf 1 (.varint 150) .nil)
    (.sub 4 true (.leaf 2 (.fixed32 9) .nil) (.leaf 5 (.packed 0 [1, 300]) .nil))
example : Valid exOpts exTree := by
  simp [Valid, exTree, exOpts, ValidLeaf, validNum, encode, leafWt, encVal, appendTag, appendVarint,
    avAux, encElems]
example : Fits exOpts.max exTree 0 := by simp [Fits, exTree, exOpts, Opts.max]
example : parse exOpts (encode exTree) = .ok exTree := by rfl
example : nest exTree = 1 := by rfl
/-- a non-minimal varint (`80 00` = 0) is well-formed input and is accounted for -/
example : parse {} [8, 128, 0] = .ok (.leaf 1 (.varint 0) .nil) := by rfl
/-- the limit bites: two nested messages under `MaxDepth = 2` -/
example : parse { msg := [3], maxDepth := 2 } [26, 2, 26, 0] = .error .maxDepth := by rfl

/-! ## PHP serialize / unserialize -/
open Model.Ser Proofs.Ser Spec.Ser

/-
Statements, after the fixes C14-unserialize, C14-1-serialize-float, C14-3-serialize-keyed-array,
C14-6-unserialize-scalar-keys, C14-7-unserialize-lax-string:
  every value of the model is serialized, and what unserialize reads back is the same PHP value;
  a value is returned only if the reader consumed the (trimmed) input to its last byte.
What is left of the pinned code's laxness is `strings.TrimSpace` (known finding
`unserialize:accepts-malformed:surrounding-whitespace`): the model starts from the trimmed input.
-/

/-- **unserialize inverts serialize**, full strength: for every value — null, booleans, 64-bit
integers, floats (any float text), byte strings of any content, `ArrayValue`s whose slots are
positional, named or a mix (`$a['k'] = v`, sparse integer keys, what `json_decode(…, true)` returns),
`ObjectValue` keyed arrays, empty ones included, nested to any depth — `serialize` answers, and
`unserialize` of the answer is a value that is the same PHP value (`Spec.Ser.sem`: same entries,
same keys, same order). Hypotheses: sizes fit the 64-bit counters (`Sized`) and the value is a
PHP array in the first place, i.e. no array holds two entries under one key (`Distinct`).
(After the fixes: on the pinned code `serialize(1.5)` was `false` and the names of the slots
were replaced by `0..n-1`.) -/
theorem C14_serialize_roundtrip (v : PV) (hs : Sized v) (hd : Distinct v) :
    ∃ bs w, ser v = some bs ∧ unserializeT bs = .value w ∧ sem w = sem v := by
  obtain ⟨bs, hb⟩ := ser_total v
  exact ⟨bs, rb v, hb, unserialize_ser_rb v hs bs hb, sem_rb v hs hd⟩

/-- **exact round trip** on the representations `unserialize` itself produces (`CanonV`: lists
with positional slots only, keyed arrays as non-empty `ObjectValue`s with distinct keys, floats
as any float text): the very same Go-level value comes back, not just the same PHP value. -/
theorem C14_serialize_roundtrip_exact (v : PV) (hc : CanonV v) (bs : Model.Ser.Bytes)
    (hs : ser v = some bs) : unserializeT bs = .value v := unserialize_ser v hc bs hs

/-- **`serialize` answers (never `false`) on every value of the model.** (The pinned code had no
float case; `C14_serialize_float_counterexample` was the negation witness.) -/
theorem C14_serialize_defined (v : PV) : ∃ bs, ser v = some bs := ser_total v

/-- pinned witnesses of the two repaired defects: `serialize(1.5)`, and the slot names of
`json_decode('{"x":1,"y":"z"}', true)` -/
theorem C14_serialize_float_witness :
    ser (.float [49, 46, 53]) = some [100, 58, 49, 46, 53, 59] ∧
    unserializeT [100, 58, 49, 46, 53, 59] = .value (.float [49, 46, 53]) := ⟨rfl, rfl⟩

theorem C14_serialize_keyed_slots_witness :
    ser (.arr (.cons [120] (.int 1) (.cons [121] (.str [122]) .nil))) =
      some [97, 58, 50, 58, 123, 115, 58, 49, 58, 34, 120, 34, 59, 105, 58, 49, 59,
            115, 58, 49, 58, 34, 121, 34, 59, 115, 58, 49, 58, 34, 122, 34, 59, 125] := by rfl

theorem legacyStr_not_value (raw : Model.Ser.Bytes) (v : PV) : legacyStr raw ≠ .value v := by
  unfold legacyStr
  split
  · split
    · simp
    · simp only
      split <;> simp
  · simp

/-- **unserialize consumes all**: a value is returned only if the recursive-descent reader
consumed the (trimmed) input to its last byte — for every input, `s:` included (after fix
C14-7; the pinned code returned whatever lay between the first and the last double quote). -/
theorem C14_unserialize_consumes_all (raw : Model.Ser.Bytes) (v : PV)
    (h : unserializeT raw = .value v) :
    pValue (2 * raw.length + 1) raw = some (v, []) := by
  unfold unserializeT at h
  split at h
  · simp at h
  · split at h
    · rename_i v' hv
      split at hv
      · simp only [parseAll] at hv
        split at hv
        · rename_i w hw
          simp only [Option.some.injEq] at hv
          simp only [Out.value.injEq] at h
          rw [hw, hv, h]
        · simp at hv
      · simp at hv
    · split at h
      · exact absurd h (legacyStr_not_value raw v)
      · simp at h

/-- **array keys are scalars**: every key the entry loop of `parsePhpArray` returns is an int or
a string (after fix C14-6; the pinned code turned any value into a key with `AsString()`). -/
theorem C14_unserialize_keys_are_scalars (fuel n : Nat) (s r : Model.Ser.Bytes) (es : List (PV × PV))
    (h : pEntries fuel n s = some (es, r)) : ∀ e ∈ es, keyOk e.1 = true := by
  induction fuel generalizing n s r es with
  | zero =>
    cases n with
    | zero => simp only [pEntries, Option.some.injEq, Prod.mk.injEq] at h; intro e he; rw [← h.1] at he; simp at he
    | succ n => simp [pEntries] at h
  | succ f ih =>
    cases n with
    | zero => simp only [pEntries, Option.some.injEq, Prod.mk.injEq] at h; intro e he; rw [← h.1] at he; simp at he
    | succ n =>
      rw [pEntries] at h
      cases hk : keyFilter (pValue f s) with
      | none => simp [hk] at h
      | some p1 =>
        obtain ⟨k, s1⟩ := p1
        simp only [hk] at h
        cases h2 : pValue f s1 with
        | none => simp [h2] at h
        | some p2 =>
          obtain ⟨v, s2⟩ := p2
          simp only [h2] at h
          cases h3 : pEntries f n s2 with
          | none => simp [h3] at h
          | some p3 =>
            obtain ⟨es', s3⟩ := p3
            simp only [h3, Option.some.injEq, Prod.mk.injEq] at h
            intro e he
            rw [← h.1] at he
            simp only [List.mem_cons] at he
            rcases he with rfl | he
            · exact keyFilter_ok hk
            · exact ih n s2 s3 es' h3 e he

/-- **unserialize is total**: the reader of the model is a total function and its fuel
(`2·len + 1`, what `parseAll` supplies) is never the reason for an answer — any larger fuel
gives the same result. -/
theorem C14_unserialize_total (s : Model.Ser.Bytes) (k : Nat) :
    pValue (2 * s.length + 1 + k) s = pValue (2 * s.length + 1) s := fuel_irrelevant s k

/-- replays of the repaired lax inputs: a string with a wrong length and an array as a key are
`false` now -/
theorem C14_unserialize_lax_string_rejected :
    unserializeT [115, 58, 53, 58, 34, 97, 98, 34, 59] = .false := by rfl

theorem C14_unserialize_nonscalar_key_rejected :
    unserializeT [97, 58, 49, 58, 123, 97, 58, 48, 58, 123, 125, 105, 58, 49, 59, 125] = .false := by rfl

example : CanonV (.arr (.cons [] (.str [97, 34, 59]) (.cons [] (.obj (.cons [107] (.int (-9223372036854775808)) .nil)) .nil))) := by
  simp [CanonV, CanonItems, CanonProps, PL.len, maxInt, Proofs.Ser.PL.keys]
example : CanonV (.float [45, 49, 46, 53, 69, 43, 50, 53]) := by
  refine ⟨by rfl, by decide⟩
/-- a mixed `ArrayValue` (`[7, 'k' => 1.5, 6 => []]`) satisfies the hypotheses of the full theorem -/
example : Sized (.arr (.cons [] (.int 7) (.cons [107] (.float [49, 46, 53]) (.cons [54] (.arr .nil) .nil)))) ∧
    Distinct (.arr (.cons [] (.int 7) (.cons [107] (.float [49, 46, 53]) (.cons [54] (.arr .nil) .nil)))) := by
  refine ⟨?_, ?_⟩
  · simp [Sized, SizedL, PL.len, maxInt]
    rfl
  · simp [Distinct, DistinctL, semItems, SL.keys, slotSem, keyOf]
    decide
example : ser (.arr (.cons [] (.str [97]) (.cons [] (.str [98]) .nil))) =
    some [97, 58, 50, 58, 123, 105, 58, 48, 59, 115, 58, 49, 58, 34, 97, 34, 59, 105, 58, 49, 59, 115, 58, 49, 58, 34, 98, 34, 59, 125] := by rfl

/-! ## regenerated facts (tie between the models above and the source)

`extract/c14` regenerates, on every run, three tables from the anchored sources (`Generated.C14Recursion`,
`Generated.C14Input`, `Generated.C14Wrappers`). Each block below has: what a well-formed table guarantees, proved for
*every* table (unbounded); the obligation that the regenerated table is well-formed / is the table the hand-written model
embodies (`decide`, re-checked on every run, so a source change that invalidates the model breaks the obligation that names
it); a negation witness: a concrete ill-formed table of the shape of a realistic mistake, and what breaks. -/

section Tie
open Model.DepthGraph Proofs.DepthGraph

/-- `decide`, and when the regenerated table no longer satisfies the statement, an error that names the obligation -/
macro "obligation " msg:str : tactic => `(tactic| first | decide | fail $msg)

/-! ### recursion depth -/

/-- **A well-formed depth graph bounds the recursion, for every input.** Whatever group of mutually recursive functions,
whatever limit: if every recursive call hands on `depth + literal`, no cycle of calls keeps the depth unchanged, every cycle
passes a limit test and the group is entered at a literal depth, then no call stack of the group holds more than
`(max limit start + largest increment + 1) · (functions + 1)` frames. -/
theorem C14_depth_graph_bounds_recursion (g : Graph) (hwf : g.WF = true) (lim : Nat) (st : List Frame)
    (hs : Stack g lim st) : st.length ≤ g.bound lim := stack_bounded g hwf lim st hs

/-- the counter counts: under a well-formed graph the innermost depth bounds the stack above it -/
theorem C14_depth_counter_counts (g : Graph) (hwf : g.WF = true) (lim : Nat) (st : List Frame) (hs : Stack g lim st) :
    ∃ f d rest, st = ⟨f, d⟩ :: rest ∧ d ≤ max lim g.maxStart + g.maxInc ∧
      st.length ≤ (d + 1) * (g.fns.length + 1) := by
  obtain ⟨f, d, rest, h1, h2, _, h4⟩ := stack_inv g hwf lim st hs
  exact ⟨f, d, rest, h1, h2, by omega⟩

/-- **Obligation**: every recursive group of the codecs that carries a depth counter (today: the wire parser) is
well-formed, and the translator understood every call site, test and entry it met. -/
theorem C14_depth_graphs_wellformed :
    Generated.C14Recursion.graphs.all (·.WF) = true ∧ Generated.C14Recursion.shapeNotes = [] := by obligation "C14_depth_graphs_wellformed: a recursive codec function hands on a depth the discipline does not allow (a call that keeps the depth on a cycle, a literal or unreadable depth argument, a cycle without a limit test, an unreadable test) — see Generated/C14Recursion.lean"

/-- **Obligation**: the depth graph of `std/protowire/parser.go` is the one `Model.Wire` embodies — same entry tests
(`>=`), same increment at each of the four recursive call sites, entered at 0, default limit 64 when `MaxDepth <= 0`. -/
theorem C14_wire_depth_graph_is_model :
    (Generated.C14Recursion.graphs.find? (·.file == "std/protowire/parser.go")).map Graph.shape = some wireGraph.shape := by
  obligation "C14_wire_depth_graph_is_model: the depth graph of std/protowire/parser.go (entry tests, depth argument of the four recursive calls, start depth, default limit) is no longer the one Model.Wire embodies"

/-- recursion without a counter (the serialize reader / writer, the JSON layers, the value converters of the protowire
class): bounded by the size of the input or of the value only; none may appear where there was none -/
def knownUnlimited : List String :=
  ["std/php/json_decode.go", "std/php/serialize.go", "std/php/unserialize.go", "std/protowire/helpers.go",
   "std/protowire/serialize_method.go", "std/serializer/json/json_serializer.go"]

/-- **Obligation**: no codec file gained a recursion without a depth counter (in particular the wire parser did not lose its own) -/
theorem C14_uncounted_recursions_known :
    Generated.C14Recursion.unlimitedFiles.all (knownUnlimited.contains ·) = true := by obligation "C14_uncounted_recursions_known: a codec file has a recursion without a depth counter that it did not have before"

/-- the budget `Spec.Wire.Fits` (hypothesis of `C14_wire_roundtrip`) is what the model's depth graph lets through -/
theorem C14_wire_budget_is_graph (lim : Nat) (t : Model.Wire.FT) (d : Nat) :
    FitsVia wireGraph lim t d ↔ Spec.Wire.Fits lim t d := fitsVia_wire lim t d

/-- **Every well-formed three-function graph honours the limit** on field trees: a tree it lets through from the top has
at most `limit + 1` levels (`limit` when the tests are `>=`, as `C14_wire_depth_honoured` shows for the model's graph). -/
theorem C14_wire_depth_from_graph (g : Graph) (hwf : g.WF = true) (lim : Nat) (t : Model.Wire.FT)
    (h : FitsVia g lim t 0) : Spec.Wire.nest t ≤ lim + 1 := by
  cases fitsVia_nest g hwf lim t 0 h with
  | inl h0 => omega
  | inr h0 => omega

/-- the limit the parser works with is the default rule of the graph applied to `MaxDepth` -/
theorem C14_wire_default_limit (o : Model.Wire.Opts) :
    o.max = (Default.mk "ParseRawFields" "le" 0 64).apply o.maxDepth := by
  unfold Model.Wire.Opts.max Default.apply
  by_cases h : o.maxDepth ≤ 0 <;> simp [h]

/-- **Negation witness** (the shape of seeded change `C14-group-depth-not-counted`): with `consumeGroup` handing `depth`
unchanged to `consumeFieldValue` the graph has a cycle that keeps the depth; it is not well-formed, under limit 1 it lets
`n` nested groups through for every `n`, and its call stacks grow without bound. -/
theorem C14_flat_group_cycle_unbounded :
    flatGroupGraph.WF = false ∧ flatGroupGraph.noFlatCycle = false ∧
    (∀ n, FitsVia flatGroupGraph 1 (groups n) 0 ∧ Spec.Wire.nest (groups n) = n) ∧
    (∀ n, ∃ st, Stack flatGroupGraph 1 st ∧ n < st.length) := by
  refine ⟨by decide, by decide, fun n => ⟨flat_fits_all n, nest_groups n⟩, fun n => ?_⟩
  obtain ⟨rest, hs, hn⟩ := flat_stack_grows n
  exact ⟨_, hs, by simp; omega⟩

/-- a parser without an entry test in `consumeGroup` (mutant) is not well-formed either: the group cycle passes no test -/
example : ({ wireGraph with fns := [⟨"parseFields", some .ge, "opts.MaxDepth"⟩, ⟨"consumeFieldValue", none, ""⟩,
    ⟨"consumeGroup", none, ""⟩] } : Graph).cyclesTested = false := by decide
/-- nor one whose test is `==` -/
example : ({ wireGraph with fns := [⟨"parseFields", some .other, "opts.MaxDepth"⟩, ⟨"consumeFieldValue", none, ""⟩,
    ⟨"consumeGroup", some .ge, "opts.MaxDepth"⟩] } : Graph).WF = false := by decide
/-- non-vacuity: the model's graph is well-formed, has stacks, and its bound under the default limit is 264 frames -/
example : wireGraph.WF = true ∧ wireGraph.bound 64 = 264 := by decide
example : Stack wireGraph 2 [⟨1, 1⟩, ⟨2, 0⟩, ⟨1, 0⟩, ⟨0, 0⟩] := by
  have h0 : Stack wireGraph 2 [⟨0, 0⟩] := Stack.entry ⟨"ParseRawFields", 0, .const 0⟩ 0 (by simp [wireGraph]) rfl (by decide)
  have h1 := Stack.call ⟨0, 1, .plus 0, none⟩ 0 0 0 [] h0 (by simp [wireGraph]) rfl rfl (by decide)
  have h2 := Stack.call ⟨1, 2, .plus 0, none⟩ 1 0 0 _ h1 (by simp [wireGraph]) rfl rfl (by decide)
  exact Stack.call ⟨2, 1, .plus 1, none⟩ 2 0 1 _ h2 (by simp [wireGraph]) rfl rfl (by decide)

/-! ### how the wire parser handles its input -/

open Model.InputFacts Proofs.InputFacts

/-- **A tested consume site is total**: with the test `n <= 0` (or `n < 0`) after it, a `Consume*` call followed by
`data[n:]` never slices out of range and always shortens the input, whatever the primitive returns within its contract. -/
theorem C14_consume_guard_total (s : ConsumeSite) (hs : s.ok = true) (n : Int) (len : Nat) (h0 : n ≠ 0) (hl : n ≤ len) :
    consume s.guard n len ≠ .panic ∧ ∀ r, consume s.guard n len = .ok r → r < len := consume_safe s hs n len h0 hl

/-- **Obligation**: every `Consume*` call of the wire parser is followed by such a test (nine sites today). -/
theorem C14_wire_consume_sites_guarded :
    Generated.C14Input.consumeSites.all (·.ok) = true ∧ Generated.C14Input.consumeSites ≠ [] := by obligation "C14_wire_consume_sites_guarded: a Consume* call of the wire parser is not followed by a test `n <= 0` before its length is used"

/-- **Negation witness** (seeded change `C14-packed-fixed-trailing-bytes` dropped the test; a mutant wrote `n == 0`):
a malformed element, for which the primitive answers -1, is sliced with a negative bound. -/
theorem C14_consume_unguarded_panics : consume "none" (-1) 4 = .panic ∧ consume "eq0" (-1) 4 = .panic :=
  consume_unguarded_panics

/-- a loop that runs while the input is non-empty can only end, other than by `return`, with every byte consumed -/
theorem C14_loop_exhausts_input (rem : Nat) (h : exitsWith "nonempty" rem = true) : rem = 0 := nonempty_exits_empty rem h

/-- **Obligation**: the five loops over input bytes run `for len(data) > 0`; the message loop then answers, the group loop
reports the missing end tag (`loopF _ [] = ok`, `loopG _ [] = unexpectedEnd`, the `unpack*` loops of the model). -/
theorem C14_wire_loops_exhaust_input :
    loopsOk Generated.C14Input.loops = true ∧ Generated.C14Input.loops ≠ [] := by obligation "C14_wire_loops_exhaust_input: a loop over the input of the wire parser no longer runs `for len(data) > 0` / ends the way the model does"

/-- negation witness (the same seeded change wrote `for len(data) >= 4`): such a loop may stop with bytes left -/
example : exitsWith "len(data) >= 4" 3 = true := by decide

/-- **Obligation**: an end-group tag is an error in a message's field list and closes a group only when the numbers
match (`loopF`: `endGroup`; `loopG`: `mismatch` / the fields) -/
theorem C14_wire_endgroup_handling :
    Generated.C14Input.endGroups.map (fun e => (e.idx, e.action)) = Model.InputFacts.endGroups := by obligation "C14_wire_endgroup_handling: what a field loop does with an end-group tag changed (message list: error; group: close only when the numbers match)"

/-- **Obligation**: the wire types the parser dispatches on, what each arm consumes, the refusing default arms, the
order in which the length-delimited arm asks the options, and the values of the `Wire*` constants are the model's. -/
theorem C14_wire_dispatch_is_model :
    Generated.C14Input.dispatch.map (fun d => (d.role, d.cases, d.dflt)) =
      [("field", fieldDispatch, "error"), ("packed", packedDispatch, "error")] ∧
    Generated.C14Input.lenOrder = Model.InputFacts.lenOrder ∧
    Generated.C14Input.wireConsts.map (·.2) = [0, 1, 2, 3, 4, 5] := by obligation "C14_wire_dispatch_is_model: the wire types the parser dispatches on, what an arm consumes, a default arm, the order of the packed / message options or a Wire* constant changed"

/-- the model refuses every wire type outside the table … -/
theorem C14_wire_other_types_refused (o : Model.Wire.Opts) (rf : Model.Wire.Bytes → Nat → Except Model.Wire.Err Model.Wire.FT)
    (rg : Model.Wire.Bytes → Nat → Nat → Except Model.Wire.Err (Model.Wire.FT × Model.Wire.Bytes))
    (num wt : Nat) (data : Model.Wire.Bytes) (depth : Nat) (h : wt ∉ fieldDispatch.map (·.1)) :
    Model.Wire.valueWith o rf rg num wt data depth = .error .wireType :=
  value_refuses_other_types o rf rg num wt data depth h

/-- … and every packed element type outside its table -/
theorem C14_wire_other_packed_types_refused (et : Nat) (data : Model.Wire.Bytes) (h : et ∉ packedDispatch.map (·.1)) :
    Model.Wire.unpackPacked et data = .error .packedType := packed_refuses_other_types et data h

/-! ### how the serialize reader handles its input -/

/-- **Obligation**: the reader's tag switch, the prefix gate of `Call`, the accepted key types are the model's
(`pValue`, `knownPrefix`, `keyOk`), and every tag the writer emits is one the reader knows, `O:` excepted. -/
theorem C14_unserialize_dispatch_is_model :
    Generated.C14Input.tagSwitches.map (fun t => (t.tags, t.dflt)) = [(readerTags, "reject"), (boolTags, "reject")] ∧
    Generated.C14Input.gate = Model.InputFacts.gate ∧
    Generated.C14Input.keyTypes = Model.InputFacts.keyTypes ∧
    writerCovered Generated.C14Input.writerTags readerTags writerOnly = true := by obligation "C14_unserialize_dispatch_is_model: the reader's tag switch, the prefix gate of Call, the accepted key types or the writer's tags changed"

/-- the model refuses every first byte that is not a tag of the table, and its gate is the table's -/
theorem C14_unserialize_other_tags_refused (fuel c : Nat) (rest : Model.Ser.Bytes)
    (h : [c] ∉ readerTags.map bytesOf) : Model.Ser.pValue (fuel + 1) (c :: rest) = none :=
  reader_refuses_other_tags fuel c rest h

theorem C14_unserialize_gate_is_table (s : Model.Ser.Bytes) :
    Model.Ser.knownPrefix s = (Model.InputFacts.gate.map bytesOf).any (fun p => Model.Ser.startsWith p s) :=
  gate_is_knownPrefix s

/-- **A bounded length cannot wrap**: once a declared length was held against the input length, `begin + n` stays in
int64 and the access after the `end+2 > len` test is in range. -/
theorem C14_bounded_length_is_safe (len b n : Nat) (hlen : len < 4611686018427387903) (hb : b ≤ len) :
    strAccess true len b n ≠ .panic := strAccess_bounded_safe len b n hlen hb

/-- **Obligation**: every integer read from the input that is added to a position, sizes an allocation or indexes the
input is first rejected when it exceeds the input length. -/
theorem C14_unserialize_lengths_bounded : Generated.C14Input.lengthReads.all (·.ok) = true := by obligation "C14_unserialize_lengths_bounded: an integer read from the input is added to a position / sizes an allocation without having been held against the input length"

/-- **Negation witness** (seeded change `C14-unserialize-length-overflow` dropped `n > len(s)`): a length near 2^63 wraps
`begin + n` negative, the remaining test passes, `s[end]` panics. -/
theorem C14_unbounded_length_panics : strAccess false 10 5 9223372036854775803 = .panic := strAccess_unbounded_panics

/-- **A covered index is in range** wherever the test in force holds. -/
theorem C14_covered_index_in_range (s : IndexSite) (hc : s.covered = true) (base len h : Nat) (hr : s.room = some h)
    (ht : base + h ≤ len) : base + s.need ≤ len := covered_in_range s hc base len h hr ht

/-- **Obligation**: every index and slice the reader takes of its input is covered by a bounds test in force at that point,
and the translator could read every index expression and every test it met in the two decoders. -/
theorem C14_unserialize_index_sites_covered :
    Generated.C14Input.indexSites.all (·.covered) = true ∧ Generated.C14Input.indexSites ≠ [] ∧
    Generated.C14Input.shapeNotes = [] := by obligation "C14_unserialize_index_sites_covered: an index or slice of the input in std/php/unserialize.go is not covered by a bounds test in force at that point (or the translator could not read one) — see indexSites / shapeNotes in Generated/C14Input.lean"

/-- negation witness: `s[end+1]` under a test that only guarantees `end + 1 <= len` -/
example : (IndexSite.mk "parsePhpValue" "s[end+1]" "end" 2 (some 1)).covered = false ∧
    ∃ base len, base + 1 ≤ len ∧ ¬ (base + 1 < len) := uncovered_out_of_range

/-- **Obligation**: the float writer spells a float through `strconv.FormatFloat(…, -1, 64)` only (the shortest digits that
read back, which is what the lexeme model of `PV.float` trusts) and the three literal spellings. -/
theorem C14_serialize_float_text_producers :
    Generated.C14Input.floatCalls.all (Model.InputFacts.floatCalls.contains ·) = true ∧
    Generated.C14Input.floatLits = Model.InputFacts.floatLits := by obligation "C14_serialize_float_text_producers: the float writer produces text through something else than strconv.FormatFloat(…, -1, 64) and the three literal spellings"

/-! ### the thin wrappers and the JSON text producers -/

open Model.CodecTable Proofs.CodecTable

/-- **Every accepted pair of rows is a round trip**, for every byte string. -/
theorem C14_wrapper_pairs_roundtrip (enc dec : Wrapper) (hp : pairOK enc dec = true)
    (fe fd : Model.Codec.Bytes → Model.CodecTable.Out) (he : interp enc = some fe) (hd : interp dec = some fd)
    (bs : Model.Codec.Bytes) (hb : Model.Codec.IsBytes bs) :
    ∃ mid, fe bs = .bytes mid ∧ fd mid = .bytes bs := pair_roundtrip enc dec hp fe fd he hd bs hb

/-- the rows the model was written from denote the functions the round-trip theorems above are about -/
theorem C14_wrapper_rows_denote_model :
    (find modelRows "base64_encode").bind interp = some (fun s => .bytes (base64Encode s)) ∧
    (find modelRows "base64_decode").bind interp = some (fun s => match base64Decode s with
      | some r => .bytes r
      | none => .false) ∧
    (find modelRows "urlencode").bind interp = some (fun s => .bytes (urlencode s)) ∧
    (find modelRows "urldecode").bind interp = some (fun s => .bytes (urldecode s)) ∧
    (find modelRows "rawurlencode").bind interp = some (fun s => .bytes (rawurlencode s)) ∧
    (find modelRows "rawurldecode").bind interp = some (fun s => .bytes (rawurldecode s)) ∧
    (find modelRows "bin2hex").bind interp = some (fun s => .bytes (bin2hex s)) := model_rows_denote

/-- **Obligation**: the byte codecs call the library functions the model re-models, in that order, and answer a library
error the way the model says (`false` / the input unchanged); the three encoder / decoder pairs are accepted pairs. -/
theorem C14_wrappers_are_model :
    Generated.C14Wrappers.wrappers = modelRows ∧ Generated.C14Wrappers.shapeNotes = [] ∧
    (match find Generated.C14Wrappers.wrappers "base64_encode", find Generated.C14Wrappers.wrappers "base64_decode" with
     | some e, some d => pairOK e d | _, _ => false) = true ∧
    (match find Generated.C14Wrappers.wrappers "urlencode", find Generated.C14Wrappers.wrappers "urldecode" with
     | some e, some d => pairOK e d | _, _ => false) = true ∧
    (match find Generated.C14Wrappers.wrappers "rawurlencode", find Generated.C14Wrappers.wrappers "rawurldecode" with
     | some e, some d => pairOK e d | _, _ => false) = true := by obligation "C14_wrappers_are_model: a byte codec (base64_*, url*, rawurl*, bin2hex, md5) calls other library functions, in another order, or answers a library error differently than Model.Codec says"

/-- **Negation witness** (the pinned `rawurlencode` defect had this shape): an encoder row that leaves `+` for a space
paired with the path decoder is not accepted, and a space does not come back. -/
theorem C14_wrapper_mismatched_pair :
    let enc : Wrapper := ⟨"rawurlencode", ["url.QueryEscape(_)"], "none"⟩
    let dec : Wrapper := ⟨"rawurldecode", ["url.PathUnescape(_)"], "input"⟩
    pairOK enc dec = false ∧
    ∃ fe fd, interp enc = some fe ∧ interp dec = some fd ∧ fe [32] = .bytes [43] ∧ fd [43] = .bytes [43] :=
  mismatched_pair

/-- **Obligation**: `hash()` maps the four algorithm names the correspondence run compares with `crypto/*` to their
constructors and writes the digest through `hex.EncodeToString` (`digestHex`). -/
theorem C14_hash_algorithms :
    hashModel.all (fun p => Generated.C14Wrappers.hashAlgos.lookup p.1 == some p.2) = true ∧
    Generated.C14Wrappers.hashOut = ["hex.EncodeToString(_)"] := by obligation "C14_hash_algorithms: hash() maps md5 / sha1 / sha256 / sha512 to another constructor or no longer writes the digest through hex.EncodeToString"

/-- **Obligation**: every piece of JSON text the serializer emits is produced by `encoding/json` (member keys included —
seeded change `C14-json-key-go-quote` quoted keys with `strconv.AppendQuote`), HTML escaping is off, and the two decode
routes reject what `json.Valid` rejects before anything else. -/
theorem C14_json_text_producers :
    Generated.C14Wrappers.jsonProducers.all (fun p => p.2.all (jsonLibs.contains ·)) = true ∧
    Generated.C14Wrappers.jsonProducers ≠ [] ∧
    Generated.C14Wrappers.escapeHTML = ["false"] ∧
    Generated.C14Wrappers.validGates.lookup "UnmarshalValue" = some true ∧
    Generated.C14Wrappers.validGates.lookup "goJsonDecode" = some true := by obligation "C14_json_text_producers: JSON text is produced by something else than encoding/json, HTML escaping is not switched off, or a decode route lost its json.Valid gate"

/-! ### The float → int step of the number decoders (`Model.NumGuard`)

`convertJsonNumber` reads an int64 literal exactly and everything else through float64; the float becomes an int behind a
range guard and an integrality test. `Generated.C14Numbers.floatToInt` lists every such conversion of the decoders with the
guard as written (constants as the float64 they compare as: `math.MaxInt64` is `2^63`). Which float a text denotes is
`strconv`'s — judged by the harness with exact arithmetic (`harness/c14/jsonnum.go`). -/
section Numbers
open Model.NumGuard

/-- **A well-formed guard never wraps**: for every site whose lower test is `≥ c` with `c ≥ -2^63` (or `> c`, `c ≥ -2^63-1`),
whose upper test is `< c` with `c ≤ 2^63` (or `≤ c`, `c < 2^63`) and which tests integrality, for every float (integral,
fractional, ±Inf, NaN) and whatever the machine answers for a conversion outside int64: an int answer is the float's own
value, and it is an int64. -/
theorem C14_json_number_int_guard_sound (hw : Hw) (s : Site) (h : s.WF = true) (f : Fl) (n : Int)
    (hc : s.convert hw f = .int n) : f = .int n ∧ InRange n := convert_sound hw h hc

/-- **A tight guard loses nothing**: every integral float within int64 becomes that int. -/
theorem C14_json_number_int_guard_complete (hw : Hw) (s : Site) (h : s.Tight = true) (n : Int) (hr : InRange n) :
    s.convert hw (.int n) = .int n := convert_complete hw h hr

/-- **`convertJsonNumber` as written**: the answer is the int `n` iff the text is the int64 literal `n`, or it is not an
int64 literal and the float read from it is the integral float `n` with `-2^63 ≤ n < 2^63` — on every machine. -/
theorem C14_json_number_decode_spec (hw : Hw) (lit : Option Int) (f : Fl) (n : Int) :
    pinned.decode hw lit f = .int n ↔ lit = some n ∨ (lit = none ∧ f = .int n ∧ InRange n) := by
  cases lit with
  | some i => simp [Site.decode]
  | none =>
    simp only [Site.decode, false_or, true_and, reduceCtorEq]
    constructor
    · exact convert_sound hw pinned_wf
    · rintro ⟨rfl, hr⟩
      exact convert_complete hw pinned_tight hr

example : pinned.decode amd64 none (.int 9223372036854775808) = .float (.int 9223372036854775808) := by decide
example : pinned.decode amd64 none (.int (-9223372036854775808)) = .int (-9223372036854775808) := by decide
example : pinned.decode arm64 none (.frac 9007199254740990) = .float (.frac 9007199254740990) := by decide
example : pinned.decode amd64 (some 9007199254740993) (.int 9007199254740992) = .int 9007199254740993 := by decide

/-- the seeded guard `f >= math.MinInt64 && f <= math.MaxInt64 && f == math.Trunc(f)`: `math.MaxInt64` compares as `2^63` -/
def leBoundSite : Site := { lo := .ge (-9223372036854775808), hi := .le 9223372036854775808, integral := .trunc }

/-- **Negation witness** (seeded change `C14-json-number-int-bound`): with `≤ 2^63` as the upper test the guard is not
well-formed, and on *every* machine the float `2^63` is answered by an int that is not `2^63` (on amd64 by `-2^63`: the
sign flips). The round-trip test alone (no range test) is no protection either: on a saturating machine `2^63` passes it
and becomes `2^63 - 1`. -/
theorem C14_json_number_le_bound_wraps :
    leBoundSite.WF = false ∧
    (∀ hw : Hw, ∃ n, leBoundSite.convert hw (.int 9223372036854775808) = .int n ∧ n ≠ 9223372036854775808) ∧
    leBoundSite.convert amd64 (.int 9223372036854775808) = .int (-9223372036854775808) ∧
    ({ lo := .none, hi := .none, integral := .cast } : Site).convert arm64 (.int 9223372036854775808)
      = .int 9223372036854775807 := by
  refine ⟨by decide, ?_, by decide, by decide⟩
  intro hw
  refine ⟨hw.conv 9223372036854775808, ?_, ?_⟩
  · have : ¬ InRange 9223372036854775808 := by decide
    simp [Site.convert, leBoundSite, Lo.holds, Hi.holds, Integral.holds, Fl.ge, Fl.le, toInt, this]
  · have := hw.conv_range 9223372036854775808
    unfold InRange maxIntP1 at this
    omega

/-- conversions without a range guard that are known and why they are harmless: `convertGoValue`'s `case float64` arm is
dead — `goJsonDecode` decodes with `UseNumber`, every number arrives as a `json.Number` -/
def knownUnguarded : List String := ["convertGoValue"]

/-- **Obligation**: every float → int conversion of the decoders sits behind a well-formed guard (so
`C14_json_number_int_guard_sound` applies to it), except the known dead arm; no unreadable bound. -/
theorem C14_json_float_to_int_guards :
    (Generated.C14Numbers.floatToInt.filter (fun s => !s.WF)).all (fun s => knownUnguarded.contains s.fn) = true ∧
    Generated.C14Numbers.shapeNotes = [] := by obligation "C14_json_float_to_int_guards: a decoder converts a float64 to an int behind a guard that lets a value outside int64 through (an upper test `<=` against a constant that compares as 2^63 such as math.MaxInt64, a missing bound, no integrality test) — see Generated/C14Numbers.lean"

/-- **Obligation**: the guard of `convertJsonNumber` is the one `Model.NumGuard.pinned` writes down (`≥ -2^63`, `< 2^63`,
round-trip cast), i.e. `C14_json_number_decode_spec` is about the code. -/
theorem C14_json_number_guard_is_model :
    (Generated.C14Numbers.floatToInt.filter (fun s => s.lo != .none || s.hi != .none)).map (·.shape) = [pinned.shape] := by obligation "C14_json_number_guard_is_model: the range guard of convertJsonNumber (operators, constants as float64, integrality test) is no longer the one Model.NumGuard.pinned embodies"

end Numbers

/-! ### round 7: the order of the readers of one input (exact reader vs. compatibility branch)

`unserialize` has two readers of a text that starts with `s:`: the exact recursive-descent reader, and a compatibility
branch that looks between the first and the last double quote for the legacy wrappers `__origami_a:<json>` /
`__origami_o:<json>`. `serialize` writes a string verbatim, so the wrapper grammar is embedded in the value space of the
exact format: the serialization of the *string* `__origami_a:[]` is, byte for byte, a legacy wrapper. Which reader is
asked first decides whether `unserialize ∘ serialize` is the identity. `Model.ReaderOrder.decode` is "readers tried in
order"; the statements below are about every list of readers, every legacy reader, every value. -/
section Readers
open Model.ReaderOrder Proofs.ReaderOrder

/-- **Precedence, generic** (any text type, any answer type, any readers): if the exact reader `r1` reads every encoder
output back (`r1 (enc v) = some (ok v)`), then the decoder that tries `pre`, then `r1`, then `post` inverts the encoder
on every value **iff** the readers placed before `r1` are, on every encoder output, silent or already give the right
answer. In particular (`pre = []`) nothing placed AFTER the exact reader can break the round trip, and a reader placed
BEFORE it breaks it exactly on the values whose encoding it claims. -/
theorem C14_reader_precedence {T R V : Type} (enc : V → T) (ok : V → R) (r1 : T → Option R)
    (pre post : List (T → Option R)) (d : R) (h1 : ∀ v, r1 (enc v) = some (ok v)) :
    (∀ v, decode (pre ++ r1 :: post) d (enc v) = ok v) ↔ ∀ v, decode pre (ok v) (enc v) = ok v := by
  constructor
  · intro h v
    have := h v
    rwa [decode_append, decode_cons_some _ _ _ _ _ (h1 v)] at this
  · intro h v
    rw [decode_append, decode_cons_some _ _ _ _ _ (h1 v)]
    exact h v

example : decode [fun (n : Nat) => if n = 3 then some 0 else none, fun n => some (n + 1)] 9 3 = 0 ∧
    decode [fun (n : Nat) => if n = 3 then some 0 else none, fun n => some (n + 1)] 9 4 = 5 := by decide

/-- **the model of `Call` is its three readers in the pinned order**: empty test, gated exact reader, compatibility
branch — so the round-trip theorems about `unserializeT` are theorems about this order. -/
theorem C14_unserialize_is_ordered_readers (raw : Model.Ser.Bytes) :
    unserializeT raw = decode [emptyR, exactR, legacyR] .false raw := unserializeT_is_decode raw

/-- **unserialize inverts serialize whatever follows the exact reader**: for every list of reader rows that satisfies
the order obligation `orderOK` (first row = the exact reader behind the model's gate), for EVERY interpretation `sn` of
the other rows (any legacy branch, any JSON reader, final or falling through) and every value of the model, the
decoder built from the rows reads `serialize v` back as the same PHP value. The compatibility branch is not modelled —
it does not need to be: behind the exact reader it is never asked about a serializer output. -/
theorem C14_unserialize_roundtrip_any_later_reader (rs : List ReaderStep) (hok : orderOK rs = true)
    (sn : ReaderStep → Model.Ser.Bytes → Option Model.Ser.Out) (v : PV) (hs : Sized v) (hd : Distinct v) :
    ∃ bs w, ser v = some bs ∧ decode (emptyR :: rs.map (denote sn)) .false bs = .value w ∧ sem w = sem v := by
  obtain ⟨bs, w, hb, hu, hw⟩ := C14_serialize_roundtrip v hs hd
  obtain ⟨rest, hr⟩ := map_denote_of_ok sn rs hok
  exact ⟨bs, w, hb, by rw [hr]; exact exact_first_decides rest bs w hu, hw⟩

example : orderOK pinned = true := by decide

/-- **Obligation**: the reader attempts of `UnserializeFunction.Call`, in source order, are the exact reader first and
only literal-sniffing branches after it; they are the rows the model embodies (`Model.ReaderOrder.pinned`: gate, the
two wrapper literals, the compatibility branch final); no statement of `Call` reads the text outside these attempts. -/
theorem C14_unserialize_reader_order :
    orderOK Generated.C14Readers.readers = true ∧
    Generated.C14Readers.readers = pinned ∧
    Generated.C14Readers.shapeNotes = [] := by obligation "C14_unserialize_reader_order: the order / kind of the reader attempts in UnserializeFunction.Call changed — a literal-sniffing compatibility branch (legacy wrapper, marker, prefix heuristics) now runs before the exact reader, or a reader was added — see Generated/C14Readers.lean; a value whose serialization carries the marker no longer round-trips"

/-- the in-band literals the decoders compare their input with (type tags, float words, the two legacy wrappers, the
JSON words) -/
def knownMarkers : List String := [
  "std/php/unserialize.go: -INF", "std/php/unserialize.go: INF", "std/php/unserialize.go: N;", "std/php/unserialize.go: NAN",
  "std/php/unserialize.go: __origami_a:", "std/php/unserialize.go: __origami_o:", "std/php/unserialize.go: a:",
  "std/php/unserialize.go: b:", "std/php/unserialize.go: d:", "std/php/unserialize.go: i:", "std/php/unserialize.go: s:",
  "std/serializer/json/json_serializer.go: false", "std/serializer/json/json_serializer.go: null",
  "std/serializer/json/json_serializer.go: true"]

/-- **Obligation**: no decoder compares its input with a literal (prefix, magic word, wrapper marker) beyond the known
ones — a new in-band marker is a second grammar inside the value space and needs its own precedence argument. -/
theorem C14_decoder_markers_known :
    Generated.C14Readers.markers.all (fun m => knownMarkers.contains m) = true := by obligation "C14_decoder_markers_known: a decoder compares its input with a string literal that is not in the known list (a new in-band marker / sniffing branch) — see Generated/C14Readers.lean"

/-- **Negation witness (the seeded order)**: with the compatibility branch asked before the exact reader, the string
`__origami_a:[]` — serialized as `s:14:"__origami_a:[]";` — is claimed by the wrapper branch, while the pinned order
returns the string; so the sniff-first decoder does not invert `serialize` on strings, and the rows of that order fail
`orderOK`. -/
theorem C14_unserialize_sniff_first_hijacks :
    let s : Model.Ser.Bytes := [95, 95, 111, 114, 105, 103, 97, 109, 105, 95, 97, 58, 91, 93]
    ser (.str s) = some (serStr s) ∧
    unserializeT (serStr s) = .value (.str s) ∧
    decode [emptyR, sniffFirstR, exactR] .false (serStr s) = .legacy ∧
    ¬ (∀ t : Model.Ser.Bytes, decode [emptyR, sniffFirstR, exactR] .false (serStr t) = .value (.str t)) ∧
    orderOK pinned.reverse = false := by
  refine ⟨rfl, rfl, rfl, ?_, by decide⟩
  intro h
  have := h [95, 95, 111, 114, 105, 103, 97, 109, 105, 95, 97, 58, 91, 93]
  exact absurd this (by
    have e : decode [emptyR, sniffFirstR, exactR] Model.Ser.Out.false
        (serStr [95, 95, 111, 114, 105, 103, 97, 109, 105, 95, 97, 58, 91, 93]) = Model.Ser.Out.legacy := rfl
    rw [e]; simp)

end Readers

end Tie

end C14
