import Proofs.Lemmas.Codec
import Proofs.Lemmas.WireRT
import Proofs.Lemmas.WireInv2
import Proofs.Lemmas.WireSound2
import Proofs.Lemmas.SerSem
import Proofs.Lemmas.SerFuel2
/-!
# C14 — encoders are faithful and decoders total

Property theorems only. `Model.Codec` / `Model.Wire` mirror what origami's
codecs do (thin wrappers over Go's `encoding/hex`, `encoding/base64`,
`net/url`; `std/protowire/parser.go` over Google's `protowire` primitives),
`Spec.Codec` / `Spec.Wire` are the formats (RFC 4648, RFC 3986, the protobuf
encoding guide). Bytes are naturals `< 256` (`IsBytes`).

Decoder totality: every decoder of the model is a total Lean function (no
`partial`, structural recursion, explicit fuel where the Go code loops on a
shrinking slice); `C14_wire_total` shows the fuel is never the reason for an
answer. A Go panic (index out of range) has no counterpart because the model
has no partial indexing: every access is a pattern match with an explicit
`none`/error arm; the correspondence run checks the real functions never panic.
-/
namespace C14
open Model.Codec Proofs.Codec

/-! ## hex -/

/-- **bin2hex is read back by the reference decoder** (`encoding/hex`), for every byte string. -/
theorem C14_hex_roundtrip (bs : Bytes) (h : IsBytes bs) :
    Spec.Codec.hexDecode (bin2hex bs) = some bs := hex_roundtrip bs h

/-- bin2hex emits exactly two lower-case hex digits per byte. -/
theorem C14_hex_lowercase_length (bs : Bytes) (h : IsBytes bs) :
    (bin2hex bs).length = 2 * bs.length ∧ ∀ c ∈ bin2hex bs, Spec.Codec.isLowerHex c = true :=
  ⟨hex_length bs, hex_alphabet bs h⟩

/-- `md5` / `hash` = `hex ∘ H`: for any digest function `H` producing `n` bytes the result is
`2n` lower-case hex digits that decode to the digest. (Which `H` it is, is checked against
`crypto/*` by the correspondence run only.) -/
theorem C14_digest_hex (H : Bytes → Bytes) (n : Nat) (hH : ∀ s, (H s).length = n ∧ IsBytes (H s))
    (s : Bytes) :
    (digestHex H s).length = 2 * n ∧ (∀ c ∈ digestHex H s, Spec.Codec.isLowerHex c = true) ∧
    Spec.Codec.hexDecode (digestHex H s) = some (H s) := by
  obtain ⟨h1, h2⟩ := hH s
  exact ⟨by rw [digestHex, hex_length, h1], hex_alphabet _ h2, hex_roundtrip _ h2⟩

example : bin2hex [0, 255, 65] = [48, 48, 102, 102, 52, 49] := by decide
example : ∃ H : Bytes → Bytes, ∀ s, (H s).length = 16 ∧ IsBytes (H s) :=
  ⟨fun _ => List.replicate 16 7, fun _ => ⟨by simp, by intro b hb; simp at hb; omega⟩⟩

/-! ## base64 -/

/-- **base64_decode inverts base64_encode** on every byte string. -/
theorem C14_base64_roundtrip (bs : Bytes) (h : IsBytes bs) :
    base64Decode (base64Encode bs) = some bs := b64_roundtrip bs h

/-- **The strict RFC 4648 decoder reads base64_encode's output back** as the same bytes
(canonical padding, no stray bits, no line breaks). -/
theorem C14_base64_reference_reads_back (bs : Bytes) (h : IsBytes bs) :
    Spec.Codec.b64Decode (base64Encode bs) = some bs := b64_spec_roundtrip bs h

example : base64Encode [97, 98, 0, 255] = [89, 87, 73, 65, 47, 119, 61, 61] := by decide
example : base64Decode [89, 87, 10, 73, 65, 47, 119, 61, 61] = some [97, 98, 0, 255] := by decide
example : base64Decode [89, 87, 73, 65, 47, 119, 61] = none := by decide

/-! ## URL escaping -/

/-- **urldecode inverts urlencode** on every byte string. -/
theorem C14_urlencode_roundtrip (bs : Bytes) (h : IsBytes bs) : urldecode (urlencode bs) = bs := by
  unfold urldecode urlencode; rw [query_roundtrip bs h]; rfl

/-- **rawurldecode inverts rawurlencode** on every byte string. -/
theorem C14_rawurlencode_roundtrip (bs : Bytes) (h : IsBytes bs) :
    rawurldecode (rawurlencode bs) = bs := by
  unfold rawurldecode rawurlencode; rw [raw_roundtrip bs h]; rfl

/-- **rawurlencode is RFC 3986 percent-encoding**: every byte outside ALPHA / DIGIT / `-._~`
becomes `%XX` (after fix C14-rawurlencode; the pinned code left `$&+=:@` unescaped). -/
theorem C14_rawurlencode_is_rfc3986 (bs : Bytes) (h : IsBytes bs) :
    rawurlencode bs = Spec.Codec.pctEncode bs := raw_is_pctEncode bs h

/-- **urlencode is form encoding**: as above with space ↦ `+`. -/
theorem C14_urlencode_is_form_encoding (bs : Bytes) (h : IsBytes bs) :
    urlencode bs = Spec.Codec.formEncode bs := query_is_formEncode bs h

example : rawurlencode [38, 61, 43, 32] = [37, 50, 54, 37, 51, 68, 37, 50, 66, 37, 50, 48] := by decide
example : urldecode [97, 43, 37, 52, 49] = [97, 32, 65] := by decide
/-- a malformed escape leaves the input unchanged (the wrapper's choice), it is not an error -/
example : urldecode [37, 122, 122] = [37, 122, 122] := by decide

/-! ## protobuf wire format -/
open Model.Wire Spec.Wire Proofs.Wire

theorem max_pos (o : Opts) : 0 < o.max := by
  unfold Opts.max; split <;> omega

/-- varints and tags are read back, whatever follows them -/
theorem C14_wire_varint_roundtrip (v : Nat) (rest : Model.Wire.Bytes) (hv : v < 2 ^ 64) :
    consumeVarint (appendVarint v ++ rest) = some (v, rest) := varint_roundtrip v rest hv

theorem C14_wire_tag_roundtrip (num wt : Nat) (rest : Model.Wire.Bytes) (hn : validNum num) (hw : wt < 8) :
    consumeTag (appendTag num wt ++ rest) = some (num, wt, rest) := tag_roundtrip num wt rest hn hw

/-- **Wire round trip.** For every parse-option set and every field tree that the format can
carry and that agrees with the options (`Valid`: which numbers are messages / packed with which
element type) and stays within the parser's depth budget (`Fits`), parsing the encoding returns
exactly the tree. No bound on depth, width, payload sizes. -/
theorem C14_wire_roundtrip (o : Opts) (t : FT) (hv : Valid o t) (hf : Fits o.max t 0) :
    parse o (encode t) = .ok t := by
  unfold parse
  rw [if_neg (by have := max_pos o; omega)]
  exact (roundtrip_core o t).1 0 _ hv hf (by omega)

/-- **Depth limit honoured.** Whatever the input bytes, a successful parse never returns more
than `MaxDepth` levels of nesting (`MaxDepth ≤ 0` meaning 64). -/
theorem C14_wire_depth_honoured (o : Opts) (d : Model.Wire.Bytes) (t : FT) (h : parse o d = .ok t) :
    nest t ≤ o.max := by
  unfold parse at h
  rw [if_neg (by have := max_pos o; omega)] at h
  have := (good_all o (d.length + 1)).dF d 0 t (by omega) h (by omega)
  omega

/-- **Decoder totality.** On every byte string and every option set the parser answers with a
tree or a format error; the fuel of the model (input length + 1) is never exhausted. -/
theorem C14_wire_total (o : Opts) (d : Model.Wire.Bytes) : parse o d ≠ .error .fuel := by
  unfold parse
  split
  · simp
  · exact (good_all o (d.length + 1)).fF d 0 (by omega)

/-- **Every byte accounted for, only well-formed input accepted.** If the parser answers with a
tree, the input is — from its first to its last byte — a sequence of well-formed fields
(`Spec.Wire.Encodes`: tags with a valid number, varints of at most ten bytes, complete fixed
and length-delimited payloads, groups closed by an end-group tag with the same number, packed
payloads that are whole elements) and the tree is exactly what those fields say under the
options. Nothing is dropped, nothing is invented. (After fix C14-endgroup; the pinned code
returned a tree for `08 01 0c 08 02`, which is no such sequence.) -/
theorem C14_wire_accounts_for_all_bytes (o : Opts) (d : Model.Wire.Bytes) (t : FT)
    (h : parse o d = .ok t) : Encodes o t d := by
  unfold parse at h
  rw [if_neg (by have := max_pos o; omega)] at h
  exact (sound_all o (d.length + 1)).sF d 0 t h

/-- the canonical encoding is a well-formed input in the sense above (non-vacuity of `Encodes`
beyond the examples: by `C14_wire_roundtrip` and the theorem just stated) -/
theorem C14_wire_encode_wellformed (o : Opts) (t : FT) (hv : Valid o t) (hf : Fits o.max t 0) :
    Encodes o t (encode t) := C14_wire_accounts_for_all_bytes o _ t (C14_wire_roundtrip o t hv hf)

/-- the replay of the pinned defect: a stray end-group tag is an error (the pinned code returned
field 1 and dropped the last three bytes) -/
theorem C14_wire_stray_endgroup_rejected : parse {} [8, 1, 12, 8, 2] = .error .endGroup := by rfl

def exOpts : Opts := { msg := [3], packed := [5], elemType := [(5, 0)] }
def exTree : FT :=
  .sub 3 false (.leaf 1 (.varint 150) .nil)
    (.sub 4 true (.leaf 2 (.fixed32 9) .nil) (.leaf 5 (.packed 0 [1, 300]) .nil))
example : Valid exOpts exTree := by
  simp [Valid, exTree, exOpts, ValidLeaf, validNum, encode, leafWt, encVal, appendTag, appendVarint,
    avAux, encElems]
example : Fits exOpts.max exTree 0 := by simp [Fits, exTree, exOpts, Opts.max]
example : parse exOpts (encode exTree) = .ok exTree := by rfl
example : nest exTree = 1 := by rfl
/-- a non-minimal varint (`80 00` = 0) is well-formed input and is accounted for -/
example : parse {} [8, 128, 0] = .ok (.leaf 1 (.varint 0) .nil) := by rfl
/-- the limit bites: two nested messages under `MaxDepth = 2` -/
example : parse { msg := [3], maxDepth := 2 } [26, 2, 26, 0] = .error .maxDepth := by rfl

/-! ## PHP serialize / unserialize -/
open Model.Ser Proofs.Ser Spec.Ser

/-
Statements, after the fixes C14-unserialize, C14-1-serialize-float, C14-3-serialize-keyed-array,
C14-6-unserialize-scalar-keys, C14-7-unserialize-lax-string:
  every value of the model is serialized, and what unserialize reads back is the same PHP value;
  a value is returned only if the reader consumed the (trimmed) input to its last byte.
What is left of the pinned code's laxness is `strings.TrimSpace` (known finding
`unserialize:accepts-malformed:surrounding-whitespace`): the model starts from the trimmed input.
-/

/-- **unserialize inverts serialize**, full strength: for every value — null, booleans, 64-bit
integers, floats (any float text), byte strings of any content, `ArrayValue`s whose slots are
positional, named or a mix (`$a['k'] = v`, sparse integer keys, what `json_decode(…, true)` returns),
`ObjectValue` keyed arrays, empty ones included, nested to any depth — `serialize` answers, and
`unserialize` of the answer is a value that is the same PHP value (`Spec.Ser.sem`: same entries,
same keys, same order). Hypotheses: sizes fit the 64-bit counters (`Sized`) and the value is a
PHP array in the first place, i.e. no array holds two entries under one key (`Distinct`).
(After the fixes: on the pinned code `serialize(1.5)` was `false` and the names of the slots
were replaced by `0..n-1`.) -/
theorem C14_serialize_roundtrip (v : PV) (hs : Sized v) (hd : Distinct v) :
    ∃ bs w, ser v = some bs ∧ unserializeT bs = .value w ∧ sem w = sem v := by
  obtain ⟨bs, hb⟩ := ser_total v
  exact ⟨bs, rb v, hb, unserialize_ser_rb v hs bs hb, sem_rb v hs hd⟩

/-- **exact round trip** on the representations `unserialize` itself produces (`CanonV`: lists
with positional slots only, keyed arrays as non-empty `ObjectValue`s with distinct keys, floats
as any float text): the very same Go-level value comes back, not just the same PHP value. -/
theorem C14_serialize_roundtrip_exact (v : PV) (hc : CanonV v) (bs : Model.Ser.Bytes)
    (hs : ser v = some bs) : unserializeT bs = .value v := unserialize_ser v hc bs hs

/-- **`serialize` answers (never `false`) on every value of the model.** (The pinned code had no
float case; `C14_serialize_float_counterexample` was the negation witness.) -/
theorem C14_serialize_defined (v : PV) : ∃ bs, ser v = some bs := ser_total v

/-- pinned witnesses of the two repaired defects: `serialize(1.5)`, and the slot names of
`json_decode('{"x":1,"y":"z"}', true)` -/
theorem C14_serialize_float_witness :
    ser (.float [49, 46, 53]) = some [100, 58, 49, 46, 53, 59] ∧
    unserializeT [100, 58, 49, 46, 53, 59] = .value (.float [49, 46, 53]) := ⟨rfl, rfl⟩

theorem C14_serialize_keyed_slots_witness :
    ser (.arr (.cons [120] (.int 1) (.cons [121] (.str [122]) .nil))) =
      some [97, 58, 50, 58, 123, 115, 58, 49, 58, 34, 120, 34, 59, 105, 58, 49, 59,
            115, 58, 49, 58, 34, 121, 34, 59, 115, 58, 49, 58, 34, 122, 34, 59, 125] := by rfl

theorem legacyStr_not_value (raw : Model.Ser.Bytes) (v : PV) : legacyStr raw ≠ .value v := by
  unfold legacyStr
  split
  · split
    · simp
    · simp only
      split <;> simp
  · simp

/-- **unserialize consumes all**: a value is returned only if the recursive-descent reader
consumed the (trimmed) input to its last byte — for every input, `s:` included (after fix
C14-7; the pinned code returned whatever lay between the first and the last double quote). -/
theorem C14_unserialize_consumes_all (raw : Model.Ser.Bytes) (v : PV)
    (h : unserializeT raw = .value v) :
    pValue (2 * raw.length + 1) raw = some (v, []) := by
  unfold unserializeT at h
  split at h
  · simp at h
  · split at h
    · rename_i v' hv
      split at hv
      · simp only [parseAll] at hv
        split at hv
        · rename_i w hw
          simp only [Option.some.injEq] at hv
          simp only [Out.value.injEq] at h
          rw [hw, hv, h]
        · simp at hv
      · simp at hv
    · split at h
      · exact absurd h (legacyStr_not_value raw v)
      · simp at h

/-- **array keys are scalars**: every key the entry loop of `parsePhpArray` returns is an int or
a string (after fix C14-6; the pinned code turned any value into a key with `AsString()`). -/
theorem C14_unserialize_keys_are_scalars (fuel n : Nat) (s r : Model.Ser.Bytes) (es : List (PV × PV))
    (h : pEntries fuel n s = some (es, r)) : ∀ e ∈ es, keyOk e.1 = true := by
  induction fuel generalizing n s r es with
  | zero =>
    cases n with
    | zero => simp only [pEntries, Option.some.injEq, Prod.mk.injEq] at h; intro e he; rw [← h.1] at he; simp at he
    | succ n => simp [pEntries] at h
  | succ f ih =>
    cases n with
    | zero => simp only [pEntries, Option.some.injEq, Prod.mk.injEq] at h; intro e he; rw [← h.1] at he; simp at he
    | succ n =>
      rw [pEntries] at h
      cases hk : keyFilter (pValue f s) with
      | none => simp [hk] at h
      | some p1 =>
        obtain ⟨k, s1⟩ := p1
        simp only [hk] at h
        cases h2 : pValue f s1 with
        | none => simp [h2] at h
        | some p2 =>
          obtain ⟨v, s2⟩ := p2
          simp only [h2] at h
          cases h3 : pEntries f n s2 with
          | none => simp [h3] at h
          | some p3 =>
            obtain ⟨es', s3⟩ := p3
            simp only [h3, Option.some.injEq, Prod.mk.injEq] at h
            intro e he
            rw [← h.1] at he
            simp only [List.mem_cons] at he
            rcases he with rfl | he
            · exact keyFilter_ok hk
            · exact ih n s2 s3 es' h3 e he

/-- **unserialize is total**: the reader of the model is a total function and its fuel
(`2·len + 1`, what `parseAll` supplies) is never the reason for an answer — any larger fuel
gives the same result. -/
theorem C14_unserialize_total (s : Model.Ser.Bytes) (k : Nat) :
    pValue (2 * s.length + 1 + k) s = pValue (2 * s.length + 1) s := fuel_irrelevant s k

/-- replays of the repaired lax inputs: a string with a wrong length and an array as a key are
`false` now -/
theorem C14_unserialize_lax_string_rejected :
    unserializeT [115, 58, 53, 58, 34, 97, 98, 34, 59] = .false := by rfl

theorem C14_unserialize_nonscalar_key_rejected :
    unserializeT [97, 58, 49, 58, 123, 97, 58, 48, 58, 123, 125, 105, 58, 49, 59, 125] = .false := by rfl

example : CanonV (.arr (.cons [] (.str [97, 34, 59]) (.cons [] (.obj (.cons [107] (.int (-9223372036854775808)) .nil)) .nil))) := by
  simp [CanonV, CanonItems, CanonProps, PL.len, maxInt, Proofs.Ser.PL.keys]
example : CanonV (.float [45, 49, 46, 53, 69, 43, 50, 53]) := by
  refine ⟨by rfl, by decide⟩
/-- a mixed `ArrayValue` (`[7, 'k' => 1.5, 6 => []]`) satisfies the hypotheses of the full theorem -/
example : Sized (.arr (.cons [] (.int 7) (.cons [107] (.float [49, 46, 53]) (.cons [54] (.arr .nil) .nil)))) ∧
    Distinct (.arr (.cons [] (.int 7) (.cons [107] (.float [49, 46, 53]) (.cons [54] (.arr .nil) .nil)))) := by
  refine ⟨?_, ?_⟩
  · simp [Sized, SizedL, PL.len, maxInt]
    rfl
  · simp [Distinct, DistinctL, semItems, SL.keys, slotSem, keyOf]
    decide
example : ser (.arr (.cons [] (.str [97]) (.cons [] (.str [98]) .nil))) =
    some [97, 58, 50, 58, 123, 105, 58, 48, 59, 115, 58, 49, 58, 34, 97, 34, 59, 105, 58, 49, 59, 115, 58, 49, 58, 34, 98, 34, 59, 125] := by rfl

end C14
