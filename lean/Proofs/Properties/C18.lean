import Proofs.Lemmas.LexShebang
import Model.LexCfg
import Spec.ErrLoc
import Generated.C18ErrLoc
import Proofs.Lemmas.Frag
import Generated.C18Frag
/-!
# C18 — token spans: in bounds, ordered and disjoint, line = number of newlines
before the span, token text = source text

Property theorems only. `Model.Lex` mirrors `lexer/*.go`; the configuration
`genCfg` is regenerated from the source on every run (`Generated.C01Lexer`).
The theorems are generic in the configuration under the decidable
well-formedness predicates `WF`/`WF2`, which are discharged for `genCfg` here
(`gen_wf`, `gen_wf2`): a change of the token table that breaks them breaks the build.

Error-location clause (last section): `Model.ErrLoc` — the location of an error while the throw
control unwinds through the constructs that stamp it (`checkThrowControlFrom`, `fillThrowFrom`);
the guard flag of every write to an existing error's location is regenerated from the source
(`Generated.C18.fromWrites`) and must be `true` (`gen_from_writes_guarded`).
-/
namespace C18
open Model.Lex Proofs.Lex

/-! ### obligations on the regenerated tables -/

/-- the translator found every syntactic shape it expects -/
theorem gen_shape : Generated.C01.shapeChanged = [] := by decide

/-- `\n` is white space (hence a delimiter); every token definition is a non-empty
list of bytes; no definition other than the NEWLINE token itself contains `\n` -/
theorem gen_wf : WF genCfg := by
  refine ⟨by decide, ?_, ?_, ?_⟩
  · decide +kernel
  · decide +kernel
  · decide +kernel

/-- `\n` is neither a letter nor a digit; `$` and `\` tokens are not of a multi-line type -/
theorem gen_wf2 : WF2 genCfg := by
  refine ⟨by decide +kernel, by decide, by decide, by decide⟩

/-! ### raw token list (both lexing modes, every input) -/

/-- **Raw spans.** For every byte string and both modes the main tokenizer
loop returns (it never indexes out of range) and every token's span is
non-empty and inside the source, spans are ordered and disjoint, and the
recorded line is the number of `\n` bytes before the span. -/
theorem C18_raw_spans {cfg : Cfg} (wf : WF cfg) (inp : Input) (mode : Mode) :
    ∃ ts, tokenizeRaw cfg inp mode = .ok ts ∧
      (∀ t ∈ ts, t.start < t.stop ∧ t.stop ≤ inp.size ∧ t.line = nlCount inp 0 t.start) ∧
      ts.Pairwise (fun a b => a.stop ≤ b.start) := by
  cases mode with
  | script =>
    obtain ⟨ts, h, ok⟩ := scriptLoop_ok wf inp (inp.size + 1) 0 0 false [] (inv_init cfg inp)
    exact ⟨ts, h, fun t ht => ⟨(ok.toks t ht).nonempty, (ok.toks t ht).bound, (ok.toks t ht).line⟩, ok.ordered⟩
  | template =>
    obtain ⟨ts, h, ok⟩ := tmplLoop_ok wf inp (inp.size + 1) 0 0 false [] (inv_init cfg inp)
    exact ⟨ts, h, fun t ht => ⟨(ok.toks t ht).nonempty, (ok.toks t ht).bound, (ok.toks t ht).line⟩, ok.ordered⟩

/-- **Token text = source text** for every raw token except UNKNOWN tokens
(whose text is the re-encoded offending byte): identifiers, keywords,
operators, numbers, strings, comments and HTML parts carry exactly
`input[start:end]`. -/
theorem C18_raw_literal {cfg : Cfg} (wf : WF cfg) (inp : Input) (mode : Mode) (ts : List Tok)
    (h : tokenizeRaw cfg inp mode = .ok ts) :
    ∀ t ∈ ts, t.lit = slice inp t.start t.stop ∨ t.ty = cfg.tUNKNOWN := by
  cases mode with
  | script =>
    obtain ⟨ts', h', ok⟩ := scriptLoop_ok wf inp (inp.size + 1) 0 0 false [] (inv_init cfg inp)
    have : ts = ts' := by
      have := h.symm.trans h'
      simpa [tokenizeRaw] using this
    subst this
    exact fun t ht => (ok.toks t ht).lit_src
  | template =>
    obtain ⟨ts', h', ok⟩ := tmplLoop_ok wf inp (inp.size + 1) 0 0 false [] (inv_init cfg inp)
    have : ts = ts' := by
      have := h.symm.trans h'
      simpa [tokenizeRaw] using this
    subst this
    exact fun t ht => (ok.toks t ht).lit_src

/-! ### final token list (after `Preprocessor.Process`) -/

/-- **Final spans.** After the three passes of `Process` (comments dropped,
`$`+name and `\`+identifier merged, newline → `;`, identifier → variable) every
top-level token still has a non-empty span inside the source, spans are ordered
and disjoint, and the line is the number of newlines before the span — for every
byte string and both modes.

(Until the repair of `isValidIdentifierToken` this needed the hypothesis that no
HTML part of a template directly follows a `\` token: the HTML text `abc` of
`<?php \ ?>abc<?php \x` was merged into the identifier `\abc\x`. An HTML part is
no longer identifier-like — in the code and in the model — and the hypothesis is gone.) -/
theorem C18_final_spans {cfg : Cfg} (wf : WF cfg) (wf2 : WF2 cfg) (inp : Input) (mode : Mode)
    (raw : List Tok) (h : tokenizeRaw cfg inp mode = .ok raw) :
    (∀ t ∈ process cfg raw, t.start < t.stop ∧ t.stop ≤ inp.size ∧ t.line = nlCount inp 0 t.start) ∧
    (process cfg raw).Pairwise (fun a b => a.stop ≤ b.start) := by
  have rawok : RawOK cfg inp raw := by
    cases mode with
    | script =>
      obtain ⟨ts', h', ok⟩ := scriptLoop_ok wf inp (inp.size + 1) 0 0 false [] (inv_init cfg inp)
      have : raw = ts' := by
        have := h.symm.trans h'
        simpa [tokenizeRaw] using this
      subst this; exact ok
    | template =>
      obtain ⟨ts', h', ok⟩ := tmplLoop_ok wf inp (inp.size + 1) 0 0 false [] (inv_init cfg inp)
      have : raw = ts' := by
        have := h.symm.trans h'
        simpa [tokenizeRaw] using this
      subst this; exact ok
  have fin := process_ok wf2 inp raw rawok
  exact ⟨fun t ht => ⟨(fin.toks t ht).nonempty, (fin.toks t ht).bound, (fin.toks t ht).line⟩, fin.ordered⟩

/-- **Tokenize-level statement, every input.** For the regenerated configuration, what
`lexer.Tokenize` / `TokenizeTemplate` answer — including the shebang dispatch, where the rest
of the file is tokenized and `ShiftTokens` moves the tokens back — obeys the span and line laws
relative to the whole source. -/
theorem C18_tokenize_spans (inp : Input) (mode : Mode) (ts : List Tok)
    (h : (tokenize genCfg inp mode).1 = .tokens ts) :
    (∀ t ∈ ts, t.start < t.stop ∧ t.stop ≤ inp.size ∧ t.line = nlCount inp 0 t.start) ∧
    ts.Pairwise (fun a b => a.stop ≤ b.start) := by
  have plain : ∀ (i : Input) (m : Mode) (raw : List Tok), tokenizeRaw genCfg i m = .ok raw →
      FinOK i (process genCfg raw) := fun i m raw hraw =>
    let k := C18_final_spans gen_wf gen_wf2 i m raw hraw
    ⟨fun t ht => ⟨(k.1 t ht).1, (k.1 t ht).2.1, (k.1 t ht).2.2⟩, k.2⟩
  have fin : FinOK inp ts := by
    cases mode with
    | template =>
      obtain ⟨raw, hraw, _⟩ := C18_raw_spans gen_wf inp .template
      simp only [tokenize, hraw] at h
      cases h; exact plain inp .template raw hraw
    | script =>
      unfold tokenize at h
      simp only [] at h
      split at h
      · -- shebang
        split at h
        · cases h; exact ⟨by simp, List.Pairwise.nil⟩
        · rename_i nl hnl
          obtain ⟨raw, hraw, _⟩ := C18_raw_spans gen_wf (inp.extract (nl + 1) inp.size) .template
          simp only [hraw] at h
          cases h
          exact finOK_shift hnl (plain _ .template raw hraw)
      · split at h
        · simp at h
        · obtain ⟨raw, hraw, _⟩ := C18_raw_spans gen_wf inp .script
          simp only [hraw] at h
          cases h; exact plain inp .script raw hraw
  exact ⟨fun t ht => ⟨(fin.toks t ht).nonempty, (fin.toks t ht).bound, (fin.toks t ht).line⟩, fin.ordered⟩

/-! ### known deviations, as proved witnesses on the model (replayed on the real lexer by the harness) -/

/-- a shebang source: the token `x` of `#!a\nx` is reported at offset 4 on line 1 (before the
repair of `Tokenize` it was reported at offset 0 on line 0, relative to the text after the first line) -/
theorem C18_shebang_positions :
    (tokenize genCfg #[35, 33, 97, 10, 120] .script).2 = 0 ∧
    ((tokenize genCfg #[35, 33, 97, 10, 120] .script).1.toks.map (fun t => (t.start, t.line))) = [(4, 1)] := by
  decide +kernel

/-- `\ App` is merged into one identifier whose text `\App` is not the source text `\ App` -/
theorem C18_ns_merge_gap_witness :
    ((tokenize genCfg #[92, 32, 65, 112, 112] .script).1.toks.map (fun t => (t.start, t.stop, t.lit)))
      = [(0, 5, [92, 65, 112, 112])] := by
  decide +kernel

/-! ### error locations: a location, once set, survives the unwinding -/

section ErrLoc
open Model.ErrLoc

/-- the translator could read the sources it scans for location writes -/
theorem gen_errloc_shape : Generated.C18.shapeChanged = [] := by decide

/-- **Obligation on the source.** Every assignment to the location of an existing error
(`<x>.Error.From = …` anywhere in the non-test Go source) is made under `if <x>.Error.From == nil`:
it fills a missing location, it never replaces one. -/
theorem gen_from_writes_guarded : ∀ w ∈ Generated.C18.fromWrites, w.guarded = true := by decide

/-- **A location is never overwritten once set** — invariant by induction over the unwinding
path: whatever constructs the error passes on its way out (any number, any positions of their
own), if each of them writes only under the nil test, the error arrives with the location it was
raised with. -/
theorem C18_error_location_kept (path : List Stamp) (hg : ∀ s ∈ path, s.guarded = true) (l : Loc) :
    unwind path (some l) = some l := by
  induction path with
  | nil => rfl
  | cons s rest ih =>
    have hs : s.guarded = true := hg s (List.mem_cons_self ..)
    have : stamp s (some l) = some l := by
      unfold stamp; cases s.own <;> simp [hs]
    rw [unwind, this]
    exact ih (fun t ht => hg t (List.mem_cons_of_mem _ ht))

/-- **Model = Spec**, every path and every start: the reported location is the one the error was
raised with, and an error raised without one gets the position of the innermost enclosing
construct that has one (and keeps it from there on). -/
theorem C18_error_location_reported (path : List Stamp) (hg : ∀ s ∈ path, s.guarded = true)
    (raised : Option Loc) :
    unwind path raised = Spec.ErrLoc.reported raised (path.map (·.own)) := by
  induction path generalizing raised with
  | nil => cases raised <;> simp [unwind, Spec.ErrLoc.reported]
  | cons s rest ih =>
    have hs : s.guarded = true := hg s (List.mem_cons_self ..)
    have hrest := fun t ht => hg t (List.mem_cons_of_mem _ ht)
    rw [unwind, ih hrest]
    cases raised with
    | some l =>
      have : stamp s (some l) = some l := by unfold stamp; cases s.own <;> simp [hs]
      simp [this, Spec.ErrLoc.reported]
    | none =>
      have : stamp s none = s.own := by unfold stamp; cases s.own <;> simp [hs]
      simp [this, Spec.ErrLoc.reported]

/-- **The nil test is necessary**: ONE construct on the path that writes without it (and has a
position of its own) decides the outcome — whatever location the error had, wherever on the path
the construct sits, the error arrives with that construct's position. This is the class of change
the nested planted-fault stream of the harness looks for on the real interpreter. -/
theorem C18_unguarded_write_clobbers (pre post : List Stamp) (hpost : ∀ s ∈ post, s.guarded = true)
    (f : Loc) (cur : Option Loc) :
    unwind (pre ++ ⟨false, some f⟩ :: post) cur = some f := by
  induction pre generalizing cur with
  | nil =>
    have : stamp ⟨false, some f⟩ cur = some f := by simp [stamp]
    simp only [List.nil_append, unwind, this]
    exact C18_error_location_kept post hpost f
  | cons s rest ih => simpa [unwind] using ih (stamp s cur)

/-- the invariant for the writers the source has today: a path every step of which uses one of
the regenerated writers keeps the location -/
theorem C18_generated_writers_keep_location (path : List Stamp)
    (hw : ∀ s ∈ path, ∃ w ∈ Generated.C18.fromWrites, s.guarded = w.guarded) (l : Loc) :
    unwind path (some l) = some l :=
  C18_error_location_kept path (fun s hs => by
    obtain ⟨w, hwm, e⟩ := hw s hs
    rw [e]; exact gen_from_writes_guarded w hwm) l

/-- non-vacuity: a throw on line 9 inside an `if` (line 7) inside a `for` body statement (line 5)
keeps line 9 through two guarded stamps; without a location it gets line 7; and the same path
with the `for` stamp unguarded reports line 5 -/
example :
    unwind [⟨true, some ⟨1, 7, 2⟩⟩, ⟨true, some ⟨1, 5, 0⟩⟩] (some ⟨1, 9, 4⟩) = some ⟨1, 9, 4⟩ ∧
    unwind [⟨true, none⟩, ⟨true, some ⟨1, 7, 2⟩⟩, ⟨true, some ⟨1, 5, 0⟩⟩] none = some ⟨1, 7, 2⟩ ∧
    unwind [⟨true, some ⟨1, 7, 2⟩⟩, ⟨false, some ⟨1, 5, 0⟩⟩] (some ⟨1, 9, 4⟩) = some ⟨1, 5, 0⟩ ∧
    (∃ w ∈ Generated.C18.fromWrites, w.fn = "checkThrowControlFrom") := by decide

end ErrLoc

/-! ### the line of an interpolation fragment: rune-index arithmetic agrees with the byte-level line law -/

section Frag
open Model.Frag

/-- **Obligation on the source** (units): `fragmentLineCol` takes the RUNE slice, its body is the
loop that counts the `'\n'` runes among the first `k`, every call site in
`processStringInterpolation` passes `runes`, and `runes` is `[]rune(content)`. -/
theorem gen_frag_units :
    Generated.C18Frag.shapeChanged = [] ∧
    Generated.C18Frag.paramTypes = ["Token", "[]rune", "int", "int"] ∧
    Generated.C18Frag.countsNewlineRunes = true ∧
    Generated.C18Frag.callArgs ≠ [] ∧ (∀ a ∈ Generated.C18Frag.callArgs, a.1 = "runes") ∧
    Generated.C18Frag.runesDefs = ["[]rune(content)"] := by decide

/-- **Fragment line.** For every content (any runes, multi-byte or not, any number of line ends),
every rune index `k` and every line of the string token: the line `fragmentLineCol` computes from
the rune index is the line, by the byte-level law of this property (`line0` + number of `\n` bytes
before the position), of the byte at which the `k`-th rune starts in the source text
`string(runes)`. -/
theorem C18_fragment_line (runes : List Nat) (k line : Nat) :
    fragLine runes k line = Spec.Frag.lineAt (encode runes) (Spec.Frag.byteOffset runes k) line := by
  induction runes generalizing k line with
  | nil => simp [fragLine, Spec.Frag.lineAt, Spec.Frag.byteOffset, encode]
  | cons r rs ih =>
    cases k with
    | zero => simp [fragLine, Spec.Frag.lineAt, Spec.Frag.byteOffset, encode]
    | succ k =>
      rw [fragLine, ih]
      unfold Spec.Frag.lineAt Spec.Frag.byteOffset
      rw [Proofs.Frag.encode_take_succ, List.length_append, Proofs.Frag.take_encode_cons,
        List.count_append, Proofs.Frag.count_nl_encodeRune]
      split <;> omega

/-- **The units matter** (negation witness, replayed on the real lexer by the harness): the same
index used as a byte offset into the content loses the line end after multi-byte text —
`中\n$` , fragment at rune 2: one line end precedes it, the byte-indexed count sees none. -/
theorem C18_fragment_line_byte_indexed_counterexample :
    ¬ ∀ (runes : List Nat) (k line : Nat),
      fragLineByteIndexed (encode runes) k line = Spec.Frag.lineAt (encode runes) (Spec.Frag.byteOffset runes k) line := by
  intro h
  have := h [0x4E2D, 10, 36] 2 0
  revert this
  decide

/-- non-vacuity: `标题\n{$o}` — the fragment at rune 3 starts at byte 7, on line 1 of a string that
starts on line 0 -/
example : fragLine [0x6807, 0x9898, 10, 123, 36, 111, 125] 3 0 = 1 ∧
    Spec.Frag.byteOffset [0x6807, 0x9898, 10, 123, 36, 111, 125] 3 = 7 := by decide

end Frag

/-! ### non-vacuity -/

/-- `$a=1;\n//c\r\n$b` : the hypotheses of the theorems above are met by a concrete, non-trivial input,
and the token after the CRLF-terminated comment is on line 2 -/
example : ∃ raw, tokenizeRaw genCfg #[36, 97, 61, 49, 59, 10, 47, 47, 99, 13, 10, 36, 98] .script = .ok raw ∧
    raw.length = 10 ∧ (raw.map (·.line)).getLast? = some 2 := by
  refine ⟨[⟨228, 0, 1, 0, [36]⟩, ⟨274, 1, 2, 0, [97]⟩, ⟨200, 2, 3, 0, [61]⟩, ⟨263, 3, 4, 0, [49]⟩,
           ⟨230, 4, 5, 0, [59]⟩, ⟨280, 5, 6, 0, [10]⟩, ⟨276, 6, 10, 1, [47, 47, 99, 13]⟩,
           ⟨280, 10, 11, 1, [10]⟩, ⟨228, 11, 12, 2, [36]⟩, ⟨274, 12, 13, 2, [98]⟩], by decide +kernel, rfl, rfl⟩

end C18
