import Proofs.Lemmas.LexShebang
import Model.LexCfg
/-!
# C18 — token spans: in bounds, ordered and disjoint, line = number of newlines
before the span, token text = source text

Property theorems only. `Model.Lex` mirrors `lexer/*.go`; the configuration
`genCfg` is regenerated from the source on every run (`Generated.C01Lexer`).
The theorems are generic in the configuration under the decidable
well-formedness predicates `WF`/`WF2`, which are discharged for `genCfg` here
(`gen_wf`, `gen_wf2`): a change of the token table that breaks them breaks the build.
-/
namespace C18
open Model.Lex Proofs.Lex

/-! ### obligations on the regenerated tables -/

/-- the translator found every syntactic shape it expects -/
theorem gen_shape : Generated.C01.shapeChanged = [] := by decide

/-- `\n` is white space (hence a delimiter); every token definition is a non-empty
list of bytes; no definition other than the NEWLINE token itself contains `\n` -/
theorem gen_wf : WF genCfg := by
  refine ⟨by decide, ?_, ?_, ?_⟩
  · decide +kernel
  · decide +kernel
  · decide +kernel

/-- `\n` is neither a letter nor a digit; `$` and `\` tokens are not of a multi-line type -/
theorem gen_wf2 : WF2 genCfg := by
  refine ⟨by decide +kernel, by decide, by decide, by decide⟩

/-! ### raw token list (both lexing modes, every input) -/

/-- **Raw spans.** For every byte string and both modes the main tokenizer
loop returns (it never indexes out of range) and every token's span is
non-empty and inside the source, spans are ordered and disjoint, and the
recorded line is the number of `\n` bytes before the span. -/
theorem C18_raw_spans {cfg : Cfg} (wf : WF cfg) (inp : Input) (mode : Mode) :
    ∃ ts, tokenizeRaw cfg inp mode = .ok ts ∧
      (∀ t ∈ ts, t.start < t.stop ∧ t.stop ≤ inp.size ∧ t.line = nlCount inp 0 t.start) ∧
      ts.Pairwise (fun a b => a.stop ≤ b.start) := by
  cases mode with
  | script =>
    obtain ⟨ts, h, ok⟩ := scriptLoop_ok wf inp (inp.size + 1) 0 0 false [] (inv_init cfg inp)
    exact ⟨ts, h, fun t ht => ⟨(ok.toks t ht).nonempty, (ok.toks t ht).bound, (ok.toks t ht).line⟩, ok.ordered⟩
  | template =>
    obtain ⟨ts, h, ok⟩ := tmplLoop_ok wf inp (inp.size + 1) 0 0 false [] (inv_init cfg inp)
    exact ⟨ts, h, fun t ht => ⟨(ok.toks t ht).nonempty, (ok.toks t ht).bound, (ok.toks t ht).line⟩, ok.ordered⟩

/-- **Token text = source text** for every raw token except UNKNOWN tokens
(whose text is the re-encoded offending byte): identifiers, keywords,
operators, numbers, strings, comments and HTML parts carry exactly
`input[start:end]`. -/
theorem C18_raw_literal {cfg : Cfg} (wf : WF cfg) (inp : Input) (mode : Mode) (ts : List Tok)
    (h : tokenizeRaw cfg inp mode = .ok ts) :
    ∀ t ∈ ts, t.lit = slice inp t.start t.stop ∨ t.ty = cfg.tUNKNOWN := by
  cases mode with
  | script =>
    obtain ⟨ts', h', ok⟩ := scriptLoop_ok wf inp (inp.size + 1) 0 0 false [] (inv_init cfg inp)
    have : ts = ts' := by
      have := h.symm.trans h'
      simpa [tokenizeRaw] using this
    subst this
    exact fun t ht => (ok.toks t ht).lit_src
  | template =>
    obtain ⟨ts', h', ok⟩ := tmplLoop_ok wf inp (inp.size + 1) 0 0 false [] (inv_init cfg inp)
    have : ts = ts' := by
      have := h.symm.trans h'
      simpa [tokenizeRaw] using this
    subst this
    exact fun t ht => (ok.toks t ht).lit_src

/-! ### final token list (after `Preprocessor.Process`) -/

/-- **Final spans.** After the three passes of `Process` (comments dropped,
`$`+name and `\`+identifier merged, newline → `;`, identifier → variable) every
top-level token still has a non-empty span inside the source, spans are ordered
and disjoint, and the line is the number of newlines before the span — for every
byte string and both modes.

(Until the repair of `isValidIdentifierToken` this needed the hypothesis that no
HTML part of a template directly follows a `\` token: the HTML text `abc` of
`<?php \ ?>abc<?php \x` was merged into the identifier `\abc\x`. An HTML part is
no longer identifier-like — in the code and in the model — and the hypothesis is gone.) -/
theorem C18_final_spans {cfg : Cfg} (wf : WF cfg) (wf2 : WF2 cfg) (inp : Input) (mode : Mode)
    (raw : List Tok) (h : tokenizeRaw cfg inp mode = .ok raw) :
    (∀ t ∈ process cfg raw, t.start < t.stop ∧ t.stop ≤ inp.size ∧ t.line = nlCount inp 0 t.start) ∧
    (process cfg raw).Pairwise (fun a b => a.stop ≤ b.start) := by
  have rawok : RawOK cfg inp raw := by
    cases mode with
    | script =>
      obtain ⟨ts', h', ok⟩ := scriptLoop_ok wf inp (inp.size + 1) 0 0 false [] (inv_init cfg inp)
      have : raw = ts' := by
        have := h.symm.trans h'
        simpa [tokenizeRaw] using this
      subst this; exact ok
    | template =>
      obtain ⟨ts', h', ok⟩ := tmplLoop_ok wf inp (inp.size + 1) 0 0 false [] (inv_init cfg inp)
      have : raw = ts' := by
        have := h.symm.trans h'
        simpa [tokenizeRaw] using this
      subst this; exact ok
  have fin := process_ok wf2 inp raw rawok
  exact ⟨fun t ht => ⟨(fin.toks t ht).nonempty, (fin.toks t ht).bound, (fin.toks t ht).line⟩, fin.ordered⟩

/-- **Tokenize-level statement, every input.** For the regenerated configuration, what
`lexer.Tokenize` / `TokenizeTemplate` answer — including the shebang dispatch, where the rest
of the file is tokenized and `ShiftTokens` moves the tokens back — obeys the span and line laws
relative to the whole source. -/
theorem C18_tokenize_spans (inp : Input) (mode : Mode) (ts : List Tok)
    (h : (tokenize genCfg inp mode).1 = .tokens ts) :
    (∀ t ∈ ts, t.start < t.stop ∧ t.stop ≤ inp.size ∧ t.line = nlCount inp 0 t.start) ∧
    ts.Pairwise (fun a b => a.stop ≤ b.start) := by
  have plain : ∀ (i : Input) (m : Mode) (raw : List Tok), tokenizeRaw genCfg i m = .ok raw →
      FinOK i (process genCfg raw) := fun i m raw hraw =>
    let k := C18_final_spans gen_wf gen_wf2 i m raw hraw
    ⟨fun t ht => ⟨(k.1 t ht).1, (k.1 t ht).2.1, (k.1 t ht).2.2⟩, k.2⟩
  have fin : FinOK inp ts := by
    cases mode with
    | template =>
      obtain ⟨raw, hraw, _⟩ := C18_raw_spans gen_wf inp .template
      simp only [tokenize, hraw] at h
      cases h; exact plain inp .template raw hraw
    | script =>
      unfold tokenize at h
      simp only [] at h
      split at h
      · -- shebang
        split at h
        · cases h; exact ⟨by simp, List.Pairwise.nil⟩
        · rename_i nl hnl
          obtain ⟨raw, hraw, _⟩ := C18_raw_spans gen_wf (inp.extract (nl + 1) inp.size) .template
          simp only [hraw] at h
          cases h
          exact finOK_shift hnl (plain _ .template raw hraw)
      · split at h
        · simp at h
        · obtain ⟨raw, hraw, _⟩ := C18_raw_spans gen_wf inp .script
          simp only [hraw] at h
          cases h; exact plain inp .script raw hraw
  exact ⟨fun t ht => ⟨(fin.toks t ht).nonempty, (fin.toks t ht).bound, (fin.toks t ht).line⟩, fin.ordered⟩

/-! ### known deviations, as proved witnesses on the model (replayed on the real lexer by the harness) -/

/-- a shebang source: the token `x` of `#!a\nx` is reported at offset 4 on line 1 (before the
repair of `Tokenize` it was reported at offset 0 on line 0, relative to the text after the first line) -/
theorem C18_shebang_positions :
    (tokenize genCfg #[35, 33, 97, 10, 120] .script).2 = 0 ∧
    ((tokenize genCfg #[35, 33, 97, 10, 120] .script).1.toks.map (fun t => (t.start, t.line))) = [(4, 1)] := by
  decide +kernel

/-- `\ App` is merged into one identifier whose text `\App` is not the source text `\ App` -/
theorem C18_ns_merge_gap_witness :
    ((tokenize genCfg #[92, 32, 65, 112, 112] .script).1.toks.map (fun t => (t.start, t.stop, t.lit)))
      = [(0, 5, [92, 65, 112, 112])] := by
  decide +kernel

/-! ### non-vacuity -/

/-- `$a=1;\n//c\r\n$b` : the hypotheses of the theorems above are met by a concrete, non-trivial input,
and the token after the CRLF-terminated comment is on line 2 -/
example : ∃ raw, tokenizeRaw genCfg #[36, 97, 61, 49, 59, 10, 47, 47, 99, 13, 10, 36, 98] .script = .ok raw ∧
    raw.length = 10 ∧ (raw.map (·.line)).getLast? = some 2 := by
  refine ⟨[⟨228, 0, 1, 0, [36]⟩, ⟨274, 1, 2, 0, [97]⟩, ⟨200, 2, 3, 0, [61]⟩, ⟨263, 3, 4, 0, [49]⟩,
           ⟨230, 4, 5, 0, [59]⟩, ⟨280, 5, 6, 0, [10]⟩, ⟨276, 6, 10, 1, [47, 47, 99, 13]⟩,
           ⟨280, 10, 11, 1, [10]⟩, ⟨228, 11, 12, 2, [36]⟩, ⟨274, 12, 13, 2, [98]⟩], by decide +kernel, rfl, rfl⟩

end C18
