import Proofs.Lemmas.LexProc
import Model.LexCfg
/-!
# C18 — token spans: in bounds, ordered and disjoint, line = number of newlines
before the span, token text = source text

Property theorems only. `Model.Lex` mirrors `lexer/*.go`; the configuration
`genCfg` is regenerated from the source on every run (`Generated.C01Lexer`).
The theorems are generic in the configuration under the decidable
well-formedness predicates `WF`/`WF2`, which are discharged for `genCfg` here
(`gen_wf`, `gen_wf2`): a change of the token table that breaks them breaks the build.
-/
namespace C18
open Model.Lex Proofs.Lex

/-! ### obligations on the regenerated tables -/

/-- the translator found every syntactic shape it expects -/
theorem gen_shape : Generated.C01.shapeChanged = [] := by decide

/-- `\n` is white space (hence a delimiter); every token definition is a non-empty
list of bytes; no definition other than the NEWLINE token itself contains `\n` -/
theorem gen_wf : WF genCfg := by
  refine ⟨by decide, ?_, ?_, ?_⟩
  · decide +kernel
  · decide +kernel
  · decide +kernel

/-- `\n` is neither a letter nor a digit; `$` and `\` tokens are not of a multi-line type -/
theorem gen_wf2 : WF2 genCfg := by
  refine ⟨by decide +kernel, by decide, by decide, by decide⟩

/-! ### raw token list (both lexing modes, every input) -/

/-- **Raw spans.** For every byte string and both modes the main tokenizer
loop returns (it never indexes out of range) and every token's span is
non-empty and inside the source, spans are ordered and disjoint, and the
recorded line is the number of `\n` bytes before the span. -/
theorem C18_raw_spans {cfg : Cfg} (wf : WF cfg) (inp : Input) (mode : Mode) :
    ∃ ts, tokenizeRaw cfg inp mode = .ok ts ∧
      (∀ t ∈ ts, t.start < t.stop ∧ t.stop ≤ inp.size ∧ t.line = nlCount inp 0 t.start) ∧
      ts.Pairwise (fun a b => a.stop ≤ b.start) := by
  cases mode with
  | script =>
    obtain ⟨ts, h, ok⟩ := scriptLoop_ok wf inp (inp.size + 1) 0 0 false [] (inv_init cfg inp)
    exact ⟨ts, h, fun t ht => ⟨(ok.toks t ht).nonempty, (ok.toks t ht).bound, (ok.toks t ht).line⟩, ok.ordered⟩
  | template =>
    obtain ⟨ts, h, ok⟩ := tmplLoop_ok wf inp (inp.size + 1) 0 0 false [] (inv_init cfg inp)
    exact ⟨ts, h, fun t ht => ⟨(ok.toks t ht).nonempty, (ok.toks t ht).bound, (ok.toks t ht).line⟩, ok.ordered⟩

/-- **Token text = source text** for every raw token except UNKNOWN tokens
(whose text is the re-encoded offending byte): identifiers, keywords,
operators, numbers, strings, comments and HTML parts carry exactly
`input[start:end]`. -/
theorem C18_raw_literal {cfg : Cfg} (wf : WF cfg) (inp : Input) (mode : Mode) (ts : List Tok)
    (h : tokenizeRaw cfg inp mode = .ok ts) :
    ∀ t ∈ ts, t.lit = slice inp t.start t.stop ∨ t.ty = cfg.tUNKNOWN := by
  cases mode with
  | script =>
    obtain ⟨ts', h', ok⟩ := scriptLoop_ok wf inp (inp.size + 1) 0 0 false [] (inv_init cfg inp)
    have : ts = ts' := by
      have := h.symm.trans h'
      simpa [tokenizeRaw] using this
    subst this
    exact fun t ht => (ok.toks t ht).lit_src
  | template =>
    obtain ⟨ts', h', ok⟩ := tmplLoop_ok wf inp (inp.size + 1) 0 0 false [] (inv_init cfg inp)
    have : ts = ts' := by
      have := h.symm.trans h'
      simpa [tokenizeRaw] using this
    subst this
    exact fun t ht => (ok.toks t ht).lit_src

/-! ### final token list (after `Preprocessor.Process`) -/

/-- no HTML part directly follows a `\` token -/
def NoSepHtml (cfg : Cfg) (raw : List Tok) : Prop :=
  Chain (fun (a b : Tok) => ¬ (a.ty = cfg.tNSSEP ∧ b.ty = cfg.tHTML)) raw

/-- **Final spans (partial).** After the three passes of `Process` (comments
dropped, `$`+name and `\`+identifier merged, newline → `;`, identifier →
variable) every top-level token still has a non-empty span inside the source,
spans are ordered and disjoint, and the line is the number of newlines before
the span.

Full strength would drop `hno`. It is needed only for the line of an identifier
merged from a `\kw\kw…` chain one of whose inner components is an HTML part of
a template (`\ ?>abc<?php \x`): the Go code keeps `lastWasNewline` across the
HTML part, and the invariant proved for the main loop does not record which
token that flag stems from. No input violating the law is known. -/
theorem C18_final_spans_partial {cfg : Cfg} (wf : WF cfg) (wf2 : WF2 cfg) (inp : Input) (mode : Mode)
    (raw : List Tok) (h : tokenizeRaw cfg inp mode = .ok raw) (hno : NoSepHtml cfg raw) :
    (∀ t ∈ process cfg raw, t.start < t.stop ∧ t.stop ≤ inp.size ∧ t.line = nlCount inp 0 t.start) ∧
    (process cfg raw).Pairwise (fun a b => a.stop ≤ b.start) := by
  have rawok : RawOK cfg inp raw := by
    cases mode with
    | script =>
      obtain ⟨ts', h', ok⟩ := scriptLoop_ok wf inp (inp.size + 1) 0 0 false [] (inv_init cfg inp)
      have : raw = ts' := by
        have := h.symm.trans h'
        simpa [tokenizeRaw] using this
      subst this; exact ok
    | template =>
      obtain ⟨ts', h', ok⟩ := tmplLoop_ok wf inp (inp.size + 1) 0 0 false [] (inv_init cfg inp)
      have : raw = ts' := by
        have := h.symm.trans h'
        simpa [tokenizeRaw] using this
      subst this; exact ok
  have fin := process_ok wf2 inp raw rawok hno
  exact ⟨fun t ht => ⟨(fin.toks t ht).nonempty, (fin.toks t ht).bound, (fin.toks t ht).line⟩, fin.ordered⟩

/-- the same for the regenerated configuration, as `lexer.Tokenize` / `TokenizeTemplate`
answer on a source without a shebang line (see `C18_shebang_offset_witness`) -/
theorem C18_tokenize_spans_partial (inp : Input) (mode : Mode) (ts : List Tok)
    (h : (tokenize genCfg inp mode).1 = .tokens ts)
    (hsb : (inp.size ≥ 2 && bAt inp 0 == 35 && bAt inp 1 == 33) = false)
    (hno : ∀ raw, tokenizeRaw genCfg inp mode = .ok raw → NoSepHtml genCfg raw) :
    (∀ t ∈ ts, t.start < t.stop ∧ t.stop ≤ inp.size ∧ t.line = nlCount inp 0 t.start) ∧
    ts.Pairwise (fun a b => a.stop ≤ b.start) := by
  obtain ⟨raw, hraw, _⟩ := C18_raw_spans gen_wf inp mode
  have key := C18_final_spans_partial gen_wf gen_wf2 inp mode raw hraw (hno raw hraw)
  cases mode with
  | template =>
    simp only [tokenize, hraw] at h
    cases h; exact key
  | script =>
    unfold tokenize at h
    simp only [hsb, Bool.false_eq_true, if_false] at h
    split at h
    · simp at h
    · simp only [hraw] at h
      cases h; exact key

/-! ### known deviations, as proved witnesses on the model (replayed on the real lexer by the harness) -/

/-- a shebang source is tokenized relative to the text after its first line:
the token `x` of `#!a\nx` is reported at offset 0 on line 0 (it is at offset 4, line 1) -/
theorem C18_shebang_offset_witness :
    (tokenize genCfg #[35, 33, 97, 10, 120] .script).2 = 4 ∧
    ((tokenize genCfg #[35, 33, 97, 10, 120] .script).1.toks.map (fun t => (t.start, t.line))) = [(0, 0)] := by
  decide +kernel

/-- `\ App` is merged into one identifier whose text `\App` is not the source text `\ App` -/
theorem C18_ns_merge_gap_witness :
    ((tokenize genCfg #[92, 32, 65, 112, 112] .script).1.toks.map (fun t => (t.start, t.stop, t.lit)))
      = [(0, 5, [92, 65, 112, 112])] := by
  decide +kernel

/-! ### non-vacuity -/

/-- `$a=1;\n//c\r\n$b` : the hypotheses of the theorems above are met by a concrete, non-trivial input,
and the token after the CRLF-terminated comment is on line 2 -/
example : ∃ raw, tokenizeRaw genCfg #[36, 97, 61, 49, 59, 10, 47, 47, 99, 13, 10, 36, 98] .script = .ok raw ∧
    raw.length = 10 ∧ (raw.map (·.line)).getLast? = some 2 ∧ NoSepHtml genCfg raw := by
  refine ⟨[⟨228, 0, 1, 0, [36]⟩, ⟨274, 1, 2, 0, [97]⟩, ⟨200, 2, 3, 0, [61]⟩, ⟨263, 3, 4, 0, [49]⟩,
           ⟨230, 4, 5, 0, [59]⟩, ⟨280, 5, 6, 0, [10]⟩, ⟨276, 6, 10, 1, [47, 47, 99, 13]⟩,
           ⟨280, 10, 11, 1, [10]⟩, ⟨228, 11, 12, 2, [36]⟩, ⟨274, 12, 13, 2, [98]⟩], by decide +kernel, rfl, rfl, ?_⟩
  simp [NoSepHtml, Chain, genCfg]
  decide

end C18
