import Proofs.Lemmas.ReqSolo
import Proofs.Lemmas.ReqSite
import Proofs.Lemmas.ReqLimit
import Proofs.Lemmas.ReqReg
import Proofs.Lemmas.ReqIC
import Proofs.Lemmas.ReqCap
import Proofs.Lemmas.ReqOut
import Generated.C11Superglobals
/-!
# C11 — concurrent HTTP requests do not interfere: a response depends on its request

Property theorems only.

* `Model.Req` — in-flight requests as lists of script-level steps over cache cells whose
  **scope** (`packageLevel | perRequest`) is a parameter; a schedule (any list of request
  ids: any number of requests, any interleaving) picks whose next step runs.
* `Spec.Req.respond` — the response as a function of the request's own data alone.
* `Generated.C11Superglobals.facts` — regenerated from `node/globals_*.go`,
  `node/env_lookup.go` and `std/net/http/*.go` on every run: through which package-level
  variables each superglobal is served, where the request path resets them, whether script
  code always gets a context created for the request.

Full statement (DESIGN §5):

    C11_noninterference : (∀ c, scope c = perRequest) → ∀ schedule r, response r = soloResponse r
    obligation            Generated.C11Superglobals.all_per_request

`C11_noninterference` is proved below at full strength, generically in the scope table.
The obligation is **false on the pinned tree** (all nine superglobals are cached in
package-level variables of package `node`): it is stated as `violations ⊆ Known`
(`C11_superglobals_known`), the leak the package-level scope causes is proved to exist in the
model (`C11_shared_cache_leaks`, `C11_first_read_leaks`) and replayed against the real server
with gates on every run, and `C11_noninterference_partial` / `C11_noninterference_generated`
state what does hold on this tree: a request whose steps stay off the package-level caches
(request object, locals, parameters, closures) is not affected by any other request.

Values a request *creates* (closures, generators, objects) are the second half: the handler's
syntax tree is shared by all requests, so such a value must live in a fresh object, not in the
syntax node that made it.  `Model.ReqSite` has the place where a closure's environment lives
as a parameter (`perEvaluation | inNode`); `C11_site_noninterference` states the isolation
under `perEvaluation`, `C11_node_slot_leaks` the leak under `inNode`, and the
regenerated fact `nodeWrites` (every store of an evaluation-time method of package `node` into
its own receiver) decides which one the analysed tree has (`C11_site_noninterference_generated`).

Limits are the third half: the VM is one object for the whole process, so a counter it keeps
(`VM.callDepth`, entered by `ClassMethod.Call`) is the sum over all in-flight requests.
`Model.ReqLimit` has, per Go function that enters the counter, what its refusal is decided on as a
parameter (`own | shared | never`): `C11_depth_counter_is_sum` is the bookkeeping `c = Σ d_i` for
every interleaving and every guard table, `C11_depth_decision_own` / `C11_depth_noninterference`
the isolation when every refusal is decided on the request's own frames, `C11_shared_depth_guard_leaks`
the leak when one is decided on the sum, and the regenerated fact `depthGuards` (every place that
enters a VM counter, its limit, what the refusal under it is nested in) decides which one the
analysed tree has (`C11_depth_guards_generated`).

Registries are the fourth half: per-request state the server keeps for the whole process in a
map (`requestFormatterSlots`: the `onFormat` envelope of the request; `requestAttrBags`: its
`$r->attribute()` bag), stored, looked up and deleted under a key.  `Model.ReqReg` has the key
function as a parameter: `C11_registry_isolation` is the isolation of a request whose key no other
scheduled request uses (whatever those do: attach, detach, finish), `C11_registry_key_reuse` says a
key may be recycled once its holder has detached, `C11_shared_registry_key_leaks` is the lost
envelope / foreign attribute when two requests in flight share a key, and the regenerated fact
`registries` (every use of every package-level map of `std/net/http` with its key expression)
decides which one the analysed tree has (`C11_registry_keys_generated`).

Trusted, not proved: `net/http` hands every request its own `*http.Request`; the Go memory
model (steps are atomic in the model; the real caches are plain pointers — the parallel-load
stream of the harness samples that).
-/
namespace C11
open Model.Req Proofs.Req

/-! ## Non-interference -/

/-- **Projection.** For a request whose steps touch only superglobals stored per request
(whatever the others touch), after *any* schedule — any number of in-flight requests, any
interleaving, complete or not — its state (program counter, locals, every value read, body)
is what it would be had it been served alone for the number of turns the schedule gave it. -/
theorem C11_noninterference_prefix (w : World) (r : Rid) (hp : PrivPc w (w.prog r)) (sched : List Rid) :
    (run w (init w) sched).req r = (run w (init w) (List.replicate (sched.count r) r)).req r :=
  (sim_run (w := w) (r := r) sched (sim_refl w r (init w)) hp).1

/-- **What holds on the pinned tree** (`_partial`: the hypothesis excludes exactly the reads
and writes of superglobals whose cache is package-level — the known finding): if the steps
of request `r` touch only per-request cells, its response under every schedule that lets it
finish equals its solo response.  No assumption on the other requests. -/
theorem C11_noninterference_partial (w : World) (r : Rid) (hp : PrivPc w (w.prog r)) (sched : List Rid)
    (hdone : (w.prog r).length ≤ sched.count r) :
    response (run w (init w) sched) r = soloResponse w r := by
  unfold response soloResponse solo response
  rw [C11_noninterference_prefix w r hp sched]
  have := run_solo_saturate w r (init w) (sched.count r) (by simpa [init] using hdone)
  rw [this]
  rfl

/-- **C11, full strength.** If every superglobal is stored per request, then for every
schedule and every request that the schedule lets finish, the response equals the response
of the same request served alone. -/
theorem C11_noninterference (w : World) (h : ∀ k, w.scope k = .perRequest) (sched : List Rid) (r : Rid)
    (hdone : (w.prog r).length ≤ sched.count r) :
    response (run w (init w) sched) r = soloResponse w r :=
  C11_noninterference_partial w r (fun _ _ k _ => h k) sched hdone

/-- A request served alone produces what the specification computes from the request's own
data (whatever the scope of the caches: alone, a request only ever meets its own arrays). -/
theorem C11_solo_refines_spec (w : World) (r : Rid) :
    soloResponse w r = Spec.Req.respond w.env (w.data r) (w.prog r) := by
  unfold soloResponse solo response Spec.Req.respond
  have h1 := run_solo_iter w r (w.prog r).length (init w)
  have h2 := iter_abs w.env (w.data r) (w.prog r) ((init w).req r) (cellView w (init w) r) rfl
  have hreq : (run w (init w) (List.replicate (w.prog r).length r)).req r
      = (iter w.env (w.data r) (w.prog r).length ((init w).req r, cellView w (init w) r)).1 := by
    rw [← h1]
  rw [hreq]
  have hb := congrArg Spec.Req.Own.body h2
  have hinit : abs ((init w).req r) (cellView w (init w) r) = ({} : Spec.Req.Own) := by
    simp only [abs, init]
    congr 1
    funext k
    simp only [cellView, Cells.empty]
    cases w.scope k <;> rfl
  rw [hinit] at hb
  exact hb

/-- **A response depends on its request**: with per-request storage the response under any
schedule is the specification's function of the request's own data and handler. -/
theorem C11_response_function_of_request (w : World) (h : ∀ k, w.scope k = .perRequest) (sched : List Rid)
    (r : Rid) (hdone : (w.prog r).length ≤ sched.count r) :
    response (run w (init w) sched) r = Spec.Req.respond w.env (w.data r) (w.prog r) := by
  rw [C11_noninterference w h sched r hdone, C11_solo_refines_spec]

/-! ## Locals, parameters, request object -/

/-- **Locals are private** (any scope of the caches): steps of other requests never change a
request's program counter, locals, parse state, values read or body. -/
theorem C11_locals_private (w : World) (s : State) (r : Rid) (sched : List Rid) (h : r ∉ sched) :
    (run w s sched).req r = s.req r :=
  run_frame w r sched s h

/-- A handler that uses no superglobal at all (request object, locals, gates, writes) is
isolated on **every** tree, whatever the scope table says. -/
theorem C11_superglobal_free_isolated (w : World) (r : Rid) (hfree : ∀ st ∈ w.prog r, st.kinds = [])
    (sched : List Rid) (hdone : (w.prog r).length ≤ sched.count r) :
    response (run w (init w) sched) r = soloResponse w r :=
  C11_noninterference_partial w r (fun st hst k hk => by rw [hfree st hst] at hk; cases hk) sched hdone

/-- **Sequential service is fresh** (any scope): a request whose first step is the reset
(`Handler.ServeHTTP`), served with nothing else in flight after an arbitrary history `s` of
earlier requests, behaves as on a fresh process. -/
theorem C11_sequential_fresh (w : World) (s : State) (r : Rid) (rest : List Step)
    (hprog : w.prog r = .reset :: rest) (hq : s.req r = (init w).req r) (n : Nat) :
    (run w s (List.replicate n r)).req r = (run w (init w) (List.replicate n r)).req r := by
  have h1 := congrArg Prod.fst (run_solo_iter w r n s)
  have h2 := congrArg Prod.fst (run_solo_iter w r n (init w))
  simp only at h1 h2
  rw [h1, h2, hq]
  cases n with
  | zero => rfl
  | succ n =>
    rw [iter_reset_first w.env (w.data r) ((init w).req r) rest (by simp [init, hprog])]

/-! ## The known finding: package-level caches leak between overlapping requests -/

/-- two requests `?x=7` and `?x=8` against `function($req,$res){ $a=$_GET["x"]; verif_gate(); $b=$_GET["x"]; $res->write(…) }` -/
def leakWorld : World where
  scope := fun _ => .packageLevel
  prog := fun r =>
    if r = 0 then [.reset, .readSG .get 0, .gate, .readSG .get 0, .write]
    else if r = 1 then [.reset, .readSG .get 0, .write] else []
  data := fun r => { query := [(0, 7 + r)] }

/-- A is parked at the gate between its two reads while B runs to completion -/
def leakSched : List Rid := [0, 0, 0, 1, 1, 1, 0, 0]

/-- **Negation witness** (replayed on the real server with `verif_gate` on every run): with
package-level caches there is a schedule of two complete requests in which A's second read
of `$_GET["x"]` returns B's value — A answers `7,8`, alone it answers `7,7`. -/
theorem C11_shared_cache_leaks :
    ∃ (w : World) (sched : List Rid), (∀ k, w.scope k = .packageLevel) ∧
      (∀ r, (w.prog r).length ≤ sched.count r) ∧
      response (run w (init w) sched) 0 = [some 7, some 8] ∧ soloResponse w 0 = [some 7, some 7] := by
  refine ⟨leakWorld, leakSched, fun _ => rfl, ?_, by decide, by decide⟩
  intro r
  by_cases h0 : r = 0
  · subst h0; decide
  · by_cases h1 : r = 1
    · subst h1; decide
    · simp [leakWorld, h0, h1]

/-- hence the unconditional statement is false for the package-level scope -/
theorem C11_noninterference_counterexample :
    ¬ (∀ (w : World) (sched : List Rid) (r : Rid), (w.prog r).length ≤ sched.count r →
        response (run w (init w) sched) r = soloResponse w r) := by
  intro h
  obtain ⟨w, sched, _, hd, h1, h2⟩ := C11_shared_cache_leaks
  have := h w sched 0 (hd 0)
  rw [h1, h2] at this
  exact absurd this (by decide)

/-- B has reset and is parked before its first read; A reads again (refilling the cache from
A's request); B's **first** read of `$_GET["x"]` then returns A's value. -/
def firstReadWorld : World where
  scope := fun _ => .packageLevel
  prog := fun r =>
    if r = 0 then [.reset, .readSG .get 0, .gate, .readSG .get 0, .write]
    else if r = 1 then [.reset, .gate, .readSG .get 0, .write] else []
  data := fun r => { query := [(0, 7 + r)] }

theorem C11_first_read_leaks :
    response (run firstReadWorld (init firstReadWorld) [0, 0, 0, 1, 1, 0, 0, 1, 1]) 1 = [some 7] ∧
    soloResponse firstReadWorld 1 = [some 8] := by
  constructor <;> decide

/-- A write to a superglobal (`$_SESSION["u"] = …`) by one request is read by another. -/
def writeWorld : World where
  scope := fun _ => .packageLevel
  prog := fun r =>
    if r = 0 then [.reset, .writeSG .session 0 5, .gate, .readSG .session 0, .write]
    else if r = 1 then [.reset, .gate, .readSG .session 0, .write] else []
  data := fun _ => {}

theorem C11_superglobal_write_leaks :
    response (run writeWorld (init writeWorld) [1, 1, 0, 0, 0, 1, 1, 0, 0]) 1 = [some 5] ∧
    soloResponse writeWorld 1 = [none] := by
  constructor <;> decide

/-- Script code that runs **before** the reset (a middleware ahead of `Handler.ServeHTTP`)
reads the arrays cached for the previous request even when requests are served strictly one
after the other. -/
def staleWorld : World where
  scope := fun _ => .packageLevel
  prog := fun r =>
    if r ≤ 1 then [.readSG .get 0, .write, .reset, .readSG .get 0, .write] else []
  data := fun r => { query := [(0, 7 + r)] }

theorem C11_stale_before_reset :
    response (run staleWorld (init staleWorld) [0, 0, 0, 0, 0, 1, 1, 1, 1, 1]) 1 = [some 7, some 8] ∧
    soloResponse staleWorld 1 = [some 8, some 8] := by
  constructor <;> decide

/-! ## Obligations on the regenerated facts -/

/-- the entries of `known_findings.json` for C11 as they appear in the facts: the nine
superglobals served from package-level variables of package `node` (whatever the variables are called) -/
def Known : List String :=
  ["shared:$_GET", "shared:$_POST", "shared:$_COOKIE", "shared:$_SERVER", "shared:$_REQUEST",
   "shared:$_FILES", "shared:$_SESSION", "shared:$_ENV", "shared:$GLOBALS"]

/-- **Obligation** (`violations facts ⊆ Known`, DESIGN §2.6): the only isolation violations
in the current source are the known package-level superglobal caches — every cache variable
is cleared by `ResetSuperglobals`, no other package-level variable sits on the request path
except the request-keyed `sync.Map`s, and the translator understood every shape.  Code that
stores a superglobal per request drops entries from the left side and keeps this true. -/
theorem C11_superglobals_known :
    (Generated.C11Superglobals.facts.violations.all (fun v => Known.contains v)) = true := by
  decide

/-- **Obligation**: no script code of a request (closure handler, function or class
middleware, annotation controller, error handler) runs before the caches were reset for that
request, and every context handed to script code is created for the request. -/
theorem C11_entries_reset_first : Generated.C11Superglobals.facts.entryViolations = [] := by
  decide

/-- the model instantiated with the regenerated scope table -/
def generatedWorld (prog : Rid → List Step) (data : Rid → ReqData) (env : Content) : World :=
  { scope := Generated.C11Superglobals.facts.scope, prog := prog, data := data, env := env }

/-- **Instance for the analysed tree**: a request that touches only superglobals the current
source stores per request (on the pinned tree: none of them, i.e. it uses the request object,
locals, parameters and closures) is isolated under every schedule. -/
theorem C11_noninterference_generated (prog : Rid → List Step) (data : Rid → ReqData) (env : Content) (r : Rid)
    (hp : ∀ st ∈ prog r, ∀ k ∈ st.kinds, Generated.C11Superglobals.facts.scope k = .perRequest)
    (sched : List Rid) (hdone : (prog r).length ≤ sched.count r) :
    response (run (generatedWorld prog data env) (init (generatedWorld prog data env)) sched) r
      = Spec.Req.respond env (data r) (prog r) := by
  rw [C11_noninterference_partial (generatedWorld prog data env) r hp sched hdone, C11_solo_refines_spec]
  rfl

/-! ## Values made per request: closures (generators, objects) and the shared syntax tree -/

section Site
open Model.ReqSite Proofs.ReqSite

/-- **Projection** for values made per evaluation: a request all of whose closure literals keep
their environment in the fresh closure object is, after *any* schedule (any number of requests
evaluating and calling the same literals, any interleaving, complete or not), in the state its
own turns alone produce. -/
theorem C11_site_noninterference_prefix (w : Model.ReqSite.World) (r : Rid)
    (hp : PrivProg w.scope (w.prog r)) (sched : List Rid) :
    (Model.ReqSite.run w (Model.ReqSite.init w) sched).req r
      = (Model.ReqSite.run w (Model.ReqSite.init w) (List.replicate (sched.count r) r)).req r :=
  Proofs.ReqSite.sim_run w r sched _ _ rfl ⟨hp, by intro slot c h; simp [Model.ReqSite.init] at h⟩

/-- **Isolation of per-request values**: under every schedule that lets it finish, the request
answers what it answers alone, which is the specification's function of its own datum — every
call of a closure it made observes its own `$this` / captured variables.  No assumption on the
other requests. -/
theorem C11_site_noninterference (w : Model.ReqSite.World) (r : Rid)
    (hp : PrivProg w.scope (w.prog r)) (sched : List Rid) (hdone : (w.prog r).length ≤ sched.count r) :
    Model.ReqSite.response (Model.ReqSite.run w (Model.ReqSite.init w) sched) r = Model.ReqSite.soloResponse w r ∧
    Model.ReqSite.soloResponse w r = Spec.ReqSite.respond (w.env r) (w.prog r) := by
  constructor
  · unfold Model.ReqSite.response Model.ReqSite.soloResponse Model.ReqSite.solo Model.ReqSite.response
    rw [C11_site_noninterference_prefix w r hp sched]
    have := run_saturate w r (sched.count r) (Model.ReqSite.init w) (by simpa [Model.ReqSite.init] using hdone)
    rw [this]
    rfl
  · unfold Model.ReqSite.soloResponse Model.ReqSite.solo Model.ReqSite.response Spec.ReqSite.respond
    exact solo_spec w.scope (w.env r) (w.prog r) { pc := w.prog r } [] rfl
      ⟨hp, by intro slot c h; simp at h⟩ (by intro slot; simp) (by intro slot c h; simp at h)
      w rfl r rfl (Model.ReqSite.init w) rfl

/-- one closure literal in a class method, two requests: make the closure, (gate,) call it -/
def siteWorld (sc : SiteScope) : Model.ReqSite.World where
  scope := fun _ => sc
  prog := fun _ => [.mk 0 0, .gate, .call 0, .write]
  env := fun r => 7 + r

/-- **Negation witness** (the seeded class of change, `f.ctx = ctx; return NewFuncValue(f)`):
with the environment kept in the syntax node, request 0 parked between making and calling its
closure while request 1 evaluates the same literal answers with request 1's datum; alone it
answers with its own. -/
theorem C11_node_slot_leaks :
    Model.ReqSite.response (Model.ReqSite.run (siteWorld .inNode) (Model.ReqSite.init (siteWorld .inNode)) [0, 0, 1, 1, 1, 1, 0, 0]) 0 = [some 8] ∧
    Model.ReqSite.soloResponse (siteWorld .inNode) 0 = [some 7] ∧
    Model.ReqSite.response (Model.ReqSite.run (siteWorld .perEvaluation) (Model.ReqSite.init (siteWorld .perEvaluation)) [0, 0, 1, 1, 1, 1, 0, 0]) 0 = [some 7] := by
  decide

/-- **Obligation + instance for the analysed tree**: no evaluation-time method of a syntax node
of package `node` stores into its own receiver, except the listed memos of process-wide
definitions and the cells that are shared by the language's design (regenerated every run);
hence every site keeps its values per evaluation and every request is isolated with respect
to the closures it makes, under every schedule. -/
theorem C11_site_noninterference_generated :
    Generated.C11Superglobals.facts.nodeWriteViolations = [] ∧
    ∀ (prog : Rid → List Model.ReqSite.Step) (env : Rid → Model.ReqSite.Val) (r : Rid) (sched : List Rid),
      (prog r).length ≤ sched.count r →
      let w : Model.ReqSite.World := { scope := scopeOf Generated.C11Superglobals.facts, prog := prog, env := env }
      Model.ReqSite.response (Model.ReqSite.run w (Model.ReqSite.init w) sched) r = Spec.ReqSite.respond (env r) (prog r) := by
  have hv : Generated.C11Superglobals.facts.nodeWriteViolations = [] := by decide
  refine ⟨hv, ?_⟩
  intro prog env r sched hdone w
  have hp : PrivProg w.scope (w.prog r) := by
    intro s slot _
    show scopeOf Generated.C11Superglobals.facts s = .perEvaluation
    simp [scopeOf, hv]
  have h := C11_site_noninterference w r hp sched hdone
  rw [h.1, h.2]

end Site

section Limit
open Model.ReqLimit Proofs.ReqLimit

/-- **(i) Bookkeeping.** After *any* interleaving of the enter / leave operations of any number of
requests — whatever the guards are decided on, refusals and their unwinding included — the
VM's counter is the sum of the counted frames the requests hold: `c = Σ d_i`. -/
theorem C11_depth_counter_is_sum (w : Model.ReqLimit.World) (sched : List Rid) :
    (Model.ReqLimit.run w (Model.ReqLimit.init w) sched).cnt
      = total w.guards (Model.ReqLimit.run w (Model.ReqLimit.init w) sched) w.n :=
  inv_run w sched _ (inv_init w)

/-- **(ii) The decision of an `own` guard is a function of the calling request alone**: in every
reachable state, for every request and every frame it may enter next, the guard refuses iff the
request's *own* frames (the entering one included) exceed the limit — the process-wide number,
i.e. what all the other requests hold, does not enter. -/
theorem C11_depth_decision_own (w : Model.ReqLimit.World) (sched : List Rid) (r : Rid) (hr : r < w.n)
    (k : Callee) (gd : Guard) (hon : gd.on = .own) (hok : GuardOK w.guards gd) :
    refuse gd ((Model.ReqLimit.run w (Model.ReqLimit.init w) sched).cnt + 1)
        (ownDepth gd k ((Model.ReqLimit.run w (Model.ReqLimit.init w) sched).req r))
      = decide (ownDepth gd k ((Model.ReqLimit.run w (Model.ReqLimit.init w) sched).req r) > gd.ownLimit) :=
  refuse_own w.guards gd k _ _ hon hok
    (depth_le_cnt w _ r hr (inv_run w sched _ (inv_init w)))

/-- **Projection** for limits: when every guard decides on the request's own frames, a request is,
after *any* schedule (any number of requests holding any number of frames, complete or not), in
the state its own turns alone produce. -/
theorem C11_depth_noninterference_prefix (w : Model.ReqLimit.World) (hg : GoodGuards w.guards) (r : Rid)
    (sched : List Rid) :
    (Model.ReqLimit.run w (Model.ReqLimit.init w) sched).req r
      = (Model.ReqLimit.run w (Model.ReqLimit.init w) (List.replicate (sched.count r) r)).req r :=
  Proofs.ReqLimit.sim_run w hg r sched _ _ (inv_init w) (inv_init w) rfl

/-- **Isolation of limits**: under every schedule that lets it finish, the request answers what it
answers alone (accepted, or refused with the same reported depth), which is the specification's
function of its own program: refused iff its own frames exceed the limit.  No assumption on the
other requests. -/
theorem C11_depth_noninterference (w : Model.ReqLimit.World) (hg : GoodGuards w.guards) (r : Rid) (hr : r < w.n)
    (sched : List Rid) (hdone : (w.prog r).length ≤ sched.count r) :
    Model.ReqLimit.response (Model.ReqLimit.run w (Model.ReqLimit.init w) sched) r = Model.ReqLimit.soloResponse w r ∧
    Model.ReqLimit.soloResponse w r = Spec.ReqLimit.respond w.guards (w.prog r) := by
  constructor
  · unfold Model.ReqLimit.response Model.ReqLimit.soloResponse Model.ReqLimit.solo Model.ReqLimit.response
    rw [C11_depth_noninterference_prefix w hg r sched]
    rw [Proofs.ReqLimit.run_saturate w r hr (sched.count r) (w.prog r).length (Model.ReqLimit.init w)
      (by simpa [Model.ReqLimit.init] using hdone) (by simp [Model.ReqLimit.init])]
  · unfold Model.ReqLimit.soloResponse Model.ReqLimit.solo Model.ReqLimit.response Spec.ReqLimit.respond
    exact Proofs.ReqLimit.solo_spec w hg r hr (w.prog r) (Model.ReqLimit.init w) rfl (inv_init w)

/-- one guarded kind of frame ("m", limit 2); request 0 descends two frames and parks, request 1 needs one -/
def limitWorld (on : DecidesOn) : Model.ReqLimit.World where
  n := 2
  guards := fun k => if k = "m" then some { limit := 2, ownLimit := 2, on := on, ownCounts := ["m"] } else none
  prog := fun r => if r = 0 then [.enter "m", .enter "m", .gate, .leave, .leave, .write]
                   else [.enter "f", .enter "m", .leave, .leave, .write]

/-- **(iii) Negation witness** (the seeded class of change, `if depth := vm.EnterCall(); depth > limit
{ … return error }`): with the refusal decided on the process-wide number, request 1 — one counted
frame deep — is refused with "depth 3" while request 0 is parked holding two frames; alone it is
served; decided on its own frames it is served under the same schedule. -/
theorem C11_shared_depth_guard_leaks :
    Model.ReqLimit.response (Model.ReqLimit.run (limitWorld .shared) (Model.ReqLimit.init (limitWorld .shared)) [0, 0, 0, 1, 1, 1, 1, 1, 0, 0, 0]) 1 = .refused 3 ∧
    Model.ReqLimit.soloResponse (limitWorld .shared) 1 = .ok ∧
    Model.ReqLimit.response (Model.ReqLimit.run (limitWorld .own) (Model.ReqLimit.init (limitWorld .own)) [0, 0, 0, 1, 1, 1, 1, 1, 0, 0, 0]) 1 = .ok ∧
    Model.ReqLimit.response (Model.ReqLimit.run (limitWorld .shared) (Model.ReqLimit.init (limitWorld .shared)) [0, 0, 0, 1, 1, 1, 1, 1, 0, 0, 0]) 0 = .ok := by
  decide

/-- the full statement fails for a guard decided on the sum -/
theorem C11_depth_noninterference_counterexample :
    ¬ (∀ (w : Model.ReqLimit.World) (r : Rid) (sched : List Rid), r < w.n → (w.prog r).length ≤ sched.count r →
        Model.ReqLimit.response (Model.ReqLimit.run w (Model.ReqLimit.init w) sched) r = Model.ReqLimit.soloResponse w r) := by
  intro h
  have := h (limitWorld .shared) 1 [0, 0, 0, 1, 1, 1, 1, 1, 0, 0, 0] (by decide) (by decide)
  revert this
  decide

/-- **Obligation + instance for the analysed tree**: every place that enters a process-wide counter
of the VM (regenerated every run from all non-test Go files) refuses only under a count of the
calling goroutine's own frames — frames that are counted in the process-wide number, against a
limit not below the process-wide one —, leaves the counter on every path, and the VM has no
other numeric field; hence under every schedule every request is served or refused as the
specification's function of its own program says. -/
theorem C11_depth_guards_generated :
    Generated.C11Superglobals.facts.guardViolations = [] ∧
    ∀ (n : Nat) (prog : Rid → List Model.ReqLimit.Step) (r : Rid) (sched : List Rid), r < n →
      (prog r).length ≤ sched.count r →
      let w : Model.ReqLimit.World := { n := n, guards := guardsOf Generated.C11Superglobals.facts, prog := prog }
      Model.ReqLimit.response (Model.ReqLimit.run w (Model.ReqLimit.init w) sched) r
        = Spec.ReqLimit.respond (guardsOf Generated.C11Superglobals.facts) (prog r) := by
  have hv : Generated.C11Superglobals.facts.guardViolations = [] := by decide
  have hi : Generated.C11Superglobals.facts.guardsIsolated = true := by decide
  refine ⟨hv, ?_⟩
  intro n prog r sched hr hdone w
  have h := C11_depth_noninterference w (goodGuards_of_facts _ hi) r hr sched hdone
  rw [h.1, h.2]

end Limit

section Registry
open Model.ReqReg Proofs.ReqReg

/-- the other requests of the schedule store, load and delete under keys other than `r`'s -/
def KeyApart (w : Model.ReqReg.World) (r : Rid) (sched : List Rid) : Prop :=
  ∀ a ∈ sched, a ≠ r → w.key a ≠ w.key r

/-- **Projection** for registries: if no other request of the schedule uses `r`'s key, then after
*any* interleaving (any number of requests attaching, looking up, detaching, finishing — complete
or not) request `r` and the entries under its key are where its own turns alone leave them. -/
theorem C11_registry_isolation_prefix (w : Model.ReqReg.World) (r : Rid) (sched : List Rid)
    (hk : KeyApart w r sched) :
    (Model.ReqReg.run w (Model.ReqReg.init w) sched).req r
        = (Model.ReqReg.run w (Model.ReqReg.init w) (List.replicate (sched.count r) r)).req r ∧
    Model.ReqReg.view w (Model.ReqReg.run w (Model.ReqReg.init w) sched) r
        = Model.ReqReg.view w (Model.ReqReg.run w (Model.ReqReg.init w) (List.replicate (sched.count r) r)) r := by
  have h := Proofs.ReqReg.sim_run w r sched (Model.ReqReg.init w) (Model.ReqReg.init w) rfl hk
  exact ⟨congrArg Prod.fst h, congrArg Prod.snd h⟩

/-- **(i) Isolation of registry state**: under every schedule that lets it finish and in which the
other requests use other keys, every lookup of the request returns what the request itself
attached (and has not detached): its response is its solo response, which is the specification's
function of its own program.  No assumption on what the other requests do. -/
theorem C11_registry_isolation (w : Model.ReqReg.World) (r : Rid) (sched : List Rid)
    (hk : KeyApart w r sched) (hdone : (w.prog r).length ≤ sched.count r) :
    Model.ReqReg.response (Model.ReqReg.run w (Model.ReqReg.init w) sched) r = Model.ReqReg.soloResponse w r ∧
    Model.ReqReg.soloResponse w r = Spec.ReqReg.respond (w.prog r) := by
  constructor
  · unfold Model.ReqReg.response Model.ReqReg.soloResponse Model.ReqReg.solo Model.ReqReg.response
    rw [(C11_registry_isolation_prefix w r sched hk).1]
    have := congrArg Prod.fst (Proofs.ReqReg.run_saturate w r (sched.count r) (Model.ReqReg.init w)
      (by simpa [Model.ReqReg.init] using hdone))
    simp only [Proofs.ReqReg.proj] at this
    rw [this]
    rfl
  · unfold Model.ReqReg.soloResponse Model.ReqReg.solo Model.ReqReg.response Spec.ReqReg.respond
    exact (Proofs.ReqReg.solo_spec w r (w.prog r) (Model.ReqReg.init w) [] rfl (fun _ => rfl)).1

/-- with an **injective key function** (the `*http.Request` pointer) every request is isolated under
every schedule, any number of requests in flight -/
theorem C11_registry_isolation_injective (w : Model.ReqReg.World) (hinj : ∀ a b, w.key a = w.key b → a = b)
    (sched : List Rid) (r : Rid) (hdone : (w.prog r).length ≤ sched.count r) :
    Model.ReqReg.response (Model.ReqReg.run w (Model.ReqReg.init w) sched) r = Spec.ReqReg.respond (w.prog r) := by
  have h := C11_registry_isolation w r sched (fun a _ hne hk => hne (hinj a r hk)) hdone
  rw [h.1, h.2]

/-- **A key may be recycled once its holder has detached**: request `r₁` finishes during `s₁` and
leaves nothing attached (`Spec.ReqReg.leaves = []`: every layer ends with the detach); request `r₂`,
which has the *same* key (an address reused for a later `*http.Request`), runs during `s₂`; the other
requests of both phases use other keys.  Then `r₂` is answered as if it were alone. -/
theorem C11_registry_key_reuse (w : Model.ReqReg.World) (r₁ r₂ : Rid) (s₁ s₂ : List Rid)
    (h2 : r₂ ∉ s₁) (h1 : r₁ ∉ s₂) (hk₁ : KeyApart w r₁ s₁) (hk₂ : ∀ a ∈ s₂, a ≠ r₂ → w.key a ≠ w.key r₂)
    (hsame : w.key r₁ = w.key r₂)
    (hdone₁ : (w.prog r₁).length ≤ s₁.count r₁) (hclean : Spec.ReqReg.leaves (w.prog r₁) = [])
    (hdone₂ : (w.prog r₂).length ≤ s₂.count r₂) :
    Model.ReqReg.response (Model.ReqReg.run w (Model.ReqReg.init w) (s₁ ++ s₂)) r₂ = Spec.ReqReg.respond (w.prog r₂) := by
  have _ := h1
  -- after the first phase nothing is attached under the shared key
  have hv1 : ∀ g, Model.ReqReg.view w (Model.ReqReg.run w (Model.ReqReg.init w) s₁) r₁ g = none := by
    intro g
    rw [(C11_registry_isolation_prefix w r₁ s₁ hk₁).2]
    have hsat := congrArg Prod.snd (Proofs.ReqReg.run_saturate w r₁ (s₁.count r₁) (Model.ReqReg.init w)
      (by simpa [Model.ReqReg.init] using hdone₁))
    simp only [Proofs.ReqReg.proj] at hsat
    rw [hsat]
    have hs := (Proofs.ReqReg.solo_spec w r₁ (w.prog r₁) (Model.ReqReg.init w) [] rfl (fun _ => rfl)).2 g
    have hl : (Spec.ReqReg.go (w.prog r₁) [] [] []).2 = [] := hclean
    simp only [Model.ReqReg.init] at hs ⊢
    rw [hs, hl]
    rfl
  have hproj : Proofs.ReqReg.proj w (Model.ReqReg.run w (Model.ReqReg.init w) s₁) r₂
      = Proofs.ReqReg.proj w (Model.ReqReg.init w) r₂ := by
    unfold Proofs.ReqReg.proj
    rw [Proofs.ReqReg.run_req_frame w r₂ s₁ _ h2]
    congr 1
    funext g
    have := hv1 g
    simp only [Model.ReqReg.view, hsame] at this
    show (Model.ReqReg.run w (Model.ReqReg.init w) s₁).regs g (w.key r₂) = (Model.ReqReg.init w).regs g (w.key r₂)
    rw [this]
    rfl
  rw [Proofs.ReqReg.run_append]
  have hsim := congrArg Prod.fst (Proofs.ReqReg.sim_run w r₂ s₂ _ _ hproj hk₂)
  simp only [Proofs.ReqReg.proj] at hsim
  unfold Model.ReqReg.response
  rw [hsim]
  have hsat := congrArg Prod.fst (Proofs.ReqReg.run_saturate w r₂ (s₂.count r₂) (Model.ReqReg.init w)
    (by simpa [Model.ReqReg.init] using hdone₂))
  simp only [Proofs.ReqReg.proj] at hsat
  rw [hsat]
  exact (Proofs.ReqReg.solo_spec w r₂ (w.prog r₂) (Model.ReqReg.init w) [] rfl (fun _ => rfl)).1

/-- registry 0 = the formatter slots (value 1 = the server's `onFormat` slot), registry 1 = one
attribute of the bag.  Request 0: the formatter middleware attaches, a closure middleware sets
the attribute and parks, then the handler's `beginResponse` looks the slot up, the handler reads
the attribute, answers, detaches.  Request 1: the same without parking. -/
def regWorld (key : Rid → Model.ReqReg.Key) : Model.ReqReg.World where
  key := key
  prog := fun r =>
    if r = 0 then [.attach 0 1, .attach 1 7, .gate, .lookup 0, .lookup 1, .write, .detach 0, .detach 1]
    else [.attach 0 1, .attach 1 8, .lookup 0, .lookup 1, .write, .detach 0, .detach 1]

/-- request 0 up to its gate, request 1 to completion, request 0 to its end -/
def regSched : List Rid := [0, 0, 0] ++ [1, 1, 1, 1, 1, 1, 1] ++ [0, 0, 0, 0, 0]

/-- **(ii) Negation witness** (the seeded class of change, `requestFormatterSlots.Store(r.Context(), slot)`):
with a key that two requests in flight share, request 0 — parked between the attach and its final
lookup while request 1 finishes and detaches — finds neither the server's envelope nor its
attribute (`[none, none]`); alone it finds both (`[some 1, some 7]`); keyed by its identity it finds
both under the same schedule.  Released before request 1 detaches, it reads request 1's attribute. -/
theorem C11_shared_registry_key_leaks :
    Model.ReqReg.response (Model.ReqReg.run (regWorld fun _ => 0) (Model.ReqReg.init (regWorld fun _ => 0)) regSched) 0 = [none, none] ∧
    Model.ReqReg.soloResponse (regWorld fun _ => 0) 0 = [some 1, some 7] ∧
    Model.ReqReg.response (Model.ReqReg.run (regWorld id) (Model.ReqReg.init (regWorld id)) regSched) 0 = [some 1, some 7] ∧
    Model.ReqReg.response (Model.ReqReg.run (regWorld fun _ => 0) (Model.ReqReg.init (regWorld fun _ => 0))
      ([0, 0, 0] ++ [1, 1] ++ [0, 0, 0, 0, 0] ++ [1, 1, 1, 1, 1])) 0 = [some 1, some 8] := by
  decide

/-- the full statement fails for a key that does not identify the request -/
theorem C11_registry_isolation_counterexample :
    ¬ (∀ (w : Model.ReqReg.World) (r : Rid) (sched : List Rid), (w.prog r).length ≤ sched.count r →
        Model.ReqReg.response (Model.ReqReg.run w (Model.ReqReg.init w) sched) r = Model.ReqReg.soloResponse w r) := by
  intro h
  have := h (regWorld fun _ => 0) 0 regSched (by decide)
  revert this
  decide

/-- **Obligation + instance for the analysed tree**: every use of every package-level map of
`std/net/http` (regenerated every run: Store / Load / LoadOrStore / Delete sites, and every call
of a function that keys a registry by its parameter) has the `*http.Request` itself as the key,
no site walks or clears a whole registry, and every registry is deleted from; hence the key
function of the tree is the request's identity and every request finds, under every schedule
and any number of requests in flight, exactly what it attached itself. -/
theorem C11_registry_keys_generated :
    Generated.C11Superglobals.facts.registryViolations = [] ∧
    ∀ (prog : Rid → List Model.ReqReg.Step) (r : Rid) (sched : List Rid), (prog r).length ≤ sched.count r →
      let w : Model.ReqReg.World := { key := keyOf Generated.C11Superglobals.facts, prog := prog }
      Model.ReqReg.response (Model.ReqReg.run w (Model.ReqReg.init w) sched) r = Spec.ReqReg.respond (prog r) := by
  have hv : Generated.C11Superglobals.facts.registryViolations = [] := by decide
  refine ⟨hv, ?_⟩
  intro prog r sched hdone w
  apply C11_registry_isolation_injective w _ sched r hdone
  intro a b hab
  simpa [w, keyOf, hv] using hab

end Registry

section CallSite
open Model.ReqIC Proofs.ReqIC

/-- **Call-site memory, isolation (prefix form).** The node of `$obj->m(…)` may remember the class
and the resolved method of the receiver it saw last, provided probe and fill are indivisible
(`publish ≠ torn`) and — when it remembers anything at all — the class identity of `r`'s receiver is
`r`'s alone (`Apart`: the per-request proxy classes of `$req` / `$res`).  Then after ANY schedule —
any number of other requests executing the same call sites, with whatever receivers, parked wherever —
what is left of `r`'s program, continued by the specification, gives the specified response: every
call `r` has made so far observed `r`'s own datum. -/
theorem C11_callsite_isolation_prefix (w : Model.ReqIC.World) (hp : w.publish ≠ .torn) (r : Rid)
    (ha : w.publish = .atomic → Apart w r) (sched : List Rid) :
    let s := Model.ReqIC.run w (Model.ReqIC.init w) sched
    Spec.ReqIC.go (w.env r) (s.req r).pc (s.req r).pending (s.req r).body = Spec.ReqIC.respond (w.env r) (w.prog r) :=
  (inv_run w hp r ha sched _ (inv_init w r)).onTrack

/-- **Call-site memory, isolation.** Under the same hypotheses every request the schedule lets finish
has written what it writes when served alone, which is the specification's function of its own
datum and program. -/
theorem C11_callsite_isolation (w : Model.ReqIC.World) (hp : w.publish ≠ .torn) (r : Rid)
    (ha : w.publish = .atomic → Apart w r) (sched : List Rid)
    (hdone : Model.ReqIC.finished (Model.ReqIC.run w (Model.ReqIC.init w) sched) r = true) :
    Model.ReqIC.response (Model.ReqIC.run w (Model.ReqIC.init w) sched) r = Model.ReqIC.soloResponse w r ∧
    Model.ReqIC.soloResponse w r = Spec.ReqIC.respond (w.env r) (w.prog r) := by
  have h1 := onTrack_finished (inv_run w hp r ha sched _ (inv_init w r)).onTrack
    (by simpa [Model.ReqIC.finished] using hdone)
  have h2 := onTrack_finished (inv_run w hp r ha (List.replicate (4 * (w.prog r).length) r) _ (inv_init w r)).onTrack
    (solo_finished w hp r)
  exact ⟨by simp only [Model.ReqIC.response, Model.ReqIC.soloResponse, Model.ReqIC.solo] at *; rw [h1, h2], h2⟩

/-- **No memory in the node** (what the pinned tree does: `class.GetMethod(name)` on every evaluation):
every request is isolated, whatever the class identities are. -/
theorem C11_callsite_no_memory (w : Model.ReqIC.World) (hp : w.publish = .none) (r : Rid) (sched : List Rid)
    (hdone : Model.ReqIC.finished (Model.ReqIC.run w (Model.ReqIC.init w) sched) r = true) :
    Model.ReqIC.response (Model.ReqIC.run w (Model.ReqIC.init w) sched) r = Spec.ReqIC.respond (w.env r) (w.prog r) := by
  have h := C11_callsite_isolation w (by simp [hp]) r (by simp [hp]) sched hdone
  rw [h.1, h.2]

/-- **Any node memory of a per-request-bound value leaks unless its key identifies the request** —
even with indivisible probe and fill.  Two different requests whose receivers have the SAME class
identity (a script class, a bound callable made from a shared definition, a proxy class made once
for all requests) but whose method objects are bound to the request: the second one to reach a call
site invokes the method the first one filed there and answers with the first one's datum.  For every
world of that shape, not for a sample. -/
theorem C11_callsite_shared_class_leaks (w : Model.ReqIC.World) (hp : w.publish = .atomic) (r₀ r₁ : Rid) (s : Site)
    (hne : r₀ ≠ r₁) (hk : w.cls r₀ = w.cls r₁) (p₀ : List Model.ReqIC.Step)
    (h₀ : w.prog r₀ = .call s :: p₀) (h₁ : w.prog r₁ = [.call s, .write]) :
    Model.ReqIC.response (Model.ReqIC.run w (Model.ReqIC.init w) [r₀, r₁, r₁]) r₁ = [some (w.env r₀)] ∧
    Spec.ReqIC.respond (w.env r₁) (w.prog r₁) = [some (w.env r₁)] := by
  have hne' : ¬ r₁ = r₀ := fun h => hne h.symm
  constructor
  · simp [Model.ReqIC.response, Model.ReqIC.run, Model.ReqIC.stepReq, Model.ReqIC.localStep, Model.ReqIC.exec,
      Model.ReqIC.init, Model.ReqIC.invoke, Cache.setCls, Cache.setMeth, hp, h₀, h₁, hk, hne']
  · simp [h₁, Spec.ReqIC.respond, Spec.ReqIC.go]

/-- two requests, per-request class identities (`cls r = r`: injective, as for `$req` / `$res`),
both executing call site 0 twice (a loop), datum `7 + r` -/
def icWorld (p : Model.ReqIC.Publish) : Model.ReqIC.World :=
  { publish := p, cls := fun r => r, prog := fun _ => [.call 0, .call 0, .write], env := fun r => 7 + r }

/-- **The torn publish** (seeded/C11-inline-method-cache-torn). Class identities are per request, so an
indivisible cache would be sound (`C11_callsite_isolation`); with two plain fields:
(fill torn) request 0 has stored `icClass`, request 1 fills both words, request 0 stores `icMethod` —
the node now reads (class of 1, method of 0) — and request 1, back at the site, hits and answers its
second call with request 0's datum: `[8, 7]`; alone `[8, 8]`; the same schedule with an indivisible
cache `[8, 8]`;
(probe torn) request 1 has loaded its own `icClass`, request 0 refills both words, request 1 loads
`icMethod`: `[8, 7]` again. -/
theorem C11_callsite_torn_publish_leaks :
    Model.ReqIC.response (Model.ReqIC.run (icWorld .torn) (Model.ReqIC.init (icWorld .torn)) [0, 0, 1, 1, 1, 0, 1, 1, 1]) 1
      = [some 8, some 7] ∧
    Model.ReqIC.response (Model.ReqIC.run (icWorld .torn) (Model.ReqIC.init (icWorld .torn)) [1, 1, 1, 1, 0, 0, 0, 1, 1]) 1
      = [some 8, some 7] ∧
    Model.ReqIC.soloResponse (icWorld .torn) 1 = [some 8, some 8] ∧
    Spec.ReqIC.respond ((icWorld .torn).env 1) ((icWorld .torn).prog 1) = [some 8, some 8] ∧
    Model.ReqIC.response (Model.ReqIC.run (icWorld .atomic) (Model.ReqIC.init (icWorld .atomic)) [0, 0, 1, 1, 1, 0, 1, 1, 1]) 1
      = [some 8, some 8] ∧
    Model.ReqIC.finished (Model.ReqIC.run (icWorld .torn) (Model.ReqIC.init (icWorld .torn)) [0, 0, 1, 1, 1, 0, 1, 1, 1]) 1 = true := by
  decide

/-- the isolation statement without `publish ≠ torn` is false, even with per-request class identities -/
theorem C11_callsite_isolation_counterexample :
    ¬ (∀ (w : Model.ReqIC.World) (r : Rid) (sched : List Rid), Apart w r →
        Model.ReqIC.finished (Model.ReqIC.run w (Model.ReqIC.init w) sched) r = true →
        Model.ReqIC.response (Model.ReqIC.run w (Model.ReqIC.init w) sched) r = Spec.ReqIC.respond (w.env r) (w.prog r)) := by
  intro h
  have := h (icWorld .torn) 1 [0, 0, 1, 1, 1, 0, 1, 1, 1] (fun r' hr => hr) (by decide)
  revert this
  decide

/-- **Obligation + instance for the analysed tree**: no evaluation-time method of a syntax node stores
into its own receiver outside the listed memos of process-wide definitions (regenerated every run) —
in particular no call-site node keeps a class / method / bound callable of the receiver it saw —
hence `publishOf facts = none` and every request's method calls act on the request itself, under
every schedule, any number of requests, any class identities. -/
theorem C11_callsite_generated :
    Generated.C11Superglobals.facts.nodeWriteViolations = [] ∧
    ∀ (cls : Rid → Cls) (prog : Rid → List Model.ReqIC.Step) (env : Rid → Model.ReqIC.Val) (r : Rid) (sched : List Rid),
      let w : Model.ReqIC.World := { publish := publishOf Generated.C11Superglobals.facts, cls := cls, prog := prog, env := env }
      Model.ReqIC.finished (Model.ReqIC.run w (Model.ReqIC.init w) sched) r = true →
      Model.ReqIC.response (Model.ReqIC.run w (Model.ReqIC.init w) sched) r = Spec.ReqIC.respond (env r) (prog r) := by
  have hv : Generated.C11Superglobals.facts.nodeWriteViolations = [] := by decide
  refine ⟨hv, ?_⟩
  intro cls prog env r sched w hdone
  exact C11_callsite_no_memory w (by simp [w, publishOf, hv]) r sched hdone

end CallSite

/-! ## Values captured by value by the shared handler closure (`Model.ReqCap`, round 7)

The route handler is ONE closure; what it captured by value at boot must reach every call as the
call's own copy — for every kind of value that can be changed in place, hidden iterator state
included. -/
section Capture

/-- every request that a schedule lets finish is answered as when served alone -/
def CaptureIsolated (w : Model.ReqCap.World) : Prop :=
  ∀ (r : Model.ReqCap.Rid) (sched : List Model.ReqCap.Rid),
    Model.ReqCap.finished (Model.ReqCap.run w (Model.ReqCap.init w) sched) r = true →
    Model.ReqCap.response (Model.ReqCap.run w (Model.ReqCap.init w) sched) r = Model.ReqCap.soloResponse w r

/-- **Isolation, prefix form.** With a private binding (the capture copies, or the value is
immutable) the whole state of a request after ANY schedule — any number of requests running the
same closure, complete or not — is the iterate of its own turns over the boot value, and the value
of the definition-time environment is untouched. -/
theorem C11_capture_isolation_prefix (w : Model.ReqCap.World) (hp : Model.ReqCap.bindsPrivate w = true)
    (r : Model.ReqCap.Rid) (sched : List Model.ReqCap.Rid) :
    (Model.ReqCap.run w (Model.ReqCap.init w) sched).shared = (Model.ReqCap.init w).shared ∧
    (Model.ReqCap.run w (Model.ReqCap.init w) sched).reqs r =
      (Model.ReqCap.run w (Model.ReqCap.init w) (List.replicate (sched.count r) r)).reqs r := by
  have h := Proofs.ReqCap.run_private w hp sched _ (Proofs.ReqCap.init_noAlias w)
  have h' := Proofs.ReqCap.run_private w hp (List.replicate (sched.count r) r) _ (Proofs.ReqCap.init_noAlias w)
  refine ⟨h.1, ?_⟩
  rw [h.2 r, h'.2 r, List.count_replicate_self]

/-- **Isolation.** With a private binding a request that finishes under any schedule answers what
it answers alone, and that is `Spec.ReqCap.respond` of the boot content, its own datum and its
own program: no other request, no schedule. -/
theorem C11_capture_isolation (w : Model.ReqCap.World) (hp : Model.ReqCap.bindsPrivate w = true) :
    CaptureIsolated w ∧
    ∀ r, Model.ReqCap.soloResponse w r =
      Spec.ReqCap.respond w.boot (w.datum r) ((w.prog r).map Proofs.ReqCap.toOp) := by
  have hsolo : ∀ r, (Model.ReqCap.run w (Model.ReqCap.init w) (List.replicate ((w.prog r).length + 2) r)).reqs r =
      Proofs.ReqCap.iter ((w.prog r).length + 2) (Proofs.ReqCap.ownStep w r (Model.ReqCap.init w).shared)
        ((Model.ReqCap.init w).reqs r) := by
    intro r
    have h' := Proofs.ReqCap.run_private w hp (List.replicate ((w.prog r).length + 2) r) _ (Proofs.ReqCap.init_noAlias w)
    rw [h'.2 r, List.count_replicate_self]
  constructor
  · intro r sched hdone
    have h := Proofs.ReqCap.run_private w hp sched _ (Proofs.ReqCap.init_noAlias w)
    unfold Model.ReqCap.soloResponse Model.ReqCap.response
    unfold Model.ReqCap.finished at hdone
    rw [hsolo r, h.2 r]
    rw [h.2 r] at hdone
    rw [Proofs.ReqCap.iter_stable (Proofs.ReqCap.ownStep w r (Model.ReqCap.init w).shared)
      (fun rs => rs.body.isSome = true) (fun rs hrs => Proofs.ReqCap.ownStep_done w r _ rs hrs) _ _ _ hdone
      (by rw [Proofs.ReqCap.solo_spec w hp r]; rfl)]
  · intro r
    unfold Model.ReqCap.soloResponse Model.ReqCap.response
    rw [hsolo r, Proofs.ReqCap.solo_spec w hp r]
    rfl

/-- a read-only handler: `foreach` over the captured value, parked after the first iteration -/
def capLoop : List Model.ReqCap.Step := [.rewind, .next, .gate, .next, .next, .write]
/-- a handler that stores its request's datum in the captured value, parks and reads it back -/
def capStore : List Model.ReqCap.Step := [.set 0, .gate, .readAll, .write]

def capWorld (kind : Model.ReqCap.Kind) (copied : Bool) (prog : List Model.ReqCap.Step) : Model.ReqCap.World :=
  { kind := kind, copied := copied, boot := [1, 2, 3], prog := fun _ => prog, datum := fun r => 7 + r }

/-- request 0 enters the closure and is parked; request 1 runs the same closure to the end; request 0 goes on -/
def capSched : List Model.ReqCap.Rid := [0, 0, 0] ++ List.replicate 8 1 ++ List.replicate 6 0

/-- **Negation witness — hidden state.** The handler only READS the captured `{k: v}` object. With
a binding that does not copy, request 0 parked inside its foreach while request 1 loops over the
same value answers `[1]` (the cursor it shares was moved to the end); alone, and with a copying
binding under the same schedule, `[1, 2, 3]`. Same for arrays. -/
theorem C11_capture_cursor_leaks :
    Model.ReqCap.response (Model.ReqCap.run (capWorld .obj false capLoop) (Model.ReqCap.init (capWorld .obj false capLoop)) capSched) 0 = [1] ∧
    Model.ReqCap.soloResponse (capWorld .obj false capLoop) 0 = [1, 2, 3] ∧
    Model.ReqCap.response (Model.ReqCap.run (capWorld .obj true capLoop) (Model.ReqCap.init (capWorld .obj true capLoop)) capSched) 0 = [1, 2, 3] ∧
    Model.ReqCap.response (Model.ReqCap.run (capWorld .arr false capLoop) (Model.ReqCap.init (capWorld .arr false capLoop)) capSched) 0 = [1] := by
  decide

/-- **Negation witness — content.** Request 0 stores its datum 7, is parked, request 1 stores 8:
request 0 reads back `[8, 2, 3]`; alone `[7, 2, 3]`; with a copying binding `[7, 2, 3]`. -/
theorem C11_capture_write_leaks :
    Model.ReqCap.response (Model.ReqCap.run (capWorld .obj false capStore) (Model.ReqCap.init (capWorld .obj false capStore)) capSched) 0 = [8, 2, 3] ∧
    Model.ReqCap.soloResponse (capWorld .obj false capStore) 0 = [7, 2, 3] ∧
    Model.ReqCap.response (Model.ReqCap.run (capWorld .obj true capStore) (Model.ReqCap.init (capWorld .obj true capStore)) capSched) 0 = [7, 2, 3] := by
  decide

/-- **Isolated iff the capture copies every mutable kind.** For a kind of value and a binding
discipline: every boot content, every program (read-only ones included), every number of requests
and every schedule is isolated exactly when the kind is immutable or the binding copies it. -/
theorem C11_capture_isolated_iff (kind : Model.ReqCap.Kind) (copied : Bool) :
    (∀ (boot : List Nat) (prog : Model.ReqCap.Rid → List Model.ReqCap.Step) (datum : Model.ReqCap.Rid → Nat),
      CaptureIsolated { kind := kind, copied := copied, boot := boot, prog := prog, datum := datum }) ↔
    (kind = .scalar ∨ copied = true) := by
  constructor
  · intro h
    have h0 := h [1, 2, 3] (fun _ => capLoop) (fun r => 7 + r) 0 capSched
    cases kind <;> cases copied <;> simp
    · exact absurd (h0 (by decide)) (by decide)
    · exact absurd (h0 (by decide)) (by decide)
  · intro hk boot prog datum
    refine (C11_capture_isolation _ ?_).1
    rcases hk with hk | hk <;> simp [Model.ReqCap.bindsPrivate, hk]

/-- the full statement without the copy hypothesis is false -/
theorem C11_capture_isolation_counterexample :
    ¬ (∀ w : Model.ReqCap.World, CaptureIsolated w) := by
  intro h
  exact absurd (h (capWorld .obj false capLoop) 0 capSched (by decide)) (by decide)

/-- **Obligation + instance.** On the analysed tree every value a closure reads from its
definition-time environment is either aliased under the by-reference guard or stored through the
slot store (`captureBinds`: no direct store, no escape), and the slot store clones arrays and
`{k: v}` objects (`slotCopies`) — hence `copiedOf facts` is true for every kind and every request
running the shared closure is answered as `Spec.ReqCap.respond` says, under every schedule. -/
theorem C11_capture_generated :
    Generated.C11Superglobals.facts.captureViolations = [] ∧
    ∀ (kind : Model.ReqCap.Kind) (boot : List Nat) (prog : Model.ReqCap.Rid → List Model.ReqCap.Step)
      (datum : Model.ReqCap.Rid → Nat) (r : Model.ReqCap.Rid) (sched : List Model.ReqCap.Rid),
      let w : Model.ReqCap.World := { kind := kind, copied := Model.ReqCap.copiedOf Generated.C11Superglobals.facts kind,
                                      boot := boot, prog := prog, datum := datum }
      Model.ReqCap.finished (Model.ReqCap.run w (Model.ReqCap.init w) sched) r = true →
      Model.ReqCap.response (Model.ReqCap.run w (Model.ReqCap.init w) sched) r =
        Spec.ReqCap.respond boot (datum r) ((prog r).map Proofs.ReqCap.toOp) := by
  have hv : Generated.C11Superglobals.facts.captureViolations = [] := by decide
  refine ⟨hv, ?_⟩
  intro kind boot prog datum r sched w hdone
  have hc : Model.ReqCap.copiedOf Generated.C11Superglobals.facts kind = true := by
    cases kind <;> decide
  have hp : Model.ReqCap.bindsPrivate w = true := by simp [w, Model.ReqCap.bindsPrivate, hc]
  have h := C11_capture_isolation w hp
  rw [h.1 r sched hdone, h.2 r]

example : Model.ReqCap.bindsPrivate (capWorld .obj true capStore) = true ∧
    Model.ReqCap.finished (Model.ReqCap.run (capWorld .obj true capStore) (Model.ReqCap.init (capWorld .obj true capStore)) capSched) 1 = true ∧
    Model.ReqCap.response (Model.ReqCap.run (capWorld .obj true capStore) (Model.ReqCap.init (capWorld .obj true capStore)) capSched) 1 = [8, 2, 3] := by
  decide

end Capture

/-! ## Script output and the process-wide output hook (round 8)

`echo` writes through ONE hook for the whole process.  `Model.ReqOut` has the request path's discipline as
a parameter: `direct` (the pinned tree: the request path never touches the hook) and `swap` (a request points
the hook at its own body on entry and puts the PREVIOUS value back on exit — mutex or not).  What the outside
attributes to a request (`attributed`: its body, then what stdout received from it) must be what its own code
wrote (`Spec.ReqOut.echoes`), whatever else is in flight. -/
section Output
open Model.ReqOut

/-- `direct`: for EVERY trace (any number of requests, any interleaving) a request is attributed exactly
what it wrote, nothing reaches a body, and that is what it is attributed when it runs alone. -/
theorem C11_output_direct_isolation (t : List Ev) (r : Nat) :
    attributed (Model.ReqOut.run .direct Model.ReqOut.init t) r = Spec.ReqOut.echoes r t ∧
    (Model.ReqOut.run .direct Model.ReqOut.init t).body r = [] ∧
    attributed (Model.ReqOut.run .direct Model.ReqOut.init t) r = attributed (Model.ReqOut.run .direct Model.ReqOut.init (Spec.ReqOut.own r t)) r := by
  have h := Proofs.ReqOut.direct_run t Model.ReqOut.init rfl
  have h' := Proofs.ReqOut.direct_run (Spec.ReqOut.own r t) Model.ReqOut.init rfl
  have hb : (Model.ReqOut.run .direct Model.ReqOut.init t).body r = [] := by rw [h.2.1]; rfl
  have hb' : (Model.ReqOut.run .direct Model.ReqOut.init (Spec.ReqOut.own r t)).body r = [] := by rw [h'.2.1]; rfl
  have hp := h.2.2 r
  have hp' := h'.2.2 r
  have h0 : proj r Model.ReqOut.init.stdout = [] := rfl
  rw [h0, List.nil_append] at hp hp'
  have ha : attributed (Model.ReqOut.run .direct Model.ReqOut.init t) r = Spec.ReqOut.echoes r t := by
    unfold attributed
    rw [hb, hp, List.nil_append]
  refine ⟨ha, hb, ?_⟩
  rw [ha]
  unfold attributed
  rw [hb', hp', List.nil_append, Proofs.ReqOut.echoes_own]

/-- `swap` is right for well-nested traces (a request parks, others run start-to-finish inside, it resumes):
every body is what its request wrote and stdout receives nothing — which is why "park one, run another to
completion" sees nothing. -/
theorem C11_output_swap_nested (t : List Ev) (h : nested [] t = true) (r : Nat) :
    attributed (Model.ReqOut.run .swap Model.ReqOut.init t) r = Spec.ReqOut.echoes r t ∧ (Model.ReqOut.run .swap Model.ReqOut.init t).stdout = [] := by
  have hc : Proofs.ReqOut.Chain Model.ReqOut.init.saved [] Model.ReqOut.init.cur := rfl
  obtain ⟨h1, h2⟩ := Proofs.ReqOut.swap_nested t [] Model.ReqOut.init hc h
  have hs : (Model.ReqOut.run .swap Model.ReqOut.init t).stdout = [] := by rw [h1]; rfl
  refine ⟨?_, hs⟩
  have hb := h2 r
  have h0 : Model.ReqOut.init.body r = [] := rfl
  rw [h0, List.nil_append] at hb
  unfold attributed
  rw [hs, hb]
  simp [proj]

/-- the overlapped trace A-start, B-start, A-echo, A-stop, B-echo, B-stop (not nested): A's output lands in
B's body, A's exit puts stdout back under B, whose later output leaves the response, and the hook is left
pointing at the finished A; alone B is attributed `[8]`. -/
theorem C11_output_overlap_leaks :
    let t : List Ev := [.start 0, .start 1, .echo 0 7, .stop 0, .echo 1 8, .stop 1]
    nested [] t = false ∧
    (Model.ReqOut.run .swap Model.ReqOut.init t).body 1 = [7] ∧ (Model.ReqOut.run .swap Model.ReqOut.init t).body 0 = [] ∧
    (Model.ReqOut.run .swap Model.ReqOut.init t).stdout = [(1, 8)] ∧ (Model.ReqOut.run .swap Model.ReqOut.init t).cur = some 0 ∧
    attributed (Model.ReqOut.run .swap Model.ReqOut.init t) 1 = [7, 8] ∧
    attributed (Model.ReqOut.run .swap Model.ReqOut.init (Spec.ReqOut.own 1 t)) 1 = [8] ∧
    attributed (Model.ReqOut.run .direct Model.ReqOut.init t) 1 = [8] := by
  decide

/-- a discipline isolates the output of every request under every trace IFF it leaves the process-wide hook
alone. -/
theorem C11_output_isolated_iff (d : Discipline) :
    (∀ (t : List Ev) (r : Nat), attributed (Model.ReqOut.run d Model.ReqOut.init t) r = Spec.ReqOut.echoes r t) ↔ d = .direct := by
  constructor
  · intro h
    cases d with
    | direct => rfl
    | swap =>
      have h1 := h [.start 0, .start 1, .echo 0 7, .stop 0, .echo 1 8, .stop 1] 1
      exact absurd h1 (by decide)
  · intro h; subst h
    intro t r
    exact (C11_output_direct_isolation t r).1

/-- not vacuous: the solo run of the witness is nested, the witness is not -/
theorem C11_output_isolation_counterexample :
    nested [] (Spec.ReqOut.own 1 [.start 0, .start 1, .echo 0 7, .stop 0, .echo 1 8, .stop 1]) = true ∧
    nested [] [.start 0, .start 1, .echo 1 8, .stop 1, .echo 0 7, .stop 0] = true ∧
    attributed (Model.ReqOut.run .swap Model.ReqOut.init [.start 0, .start 1, .echo 1 8, .stop 1, .echo 0 7, .stop 0]) 0 = [7] := by
  decide

/-- Obligation on the regenerated facts + instance: the only stores into another package's package-level
variable made by per-request or per-call code are the known ones of the `ob_*` family (finding
`output:ob-shared-buffer`); none is in `std/net/http`, so the request path's discipline is `direct` and every
request is attributed exactly what it wrote under every trace. -/
theorem C11_output_generated :
    (Generated.C11Superglobals.facts.hookViolations.all fun v => Model.Req.knownHookViolations.contains v) = true ∧
    disciplineOf Generated.C11Superglobals.facts = .direct ∧
    ∀ (t : List Ev) (r : Nat),
      attributed (Model.ReqOut.run (disciplineOf Generated.C11Superglobals.facts) Model.ReqOut.init t) r = Spec.ReqOut.echoes r t := by
  have hv : (Generated.C11Superglobals.facts.hookViolations.all fun v => Model.Req.knownHookViolations.contains v) = true := by
    decide
  have hd : disciplineOf Generated.C11Superglobals.facts = .direct := by decide
  refine ⟨hv, hd, ?_⟩
  rw [hd]
  exact (C11_output_isolated_iff .direct).2 rfl

end Output

/-! ## Non-vacuity -/

/-- a world with per-request storage, three requests, each reading `$_GET`, `$_REQUEST`, writing `$_SESSION` -/
def privWorld : World where
  scope := fun _ => .perRequest
  prog := fun r => if r < 3 then
    [.reset, .parseForm, .readSG .get 0, .writeSG .session 1 (40 + r), .gate, .readSG .request 0,
     .readSG .session 1, .readReq .input 0, .writeLocal 0 .last, .readLocal 0, .write] else []
  data := fun r => { query := [(0, 7 + r)], form := [(0, 70 + r)], cookies := [(2, 9)] }

example : (∀ k, privWorld.scope k = .perRequest) ∧
    response (run privWorld (init privWorld) ([0, 0, 0, 0, 0] ++ [1, 1, 1, 1, 1] ++ [2, 2, 2, 2, 2] ++
      [0, 1, 2, 0, 1, 2, 0, 1, 2, 0, 1, 2, 0, 1, 2, 0, 1, 2, 0, 1, 2, 0, 1, 2])) 1
      = [some 8, some 71, some 41, some 71, some 71] ∧
    soloResponse privWorld 1 = [some 8, some 71, some 41, some 71, some 71] := by
  refine ⟨fun _ => rfl, by decide, by decide⟩

/-- the same programs on package-level caches: request 1 sees request 2's session value and request 0's `$_REQUEST` -/
example : response (run { privWorld with scope := fun _ => .packageLevel } (init { privWorld with scope := fun _ => .packageLevel })
      ([0, 0, 0, 0, 0] ++ [1, 1, 1, 1, 1] ++ [2, 2, 2, 2, 2] ++ [0, 1, 2, 0, 1, 2, 0, 1, 2, 0, 1, 2, 0, 1, 2, 0, 1, 2, 0, 1, 2, 0, 1, 2])) 1
      ≠ soloResponse privWorld 1 := by decide

/-- `C11_noninterference_partial` applies to a superglobal-free handler next to leaking ones -/
example : PrivPc leakWorld [.reset, .readReq .query 0, .gate, .writeLocal 1 (.const 3), .readLocal 1, .write] := by
  intro st hst k hk
  simp at hst
  rcases hst with rfl | rfl | rfl | rfl | rfl | rfl <;> simp [Step.kinds] at hk

/-- `C11_sequential_fresh`: request 1 of `leakWorld` after request 0 finished -/
example : (run leakWorld (run leakWorld (init leakWorld) [0, 0, 0, 0, 0]) [1, 1, 1]).req 1
    = (run leakWorld (init leakWorld) [1, 1, 1]).req 1 :=
  C11_sequential_fresh leakWorld _ 1 _ rfl rfl 3

/-- the facts are not empty: nine cells, the closure handler resets first -/
example : Generated.C11Superglobals.facts.cells.length = 9 ∧
    Generated.C11Superglobals.facts.handlerResets = true ∧
    Generated.C11Superglobals.facts.entries.any (fun e => e.runsScript) = true := by decide

/-- `C11_site_noninterference` applies: three requests through one closure literal, all made before any is called -/
example : Proofs.ReqSite.PrivProg (siteWorld .perEvaluation).scope ((siteWorld .perEvaluation).prog 2) ∧
    Model.ReqSite.response (Model.ReqSite.run (siteWorld .perEvaluation) (Model.ReqSite.init (siteWorld .perEvaluation))
      [0, 0, 1, 1, 2, 2, 2, 2, 1, 1, 0, 0]) 0 = [some 7] ∧
    Spec.ReqSite.respond 7 ((siteWorld .perEvaluation).prog 0) = [some 7] := by
  refine ⟨fun _ _ _ => rfl, by decide, by decide⟩

/-- the node-write facts are not empty: the translator sees the stores of the definition memos and of the generator states -/
example : Generated.C11Superglobals.facts.nodeWrites.any (fun w => w.parserBuilt && w.typ == "NewExpression") = true ∧
    Generated.C11Superglobals.facts.nodeWrites.any (fun w => !w.parserBuilt && w.typ == "FuncYieldStackState") = true := by decide

/-- the hypotheses of the call-site theorems are satisfiable: per-request class identities are apart,
the witness requests finish, and an indivisible cache really hits (the second call of request 1 finds
its own entry after request 0 has come and gone) -/
example : Proofs.ReqIC.Apart (C11.icWorld .atomic) 1 ∧
    Model.ReqIC.finished (Model.ReqIC.run (C11.icWorld .atomic) (Model.ReqIC.init (C11.icWorld .atomic)) [1, 0, 0, 0, 1, 1]) 1 = true ∧
    (Model.ReqIC.run (C11.icWorld .atomic) (Model.ReqIC.init (C11.icWorld .atomic)) [1, 1]).cache.cls 0 = some 1 ∧
    Model.ReqIC.publishOf Generated.C11Superglobals.facts = .none :=
  ⟨fun _ h => h, by decide, by decide, by decide⟩

end C11

/-- `C11_registry_isolation` applies: three requests keyed by identity, all attached before any looks up,
finishing in reverse order; `KeyApart` holds, the programs finish, and the observations are not trivial -/
example : C11.KeyApart (C11.regWorld id) 0 ([0, 0, 0] ++ [1, 1, 1, 1, 1, 1, 1] ++ [0, 0, 0, 0, 0]) ∧
    ((C11.regWorld id).prog 0).length ≤ C11.regSched.count 0 ∧
    Spec.ReqReg.respond ((C11.regWorld id).prog 0) = [some 1, some 7] ∧
    Spec.ReqReg.leaves ((C11.regWorld id).prog 0) = [] := by
  refine ⟨?_, by decide, by decide, by decide⟩
  intro a _ hne hk
  exact hne hk

/-- `C11_registry_key_reuse` applies: request 1 reuses request 0's key after request 0 has finished and detached -/
example : Model.ReqReg.response (Model.ReqReg.run (C11.regWorld fun _ => 0) (Model.ReqReg.init (C11.regWorld fun _ => 0))
      ([0, 0, 0, 0, 0, 0, 0, 0] ++ [1, 1, 1, 1, 1, 1, 1])) 1 = [some 1, some 8] :=
  C11.C11_registry_key_reuse (C11.regWorld fun _ => 0) 0 1 [0, 0, 0, 0, 0, 0, 0, 0] [1, 1, 1, 1, 1, 1, 1]
    (by decide) (by decide) (fun a ha hne => by simp at ha; exact absurd ha hne)
    (fun a ha hne => by simp at ha; exact absurd ha hne) rfl (by decide) (by decide) (by decide)

/-- the registry facts are not empty: both registries are stored to, loaded from and deleted from, and the
callers of the helper functions are listed -/
example : Generated.C11Superglobals.facts.registries.any (fun s => s.var == "requestFormatterSlots" && s.op == "Store") = true ∧
    Generated.C11Superglobals.facts.registries.any (fun s => s.var == "requestAttrBags" && s.op == "Delete") = true ∧
    Generated.C11Superglobals.facts.registries.any (fun s => s.op == "call" && s.fn == "Handler.ServeHTTP→detachRequestAttrs") = true ∧
    Generated.C11Superglobals.facts.registryKeysIdentity = true := by decide

/-- `GoodGuards` is satisfiable by a table that really guards, the witness world's requests exist
and finish under the schedule, and the analysed tree has a guard that decides on own frames -/
example : Proofs.ReqLimit.GoodGuards (C11.limitWorld .own).guards ∧
    (1 < (C11.limitWorld .own).n ∧ ((C11.limitWorld .own).prog 1).length ≤ [0, 0, 0, 1, 1, 1, 1, 1, 0, 0, 0].count 1) ∧
    Model.ReqLimit.total (C11.limitWorld .own).guards
      (Model.ReqLimit.run (C11.limitWorld .own) (Model.ReqLimit.init (C11.limitWorld .own)) [0, 0, 0, 1, 1]) 2 = 3 ∧
    Spec.ReqLimit.respond (C11.limitWorld .own).guards [.enter "m", .enter "m", .enter "m", .write] = .refused 3 ∧
    Generated.C11Superglobals.facts.depthGuards.any (fun d => d.decidesOn == "own" && decide (d.limit > 0)) = true := by
  refine ⟨?_, by decide, by decide, by decide, by decide⟩
  intro k gd hk
  simp only [C11.limitWorld] at hk
  split at hk
  · simp only [Option.some.injEq] at hk
    subst hk
    simp [Proofs.ReqLimit.GuardOK, Model.ReqLimit.counted, C11.limitWorld]
  · simp at hk
