import Proofs.Lemmas.Temp
import Proofs.Lemmas.TempBound
import Generated.C12TempVm
import Proofs.Lemmas.TempShared
/-!
# C12 — request-scoped VMs are isolated: temporary definitions never leak

Property theorems only. `Model.Temp` mirrors `runtime/vm.go` + `runtime/vm_temp.go`
(+ `ClassPathManager.LoadClass`), `Spec.Temp` states isolation / visibility /
set-based bookkeeping on resolve tables, `Generated.C12TempVm` is the per-method
routing table regenerated from `runtime/vm_temp.go` on every run.

All statements quantify over every environment (`Disk`: file contents, class path,
case folding, bodies of the autoload callbacks), every history (`List Op`, any length, any
number of TempVMs — slots are natural numbers) and every operation. The operations are the
host API (`AddX`, `LoadAndRun`, `ParseFile`, `GetOrLoadClass`, `GetOrLoadInterface`,
`LoadPkg`, discard) and every route by which *script code* running on a VM defines
something: `eval()`, `include` / `require`, a function statement executed at run time,
`spl_autoload_register` (the callbacks then run on whichever VM autoloads), a class needed
at parse or run time, `define()`, `class_alias`, and the routes that define nothing.
-/
namespace C12
open Model.Temp Spec.Temp Proofs.Temp

/-- the resolve tables after a history -/
abbrev tables (d : Disk) (ops : List Op) : Tables := resolve d (run d ops)

theorem run_snoc (d : Disk) (ops : List Op) (op : Op) :
    run d (ops ++ [op]) = (step d (run d ops) op).1 := by
  simp [run, List.foldl_append]

/-
Full statement (what the property asks for):

  theorem C12_isolation (d : Disk) (ops : List Op) (op : Op) (i : Nat) (hv : op.via = .temp i) :
      Isolated i (tables d ops) (tables d (ops ++ [op]))

It is FALSE on the pinned tree: `TempVM.GetOrLoadInterface` and `TempVM.LoadPkg` hand an
unresolved name to the *base's* `GetOrLoadInterface` / `LoadPkg`, which autoload with the
base's parser, so the file's definitions land in the base (known finding
C12-temp-autoload-through-base; negation witnesses below). `TempVM.ParseFile` had the
same defect and is repaired (fixes/C12-parsefile-tempvm.patch); the model has the repaired
routing and `ParseFile` is covered by the theorem.
-/

/-- **Isolation** (`_partial`: the hypothesis `leaky … = false` excludes exactly the
operations that reach the base's autoloader through a TempVM — `GetOrLoadInterface` /
`LoadPkg` on TempVM `i` for a name that neither the TempVM nor the base has and for
which the base's autoloader has something to try: a class-path file or a registered
autoload callback). After any history, any other operation invoked on
TempVM `i` — registering a class / interface / function, `LoadAndRun`, `ParseFile`,
`GetOrLoadClass` (autoload, also through the callbacks scripts registered on *any* VM),
discarding the TempVM, and every script route: `eval()`, `include` / `require`, a function
statement executed at run time, `spl_autoload_register`, a class needed by `new` /
`extends` / trait `use`, `define()`, `class_alias`, anonymous classes / closures — leaves
what the base and every other TempVM resolve exactly as it was. -/
theorem C12_isolation_partial (d : Disk) (ops : List Op) (op : Op) (i : Nat)
    (hv : op.via = .temp i) (hl : leaky d (run d ops) op = false) :
    Isolated i (tables d ops) (tables d (ops ++ [op])) := by
  intro v hne
  show resolve d (run d (ops ++ [op])) v = resolve d (run d ops) v
  rw [run_snoc]
  exact resolve_of_frame d (frame_step d (run d ops) op i hv hl) v hne

/-- **Isolation of the defining routes**, with a purely syntactic hypothesis: every
operation other than `GetOrLoadInterface` / `LoadPkg` is isolated unconditionally. -/
theorem C12_isolation_defining_routes (d : Disk) (ops : List Op) (op : Op) (i : Nat)
    (hv : op.via = .temp i)
    (hk : ∀ v n, op ≠ .getOrLoadInterface v n ∧ op ≠ .loadPkg v n) :
    Isolated i (tables d ops) (tables d (ops ++ [op])) := by
  apply C12_isolation_partial d ops op i hv
  cases op with
  | getOrLoadInterface v n => exact absurd rfl (hk v n).1
  | loadPkg v n => exact absurd rfl (hk v n).2
  | _ => rfl

/-- **`eval()` is refused on a TempVM and defines nothing anywhere**: nobody's table changes,
not even the TempVM's own (on the pinned tree `EvalFunction.Call` insists on a
`*runtime.VM`; a TempVM that *delegated* the string to the base's `EvalCode` would register
its classes in the base — the regenerated obligation `C12_parsers_bound_to_temp` and the
correspondence run watch for exactly that). -/
theorem C12_eval_refused_on_temp (d : Disk) (ops : List Op) (i : Nat) (u : File) (id : Nat) :
    tables d (ops ++ [.evalCode (.temp i) u id]) = tables d ops := by
  funext v
  show resolve d (run d (ops ++ [.evalCode (.temp i) u id])) v = resolve d (run d ops) v
  rw [run_snoc]
  exact resolve_scriptEval_temp d (run d ops) i u id v

/-- **The routes that define nothing define nothing**, on whichever VM they run (the base
included): registering an autoload callback, `define()` (constants are shared by design and
are not part of the resolve tables), `class_alias`, anonymous classes / closures. -/
theorem C12_inert_routes_define_nothing (d : Disk) (ops : List Op) (op : Op)
    (h : Op.inertRoute op = true) : tables d (ops ++ [op]) = tables d ops := by
  funext v
  show resolve d (run d (ops ++ [op])) v = resolve d (run d ops) v
  rw [run_snoc]
  exact resolve_inert d (run d ops) op h v

/-- the part of the environment the negation witnesses need: `B.php` declares interface 2
(and function 3), `C.php` declares class 4 and interface 5; the class path finds them. -/
def witnessDisk : Disk where
  content := fun f =>
    if f = 1 then some [⟨.ifc, 2⟩, ⟨.fn, 3⟩]
    else if f = 2 then some [⟨.cls, 4⟩, ⟨.ifc, 5⟩]
    else if f = 0 then some [⟨.cls, 0⟩, ⟨.fn, 0⟩]
    else none
  find := fun n => if n = 2 then some 1 else if n = 4 then some 2 else if n = 0 then some 0 else none
  fold := id

/-- **Negation witness** (replayed on the real code by the harness's known stream):
`GetOrLoadInterface` through a fresh TempVM makes the *base* resolve the interface. -/
theorem C12_isolation_counterexample :
    ¬ (∀ (d : Disk) (ops : List Op) (op : Op) (i : Nat), op.via = .temp i →
        Isolated i (tables d ops) (tables d (ops ++ [op]))) := by
  intro h
  have h1 := h witnessDisk [] (.getOrLoadInterface (.temp 0) 2) 0 rfl .base (by decide)
  have h2 := congrFun (congrFun h1 .ifc) 2
  revert h2
  decide

/-- second witness: `LoadPkg` through a fresh TempVM defines class 4 and interface 5 in
the base. -/
theorem C12_isolation_counterexample_loadPkg :
    ¬ Isolated 0 (tables witnessDisk []) (tables witnessDisk [.loadPkg (.temp 0) 4]) := by
  intro h
  have h2 := congrFun (congrFun (h .base (by decide)) .cls) 4
  revert h2
  decide

/-- **Base definitions are visible everywhere**: after any history, whatever the base
resolves is resolvable through every TempVM. -/
theorem C12_base_visible_everywhere (d : Disk) (ops : List Op) : BaseVisible (tables d ops) :=
  baseVisible_world d (run d ops)

/-- Classes and interfaces of the base cannot even be shadowed: a TempVM resolves them
to the base's own definition. -/
theorem C12_base_definition_wins (d : Disk) (ops : List Op) (i : Nat) (k : Kind) (n : Name) (s : Src)
    (hk : k ≠ .fn) (h : tables d ops .base k n = some s) : tables d ops (.temp i) k n = some s :=
  base_wins_world d (run d ops) i k n s hk h

/-- **Own definitions are visible**: what a TempVM registers it resolves itself (a
function to exactly that definition; a class / interface unless the base already has the
name, in which case `C12_base_definition_wins` applies) — so isolation is not achieved by
dropping the definition. -/
theorem C12_own_definition_visible (d : Disk) (ops : List Op) (i : Nat) (k : Kind) (n : Name) (id : Nat) :
    (tables d (ops ++ [.add (.temp i) k n id]) (.temp i) k n).isSome ∧
    (k = .fn → tables d (ops ++ [.add (.temp i) k n id]) (.temp i) k n = some (.stub id)) := by
  unfold tables
  rw [run_snoc]
  exact own_visible_world d (run d ops) i k n id

/-- **Discarding a TempVM forgets everything it defined**: the fresh TempVM in that slot
resolves exactly what the base resolves. -/
theorem C12_discard_forgets (d : Disk) (ops : List Op) (i : Nat) :
    tables d (ops ++ [.discard i]) (.temp i) = tables d (ops ++ [.discard i]) .base := by
  unfold tables
  rw [run_snoc]
  exact discard_forgets_world d (run d ops) i

/-- Operations on the base never touch a TempVM's request-local state (they change what
TempVMs resolve only through the base's own tables, as the property intends). -/
theorem C12_base_operations_keep_request_state (d : Disk) (ops : List Op) (op : Op)
    (hv : op.via = .base) : (run d (ops ++ [op])).temps = (run d ops).temps := by
  rw [run_snoc]; exact temps_step_base d _ op hv

/-- **No foreign definitions** (set-based bookkeeping, `_partial`: histories without a
leaky step). After any such history the base resolves only names that were offered
*through the base* (classes up to letter case), and TempVM `i` only names offered through
the base or through TempVM `i` since its last discard. -/
theorem C12_no_foreign_definitions_partial (d : Disk) (ops : List Op) (h : NoLeak d {} ops) :
    Bounded d ops (tables d ops) :=
  bounded_run d ops h

/-- The same bookkeeping bound fails on the pinned tree once a leaky step is allowed
(witness: the interface autoloaded through TempVM 0 is resolved by the base, through
which nothing was ever offered). -/
theorem C12_no_foreign_definitions_counterexample :
    ¬ Bounded witnessDisk [.getOrLoadInterface (.temp 0) 2]
        (tables witnessDisk [.getOrLoadInterface (.temp 0) 2]) := by
  intro h
  obtain ⟨n', hm, _⟩ := h.1 .ifc 2 (by decide)
  simp [offered, offeredStep, Op.via] at hm

/-- Not part of the isolation claim, recorded because it is observable across requests:
the file cache is shared by design, so whether `GetOrLoadClass` on one TempVM can autoload
a class depends on whether another TempVM loaded that file before (the file is never
parsed twice, and the first TempVM's definitions are private). -/
theorem C12_shared_file_cache_starves_autoload :
    (step witnessDisk (run witnessDisk [.loadAndRun (.temp 1) 9]) (.getOrLoadClass (.temp 1) 0)).2
      = .ok (some (.file 0)) ∧
    (step witnessDisk (run witnessDisk [.loadAndRun (.temp 0) 0, .loadAndRun (.temp 1) 9])
      (.getOrLoadClass (.temp 1) 0)).2 = .err := by
  decide

/-! ### translator obligation: per-method routing of `runtime/vm_temp.go` -/
open Model.TempRoutes

/-- **Definitions stay local** (regenerated on every run from `runtime/vm_temp.go`):
the extractor found the expected shape of every method, the methods that register
definitions write the TempVM's own maps or use the TempVM's own parser exactly as
`Model.Temp` assumes, and every method that hands work to a *defining* method of the
base is one of the known ones (`Known`). A new write-through to the base (e.g.
`AddFunc` storing into `vm.Base`) or a changed route makes this `decide` fail. -/
theorem C12_defs_stay_local : WellRouted Generated.C12TempVm.facts = true := by decide

/-- What the obligation means, for every table: a method outside `Known` that is
`WellRouted` does not hand work to a defining base method and assigns nothing through
`vm.Base`. -/
theorem C12_wellRouted_sound (fs : List Fact) (h : WellRouted fs = true) (f : Fact) (hf : f ∈ fs)
    (hk : f.method ∉ Known) : f.delegatesDefining = false ∧ f.writesBase = [] :=
  wellRouted_sound fs h f hf hk

/-- **Parsers and contexts are bound to the TempVM** (regenerated on every run from
`runtime/*.go`): classes / interfaces / traits / enums register while *parsing*, through the
VM the parser is bound to, and functions while *running*, through the VM of the context. So:
the base's parser is only ever handed to `PrepareParse` (which clones it and binds the clone
to the TempVM); a `TempVM` method that parses does so after `PrepareParse`; programs are
evaluated in `vm.CreateContext(…)` or the caller's context; only `PrepareParse` assigns
`vm.parser`; and no method outside the intended delegations (`Intended`) and the known
finding (`KnownLeaks`) hands code to a method of the base that — by the regenerated facts
about `runtime.VM`, closed under calls — parses or autoloads with the base-bound parser.
A `TempVM.EvalCode` that returns `vm.Base.EvalCode(…)`, or that clones `vm.Base.parser`
itself, makes this `decide` fail. -/
theorem C12_parsers_bound_to_temp :
    ParsersBound Generated.C12TempVm.vmFacts Generated.C12TempVm.vmParsing Generated.C12TempVm.facts = true := by
  decide

/-- What that obligation means, for every table: a method outside `Known` hands nothing to
a parsing method of the base, uses the base's parser only through `PrepareParse`, parses only
after `PrepareParse`, and evaluates only in its own or the caller's context. -/
theorem C12_parsersBound_sound (vs : List VmFact) (P : List String) (fs : List Fact)
    (h : ParsersBound vs P fs = true) (f : Fact) (hf : f ∈ fs) (hk : f.method ∉ Known) :
    f.delegatesParsing P = false ∧ (∀ c ∈ f.baseParser, c = "PrepareParse") ∧
    (f.parses ≠ [] → "PrepareParse" ∈ f.selfCalls) ∧
    (∀ c ∈ f.evalCtx, c = "self.CreateContext" ∨ c = "param") :=
  parsersBound_sound vs P fs h f hf hk

/-- the least fixed point the translator emits is what the obligation is about: anything
closed under `parsingStep` contains every method that uses `vm.parser` itself -/
theorem C12_closed_contains_direct (vs : List VmFact) (P : List String) (h : closedUnder vs P = true)
    (f : VmFact) (hf : f ∈ vs) (ho : f.ownParser = true) : f.method ∈ P :=
  closed_contains_direct vs P h f hf ho

/-! ### non-vacuity -/

/-- `witnessDisk` plus include files (5: class 0, function 0; 6: class 7) and one autoload
callback that includes file 6 when asked for name 7 (the class path has no file for 7) -/
def scriptDisk : Disk :=
  { witnessDisk with
    content := fun f =>
      if f = 5 then some [⟨.cls, 0⟩, ⟨.fn, 0⟩]
      else if f = 6 then some [⟨.cls, 7⟩]
      else witnessDisk.content f
    cbs := [fun n => if n = 7 then some 6 else none] }

/-- script routes: TempVM 0 registers the autoload callback and includes file 5; the base
`eval`s a declaration of class 4; TempVM 1 needs class 7 (`new`), which the callback —
registered by TempVM 0 — includes *on TempVM 1*; TempVM 1 declares function 3 at run time;
`eval` on TempVM 1 is refused. -/
def scriptDemo : List Op :=
  [.autoReg (.temp 0) 0, .incl (.temp 0) 5 true, .evalCode .base 2 9, .useClass (.temp 1) 7 false,
   .runFn (.temp 1) 3 8, .evalCode (.temp 1) 5 7]

example : (tables scriptDisk scriptDemo .base .cls 0, tables scriptDisk scriptDemo (.temp 0) .cls 0,
           tables scriptDisk scriptDemo (.temp 1) .cls 0,
           tables scriptDisk scriptDemo .base .cls 4, tables scriptDisk scriptDemo (.temp 1) .cls 4)
    = (none, some (.file 5), none, some (.stub 9), some (.stub 9)) := by decide

example : (tables scriptDisk scriptDemo .base .cls 7, tables scriptDisk scriptDemo (.temp 0) .cls 7,
           tables scriptDisk scriptDemo (.temp 1) .cls 7,
           tables scriptDisk scriptDemo (.temp 1) .fn 3, tables scriptDisk scriptDemo (.temp 0) .fn 3,
           (run scriptDisk scriptDemo).base.thrown)
    = (none, none, some (.file 6), some (.stub 8), none, 1) := by decide

example : NoLeak scriptDisk {} scriptDemo := by decide

example : Op.inertRoute (.autoReg (.temp 0) 0) = true ∧ Op.inertRoute (.define .base 1) = true := by decide

/-- once a callback is registered, `GetOrLoadInterface` through a TempVM is a leaky route even
for a name without a class-path file -/
example : leaky scriptDisk (run scriptDisk [.autoReg (.temp 0) 0]) (.getOrLoadInterface (.temp 1) 7) = true ∧
    leaky scriptDisk (run scriptDisk []) (.getOrLoadInterface (.temp 1) 7) = false := by decide


/-- a history with three VMs in which every route is exercised; TempVM 0 and TempVM 1
define the same names differently, the base sees none of it -/
def demo : List Op :=
  [.add .base .cls 7 1, .loadAndRun (.temp 0) 0, .add (.temp 1) .cls 0 2, .add (.temp 1) .fn 0 3,
   .parseFile (.temp 1) 1, .getOrLoadClass (.temp 0) 4]

example : (tables witnessDisk demo .base .cls 0, tables witnessDisk demo (.temp 0) .cls 0,
           tables witnessDisk demo (.temp 1) .cls 0, tables witnessDisk demo (.temp 1) .ifc 2,
           tables witnessDisk demo (.temp 0) .cls 4, tables witnessDisk demo (.temp 2) .cls 7)
    = (none, some (.file 0), some (.stub 2), some (.file 1), some (.file 2), some (.stub 1)) := by decide

example : (Op.getOrLoadClass (.temp 0) 4).via = .temp 0 ∧
    leaky witnessDisk (run witnessDisk (demo.take 5)) (.getOrLoadClass (.temp 0) 4) = false := by decide

example : leaky witnessDisk (run witnessDisk []) (.getOrLoadInterface (.temp 0) 2) = true := by decide

example : NoLeak witnessDisk {} demo := by decide

example : (tables witnessDisk demo .base .cls 7).isSome := by decide

end C12

/-! ## Code parsed once on the base VM, executed through several VMs (`Model.TempShared`)

The body of a function / method / closure defined on the base VM is ONE AST; every TempVM that
calls it executes the same nodes, and a declaration statement inside registers into whichever
VM runs it. Statements over every history (any length, any number of TempVMs, any bodies with
plain and `function_exists`-guarded declarations, colliding names, shared nodes). -/
namespace C12
open Model.TempShared

/-- **Noninterference for shared bodies.** With a declaration statement that consults nothing
but the executing VM (the pinned tree), what VM `v` resolves after any history is what it
resolves after only its own and the base's operations: it is as if `v` were the first VM ever
to run each body. -/
theorem C12_shared_body_noninterference : NonInterfering ⟨false⟩ := noflag_nonInterfering

/-- the history of the negation witness: TempVM 0, then TempVM 1 run the same body -/
def flagWitness : List Op :=
  [.run (.temp 0) [{ node := 0, name := 5 }], .run (.temp 1) [{ node := 0, name := 5 }]]

/-- **Negation witness.** A "declared" flag kept on the (shared) declaration node: TempVM 0 runs
the body, TempVM 1 runs it — TempVM 1 does not get the function it would have got alone. -/
theorem C12_node_flag_breaks_noninterference : ¬ NonInterfering ⟨true⟩ := by
  intro h
  have := h flagWitness (.temp 1) 5
  revert this
  decide

/-- what a VM resolves is independent of what other TempVMs did with shared code **iff** the
declaration statement keeps no state on its node -/
theorem C12_shared_body_noninterference_iff (impl : Impl) :
    NonInterfering impl ↔ impl.nodeFlag = false := by
  cases impl with
  | mk f =>
    cases f with
    | false => exact ⟨fun _ => rfl, fun _ => C12_shared_body_noninterference⟩
    | true => exact ⟨fun h => absurd h C12_node_flag_breaks_noninterference, fun h => by cases h⟩

/-- why the step-by-step snapshot oracle cannot see node state: whatever the implementation keeps
on nodes, an operation of another TempVM changes nothing `v` resolves *at that step* — the
damage shows only when `v` itself runs the body later -/
theorem C12_snapshot_isolation_blind_to_node_state (impl : Impl) (v : VM) (o : Op) (s : State) (n : Nat)
    (h : keeps v o = false) : resolve (step impl s o) v n = resolve s v n :=
  sees_resolve (step_drop impl h s) n

/-- obligation on the regenerated facts (`extract/c12`, package `node`): every function that
calls a defining VM method assigns no field of its AST node and no package-level variable
(known: `IncludeCore`), and the resolve-once caches on use nodes are exactly the known ones -/
theorem C12_declaration_nodes_stateless :
    NodesStateless Generated.C12TempVm.nodeFactsError Generated.C12TempVm.nodeFacts := by decide

/-- what the obligation means: a defining node function outside the known list is modelled by
`nodeFlag = false`, hence noninterfering -/
theorem C12_nodesStateless_sound (err : Option String) (facts : List NodeFact)
    (hw : NodesStateless err facts) (f : NodeFact) (hf : f ∈ facts) (hd : f.defining = true)
    (hk : KnownStateful.contains (f.typ, f.method) = false) : NonInterfering (implOf f) := by
  have hall := List.all_eq_true.mp hw.2.2 f hf
  simp only [hd, if_true, statelessOrKnown, hk, Bool.or_false, Bool.and_eq_true] at hall
  have : implOf f = ⟨false⟩ := by simp [implOf, hall.1]
  rw [this]
  exact C12_shared_body_noninterference

end C12
