import Proofs.Lemmas.Meth
import Proofs.Lemmas.MethStr
import Proofs.Lemmas.MethStore
import Proofs.Lemmas.MethStoreObl
/-!
# C15 — array and string methods behave as documented (Node.js-style)

Property theorems only.  `Model.Meth` / `Model.MethStr` mirror
`data/value_array*.go`, `data/value_string*.go` and the argument binding of
`node/call_object_method.go` **with the fixes C15-optional-null,
C15-variadic-items, C15-sort-stable, C15-substring-swap applied**;
`Spec.Js` / `Spec.JsStr` are the documented semantics.

Every `C15_<method>_refines` quantifies over all receivers (any length, any
nesting) and all argument lists.  `Binds args i o` says how argument `i` is
read as an optional integer: omitted or `null` → `none`, an integer → `some`;
an argument of another type in an integer position is outside the documented
signature and outside the theorem.  The model answers `Res.ok`, never
`Res.crash`: no call panics on an index, slice bound or `make` length.
-/
namespace C15
open Model.Meth
open Spec.Js (Binds BindsVal IsSortOf documentedMutator)
open Proofs.MethStr (AllAscii)

/-! ## arrays: methods without callback -/

/-- push(...items): every item is appended in order, the new length is returned. -/
theorem C15_push_refines (xs items : List Val) : push xs items = .ok (Spec.Js.push xs items) :=
  Proofs.Meth.push_refines xs items

example : push [.int 1, .int 2, .int 3] [.int 4, .int 5]
    = .ok ⟨.int 5, [.int 1, .int 2, .int 3, .int 4, .int 5]⟩ := by rfl

/-- pop(): last element (null on an empty array), receiver loses it. -/
theorem C15_pop_refines (xs : List Val) : pop xs = .ok (Spec.Js.pop xs) :=
  Proofs.Meth.pop_refines xs

/-- shift(): first element (null on an empty array), receiver loses it. -/
theorem C15_shift_refines (xs : List Val) : shift xs = .ok (Spec.Js.shift xs) :=
  Proofs.Meth.shift_refines xs

/-- unshift(...items): all items in front, in order. -/
theorem C15_unshift_refines (xs items : List Val) : unshift xs items = .ok (Spec.Js.unshift xs items) :=
  Proofs.Meth.unshift_refines xs items

/-- slice(start?, end?): relative indexes, clamped; omitted / null end = to the end. -/
theorem C15_slice_refines (xs args : List Val) (start stop : Option Int)
    (h0 : Binds args 0 start) (h1 : Binds args 1 stop) :
    slice xs args = .ok (Spec.Js.slice xs start stop) :=
  Proofs.Meth.slice_refines xs args start stop h0 h1

example : Binds [.int (-2)] 0 (some (-2)) ∧ Binds [.int (-2)] 1 none := by
  simp [Binds]
example : slice [.int 1, .int 2, .int 3, .int 4, .int 5] [.int (-2)]
    = .ok ⟨.list [.int 4, .int 5], [.int 1, .int 2, .int 3, .int 4, .int 5]⟩ := by rfl

/-- splice(start, deleteCount?, ...items): deleted run returned, all items inserted in its place. -/
theorem C15_splice_refines (xs args : List Val) (start deleteCount : Option Int)
    (h0 : Binds args 0 start) (h1 : Binds args 1 deleteCount) :
    splice xs args = .ok (Spec.Js.splice xs start deleteCount (args.drop 2)) :=
  Proofs.Meth.splice_refines xs args start deleteCount h0 h1

example : splice [.int 1, .int 2, .int 3, .int 4, .int 5] [.int 1, .int 2, .str "a", .str "b"]
    = .ok ⟨.list [.int 2, .int 3], [.int 1, .str "a", .str "b", .int 4, .int 5]⟩ := by rfl

/-- concat(...items): every item, arrays spread one level; receiver untouched. -/
theorem C15_concat_refines (xs items : List Val) : concat xs items = .ok (Spec.Js.concat xs items) :=
  Proofs.Meth.concat_refines xs items

/-- join(separator?): string forms joined; omitted / null separator = ",". -/
theorem C15_join_refines (xs args : List Val) (sep : Option Val) (h : BindsVal args 0 sep) :
    join xs args = .ok (Spec.Js.join xs sep) :=
  Proofs.Meth.join_refines xs args sep h

example : join [.str "apple", .str "banana"] [] = .ok ⟨.str "apple,banana", [.str "apple", .str "banana"]⟩ := by
  rfl

/-- reverse(): the receiver is reversed in place and the reversed list returned. -/
theorem C15_reverse_refines (xs : List Val) : reverse xs = .ok (Spec.Js.reverse xs) :=
  Proofs.Meth.reverse_refines xs

/-- sort(): the receiver becomes, and the call returns, *the* stable ascending
arrangement by string form. -/
theorem C15_sort_refines (xs : List Val) :
    ∃ ys, sort xs = .ok ⟨.list ys, ys⟩ ∧ IsSortOf xs ys :=
  Proofs.Meth.sort_refines xs

/-- `IsSortOf` determines the result: the spec of `sort` is a function. -/
theorem C15_sort_spec_unique (xs ys zs : List Val) (hy : IsSortOf xs ys) (hz : IsSortOf xs zs) : ys = zs :=
  Proofs.Meth.isSortOf_unique xs ys zs hy hz

example : sort [.int 3, .str "1", .int 1, .int 10]
    = .ok ⟨.list [.str "1", .int 1, .int 10, .int 3], [.str "1", .int 1, .int 10, .int 3]⟩ := by rfl

/-- indexOf(searchElement, fromIndex?): first position at or after the relative
start whose string form equals that of the key; −1 if none. -/
theorem C15_indexOf_refines (xs : List Val) (key : Val) (more : List Val) (fromIndex : Option Int)
    (h : Binds (key :: more) 1 fromIndex) :
    indexOf xs (key :: more) = .ok (Spec.Js.indexOf xs key fromIndex) :=
  Proofs.Meth.indexOf_refines xs key more fromIndex h

/-- includes(searchElement, fromIndex?). -/
theorem C15_includes_refines (xs : List Val) (key : Val) (more : List Val) (fromIndex : Option Int)
    (h : Binds (key :: more) 1 fromIndex) :
    includes xs (key :: more) = .ok (Spec.Js.includes xs key fromIndex) :=
  Proofs.Meth.includes_refines xs key more fromIndex h

/-- flat(depth?): omitted / null depth = 1; depth ≤ 0 copies. -/
theorem C15_flat_refines (xs args : List Val) (depth : Option Int) (h : Binds args 0 depth) :
    flat xs args = .ok (Spec.Js.flat xs depth) :=
  Proofs.Meth.flat_refines xs args depth h

example : flat [.int 1, .list [.int 2, .list [.int 3]]] []
    = .ok ⟨.list [.int 1, .int 2, .list [.int 3]], [.int 1, .list [.int 2, .list [.int 3]]]⟩ := by rfl

/-- the `length` property. -/
theorem C15_length_refines (xs : List Val) : Model.Meth.length xs = .ok (Spec.Js.length xs) :=
  Proofs.Meth.length_refines xs

/-! ## arrays: methods with a callback `(element, index, array)`, for every callback -/

/-- forEach(cb): null; one invocation per element in order, with its index and the array. -/
theorem C15_forEach_refines (xs : List Val) :
    forEach xs = (.ok (Spec.Js.forEach xs), Spec.Js.calls xs) :=
  Proofs.Meth.forEach_refines xs

theorem C15_map_refines (xs : List Val) (f : Cb) : map xs f = .ok (Spec.Js.map xs f) :=
  Proofs.Meth.map_refines xs f

example : map [.int 5, .int 6] (fun e i a => .list [e, .int i, .int a.length])
    = .ok ⟨.list [.list [.int 5, .int 0, .int 2], .list [.int 6, .int 1, .int 2]], [.int 5, .int 6]⟩ := by rfl

theorem C15_filter_refines (xs : List Val) (p : Pred) : filter xs p = .ok (Spec.Js.filter xs p) :=
  Proofs.Meth.filter_refines xs p

theorem C15_find_refines (xs : List Val) (p : Pred) : find xs p = .ok (Spec.Js.find xs p) :=
  Proofs.Meth.find_refines xs p

theorem C15_findIndex_refines (xs : List Val) (p : Pred) : findIndex xs p = .ok (Spec.Js.findIndex xs p) :=
  Proofs.Meth.findIndex_refines xs p

theorem C15_every_refines (xs : List Val) (p : Pred) : every xs p = .ok (Spec.Js.every xs p) :=
  Proofs.Meth.every_refines xs p

theorem C15_some_refines (xs : List Val) (p : Pred) : someP xs p = .ok (Spec.Js.someP xs p) :=
  Proofs.Meth.some_refines xs p

theorem C15_flatMap_refines (xs : List Val) (f : Cb) : flatMap xs f = .ok (Spec.Js.flatMap xs f) :=
  Proofs.Meth.flatMap_refines xs f

/-- reduce(cb, initialValue?): with an initial value fold from index 0; without
(omitted or null) the first element starts the fold at index 1. -/
theorem C15_reduce_refines (xs : List Val) (f : Cb4) (args : List Val) (init : Option Val)
    (h : BindsVal args 0 init) : reduce xs f args = .ok (Spec.Js.reduce xs f init) :=
  Proofs.Meth.reduce_refines xs f args init h

example : reduce [.int 1, .int 2, .int 3] (fun acc cur i _ => .list [acc, cur, .int i]) []
    = .ok ⟨.list [.list [.int 1, .int 2, .int 1], .int 3, .int 2], [.int 1, .int 2, .int 3]⟩ := by rfl

/-! ## which methods change the receiver -/

/-- **Mutators are exact.** For every receiver and every argument list of the
documented types, each of the seven methods the document lists as mutating
leaves the receiver exactly as specified (and returns what is specified). -/
theorem C15_mutators_exact (xs args : List Val) (start deleteCount : Option Int)
    (h0 : Binds args 0 start) (h1 : Binds args 1 deleteCount) :
    run xs (.push args) = .ok (Spec.Js.push xs args) ∧
    run xs .pop = .ok (Spec.Js.pop xs) ∧
    run xs .shift = .ok (Spec.Js.shift xs) ∧
    run xs (.unshift args) = .ok (Spec.Js.unshift xs args) ∧
    run xs (.splice args) = .ok (Spec.Js.splice xs start deleteCount (args.drop 2)) ∧
    run xs .reverse = .ok (Spec.Js.reverse xs) ∧
    (∃ ys, run xs .sort = .ok ⟨.list ys, ys⟩ ∧ IsSortOf xs ys) :=
  ⟨C15_push_refines xs args, C15_pop_refines xs, C15_shift_refines xs, C15_unshift_refines xs args,
   C15_splice_refines xs args start deleteCount h0 h1, C15_reverse_refines xs, C15_sort_refines xs⟩

/-- **All other methods are pure.** Whatever the arguments (of any type, any
number) and whatever the callback, a method the document does not list as
mutating returns with the receiver unchanged. -/
theorem C15_nonmutators_pure (xs : List Val) (c : Call) (o : Out)
    (hc : documentedMutator c = false) (h : run xs c = .ok o) : o.recv = xs :=
  Proofs.Meth.nonmutators_pure xs c o hc h

example : documentedMutator (.slice [.int 1]) = false ∧
    run [.int 1, .int 2] (.slice [.int 1]) = .ok ⟨.list [.int 2], [.int 1, .int 2]⟩ := ⟨rfl, by rfl⟩

/-! ## strings

Units.  docs/strings.md does not say in which unit a string is measured; read
Node.js-style, `length`, `indexOf` and `substring` count characters.  The code
counts UTF-8 bytes.  Full statements (false on the pinned and on the fixed
tree, recorded as known findings C15-str-bytes-*):

    ∀ s,      length s = .int (Spec.JsStr.length s)
    ∀ s p,    indexOf s [.str p] = .int (Spec.JsStr.indexOf s p.toList)
    ∀ s a e,  substring s [.int a, …e] = .bytes (utf8 (Spec.JsStr.substring s a e))

Proved: the `_partial` theorems (they hold whenever the text is ASCII) and the
negation witnesses, which the harness replays on the real code. -/

open Model.Text in
theorem C15_str_length_partial (s : List Char) (h : AllAscii s) :
    Model.MethStr.length s = .int (Spec.JsStr.length s) :=
  Proofs.MethStr.length_ascii s h

theorem C15_str_length_counterexample :
    ¬ ∀ s : List Char, Model.MethStr.length s = .int (Spec.JsStr.length s) := by
  intro h
  exact absurd (h ['h', 'é', 'l', 'l', 'o']) (by decide)

theorem C15_str_indexOf_partial (s : List Char) (p : String) (more : List Val)
    (hs : AllAscii s) (hp : AllAscii p.toList) :
    Model.MethStr.indexOf s (.str p :: more) = .int (Spec.JsStr.indexOf s p.toList) :=
  Proofs.MethStr.indexOf_ascii s p more hs hp

theorem C15_str_indexOf_counterexample :
    ¬ ∀ (s : List Char) (p : String),
      Model.MethStr.indexOf s [.str p] = .int (Spec.JsStr.indexOf s p.toList) := by
  intro h
  exact absurd (h ['h', 'é', 'l', 'l', 'o'] "l") (by decide)

theorem C15_str_substring_partial (s : List Char) (a : Int) (more : List Val) (stop : Option Int)
    (hs : AllAscii s) (h1 : Binds (.int a :: more) 1 stop) :
    Model.MethStr.substring s (.int a :: more) = .bytes (Model.Text.utf8 (Spec.JsStr.substring s a stop)) :=
  Proofs.MethStr.substring_ascii s a more stop hs h1

theorem C15_str_substring_counterexample :
    ¬ ∀ (s : List Char) (a b : Int),
      Model.MethStr.substring s [.int a, .int b] = .bytes (Model.Text.utf8 (Spec.JsStr.substring s a (some b))) := by
  intro h
  exact absurd (h ['h', 'é', 'l', 'l', 'o'] 1 4) (by decide)

example : AllAscii ['H', 'e', 'l', 'l', 'o'] := by
  intro c hc; simp at hc; rcases hc with rfl | rfl | rfl | rfl | rfl <;> decide
example : Model.MethStr.substring ['H', 'e', 'l', 'l', 'o'] [.int 5, .int 2] = .bytes [108, 108, 111] := by decide

/-- replace(search, replace) with string arguments: every occurrence, left to
right, non-overlapping; an empty search text matches before every character
and at the end. -/
theorem C15_str_replace_refines (s : List Char) (search repl : String) (more : List Val) :
    Model.MethStr.replace s (.str search :: .str repl :: more) = .text (Spec.JsStr.replace s search.toList repl.toList) := by
  rw [Proofs.MethStr.spec_replace_eq]; rfl

example : Model.MethStr.replace "Hello World".toList [.str "o", .str "0"] = .text "Hell0 W0rld".toList := by decide

/-- split(separator?): omitted / null → at white space; else the pieces between
consecutive occurrences (empty separator: the characters). -/
theorem C15_str_split_refines (s : List Char) :
    Model.MethStr.split s [] = .texts (Spec.JsStr.split s none) ∧
    (∀ more, Model.MethStr.split s (.null :: more) = .texts (Spec.JsStr.split s none)) ∧
    (∀ (sep : String) more, Model.MethStr.split s (.str sep :: more) = .texts (Spec.JsStr.split s (some sep.toList))) :=
  ⟨rfl, fun _ => rfl, fun sep _ => by rw [Proofs.MethStr.spec_split_eq]; rfl⟩

example : Model.MethStr.split "a,b,,c".toList [.str ","] = .texts ["a".toList, "b".toList, [], "c".toList] := by decide

theorem C15_str_trim_refines (s : List Char) : Model.MethStr.trim s = .text (Spec.JsStr.trim s) := rfl

theorem C15_str_toUpperCase_refines (s : List Char) :
    Model.MethStr.toUpperCase s = .text (Spec.JsStr.toUpperCase s) := rfl

theorem C15_str_toLowerCase_refines (s : List Char) :
    Model.MethStr.toLowerCase s = .text (Spec.JsStr.toLowerCase s) := rfl

theorem C15_str_startsWith_refines (s : List Char) (p : String) (more : List Val) :
    Model.MethStr.startsWith s (.str p :: more) = .bool (Spec.JsStr.startsWith s p.toList) := rfl

theorem C15_str_endsWith_refines (s : List Char) (p : String) (more : List Val) :
    Model.MethStr.endsWith s (.str p :: more) = .bool (Spec.JsStr.endsWith s p.toList) := rfl


/-! ## the storage the callback methods work on

`Model.MethStore` runs the nine callback-taking methods on explicit storage: the
receiver's slots (which a callback can change through a captured reference), the
snapshot `sourceValues` that is re-wrapped for the callback's array argument at
every invocation, and the result buffer, whose place is a parameter (`OutBuf`).
The callback is script code with effects (`ECb`: it answers a value and the
receiver afterwards).  The theorems: with a result buffer of its own (`fresh`,
what the code does — obligation `C15_storage_layout` on the regenerated facts)
nothing the method writes is visible through the callback's arguments, the
method never writes the receiver, and the storage-level run is the list
recursion of `Model.Meth` (hence, by the theorems above, the documented
behaviour); with the result carved out of the snapshot (`inSnap`, the "filter
in place" idiom) or out of the receiver (`inRecv`) this is false. -/

section Storage
open Model.MethStore (OutBuf Kind ECb Ev St ofCb ofPred ofCb4 runRes trace)
open Proofs.MethStore (Quiet)

/-- **What a callback is given does not depend on anything the method or the callback writes.**
For every method, every receiver and every callback — whatever it does to the receiver through a
reference, whatever it returns — each invocation gets as array argument the receiver's elements as of
the start of the call, and as element the entry of that array at the index it is given. -/
theorem C15_store_callback_sees_source (kind : Kind) (cb : ECb) (xs args : List Val) :
    ∀ ev ∈ trace .fresh kind cb xs args, ev.inv.arr = xs ∧ xs[ev.inv.idx]? = some ev.inv.el := by
  unfold trace
  cases h : Model.MethStore.run .fresh kind cb xs args with
  | none => intro ev hev; cases hev
  | some r =>
    obtain ⟨v, s, t⟩ := r
    exact Proofs.MethStore.run_fresh_args kind cb xs args v s t h

example : (trace .fresh .filter (fun inv recv => (.bool (inv.idx != 0), recv.set 0 (.int 99)))
    [.int 3, .int 5, .int 1] []).map (fun ev => (ev.inv.el, ev.inv.arr, ev.recv))
  = [(.int 3, [.int 3, .int 5, .int 1], [.int 3, .int 5, .int 1]),
     (.int 5, [.int 3, .int 5, .int 1], [.int 99, .int 5, .int 1]),
     (.int 1, [.int 3, .int 5, .int 1], [.int 99, .int 5, .int 1])] := by rfl

/-- **The method itself never writes the receiver**: after a call whose callback leaves the receiver
alone, the receiver is what it was (all nine methods, any arguments). -/
theorem C15_store_receiver_untouched (kind : Kind) (cb : ECb) (hq : Quiet cb) (xs args : List Val)
    (o : Out) (h : runRes .fresh kind cb xs args = .ok o) : o.recv = xs :=
  Proofs.MethStore.runRes_recv_quiet kind cb hq xs args o h

/-- **The storage-level run is `Model.Meth`** for callbacks without effects: the result does not depend on
where the working storage is, as long as the result buffer is the method's own. -/
theorem C15_store_refines (xs args : List Val) (f : Cb) (p : Pred) (g : Cb4) :
    runRes .fresh .map (ofCb f) xs args = map xs f ∧
    runRes .fresh .filter (ofPred p) xs args = filter xs p ∧
    runRes .fresh .flatMap (ofCb f) xs args = flatMap xs f ∧
    runRes .fresh .find (ofPred p) xs args = find xs p ∧
    runRes .fresh .findIndex (ofPred p) xs args = findIndex xs p ∧
    runRes .fresh .every (ofPred p) xs args = every xs p ∧
    runRes .fresh .someP (ofPred p) xs args = someP xs p ∧
    runRes .fresh .reduce (ofCb4 g) xs args = reduce xs g args ∧
    runRes .fresh .forEach (ofCb f) xs args = (forEach xs).1 ∧
    (trace .fresh .forEach (ofCb f) xs args).map (fun ev => (⟨ev.inv.el, ev.inv.idx, ev.inv.arr⟩ : CallEv))
      = (forEach xs).2 :=
  ⟨Proofs.MethStore.map_refines f xs args, Proofs.MethStore.filter_refines p xs args,
   Proofs.MethStore.flatMap_refines f xs args, Proofs.MethStore.find_refines p xs args,
   Proofs.MethStore.findIndex_refines p xs args, Proofs.MethStore.every_refines p xs args,
   Proofs.MethStore.some_refines p xs args, Proofs.MethStore.reduce_refines g xs args,
   (Proofs.MethStore.forEach_refines (ofCb f) (Proofs.MethStore.ofCb_quiet f) xs args).1,
   (Proofs.MethStore.forEach_refines (ofCb f) (Proofs.MethStore.ofCb_quiet f) xs args).2⟩

/-- a predicate that reads its array argument at an earlier position: "greater than the first element" -/
def gtFirst : Pred := fun e _ a =>
  match e, a.head? with
  | .int x, some (.int y) => decide (x > y)
  | _, _ => false

/-- **Result buffer carved out of the snapshot** (`result := sourceValues[:0]`): once an element has been
rejected, every kept element overwrites an earlier entry of what the next invocation is shown —
`[3,5,1,4]->filter(fn($x,$i,$a) => $x > $a[0])` answers `[5]`, not `[5,4]`. -/
theorem C15_store_inSnap_counterexample :
    runRes .inSnap .filter (ofPred gtFirst) [.int 3, .int 5, .int 1, .int 4] []
      = .ok ⟨.list [.int 5], [.int 3, .int 5, .int 1, .int 4]⟩ ∧
    filter [.int 3, .int 5, .int 1, .int 4] gtFirst
      = .ok ⟨.list [.int 5, .int 4], [.int 3, .int 5, .int 1, .int 4]⟩ ∧
    (trace .inSnap .filter (ofPred gtFirst) [.int 3, .int 5, .int 1, .int 4] []).map (fun ev => ev.inv.arr)
      = [[.int 3, .int 5, .int 1, .int 4], [.int 3, .int 5, .int 1, .int 4],
         [.int 5, .int 5, .int 1, .int 4], [.int 5, .int 5, .int 1, .int 4]] :=
  ⟨by rfl, by rfl, by rfl⟩

/-- **Result buffer carved out of the receiver**: a method documented as non-mutating changes its receiver. -/
theorem C15_store_inRecv_counterexample :
    runRes .inRecv .filter (ofPred gtFirst) [.int 3, .int 5, .int 1, .int 4] []
      = .ok ⟨.list [.int 5, .int 4], [.int 5, .int 4, .int 1, .int 4]⟩ := by rfl

/-- **The code has the layout the theorems are about** (regenerated from `data/value_array*.go` on every
run): every callback method stores only into buffers of its own, runs its loop over the snapshot, hands
that snapshot (re-wrapped) to the callback and invokes it through `data.callArrayCallback`, which creates
a context per invocation, binds the declared parameters only and reads a missing result as null; no type
implements `data.CallableValue` (the other branch of these methods); the callback-free non-mutators store
only into buffers of their own; all 22 method objects are accounted for. -/
theorem C15_storage_layout :
    Proofs.MethStoreObl.StorageOK Generated.C15Storage.methods Generated.C15Storage.helperFreshCtx
      Generated.C15Storage.helperBindsDeclared Generated.C15Storage.helperNilIsNull
      Generated.C15Storage.callableImplementers Generated.C15Storage.shapeChanged = true := by decide

/-- hence every callback method of the source has the `fresh` layout of `Model.MethStore` -/
theorem C15_storage_callbacks_fresh :
    ∀ m ∈ Generated.C15Storage.methods, Proofs.MethStoreObl.callbackMethods.contains m.name = true →
      Proofs.MethStoreObl.layoutOf m = some .fresh ∧ m.loops.all Proofs.MethStoreObl.loopOK = true :=
  Proofs.MethStoreObl.callback_fresh_of_ok _ _ _ _ _ _ C15_storage_layout

/-- the obligation is not vacuous: the seeded layout (`filter` storing into the snapshot) is rejected -/
example : Proofs.MethStoreObl.methodOK
    ⟨"filter", "data/value_array_filter.go", false, [⟨"*FuncValue", ["copy"], ["copy"], "helper"⟩], ["copy"], ["copy"]⟩
    = false := by decide
example : Proofs.MethStoreObl.layoutOf
    ⟨"filter", "data/value_array_filter.go", false, [⟨"*FuncValue", ["copy"], ["copy"], "helper"⟩], ["copy"], ["copy"]⟩
    = some .inSnap := by decide

end Storage

end C15
