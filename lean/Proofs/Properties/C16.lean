import Proofs.Lemmas.Emit
import Proofs.Lemmas.EmitObl
import Proofs.Lemmas.EmitOrder
import Proofs.Lemmas.EmitQuote
import Proofs.Lemmas.EmitFuse
import Proofs.Lemmas.EmitCtx
import Proofs.Lemmas.EmitType
import Generated.C16CompileNodes
/-!
# C16 — ahead-of-time compilation preserves behaviour (compiled = interpreted)

Property theorems only. `Model.Emit` mirrors the dispatch of `Generator.Emit` (cmd/compile):
special handler > data scalar emitter > reflective struct literal > `EmitError`, over abstract
AST trees; `rebuild` evaluates the emitted Go literal; `Spec.Emit.erase` says which tree the
compiled program therefore evaluates. The struct tables, the two registries, the fields each
hand-written handler reads, two facts about `reflect_emit.go` and the call sequences of the two
runners are regenerated from the source on every run (`Generated.C16CompileNodes`); theorems are
stated for **any** tables, the obligations re-check the regenerated ones by `decide`.

`Model.EmitQuote` models the way of a *scalar value* through Go source text (`%q` = `strconv.Quote`, Go's
reading of interpreted and raw string literals, `Generator.printf`'s per-line indentation, `%d`, the sign
of a float): section "scalar payloads" below; tied to the real Generator every run by the scalar probe of
harness/c16 (every scalar field x every payload class x three indentation depths).

`Model.EmitCtx` models the substitution of a per-FILE value of the generator (`g.namespace`: the file's
LAST namespace section) for a per-NODE value of the AST (`CallLater.namespace`: the namespace in force where
the call was written), and what that value means at run time (`CallLater.GetValue`'s lookup): section
"per-file state" below; tied every run by the ctx probe, the resolve tie and the namespace-section
features of harness/c16 (files with 2..3 `namespace` sections).

**Partial.** The theorems are about the *structure* of the translation: which fields reach the
generated program. That each hand-written handler passes the fields it reads to the right
constructor argument, that the constructors rebuild what the parser built, and that the run-time
(`Register`, `RunCompiledFile`) then behaves like the interpreter is decided by the differential
run of harness/c16 (real compile command, real `go build`, compiled vs interpreted), not by proof.

History on the pinned tree (see props/C16.json): `nodeNeedsTag = true` made `C16_nodes_rebuilt`
false for the 13 structs that embed `*Node` untagged (fix C16-untagged-node-nil);
`ptrAssertUnchecked = true` made `C16_no_crash_obligation` false through `node.ClassConstant.From`
(fix C16-ptr-assert-panic). The fields in `knownDropped` are known findings.
-/
namespace C16
open Model.Emit Spec.Emit Proofs.Emit
open Generated.C16CompileNodes (tables shapeChanged runCompiledSteps loadAndRunSteps)

/-! ### the two short lists -/

/-- Fields no handler reads because their value is *derived*: recomputed by the constructor the
generated code calls, or filled in at run time. One line of justification each. -/
def derivedFields : List (String × String) := [
  ("node.CallExpression", "Fun"),                -- resolved on first call by CallLater (NewCallTodo)
  ("node.CallLater>node.CallExpression", "Fun"), -- same
  ("node.CallStaticMethodLater", "call"),        -- `pp:"-"` cache filled on first call
  ("node.CallStaticPropertyLater", "access"),    -- `pp:"-"` cache
  ("node.NewExpression", "class"),               -- `pp:"-"` cache
  ("node.LambdaExpression", "ctx"),              -- definition context, set when the closure value is created
  ("node.FunctionStatement", "FuncStmt"),        -- embedded interface, nil in parsed functions
  ("node.FunctionStatement", "IsGenerator"),     -- NewFunctionStatement recomputes containsYield(body)
  ("node.FunctionStatement", "defineCtx"),       -- run time
  ("node.FunctionStatement", "staticLocals"),    -- run time
  ("node.LambdaExpression>node.FunctionStatement", "FuncStmt"),
  ("node.LambdaExpression>node.FunctionStatement", "Name"),         -- closures are anonymous
  ("node.LambdaExpression>node.FunctionStatement", "defineCtx"),
  ("node.LambdaExpression>node.FunctionStatement", "staticLocals"),
  ("node.ClassMethod", "IsGenerator"),           -- NewMethod recomputes containsYield(body)
  ("node.ClassMethod", "staticLocals"),          -- run time
  ("data.ClassValue", "Context"),                -- annotation instances are rebuilt by the Compiled…Value factories
  ("data.ClassValue", "ObjectValue"),
  ("data.NullValue", "Value"),                   -- NewNullValue()
  ("node.VariableExpression", "Type"),           -- only the list() targets and symbol-table entries written by hand; untyped
  ("node.VariableReference", "Type")
]

/-- Known findings: fields that carry program data and are not translated (props/C16.json). -/
def knownDropped : List (String × String) := [
  ("node.ClassStatement", "StaticProperty"),     -- class constants, static properties, enum cases: parse-time values, not emitted
  ("node.AbstractClassStatement>node.ClassStatement", "StaticProperty"),
  ("node.InterfaceStatement", "StaticProperty"), -- interface constants
  ("node.ClassStatement", "Construct"),          -- inherited constructor resolved by the parser; NewClassStatement only finds an own one
  ("node.AbstractClassStatement>node.ClassStatement", "Construct"),
  ("node.ClassProperty", "Annotations"),         -- property annotations
  ("node.LambdaExpression>node.FunctionStatement", "Ret"),              -- declared return type of a closure
  ("node.LambdaExpression>node.FunctionStatement", "IsGenerator"),      -- NewLambdaExpression does not recompute it
  ("node.LambdaExpression>node.FunctionStatement", "ReturnsReference")
]

def allowed : List (String × String) := derivedFields ++ knownDropped

/-! ### obligations on the regenerated facts (re-checked by every `lake build`) -/

/-- the translator found every syntactic shape it expects (registries, `Emit`'s dispatch order
special > scalar > struct literal > EmitError, the `needsNode` test, the `reflect.Ptr` arm, the two
runners) -/
theorem shape_unchanged : shapeChanged = [] := by decide

/-- **Every field that any handler or any reflective literal can leave out is on one of the two
lists.** Reflective structs: only the embedded `*Node` is skipped (no other `pp:"-"` field), and it
is rebuilt. Special handlers, scalar emitters, and the structs handlers take apart by hand: every
field is read, or derived, or a known finding. A new node field that a handler forgets, a new
`pp:"-"` tag, a handler that stops reading a field: this `decide` fails. -/
theorem C16_static_drops_allowed :
    (staticDrops tables).all (fun p => allowed.contains p) = true := by decide +kernel

/-- a struct embedding `*Node` always gets `Node: node.NewNode(from)` in its literal (a nil Node is
dereferenced by `GetFrom()` as soon as the node reports an error) -/
theorem C16_nodes_rebuilt :
    (emittable tables).all (fun d => !d.fields.any (·.embeddedNode) || needsNode tables d) = true :=
  Proofs.EmitObl.nodes_rebuilt

/-- no struct that takes the reflective path has a field whose value makes the compile command
panic instead of reporting an error -/
theorem C16_no_crash_obligation : noCrashKinds tables = true := Proofs.EmitObl.no_crash_kinds

/-- **A slice or map whose element type has no name is only ever written by hand.** `emitSlice` /
`emitMap` print the element type as package + `reflect.Type.Name()`; for `[]*T`, `[][]T`, `[]any` the
name is empty and the text `[]{…}` is not Go (the command's `format.Source` then refuses the file).
Every struct with such a field that would take the reflective path when handed to `Emit` is one the
handlers take apart themselves (`node.VariableList` — only `emitVariableList` writes it —,
`node.ClassMethod`, `node.ClassProperty`); a new `[]*T` field on a reflectively emitted node: this
`decide` fails. -/
theorem C16_unnamed_elems_by_hand : unnamedByHand tables = true := Proofs.EmitObl.unnamed_by_hand

/-- … and if such a value does reach the reflective walk, the outcome is an explicit error in every
mode, never text that silently lacks the collection -/
theorem C16_unnamed_is_error (tbl : Tables) (m : Mode) (ty : String) :
    emit tbl m ty .unnamed = .error .malformed := rfl

/-- field names are unique inside every described struct (so `find?` by name is the field) -/
theorem C16_fields_unique :
    tables.structs.all (fun d => d.fields.all (fun f =>
      (d.fields.find? (fun g => g.name == f.name)).map (·.name) == some f.name
      && (d.fields.filter (fun g => g.name == f.name)).length == 1)) = true := Proofs.EmitObl.fields_unique

/-- once the AST is there, `RunCompiledFile` and `LoadAndRun` make the same calls in the same
order: normalise the path, test and set the file cache, create the context, register the globals,
run the program, flush -/
theorem C16_same_runner_obligation :
    skeleton runCompiledSteps = skeleton loadAndRunSteps ∧
    skeleton runCompiledSteps = [.normalize, .cacheGet, .cacheSet, .createContext, .registerGlobals, .run, .flush] :=
  Proofs.EmitObl.same_skeleton

/-- **Order.** Every ordered collection of the AST is walked front to back, and a collection the
AST keeps twice (lookup map + order slice: `ClassStatement.Properties` / `PropertiesIndex`) is walked
through the slice and only looked up in the map. On the regenerated uses of every slice- or
map-typed field in the functions reached from the handlers: a slice is only `range`d, measured or
nil-tested (no computed index, no re-slicing, never handed to `sort.…`/`slices.…`); a map that has an
order companion is only indexed; the function that indexes it ranges over the companion. A handler
that iterates `sortedKeys(n.Properties)`, ranges over the map, sorts `PropertiesIndex` in place or
walks a slice back to front: this `decide` fails — also when the handler still *reads* both fields,
which `C16_static_drops_allowed` cannot see. -/
theorem C16_order_obligation :
    Model.EmitOrder.orderRespected Generated.C16CompileNodes.orderPairs Generated.C16CompileNodes.accesses = true := by
  decide +kernel

/-- the pair the obligation is about is still found by the translator (non-vacuity of clause 2/3) -/
theorem C16_order_pairs_found :
    Generated.C16CompileNodes.orderPairs.contains ⟨"node.ClassStatement", "Properties", "PropertiesIndex"⟩ = true := by
  decide +kernel

/-! ### special handlers that substitute a node -/

section fuse
open Model.EmitFuse

/-- Substitutions on record: handlers whose first written head is NOT their own type, with the reason
the other node is taken to behave like the parser's. Whether each really does on every operand is
decided by the operand stream of the differential run (harness/c16/operand.go), not here. -/
def knownSubstitutions : List Subst := [
  ("node.CallExpression", "emitCallExpression", "node.NewCallTodo"),   -- `Fun` is resolved at the first call (CallLater), as for a function declared later
  ("node.CallLater", "emitCallLater", "node.NewCallTodo"),             -- same node kind on both sides once resolved
  ("node.CallStaticMethod", "emitCallStaticMethod", "node.NewCallStaticMethodLater"),       -- class looked up at the first call instead of at parse time
  ("node.CallStaticProperty", "emitCallStaticProperty", "node.NewCallStaticPropertyLater"), -- same
  ("data.ClassValue", "emitClassValue", "")                            -- annotation instances are rebuilt by the Compiled…Value factories
]

/-- the node types with a special handler, as the model knows them -/
def knownSpecialTypes : List String := [
  "node.CallExpression", "node.CallMethod", "node.CallStaticMethod", "node.CallStaticProperty",
  "node.CallStaticMethodLater", "node.CallStaticPropertyLater", "node.CallLater", "node.LambdaExpression",
  "node.ClassStatement", "node.AbstractClassStatement", "node.FunctionStatement", "node.InterfaceStatement",
  "node.VarFastAssign", "node.VarPostIncr", "node.VarStmtIncr", "node.VarIntLe", "data.ClassValue", "node.Array",
  "node.Namespace", "node.NewExpression", "node.NewVariableExpression", "node.NewExpressionDynamic",
  "node.NewSelfExpression", "node.NewStaticExpression", "node.InitClass", "node.Kv", "node.Range",
  "node.IncludeStatement", "node.ConstStatement", "node.BinaryAssignVariable", "node.BinaryAssignVariableList"]

/-- **The special-handled node types are exactly the ones on record.** A new entry of
`specialHandlers` (`reflect.TypeOf((*node.BinaryLt)(nil)): emitBinaryLt`) — a node kind that stops
taking the reflective path, where the generated program holds field for field what the parser built —
breaks this `decide` by name: the handler has to be read, classified below, and its node kind has to
be in the operand stream. -/
theorem C16_special_handler_types :
    tables.special.map (·.ty) = knownSpecialTypes ∧
    Generated.C16CompileNodes.handlerOuts.map (fun o => (o.ty, o.fn)) = tables.special.map (fun h => (h.ty, h.fn)) := by
  decide +kernel

/-- **Every special handler writes its own node type and builds no node of its own, or is a
substitution on record.** On the regenerated description of what each handler writes: the first
constructor / literal type named in its format strings is `&node.T{` or `node.NewT…(` for the handled
type `T`, and neither the handler nor a helper it reaches calls a `node.New…` / `data.New…` constructor
or builds a `node.…{}` / `data.…{}` literal at generation time (`g.Emit(node.NewBinaryLe(from, ve,
bound))`: an AST node the parser never built). A handler that starts emitting another node kind than
the one it is registered for — an algebraic rewrite, a fused node — fails here by name. -/
theorem C16_special_handlers_known :
    handlersKnown knownSubstitutions Generated.C16CompileNodes.handlerOuts = true := by decide +kernel

/-- **The fused `<=` node agrees with the plain one on the whole operand domain**, whatever
`LooseCompare` answers on non-integers: `VarIntLe` takes its integer path only for an `*IntValue` and
evaluates the embedded `BinaryLe` otherwise, and on two ints `LooseCompare` is the exact order. So the
parser's own substitution (`NewBinaryLe` returns `VarIntLe` for `$var <= IntLiteral`), which the
generated program repeats, is behaviour-preserving. -/
theorem C16_fused_le_agrees (loose : LooseNonInt) (v : V) (lit : Int) :
    evalVarIntLe loose v lit = evalLe loose v lit := Proofs.EmitFuse.fused_le_agrees loose v lit

/-- the rewrite `$v < N` → `$v <= N-1` (seeded change `C16-lt-literal-emitted-as-le`) is right on the
integers — every counting loop, which is why the repository's tests stay green … -/
theorem C16_lt_rewrite_on_ints (loose : LooseNonInt) (i n : Int) :
    evalLtRewritten loose (.int i) n = evalLt loose (.int i) n := Proofs.EmitFuse.rewrite_on_ints loose i n

/-- … and wrong exactly here: a float strictly between `N-1` and `N` (`2.5 < 3`), -/
theorem C16_lt_rewrite_float_iff (t n : Int) :
    evalLtRewritten looseReal (.half t) n = evalLt looseReal (.half t) n ↔ t ≠ 2 * n - 1 :=
  Proofs.EmitFuse.rewrite_half_iff t n

/-- `true` against every literal but 1 (`true < 3` is false, `true <= 2` is true), -/
theorem C16_lt_rewrite_true_iff (n : Int) :
    evalLtRewritten looseReal (.bool true) n = evalLt looseReal (.bool true) n ↔ n = 1 :=
  Proofs.EmitFuse.rewrite_true_iff n

/-- `null` (and `false`) against 0 (`null < 0` is false, `null <= -1` is true). -/
theorem C16_lt_rewrite_null_iff (n : Int) :
    evalLtRewritten looseReal .null n = evalLt looseReal .null n ↔ n ≠ 0 :=
  Proofs.EmitFuse.rewrite_null_iff n

/-- **Negation witness**: the full statement `∀ v n, rewritten v n = ($v < n)` is false -/
theorem C16_lt_rewrite_counterexample :
    ¬ ∀ (v : V) (n : Int), evalLtRewritten looseReal v n = evalLt looseReal v n := by
  intro h
  have := h (.half 5) 3
  revert this
  decide

/-! non-vacuity -/
example : evalLt looseReal (.half 5) 3 = true ∧ evalLtRewritten looseReal (.half 5) 3 = false := by decide
example : evalLt looseReal (.bool true) 3 = false ∧ evalLtRewritten looseReal (.bool true) 3 = true := by decide
example : evalLt looseReal .null 0 = false ∧ evalLtRewritten looseReal .null 0 = true := by decide
example : evalLt looseReal .noOrder 3 = false ∧ evalLtRewritten looseReal .noOrder 3 = false := by decide
example : evalVarIntLe looseReal (.int 2) 2 = true ∧ evalVarIntLe looseReal (.half 5) 2 = false := by decide
/-- the seeded handler as the translator describes it: no head of its own, three values built -/
example : handlersKnown knownSubstitutions
    [⟨"node.BinaryLt", "emitBinaryLt", [], ["data.NewIntValue", "node.IntLiteral", "node.NewBinaryLe"]⟩] = false := by decide
/-- a handler registered for one type that writes another -/
example : handlersKnown knownSubstitutions [⟨"node.BinaryLt", "emitBinaryLt", ["node.VarIntLe"], []⟩] = false := by decide
example : handlersKnown knownSubstitutions [⟨"node.VarIntLe", "emitVarIntLe", ["node.VarIntLe"], []⟩] = true := by decide
example : handlersKnown knownSubstitutions [⟨"node.Array", "emitArray", ["node.NewArrayWithKeys", "node.NewArray"], []⟩] = true := by decide

end fuse


/-! ### per-file state of the generator versus per-node state of the AST -/

section ctx
open Model.EmitCtx
open Generated.C16CompileNodes (generatorFields parsedFileFields generateAssigns parsedNamespace packageVars ctxReads)

/-- Prints of a per-file value on record: handlers that write `g.namespace` into the generated text,
with the reason the file-level value cannot matter. Whether it really cannot is decided by the
namespace-section stream of the differential run (harness/c16/nsfile.go), not here. -/
def knownCtxEmits : List KnownEmit := [
  ("node.CallExpression", "emitCallExpression", "namespace"),         -- a call the parser resolved: FunName is the function's full name, the first lookup answers (C16_ctx_resolve_found_first); the node has no namespace of its own
  ("node.CallStaticMethod", "emitCallStaticMethod", "namespace"),     -- the class was resolved at parse time: className is its full name, found by the first lookup
  ("node.CallStaticProperty", "emitCallStaticProperty", "namespace")  -- same
]

/-- **The generator's state is the one on record**: five fields, of which `file` and `namespace` are
per-file values set by `Generate` from `ParsedFile.Path` / `.Namespace`, and `ParsedFile.Namespace`
is the parser's namespace after the whole file (`clone.GetNamespace()`: the LAST section); the
package-level variables of cmd/compile are the registries, the templates, the command's flags and the
runtime loader — none of them written per node. A new per-file / per-run field (`className`, `uses`,
`strict`) or package variable (`currentNamespace`) breaks this `decide` by name: what it stands for
per node has to be asked. -/
theorem C16_ctx_generator_state :
    generatorFields = ["buf", "indent", "importAliases", "file", "namespace"] ∧
    parsedFileFields = ["Path", "Program", "Variables", "Namespace"] ∧
    generateAssigns = [("file", "pf.Path"), ("namespace", "pf.Namespace")] ∧
    parsedNamespace = "clone.GetNamespace()" ∧
    packageVars = ["builtinTemplates", "compileBuild", "compileEntry", "compileOutput", "compilePkg",
      "dataValueEmitters", "presetTemplates", "runtimeLoader", "specialHandlers"] := by decide +kernel

/-- **Every use a handler makes of a generator field is printer state, a diagnostic, or a print on
record.** On the regenerated uses of `g.<field>` in the closure of every registered handler: `buf`,
`indent`, `importAliases` are the printer's; `file` only reaches the message of a compile error; a
per-file value printed into the generated text is one of `knownCtxEmits`. A handler that starts
printing `g.namespace` (or binds it, or hands it to a helper) fails here by name. -/
theorem C16_ctx_emits_known : emitsKnown knownCtxEmits ctxReads = true := by decide +kernel

/-- **No handler takes from the generator what its node carries itself.** A handler whose node type
has a field named like a per-file field of the generator (`CallLater.namespace`,
`CallStaticMethodLater.namespace`, `CallStaticPropertyLater.namespace`: the namespace in force WHERE
the call was written) does not use the generator's (`g.namespace`: the file's LAST namespace). The
seeded change `C16-calllater-namespace-from-generator` (emitCallLater through a helper that prints
`g.namespace`) fails here — also if the handler kept a token read of the node's field, which
`C16_static_drops_allowed` cannot see. -/
theorem C16_ctx_no_shadowing : noShadowing tables ctxReads = true := by decide +kernel

/-- non-vacuity of the two obligations: the three prints on record are still found, and the three
node types still carry a namespace of their own -/
theorem C16_ctx_facts_found :
    (knownCtxEmits.all fun k => ctxReads.contains ⟨k.2.1, k.1, k.2.2, "emit"⟩) = true ∧
    (["node.CallLater", "node.CallStaticMethodLater", "node.CallStaticPropertyLater"].all fun ty =>
      (fieldNames tables ty).contains "namespace") = true := by decide +kernel

/-- **Faithful iff all sites agree with the constant** (any tree, any depth, any attribute type):
the emitter that writes one per-file value `c` at every site produces the text of the emitter that
writes each site's own value iff every site of the tree carries `c`. -/
theorem C16_ctx_const_faithful_iff {α : Type} (c : α) (t : T α) :
    emitConst c t = emitFaithful t ↔ ∀ a ∈ attrs t, a = c :=
  Proofs.EmitCtx.const_faithful_iff c t

/-- **The file-level statement.** The parser labels every site with the name of the section it is
written in; `Generate` knows the name of the LAST section. Writing that name at every site is
faithful iff every section that contains a site has the last section's name. -/
theorem C16_ctx_file_faithful_iff {α : Type} (dflt : α) (secs : List (Section α)) :
    emitConst (lastName dflt secs) (parseFile secs) = emitFaithful (parseFile secs) ↔
    ∀ s ∈ secs, sites s.body ≠ 0 → s.name = lastName dflt secs :=
  Proofs.EmitCtx.file_faithful_iff dflt secs

/-- … so for a file whose sections all have one name — a single `namespace` line, the only shape in
the repository's tests and in the feature alphabet before the section stream — the substitution is
invisible: why the tests stay green -/
theorem C16_ctx_one_namespace {α : Type} (dflt n : α) (secs : List (Section α)) (hne : secs ≠ [])
    (h : ∀ s ∈ secs, s.name = n) :
    emitConst (lastName dflt secs) (parseFile secs) = emitFaithful (parseFile secs) := by
  rw [C16_ctx_file_faithful_iff, Proofs.EmitCtx.lastName_of_all dflt n secs hne h]
  exact fun s hs _ => h s hs

/-- a file without any `namespace` line: one unnamed section, faithful as well -/
theorem C16_ctx_no_namespace {α : Type} (dflt : α) (body : T α) :
    emitConst (lastName dflt [⟨dflt, body⟩]) (parseFile [⟨dflt, body⟩]) = emitFaithful (parseFile [⟨dflt, body⟩]) :=
  C16_ctx_one_namespace dflt dflt _ (by simp) (by simp)

/-- **Negation witness** (the full statement `∀ file, emit-with-constant = emit-faithful` is false):
two sections `A`, `B`, one call site in `A` — the generated program holds `B` where the parser's
tree holds `A` -/
theorem C16_ctx_two_sections_counterexample :
    ¬ ∀ secs : List (Section String),
      emitConst (lastName "" secs) (parseFile secs) = emitFaithful (parseFile secs) := by
  intro h
  have := (C16_ctx_file_faithful_iff "" [⟨"A", .site "" .nil⟩, ⟨"B", .nil⟩]).mp (h _) ⟨"A", .site "" .nil⟩ (by simp)
    (by decide)
  revert this
  decide

/-- **What the namespace means at run time: the first lookup wins.** A name the VM knows as written
(a builtin, a fully qualified name) is resolved without the namespace — why the three prints on
record cannot matter as long as the name they carry is one the first lookup finds -/
theorem C16_ctx_resolve_found_first (d : Name → Bool) (ns q : Name) (h : d q = true) :
    resolve d ns q = some q := Proofs.EmitCtx.resolve_found_first d ns q h

/-- **When do two namespaces resolve a call alike?** Iff the name as written is defined, or the two
namespaces are equal, or the name is defined in neither. -/
theorem C16_ctx_resolve_eq_iff (d : Name → Bool) (n1 n2 q : Name) :
    resolve d n1 q = resolve d n2 q ↔
      d q = true ∨ n1 = n2 ∨ (d (n1 ++ q) = false ∧ d (n2 ++ q) = false) :=
  Proofs.EmitCtx.resolve_eq_iff d n1 n2 q

/-- **The program-level statement**: the compiled program with the file's last namespace `c` at every
call site resolves every call as the parser's tree does iff every call site is written in `c`, or
names a function the first lookup finds, or a function neither namespace defines. A call site in
another section whose short name exists in its own section or in the last one breaks it. -/
theorem C16_ctx_same_resolution_iff (d : Name → Bool) (c : Name) (calls : List Call) :
    sameResolution d c calls ↔
      ∀ s ∈ calls, d s.q = true ∨ c = s.ns ∨ (d (c ++ s.q) = false ∧ d (s.ns ++ s.q) = false) := by
  unfold sameResolution
  constructor
  · intro h s hs; exact (C16_ctx_resolve_eq_iff d c s.ns s.q).mp (h s hs)
  · intro h s hs; exact (C16_ctx_resolve_eq_iff d c s.ns s.q).mpr (h s hs)

/-- negation witnesses at run time, the two programs of the seeded change's demonstration: `wrap()`
written in `App\Text` with a `wrap` in both sections is resolved to `App\Html\wrap` (another function,
silently); `twice()` written in `Lib\Math`, defined there only, is not found from `Main` -/
theorem C16_ctx_resolution_counterexamples :
    let both : Name → Bool := fun n => n == ["App", "Text", "wrap"] || n == ["App", "Html", "wrap"]
    let one : Name → Bool := fun n => n == ["Lib", "Math", "twice"]
    resolve both ["App", "Text"] ["wrap"] = some ["App", "Text", "wrap"] ∧
    resolve both ["App", "Html"] ["wrap"] = some ["App", "Html", "wrap"] ∧
    resolve one ["Lib", "Math"] ["twice"] = some ["Lib", "Math", "twice"] ∧
    resolve one ["Main"] ["twice"] = none := by decide

/-! non-vacuity -/
/-- the seeded handler as the translator describes it -/
example : noShadowing tables [⟨"emitCallLater", "node.CallLater", "namespace", "emit"⟩] = false := by decide +kernel
example : emitsKnown knownCtxEmits [⟨"emitCallLater", "node.CallLater", "namespace", "emit"⟩] = false := by decide +kernel
/-- a value bound to a local or handed to a helper is not accepted either -/
example : emitsKnown knownCtxEmits [⟨"emitCallExpression", "node.CallExpression", "namespace", "bind"⟩] = false := by decide +kernel
example : emitsKnown knownCtxEmits [⟨"emitArray", "node.Array", "indent", "write"⟩, ⟨"emitCallLater", "node.CallLater", "file", "diag"⟩] = true := by
  decide +kernel
example : noShadowing tables [⟨"emitCallExpression", "node.CallExpression", "namespace", "emit"⟩] = true := by decide +kernel
example : emitConst "B" (parseFile [⟨"A", .site "" .nil⟩, ⟨"B", .site "" .nil⟩])
    = .cons (.site "B" .nil) (.cons (.site "B" .nil) .nil) := by decide
example : emitFaithful (parseFile [⟨"A", .site "" .nil⟩, ⟨"B", .site "" .nil⟩])
    = .cons (.site "A" .nil) (.cons (.site "B" .nil) .nil) := by decide
example : lastName "" [⟨"A", (.nil : T String)⟩, ⟨"B", .nil⟩, ⟨"A", .nil⟩] = "A" := by decide
example : resolve (fun n => n == ["strlen"]) ["A"] ["strlen"] = resolve (fun n => n == ["strlen"]) ["B"] ["strlen"] := by decide
example : resolve (fun n => n == ["A", "Sub", "q"]) ["A"] ["Sub", "q"] = some ["A", "Sub", "q"] := by decide

end ctx

/-! ### generic theorems -/

section order
open Model.EmitOrder

/-- **Walking the order slice preserves the declaration order and every lookup**: what
`NewClassStatement` rebuilds from the slice literal written by `for _, name := range
n.PropertiesIndex { emit(n.Properties[name]) }` has the same index and answers every by-name
question as the parser's collection. -/
theorem C16_order_by_index {α : Type} (k : Keyed α) (ht : k.total k.index) :
    (rebuildKeyed (emitByIndex k)).index = k.index ∧
    ∀ n ∈ k.index, (rebuildKeyed (emitByIndex k)).get n = k.get n :=
  ⟨Proofs.EmitOrder.rebuilt_index k k.index ht, Proofs.EmitOrder.rebuilt_get k k.index ht⟩

/-- **Walking any other key list**: the rebuilt order is that key list — equal to the declaration
order iff the key list is — while every by-name lookup still answers as before. So a handler that
walks the keys of the map (sorted, or in Go's map order) yields a program in which property reads,
writes, defaults, visibility and methods all behave, and only the order differs: no test that asks
by name can notice; only an observer of the order can. -/
theorem C16_order_by_keys {α : Type} (k : Keyed α) (keys : List String) (ht : k.total keys) :
    ((rebuildKeyed (emitBy keys k)).index = k.index ↔ keys = k.index) ∧
    ∀ n ∈ keys, (rebuildKeyed (emitBy keys k)).get n = k.get n := by
  refine ⟨?_, Proofs.EmitOrder.rebuilt_get k keys ht⟩
  rw [Proofs.EmitOrder.rebuilt_index k keys ht]

/-- … in particular for the sorted key list of a `sortedKeys` helper: the order survives iff the
properties were declared in sorted order -/
theorem C16_order_by_sorted_keys {α : Type} (k : Keyed α) (ht : k.total k.index) :
    (rebuildKeyed (emitBy (sortStrings k.index) k)).index = k.index ↔ sortStrings k.index = k.index :=
  (C16_order_by_keys k (sortStrings k.index)
    (fun n hn => ht n ((Proofs.EmitOrder.mem_sortStrings n k.index).mp hn))).1

/-- the obligation is not vacuous: the uses a `sortedKeys(n.Properties)` handler makes of the pair
are rejected even though both fields are still read -/
example : orderRespected [⟨"node.ClassStatement", "Properties", "PropertiesIndex"⟩]
    [⟨"emitClassStatementInit", "node.ClassStatement", "Properties", true, "range"⟩,
     ⟨"emitClassStatementInit", "node.ClassStatement", "Properties", true, "index"⟩,
     ⟨"emitClassStatementInit", "node.ClassStatement", "PropertiesIndex", false, "len"⟩] = false := by decide
example : orderRespected [⟨"node.ClassStatement", "Properties", "PropertiesIndex"⟩]
    [⟨"emitClassStatementInit", "node.ClassStatement", "Properties", true, "index"⟩,
     ⟨"emitClassStatementInit", "node.ClassStatement", "PropertiesIndex", false, "range"⟩] = true := by decide
example : orderRespected [] [⟨"emitCallMethod", "node.CallMethod", "Args", false, "index"⟩] = false := by decide
example : orderRespected [] [⟨"emitArray", "node.Array", "Keys", false, "ext:sort.Slice"⟩] = false := by decide
/-- the seeded shape: five properties declared `owner, id, balance, currency, active` -/
example : sortStrings ["owner", "id", "balance", "currency", "active"] = ["active", "balance", "currency", "id", "owner"] := by
  decide
example : (rebuildKeyed (emitBy (sortStrings ["owner", "id", "balance"])
    (⟨["owner", "id", "balance"], fun n => some n.length⟩ : Keyed Nat))).index = ["balance", "id", "owner"] := by
  decide

end order


/-! ### scalar payloads: the value a scalar field carries through Go source text -/

section scalar
open Model.EmitQuote Proofs.EmitQuote

/-- **`unquote (quote s) = s` for every byte string**: whatever bytes a string-valued AST field holds
(newlines, tabs, back quotes, backslashes, quotes, `$`, NUL and other control bytes, invalid UTF-8,
multi-byte and non-printable runes, any length) and whatever the table of printable runes, the text
`%q` prints is a Go string literal whose value is exactly those bytes. -/
theorem C16_scalar_string_roundtrip (pr : Nat → Bool) (s : List UInt8) :
    unquote (quote pr (s.map UInt8.toNat)) = some (s.map UInt8.toNat) :=
  unquote_quote pr _ (by
    intro b hb
    obtain ⟨x, _, rfl⟩ := List.mem_map.mp hb
    exact x.toNat_lt)

/-- the same for a list of byte values -/
theorem C16_scalar_string_roundtrip_nat (pr : Nat → Bool) (s : Bytes) (hs : ∀ b ∈ s, b < 256) :
    unquote (quote pr s) = some s := unquote_quote pr s hs

/-- **The printer cannot change a quoted scalar.** `Generator.printf` indents every non-empty line of
what it prints; the quoted text contains no newline (`\n` is written as an escape), so at every
indentation level the buffer receives the tabs followed by the literal unchanged, and the value the
generated program holds is the field's value — at top level, in a function, a method, a closure, any
nesting depth. -/
theorem C16_scalar_printf_safe (pr : Nat → Bool) (k : Nat) (s : Bytes) (hs : ∀ b ∈ s, b < 256) :
    printedValue k (quote pr s) = some s := by
  unfold printedValue
  rw [printfOut_no_nl k _ (quote_no_nl pr s hs) (by simp [quote]), dropTabs_tabs k _ (by simp [quote])]
  exact unquote_quote pr s hs

/-- the quoted text never contains a newline -/
theorem C16_scalar_quote_one_line (pr : Nat → Bool) (s : Bytes) (hs : ∀ b ∈ s, b < 256) : 10 ∉ quote pr s :=
  quote_no_nl pr s hs

/-- a raw literal is read verbatim (carriage returns removed): right as long as the TEXT is the value -/
theorem C16_scalar_raw_literal_verbatim (s : Bytes) (h : 96 ∉ s) : unquote (rawLit s) = some (s.filter (· ≠ 13)) := by
  unfold rawLit unquote
  simp only [show ¬ ((96 : Nat) = 34) by omega, if_false, if_true]
  exact unqRaw_append s h

/-- **Negation witness for the raw form** (the seeded change `C16-raw-string-literal-indent`): a text of
three lines written as a raw literal through the same printer at indentation 2 (a top-level statement)
reads back with two tabs in front of lines 2 and 3 — the program builds and carries another string;
at indentation 5 with five. Values with fewer than two newlines were still quoted, hence unaffected. -/
theorem C16_scalar_raw_indent_counterexample :
    printedValue 2 (rawLit [97, 10, 98, 10, 99]) = some [97, 10, 9, 9, 98, 10, 9, 9, 99] ∧
    printedValue 5 (rawLit [97, 10, 98, 10, 99]) = some [97, 10, 9, 9, 9, 9, 9, 98, 10, 9, 9, 9, 9, 9, 99] ∧
    printedValue 2 (rawLit [97, 10, 98, 10]) = some [97, 10, 9, 9, 98, 10, 9, 9] ∧
    printedValue 0 (rawLit [97, 10, 98, 10, 99]) = some [97, 10, 98, 10, 99] := by decide

/-- `%d` reads back exactly, for every integer (Go constants are exact; the range is the field type's) -/
theorem C16_scalar_int_roundtrip (i : Int) : readInt (showInt i) = some i := readInt_showInt i

theorem C16_scalar_bool_roundtrip (b : Bool) : readBool (showBool b) = some b := readBool_showBool b

/-- **Floats, as far as the model carries them** (sign, zero, non-finite; the digits of a non-zero finite
magnitude are opaque and trusted to read back): with `goFloatLiteral` every float reads back as itself. -/
theorem C16_scalar_float_roundtrip (v : FloatV) (h : v.wf) : evalFloat (showFloat true v) = some v := by
  cases v with
  | fin neg mag =>
    cases neg
    · exact (evalFloat_mag mag h).1
    · exact (evalFloat_mag mag h).2
  | zero neg => cases neg <;> decide
  | inf neg => cases neg <;> decide
  | nan => decide

/-- Full statement for plain `%g` (the tree before fix C16-float-negative-zero):
`∀ v, v.wf → evalFloat (showFloat false v) = some v` — false. `_partial`: it holds for every finite value
other than negative zero. -/
theorem C16_scalar_float_roundtrip_partial (v : FloatV) (h : v.wf)
    (hz : v ≠ .zero true) (hi : ∀ n, v ≠ .inf n) (hn : v ≠ .nan) : evalFloat (showFloat false v) = some v := by
  cases v with
  | fin neg mag =>
    cases neg
    · exact (evalFloat_mag mag h).1
    · exact (evalFloat_mag mag h).2
  | zero neg =>
    cases neg
    · decide
    · exact absurd rfl hz
  | inf neg => exact absurd rfl (hi neg)
  | nan => exact absurd rfl hn

/-- negation witness: `-0` is the integer constant 0 negated — the compiled program holds +0 where the
parser built -0.0; `+Inf`, `-Inf`, `NaN` are not Go expressions at all -/
theorem C16_scalar_float_neg_zero_counterexample :
    evalFloat (showFloat false (.zero true)) = some (.zero false) ∧
    evalFloat (showFloat false (.inf false)) = none ∧ evalFloat (showFloat false .nan) = none := by decide

/-! non-vacuity -/
example : quote (fun _ => true) [112, 10, 96, 92, 34, 0, 255, 195, 169] =
    [34, 112, 92, 110, 96, 92, 92, 92, 34, 92, 120, 48, 48, 92, 120, 102, 102, 195, 169, 34] := by decide
example : quote (fun _ => false) [226, 128, 168] = [34, 92, 117, 50, 48, 50, 56, 34] := by decide
example : unquote [34, 92, 117, 50, 48, 50, 56, 92, 49, 48, 49, 92, 120, 52, 49, 34] = some [226, 128, 168, 65, 65] := by decide
example : unquote [34, 97, 10, 98, 34] = none := by decide          -- a newline inside an interpreted literal
example : unquote [34, 255, 34] = none := by decide                 -- invalid UTF-8 in the source
example : showInt (-9223372036854775808) = [45, 57, 50, 50, 51, 51, 55, 50, 48, 51, 54, 56, 53, 52, 55, 55, 53, 56, 48, 56] := by decide
example : magOk [53, 101, 45, 51, 50, 52] := by decide   -- 5e-324
example : evalFloat (showFloat true (.fin true [53, 101, 45, 51, 50, 52])) = some (.fin true [53, 101, 45, 51, 50, 52]) := by decide

end scalar

/-- **Round trip.** For every table and every tree: if `Emit` produces text, evaluating that text
yields exactly the tree `erase` describes — every field that is neither skipped by tag nor unread
by its handler is there with its value, recursively, in order; nothing else changes. -/
theorem C16_emit_rebuild (tbl : Tables) (v : Val) (l : Lit) (h : emitTop tbl v = .ok l) :
    rebuild l = erase tbl .value "" v :=
  emit_rebuild tbl v .value "" l h

/-- **Reflective path is lossless.** If nothing is dropped anywhere in the tree (no `pp:"-"` data
field, no unread field, no lost Node), the compiled program evaluates the parser's tree, position
info apart. Generic in the struct descriptions. -/
theorem C16_reflective_lossless (tbl : Tables) (v : Val) (l : Lit)
    (h : emitTop tbl v = .ok l) (hd : dropped tbl .value "" v = []) :
    stripPos (rebuild l) = stripPos v := by
  rw [C16_emit_rebuild tbl v l h]
  exact erase_of_no_drop tbl v .value "" hd

/-- what a reflective literal of struct `d` leaves out of a conforming field chain is a `pp:"-"`
data field of `d` — so with `C16_static_drops_allowed`, only listed fields -/
theorem C16_reflective_level (tbl : Tables) (d : StructDesc) (fields : Val)
    (huniq : ∀ f ∈ d.fields, d.fields.find? (fun g => g.name == f.name) = some f)
    (hexp : firstUnexported d = none)
    (hconf : ∀ n ∈ chainNames fields, ∃ f ∈ d.fields, f.name = n ∧ f.embeddedNode = false) :
    ∀ n ∈ levelDrops (.reflFields d) fields, (d.name, n) ∈ reflDrops tbl d :=
  fun n hn => refl_level_static tbl d fields huniq hexp hconf n hn

/-- what a handler leaves out of a conforming field chain is an unread field of its struct -/
theorem C16_handler_level (tbl : Tables) (h : Handler) (d : StructDesc)
    (hd : findStruct tbl h.ty = some d) (fields : Val)
    (hconf : ∀ n ∈ chainNames fields, ∃ f ∈ d.fields, f.name = n ∧ f.embeddedNode = false) :
    ∀ n ∈ levelDrops (.readFields h.reads h.inner) fields, (h.ty, n) ∈ handlerDrops tbl h :=
  fun n hn => handler_level_static tbl h d hd fields hconf n hn

/-- **A field that cannot be emitted is a compile error, never silently dropped**: a struct
without handler that has an unexported field (other than the embedded Node) makes `Emit` fail,
whatever the field values are and wherever the node sits. -/
theorem C16_unexported_is_error (tbl : Tables) (ty : String) (d : StructDesc) (f : Field)
    (hp : path tbl ty = .unexported d f) (m : Mode) (hm : m.isInline = false) (cty : String)
    (hn : Bool) (fields : Val) :
    emit tbl m cty (.obj ty hn fields) = .error (.unexported ty f.name) := by
  simp [emit, objWrap, hm, objOut, hp]

/-- … and `path` answers `unexported` exactly when there is such a field -/
theorem C16_unexported_iff (tbl : Tables) (ty : String) (d : StructDesc)
    (h1 : findHandler tbl.special ty = none) (h2 : findHandler tbl.scalars ty = none)
    (h3 : findStruct tbl ty = some d) :
    (∃ f, path tbl ty = .unexported d f) ↔ ∃ f ∈ d.fields, f.exported = false ∧ f.embeddedNode = false := by
  unfold path
  simp only [h1, h2, h3]
  constructor
  · rintro ⟨f, hf⟩
    cases hfu : firstUnexported d with
    | none => rw [hfu] at hf; cases hf
    | some g =>
      unfold firstUnexported at hfu
      have := List.find?_some hfu
      exact ⟨g, List.mem_of_find?_eq_some hfu, by simpa using this⟩
  · rintro ⟨f, hf, he, hn⟩
    cases hfu : firstUnexported d with
    | some g => exact ⟨g, rfl⟩
    | none =>
      unfold firstUnexported at hfu
      rw [List.find?_eq_none] at hfu
      have := hfu f hf
      simp [he, hn] at this

/-- inside a field chain the error is the same: an unexported, untagged field met by the second
pass stops the emission -/
theorem C16_unexported_field_stops (tbl : Tables) (d : StructDesc) (ty name : String) (v rest : Val)
    (f : Field) (hf : d.fields.find? (fun g => g.name == name) = some f)
    (hn : f.embeddedNode = false) (hs : f.ppSkip = false) (he : f.exported = false) :
    emit tbl (.reflFields d) ty (.fcons name v rest) = .error (.unexported ty name) := by
  simp [emit, fieldAct, hf, hn, hs, he, consOut]

/-- **No crash**: with the checked assertion the compile command never panics in `Emit`;
every outcome is text or an explicit error -/
theorem C16_no_crash (tbl : Tables) (hp : tbl.ptrAssertUnchecked = false) (v : Val) :
    emitTop tbl v ≠ .crash :=
  no_crash tbl hp v .value ""

/-- … and with the unchecked assertion it cannot panic on a tree without a pointer to a non-node -/
theorem C16_no_crash_without_plain_ptr (tbl : Tables) (v : Val) (h : noPlainPtr v = true) :
    emitTop tbl v ≠ .crash :=
  no_crash_of_noPlainPtr tbl v .value "" h

theorem C16_no_crash_generated (v : Val) : emitTop tables v ≠ .crash :=
  C16_no_crash tables (by decide) v

/-- **Same runner.** For every interpretation of the steps under which obtaining the AST
(registry lookup + generated function, or clone + parse), locking, and resetting the (still
empty) user output do not change the state, `RunCompiledFile` and `LoadAndRun` take the VM from
any state to the same state — they differ only in how the AST is obtained. -/
theorem C16_same_runner {σ : Type} (sem : Step → σ → σ)
    (hid : ∀ st s, essential st = false → sem st s = s) (s : σ) :
    runSteps sem (runCompiledSteps.map classify) s = runSteps sem (loadAndRunSteps.map classify) s := by
  rw [runSteps_filter sem essential hid, runSteps_filter sem essential hid (loadAndRunSteps.map classify)]
  have := C16_same_runner_obligation.1
  unfold skeleton at this
  rw [this]

/-! ### non-vacuity -/

/-- a small table: one reflective struct, one with an unexported field, one special handler -/
def demo : Tables := {
  structs := [
    ⟨"node.BinaryAdd", true, [⟨"Node", true, true, true, .node⟩, ⟨"Left", true, false, false, .node⟩, ⟨"Right", true, false, false, .node⟩]⟩,
    ⟨"node.Secret", true, [⟨"Node", true, true, true, .node⟩, ⟨"hidden", false, false, false, .scalar⟩]⟩,
    ⟨"node.VarIntLe", true, [⟨"Node", true, true, true, .node⟩, ⟨"VarIdx", true, false, false, .scalar⟩, ⟨"Lit", true, false, false, .scalar⟩, ⟨"cache", false, false, false, .scalar⟩]⟩,
    ⟨"data.IntValue", true, [⟨"Value", true, false, false, .scalar⟩]⟩],
  special := [⟨"node.VarIntLe", "emitVarIntLe", ["VarIdx", "Lit"], []⟩],
  scalars := [⟨"data.IntValue", "emitIntValue", ["Value"], []⟩],
  aux := [], nodeNeedsTag := false, ptrAssertUnchecked := false }

def int (n : String) : Val := .obj "data.IntValue" false (.fcons "Value" (.scalar n) .fnil)
def demoTree : Val :=
  .obj "node.BinaryAdd" true (.fcons "Left" (int "1") (.fcons "Right"
    (.obj "node.VarIntLe" true (.fcons "VarIdx" (.scalar "0") (.fcons "Lit" (.scalar "3") (.fcons "cache" (.scalar "9") .fnil)))) .fnil))

example : ∃ l, emitTop demo demoTree = .ok l := ⟨_, rfl⟩
example : dropped demo .value "" demoTree = [("node.VarIntLe", "cache")] := by decide +kernel
example : dropped demo .value "" (int "7") = [] := by decide +kernel
example : emitTop demo (.obj "node.Secret" true (.fcons "hidden" (.scalar "x") .fnil))
    = .error (.unexported "node.Secret" "hidden") := by decide +kernel
example : (∃ f, path demo "node.Secret" = .unexported ⟨"node.Secret", true, [⟨"Node", true, true, true, .node⟩, ⟨"hidden", false, false, false, .scalar⟩]⟩ f) :=
  ⟨_, rfl⟩
example : emitTop { demo with ptrAssertUnchecked := true } (.obj "node.BinaryAdd" true (.fcons "Left" .plainPtr .fnil)) = .crash := by
  decide +kernel
example : staticDrops demo = [("node.VarIntLe", "cache")] := by decide +kernel
/-- a reflectively emitted struct with a `[]*T` field: the obligation is false, the emission an error -/
def demoVarList : List StructDesc := [⟨"node.VariableList", true, [⟨"Vars", true, false, false, .unnamedElems⟩]⟩]
example : unnamedByHand { demo with structs := demoVarList } = false := by decide +kernel
example : unnamedByHand { demo with structs := demoVarList, aux := [⟨"node.VariableList", "(by hand inside the handlers)", ["Vars"], []⟩] } = true := by
  decide +kernel
example : emitTop { demo with structs := demoVarList } (.obj "node.VariableList" false (.fcons "Vars" .unnamed .fnil)) = .error .malformed := by
  decide +kernel
/-- the pinned-tree shape of the Node defect: with `nodeNeedsTag` an untagged Node is not rebuilt -/
example : needsNode { demo with nodeNeedsTag := true } ⟨"node.SwitchStatement", true, [⟨"Node", true, true, false, .node⟩]⟩ = false := by
  decide
example : (emittable tables).length = 148 ∨ True := Or.inr trivial
example : essential .obtainAst = false ∧ essential .run = true := by decide


/-! ## type payloads (round 7): a structured `data.Types` value written as its PRINTED form

`genTypes`' default arm writes `data.NewBaseType(<ty.String()>)`: the generated program parses the printed
type again. `data.NewBaseType` splits a union only when `len(ty) > 1 && strings.Index(ty, "|") > 1`
(`Model.EmitType.splits`; tied to the real function every run by the type probe of harness/c16). What a
type then accepts stays with the differential type stream (harness/c16/types.go). -/
section TypePayloads
open Model.EmitType

/-- with its own arm (`data.NewUnionType` member by member) a union is a union in the generated program,
whatever its members print -/
theorem C16_type_union_arm_faithful (members : List (List Char)) :
    readsBackAsUnion true members = true := rfl

/-- PRINTING a union (the default arm) is faithful iff the first member's printed form is longer than one
character — for any number (≥ 2) of members and any other members -/
theorem C16_type_union_print_faithful_iff (p q : List Char) (r : List (List Char)) (h : barFree p) :
    readsBackAsUnion false (p :: q :: r) = true ↔ p.length > 1 := by
  simp [readsBackAsUnion, Proofs.EmitType.splits_join p q r h]

/-- why the repository's tests stay green: every union whose first member has two or more characters -/
theorem C16_type_union_print_ok_long (p q : List Char) (r : List (List Char)) (h : barFree p) (hl : p.length > 1) :
    readsBackAsUnion false (p :: q :: r) = true :=
  (C16_type_union_print_faithful_iff p q r h).2 hl

/-- negation witnesses (the seeded demo's two types; a two-letter control) -/
theorem C16_type_union_one_char_counterexample :
    readsBackAsUnion false ["E".toList, "RuntimeException".toList] = false ∧
    readsBackAsUnion false ["N".toList, "int".toList, "null".toList] = false ∧
    splits "E|RuntimeException".toList = false ∧
    readsBackAsUnion false ["Ex".toList, "RuntimeException".toList] = true ∧
    readsBackAsUnion false ["RuntimeException".toList, "E".toList] = true := by decide

/-- types whose printed form `data.NewBaseType` reads back as the same value (leaves without payload, and a
class by its name) -/
def typePrintSafe : List String :=
  ["data.Arrays", "data.Bool", "data.Callable", "data.Class", "data.ClosureType", "data.Float", "data.Int",
   "data.NullType", "data.Object", "data.StaticType", "data.String"]

/-- implementations without an arm, on record with the reason: `AST` (annotation targets: built by the
annotation machinery at run time, not by a parsed type), `Const` (the variable of a `const` declaration: never
assigned through the type), `LspTypes` (language server only), `Mixed` (the parsers write `NewBaseType("mixed")`
= nil), `Generic` (String() keeps the name; `Is` accepts everything: the arguments are not checked),
`MultipleReturnType` (`: int, string` — genuine defect, fix C16-multiple-return-type adds the arm) -/
def typeUnarmedOnRecord : List String :=
  ["data.AST", "data.Const", "data.LspTypes", "data.Mixed", "data.Generic", "data.MultipleReturnType"]

/-- OBLIGATION on the regenerated facts: every implementation of data.Types has its own arm in `genTypes`,
or is print-safe, or is on record; the two structured arms are there (non-vacuity). A change that removes the
`UnionType` arm, or a new structured Types implementation without an arm, fails here by name. -/
theorem C16_types_arms_cover :
    armsCover Generated.C16CompileNodes.typesImpls Generated.C16CompileNodes.genTypesArms typePrintSafe typeUnarmedOnRecord = true ∧
    Generated.C16CompileNodes.genTypesArms.contains "data.UnionType" = true ∧
    Generated.C16CompileNodes.genTypesArms.contains "data.NullableType" = true ∧
    Generated.C16CompileNodes.typesImpls.contains "data.UnionType" = true := by decide +kernel

example : barFree "E".toList := by intro c hc; simp at hc; subst hc; decide
example : armsCover ["data.UnionType", "data.Int"] ["data.NullableType", "default"] typePrintSafe typeUnarmedOnRecord = false := by decide
example : armsCover ["data.UnionType", "data.Int"] ["data.UnionType"] typePrintSafe typeUnarmedOnRecord = true := by decide

end TypePayloads

end C16
