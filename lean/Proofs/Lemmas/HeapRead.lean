import Proofs.Lemmas.HeapInv
/-!
C06 helper lemmas: reading commutes with forgetting identities; what a copy
(`CloneArrayValue`, recursive) looks like; evaluation of literals and right-hand sides.
-/
namespace Proofs.Heap
open Model.Heap
open Spec.Val (abs eraseVal eraseL Tree)

theorem abs_next (s : St) (n : Nat) : abs { s with next := n } = abs s := rfl

theorem abs_varVal? (s : St) (x : Nat) : (abs s).varVal? x = (s.varVal? x).map eraseVal := by
  simp only [Spec.Val.St.varVal?, St.varVal?, abs]
  cases s.names[x]? <;> simp

theorem abs_varObj? (s : St) (x : Nat) : (abs s).varObj? x = s.varObj? x := by
  simp only [Spec.Val.St.varObj?, St.varObj?, abs_varVal?]
  cases h : s.varVal? x with
  | none => rfl
  | some v =>
    cases v with
    | sc sc => cases sc <;> simp [eraseVal]
    | arr a k => simp [eraseVal]

theorem abs_propVal? (s : St) (h p : Nat) : (abs s).propVal? h p = (s.propVal? h p).map eraseVal := by
  simp only [Spec.Val.St.propVal?, St.propVal?, abs, List.getElem?_map]
  cases s.objs[h]? <;> simp

theorem abs_setVar (s : St) (x : Nat) (v : Val) : abs (s.setVar x v) = (abs s).setVar x (eraseVal v) := by
  simp only [Spec.Val.St.setVar, St.setVar, abs]
  cases s.names[x]? <;> simp [List.map_set]

theorem abs_setProp (s : St) (h p : Nat) (v : Val) :
    abs (s.setProp h p v) = (abs s).setProp h p (eraseVal v) := by
  simp only [Spec.Val.St.setProp, St.setProp, abs, List.getElem?_map]
  cases s.objs[h]? <;> simp [List.map_set]

theorem abs_read (s : St) : (pl : Place) → Spec.Val.read (abs s) pl = (readPlace s pl).map eraseVal
  | .var x => by simp [Spec.Val.read, readPlace, abs_varVal?]
  | .prop x p => by
      simp only [Spec.Val.read, readPlace, abs_varObj?]
      cases s.varObj? x <;> simp [abs_propVal?]
  | .idx b k => by
      simp only [Spec.Val.read, readPlace, abs_read s b]
      cases h : readPlace s b with
      | none => rfl
      | some v =>
        cases v with
        | sc sc => simp [eraseVal]
        | arr a kids =>
          simp only [Option.map_some, eraseVal, tkeys_eraseL]
          cases Keys.find k (keys kids) with
          | none => simp [eraseVal]
          | some j => simp [getVal?_eraseL]

theorem readPlace_next (s : St) (n : Nat) (pl : Place) : readPlace { s with next := n } pl = readPlace s pl := by
  induction pl with
  | var x => rfl
  | prop x p => rfl
  | idx b k ih => simp only [readPlace, ih]

/-- position of the holder a root place denotes -/
def rootPos (s : St) : Place → Option Pos
  | .var x => (s.names[x]?).map .v
  | .prop x p => (s.varObj? x).map (fun h => .p h p)
  | .idx _ _ => none

theorem readPlace_root (s : St) (pl : Place) (hr : pl.isRoot = true) (v : Val) (h : readPlace s pl = some v) :
    ∃ P, rootPos s pl = some P ∧ holder? s P = some v := by
  cases pl with
  | var x =>
    simp only [readPlace, St.varVal?] at h
    cases hc : s.names[x]? with
    | none => simp [hc] at h
    | some c => exact ⟨.v c, by simp [rootPos, hc], by simpa [hc, holder?] using h⟩
  | prop x p =>
    simp only [readPlace] at h
    cases hh : s.varObj? x with
    | none => simp [hh] at h
    | some hd => exact ⟨.p hd p, by simp [rootPos, hh], by simpa [hh, holder?] using h⟩
  | idx b k => simp [Place.isRoot] at hr

/-! ### `CloneArrayValue` (recursive): same value, every identity fresh and used once -/

/-- `f` counts identities from `[n, n')`, each at most once -/
def FreshIn (f : Nat → Nat) (n n' : Nat) : Prop := ∀ i, f i ≤ 1 ∧ (0 < f i → n ≤ i ∧ i < n')

theorem deepCopy_arr (a : Nat) (kids : List Slot) (n : Nat) :
    Val.deepCopy (.arr a kids) n = (.arr n (deepCopyL kids (n + 1)).1, (deepCopyL kids (n + 1)).2) := by
  simp only [Val.deepCopy]

theorem deepCopyL_cons (c : Nat) (k : Key) (v : Val) (r : List Slot) (n : Nat) :
    deepCopyL ((c, k, v) :: r) n =
      ((match v with | .sc _ => c | .arr _ _ => n, k, (v.deepCopy (n + 1)).1) ::
          (deepCopyL r (v.deepCopy (n + 1)).2).1, (deepCopyL r (v.deepCopy (n + 1)).2).2) := by
  simp only [deepCopyL]; rfl

mutual
theorem deepCopy_spec : (v : Val) → (n : Nat) →
    eraseVal (v.deepCopy n).1 = eraseVal v ∧ n ≤ (v.deepCopy n).2 ∧
      FreshIn (fun i => vcnt i (v.deepCopy n).1) n (v.deepCopy n).2
  | .sc s, n => by simp [Val.deepCopy, FreshIn, vcnt]
  | .arr a kids, n => by
      obtain ⟨h1, h2, h3⟩ := deepCopyL_spec kids (n + 1)
      rw [deepCopy_arr]
      refine ⟨by simp [eraseVal, h1], by simp only; omega, ?_⟩
      intro i
      obtain ⟨f1, f2⟩ := h3 i
      simp only [vcnt] at f1 f2 ⊢
      by_cases e : n = i
      · subst e
        simp only [if_true]
        rcases Nat.eq_zero_or_pos (cntL n (deepCopyL kids (n + 1)).1) with h0 | hp
        · omega
        · have := f2 hp; omega
      · simp only [e, if_false]
        constructor
        · omega
        · intro hp; have := f2 (by omega); omega
theorem deepCopyL_spec : (l : List Slot) → (n : Nat) →
    eraseL (deepCopyL l n).1 = eraseL l ∧ n ≤ (deepCopyL l n).2 ∧
      FreshIn (fun i => cntL i (deepCopyL l n).1) n (deepCopyL l n).2
  | [], n => by simp [deepCopyL, FreshIn, cntL]
  | (c, k, v) :: r, n => by
      obtain ⟨a1, a2, a3⟩ := deepCopy_spec v (n + 1)
      obtain ⟨b1, b2, b3⟩ := deepCopyL_spec r (v.deepCopy (n + 1)).2
      rw [deepCopyL_cons]
      refine ⟨by simp [eraseL, a1, b1], by simp only; omega, ?_⟩
      intro i
      obtain ⟨f1, f2⟩ := a3 i
      obtain ⟨g1, g2⟩ := b3 i
      simp only [cntL] at f1 f2 g1 g2 ⊢
      rcases Nat.eq_zero_or_pos (vcnt i (v.deepCopy (n + 1)).1) with h0 | hp
      · rcases Nat.eq_zero_or_pos (cntL i (deepCopyL r (v.deepCopy (n + 1)).2).1) with k0 | kp
        · omega
        · have := g2 kp; omega
      · have := f2 hp
        rcases Nat.eq_zero_or_pos (cntL i (deepCopyL r (v.deepCopy (n + 1)).2).1) with k0 | kp
        · omega
        · have := g2 kp; omega
end

theorem cloneOnStore_fixed (v : Val) (n : Nat) : cloneOnStore .fixed v n = v.deepCopy n := by
  simp [cloneOnStore, Cfg.fixed]

/-- the copy made at a store: same value, fresh identities -/
theorem cloneOnStore_spec (v : Val) (n : Nat) :
    eraseVal (cloneOnStore .fixed v n).1 = eraseVal v ∧ n ≤ (cloneOnStore .fixed v n).2 ∧
      FreshIn (fun i => vcnt i (cloneOnStore .fixed v n).1) n (cloneOnStore .fixed v n).2 := by
  rw [cloneOnStore_fixed]; exact deepCopy_spec v n

/-- a fresh copy does not occur in a state whose allocator is not beyond its identities -/
theorem fresh_for {s : St} (hinv : Inv s) (f : Nat → Nat) (n n' m : Nat) (hf : FreshIn f n n')
    (hn : s.next ≤ n) (hm : n' ≤ m) : ∀ i, f i ≤ 1 ∧ (0 < f i → scnt s i = 0 ∧ i < m) := by
  intro i
  obtain ⟨f1, f2⟩ := hf i
  refine ⟨f1, fun hp => ?_⟩
  have := f2 hp
  exact ⟨hinv.fresh i (by omega), by omega⟩

/-! ### literals and right-hand sides -/

mutual
theorem alloc_spec (s : St) : (l : Lit) → (nx : Nat) →
    (match Lit.alloc .fixed s l nx with
     | some (v, n) => Spec.Val.litTree (abs s) l = some (eraseVal v) ∧ nx ≤ n
     | none => Spec.Val.litTree (abs s) l = none)
  | .int n, nx => by simp [Lit.alloc, Spec.Val.litTree, eraseVal]
  | .null, nx => by simp [Lit.alloc, Spec.Val.litTree, eraseVal]
  | .str cs, nx => by simp [Lit.alloc, Spec.Val.litTree, eraseVal]
  | .rd p, nx => by
      simp only [Lit.alloc, Spec.Val.litTree, abs_read]
      cases h : readPlace s p with
      | none => simp
      | some v => simp
  | .arr items, nx => by
      have ih := allocL_spec s items (nx + 1)
      simp only [Lit.alloc, Spec.Val.litTree]
      cases h : allocL .fixed s items (nx + 1) with
      | none => simp [h] at ih; simp [ih]
      | some r =>
        obtain ⟨kids, n⟩ := r
        simp only [h] at ih
        obtain ⟨h1, h2⟩ := ih
        simp only [h1, Option.map_some, eraseVal]
        exact ⟨trivial, by omega⟩
theorem allocL_spec (s : St) : (items : List (Key × Lit)) → (nx : Nat) →
    (match allocL .fixed s items nx with
     | some (kids, n) => Spec.Val.treeL (abs s) items = some (eraseL kids) ∧ nx ≤ n
     | none => Spec.Val.treeL (abs s) items = none)
  | [], nx => by simp [allocL, Spec.Val.treeL, eraseL]
  | (k, l) :: r, nx => by
      have ih1 := alloc_spec s l (nx + 1)
      simp only [allocL, Spec.Val.treeL]
      cases h : Lit.alloc .fixed s l (nx + 1) with
      | none => simp only [h] at ih1; simp [ih1]
      | some vn =>
        obtain ⟨v, n1⟩ := vn
        simp only [h] at ih1
        obtain ⟨e1, b1⟩ := ih1
        obtain ⟨ce, cn, _⟩ := cloneOnStore_spec v n1
        simp only [show Cfg.fixed.cloneOnElemStore = true from rfl, if_true]
        have ih2 := allocL_spec s r (cloneOnStore .fixed v n1).2
        cases h2 : allocL .fixed s r (cloneOnStore .fixed v n1).2 with
        | none =>
          simp only [h2] at ih2
          simp [e1, ih2]
        | some rn =>
          obtain ⟨rest, n2⟩ := rn
          simp only [h2] at ih2
          obtain ⟨e2, b2⟩ := ih2
          exact ⟨by simp [e1, e2, eraseL, ce], by omega⟩
end

/-- evaluating a right-hand side only advances the allocator, and the value denotes what
the spec computes -/
theorem evalRV_cases (s : St) (r : RV) :
    (evalRV .fixed s r = none ∧ Spec.Val.evalRV (abs s) r = none) ∨
    ∃ v n1, evalRV .fixed s r = some (v, { s with next := n1 }) ∧
      Spec.Val.evalRV (abs s) r = some (eraseVal v) ∧ s.next ≤ n1 := by
  cases r with
  | int n => exact Or.inr ⟨_, s.next, rfl, rfl, Nat.le_refl _⟩
  | null => exact Or.inr ⟨_, s.next, rfl, rfl, Nat.le_refl _⟩
  | str cs => exact Or.inr ⟨_, s.next, rfl, rfl, Nat.le_refl _⟩
  | upd p u =>
    -- the scalar at `p` is read (same scalar on both sides: `eraseVal` keeps scalars), the new
    -- scalar is computed by the same pure function; the state is untouched
    cases h : readPlace s p with
    | none => exact Or.inl ⟨by simp [evalRV, h], by simp [Spec.Val.evalRV, abs_read, h]⟩
    | some v =>
      cases v with
      | arr a kids => exact Or.inl ⟨by simp [evalRV, h], by simp [Spec.Val.evalRV, abs_read, h, eraseVal]⟩
      | sc sv =>
        cases hu : u.apply sv with
        | none => exact Or.inl ⟨by simp [evalRV, h, hu], by simp [Spec.Val.evalRV, abs_read, h, eraseVal, hu]⟩
        | some r =>
          exact Or.inr ⟨.sc r, s.next, by simp [evalRV, h, hu],
            by simp [Spec.Val.evalRV, abs_read, h, eraseVal, hu], Nat.le_refl _⟩
  | rd p =>
    cases h : readPlace s p with
    | none => exact Or.inl ⟨by simp [evalRV, h], by simp [Spec.Val.evalRV, abs_read, h]⟩
    | some v =>
      exact Or.inr ⟨v, s.next, by simp [evalRV, h], by simp [Spec.Val.evalRV, abs_read, h], Nat.le_refl _⟩
  | call p =>
    cases h : readPlace s p with
    | none => exact Or.inl ⟨by simp [evalRV, h], by simp [Spec.Val.evalRV, abs_read, h]⟩
    | some v =>
      exact Or.inr ⟨v, s.next, by simp [evalRV, h], by simp [Spec.Val.evalRV, abs_read, h], Nat.le_refl _⟩
  | lit l =>
    have := alloc_spec s l s.next
    cases h : Lit.alloc .fixed s l s.next with
    | none => simp only [h] at this; exact Or.inl ⟨by simp [evalRV, h], by simp [Spec.Val.evalRV, this]⟩
    | some vn =>
      obtain ⟨v, n⟩ := vn
      simp only [h] at this
      obtain ⟨e, b⟩ := this
      exact Or.inr ⟨v, n, by simp [evalRV, h], by simp [Spec.Val.evalRV, e], b⟩

/-! ### objects -/

theorem cntVs_cons (a : Nat) (v : Val) (r : List Val) : cntVs a (v :: r) = vcnt a v + cntVs a r := rfl

/-- `cloneProps`: same values up to identity, all identities fresh and used once -/
theorem cloneProps_spec : (ps : List Val) → (n : Nat) →
    ((cloneProps .fixed ps n).1.map eraseVal = ps.map eraseVal) ∧ n ≤ (cloneProps .fixed ps n).2 ∧
    FreshIn (fun i => cntVs i (cloneProps .fixed ps n).1) n (cloneProps .fixed ps n).2
  | [], n => by simp [cloneProps, FreshIn, cntVs, wsum]
  | v :: r, n => by
      obtain ⟨ce, cn, cf⟩ := cloneOnStore_spec v n
      obtain ⟨e, le, fr⟩ := cloneProps_spec r (cloneOnStore .fixed v n).2
      simp only [cloneProps]
      refine ⟨by simp [ce, e], by omega, ?_⟩
      intro i
      obtain ⟨f1, f2⟩ := cf i
      obtain ⟨g1, g2⟩ := fr i
      simp only [cntVs_cons] at g1 g2 ⊢
      simp only at f1 f2
      rcases Nat.eq_zero_or_pos (vcnt i (cloneOnStore .fixed v n).1) with h0 | hp
      · rcases Nat.eq_zero_or_pos (cntVs i (cloneProps .fixed r (cloneOnStore .fixed v n).2).1) with k0 | kp
        · omega
        · have := g2 kp; omega
      · have := f2 hp
        rcases Nat.eq_zero_or_pos (cntVs i (cloneProps .fixed r (cloneOnStore .fixed v n).2).1) with k0 | kp
        · omega
        · have := g2 kp; omega

end Proofs.Heap
