import Proofs.Lemmas.HeapInv
/-!
C06 helper lemmas, part 3: reading commutes with forgetting identities; what
identities a value read from a place carries; evaluation of right-hand sides.
-/
namespace Proofs.Heap
open Model.Heap
open Spec.Val (abs eraseVal eraseL Tree)

theorem abs_next (s : St) (n : Nat) : abs { s with next := n } = abs s := rfl

theorem abs_varVal? (s : St) (x : Nat) : (abs s).varVal? x = (s.varVal? x).map eraseVal := by
  simp only [Spec.Val.St.varVal?, St.varVal?, abs]
  cases s.names[x]? <;> simp

theorem abs_varObj? (s : St) (x : Nat) : (abs s).varObj? x = s.varObj? x := by
  simp only [Spec.Val.St.varObj?, St.varObj?, abs_varVal?]
  cases h : s.varVal? x with
  | none => rfl
  | some v =>
    cases v with
    | sc sc => cases sc <;> simp [eraseVal]
    | arr a k => simp [eraseVal]

theorem abs_propVal? (s : St) (h p : Nat) : (abs s).propVal? h p = (s.propVal? h p).map eraseVal := by
  simp only [Spec.Val.St.propVal?, St.propVal?, abs, List.getElem?_map]
  cases s.objs[h]? <;> simp

theorem abs_setVar (s : St) (x : Nat) (v : Val) : abs (s.setVar x v) = (abs s).setVar x (eraseVal v) := by
  simp only [Spec.Val.St.setVar, St.setVar, abs]
  cases s.names[x]? <;> simp [List.map_set]

theorem abs_setProp (s : St) (h p : Nat) (v : Val) :
    abs (s.setProp h p v) = (abs s).setProp h p (eraseVal v) := by
  simp only [Spec.Val.St.setProp, St.setProp, abs, List.getElem?_map]
  cases s.objs[h]? <;> simp [List.map_set]

theorem getVal?_erase (kids : List Slot) (j : Nat) :
    ((eraseL kids)[j]?).map (·.2) = (getVal? kids j).map eraseVal := by
  simp [eraseL_getElem?, getVal?, Option.map_map, Function.comp_def]

theorem abs_read (s : St) : (pl : Place) → Spec.Val.read (abs s) pl = (readPlace s pl).map eraseVal
  | .var x => by simp [Spec.Val.read, readPlace, abs_varVal?]
  | .prop x p => by
      simp only [Spec.Val.read, readPlace, abs_varObj?]
      cases s.varObj? x <;> simp [abs_propVal?]
  | .idx b k => by
      simp only [Spec.Val.read, readPlace, abs_read s b]
      cases h : readPlace s b with
      | none => rfl
      | some v =>
        cases v with
        | sc sc => simp [eraseVal]
        | arr a kids =>
          simp only [Option.map_some, eraseVal, tkeys_eraseL]
          cases Keys.find k (keys kids) with
          | none => simp [eraseVal]
          | some j => simp [getVal?_erase]

theorem readPlace_next (s : St) (n : Nat) (pl : Place) : readPlace { s with next := n } pl = readPlace s pl := by
  induction pl with
  | var x => rfl
  | prop x p => rfl
  | idx b k ih => simp only [readPlace, ih]

/-- position of the holder a root place denotes -/
def rootPos (s : St) : Place → Option Pos
  | .var x => (s.names[x]?).map .v
  | .prop x p => (s.varObj? x).map (fun h => .p h p)
  | .idx _ _ => none

theorem readPlace_root (s : St) (pl : Place) (hr : pl.isRoot = true) (v : Val) (h : readPlace s pl = some v) :
    ∃ P, rootPos s pl = some P ∧ holder? s P = some v := by
  cases pl with
  | var x =>
    simp only [readPlace, St.varVal?] at h
    cases hc : s.names[x]? with
    | none => simp [hc] at h
    | some c => exact ⟨.v c, by simp [rootPos, hc], by simpa [hc, holder?] using h⟩
  | prop x p =>
    simp only [readPlace] at h
    cases hh : s.varObj? x with
    | none => simp [hh] at h
    | some hd => exact ⟨.p hd p, by simp [rootPos, hh], by simpa [hh, holder?] using h⟩
  | idx b k => simp [Place.isRoot] at hr

theorem getVal?_aids (kids : List Slot) (j : Nat) (v : Val) (h : getVal? kids j = some v) :
    ∀ i ∈ v.aids, i ∈ aidsL kids := by
  intro i hi
  simp only [getVal?] at h
  cases hs : kids[j]? with
  | none => simp [hs] at h
  | some sl =>
    simp [hs] at h
    exact (mem_aidsL i kids).mpr ⟨sl, List.mem_of_getElem? hs, by rw [h]; exact hi⟩

/-- a value read from a place is a holder's value, or lies strictly inside one -/
theorem read_aids (s : St) : (pl : Place) → (v : Val) → readPlace s pl = some v →
    (∃ P, holder? s P = some v) ∨ (∀ i ∈ v.aids, InnerOf s i)
  | .var x, v, h => by
      obtain ⟨P, _, hP⟩ := readPlace_root s (.var x) rfl v h
      exact Or.inl ⟨P, hP⟩
  | .prop x p, v, h => by
      obtain ⟨P, _, hP⟩ := readPlace_root s (.prop x p) rfl v h
      exact Or.inl ⟨P, hP⟩
  | .idx b k, v, h => by
      simp only [readPlace] at h
      cases hb : readPlace s b with
      | none => simp [hb] at h
      | some u =>
        cases u with
        | sc sc => simp [hb] at h
        | arr a kids =>
          simp only [hb] at h
          right
          intro i hi
          have hin : i ∈ aidsL kids := by
            cases hf : Keys.find k (keys kids) with
            | none => simp [hf] at h; subst h; simp [Val.aids] at hi
            | some j => simp only [hf] at h; exact getVal?_aids kids j v h i hi
          rcases read_aids s b (.arr a kids) hb with ⟨P, hP⟩ | hall
          · exact ⟨P, _, hP, by simpa [innerAids] using hin⟩
          · exact hall i (by simp [Val.aids, hin])

theorem read_inner (s : St) (pl : Place) (v : Val) (h : readPlace s pl = some v) :
    ∀ i ∈ innerAids v, InnerOf s i := by
  intro i hi
  rcases read_aids s pl v h with ⟨P, hP⟩ | hall
  · exact ⟨P, v, hP, hi⟩
  · exact hall i (innerAids_sub v i hi)

/-! ### `CloneArrayValue` -/

theorem cloneOnStore_spec (v : Val) (n : Nat) :
    eraseVal (cloneOnStore v n).1 = eraseVal v ∧ n ≤ (cloneOnStore v n).2 ∧
    innerAids (cloneOnStore v n).1 = innerAids v ∧
    (∀ a k, (cloneOnStore v n).1 = .arr a k → a = n ∧ (cloneOnStore v n).2 = n + 1 ∧ innerAids v = aidsL k) := by
  cases v with
  | sc sc => simp [cloneOnStore]
  | arr a kids => simp [cloneOnStore, eraseVal, innerAids]

/-! ### literals and right-hand sides -/

mutual
theorem alloc_spec (s : St) : (l : Lit) → (nx : Nat) →
    (match Lit.alloc .fixed s l nx with
     | some (v, n) => Spec.Val.litTree (abs s) l = some (eraseVal v) ∧ nx ≤ n ∧
         (∀ i ∈ innerAids v, InnerOf s i ∨ (nx ≤ i ∧ i < n))
     | none => Spec.Val.litTree (abs s) l = none)
  | .int n, nx => by simp [Lit.alloc, Spec.Val.litTree, eraseVal, innerAids]
  | .null, nx => by simp [Lit.alloc, Spec.Val.litTree, eraseVal, innerAids]
  | .rd p, nx => by
      simp only [Lit.alloc, Spec.Val.litTree, abs_read]
      cases h : readPlace s p with
      | none => simp
      | some v =>
        simp only [Option.map_some]
        exact ⟨trivial, Nat.le_refl _, fun i hi => Or.inl (read_inner s p v h i hi)⟩
  | .arr items, nx => by
      have ih := allocL_spec s items (nx + 1)
      simp only [Lit.alloc, Spec.Val.litTree]
      cases h : allocL .fixed s items (nx + 1) with
      | none => simp [h] at ih; simp [ih]
      | some r =>
        obtain ⟨kids, n⟩ := r
        simp only [h] at ih
        obtain ⟨h1, h2, h3⟩ := ih
        simp only [h1, Option.map_some, eraseVal]
        refine ⟨trivial, by omega, ?_⟩
        intro i hi
        simp only [innerAids] at hi
        rcases h3 i hi with h | h
        · exact Or.inl h
        · exact Or.inr ⟨by omega, h.2⟩
theorem allocL_spec (s : St) : (items : List (Key × Lit)) → (nx : Nat) →
    (match allocL .fixed s items nx with
     | some (kids, n) => Spec.Val.treeL (abs s) items = some (eraseL kids) ∧ nx ≤ n ∧
         (∀ i ∈ aidsL kids, InnerOf s i ∨ (nx ≤ i ∧ i < n))
     | none => Spec.Val.treeL (abs s) items = none)
  | [], nx => by simp [allocL, Spec.Val.treeL, eraseL, aidsL]
  | (k, l) :: r, nx => by
      have ih1 := alloc_spec s l (nx + 1)
      simp only [allocL, Spec.Val.treeL]
      cases h : Lit.alloc .fixed s l (nx + 1) with
      | none => simp only [h] at ih1; simp [ih1]
      | some vn =>
        obtain ⟨v, n1⟩ := vn
        simp only [h] at ih1
        obtain ⟨e1, b1, a1⟩ := ih1
        obtain ⟨ce, cn, ci, cr⟩ := cloneOnStore_spec v n1
        simp only [Cfg.fixed, if_true]
        have ih2 := allocL_spec s r (cloneOnStore v n1).2
        cases h2 : allocL .fixed s r (cloneOnStore v n1).2 with
        | none =>
          simp only [Cfg.fixed] at h2
          simp only [h2]
          simp only [Cfg.fixed, h2] at ih2
          simp [e1, ih2]
        | some rn =>
          obtain ⟨rest, n2⟩ := rn
          simp only [Cfg.fixed] at h2
          simp only [h2]
          simp only [Cfg.fixed, h2] at ih2
          obtain ⟨e2, b2, a2⟩ := ih2
          refine ⟨by simp [e1, e2, eraseL, ce], by omega, ?_⟩
          intro i hi
          simp only [aidsL, List.mem_append] at hi
          rcases hi with hi | hi
          · -- identities of the (copied) item
            cases hv : (cloneOnStore v n1).1 with
            | sc sc => rw [hv] at hi; simp [Val.aids] at hi
            | arr a kk =>
              rw [hv] at hi
              obtain ⟨ea, en, ei⟩ := cr a kk hv
              simp only [Val.aids, List.mem_cons] at hi
              rcases hi with hi | hi
              · exact Or.inr ⟨by omega, by omega⟩
              · have : i ∈ innerAids v := by rw [ei]; exact hi
                rcases a1 i this with h' | h'
                · exact Or.inl h'
                · exact Or.inr ⟨by omega, by omega⟩
          · rcases a2 i hi with h' | h'
            · exact Or.inl h'
            · exact Or.inr ⟨by omega, h'.2⟩
end

/-- evaluating a right-hand side only advances the allocator; the value denotes what
the spec computes, and the identities inside it are inner identities of the state or fresh -/
theorem evalRV_spec (s : St) (r : RV) :
    (match evalRV .fixed s r with
     | some (v, s1) => Spec.Val.evalRV (abs s) r = some (eraseVal v) ∧ s1 = { s with next := s1.next } ∧
         s.next ≤ s1.next ∧ (∀ i ∈ innerAids v, InnerOf s i ∨ (s.next ≤ i ∧ i < s1.next))
     | none => Spec.Val.evalRV (abs s) r = none) := by
  cases r with
  | int n => simp [evalRV, Spec.Val.evalRV, eraseVal, innerAids]
  | null => simp [evalRV, Spec.Val.evalRV, eraseVal, innerAids]
  | rd p =>
    simp only [evalRV, Spec.Val.evalRV, abs_read]
    cases h : readPlace s p with
    | none => simp
    | some v =>
      simp only [Option.map_some]
      exact ⟨trivial, trivial, Nat.le_refl _, fun i hi => Or.inl (read_inner s p v h i hi)⟩
  | call p =>
    simp only [evalRV, Spec.Val.evalRV, abs_read]
    cases h : readPlace s p with
    | none => simp
    | some v =>
      simp only [Option.map_some]
      exact ⟨trivial, trivial, Nat.le_refl _, fun i hi => Or.inl (read_inner s p v h i hi)⟩
  | lit l =>
    have := alloc_spec s l s.next
    simp only [evalRV, Spec.Val.evalRV]
    cases h : Lit.alloc .fixed s l s.next with
    | none => simp only [h] at this; simp [this]
    | some vn =>
      obtain ⟨v, n⟩ := vn
      simp only [h] at this
      obtain ⟨e, b, a⟩ := this
      simp only [Option.map_some]
      exact ⟨e, trivial, b, a⟩

end Proofs.Heap
