import Proofs.Lemmas.CtlRel
import Proofs.Lemmas.CtlFast
set_option linter.unusedSimpArgs false
/-! What "the model simulates the reference semantics at fuel `f`" means (`SimAt`), and the
purely syntactic facts about `compile` the simulation proof uses. -/
namespace Proofs.Ctl
open Spec.Ctl Model.Ctl

/-- the compiled function table -/
abbrev mfuns (funs : List FunDecl) : List MFun := funs.map compFun

/-- every declared function is inside the fragment -/
def GoodFuns (funs : List FunDecl) : Prop := ∀ d ∈ funs, goodFun funs d = true

/-- binding as a function of the argument values: arguments into the parameters' slots, then
defaults -/
def bindPure : List MParam → List Val → List Val → Option (List Val)
  | [], _, slots => some slots
  | p :: ps, v :: vs, slots => bindPure ps vs (slots.set p.idx v)
  | p :: ps, [], slots => fillDefaults (p :: ps) slots

structure SimAt (funs : List FunDecl) (f : Nat) : Prop where
  evalE : ∀ sc cur e s m, CtxOK funs sc cur → Rel funs sc cur s m → Covers sc (varsE e) → goodE funs e = true →
    RelV funs sc cur (evalE funs f cur e s) (evalM (mfuns funs) f (compE sc e) m)
  evalArms : ∀ sc cur v arms d s m, CtxOK funs sc cur → Rel funs sc cur s m →
    Covers sc (varsArms arms) → Covers sc (varsE d) → goodArms funs arms = true → goodE funs d = true →
    RelV funs sc cur (evalArms funs f cur v arms d s) (evalArmsM (mfuns funs) f v (compArms sc arms) (compE sc d) m)
  echo : ∀ sc cur es s m, CtxOK funs sc cur → Rel funs sc cur s m → Covers sc (varsArgs es) → goodArgs funs es = true →
    RelO funs sc cur (echoArgs funs f cur es s) (echoM (mfuns funs) f (compArgs sc es) m)
  discard : ∀ sc cur es s m, CtxOK funs sc cur → Rel funs sc cur s m → Covers sc (varsArgs es) → goodArgs funs es = true →
    RelR funs sc cur (fun _ _ => True) (evalDiscard funs f cur es s) (discardM (mfuns funs) f (compArgs sc es) m)
  discardIncs : ∀ sc cur es s m, CtxOK funs sc cur → Rel funs sc cur s m → Covers sc (varsArgs es) → goodArgs funs es = true →
    RelR funs sc cur (fun _ _ => True) (evalDiscard funs f cur es s) (discardM (mfuns funs) f (mapIncs (compArgs sc es)) m)
  bindArgs : ∀ sc cur args ps s m slots, CtxOK funs sc cur → Rel funs sc cur s m → Covers sc (varsArgs args) →
    goodArgs funs args = true → args.length ≤ ps.length → (∀ p ∈ ps, p.idx < slots.length) →
    RelR funs sc cur (fun vs sl => vs.length = args.length ∧ some sl = bindPure ps vs slots)
      (evalArgs funs f cur args s) (bindArgs (mfuns funs) f ps (compArgs sc args) m slots)
  execS : ∀ sc cur st s m, CtxOK funs sc cur → Rel funs sc cur s m → Covers sc (varsS st) → goodS funs st = true →
    RelO funs sc cur (execS funs f cur st s) (execM (mfuns funs) f (compS sc st) m)
  execB : ∀ sc cur b v0 s m, CtxOK funs sc cur → Rel funs sc cur s m → Covers sc (varsB b) → goodB funs b = true →
    RelO funs sc cur (execB funs f cur b s) (execMB (mfuns funs) f (compB sc b) v0 m)
  elifs : ∀ sc cur el els s m, CtxOK funs sc cur → Rel funs sc cur s m → Covers sc (varsElifs el) → Covers sc (varsB els) →
    goodElifs funs el = true → goodB funs els = true →
    RelO funs sc cur (execElifs funs f cur el els s) (elifsM (mfuns funs) f (compElifs sc el) (compB sc els) m)
  while_ : ∀ sc cur c b v0 s m, CtxOK funs sc cur → Rel funs sc cur s m → Covers sc (varsE c) → Covers sc (varsB b) →
    goodE funs c = true → goodB funs b = true →
    RelO funs sc cur (execWhile funs f cur c b s) (whileM (mfuns funs) f (compE sc c) (compB sc b) v0 m)
  do_ : ∀ sc cur b c v0 s m, CtxOK funs sc cur → Rel funs sc cur s m → Covers sc (varsE c) → Covers sc (varsB b) →
    goodE funs c = true → goodB funs b = true →
    RelO funs sc cur (execDo funs f cur b c s) (doM (mfuns funs) f (compB sc b) (compE sc c) v0 m)
  for_ : ∀ sc cur c incs b v0 s m, CtxOK funs sc cur → Rel funs sc cur s m → Covers sc (varsE c) → Covers sc (varsArgs incs) →
    Covers sc (varsB b) → goodE funs c = true → goodArgs funs incs = true → goodB funs b = true →
    RelO funs sc cur (execFor funs f cur c incs b s)
      (forM (mfuns funs) f (compE sc c) (mapIncs (compArgs sc incs)) (compB sc b) v0 m)
  foreach : ∀ sc cur k v b l i v0 s m, CtxOK funs sc cur → Rel funs sc cur s m → (∀ kv, k = some kv → kv ∈ sc) → v ∈ sc →
    Covers sc (varsB b) → goodB funs b = true →
    RelO funs sc cur (execForeach funs f cur k v b l i s)
      (foreachM (mfuns funs) f (k.map (idx sc)) (idx sc v) (compB sc b) l i v0 m)
  switch : ∀ sc cur v cs d s m, CtxOK funs sc cur → Rel funs sc cur s m → Covers sc (varsCases cs) → Covers sc (varsB d) →
    goodCases funs cs = true → goodB funs d = true →
    RelO funs sc cur (execSwitch funs f cur v cs d s) (switchM (mfuns funs) f v (compCases sc cs) (compB sc d) m)
  runBodies : ∀ sc cur cs d s m, CtxOK funs sc cur → Rel funs sc cur s m → Covers sc (varsCases cs) → Covers sc (varsB d) →
    goodCases funs cs = true → goodB funs d = true →
    RelO funs sc cur (runBodies funs f cur cs d s) (runBodiesM (mfuns funs) f (compCases sc cs) (compB sc d) m)

/-! ### syntactic facts about `compile` -/

theorem compFun_name (d : FunDecl) : (compFun d).name = d.name := rfl

theorem lookupFun_map (funs : List FunDecl) (g : FName) :
    Model.Ctl.lookupFun (mfuns funs) g = (Spec.Ctl.lookupFun funs g).map compFun := by
  unfold Model.Ctl.lookupFun Spec.Ctl.lookupFun mfuns
  induction funs with
  | nil => rfl
  | cons d ds ih =>
    simp only [List.map_cons, List.find?_cons, compFun_name]
    cases d.name == g with
    | true => rfl
    | false => simpa using ih

theorem lookupFun_mem {funs : List FunDecl} {g : FName} {d : FunDecl} (h : Spec.Ctl.lookupFun funs g = some d) :
    d ∈ funs := List.mem_of_find?_eq_some h

theorem mkBin_cases (sc : List Var) (op : BinOp) (a b : Expr) (ca cb : MExpr) :
    mkBin sc op a b ca cb = .bin op ca cb ∨
    ∃ x n, op = .le ∧ a = .var x ∧ b = .lit (.int n) ∧
      mkBin sc op a b ca cb = .varIntLe (idx sc x) n (.bin .le ca cb) := by
  unfold mkBin
  split
  · right; exact ⟨_, _, rfl, rfl, rfl, rfl⟩
  · left; rfl

/-- how a VarFastAssign's operands relate to the source right-hand side -/
inductive FastOK (sc : List Var) : FastOp → Opnd → Opnd → Expr → Prop where
  | copyVar (y : Var) (r : Opnd) : FastOK sc .copy (.slot (idx sc y)) r (.var y)
  | copyLit (n : Int) (r : Opnd) : FastOK sc .copy (.lit n) r (.lit (.int n))
  | mul (a b : Expr) : FastOK sc .mul (preOpnd sc a) (preOpnd sc b) (.bin .mul a b)
  | add (a b : Expr) : FastOK sc .add (preOpnd sc a) (preOpnd sc b) (.bin .add a b)

theorem mkAssign_cases (sc : List Var) (x : Var) (e : Expr) (ce : MExpr) :
    mkAssign sc x e ce = .assignVar (idx sc x) ce ∨
    ∃ op l r, mkAssign sc x e ce = .fastAssign op (idx sc x) l r ce ∧ FastOK sc op l r e := by
  unfold mkAssign
  split
  · right; exact ⟨_, _, _, rfl, .copyVar _ _⟩
  · right; exact ⟨_, _, _, rfl, .copyLit _ _⟩
  · right; exact ⟨_, _, _, rfl, .mul _ _⟩
  · right; exact ⟨_, _, _, rfl, .add _ _⟩
  · left; rfl

theorem fillDefaults_some (ps : List MParam) (slots : List Val) (h : ∀ p ∈ ps, p.idx < slots.length) :
    ∃ sl, fillDefaults ps slots = some sl ∧ sl.length = slots.length := by
  induction ps generalizing slots with
  | nil => exact ⟨slots, rfl, rfl⟩
  | cons p ps ih =>
    have hp : p.idx < slots.length := h p List.mem_cons_self
    have hrest : ∀ q ∈ ps, q.idx < slots.length := fun q hq => h q (List.mem_cons_of_mem _ hq)
    simp only [fillDefaults]
    rw [List.getElem?_eq_getElem hp]
    split
    · rename_i heq; cases heq
    · split
      · obtain ⟨sl, h1, h2⟩ := ih (slots.set p.idx _) (by simpa using hrest)
        exact ⟨sl, h1, by simpa using h2⟩
      · exact ih slots hrest
    · exact ih slots hrest

end Proofs.Ctl
