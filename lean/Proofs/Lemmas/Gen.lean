import Model.Gen
import Spec.Gen
/-! Helper lemmas for C19: the `GenericMap` built by `resolveClass` binds the
k-th parameter to the k-th argument; the simulation relation between the
model's live objects and the spec's creation records; one step preserves it. -/
namespace Proofs.Gen
open Model.Gen Spec.Gen

/-- Declarations are well-formed when no class repeats a type-parameter name. -/
def WF (decls : List Class) : Prop := ∀ c ∈ decls, c.params.Nodup

instance (decls : List Class) : Decidable (WF decls) := by unfold WF; infer_instance

/-! ### `buildMap` -/

theorem buildMap_some_iff (ps : List Nat) (as : List Ty) (m : GMap) :
    (∃ g, buildMap ps as m = some g) ↔ ps.length ≤ as.length := by
  induction ps generalizing as m with
  | nil => simp [buildMap]
  | cons p ps ih =>
    cases as with
    | nil => simp [buildMap]
    | cons t ts => simp [buildMap, ih]

theorem buildMap_none_iff (ps : List Nat) (as : List Ty) (m : GMap) :
    buildMap ps as m = none ↔ ¬ ps.length ≤ as.length := by
  rw [← buildMap_some_iff ps as m]
  cases buildMap ps as m <;> simp

/-- After `resolveClass`, looking a parameter name up gives the argument at the
parameter's position; other names keep what the map held before. -/
theorem buildMap_get (ps : List Nat) (as : List Ty) (m g : GMap) (hnd : ps.Nodup)
    (h : buildMap ps as m = some g) (n : Nat) :
    g n = if n ∈ ps then as[ps.idxOf n]? else m n := by
  induction ps generalizing as m with
  | nil => simp [buildMap] at h; subst h; simp
  | cons p ps ih =>
    cases as with
    | nil => simp [buildMap] at h
    | cons t ts =>
      simp only [buildMap] at h
      have hnd' := (List.nodup_cons.mp hnd)
      have := ih ts (m.set p t) hnd'.2 h
      rw [this]
      by_cases hnp : n = p
      · subst hnp
        simp [hnd'.1, GMap.set]
      · have hpn : ¬ p = n := fun e => hnp e.symm
        by_cases hmem : n ∈ ps
        · have hb : (p == n) = false := by simp [hpn]
          simp [hmem, List.idxOf_cons, hb]
        · simp [hmem, hnp, GMap.set]

theorem buildMap_argOf (ps : List Nat) (as : List Ty) (g : GMap) (hnd : ps.Nodup)
    (h : buildMap ps as GMap.empty = some g) (n : Nat) : g n = argOf ps as n := by
  rw [buildMap_get ps as GMap.empty g hnd h n]
  simp [argOf, GMap.empty]

/-! ### Simulation relation -/

/-- A live object of the model corresponds to a creation record of the spec. -/
def R (decls : List Class) (o : Inst) (r : Creation) : Prop :=
  o.cls = r.cls ∧ ∃ c, decls[r.cls]? = some c ∧
    match r.args with
    | none => ∀ n, o.gmap n = none
    | some args => ∀ n, o.gmap n = argOf c.params args n

structure Rel (decls : List Class) (s : State) (objs : List Creation) : Prop where
  classes : s.classes = decls
  len : s.insts.length = objs.length
  rel : ∀ (i : Nat) (o : Inst) (r : Creation), s.insts[i]? = some o → objs[i]? = some r → R decls o r

theorem rel_init (decls : List Class) : Rel decls (init decls) [] :=
  ⟨rfl, rfl, by intro i o r h; simp [init] at h⟩

theorem rel_push {decls s objs} (h : Rel decls s objs) (o : Inst) (r : Creation) (hr : R decls o r) :
    Rel decls { s with insts := s.insts ++ [o] } (objs ++ [r]) := by
  refine ⟨h.classes, by simp [h.len], ?_⟩
  intro i o' r' ho hr'
  by_cases hi : i < s.insts.length
  · have hi' : i < objs.length := h.len ▸ hi
    rw [List.getElem?_append_left hi] at ho
    rw [List.getElem?_append_left hi'] at hr'
    exact h.rel i o' r' ho hr'
  · have hge : s.insts.length ≤ i := Nat.le_of_not_lt hi
    have hge' : objs.length ≤ i := h.len ▸ hge
    rw [List.getElem?_append_right hge] at ho
    rw [List.getElem?_append_right hge'] at hr'
    by_cases h0 : i - s.insts.length = 0
    · have h0' : i - objs.length = 0 := h.len ▸ h0
      simp [h0] at ho; simp [h0'] at hr'
      subst ho; subst hr'; exact hr
    · have : ∃ k, i - s.insts.length = k + 1 := ⟨i - s.insts.length - 1, by omega⟩
      obtain ⟨k, hk⟩ := this
      simp [hk] at ho

/-- For corresponding objects the typed store of the model answers what the spec prescribes. -/
theorem check_eq {decls : List Class} {o : Inst} {r : Creation} (hr : R decls o r) (c : Class)
    (hc : decls[o.cls]? = some c) (p : Nat) (v : Val) :
    (match getProperty c o.gmap p with
      | none => Out.accepted
      | some ty => if check ty v then Out.accepted else Out.rejected) =
    (if accepts decls r p v then Out.accepted else Out.rejected) := by
  obtain ⟨hcls, c', hc', hm⟩ := hr
  rw [hcls] at hc
  have : c' = c := by rw [hc] at hc'; exact (Option.some.inj hc').symm
  subst this
  unfold accepts getProperty
  simp only [hc]
  cases hp : c'.props[p]? with
  | none => simp
  | some d =>
    cases d with
    | untyped => simp [subst, check]
    | conc t => cases hv : t.accepts v <;> simp [subst, check, hv]
    | generic n =>
      simp only [Option.map_some, subst, GMap.get]
      cases ha : r.args with
      | none =>
        rw [ha] at hm; simp [hm n, check]
      | some args =>
        rw [ha] at hm; simp only at hm
        rw [hm n]
        cases hq : argOf c'.params args n with
        | none => simp [check, hq]
        | some t => cases hv : t.accepts v <;> simp [check, hv, hq]

theorem writeOut_eq {decls s objs} (h : Rel decls s objs) (i p : Nat) (v : Val) :
    Model.Gen.writeOut s i p v = Spec.Gen.writeOut decls objs i p v := by
  unfold Model.Gen.writeOut Spec.Gen.writeOut
  cases ho : s.insts[i]? with
  | none =>
    have : objs[i]? = none := by
      rw [List.getElem?_eq_none_iff] at ho ⊢; rw [← h.len]; exact ho
    simp [this]
  | some o =>
    have hi : i < objs.length := by
      rw [← h.len]; exact (List.getElem?_eq_some_iff.mp ho).1
    have hr0 : objs[i]? = some objs[i] := List.getElem?_eq_getElem hi
    have hr := h.rel i o objs[i] ho hr0
    rw [hr0]
    obtain ⟨hcls, c, hc, _⟩ := id hr
    rw [← hcls] at hc
    have hc2 : s.classes[o.cls]? = some c := by rw [h.classes]; exact hc
    simp only [hc2]
    exact check_eq hr c hc p v

/-! ### One step, then whole histories -/

/-- The spec's object list after an operation. -/
def push (decls : List Class) (objs : List Creation) (o : Op) : List Creation :=
  match creates decls o with
  | some r => objs ++ [r]
  | none => objs

theorem R_of_build {decls : List Class} (hwf : WF decls) {c : Nat} {cl : Class} (hc : decls[c]? = some cl)
    {args : List Ty} {g : GMap} (hg : buildMap cl.params args GMap.empty = some g) :
    R decls ⟨c, g⟩ ⟨c, some args⟩ := by
  refine ⟨rfl, cl, hc, ?_⟩
  have hnd : cl.params.Nodup := hwf cl (List.mem_of_getElem? hc)
  exact fun n => buildMap_argOf cl.params args g hnd hg n

theorem writeOut_last {decls : List Class} (objs : List Creation) (r : Creation) (p : Nat) (v : Val) :
    Spec.Gen.writeOut decls (objs ++ [r]) objs.length p v =
      if accepts decls r p v then Out.accepted else Out.rejected := by
  simp [Spec.Gen.writeOut]

/-- The node an operation is executed through and the text of that node (class, written type arguments). -/
def siteKey : Op → Option (Nat × Nat × Option (List Ty))
  | .instAt s c a => some (s, c, some a)
  | .instRawAt s c => some (s, c, none)
  | .instCtorAt s c a _ _ => some (s, c, some a)
  | _ => none

theorem check_ite (x : Option Ty) (v : Val) :
    (if check x v = true then Out.accepted else Out.rejected) =
      if (match x with | none => true | some t => t.accepts v) = true then Out.accepted else Out.rejected := by
  cases x <;> rfl

theorem callOut_eq {decls s objs} (h : Rel decls s objs) (i n : Nat) (v : Val) :
    Model.Gen.callOut s i n v = outOf decls objs (.call i n v) := by
  unfold Model.Gen.callOut outOf
  cases ho : s.insts[i]? with
  | none =>
    have : objs[i]? = none := by
      rw [List.getElem?_eq_none_iff] at ho ⊢; rw [← h.len]; exact ho
    simp [this]
  | some o =>
    have hi : i < objs.length := by
      rw [← h.len]; exact (List.getElem?_eq_some_iff.mp ho).1
    have hr0 : objs[i]? = some objs[i] := List.getElem?_eq_getElem hi
    obtain ⟨hcls, c, hc, hm⟩ := h.rel i o objs[i] ho hr0
    have hc2 : s.classes[o.cls]? = some c := by rw [h.classes, hcls]; exact hc
    simp only [hr0, hc, hc2]
    by_cases hn : n ∈ c.params
    · simp only [hn, if_true, takes, hc]
      by_cases hv : v = Val.null
      · subst hv; simp
      · have hb : (v == Val.null) = false := by simp [hv]
        simp only [hv, if_false, hb, Bool.false_or, GMap.get]
        cases ha : objs[i].args with
        | none => rw [ha] at hm; simp [hm n, check]
        | some args =>
          rw [ha] at hm; simp only at hm
          simp only [hm n]
          exact check_ite _ _
    · simp [hn]

/-- One step of an operation that is not executed through a shared node. -/
theorem step_sim {decls : List Class} {s : State} {objs : List Creation} (hwf : WF decls)
    (h : Rel decls s objs) (o : Op) (hu : siteKey o = none) :
    (step s o).2 = outOf decls objs o ∧ Rel decls (step s o).1 (push decls objs o) := by
  have hcl := h.classes
  have hlen := h.len
  cases o with
  | instAt site c args => simp [siteKey] at hu
  | instRawAt site c => simp [siteKey] at hu
  | instCtorAt site c args p v => simp [siteKey] at hu
  | call i n v =>
    simp only [step, push, creates]
    exact ⟨callOut_eq h i n v, h⟩
  | inst c args =>
    cases hc : decls[c]? with
    | none =>
      have hc' : s.classes[c]? = none := by rw [hcl]; exact hc
      simp only [step, outOf, push, creates, arityOk, hc, hc']
      exact ⟨trivial, h⟩
    | some cl =>
      have hc' : s.classes[c]? = some cl := by rw [hcl]; exact hc
      cases hg : buildMap cl.params args GMap.empty with
      | none =>
        have hn := (buildMap_none_iff _ _ _).mp hg
        simp only [step, outOf, push, creates, arityOk, hc, hc', hg, hn, decide_false, if_false,
          Bool.false_eq_true]
        exact ⟨trivial, h⟩
      | some g =>
        have hy := (buildMap_some_iff cl.params args GMap.empty).mp ⟨g, hg⟩
        simp only [step, outOf, push, creates, arityOk, hc, hc', hg, hy, decide_true, if_true, hlen]
        exact ⟨trivial, rel_push h _ _ (R_of_build hwf hc hg)⟩
  | instRaw c =>
    cases hc : decls[c]? with
    | none =>
      have hc' : s.classes[c]? = none := by rw [hcl]; exact hc
      simp only [step, outOf, push, creates, hc, hc', Option.isSome_none, Bool.false_eq_true, if_false]
      exact ⟨trivial, h⟩
    | some cl =>
      have hc' : s.classes[c]? = some cl := by rw [hcl]; exact hc
      simp only [step, outOf, push, creates, hc, hc', Option.isSome_some, if_true, hlen]
      refine ⟨trivial, rel_push h ⟨c, GMap.empty⟩ ⟨c, none⟩ ⟨rfl, cl, hc, ?_⟩⟩
      intro n; rfl
  | instCtor c args p v =>
    cases hc : decls[c]? with
    | none =>
      have hc' : s.classes[c]? = none := by rw [hcl]; exact hc
      simp only [step, outOf, push, creates, arityOk, hc, hc', Bool.false_and, Bool.false_eq_true, if_false]
      exact ⟨trivial, h⟩
    | some cl =>
      have hc' : s.classes[c]? = some cl := by rw [hcl]; exact hc
      cases hg : buildMap cl.params args GMap.empty with
      | none =>
        have hn := (buildMap_none_iff _ _ _).mp hg
        simp only [step, outOf, push, creates, arityOk, hc, hc', hg, hn, decide_false, Bool.false_and,
          if_false, Bool.false_eq_true]
        exact ⟨trivial, h⟩
      | some g =>
        have hy := (buildMap_some_iff cl.params args GMap.empty).mp ⟨g, hg⟩
        have hrel' := rel_push h ⟨c, g⟩ ⟨c, some args⟩ (R_of_build hwf hc hg)
        have hw := writeOut_eq hrel' s.insts.length p v
        rw [hlen, writeOut_last] at hw
        cases ha : accepts decls ⟨c, some args⟩ p v with
        | false =>
          rw [ha] at hw; simp only [Bool.false_eq_true, if_false] at hw
          simp only [step, outOf, push, creates, arityOk, hc, hc', hg, hy, decide_true, Bool.true_and,
            if_true, ha, hlen, hw, Bool.false_eq_true, if_false]
          exact ⟨trivial, h⟩
        | true =>
          rw [ha] at hw; simp only [if_true] at hw
          simp only [step, outOf, push, creates, arityOk, hc, hc', hg, hy, decide_true, Bool.true_and,
            if_true, ha, hlen, hw]
          exact ⟨trivial, hrel'⟩
  | write i p v =>
    simp only [step, outOf, push, creates]
    exact ⟨writeOut_eq h i p v, h⟩
  | read i p =>
    cases ho : s.insts[i]? with
    | none =>
      have : ¬ i < objs.length := by
        rw [← hlen]; exact Nat.not_lt.mpr (List.getElem?_eq_none_iff.mp ho)
      simp only [step, outOf, push, creates, ho, this, if_false]; exact ⟨trivial, h⟩
    | some o =>
      have : i < objs.length := by
        rw [← hlen]; exact (List.getElem?_eq_some_iff.mp ho).1
      simp only [step, outOf, push, creates, ho, this, if_true]; exact ⟨trivial, h⟩

/-! ### AST nodes executed more than once -/

/-- The same operation executed through a node of its own. -/
def unsite : Op → Op
  | .instAt _ c a => .inst c a
  | .instRawAt _ c => .instRaw c
  | .instCtorAt _ c a p v => .instCtor c a p v
  | o => o

/-- Two operations do not disagree about the text of a node. -/
def compat (a b : Op) : Bool :=
  match siteKey a, siteKey b with
  | some (s, k), some (s', k') => s != s' || k == k'
  | _, _ => true

/-- A history is a run of a program: every node has one text (`new C<args>` written once, executed
any number of times). -/
def SiteWF (h : List Op) : Prop := h.Pairwise (fun a b => compat a b = true)

instance (h : List Op) : Decidable (SiteWF h) := by unfold SiteWF; infer_instance

theorem compat_key {a b : Op} (h : compat a b = true) {s c c' : Nat} {k k' : Option (List Ty)}
    (ha : siteKey a = some (s, c, k)) (hb : siteKey b = some (s, c', k')) : c = c' ∧ k = k' := by
  simp [compat, ha, hb] at h
  exact h

/-- What the nodes hold agrees with what the nodes still to be executed would compute. -/
def Coh (decls : List Class) (cache : Nat → Option Inst) (rest : List Op) : Prop :=
  ∀ o ∈ rest, ∀ s c a, siteKey o = some (s, c, a) → ∀ i, cache s = some i → build decls c a = .ok i

theorem coh_init (decls : List Class) (h : List Op) : Coh decls (init decls).cache h := by
  intro o _ s c a _ i hi; simp [init] at hi

theorem coh_tail {decls cache o os} (h : Coh decls cache (o :: os)) : Coh decls cache os :=
  fun o' ho' => h o' (List.mem_cons_of_mem _ ho')

theorem resolveAt_hit {s : State} {site c : Nat} {a : Option (List Ty)} {i : Inst}
    (h : s.cache site = some i) : resolveAt s site c a = (s, .ok i) := by
  simp [resolveAt, h]

theorem resolveAt_miss_ok {s : State} {site c : Nat} {a : Option (List Ty)} {i : Inst}
    (h : s.cache site = none) (hb : build s.classes c a = .ok i) :
    resolveAt s site c a =
      ({ s with cache := fun k => if k = site then some i else s.cache k }, .ok i) := by
  simp [resolveAt, h, hb]

theorem resolveAt_miss_crash {s : State} {site c : Nat} {a : Option (List Ty)}
    (h : s.cache site = none) (hb : build s.classes c a = .crash) :
    resolveAt s site c a = (s, .crash) := by
  simp [resolveAt, h, hb]

theorem resolveAt_miss_noClass {s : State} {site c : Nat} {a : Option (List Ty)}
    (h : s.cache site = none) (hb : build s.classes c a = .noClass) :
    resolveAt s site c a = (s, .noClass) := by
  simp [resolveAt, h, hb]

/-- `resolveClass` with its early return answers what a fresh computation answers, touches only the
node, and leaves the nodes coherent with the rest of the history. -/
theorem resolveAt_spec {decls : List Class} {s : State} (hcl : s.classes = decls) (o : Op) (os : List Op)
    (site c : Nat) (a : Option (List Ty)) (hk : siteKey o = some (site, c, a))
    (hwf : SiteWF (o :: os)) (hcoh : Coh decls s.cache (o :: os)) :
    (resolveAt s site c a).2 = build decls c a ∧ (resolveAt s site c a).1.classes = s.classes ∧
      (resolveAt s site c a).1.insts = s.insts ∧ Coh decls (resolveAt s site c a).1.cache os := by
  cases hc : s.cache site with
  | some i =>
    have := hcoh o (List.mem_cons_self) site c a hk i hc
    rw [resolveAt_hit hc]
    exact ⟨this.symm, rfl, rfl, coh_tail hcoh⟩
  | none =>
    cases hb : build decls c a with
    | noClass =>
      rw [resolveAt_miss_noClass hc (hcl ▸ hb)]; exact ⟨rfl, rfl, rfl, coh_tail hcoh⟩
    | crash =>
      rw [resolveAt_miss_crash hc (hcl ▸ hb)]; exact ⟨rfl, rfl, rfl, coh_tail hcoh⟩
    | ok i =>
      rw [resolveAt_miss_ok hc (hcl ▸ hb)]
      refine ⟨rfl, rfl, rfl, ?_⟩
      intro o' ho' s' c' a' hk' i' hi'
      simp only at hi'
      by_cases hs : s' = site
      · subst hs
        simp only [if_true] at hi'
        have hcomp : compat o o' = true := (List.pairwise_cons.mp hwf).1 o' ho'
        obtain ⟨e1, e2⟩ := compat_key hcomp hk hk'
        subst e1; subst e2
        rw [hb, Option.some.inj hi']
      · simp only [hs, if_false] at hi'
        exact hcoh o' (List.mem_cons_of_mem _ ho') s' c' a' hk' i' hi'

theorem Rel.congr {decls s s' objs} (h : Rel decls s objs) (hc : s'.classes = s.classes)
    (hi : s'.insts = s.insts) : Rel decls s' objs :=
  ⟨hc ▸ h.classes, hi ▸ h.len, by rw [hi]; exact h.rel⟩

theorem creates_unsite (decls : List Class) (o : Op) : creates decls (unsite o) = creates decls o := by
  cases o <;> rfl

theorem outOf_unsite (decls : List Class) (objs : List Creation) (o : Op) :
    outOf decls objs (unsite o) = outOf decls objs o := by
  cases o <;> rfl

theorem push_unsite (decls : List Class) (objs : List Creation) (o : Op) :
    push decls objs (unsite o) = push decls objs o := by
  unfold push; rw [creates_unsite]

/-- The un-sited `new`, written through `build`. -/
theorem step_inst_build (s : State) (c : Nat) (args : List Ty) :
    step s (.inst c args) =
      match build s.classes c (some args) with
      | .noClass => (s, .noClass)
      | .crash => (s, .crash)
      | .ok o => ({ s with insts := s.insts ++ [o] }, .created s.insts.length) := by
  simp only [step, build]
  cases s.classes[c]? with
  | none => rfl
  | some cl => dsimp only; cases buildMap cl.params args GMap.empty <;> rfl

theorem step_raw_build (s : State) (c : Nat) :
    step s (.instRaw c) =
      match build s.classes c none with
      | .noClass => (s, .noClass)
      | .crash => (s, .crash)
      | .ok o => ({ s with insts := s.insts ++ [o] }, .created s.insts.length) := by
  simp only [step, build]
  cases s.classes[c]? <;> rfl

theorem step_ctor_build (s : State) (c : Nat) (args : List Ty) (p : Nat) (v : Val) :
    step s (.instCtor c args p v) =
      match build s.classes c (some args) with
      | .noClass => (s, .noClass)
      | .crash => (s, .crash)
      | .ok o =>
        match writeOut { s with insts := s.insts ++ [o] } s.insts.length p v with
        | .rejected => (s, .rejected)
        | _ => ({ s with insts := s.insts ++ [o] }, .created s.insts.length) := by
  simp only [step, build]
  cases s.classes[c]? with
  | none => rfl
  | some cl => dsimp only; cases buildMap cl.params args GMap.empty <;> rfl

/-- `writeOut` does not look at the nodes. -/
theorem writeOut_congr {s s' : State} (hc : s'.classes = s.classes) (hi : s'.insts = s.insts)
    (i p : Nat) (v : Val) : Model.Gen.writeOut s' i p v = Model.Gen.writeOut s i p v := by
  unfold Model.Gen.writeOut; rw [hc, hi]

/-- A sited step answers as the un-sited one and builds the same objects. -/
theorem step_unsite {decls : List Class} {s : State} (hcl : s.classes = decls) (o : Op) (os : List Op)
    (hwf : SiteWF (o :: os)) (hcoh : Coh decls s.cache (o :: os)) :
    (step s o).2 = (step s (unsite o)).2 ∧ (step s o).1.classes = (step s (unsite o)).1.classes ∧
      (step s o).1.insts = (step s (unsite o)).1.insts ∧ Coh decls (step s o).1.cache os := by
  cases o with
  | instAt site c args =>
    obtain ⟨h1, h2, h3, h4⟩ := resolveAt_spec hcl _ os site c (some args) rfl hwf hcoh
    simp only [unsite]
    rw [← hcl] at h1
    rw [step_inst_build, ← h1]
    simp only [step]
    generalize resolveAt s site c (some args) = r at h2 h3 h4
    obtain ⟨s1, b⟩ := r
    simp only at h2 h3 h4
    cases b with
    | noClass => exact ⟨rfl, h2, h3, h4⟩
    | crash => exact ⟨rfl, h2, h3, h4⟩
    | ok i =>
      refine ⟨?_, h2, ?_, h4⟩
      · show Out.created s1.insts.length = Out.created s.insts.length
        rw [h3]
      · show s1.insts ++ [i] = s.insts ++ [i]
        rw [h3]
  | instRawAt site c =>
    obtain ⟨h1, h2, h3, h4⟩ := resolveAt_spec hcl _ os site c none rfl hwf hcoh
    simp only [unsite]
    rw [← hcl] at h1
    rw [step_raw_build, ← h1]
    simp only [step]
    generalize resolveAt s site c none = r at h2 h3 h4
    obtain ⟨s1, b⟩ := r
    simp only at h2 h3 h4
    cases b with
    | noClass => exact ⟨rfl, h2, h3, h4⟩
    | crash => exact ⟨rfl, h2, h3, h4⟩
    | ok i =>
      refine ⟨?_, h2, ?_, h4⟩
      · show Out.created s1.insts.length = Out.created s.insts.length
        rw [h3]
      · show s1.insts ++ [i] = s.insts ++ [i]
        rw [h3]
  | instCtorAt site c args p v =>
    obtain ⟨h1, h2, h3, h4⟩ := resolveAt_spec hcl _ os site c (some args) rfl hwf hcoh
    simp only [unsite]
    rw [← hcl] at h1
    rw [step_ctor_build, ← h1]
    simp only [step]
    generalize resolveAt s site c (some args) = r at h2 h3 h4
    obtain ⟨s1, b⟩ := r
    simp only at h2 h3 h4
    cases b with
    | noClass => exact ⟨rfl, h2, h3, h4⟩
    | crash => exact ⟨rfl, h2, h3, h4⟩
    | ok i =>
      have hw : Model.Gen.writeOut { s1 with insts := s1.insts ++ [i] } s1.insts.length p v =
          Model.Gen.writeOut { s with insts := s.insts ++ [i] } s.insts.length p v := by
        rw [h3]
        exact writeOut_congr (s := { s with insts := s.insts ++ [i] })
          (s' := { s1 with insts := s.insts ++ [i] }) h2 rfl _ _ _
      simp only [hw]
      cases Model.Gen.writeOut { s with insts := s.insts ++ [i] } s.insts.length p v <;>
        first
          | exact ⟨rfl, h2, h3, h4⟩
          | (refine ⟨?_, h2, ?_, h4⟩
             · show Out.created s1.insts.length = Out.created s.insts.length
               rw [h3]
             · show s1.insts ++ [i] = s.insts ++ [i]
               rw [h3])
  | inst c args => exact ⟨rfl, rfl, rfl, by
      have : (step s (.inst c args)).1.cache = s.cache := by
        simp only [step_inst_build]; cases build s.classes c (some args) <;> rfl
      rw [this]; exact coh_tail hcoh⟩
  | instRaw c => exact ⟨rfl, rfl, rfl, by
      have : (step s (.instRaw c)).1.cache = s.cache := by
        simp only [step_raw_build]; cases build s.classes c none <;> rfl
      rw [this]; exact coh_tail hcoh⟩
  | instCtor c args p v => exact ⟨rfl, rfl, rfl, by
      have : (step s (.instCtor c args p v)).1.cache = s.cache := by
        simp only [step_ctor_build]
        cases build s.classes c (some args) with
        | noClass => rfl
        | crash => rfl
        | ok i => simp only; cases Model.Gen.writeOut { s with insts := s.insts ++ [i] } s.insts.length p v <;> rfl
      rw [this]; exact coh_tail hcoh⟩
  | write i p v => exact ⟨rfl, rfl, rfl, coh_tail hcoh⟩
  | call i n v => exact ⟨rfl, rfl, rfl, coh_tail hcoh⟩
  | read i p => exact ⟨rfl, rfl, rfl, by
      have : (step s (.read i p)).1.cache = s.cache := by
        simp only [step]; cases s.insts[i]? <;> rfl
      rw [this]; exact coh_tail hcoh⟩

/-- One step of any operation, sited or not. -/
theorem step_sim_at {decls : List Class} {s : State} {objs : List Creation} (hwf : WF decls)
    (h : Rel decls s objs) (o : Op) (os : List Op) (hs : SiteWF (o :: os))
    (hcoh : Coh decls s.cache (o :: os)) :
    (step s o).2 = outOf decls objs o ∧ Rel decls (step s o).1 (push decls objs o) ∧
      Coh decls (step s o).1.cache os := by
  obtain ⟨h1, h2, h3, h4⟩ := step_unsite h.classes o os hs hcoh
  obtain ⟨g1, g2⟩ := step_sim hwf h (unsite o) (by cases o <;> rfl)
  rw [outOf_unsite] at g1
  rw [push_unsite] at g2
  exact ⟨h1.trans g1, g2.congr h2 h3, h4⟩

theorem runFrom_sim {decls : List Class} (hwf : WF decls) (h : List Op) :
    ∀ (s : State) (objs : List Creation), Rel decls s objs → SiteWF h → Coh decls s.cache h →
      (Model.Gen.runFrom s h).2 = Spec.Gen.runFrom decls objs h ∧
      Rel decls (Model.Gen.runFrom s h).1 (objs ++ created decls h) := by
  induction h with
  | nil => intro s objs hr _ _; simp [Model.Gen.runFrom, Spec.Gen.runFrom, created, hr]
  | cons o os ih =>
    intro s objs hr hs hcoh
    obtain ⟨h1, h2, hc⟩ := step_sim_at hwf hr o os hs hcoh
    obtain ⟨h3, h4⟩ := ih (step s o).1 (push decls objs o) h2 (List.pairwise_cons.mp hs).2 hc
    simp only [Model.Gen.runFrom, Spec.Gen.runFrom]
    refine ⟨by rw [h1]; exact congrArg _ h3, ?_⟩
    have : push decls objs o ++ created decls os = objs ++ created decls (o :: os) := by
      unfold push created
      cases hcr : creates decls o <;> simp [hcr]
    rw [← this]; exact h4

/-- Only a well-formed `new C<args>` creates an object with written type arguments. -/
theorem creates_arity {decls : List Class} {o : Op} {c : Nat} {args : List Ty}
    (ho : creates decls o = some ⟨c, some args⟩) : arityOk decls c args = true := by
  cases o with
  | inst c' a' =>
    simp only [creates] at ho
    by_cases h : arityOk decls c' a' = true
    · simp [h] at ho; obtain ⟨rfl, rfl⟩ := ho; exact h
    · simp [h] at ho
  | instAt _ c' a' =>
    simp only [creates] at ho
    by_cases h : arityOk decls c' a' = true
    · simp [h] at ho; obtain ⟨rfl, rfl⟩ := ho; exact h
    · simp [h] at ho
  | instCtor c' a' p v =>
    simp only [creates] at ho
    by_cases h : (arityOk decls c' a' && accepts decls ⟨c', some a'⟩ p v) = true
    · simp only [h, if_true, Option.some.injEq, Creation.mk.injEq] at ho
      obtain ⟨rfl, hargs⟩ := ho
      cases hargs
      exact (Bool.and_eq_true _ _ ▸ h).1
    · simp [h] at ho
  | instCtorAt _ c' a' p v =>
    simp only [creates] at ho
    by_cases h : (arityOk decls c' a' && accepts decls ⟨c', some a'⟩ p v) = true
    · simp only [h, if_true, Option.some.injEq, Creation.mk.injEq] at ho
      obtain ⟨rfl, hargs⟩ := ho
      cases hargs
      exact (Bool.and_eq_true _ _ ▸ h).1
    · simp [h] at ho
  | instRaw c' => simp only [creates] at ho; by_cases h : (decls[c']?).isSome = true <;> simp [h] at ho
  | instRawAt _ c' => simp only [creates] at ho; by_cases h : (decls[c']?).isSome = true <;> simp [h] at ho
  | write => simp [creates] at ho
  | read => simp [creates] at ho
  | call => simp [creates] at ho

/-- From the initial state. -/
theorem run_sim {decls : List Class} (hwf : WF decls) (h : List Op) (hs : SiteWF h) :
    (Model.Gen.run decls h).2 = Spec.Gen.run decls h ∧
      Rel decls (Model.Gen.run decls h).1 (created decls h) := by
  have := runFrom_sim hwf h (init decls) [] (rel_init decls) hs (coh_init decls h)
  rw [List.nil_append] at this
  exact this

end Proofs.Gen
