import Model.Gen
import Spec.Gen
/-! Helper lemmas for C19: the `GenericMap` built by `resolveClass` binds the
k-th parameter to the k-th argument; the simulation relation between the
model's live objects and the spec's creation records; one step preserves it. -/
namespace Proofs.Gen
open Model.Gen Spec.Gen

/-- Declarations are well-formed when no class repeats a type-parameter name. -/
def WF (decls : List Class) : Prop := ∀ c ∈ decls, c.params.Nodup

instance (decls : List Class) : Decidable (WF decls) := by unfold WF; infer_instance

/-! ### `buildMap` -/

theorem buildMap_some_iff (ps : List Nat) (as : List Ty) (m : GMap) :
    (∃ g, buildMap ps as m = some g) ↔ ps.length ≤ as.length := by
  induction ps generalizing as m with
  | nil => simp [buildMap]
  | cons p ps ih =>
    cases as with
    | nil => simp [buildMap]
    | cons t ts => simp [buildMap, ih]

theorem buildMap_none_iff (ps : List Nat) (as : List Ty) (m : GMap) :
    buildMap ps as m = none ↔ ¬ ps.length ≤ as.length := by
  rw [← buildMap_some_iff ps as m]
  cases buildMap ps as m <;> simp

/-- After `resolveClass`, looking a parameter name up gives the argument at the
parameter's position; other names keep what the map held before. -/
theorem buildMap_get (ps : List Nat) (as : List Ty) (m g : GMap) (hnd : ps.Nodup)
    (h : buildMap ps as m = some g) (n : Nat) :
    g n = if n ∈ ps then as[ps.idxOf n]? else m n := by
  induction ps generalizing as m with
  | nil => simp [buildMap] at h; subst h; simp
  | cons p ps ih =>
    cases as with
    | nil => simp [buildMap] at h
    | cons t ts =>
      simp only [buildMap] at h
      have hnd' := (List.nodup_cons.mp hnd)
      have := ih ts (m.set p t) hnd'.2 h
      rw [this]
      by_cases hnp : n = p
      · subst hnp
        simp [hnd'.1, GMap.set]
      · have hpn : ¬ p = n := fun e => hnp e.symm
        by_cases hmem : n ∈ ps
        · have hb : (p == n) = false := by simp [hpn]
          simp [hmem, List.idxOf_cons, hb]
        · simp [hmem, hnp, GMap.set]

theorem buildMap_argOf (ps : List Nat) (as : List Ty) (g : GMap) (hnd : ps.Nodup)
    (h : buildMap ps as GMap.empty = some g) (n : Nat) : g n = argOf ps as n := by
  rw [buildMap_get ps as GMap.empty g hnd h n]
  simp [argOf, GMap.empty]

/-! ### Simulation relation -/

/-- A live object of the model corresponds to a creation record of the spec. -/
def R (decls : List Class) (o : Inst) (r : Creation) : Prop :=
  o.cls = r.cls ∧ ∃ c, decls[r.cls]? = some c ∧
    match r.args with
    | none => ∀ n, o.gmap n = none
    | some args => ∀ n, o.gmap n = argOf c.params args n

structure Rel (decls : List Class) (s : State) (objs : List Creation) : Prop where
  classes : s.classes = decls
  len : s.insts.length = objs.length
  rel : ∀ (i : Nat) (o : Inst) (r : Creation), s.insts[i]? = some o → objs[i]? = some r → R decls o r

theorem rel_init (decls : List Class) : Rel decls (init decls) [] :=
  ⟨rfl, rfl, by intro i o r h; simp [init] at h⟩

theorem rel_push {decls s objs} (h : Rel decls s objs) (o : Inst) (r : Creation) (hr : R decls o r) :
    Rel decls { s with insts := s.insts ++ [o] } (objs ++ [r]) := by
  refine ⟨h.classes, by simp [h.len], ?_⟩
  intro i o' r' ho hr'
  by_cases hi : i < s.insts.length
  · have hi' : i < objs.length := h.len ▸ hi
    rw [List.getElem?_append_left hi] at ho
    rw [List.getElem?_append_left hi'] at hr'
    exact h.rel i o' r' ho hr'
  · have hge : s.insts.length ≤ i := Nat.le_of_not_lt hi
    have hge' : objs.length ≤ i := h.len ▸ hge
    rw [List.getElem?_append_right hge] at ho
    rw [List.getElem?_append_right hge'] at hr'
    by_cases h0 : i - s.insts.length = 0
    · have h0' : i - objs.length = 0 := h.len ▸ h0
      simp [h0] at ho; simp [h0'] at hr'
      subst ho; subst hr'; exact hr
    · have : ∃ k, i - s.insts.length = k + 1 := ⟨i - s.insts.length - 1, by omega⟩
      obtain ⟨k, hk⟩ := this
      simp [hk] at ho

/-- For corresponding objects the typed store of the model answers what the spec prescribes. -/
theorem check_eq {decls : List Class} {o : Inst} {r : Creation} (hr : R decls o r) (c : Class)
    (hc : decls[o.cls]? = some c) (p : Nat) (v : Val) :
    (match getProperty c o.gmap p with
      | none => Out.accepted
      | some ty => if check ty v then Out.accepted else Out.rejected) =
    (if accepts decls r p v then Out.accepted else Out.rejected) := by
  obtain ⟨hcls, c', hc', hm⟩ := hr
  rw [hcls] at hc
  have : c' = c := by rw [hc] at hc'; exact (Option.some.inj hc').symm
  subst this
  unfold accepts getProperty
  simp only [hc]
  cases hp : c'.props[p]? with
  | none => simp
  | some d =>
    cases d with
    | untyped => simp [subst, check]
    | conc t => cases hv : t.accepts v <;> simp [subst, check, hv]
    | generic n =>
      simp only [Option.map_some, subst, GMap.get]
      cases ha : r.args with
      | none =>
        rw [ha] at hm; simp [hm n, check]
      | some args =>
        rw [ha] at hm; simp only at hm
        rw [hm n]
        cases hq : argOf c'.params args n with
        | none => simp [check, hq]
        | some t => cases hv : t.accepts v <;> simp [check, hv, hq]

theorem writeOut_eq {decls s objs} (h : Rel decls s objs) (i p : Nat) (v : Val) :
    Model.Gen.writeOut s i p v = Spec.Gen.writeOut decls objs i p v := by
  unfold Model.Gen.writeOut Spec.Gen.writeOut
  cases ho : s.insts[i]? with
  | none =>
    have : objs[i]? = none := by
      rw [List.getElem?_eq_none_iff] at ho ⊢; rw [← h.len]; exact ho
    simp [this]
  | some o =>
    have hi : i < objs.length := by
      rw [← h.len]; exact (List.getElem?_eq_some_iff.mp ho).1
    have hr0 : objs[i]? = some objs[i] := List.getElem?_eq_getElem hi
    have hr := h.rel i o objs[i] ho hr0
    rw [hr0]
    obtain ⟨hcls, c, hc, _⟩ := id hr
    rw [← hcls] at hc
    have hc2 : s.classes[o.cls]? = some c := by rw [h.classes]; exact hc
    simp only [hc2]
    exact check_eq hr c hc p v

/-! ### One step, then whole histories -/

/-- The spec's object list after an operation. -/
def push (decls : List Class) (objs : List Creation) (o : Op) : List Creation :=
  match creates decls o with
  | some r => objs ++ [r]
  | none => objs

theorem R_of_build {decls : List Class} (hwf : WF decls) {c : Nat} {cl : Class} (hc : decls[c]? = some cl)
    {args : List Ty} {g : GMap} (hg : buildMap cl.params args GMap.empty = some g) :
    R decls ⟨c, g⟩ ⟨c, some args⟩ := by
  refine ⟨rfl, cl, hc, ?_⟩
  have hnd : cl.params.Nodup := hwf cl (List.mem_of_getElem? hc)
  exact fun n => buildMap_argOf cl.params args g hnd hg n

theorem writeOut_last {decls : List Class} (objs : List Creation) (r : Creation) (p : Nat) (v : Val) :
    Spec.Gen.writeOut decls (objs ++ [r]) objs.length p v =
      if accepts decls r p v then Out.accepted else Out.rejected := by
  simp [Spec.Gen.writeOut]

theorem step_sim {decls : List Class} {s : State} {objs : List Creation} (hwf : WF decls)
    (h : Rel decls s objs) (o : Op) :
    (step s o).2 = outOf decls objs o ∧ Rel decls (step s o).1 (push decls objs o) := by
  have hcl := h.classes
  have hlen := h.len
  cases o with
  | inst c args =>
    cases hc : decls[c]? with
    | none =>
      have hc' : s.classes[c]? = none := by rw [hcl]; exact hc
      simp only [step, outOf, push, creates, arityOk, hc, hc']
      exact ⟨trivial, h⟩
    | some cl =>
      have hc' : s.classes[c]? = some cl := by rw [hcl]; exact hc
      cases hg : buildMap cl.params args GMap.empty with
      | none =>
        have hn := (buildMap_none_iff _ _ _).mp hg
        simp only [step, outOf, push, creates, arityOk, hc, hc', hg, hn, decide_false, if_false,
          Bool.false_eq_true]
        exact ⟨trivial, h⟩
      | some g =>
        have hy := (buildMap_some_iff cl.params args GMap.empty).mp ⟨g, hg⟩
        simp only [step, outOf, push, creates, arityOk, hc, hc', hg, hy, decide_true, if_true, hlen]
        exact ⟨trivial, rel_push h _ _ (R_of_build hwf hc hg)⟩
  | instRaw c =>
    cases hc : decls[c]? with
    | none =>
      have hc' : s.classes[c]? = none := by rw [hcl]; exact hc
      simp only [step, outOf, push, creates, hc, hc', Option.isSome_none, Bool.false_eq_true, if_false]
      exact ⟨trivial, h⟩
    | some cl =>
      have hc' : s.classes[c]? = some cl := by rw [hcl]; exact hc
      simp only [step, outOf, push, creates, hc, hc', Option.isSome_some, if_true, hlen]
      refine ⟨trivial, rel_push h ⟨c, GMap.empty⟩ ⟨c, none⟩ ⟨rfl, cl, hc, ?_⟩⟩
      intro n; rfl
  | instCtor c args p v =>
    cases hc : decls[c]? with
    | none =>
      have hc' : s.classes[c]? = none := by rw [hcl]; exact hc
      simp only [step, outOf, push, creates, arityOk, hc, hc', Bool.false_and, Bool.false_eq_true, if_false]
      exact ⟨trivial, h⟩
    | some cl =>
      have hc' : s.classes[c]? = some cl := by rw [hcl]; exact hc
      cases hg : buildMap cl.params args GMap.empty with
      | none =>
        have hn := (buildMap_none_iff _ _ _).mp hg
        simp only [step, outOf, push, creates, arityOk, hc, hc', hg, hn, decide_false, Bool.false_and,
          if_false, Bool.false_eq_true]
        exact ⟨trivial, h⟩
      | some g =>
        have hy := (buildMap_some_iff cl.params args GMap.empty).mp ⟨g, hg⟩
        have hrel' := rel_push h ⟨c, g⟩ ⟨c, some args⟩ (R_of_build hwf hc hg)
        have hw := writeOut_eq hrel' s.insts.length p v
        rw [hlen, writeOut_last] at hw
        cases ha : accepts decls ⟨c, some args⟩ p v with
        | false =>
          rw [ha] at hw; simp only [Bool.false_eq_true, if_false] at hw
          simp only [step, outOf, push, creates, arityOk, hc, hc', hg, hy, decide_true, Bool.true_and,
            if_true, ha, hlen, hw, Bool.false_eq_true, if_false]
          exact ⟨trivial, h⟩
        | true =>
          rw [ha] at hw; simp only [if_true] at hw
          simp only [step, outOf, push, creates, arityOk, hc, hc', hg, hy, decide_true, Bool.true_and,
            if_true, ha, hlen, hw]
          exact ⟨trivial, hrel'⟩
  | write i p v =>
    simp only [step, outOf, push, creates]
    exact ⟨writeOut_eq h i p v, h⟩
  | read i p =>
    cases ho : s.insts[i]? with
    | none =>
      have : ¬ i < objs.length := by
        rw [← hlen]; exact Nat.not_lt.mpr (List.getElem?_eq_none_iff.mp ho)
      simp only [step, outOf, push, creates, ho, this, if_false]; exact ⟨trivial, h⟩
    | some o =>
      have : i < objs.length := by
        rw [← hlen]; exact (List.getElem?_eq_some_iff.mp ho).1
      simp only [step, outOf, push, creates, ho, this, if_true]; exact ⟨trivial, h⟩

theorem runFrom_sim {decls : List Class} (hwf : WF decls) (h : List Op) :
    ∀ (s : State) (objs : List Creation), Rel decls s objs →
      (Model.Gen.runFrom s h).2 = Spec.Gen.runFrom decls objs h ∧
      Rel decls (Model.Gen.runFrom s h).1 (objs ++ created decls h) := by
  induction h with
  | nil => intro s objs hr; simp [Model.Gen.runFrom, Spec.Gen.runFrom, created, hr]
  | cons o os ih =>
    intro s objs hr
    obtain ⟨h1, h2⟩ := step_sim hwf hr o
    obtain ⟨h3, h4⟩ := ih (step s o).1 (push decls objs o) h2
    simp only [Model.Gen.runFrom, Spec.Gen.runFrom]
    refine ⟨by rw [h1]; exact congrArg _ h3, ?_⟩
    have : push decls objs o ++ created decls os = objs ++ created decls (o :: os) := by
      unfold push created
      cases hcr : creates decls o <;> simp [hcr]
    rw [← this]; exact h4

end Proofs.Gen
