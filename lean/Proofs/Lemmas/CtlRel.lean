import Proofs.Lemmas.CtlBasic
/-! The simulation relation `Rel` between a reference state (`Spec.Ctl.St`: locals and static
cells by *name*) and a model state (`Model.Ctl.MSt`: a slot vector indexed by the parser's
variable table, static cells by *slot index*), and the relations on results built on it. -/
namespace Proofs.Ctl
open Spec.Ctl Model.Ctl

/-- static cells agree: the cell the model keeps under (function, slot index of `x`) is the cell
the reference semantics keeps under (function, `x`) -/
def SRel (funs : List FunDecl) (ss : Statics) (ms : List ((FName × Nat) × Val)) : Prop :=
  ∀ g d, lookupFun funs g = some d → ∀ x ∈ funScope d,
    aget ms (g, idx (funScope d) x) = aget ss (g, x)

/-- the code being run belongs to the main program or to a declared function whose variable
table is `sc` -/
def CtxOK (funs : List FunDecl) (sc : List Var) (cur : Cur) : Prop :=
  ∀ g sv, cur = some (g, sv) → ∃ d, lookupFun funs g = some d ∧ sv = d.svars ∧ sc = funScope d

def isStatic (cur : Cur) (x : Var) : Prop := ∃ g sv, cur = some (g, sv) ∧ x ∈ sv

structure Rel (funs : List FunDecl) (sc : List Var) (cur : Cur) (s : St) (m : MSt) : Prop where
  out : m.out = s.out
  len : m.fr.slots.length = sc.length
  fn : m.fr.fn = cur.map (·.1)
  bound : ∀ x ∈ sc, (idx sc x ∈ m.fr.bound ↔ isStatic cur x)
  locals : ∀ x ∈ sc, ¬ isStatic cur x → m.fr.slots[idx sc x]? = some ((aget s.env x).getD .null)
  statics : SRel funs s.statics m.statics

theorem rel_read {funs sc cur s m} (h : Rel funs sc cur s m) (hc : CtxOK funs sc cur) {x : Var} (hx : x ∈ sc) :
    m.getSlot (idx sc x) = some (s.rd cur x) := by
  unfold MSt.getSlot St.rd
  rw [h.fn]
  cases cur with
  | none =>
    simp only [Option.map]
    exact h.locals x hx (by rintro ⟨g, sv, e, _⟩; cases e)
  | some gs =>
    obtain ⟨g, sv⟩ := gs
    simp only [Option.map]
    obtain ⟨d, hd, hsv, hsc⟩ := hc g sv rfl
    by_cases hs : x ∈ sv
    · have hb : idx sc x ∈ m.fr.bound := (h.bound x hx).mpr ⟨g, sv, rfl, hs⟩
      simp only [hb, if_true, hs]
      have := h.statics g d hd x (hsc ▸ hx)
      rw [← hsc] at this
      rw [this]
    · have hb : ¬ idx sc x ∈ m.fr.bound := fun hb => by
        obtain ⟨g', sv', e, hm⟩ := (h.bound x hx).mp hb
        cases e
        exact hs hm
      simp only [hb, if_false, hs]
      exact h.locals x hx (by rintro ⟨g', sv', e, hm⟩; cases e; exact hs hm)

theorem srel_aset {funs ss ms} (h : SRel funs ss ms) {g d} (hd : lookupFun funs g = some d) {x : Var}
    (hx : x ∈ funScope d) (v : Val) :
    SRel funs (aset ss (g, x) v) (aset ms (g, idx (funScope d) x) v) := by
  intro g' d' hd' y hy
  rw [aget_aset, aget_aset]
  by_cases hg : g' = g
  · subst hg
    rw [hd] at hd'
    cases hd'
    by_cases hyx : y = x
    · subst hyx
      simp
    · have : idx (funScope d) y ≠ idx (funScope d) x := fun e => hyx (idx_inj hy hx e)
      simp [hyx, this]
      exact h g' d hd y hy
  · have h1 : ¬ ((g', idx (funScope d') y) = (g, idx (funScope d) x)) := by
      intro e; exact hg (Prod.mk.inj e).1
    have h2 : ¬ ((g', y) = (g, x)) := by
      intro e; exact hg (Prod.mk.inj e).1
    simp only [h1, h2, if_false]
    exact h g' d' hd' y hy

theorem rel_write {funs sc cur s m} (h : Rel funs sc cur s m) (hc : CtxOK funs sc cur) {x : Var} (hx : x ∈ sc)
    (v : Val) : ∃ m', m.setSlot (idx sc x) v = some m' ∧ Rel funs sc cur (s.wr cur x v) m' := by
  unfold MSt.setSlot St.wr
  rw [h.fn]
  have hlt : idx sc x < m.fr.slots.length := by rw [h.len]; exact idx_lt hx
  cases cur with
  | none =>
    simp only [Option.map, hlt, if_true]
    refine ⟨_, rfl, ?_⟩
    refine ⟨h.out, by simp [h.len], h.fn, ?_, ?_, h.statics⟩
    · intro y hy; exact h.bound y hy
    · intro y hy hns
      simp only []
      rw [List.getElem?_set, aget_aset]
      by_cases e : y = x
      · subst e; simp [hlt]
      · have : idx sc x ≠ idx sc y := fun e' => e (idx_inj hy hx e'.symm)
        simp [this, e]
        exact h.locals y hy hns
  | some gs =>
    obtain ⟨g, sv⟩ := gs
    simp only [Option.map]
    obtain ⟨d, hd, hsv, hsc⟩ := hc g sv rfl
    by_cases hs : x ∈ sv
    · have hb : idx sc x ∈ m.fr.bound := (h.bound x hx).mpr ⟨g, sv, rfl, hs⟩
      simp only [hb, if_true, hs]
      refine ⟨_, rfl, ?_⟩
      refine ⟨h.out, h.len, h.fn, h.bound, h.locals, ?_⟩
      simp only []
      rw [hsc]
      exact srel_aset h.statics hd (hsc ▸ hx) v
    · have hb : ¬ idx sc x ∈ m.fr.bound := fun hb => by
        obtain ⟨g', sv', e, hm⟩ := (h.bound x hx).mp hb
        cases e
        exact hs hm
      simp only [hb, if_false, hs, hlt, if_true]
      refine ⟨_, rfl, ?_⟩
      refine ⟨h.out, by simp [h.len], h.fn, ?_, ?_, h.statics⟩
      · intro y hy; exact h.bound y hy
      · intro y hy hns
        simp only []
        rw [List.getElem?_set, aget_aset]
        by_cases e : y = x
        · subst e; simp [hlt]
        · have : idx sc x ≠ idx sc y := fun e' => e (idx_inj hy hx e'.symm)
          simp [this, e]
          exact h.locals y hy hns

theorem rel_echo {funs sc cur s m} (h : Rel funs sc cur s m) (v : Val) :
    Rel funs sc cur (s.echo v) (m.echo v) := by
  refine ⟨?_, h.len, h.fn, h.bound, h.locals, h.statics⟩
  simp [St.echo, MSt.echo, h.out]

/-! ### relations on results -/

/-- a reference result and a model result agree (the reference running out of fuel agrees
with anything: the theorem is about runs the reference semantics completes) -/
def RelR {α β : Type} (funs : List FunDecl) (sc : List Var) (cur : Cur) (Q : α → β → Prop) :
    Res α → MRes β → Prop
  | .ok a s, .ok b m => Q a b ∧ Rel funs sc cur s m
  | .err s, .ctl .thr m => Rel funs sc cur s m
  | .timeout, _ => True
  | _, _ => False

/-- values: equal -/
abbrev RelV (funs : List FunDecl) (sc : List Var) (cur : Cur) : Res Val → MRes Val → Prop :=
  RelR funs sc cur (fun a b => a = b)

/-- statement outcomes: `normal` ↔ a value and no control; `brk 1` ↔ a Break of any level;
`cont 1` ↔ Continue; `ret v` ↔ Return v; error ↔ Throw. Higher levels have no counterpart. -/
def RelO (funs : List FunDecl) (sc : List Var) (cur : Cur) : Res Out → MRes Val → Prop
  | .ok .normal s, .ok _ m => Rel funs sc cur s m
  | .ok (.brk 1) s, .ctl (.brk _) m => Rel funs sc cur s m
  | .ok (.cont 1) s, .ctl .cont m => Rel funs sc cur s m
  | .ok (.ret v) s, .ctl (.ret v') m => v = v' ∧ Rel funs sc cur s m
  | .err s, .ctl .thr m => Rel funs sc cur s m
  | .timeout, _ => True
  | _, _ => False

theorem relR_timeout {α β : Type} {funs sc cur} {Q : α → β → Prop} (mr : MRes β) :
    RelR funs sc cur Q .timeout mr := by
  cases mr <;> exact True.intro

theorem relO_timeout {funs sc cur} (mr : MRes Val) : RelO funs sc cur .timeout mr := by
  unfold RelO; cases mr <;> simp

theorem relR_bind {α β α' β' : Type} {funs sc cur} {Q : α → β → Prop} {Q' : α' → β' → Prop}
    {r : Res α} {mr : MRes β} {k : α → St → Res α'} {k' : β → MSt → MRes β'}
    (h : RelR funs sc cur Q r mr)
    (hk : ∀ a b s m, Q a b → Rel funs sc cur s m → RelR funs sc cur Q' (k a s) (k' b m)) :
    RelR funs sc cur Q' (r.bind k) (mr.bind k') := by
  cases r with
  | timeout => exact relR_timeout _
  | ok a s =>
    cases mr with
    | ok b m => exact hk _ _ _ _ h.1 h.2
    | ctl c m => exact h.elim
    | timeout => exact h.elim
  | err s =>
    cases mr with
    | ok b m => exact h.elim
    | ctl c m =>
      cases c <;> first | exact h.elim | exact h
    | timeout => exact h.elim

theorem relRO_bind {α β : Type} {funs sc cur} {Q : α → β → Prop}
    {r : Res α} {mr : MRes β} {k : α → St → Res Out} {k' : β → MSt → MRes Val}
    (h : RelR funs sc cur Q r mr)
    (hk : ∀ a b s m, Q a b → Rel funs sc cur s m → RelO funs sc cur (k a s) (k' b m)) :
    RelO funs sc cur (r.bind k) (mr.bind k') := by
  cases r with
  | timeout => exact relO_timeout _
  | ok a s =>
    cases mr with
    | ok b m => exact hk _ _ _ _ h.1 h.2
    | ctl c m => exact h.elim
    | timeout => exact h.elim
  | err s =>
    cases mr with
    | ok b m => exact h.elim
    | ctl c m =>
      cases c <;> first | exact h.elim | (simp only [Res.bind, MRes.bind, RelO]; exact h)
    | timeout => exact h.elim

theorem relR_map_left {α β α' : Type} {funs sc cur} {Q : α → β → Prop} {Q' : α' → β → Prop}
    {r : Res α} {mr : MRes β} (g : α → α') (h : RelR funs sc cur Q r mr)
    (hq : ∀ a b, Q a b → Q' (g a) b) :
    RelR funs sc cur Q' (r.bind fun a s => .ok (g a) s) mr := by
  cases r with
  | timeout => exact relR_timeout _
  | ok a s =>
    cases mr with
    | ok b m => exact ⟨hq _ _ h.1, h.2⟩
    | ctl c m => exact h.elim
    | timeout => exact h.elim
  | err s =>
    cases mr with
    | ok b m => exact h.elim
    | ctl c m => cases c <;> first | exact h.elim | exact h
    | timeout => exact h.elim

end Proofs.Ctl
