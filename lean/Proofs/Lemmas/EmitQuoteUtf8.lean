import Model.EmitQuote
/-! UTF-8 and hex lemmas for `Model.EmitQuote`. -/
namespace Proofs.EmitQuote
open Model.EmitQuote

theorem hexVal_hexDigit (n : Nat) (h : n < 16) : hexVal (hexDigit n) = some n := by
  unfold hexDigit hexVal
  by_cases h10 : n < 10
  · rw [if_pos h10, if_pos (by omega)]; congr 1; omega
  · rw [if_neg h10, if_neg (by omega), if_pos (by omega)]; congr 1; omega

theorem hexDigit_ge (n : Nat) : 48 ≤ hexDigit n := by
  unfold hexDigit; split <;> omega

theorem ten_ne_hexDigit (n : Nat) : ¬ (10 = hexDigit n) := by have := hexDigit_ge n; omega
theorem hexDigit_ne_ten (n : Nat) : ¬ (hexDigit n = 10) := by have := hexDigit_ge n; omega

theorem hexN_hex2 (b : Nat) (h : b < 256) : hexN 0 (hex2 b) = some b := by
  simp only [hex2, hexN, hexVal_hexDigit (b / 16) (by omega), hexVal_hexDigit (b % 16) (by omega)]
  congr 1; omega

theorem hexN_hex4 (c : Nat) (h : c < 65536) : hexN 0 (hex4 c) = some c := by
  simp only [hex4, hexN, hexVal_hexDigit (c / 4096 % 16) (by omega), hexVal_hexDigit (c / 256 % 16) (by omega),
    hexVal_hexDigit (c / 16 % 16) (by omega), hexVal_hexDigit (c % 16) (by omega)]
  congr 1; omega

theorem hexN_hex8 (c : Nat) (h : c < 4294967296) : hexN 0 (hex8 c) = some c := by
  simp only [hex8, hex4, hexN, List.cons_append, List.nil_append,
    hexVal_hexDigit (c / 268435456 % 16) (by omega), hexVal_hexDigit (c / 16777216 % 16) (by omega),
    hexVal_hexDigit (c / 1048576 % 16) (by omega), hexVal_hexDigit (c / 65536 % 16) (by omega),
    hexVal_hexDigit (c / 4096 % 16) (by omega), hexVal_hexDigit (c / 256 % 16) (by omega),
    hexVal_hexDigit (c / 16 % 16) (by omega), hexVal_hexDigit (c % 16) (by omega)]
  congr 1; omega

theorem decodeRune_cons (b : Nat) (r : Bytes) : decodeRune (b :: r) = decodeCons b r := rfl

/-- what `decodeRune` accepts as a multi-byte rune is the encoding of that rune, a valid one -/
theorem decode_rune (s : Bytes) (cp w : Nat) (h : decodeRune s = .rune cp w) :
    encodeRune cp = s.take w ∧ validCp cp ∧ 0x80 ≤ cp ∧ cp ≤ 0x10FFFF ∧ 2 ≤ w ∧ w ≤ s.length ∧
    (∀ t, decodeRune (s.take w ++ t) = .rune cp w) ∧ (∃ b0 r, s = b0 :: r ∧ 0xC2 ≤ b0) := by
  match s, h with
  | [], h => simp [decodeRune] at h
  | b0 :: rest, h =>
    rw [decodeRune_cons] at h
    unfold decodeCons at h
    by_cases hlo : b0 < 0x80
    · rw [if_pos hlo] at h; cases h
    rw [if_neg hlo] at h
    by_cases h2 : 0xC2 ≤ b0 ∧ b0 ≤ 0xDF
    · -- two bytes
      rw [if_pos h2] at h
      match rest, h with
      | [], h => first | cases h | simp at h
      | b1 :: r1, h =>
        try simp only at h
        by_cases hc : isCont b1
        · rw [if_pos hc] at h
          unfold isCont at hc
          injection h with hcp hw
          subst hw; subst hcp
          refine ⟨?_, ?_, by omega, by omega, by omega, by simp, ?_, ⟨b0, _, rfl, by omega⟩⟩
          · unfold encodeRune
            rw [if_neg (by omega), if_pos (by omega)]
            simp only [List.take_succ_cons, List.take_zero]
            simp only [List.cons.injEq, and_true]
            refine ⟨by omega, by omega⟩
          · unfold validCp; omega
          · intro t
            simp only [List.take_succ_cons, List.take_zero, List.cons_append, List.nil_append]
            rw [decodeRune_cons]
            unfold decodeCons
            rw [if_neg hlo, if_pos h2]
            simp only
            rw [if_pos (by unfold isCont; exact hc)]
        · rw [if_neg hc] at h; cases h
    rw [if_neg h2] at h
    by_cases h3 : 0xE0 ≤ b0 ∧ b0 ≤ 0xEF
    · -- three bytes
      rw [if_pos h3] at h
      match rest, h with
      | [], h => first | cases h | simp at h
      | [_], h => first | cases h | simp at h
      | b1 :: b2 :: r2, h =>
        try simp only at h
        by_cases hc : second3 b0 b1 ∧ isCont b2
        · rw [if_pos hc] at h
          obtain ⟨hs, hc2⟩ := hc
          unfold second3 at hs
          unfold isCont at hc2
          injection h with hcp hw
          subst hw; subst hcp
          have hb1 : 0x80 ≤ b1 ∧ b1 ≤ 0xBF := by
            constructor
            · have := hs.1; split at this <;> omega
            · have := hs.2; split at this <;> omega
          have hge : 0x800 ≤ (b0 - 0xE0) * 4096 + (b1 - 0x80) * 64 + (b2 - 0x80) := by
            have := hs.1; split at this <;> omega
          refine ⟨?_, ?_, by omega, by omega, by omega, by simp, ?_, ⟨b0, _, rfl, by omega⟩⟩
          · unfold encodeRune
            rw [if_neg (by omega), if_neg (by omega), if_pos (by omega)]
            simp only [List.take_succ_cons, List.take_zero]
            simp only [List.cons.injEq, and_true]
            refine ⟨by omega, by omega, by omega⟩
          · unfold validCp
            have := hs.2
            split at this
            · left; omega
            · by_cases hb : b0 ≤ 0xEC
              · left; omega
              · right; omega
          · intro t
            simp only [List.take_succ_cons, List.take_zero, List.cons_append, List.nil_append]
            rw [decodeRune_cons]
            unfold decodeCons
            rw [if_neg hlo, if_neg h2, if_pos h3]
            simp only
            rw [if_pos ⟨by unfold second3; exact hs, by unfold isCont; exact hc2⟩]
        · rw [if_neg hc] at h; cases h
    rw [if_neg h3] at h
    by_cases h4 : 0xF0 ≤ b0 ∧ b0 ≤ 0xF4
    · -- four bytes
      rw [if_pos h4] at h
      match rest, h with
      | [], h => first | cases h | simp at h
      | [_], h => first | cases h | simp at h
      | [_, _], h => first | cases h | simp at h
      | b1 :: b2 :: b3 :: r3, h =>
        try simp only at h
        by_cases hc : second4 b0 b1 ∧ isCont b2 ∧ isCont b3
        · rw [if_pos hc] at h
          obtain ⟨hs, hc2, hc3⟩ := hc
          unfold second4 at hs
          unfold isCont at hc2 hc3
          injection h with hcp hw
          subst hw; subst hcp
          have hb1 : 0x80 ≤ b1 ∧ b1 ≤ 0xBF := by
            constructor
            · have := hs.1; split at this <;> omega
            · have := hs.2; split at this <;> omega
          have hge : 0x10000 ≤ (b0 - 0xF0) * 262144 + (b1 - 0x80) * 4096 + (b2 - 0x80) * 64 + (b3 - 0x80) := by
            have := hs.1; split at this <;> omega
          have hle : (b0 - 0xF0) * 262144 + (b1 - 0x80) * 4096 + (b2 - 0x80) * 64 + (b3 - 0x80) ≤ 0x10FFFF := by
            have := hs.2; split at this <;> omega
          refine ⟨?_, ?_, by omega, hle, by omega, by simp, ?_, ⟨b0, _, rfl, by omega⟩⟩
          · unfold encodeRune
            rw [if_neg (by omega), if_neg (by omega), if_neg (by omega)]
            simp only [List.take_succ_cons, List.take_zero]
            simp only [List.cons.injEq, and_true]
            refine ⟨by omega, by omega, by omega, by omega⟩
          · unfold validCp; right; omega
          · intro t
            simp only [List.take_succ_cons, List.take_zero, List.cons_append, List.nil_append]
            rw [decodeRune_cons]
            unfold decodeCons
            rw [if_neg hlo, if_neg h2, if_neg h3, if_pos h4]
            simp only
            rw [if_pos ⟨by unfold second4; exact hs, by unfold isCont; exact hc2, by unfold isCont; exact hc3⟩]
        · rw [if_neg hc] at h; cases h
    · rw [if_neg h4] at h; cases h

theorem encodeRune_ge (c : Nat) (h : 0x80 ≤ c) : ∀ b ∈ encodeRune c, 0x80 ≤ b := by
  intro b hb
  unfold encodeRune at hb
  split at hb
  · omega
  split at hb
  · simp at hb; omega
  split at hb
  · simp at hb; omega
  · simp at hb; omega

end Proofs.EmitQuote
