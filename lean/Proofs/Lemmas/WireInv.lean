import Proofs.Lemmas.WireTotal
/-! Invariants of the parser by induction on fuel: fuel is never exhausted when it
exceeds the input length, a group consumes input, nesting never exceeds the limit. -/
namespace Proofs.Wire
open Model.Wire Spec.Wire

def nestV : V → Nat
  | .leaf _ => 0
  | .sub _ kids => 1 + nest kids

theorem nest_cons (num : Nat) (v : V) (rest : FT) :
    nest (FT.cons num v rest) = Nat.max (nestV v) (nest rest) := by
  cases v <;> simp [FT.cons, nest, nestV]

/-- what is known about the two recursive callbacks at fuel `f` -/
structure Good (o : Opts) (rf : Bytes → Nat → Except Err FT)
    (rg : Bytes → Nat → Nat → Except Err (FT × Bytes)) (f : Nat) : Prop where
  fF : ∀ p d, p.length < f → rf p d ≠ .error .fuel
  fG : ∀ p g d, p.length < f → rg p g d ≠ .error .fuel
  lG : ∀ p g d t r, p.length < f → rg p g d = .ok (t, r) → r.length < p.length
  dF : ∀ p d t, p.length < f → rf p d = .ok t → d ≤ o.max → d + nest t ≤ o.max
  dG : ∀ p g d t r, p.length < f → rg p g d = .ok (t, r) → d < o.max → d + 1 + nest t ≤ o.max

theorem okV_cases {r : Option (Nat × Bytes)} {e : Err} {mk : Nat → Leaf} {data : Bytes}
    (hlt : ∀ v rest, r = some (v, rest) → rest.length < data.length) (he : e ≠ .fuel) :
    okV r e mk ≠ .error .fuel ∧
    ∀ v rest, okV r e mk = .ok (v, rest) → rest.length ≤ data.length ∧ nestV v = 0 := by
  cases r with
  | none =>
    refine ⟨?_, ?_⟩
    · simp only [okV]; intro h; injection h with h; exact he h
    · intro v rest h; simp [okV] at h
  | some p =>
    obtain ⟨x, r'⟩ := p
    refine ⟨by simp [okV], ?_⟩
    intro v rest h
    simp only [okV, Except.ok.injEq, Prod.mk.injEq] at h
    have := hlt x r' rfl
    rw [← h.1, ← h.2]
    exact ⟨by omega, rfl⟩

theorem value_inv (o : Opts) (rf : Bytes → Nat → Except Err FT)
    (rg : Bytes → Nat → Nat → Except Err (FT × Bytes)) (f : Nat) (G : Good o rf rg f)
    (num wt : Nat) (data : Bytes) (e : Nat) (hlen : data.length < f) :
    valueWith o rf rg num wt data e ≠ .error .fuel ∧
    ∀ v rest, valueWith o rf rg num wt data e = .ok (v, rest) →
      rest.length ≤ data.length ∧ (nestV v = 0 ∨ e + nestV v ≤ o.max) := by
  unfold valueWith
  split
  · have := okV_cases (r := consumeVarint data) (e := .varint) (mk := .varint) (data := data)
      (fun v rest h => consumeVarint_lt h) (by decide)
    exact ⟨this.1, fun v rest h => ⟨(this.2 v rest h).1, Or.inl (this.2 v rest h).2⟩⟩
  split
  · have := okV_cases (r := consumeFixed64 data) (e := .fixed64) (mk := .fixed64) (data := data)
      (fun v rest h => consumeFixed64_lt h) (by decide)
    exact ⟨this.1, fun v rest h => ⟨(this.2 v rest h).1, Or.inl (this.2 v rest h).2⟩⟩
  split
  · cases hb : consumeBytes data with
    | none => exact ⟨by simp, by intro v rest h; simp at h⟩
    | some p =>
      obtain ⟨payload, rest0⟩ := p
      have hl := consumeBytes_lt hb
      simp only
      split
      · cases hlk : List.lookup num o.elemType with
        | none => exact ⟨by simp, by intro v rest h; simp at h⟩
        | some et =>
          simp only
          cases hu : unpackPacked et payload with
          | error err =>
            refine ⟨?_, by intro v rest h; simp [packedOf] at h⟩
            simp only [packedOf]
            intro h; injection h with h
            exact unpackPacked_fuel et payload (by rw [hu, h])
          | ok vs =>
            refine ⟨by simp [packedOf], ?_⟩
            intro v rest h
            simp only [packedOf, Except.ok.injEq, Prod.mk.injEq] at h
            rw [← h.1, ← h.2]
            exact ⟨by omega, Or.inl rfl⟩
      · split
        · split
          · exact ⟨by simp, by intro v rest h; simp at h⟩
          · rename_i hd
            cases hr : rf payload (e + 1) with
            | error err =>
              refine ⟨?_, by intro v rest h; simp [subOf] at h⟩
              simp only [subOf]
              intro h; injection h with h
              exact G.fF payload (e + 1) (by omega) (by rw [hr, h])
            | ok kids =>
              refine ⟨by simp [subOf], ?_⟩
              intro v rest h
              simp only [subOf, Except.ok.injEq, Prod.mk.injEq] at h
              rw [← h.1, ← h.2]
              have := G.dF payload (e + 1) kids (by omega) hr (by omega)
              exact ⟨by omega, Or.inr (by simp only [nestV]; omega)⟩
        · refine ⟨by simp, ?_⟩
          intro v rest h
          simp only [Except.ok.injEq, Prod.mk.injEq] at h
          rw [← h.1, ← h.2]
          exact ⟨by omega, Or.inl rfl⟩
  split
  · split
    · exact ⟨by simp, by intro v rest h; simp at h⟩
    · rename_i hd
      cases hr : rg data num e with
      | error err =>
        refine ⟨?_, by intro v rest h; simp [subOfG] at h⟩
        simp only [subOfG]
        intro h; injection h with h
        exact G.fG data num e hlen (by rw [hr, h])
      | ok p =>
        obtain ⟨kids, rest0⟩ := p
        refine ⟨by simp [subOfG], ?_⟩
        intro v rest h
        simp only [subOfG, Except.ok.injEq, Prod.mk.injEq] at h
        rw [← h.1, ← h.2]
        have h1 := G.lG data num e kids rest0 hlen hr
        have h2 := G.dG data num e kids rest0 hlen hr (by omega)
        exact ⟨by omega, Or.inr (by simp only [nestV]; omega)⟩
  split
  · exact ⟨by simp, by intro v rest h; simp at h⟩
  split
  · have := okV_cases (r := consumeFixed32 data) (e := .fixed32) (mk := .fixed32) (data := data)
      (fun v rest h => consumeFixed32_lt h) (by decide)
    exact ⟨this.1, fun v rest h => ⟨(this.2 v rest h).1, Or.inl (this.2 v rest h).2⟩⟩
  · exact ⟨by simp, by intro v rest h; simp at h⟩

end Proofs.Wire
