import Model.Publish
/-! Lemmas for `Model.Publish`: the object after `n` steps of its registrant, what an observation can lack. -/
namespace Proofs.Publish
open Model.Publish

theorem inits_append (a b : Prog) : inits (a ++ b) = inits a ++ inits b := by
  induction a with
  | nil => rfl
  | cons x r ih => cases x <;> simp [inits, ih]

theorem inits_map_init (l : List String) : inits (l.map .init) = l := by
  induction l with
  | nil => rfl
  | cons x r ih => simp [inits, ih]

theorem inits_take_drop (p : Prog) (n : Nat) : inits (p.take n) ++ inits (p.drop n) = inits p := by
  rw [← inits_append, List.take_append_drop]

/-- `n` steps of the registrant -/
def stepN : Nat → Obj → Obj
  | 0, o => o
  | n + 1, o => stepN n o.step

theorem stepN_eq (n : Nat) (r : Prog) (d : List String) (b : Bool) :
    stepN n ⟨r, d, b⟩ = ⟨r.drop n, d ++ inits (r.take n), b || (r.take n).contains .publish⟩ := by
  induction n generalizing r d b with
  | zero => simp [stepN, inits]
  | succ n ih =>
    cases r with
    | nil => simp [stepN, Obj.step, inits, ih]
    | cons x r =>
      cases x with
      | init f => simp [stepN, Obj.step, inits, ih]
      | publish => simp [stepN, Obj.step, inits, ih]

theorem stepN_succ' (n : Nat) (o : Obj) : stepN (n + 1) o = (stepN n o).step := by
  induction n generalizing o with
  | zero => rfl
  | succ n ih => simp only [stepN] at ih ⊢; rw [ih]

theorem look_stepN (p : Prog) (n : Nat) :
    (stepN n (Obj.start p)).look = if (p.take n).contains .publish then some (inits (p.take n)) else none := by
  simp [Obj.start, stepN_eq, Obj.look]

/-- An object seen after publication lacks at most writes that FOLLOW the publication. -/
theorem seen_lacks_post (p : Prog) (n : Nat) (h : (p.take n).contains .publish = true) :
    ∃ m, inits (p.take n) ++ m = inits p ∧ ∀ x ∈ m, x ∈ postWrites p := by
  induction p generalizing n with
  | nil => exact ⟨[], by simp [inits], by simp⟩
  | cons x r ih =>
    cases n with
    | zero => simp at h
    | succ k =>
      cases x with
      | publish =>
        refine ⟨inits (r.drop k), ?_, ?_⟩
        · simpa [inits] using inits_take_drop r k
        · intro y hy
          have := inits_take_drop r k
          simp only [postWrites, afterPub]
          rw [← this]; exact List.mem_append_right _ hy
      | init f =>
        have h' : (r.take k).contains .publish = true := by simpa using h
        obtain ⟨m, hm, hsub⟩ := ih k h'
        exact ⟨m, by simp [inits, hm], by simpa [postWrites, afterPub] using hsub⟩

/-- Right after the publication step exactly the post-publication writes are missing. -/
theorem at_pubIdx (p : Prog) (h : postWrites p ≠ []) :
    (p.take (pubIdx p)).contains .publish = true ∧ inits (p.take (pubIdx p)) ++ postWrites p = inits p := by
  induction p with
  | nil => simp [postWrites, afterPub, inits] at h
  | cons x r ih =>
    cases x with
    | publish => simp [pubIdx, postWrites, afterPub, inits]
    | init f =>
      have h' : postWrites r ≠ [] := by simpa [postWrites, afterPub] using h
      obtain ⟨h1, h2⟩ := ih h'
      refine ⟨by simpa [pubIdx] using h1, ?_⟩
      simp only [pubIdx, List.take_succ_cons, inits, postWrites, afterPub, List.cons_append]
      simpa [postWrites] using h2

/-! ## The run -/

def regCount (o : Nat) : List Ev → Nat
  | [] => 0
  | .reg k :: r => (if k = o then 1 else 0) + regCount o r
  | .obs _ _ :: r => regCount o r

/-- reachable: every object is its registrant's program after some number of steps, every logged observation
is the `look` of such an object -/
structure Inv (progs : Nat → Prog) (s : State) : Prop where
  objs : ∀ o, ∃ n, s.objs o = stepN n (Obj.start (progs o))
  log : ∀ e ∈ s.log, ∃ n, e.2.2 = (stepN n (Obj.start (progs e.2.1))).look

theorem inv_init (progs : Nat → Prog) : Inv progs (init progs) :=
  ⟨fun _ => ⟨0, rfl⟩, by simp [init]⟩

theorem inv_step (progs : Nat → Prog) (s : State) (h : Inv progs s) (e : Ev) : Inv progs (step s e) := by
  cases e with
  | reg o =>
    refine ⟨fun k => ?_, h.log⟩
    obtain ⟨n, hn⟩ := h.objs k
    by_cases hk : k = o
    · subst hk
      exact ⟨n + 1, by simp [step, stepN_succ', hn]⟩
    · exact ⟨n, by simp [step, hk, hn]⟩
  | obs t o =>
    refine ⟨h.objs, ?_⟩
    intro e he
    simp only [step, List.mem_append, List.mem_singleton] at he
    rcases he with he | he
    · exact h.log e he
    · obtain ⟨n, hn⟩ := h.objs o
      exact ⟨n, by simp [he, hn]⟩

theorem inv_run (progs : Nat → Prog) (s : State) (h : Inv progs s) (sched : List Ev) :
    Inv progs (run s sched) := by
  induction sched generalizing s with
  | nil => exact h
  | cons e r ih => exact ih (step s e) (inv_step progs s h e)

theorem run_regs (s : State) (o n : Nat) :
    (run s (List.replicate n (.reg o))).objs o = stepN n (s.objs o) ∧
    (run s (List.replicate n (.reg o))).log = s.log := by
  induction n generalizing s with
  | zero => simp [run, stepN]
  | succ n ih =>
    have := ih (step s (.reg o))
    simp only [run, List.replicate_succ, List.foldl_cons] at this ⊢
    simpa [stepN, step] using this

end Proofs.Publish
