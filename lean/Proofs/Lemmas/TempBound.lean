import Proofs.Lemmas.Temp
import Model.TempRoutes
/-! C12 helper lemmas: set-based bookkeeping ("no foreign definitions") and the
soundness of the routing predicate. -/
namespace Proofs.Temp
open Model.Temp Spec.Temp

/-- no step of the history takes a leaky route (judged in the state it runs in) -/
def noLeak (d : Disk) : World → List Op → Bool
  | _, [] => true
  | w, op :: ops => !(leaky d w op) && noLeak d (step d w op).1 ops

abbrev NoLeak (d : Disk) (w : World) (ops : List Op) : Prop := noLeak d w ops = true

/-- the definition map of VM `v` for kind `k` -/
def tblOf (w : World) : VMId → Kind → Tbl
  | .base, .cls => w.base.classes
  | .base, .ifc => w.base.ifaces
  | .base, .fn => w.base.funcs
  | .temp i, .cls => (w.temps i).classes
  | .temp i, .ifc => (w.temps i).ifaces
  | .temp i, .fn => (w.temps i).funcs

/-- VM `v` holds an entry for `(k, n)` in its own map -/
def Has (w : World) (v : VMId) (k : Kind) (n : Name) : Prop := ∃ s, (n, s) ∈ tblOf w v k

/-- the own maps of `v` grew at most by `O` -/
def Grows (v : VMId) (O : List (Kind × Name)) (w w' : World) : Prop :=
  ∀ k n, Has w' v k n → Has w v k n ∨ (k, n) ∈ O

/-- the own maps of `v` are unchanged -/
def SameTbl (v : VMId) (w w' : World) : Prop := ∀ k, tblOf w' v k = tblOf w v k

theorem Grows.refl (v : VMId) (O : List (Kind × Name)) (w : World) : Grows v O w w :=
  fun _ _ h => Or.inl h

theorem Grows.trans {v : VMId} {O : List (Kind × Name)} {a b c : World}
    (h₁ : Grows v O a b) (h₂ : Grows v O b c) : Grows v O a c := by
  intro k n h
  rcases h₂ k n h with h | h
  · exact h₁ k n h
  · exact Or.inr h

theorem Grows.mono {v : VMId} {O O' : List (Kind × Name)} {a b : World}
    (h : Grows v O a b) (hs : ∀ x, x ∈ O → x ∈ O') : Grows v O' a b := by
  intro k n hh
  rcases h k n hh with h | h
  · exact Or.inl h
  · exact Or.inr (hs _ h)

theorem Grows.of_same {v : VMId} {O : List (Kind × Name)} {a b : World} (h : SameTbl v a b) :
    Grows v O a b := by
  intro k n hh
  left
  unfold Has at hh ⊢
  rw [h k] at hh
  exact hh

theorem SameTbl.refl (v : VMId) (w : World) : SameTbl v w w := fun _ => rfl

theorem same_of_frame {i : Nat} {w w' : World} (h : Frame i w w') (v : VMId) (hv : v ≠ .temp i) :
    SameTbl v w w' := by
  intro k
  cases v with
  | base => cases k <;> simp [tblOf, h.classes, h.ifaces, h.funcs]
  | temp j =>
    have hj : j ≠ i := fun e => hv (by rw [e])
    cases k <;> simp [tblOf, h.others j hj]

theorem same_of_temps {w w' : World} (h : w'.temps = w.temps) (j : Nat) : SameTbl (.temp j) w w' := by
  intro k
  cases k <;> simp [tblOf, h]

/-! #### primitives -/

theorem same_cacheAdd (v : VMId) (w : World) (f : File) : SameTbl v w (cacheAdd w f) := by
  intro k; cases v <;> cases k <;> rfl

theorem same_throwControl (v : VMId) (w : World) : SameTbl v w (throwControl w) := by
  intro k; cases v <;> cases k <;> rfl

theorem same_bindParser (v v' : VMId) (w : World) : SameTbl v w (bindParser w v') := by
  intro k
  cases v' with
  | base => rfl
  | temp i =>
    cases v with
    | base => cases k <;> rfl
    | temp j =>
      by_cases h : j = i
      · subst h; cases k <;> simp [tblOf, bindParser, World.setTemp]
      · cases k <;> simp [tblOf, bindParser, World.setTemp, h]

theorem grows_base_add (w : World) (k : Kind) (n : Name) (s : Src) :
    Grows .base [(k, n)] w (w.setBase (w.base.add k n s).1) := by
  intro k' n' h
  cases k <;> cases k' <;>
    simp only [Has, tblOf, World.setBase, Base.add, Base.addClass, Base.addInterface, Base.addFunc] at h ⊢ <;>
    (try (repeat' split at h)) <;>
    first
      | exact Or.inl h
      | (obtain ⟨s', hs⟩ := h
         simp only [List.mem_cons, Prod.mk.injEq] at hs
         rcases hs with ⟨rfl, _⟩ | hs
         · exact Or.inr (by simp)
         · exact Or.inl ⟨s', hs⟩)

theorem grows_temp_add (w : World) (i : Nat) (k : Kind) (n : Name) (s : Src) :
    Grows (.temp i) [(k, n)] w (w.setTemp i ((w.temps i).add k n s)) := by
  intro k' n' h
  cases k <;> cases k' <;>
    simp only [Has, tblOf, World.setTemp, Temp.add, if_true] at h ⊢ <;>
    first
      | exact Or.inl h
      | (obtain ⟨s', hs⟩ := h
         simp only [List.mem_cons, Prod.mk.injEq] at hs
         rcases hs with ⟨rfl, _⟩ | hs
         · exact Or.inr (by simp)
         · exact Or.inl ⟨s', hs⟩)

theorem grows_addDef (w : World) (v : VMId) (k : Kind) (n : Name) (s : Src) :
    Grows v [(k, n)] w (addDef w v k n s).1 := by
  cases v with
  | base => exact grows_base_add w k n s
  | temp i => exact grows_temp_add w i k n s

def declPairs (ds : List Decl) : List (Kind × Name) := ds.map (fun dc => (dc.kind, dc.name))

theorem grows_parsePhase (v : VMId) (s : Src) (ds : List Decl) :
    ∀ w, Grows v (declPairs ds) w (parsePhase v s w ds).1 := by
  induction ds with
  | nil => intro w; exact Grows.refl v _ w
  | cons dc ds ih =>
    intro w
    have hsub : ∀ x, x ∈ declPairs ds → x ∈ declPairs (dc :: ds) := by
      intro x hx; simp only [declPairs, List.map_cons, List.mem_cons]; exact Or.inr hx
    have hhead : ∀ x, x ∈ [(dc.kind, dc.name)] → x ∈ declPairs (dc :: ds) := by
      intro x hx; simp only [List.mem_singleton] at hx; subst hx
      simp [declPairs]
    unfold parsePhase
    split
    · exact (ih w).mono hsub
    · dsimp only
      have h1 := (grows_addDef w v dc.kind dc.name s).mono hhead
      split
      · exact h1.trans ((ih _).mono hsub)
      · exact h1

theorem grows_runPhase (v : VMId) (s : Src) (ds : List Decl) :
    ∀ w, Grows v (declPairs ds) w (runPhase v s w ds) := by
  induction ds with
  | nil => intro w; exact Grows.refl v _ w
  | cons dc ds ih =>
    intro w
    have hsub : ∀ x, x ∈ declPairs ds → x ∈ declPairs (dc :: ds) := by
      intro x hx; simp only [declPairs, List.map_cons, List.mem_cons]; exact Or.inr hx
    unfold runPhase
    split
    · rename_i hk
      have hhead : ∀ x, x ∈ [(Kind.fn, dc.name)] → x ∈ declPairs (dc :: ds) := by
        intro x hx; simp only [List.mem_singleton] at hx; subst hx
        simp [declPairs, ← hk]
      dsimp only
      have h1 := (grows_addDef w v .fn dc.name s).mono hhead
      split
      · exact h1.trans ((ih _).mono hsub)
      · exact h1.trans (Grows.of_same (same_throwControl v _))
    · exact (ih w).mono hsub

theorem declsOf_eq (d : Disk) (f : File) (ds : List Decl) (h : d.content f = some ds) :
    declsOf d f = declPairs ds := by
  simp [declsOf, h, declPairs]

theorem grows_parseAndRun (d : Disk) (w : World) (v : VMId) (f : File) :
    Grows v (declsOf d f) w (parseAndRun d w v f).1 := by
  unfold parseAndRun
  split
  · exact Grows.refl v _ w
  · rename_i ds hc
    rw [declsOf_eq d f ds hc]
    dsimp only
    have h1 := grows_parsePhase v (.file f) ds w
    split
    · exact h1.trans (grows_runPhase v (.file f) ds _)
    · exact h1

theorem grows_loadAndRun (d : Disk) (w : World) (v : VMId) (f : File) :
    Grows v (declsOf d f) w (loadAndRun d w v f).1 := by
  unfold loadAndRun
  split
  · exact Grows.refl v _ w
  · exact ((Grows.of_same (same_cacheAdd v w f)).trans (Grows.of_same (same_bindParser v v _))).trans
      (grows_parseAndRun d _ v f)

theorem grows_parseFile (d : Disk) (w : World) (v : VMId) (f : File) :
    Grows v (declsOf d f) w (parseFile d w v f).1 :=
  (Grows.of_same (same_bindParser v v w)).trans (grows_parseAndRun d _ v f)

theorem same_setBase_shared (v : VMId) (w : World) (b : Base) (hc : b.classes = w.base.classes)
    (hi : b.ifaces = w.base.ifaces) (hf : b.funcs = w.base.funcs) : SameTbl v w (w.setBase b) := by
  intro k
  cases v <;> cases k <;> simp [tblOf, World.setBase, hc, hi, hf]

theorem grows_includeFile (d : Disk) (w : World) (v : VMId) (f : File) :
    Grows v (declsOf d f) w (includeFile d w v f).1 := by
  unfold includeFile
  split
  · exact Grows.refl v _ w
  · split
    · exact Grows.refl v _ w
    · exact grows_loadAndRun d w v f

/-- what the autoload callbacks can define for `n` -/
def cbOffers (d : Disk) (n : Name) : List (Kind × Name) :=
  d.cbs.flatMap (fun a => match a n with | some f => declsOf d f | none => [])

theorem cbFile_offers (d : Disk) (cb : Nat) (n : Name) (f : File) (h : cbFile d cb n = some f) :
    ∀ x, x ∈ declsOf d f → x ∈ cbOffers d n := by
  intro x hx
  unfold cbFile at h
  split at h
  · rename_i a ha
    have hm : a ∈ d.cbs := List.mem_of_getElem? ha
    simp only [cbOffers, List.mem_flatMap]
    exact ⟨a, hm, by rw [h]; exact hx⟩
  · cases h

theorem grows_runCallback (d : Disk) (w : World) (v : VMId) (cb : Nat) (n : Name) :
    Grows v (cbOffers d n) w (runCallback d w v cb n).1 := by
  unfold runCallback
  split
  · rename_i f hf
    exact (grows_includeFile d w v f).mono (cbFile_offers d cb n f hf)
  · exact Grows.refl v _ w

theorem grows_callAutoLoad (d : Disk) (v : VMId) (n : Name) (cbs : List Nat) :
    ∀ w, Grows v (cbOffers d n) w (callAutoLoad d v n w cbs).1 := by
  induction cbs with
  | nil => intro w; exact Grows.refl v _ w
  | cons cb cbs ih =>
    intro w
    unfold callAutoLoad
    have h1 := grows_runCallback d w v cb n
    dsimp only
    split
    · exact h1
    · split
      · exact h1
      · exact h1.trans (ih _)

theorem grows_loadClass (d : Disk) (w : World) (v : VMId) (n : Name) :
    Grows v (autoOffers d n) w (loadClass d w v n).1 := by
  unfold loadClass autoOffers
  cases hf : d.find n with
  | none => exact grows_callAutoLoad d v n _ w
  | some f =>
    dsimp only
    split
    · exact Grows.refl v _ w
    · have h := grows_loadAndRun d w v f
      split <;> exact h

theorem grows_baseGetOrLoadClass (d : Disk) (w : World) (n : Name) :
    Grows .base (autoOffers d n) w (baseGetOrLoadClass d w n).1 := by
  unfold baseGetOrLoadClass
  split
  · exact Grows.refl _ _ w
  · dsimp only; split <;> exact grows_loadClass d w .base n

theorem grows_baseGetOrLoadInterface (d : Disk) (w : World) (n : Name) :
    Grows .base (autoOffers d n) w (baseGetOrLoadInterface d w n).1 := by
  unfold baseGetOrLoadInterface
  split
  · exact Grows.refl _ _ w
  · dsimp only; split <;> exact grows_loadClass d w .base n

theorem grows_baseLoadPkg (d : Disk) (w : World) (n : Name) :
    Grows .base (autoOffers d n) w (baseLoadPkg d w n).1 := by
  unfold baseLoadPkg
  split
  · exact Grows.refl _ _ w
  · dsimp only; split <;> exact grows_loadClass d w .base n

theorem grows_tempGetOrLoadClass (d : Disk) (w : World) (i : Nat) (n : Name) :
    Grows (.temp i) (autoOffers d n) w (tempGetOrLoadClass d w i n).1 := by
  unfold tempGetOrLoadClass
  split
  · exact Grows.refl _ _ w
  · split
    · exact Grows.refl _ _ w
    · split
      · exact Grows.refl _ _ w
      · dsimp only; split <;> exact grows_loadClass d w (.temp i) n

/-- a non-leaky `GetOrLoadInterface` / `LoadPkg` on a TempVM changes nothing at all -/
theorem tempGetOrLoadInterface_noleak (d : Disk) (w : World) (i : Nat) (n : Name)
    (hl : leaky d w (.getOrLoadInterface (.temp i) n) = false) :
    (tempGetOrLoadInterface d w i n).1 = w := by
  unfold tempGetOrLoadInterface
  split
  · rfl
  · rename_i hloc
    unfold baseGetOrLoadInterface
    split
    · rfl
    · rename_i hbase
      have hf : canAutoload d w n = false := by
        simp [leaky, hloc, hbase] at hl
        exact hl
      obtain ⟨h1, h2⟩ := canAutoload_false hf
      rw [loadClass_noop d w .base n h1 h2]
      rfl

theorem tempLoadPkg_noleak (d : Disk) (w : World) (i : Nat) (n : Name)
    (hl : leaky d w (.loadPkg (.temp i) n) = false) :
    (tempLoadPkg d w i n).1 = w := by
  unfold tempLoadPkg
  split
  · rfl
  · rename_i hloc
    unfold baseLoadPkg
    split
    · rfl
    · rename_i hbase
      have hf : canAutoload d w n = false := by
        simp [leaky, hloc, hbase] at hl
        exact hl
      obtain ⟨h1, h2⟩ := canAutoload_false hf
      rw [loadClass_noop d w .base n h1 h2]
      rfl

/-! #### script routes -/

theorem grows_scriptEval (d : Disk) (w : World) (v : VMId) (u : File) (id : Nat) :
    Grows v (declsOf d u) w (scriptEval d w v u id) := by
  unfold scriptEval
  have hb : Grows v (declsOf d u) w (bindParser w v) := Grows.of_same (same_bindParser v v w)
  dsimp only
  cases v with
  | temp i => exact hb.trans (Grows.of_same (same_throwControl _ _))
  | base =>
    dsimp only
    split
    · exact hb
    · rename_i ds hc
      rw [declsOf_eq d u ds hc]
      have h1 := grows_parsePhase .base (.stub id) ds (bindParser w .base)
      split
      · exact h1.trans (grows_runPhase .base (.stub id) ds _)
      · exact h1.trans (Grows.of_same (same_throwControl _ _))

theorem grows_scriptInclude (d : Disk) (w : World) (v : VMId) (f : File) (req : Bool) :
    Grows v (declsOf d f) w (scriptInclude d w v f req) := by
  unfold scriptInclude
  have h : Grows v (declsOf d f) w (includeFile d (bindParser w v) v f).1 :=
    (Grows.of_same (same_bindParser v v w)).trans (grows_includeFile d _ v f)
  dsimp only
  split
  · exact h
  · exact h.trans (Grows.of_same (same_throwControl _ _))
  · split
    · exact h.trans (Grows.of_same (same_throwControl _ _))
    · exact h

theorem grows_scriptRunFn (w : World) (v : VMId) (n : Name) (id : Nat) :
    Grows v [(Kind.fn, n)] w (scriptRunFn w v n id) := by
  unfold scriptRunFn
  have h : Grows v [(Kind.fn, n)] w (addDef (bindParser w v) v .fn n (.stub id)).1 :=
    (Grows.of_same (same_bindParser v v w)).trans (grows_addDef _ v .fn n _)
  dsimp only
  split
  · exact h
  · exact h.trans (Grows.of_same (same_throwControl _ _))

theorem grows_getOrLoadClassOn (d : Disk) (w : World) (v : VMId) (n : Name) :
    Grows v (autoOffers d n) w (getOrLoadClassOn d w v n).1 := by
  cases v with
  | base => exact grows_baseGetOrLoadClass d w n
  | temp i => exact grows_tempGetOrLoadClass d w i n

theorem grows_scriptUse (d : Disk) (w : World) (v : VMId) (n : Name) (pt : Bool) :
    Grows v (autoOffers d n) w (scriptUse d w v n pt).1 := by
  unfold scriptUse
  have h : Grows v (autoOffers d n) w (getOrLoadClassOn d (bindParser w v) v n).1 :=
    (Grows.of_same (same_bindParser v v w)).trans (grows_getOrLoadClassOn d _ v n)
  dsimp only
  split
  · exact h
  · split
    · exact h
    · exact h.trans (Grows.of_same (same_throwControl _ _))

theorem same_scriptAutoReg (v v' : VMId) (w : World) (cb : Nat) : SameTbl v w (scriptAutoReg w v' cb) := by
  intro k
  have h1 := same_bindParser v v' w k
  have h2 := same_setBase_shared v (bindParser w v')
    { (bindParser w v').base with autoload := (bindParser w v').base.autoload ++ [cb] } rfl rfl rfl k
  exact h2.trans h1

theorem same_scriptDefine (v v' : VMId) (w : World) (c : Name) : SameTbl v w (scriptDefine w v' c) := by
  intro k
  have h1 := same_bindParser v v' w k
  unfold scriptDefine
  dsimp only
  split
  · exact (same_throwControl v _ k).trans h1
  · exact (same_setBase_shared v (bindParser w v')
      { (bindParser w v').base with consts := c :: (bindParser w v').base.consts } rfl rfl rfl k).trans h1

/-- a non-leaky, non-discard step lets the maps of the VM it is invoked on grow at most
by what the operation offers … -/
theorem grows_step (d : Disk) (w : World) (op : Op) (hl : leaky d w op = false) :
    Grows op.via (offers d op) w (step d w op).1 := by
  cases op with
  | add v k n id => exact grows_addDef w v k n _
  | loadAndRun v f => exact grows_loadAndRun d w v f
  | parseFile v f => exact grows_parseFile d w v f
  | getOrLoadClass v n =>
    cases v with
    | base => exact grows_baseGetOrLoadClass d w n
    | temp i => exact grows_tempGetOrLoadClass d w i n
  | getOrLoadInterface v n =>
    cases v with
    | base => exact grows_baseGetOrLoadInterface d w n
    | temp i =>
      show Grows _ _ w (tempGetOrLoadInterface d w i n).1
      rw [tempGetOrLoadInterface_noleak d w i n hl]; exact Grows.refl _ _ w
  | loadPkg v n =>
    cases v with
    | base => exact grows_baseLoadPkg d w n
    | temp i =>
      show Grows _ _ w (tempLoadPkg d w i n).1
      rw [tempLoadPkg_noleak d w i n hl]; exact Grows.refl _ _ w
  | discard i =>
    intro k n h
    exfalso
    obtain ⟨s, hs⟩ := h
    cases k <;> simp [tblOf, step, World.setTemp, Op.via] at hs
  | evalCode v u id => exact grows_scriptEval d w v u id
  | incl v f req => exact grows_scriptInclude d w v f req
  | runFn v n id => exact grows_scriptRunFn w v n id
  | autoReg v cb => exact Grows.of_same (same_scriptAutoReg v v w cb)
  | useClass v n pt => exact grows_scriptUse d w v n pt
  | define v c => exact Grows.of_same (same_scriptDefine v v w c)
  | alias v a b => exact Grows.of_same (same_bindParser v v w)
  | inert v => exact Grows.of_same (same_bindParser v v w)

/-- … and leaves the maps of every other VM alone. -/
theorem same_step (d : Disk) (w : World) (op : Op) (hl : leaky d w op = false) (v : VMId)
    (hv : v ≠ op.via) : SameTbl v w (step d w op).1 := by
  cases hvia : op.via with
  | base =>
    cases v with
    | base => exact absurd hvia.symm hv
    | temp j => exact same_of_temps (temps_step_base d w op hvia) j
  | temp i =>
    exact same_of_frame (frame_step d w op i hvia hl) v (by rw [← hvia]; exact hv)

/-! #### the invariant -/

/-- every entry of every VM's own maps was offered through that VM -/
def Inv (S : VMId → List (Kind × Name)) (w : World) : Prop :=
  ∀ v k n, Has w v k n → (k, n) ∈ S v

theorem offeredStep_discard (d : Disk) (v : VMId) (acc : List (Kind × Name)) (i : Nat) :
    offeredStep d v acc (.discard i) = if v = .temp i then [] else acc := rfl

theorem offeredStep_other (d : Disk) (v : VMId) (acc : List (Kind × Name)) (op : Op)
    (h : ∀ i, op ≠ .discard i) :
    offeredStep d v acc op = if op.via = v then offers d op ++ acc else acc := by
  cases op <;> first | rfl | exact absurd rfl (h _)

theorem inv_step (d : Disk) (S : VMId → List (Kind × Name)) (w : World) (op : Op)
    (hi : Inv S w) (hl : leaky d w op = false) :
    Inv (fun v => offeredStep d v (S v) op) (step d w op).1 := by
  intro v k n h
  by_cases hd : ∃ i, op = .discard i
  · obtain ⟨i, rfl⟩ := hd
    show (k, n) ∈ offeredStep d v (S v) (.discard i)
    rw [offeredStep_discard]
    by_cases hv : v = .temp i
    · subst hv
      exfalso
      obtain ⟨s, hs⟩ := h
      cases k <;> simp [tblOf, step, World.setTemp] at hs
    · rw [if_neg hv]
      have hs := same_step d w (.discard i) hl v (by simpa [Op.via] using hv)
      apply hi v k n
      unfold Has at h ⊢; rw [hs k] at h; exact h
  · have hnd : ∀ i, op ≠ .discard i := fun i e => hd ⟨i, e⟩
    show (k, n) ∈ offeredStep d v (S v) op
    rw [offeredStep_other d v (S v) op hnd]
    by_cases hv : op.via = v
    · rw [if_pos hv]
      subst hv
      rcases grows_step d w op hl k n h with h | h
      · exact List.mem_append_right _ (hi _ k n h)
      · exact List.mem_append_left _ h
    · rw [if_neg hv]
      have hs := same_step d w op hl v (fun e => hv e.symm)
      apply hi v k n
      unfold Has at h ⊢; rw [hs k] at h; exact h

theorem inv_foldl (d : Disk) (ops : List Op) :
    ∀ (S : VMId → List (Kind × Name)) (w : World), Inv S w → NoLeak d w ops →
      Inv (fun v => ops.foldl (offeredStep d v) (S v)) (ops.foldl (fun w op => (step d w op).1) w) := by
  induction ops with
  | nil => intro S w hi _; exact hi
  | cons op ops ih =>
    intro S w hi hn
    simp only [NoLeak, noLeak, Bool.and_eq_true, Bool.not_eq_true'] at hn
    simp only [List.foldl_cons]
    exact ih (fun v => offeredStep d v (S v) op) _ (inv_step d S w op hi hn.1) hn.2

theorem inv_init : Inv (fun _ => []) {} := by
  intro v k n h
  obtain ⟨s, hs⟩ := h
  cases v <;> cases k <;> simp [tblOf] at hs

theorem lookup_mem {t : Tbl} {n : Name} {s : Src} (h : t.lookup n = some s) : (n, s) ∈ t := by
  induction t with
  | nil => simp [List.lookup] at h
  | cons e t ih =>
    obtain ⟨a, b⟩ := e
    unfold List.lookup at h
    split at h
    · rename_i heq
      have : n = a := by simpa using heq
      simp only [Option.some.injEq] at h
      subst this; subst h
      exact List.mem_cons_self
    · exact List.mem_cons_of_mem _ (ih h)

theorem foldFind_mem {fold : Name → Name} {t : Tbl} {n : Name} {s : Src}
    (h : t.foldFind fold n = some s) : ∃ n', (n', s) ∈ t ∧ fold n' = fold n := by
  unfold Tbl.foldFind at h
  cases hf : t.find? (fun e => fold e.1 == fold n) with
  | none => rw [hf] at h; cases h
  | some e =>
    rw [hf] at h
    simp only [Option.map_some, Option.some.injEq] at h
    refine ⟨e.1, ?_, ?_⟩
    · have := List.mem_of_find?_eq_some hf
      rw [← h]; exact this
    · have := List.find?_some hf
      simpa using this

theorem base_covers (d : Disk) (S : VMId → List (Kind × Name)) (w : World) (hi : Inv S w)
    (k : Kind) (n : Name) (h : (resolve d w .base k n).isSome) : Covers d.fold (S .base) k n := by
  cases k
  · simp only [resolve, getClass, Base.getClass] at h
    cases hl : w.base.classes.lookup n with
    | some s => exact ⟨n, hi .base .cls n ⟨s, lookup_mem hl⟩, Or.inl rfl⟩
    | none =>
      rw [hl] at h
      cases hf : w.base.classes.foldFind d.fold n with
      | none => rw [hf] at h; cases h
      | some s =>
        obtain ⟨n', hm, hfo⟩ := foldFind_mem hf
        exact ⟨n', hi .base .cls n' ⟨s, hm⟩, Or.inr ⟨rfl, hfo⟩⟩
  · simp only [resolve, getInterface, Base.getInterface] at h
    cases hl : w.base.ifaces.lookup n with
    | some s => exact ⟨n, hi .base .ifc n ⟨s, lookup_mem hl⟩, Or.inl rfl⟩
    | none => rw [hl] at h; cases h
  · simp only [resolve, getFunc, Base.getFunc] at h
    cases hl : w.base.funcs.lookup n with
    | some s => exact ⟨n, hi .base .fn n ⟨s, lookup_mem hl⟩, Or.inl rfl⟩
    | none => rw [hl] at h; cases h

theorem bounded_of_inv (d : Disk) (S : VMId → List (Kind × Name)) (w : World) (hi : Inv S w) :
    (∀ k n, (resolve d w .base k n).isSome → Covers d.fold (S .base) k n) ∧
    (∀ i k n, (resolve d w (.temp i) k n).isSome →
      Covers d.fold (S .base) k n ∨ (k, n) ∈ S (.temp i)) := by
  refine ⟨base_covers d S w hi, ?_⟩
  intro i k n h
  cases k
  · cases hb : w.base.getClass d.fold n with
    | some s =>
      left; apply base_covers d S w hi
      simp [resolve, getClass, hb]
    | none =>
      simp only [resolve, getClass, hb] at h
      cases hl : (w.temps i).classes.lookup n with
      | none => rw [hl] at h; cases h
      | some s => right; exact hi (.temp i) .cls n ⟨s, lookup_mem hl⟩
  · cases hb : w.base.getInterface n with
    | some s =>
      left; apply base_covers d S w hi
      simp [resolve, getInterface, hb]
    | none =>
      simp only [resolve, getInterface, hb] at h
      cases hl : (w.temps i).ifaces.lookup n with
      | none => rw [hl] at h; cases h
      | some s => right; exact hi (.temp i) .ifc n ⟨s, lookup_mem hl⟩
  · cases hl : (w.temps i).funcs.lookup n with
    | some s => right; exact hi (.temp i) .fn n ⟨s, lookup_mem hl⟩
    | none =>
      simp only [resolve, getFunc, hl] at h
      left; apply base_covers d S w hi
      simpa [resolve, getFunc] using h

theorem bounded_run (d : Disk) (ops : List Op) (h : NoLeak d {} ops) :
    Bounded d ops (resolve d (run d ops)) := by
  have hi := inv_foldl d ops (fun _ => []) {} inv_init h
  exact bounded_of_inv d _ _ hi

/-! #### routing predicate -/
open Model.TempRoutes

theorem wellRouted_sound (fs : List Fact) (h : WellRouted fs = true) (f : Fact) (hf : f ∈ fs)
    (hk : f.method ∉ Known) : f.delegatesDefining = false ∧ f.writesBase = [] := by
  simp only [WellRouted, Bool.and_eq_true, List.all_eq_true] at h
  have hok := h.2 f hf
  simp only [factOk, Bool.and_eq_true, Bool.or_eq_true, List.isEmpty_iff] at hok
  obtain ⟨⟨⟨_, hwb⟩, _⟩, hkd⟩ := hok
  refine ⟨?_, hwb⟩
  rcases hkd with hkn | hnd
  · exact absurd (List.contains_iff_mem.mp hkn) hk
  · simpa using hnd

theorem parsersBound_sound (vs : List VmFact) (P : List String) (fs : List Fact)
    (h : ParsersBound vs P fs = true) (f : Fact) (hf : f ∈ fs) (hk : f.method ∉ Known) :
    f.delegatesParsing P = false ∧ (∀ c ∈ f.baseParser, c = "PrepareParse") ∧
    (f.parses ≠ [] → "PrepareParse" ∈ f.selfCalls) ∧
    (∀ c ∈ f.evalCtx, c = "self.CreateContext" ∨ c = "param") := by
  simp only [ParsersBound, Bool.and_eq_true, List.all_eq_true] at h
  have hok := h.1.2 f hf
  simp only [parserOk, Bool.and_eq_true, Bool.or_eq_true, List.all_eq_true, beq_iff_eq,
    List.isEmpty_iff, List.contains_iff_mem] at hok
  obtain ⟨⟨⟨⟨hbp, hpa⟩, hev⟩, _⟩, hdel⟩ := hok
  refine ⟨?_, hbp, ?_, hev⟩
  · rcases hdel with hkn | hnd
    · exact absurd hkn hk
    · simpa using hnd
  · intro hne
    rcases hpa with he | hp
    · exact absurd he hne
    · exact hp

theorem closed_contains_direct (vs : List VmFact) (P : List String) (h : closedUnder vs P = true)
    (f : VmFact) (hf : f ∈ vs) (ho : f.ownParser = true) : f.method ∈ P := by
  simp only [closedUnder, parsingStep, List.all_eq_true, List.mem_map, List.mem_filter,
    List.contains_iff_mem] at h
  exact h f.method ⟨f, ⟨hf, by simp [ho]⟩, rfl⟩

end Proofs.Temp
