import Model.ReaderOrder
import Proofs.Lemmas.SerGen
/-!
# Lemmas about `Model.ReaderOrder` (C14): readers tried in order
-/
namespace Proofs.ReaderOrder
open Model.Ser Model.ReaderOrder Proofs.Ser

theorem decode_append {T R : Type} (pre rs : List (T → Option R)) (d : R) (t : T) :
    decode (pre ++ rs) d t = decode pre (decode rs d t) t := by
  induction pre with
  | nil => rfl
  | cons r rest ih =>
      simp only [List.cons_append, decode]
      cases r t with
      | some x => rfl
      | none => exact ih

/-- a reader that answers decides, whatever follows it -/
theorem decode_cons_some {T R : Type} (r : T → Option R) (rest : List (T → Option R)) (d x : R) (t : T)
    (h : r t = some x) : decode (r :: rest) d t = x := by
  simp [decode, h]

theorem decode_cons_none {T R : Type} (r : T → Option R) (rest : List (T → Option R)) (d : R) (t : T)
    (h : r t = none) : decode (r :: rest) d t = decode rest d t := by
  simp [decode, h]

/-- `Model.Ser.unserializeT` is the three readers of `Call` in the pinned order -/
theorem unserializeT_is_decode (raw : Bytes) :
    unserializeT raw = decode [emptyR, exactR, legacyR] .false raw := by
  unfold unserializeT
  by_cases he : raw = []
  · simp [decode, emptyR, he]
  · simp only [he, if_false, decode, emptyR, exactR, legacyR]
    cases hp : (if knownPrefix raw then parseAll raw else none) with
    | some v => rfl
    | none =>
        simp only
        by_cases hs : startsWith [115, 58] raw = true
        · simp [hs]
        · simp [hs]

theorem legacyStr_not_value' (raw : Bytes) (v : PV) : legacyStr raw ≠ .value v := by
  unfold legacyStr
  split
  · split
    · simp
    · simp only
      split <;> simp
  · simp

/-- a value answer of `unserializeT` is the exact reader's -/
theorem value_is_exact (raw : Bytes) (w : PV) (h : unserializeT raw = .value w) :
    raw ≠ [] ∧ exactR raw = some (.value w) := by
  unfold unserializeT at h
  by_cases he : raw = []
  · simp [he] at h
  · refine ⟨he, ?_⟩
    simp only [he, if_false] at h
    unfold exactR
    cases hp : (if knownPrefix raw then parseAll raw else none) with
    | some v =>
        rw [hp] at h
        simp only [Out.value.injEq] at h
        simp [h]
    | none =>
        rw [hp] at h
        simp only at h
        split at h
        · exact absurd h (legacyStr_not_value' raw w)
        · simp at h

/-- with the exact reader first (after the empty test), what follows it cannot touch a text the exact reader accepts -/
theorem exact_first_decides (rest : List (Bytes → Option Out)) (raw : Bytes) (w : PV)
    (h : unserializeT raw = .value w) : decode (emptyR :: exactR :: rest) .false raw = .value w := by
  obtain ⟨hne, hx⟩ := value_is_exact raw w h
  rw [decode_cons_none _ _ _ _ (by simp [emptyR, hne]), decode_cons_some _ _ _ _ _ hx]

theorem map_denote_of_ok (sn : ReaderStep → Bytes → Option Out) (rs : List ReaderStep) (h : orderOK rs = true) :
    ∃ rest, rs.map (denote sn) = exactR :: rest := by
  cases rs with
  | nil => simp [orderOK] at h
  | cons r rest =>
      simp only [orderOK, Bool.and_eq_true, beq_iff_eq] at h
      exact ⟨rest.map (denote sn), by simp [List.map, denote, h.1.1.1]⟩

end Proofs.ReaderOrder
