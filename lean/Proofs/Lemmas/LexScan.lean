import Proofs.Lemmas.LexBasic
/-! Progress, bounds and line accounting of each scanner of `Model.Lex`. -/
namespace Proofs.Lex
open Model.Lex

/-- what the proofs need from the regenerated configuration -/
structure WF (cfg : Cfg) : Prop where
  space_nl : cfg.isSpace 10 = true
  defs_ne : ∀ d ∈ cfg.defs, d.1 ≠ []
  defs_byte : ∀ d ∈ cfg.defs, ∀ b ∈ d.1, b < 256
  defs_nl : ∀ d ∈ cfg.defs, d.1 = [10] ∨ 10 ∉ d.1

theorem isDelim_nl {cfg : Cfg} (wf : WF cfg) : isDelim cfg 10 = true := by
  simp [isDelim, wf.space_nl]

/-! ### quoted strings, byte literals -/

theorem sqLoop_spec {inp : Input} {f pos p : Nat} (h : sqLoop inp f pos = some p) :
    pos < p ∧ p ≤ inp.size := by
  induction f generalizing pos with
  | zero => simp [sqLoop] at h
  | succ f ih =>
    unfold sqLoop at h
    split at h
    · rename_i hp
      simp only [] at h
      split at h
      · have := ih h; omega
      · split at h
        · cases h; omega
        · have := ih h; omega
    · cases h

theorem dqLoop_spec {inp : Input} {f pos p : Nat} {e : Bool} (h : dqLoop inp f pos e = some p) :
    pos < p ∧ p ≤ inp.size := by
  induction f generalizing pos e with
  | zero => simp [dqLoop] at h
  | succ f ih =>
    unfold dqLoop at h
    split at h
    · rename_i hp
      simp only [] at h
      split at h
      · cases h; omega
      · have := ih h; omega
    · cases h

theorem btLoop_spec {inp : Input} {f pos p : Nat} (h : btLoop inp f pos = some p) :
    pos < p ∧ p ≤ inp.size := by
  induction f generalizing pos with
  | zero => simp [btLoop] at h
  | succ f ih =>
    unfold btLoop at h
    split at h
    · rename_i hp
      split at h
      · cases h; omega
      · have := ih h; omega
    · cases h

theorem byteLoop_spec {inp : Input} {f pos p : Nat} (h : byteLoop inp f pos = some p) :
    pos < p ∧ p ≤ inp.size := by
  induction f generalizing pos with
  | zero => simp [byteLoop] at h
  | succ f ih =>
    unfold byteLoop at h
    split at h
    · rename_i hp
      simp only [] at h
      split at h
      · cases h; omega
      · split at h
        · have := ih h
          split at this <;> omega
        · have := ih h; omega
    · cases h

theorem handleByte_spec {inp : Input} {start p : Nat} (h : handleByte inp start = some p) :
    start < p ∧ p ≤ inp.size := by
  unfold handleByte at h
  split at h
  · cases h
  · have := byteLoop_spec h; omega

/-! ### heredoc -/

theorem findNL_spec {inp : Input} {f pos nl : Nat} (h : findNL inp f pos = some nl) :
    pos ≤ nl ∧ nl < inp.size := by
  induction f generalizing pos with
  | zero => simp [findNL] at h
  | succ f ih =>
    unfold findNL at h
    split at h
    · split at h
      · cases h; omega
      · have := ih h; omega
    · cases h

theorem tryCloseMarker_spec {inp : Input} {ident : List Nat} {at_ e : Nat} (hat : at_ ≤ inp.size)
    (h : tryCloseMarker inp ident at_ = some e) : at_ ≤ e ∧ e ≤ inp.size := by
  unfold tryCloseMarker at h
  simp only [] at h
  have hge := skipWhile_ge inp isBlank inp.size at_
  split at h
  · cases h
  · split at h
    · cases h
    · split at h
      · cases h; omega
      · cases h

theorem heredocSearch_spec {inp : Input} {ident : List Nat} {f s e : Nat}
    (h : heredocSearch inp ident f s = some e) : s ≤ e ∧ e ≤ inp.size := by
  induction f generalizing s with
  | zero => simp [heredocSearch] at h
  | succ f ih =>
    unfold heredocSearch at h
    split at h
    · split at h
      · cases h
      · rename_i nl hnl
        have hn := findNL_spec hnl
        split at h
        · rename_i e' he
          cases h
          have := tryCloseMarker_spec (by omega) he; omega
        · have := ih h; omega
    · cases h

theorem heredocId_spec {inp : Input} {start a b : Nat} (h : heredocId inp start = some (a, b)) :
    start + 3 ≤ inp.size := by
  unfold heredocId at h
  split at h
  · rename_i hc
    simp at hc; omega
  · cases h

theorem heredocEnd_spec {inp : Input} {start a b e : Nat} (hs : start + 3 ≤ inp.size)
    (h : heredocEnd inp start a b = some e) : start < e ∧ e ≤ inp.size := by
  unfold heredocEnd at h
  simp only [] at h
  -- the position handed to the first tryCloseMarker is ≥ start+3
  generalize hp : skipWhile inp isEol inp.size _ = pos at h
  have h3 := skipWhile_ge inp isBlank inp.size (start+3)
  have hpos : start + 3 ≤ pos := by
    rw [← hp]
    refine Nat.le_trans ?_ (skipWhile_ge inp isEol inp.size _)
    split
    · split <;> omega
    · omega
  split at h
  · rename_i e' he
    cases h
    by_cases hle : pos ≤ inp.size
    · have := tryCloseMarker_spec hle he; omega
    · -- marker position beyond the end cannot match
      exfalso
      unfold tryCloseMarker at he
      simp only [] at he
      have := skipWhile_ge inp isBlank inp.size pos
      split at he
      · cases he
      · omega
  · have := heredocSearch_spec h; omega

theorem handleString_spec {cfg : Cfg} {inp : Input} {start ty p : Nat}
    (h : handleString cfg inp start = some (ty, p)) : start < p ∧ p ≤ inp.size := by
  unfold handleString at h
  simp only [] at h
  split at h
  · simp only [Option.map_eq_some_iff] at h
    obtain ⟨q, hq, he⟩ := h; cases he
    have := sqLoop_spec hq; omega
  split at h
  · simp only [Option.map_eq_some_iff] at h
    obtain ⟨q, hq, he⟩ := h; cases he
    have := btLoop_spec hq; omega
  split at h
  · simp only [Option.map_eq_some_iff] at h
    obtain ⟨q, hq, he⟩ := h; cases he
    have := dqLoop_spec hq; omega
  split at h
  · cases h
  · rename_i a b hid
    have h3 := heredocId_spec hid
    split at h
    · split at h
      · simp only [Option.map_eq_some_iff] at h
        obtain ⟨q, hq, he⟩ := h; cases he
        have := sqLoop_spec hq; omega
      split at h
      · simp only [Option.map_eq_some_iff] at h
        obtain ⟨q, hq, he⟩ := h; cases he
        have := btLoop_spec hq; omega
      · simp only [Option.map_eq_some_iff] at h
        obtain ⟨q, hq, he⟩ := h; cases he
        have := dqLoop_spec hq; omega
    · split at h
      · cases h
      · rename_i e he
        cases h
        exact heredocEnd_spec h3 he

/-! ### comments -/

theorem decode_nl {inp : Input} {pos : Nat} (h : pos < inp.size) (hb : bAt inp pos = 10) :
    decodeRune inp pos = (10, 1) := by
  simp [decodeRune, h, hb]

theorem lineCommentLoop_spec (inp : Input) (f pos : Nat) (hp : pos ≤ inp.size) :
    pos ≤ (lineCommentLoop inp f pos).1 ∧ (lineCommentLoop inp f pos).1 ≤ inp.size ∧
    (lineCommentLoop inp f pos).2 = nlCount inp pos (lineCommentLoop inp f pos).1 := by
  induction f generalizing pos with
  | zero => simp [lineCommentLoop, nlCount_self, hp]
  | succ f ih =>
    unfold lineCommentLoop
    split
    · rename_i hlt
      obtain ⟨hs1, hs2, _, hs4⟩ := decode_spec hlt
      generalize hd : decodeRune inp pos = d at hs1 hs2 hs4
      obtain ⟨r, size⟩ := d
      simp only [] at hs1 hs2 hs4 ⊢
      split
      · rename_i hr
        have hr' : r = 10 := by simpa using hr
        have hb := hs4.mp hr'
        have := decode_nl hlt hb
        rw [hd] at this
        cases this
        refine ⟨by simp, by simp; omega, ?_⟩
        simp [nlCount_one inp pos hlt, hb]
      · rename_i hr
        have hr' : r ≠ 10 := by simpa using hr
        have hno : NoNL inp pos (pos + size) := by
          have := decode_noNL hlt (by rw [hd]; exact hr')
          rwa [hd] at this
        have hz := nlCount_zero hs2 hno
        split
        · refine ⟨by simp, by simp; omega, ?_⟩
          simp [hz]
        · obtain ⟨i1, i2, i3⟩ := ih (pos + size) hs2
          refine ⟨by omega, i2, ?_⟩
          rw [i3, nlCount_split inp pos (pos + size) _ (by omega) i1, hz]
          simp
    · simp [nlCount_self, hp]

theorem blockCommentLoop_spec (inp : Input) (f pos n : Nat) (hp : pos ≤ inp.size) :
    pos ≤ (blockCommentLoop inp f pos n).1 ∧ (blockCommentLoop inp f pos n).1 ≤ inp.size ∧
    (blockCommentLoop inp f pos n).2 = n + nlCount inp pos (blockCommentLoop inp f pos n).1 := by
  induction f generalizing pos n with
  | zero => simp [blockCommentLoop, nlCount_self, hp]
  | succ f ih =>
    unfold blockCommentLoop
    split
    · rename_i hlt
      split
      · rename_i hc
        simp only [Bool.and_eq_true, beq_iff_eq] at hc
        refine ⟨by simp, by simp; omega, ?_⟩
        have : NoNL inp pos (pos + 2) := by
          intro i h1 h2
          have : i = pos ∨ i = pos + 1 := by omega
          rcases this with rfl | rfl <;> omega
        simp [nlCount_zero (by omega) this]
      · obtain ⟨i1, i2, i3⟩ := ih (pos + 1) (if bAt inp pos == 10 then n + 1 else n) (by omega)
        refine ⟨by omega, i2, ?_⟩
        rw [i3, nlCount_split inp pos (pos + 1) _ (by omega) i1, nlCount_one inp pos (by omega)]
        by_cases hb : bAt inp pos = 10 <;> simp [hb] <;> omega
    · simp [nlCount_self, hp]

/-! ### identifiers -/

theorem identLoop_spec {cfg : Cfg} (wf : WF cfg) (inp : Input) (tmpl : Bool) (f pos : Nat)
    (hp : pos ≤ inp.size) :
    pos ≤ identLoop cfg inp tmpl f pos ∧ identLoop cfg inp tmpl f pos ≤ inp.size ∧
    NoNL inp pos (identLoop cfg inp tmpl f pos) := by
  induction f generalizing pos with
  | zero => simp [identLoop, hp, NoNL.empty]
  | succ f ih =>
    unfold identLoop
    split
    · rename_i hlt
      obtain ⟨hs1, hs2, _, _⟩ := decode_spec hlt
      generalize hd : decodeRune inp pos = d at hs1 hs2
      obtain ⟨r, size⟩ := d
      simp only [] at hs1 hs2 ⊢
      split
      · exact ⟨Nat.le_refl _, hp, NoNL.empty _ _⟩
      split
      · exact ⟨Nat.le_refl _, hp, NoNL.empty _ _⟩
      rename_i hdel
      split
      · exact ⟨Nat.le_refl _, hp, NoNL.empty _ _⟩
      split
      · exact ⟨Nat.le_refl _, hp, NoNL.empty _ _⟩
      · obtain ⟨i1, i2, i3⟩ := ih (pos + size) hs2
        have hr : r ≠ 10 := by
          intro hc; subst hc; exact hdel (isDelim_nl wf)
        have hno : NoNL inp pos (pos + size) := by
          have := decode_noNL hlt (by rw [hd]; exact hr)
          rwa [hd] at this
        exact ⟨by omega, i2, hno.append i3⟩
    · exact ⟨Nat.le_refl _, hp, NoNL.empty _ _⟩

/-! ### token table -/

theorem matchesAt_spec {inp : Input} {lit : List Nat} {pos : Nat} (hpos : pos ≤ inp.size)
    (hb : ∀ b ∈ lit, b < 256) (h : matchesAt inp pos lit = true) :
    pos + lit.length ≤ inp.size ∧ ∀ i, i < lit.length → bAt inp (pos + i) = lit[i]! := by
  induction lit generalizing pos with
  | nil => simpa using hpos
  | cons b bs ih =>
    simp only [matchesAt, Bool.and_eq_true, beq_iff_eq] at h
    obtain ⟨h1, h2⟩ := h
    have hlt := lt_of_bAt_eq (hb b List.mem_cons_self) h1
    obtain ⟨i1, i2⟩ := ih (by omega) (fun x hx => hb x (List.mem_cons_of_mem _ hx)) h2
    refine ⟨by simp; omega, ?_⟩
    intro i hi
    cases i with
    | zero => simpa using h1
    | succ i =>
      have := i2 i (by simpa using hi)
      simpa [Nat.add_assoc, Nat.add_comm 1 i] using this

theorem longestDef_spec {inp : Input} {pos : Nat} {kw : Bool} {defs : List (List Nat × Nat × Bool)}
    {best : Option (Nat × Nat)} {ty len : Nat}
    (P : Nat → Prop)
    (hbest : ∀ t l, best = some (t, l) → P l)
    (hdefs : ∀ d ∈ defs, matchesAt inp pos d.1 = true → P d.1.length)
    (h : longestDef inp pos kw defs best = some (ty, len)) : P len := by
  induction defs generalizing best with
  | nil => exact hbest ty len (by simpa [longestDef] using h)
  | cons d ds ih =>
    obtain ⟨lit, t, k⟩ := d
    unfold longestDef at h
    simp only [] at h
    refine ih ?_ (fun d hd => hdefs d (List.mem_cons_of_mem _ hd)) h
    intro t' l' hb
    split at hb
    · rename_i hok
      simp only [Bool.and_eq_true] at hok
      have hP := hdefs (lit, t, k) List.mem_cons_self hok.2
      split at hb
      · split at hb
        · cases hb; exact hP
        · exact hbest _ _ hb
      · cases hb; exact hP
    · exact hbest _ _ hb

/-- a matched definition spans `len > 0` in-range bytes without a newline -/
def MatchOK (inp : Input) (pos len : Nat) : Prop :=
  0 < len ∧ pos + len ≤ inp.size ∧ NoNL inp pos (pos + len)

theorem def_matchOK {cfg : Cfg} (wf : WF cfg) {inp : Input} {pos : Nat} (hpos : pos ≤ inp.size)
    (hnl : bAt inp pos ≠ 10) :
    ∀ d ∈ cfg.defs, matchesAt inp pos d.1 = true → MatchOK inp pos d.1.length := by
  intro d hd hm
  obtain ⟨m1, m2⟩ := matchesAt_spec hpos (wf.defs_byte d hd) hm
  have hne := wf.defs_ne d hd
  have hlen : 0 < d.1.length := List.length_pos_iff.mpr hne
  refine ⟨hlen, m1, ?_⟩
  intro i hi1 hi2
  obtain ⟨k, rfl⟩ : ∃ k, i = pos + k := ⟨i - pos, by omega⟩
  have hk : k < d.1.length := by omega
  rw [m2 k hk]
  rcases wf.defs_nl d hd with h10 | h10
  · -- literal "\n" cannot match where the input byte is not a newline
    exfalso
    have := m2 0 hlen
    rw [h10] at this
    simp at this
    exact hnl this
  · intro hc
    apply h10
    have : d.1[k]! = d.1[k] := by simp [hk]
    rw [this] at hc
    rw [← hc]
    exact List.getElem_mem hk

theorem matchLongest_spec {cfg : Cfg} (wf : WF cfg) {inp : Input} {pos ty len : Nat}
    (hpos : pos ≤ inp.size) (hnl : bAt inp pos ≠ 10) (h : matchLongest cfg inp pos = some (ty, len)) : MatchOK inp pos len := by
  unfold matchLongest at h
  generalize decodeRune inp pos = d at h
  obtain ⟨r, sz⟩ := d
  simp only [] at h
  split at h
  · cases h
  split at h
  · exact longestDef_spec (MatchOK inp pos) (by simp) (def_matchOK wf hpos hnl) h
  · split at h
    · cases h
    · rename_i t l hl
      have := longestDef_spec (MatchOK inp pos) (by simp) (def_matchOK wf hpos hnl) hl
      split at h
      · generalize decodeRune inp (pos + l) = d2 at h
        obtain ⟨nr, _⟩ := d2
        simp only [] at h
        split at h
        · cases h
        · cases h; exact this
      · cases h; exact this

end Proofs.Lex
