import Model.Temp
import Spec.Temp
/-! Helper lemmas for C12: frames (what an operation may touch). -/
namespace Proofs.Temp
open Model.Temp

/-- `Frame i w w'`: going from `w` to `w'` touched at most TempVM `i`'s local state and the
shared-by-design part of the base (file cache, throw counter) — not the base's three
definition maps and not any other TempVM. -/
structure Frame (i : Nat) (w w' : World) : Prop where
  classes : w'.base.classes = w.base.classes
  ifaces : w'.base.ifaces = w.base.ifaces
  funcs : w'.base.funcs = w.base.funcs
  others : ∀ j, j ≠ i → w'.temps j = w.temps j

theorem Frame.refl (i : Nat) (w : World) : Frame i w w := ⟨rfl, rfl, rfl, fun _ _ => rfl⟩

theorem Frame.trans {i : Nat} {a b c : World} (h₁ : Frame i a b) (h₂ : Frame i b c) : Frame i a c :=
  ⟨h₂.classes.trans h₁.classes, h₂.ifaces.trans h₁.ifaces, h₂.funcs.trans h₁.funcs,
   fun j hj => (h₂.others j hj).trans (h₁.others j hj)⟩

theorem frame_setTemp (i : Nat) (w : World) (t : Temp) : Frame i w (w.setTemp i t) :=
  ⟨rfl, rfl, rfl, fun j hj => by simp [World.setTemp, hj]⟩

theorem frame_cacheAdd (i : Nat) (w : World) (f : File) : Frame i w (cacheAdd w f) :=
  ⟨rfl, rfl, rfl, fun _ _ => rfl⟩

theorem frame_throwControl (i : Nat) (w : World) : Frame i w (throwControl w) :=
  ⟨rfl, rfl, rfl, fun _ _ => rfl⟩

theorem frame_bindParser (i : Nat) (w : World) : Frame i w (bindParser w (.temp i)) :=
  frame_setTemp i w _

theorem frame_addDef (i : Nat) (w : World) (k : Kind) (n : Name) (s : Src) :
    Frame i w (addDef w (.temp i) k n s).1 := frame_setTemp i w _

theorem addDef_temp_ok (i : Nat) (w : World) (k : Kind) (n : Name) (s : Src) :
    (addDef w (.temp i) k n s).2 = true := rfl

theorem frame_parsePhase (i : Nat) (s : Src) (ds : List Decl) :
    ∀ w, Frame i w (parsePhase (.temp i) s w ds).1 := by
  induction ds with
  | nil => intro w; exact Frame.refl i w
  | cons dc ds ih =>
    intro w
    unfold parsePhase
    split
    · exact ih w
    · simp only [addDef_temp_ok, if_true]
      exact (frame_addDef i w dc.kind dc.name s).trans (ih _)

theorem frame_runPhase (i : Nat) (s : Src) (ds : List Decl) :
    ∀ w, Frame i w (runPhase (.temp i) s w ds) := by
  induction ds with
  | nil => intro w; exact Frame.refl i w
  | cons dc ds ih =>
    intro w
    unfold runPhase
    split
    · simp only [addDef_temp_ok, if_true]
      exact (frame_addDef i w .fn dc.name s).trans (ih _)
    · exact ih w

theorem frame_parseAndRun (i : Nat) (d : Disk) (w : World) (f : File) :
    Frame i w (parseAndRun d w (.temp i) f).1 := by
  unfold parseAndRun
  split
  · exact Frame.refl i w
  · rename_i decls _
    have h1 := frame_parsePhase i (.file f) decls w
    dsimp only
    split
    · exact h1.trans (frame_runPhase i (.file f) decls _)
    · exact h1

theorem frame_loadAndRun (i : Nat) (d : Disk) (w : World) (f : File) :
    Frame i w (loadAndRun d w (.temp i) f).1 := by
  unfold loadAndRun
  split
  · exact Frame.refl i w
  · exact ((frame_cacheAdd i w f).trans (frame_bindParser i _)).trans (frame_parseAndRun i d _ f)

theorem frame_parseFile (i : Nat) (d : Disk) (w : World) (f : File) :
    Frame i w (parseFile d w (.temp i) f).1 :=
  (frame_bindParser i w).trans (frame_parseAndRun i d _ f)

theorem frame_includeFile (i : Nat) (d : Disk) (w : World) (f : File) :
    Frame i w (includeFile d w (.temp i) f).1 := by
  unfold includeFile
  split
  · exact Frame.refl i w
  · split
    · exact Frame.refl i w
    · exact frame_loadAndRun i d w f

theorem frame_runCallback (i : Nat) (d : Disk) (w : World) (cb : Nat) (n : Name) :
    Frame i w (runCallback d w (.temp i) cb n).1 := by
  unfold runCallback
  split
  · exact frame_includeFile i d w _
  · exact Frame.refl i w

theorem frame_callAutoLoad (i : Nat) (d : Disk) (n : Name) (cbs : List Nat) :
    ∀ w, Frame i w (callAutoLoad d (.temp i) n w cbs).1 := by
  induction cbs with
  | nil => intro w; exact Frame.refl i w
  | cons cb cbs ih =>
    intro w
    unfold callAutoLoad
    have h1 := frame_runCallback i d w cb n
    dsimp only
    split
    · exact h1
    · split
      · exact h1
      · exact h1.trans (ih _)

theorem frame_loadClass (i : Nat) (d : Disk) (w : World) (n : Name) :
    Frame i w (loadClass d w (.temp i) n).1 := by
  unfold loadClass
  split
  · exact frame_callAutoLoad i d n _ w
  · split
    · exact Frame.refl i w
    · have h := frame_loadAndRun i d w ‹File›
      dsimp only
      split <;> exact h

theorem frame_tempGetOrLoadClass (i : Nat) (d : Disk) (w : World) (n : Name) :
    Frame i w (tempGetOrLoadClass d w i n).1 := by
  unfold tempGetOrLoadClass
  split
  · exact Frame.refl i w
  · split
    · exact Frame.refl i w
    · split
      · exact Frame.refl i w
      · have h := frame_loadClass i d w n
        dsimp only
        split <;> exact h

/-- the autoloader does nothing when the class path has no file for the name and no
autoload callback is registered -/
theorem loadClass_noop (d : Disk) (w : World) (v : VMId) (n : Name) (h : d.find n = none)
    (ha : w.base.autoload = []) : loadClass d w v n = (w, false) := by
  unfold loadClass; rw [h, ha]; rfl

theorem canAutoload_false {d : Disk} {w : World} {n : Name} (h : canAutoload d w n = false) :
    d.find n = none ∧ w.base.autoload = [] := by
  simp only [canAutoload, Bool.or_eq_false_iff, Option.isSome_eq_false_iff, Option.isNone_iff_eq_none,
    Bool.not_eq_false', List.isEmpty_iff] at h
  exact h

theorem frame_tempGetOrLoadInterface (i : Nat) (d : Disk) (w : World) (n : Name)
    (hl : leaky d w (.getOrLoadInterface (.temp i) n) = false) :
    Frame i w (tempGetOrLoadInterface d w i n).1 := by
  unfold tempGetOrLoadInterface
  split
  · exact Frame.refl i w
  · rename_i hloc
    unfold baseGetOrLoadInterface
    split
    · exact Frame.refl i w
    · rename_i hbase
      have hf : canAutoload d w n = false := by
        simp [leaky, hloc, hbase] at hl
        exact hl
      obtain ⟨h1, h2⟩ := canAutoload_false hf
      rw [loadClass_noop d w .base n h1 h2]
      exact Frame.refl i w

theorem frame_tempLoadPkg (i : Nat) (d : Disk) (w : World) (n : Name)
    (hl : leaky d w (.loadPkg (.temp i) n) = false) :
    Frame i w (tempLoadPkg d w i n).1 := by
  unfold tempLoadPkg
  split
  · exact Frame.refl i w
  · rename_i hloc
    unfold baseLoadPkg
    split
    · exact Frame.refl i w
    · rename_i hbase
      have hf : canAutoload d w n = false := by
        simp [leaky, hloc, hbase] at hl
        exact hl
      obtain ⟨h1, h2⟩ := canAutoload_false hf
      rw [loadClass_noop d w .base n h1 h2]
      exact Frame.refl i w

/-! #### script routes on TempVM `i` -/

theorem frame_setBase_shared (i : Nat) (w : World) (b : Base) (hc : b.classes = w.base.classes)
    (hi : b.ifaces = w.base.ifaces) (hf : b.funcs = w.base.funcs) : Frame i w (w.setBase b) :=
  ⟨hc, hi, hf, fun _ _ => rfl⟩

theorem frame_scriptEval (i : Nat) (d : Disk) (w : World) (u : File) (id : Nat) :
    Frame i w (scriptEval d w (.temp i) u id) :=
  (frame_bindParser i w).trans (frame_throwControl i _)

theorem frame_scriptInclude (i : Nat) (d : Disk) (w : World) (f : File) (req : Bool) :
    Frame i w (scriptInclude d w (.temp i) f req) := by
  unfold scriptInclude
  have h := (frame_bindParser i w).trans (frame_includeFile i d (bindParser w (.temp i)) f)
  dsimp only
  split
  · exact h
  · exact h.trans (frame_throwControl i _)
  · split
    · exact h.trans (frame_throwControl i _)
    · exact h

theorem frame_scriptRunFn (i : Nat) (w : World) (n : Name) (id : Nat) :
    Frame i w (scriptRunFn w (.temp i) n id) := by
  unfold scriptRunFn
  simp only [addDef_temp_ok, if_true]
  exact (frame_bindParser i w).trans (frame_addDef i _ .fn n _)

theorem frame_scriptAutoReg (i : Nat) (w : World) (cb : Nat) :
    Frame i w (scriptAutoReg w (.temp i) cb) :=
  (frame_bindParser i w).trans (frame_setBase_shared i _ _ rfl rfl rfl)

theorem frame_scriptUse (i : Nat) (d : Disk) (w : World) (n : Name) (pt : Bool) :
    Frame i w (scriptUse d w (.temp i) n pt).1 := by
  unfold scriptUse getOrLoadClassOn
  have h := (frame_bindParser i w).trans (frame_tempGetOrLoadClass i d (bindParser w (.temp i)) n)
  dsimp only
  split
  · exact h
  · split
    · exact h
    · exact h.trans (frame_throwControl i _)

theorem frame_scriptDefine (i : Nat) (w : World) (c : Name) :
    Frame i w (scriptDefine w (.temp i) c) := by
  unfold scriptDefine
  dsimp only
  split
  · exact (frame_bindParser i w).trans (frame_throwControl i _)
  · exact (frame_bindParser i w).trans (frame_setBase_shared i _ _ rfl rfl rfl)

/-- Every non-leaky operation invoked on TempVM `i` stays inside TempVM `i`'s frame. -/
theorem frame_step (d : Disk) (w : World) (op : Op) (i : Nat) (hv : op.via = .temp i)
    (hl : leaky d w op = false) : Frame i w (step d w op).1 := by
  cases op with
  | add v k n id =>
    simp only [Op.via] at hv; subst hv
    exact frame_addDef i w k n _
  | loadAndRun v f =>
    simp only [Op.via] at hv; subst hv
    exact frame_loadAndRun i d w f
  | parseFile v f =>
    simp only [Op.via] at hv; subst hv
    exact frame_parseFile i d w f
  | getOrLoadClass v n =>
    simp only [Op.via] at hv; subst hv
    exact frame_tempGetOrLoadClass i d w n
  | getOrLoadInterface v n =>
    simp only [Op.via] at hv; subst hv
    exact frame_tempGetOrLoadInterface i d w n hl
  | loadPkg v n =>
    simp only [Op.via] at hv; subst hv
    exact frame_tempLoadPkg i d w n hl
  | discard j =>
    simp only [Op.via, VMId.temp.injEq] at hv; subst hv
    exact frame_setTemp j w _
  | evalCode v u id =>
    simp only [Op.via] at hv; subst hv
    exact frame_scriptEval i d w u id
  | incl v f req =>
    simp only [Op.via] at hv; subst hv
    exact frame_scriptInclude i d w f req
  | runFn v n id =>
    simp only [Op.via] at hv; subst hv
    exact frame_scriptRunFn i w n id
  | autoReg v cb =>
    simp only [Op.via] at hv; subst hv
    exact frame_scriptAutoReg i w cb
  | useClass v n pt =>
    simp only [Op.via] at hv; subst hv
    exact frame_scriptUse i d w n pt
  | define v c =>
    simp only [Op.via] at hv; subst hv
    exact frame_scriptDefine i w c
  | alias v a b =>
    simp only [Op.via] at hv; subst hv
    exact frame_bindParser i w
  | inert v =>
    simp only [Op.via] at hv; subst hv
    exact frame_bindParser i w

/-- the base's resolve answers depend on the three definition maps only -/
theorem base_getClass_congr (fold : Name → Name) {b b' : Base} (h : b'.classes = b.classes) (n : Name) :
    b'.getClass fold n = b.getClass fold n := by
  unfold Base.getClass; rw [h]

/-- tables of everybody outside the frame are unchanged -/
theorem resolve_of_frame (d : Disk) {i : Nat} {w w' : World} (h : Frame i w w') (v : VMId)
    (hv : v ≠ .temp i) : resolve d w' v = resolve d w v := by
  funext k n
  cases v with
  | base =>
    cases k
    · simp only [resolve, getClass]; exact base_getClass_congr d.fold h.classes n
    · simp only [resolve, getInterface, Base.getInterface, h.ifaces]
    · simp only [resolve, getFunc, Base.getFunc, h.funcs]
  | temp j =>
    have hj : j ≠ i := fun e => hv (by rw [e])
    have ht := h.others j hj
    cases k
    · simp only [resolve, getClass, base_getClass_congr d.fold h.classes n, ht]
    · simp only [resolve, getInterface, Base.getInterface, h.ifaces, ht]
    · simp only [resolve, getFunc, Base.getFunc, h.funcs, ht]

/-! ### operations on the base never touch a TempVM's local state -/

theorem temps_setBase (w : World) (b : Base) : (w.setBase b).temps = w.temps := rfl

theorem temps_addDef_base (w : World) (k : Kind) (n : Name) (s : Src) :
    (addDef w .base k n s).1.temps = w.temps := rfl

theorem temps_parsePhase_base (s : Src) (ds : List Decl) :
    ∀ w, (parsePhase .base s w ds).1.temps = w.temps := by
  induction ds with
  | nil => intro w; rfl
  | cons dc ds ih =>
    intro w
    unfold parsePhase
    split
    · exact ih w
    · dsimp only
      split
      · rw [ih]; rfl
      · rfl

theorem temps_runPhase_base (s : Src) (ds : List Decl) :
    ∀ w, (runPhase .base s w ds).temps = w.temps := by
  induction ds with
  | nil => intro w; rfl
  | cons dc ds ih =>
    intro w
    unfold runPhase
    split
    · dsimp only
      split
      · rw [ih]; rfl
      · rfl
    · exact ih w

theorem temps_parseAndRun_base (d : Disk) (w : World) (f : File) :
    (parseAndRun d w .base f).1.temps = w.temps := by
  unfold parseAndRun
  split
  · rfl
  · dsimp only
    split
    · simp only [temps_runPhase_base, temps_parsePhase_base]
    · simp only [temps_parsePhase_base]

theorem temps_loadAndRun_base (d : Disk) (w : World) (f : File) :
    (loadAndRun d w .base f).1.temps = w.temps := by
  unfold loadAndRun
  split
  · rfl
  · rw [temps_parseAndRun_base]; rfl

theorem temps_parseFile_base (d : Disk) (w : World) (f : File) :
    (parseFile d w .base f).1.temps = w.temps := by
  unfold parseFile; rw [temps_parseAndRun_base]; rfl

theorem temps_includeFile_base (d : Disk) (w : World) (f : File) :
    (includeFile d w .base f).1.temps = w.temps := by
  unfold includeFile
  split
  · rfl
  · split
    · rfl
    · exact temps_loadAndRun_base d w f

theorem temps_runCallback_base (d : Disk) (w : World) (cb : Nat) (n : Name) :
    (runCallback d w .base cb n).1.temps = w.temps := by
  unfold runCallback
  split
  · exact temps_includeFile_base d w _
  · rfl

theorem temps_callAutoLoad_base (d : Disk) (n : Name) (cbs : List Nat) :
    ∀ w, (callAutoLoad d .base n w cbs).1.temps = w.temps := by
  induction cbs with
  | nil => intro w; rfl
  | cons cb cbs ih =>
    intro w
    unfold callAutoLoad
    have h1 := temps_runCallback_base d w cb n
    dsimp only
    split
    · exact h1
    · split
      · exact h1
      · rw [ih]; exact h1

theorem temps_loadClass_base (d : Disk) (w : World) (n : Name) :
    (loadClass d w .base n).1.temps = w.temps := by
  unfold loadClass
  split
  · exact temps_callAutoLoad_base d n _ w
  · split
    · rfl
    · dsimp only
      split <;> exact temps_loadAndRun_base d w _

theorem temps_baseGetOrLoadClass (d : Disk) (w : World) (n : Name) :
    (baseGetOrLoadClass d w n).1.temps = w.temps := by
  unfold baseGetOrLoadClass
  split
  · rfl
  · dsimp only
    split <;> exact temps_loadClass_base d w n

theorem temps_baseGetOrLoadInterface (d : Disk) (w : World) (n : Name) :
    (baseGetOrLoadInterface d w n).1.temps = w.temps := by
  unfold baseGetOrLoadInterface
  split
  · rfl
  · dsimp only
    split <;> exact temps_loadClass_base d w n

theorem temps_baseLoadPkg (d : Disk) (w : World) (n : Name) :
    (baseLoadPkg d w n).1.temps = w.temps := by
  unfold baseLoadPkg
  split
  · rfl
  · dsimp only
    split <;> exact temps_loadClass_base d w n

theorem temps_step_base (d : Disk) (w : World) (op : Op) (hv : op.via = .base) :
    (step d w op).1.temps = w.temps := by
  cases op with
  | add v k n id => simp only [Op.via] at hv; subst hv; rfl
  | loadAndRun v f => simp only [Op.via] at hv; subst hv; exact temps_loadAndRun_base d w f
  | parseFile v f => simp only [Op.via] at hv; subst hv; exact temps_parseFile_base d w f
  | getOrLoadClass v n => simp only [Op.via] at hv; subst hv; exact temps_baseGetOrLoadClass d w n
  | getOrLoadInterface v n => simp only [Op.via] at hv; subst hv; exact temps_baseGetOrLoadInterface d w n
  | loadPkg v n => simp only [Op.via] at hv; subst hv; exact temps_baseLoadPkg d w n
  | discard j => simp [Op.via] at hv
  | evalCode v u id =>
    simp only [Op.via] at hv; subst hv
    show (scriptEval d w .base u id).temps = w.temps
    unfold scriptEval
    dsimp only [bindParser]
    split
    · rfl
    · split
      · simp only [temps_runPhase_base, temps_parsePhase_base]
      · show (throwControl _).temps = _
        simp only [throwControl, temps_setBase, temps_parsePhase_base]
  | incl v f req =>
    simp only [Op.via] at hv; subst hv
    show (scriptInclude d w .base f req).temps = w.temps
    unfold scriptInclude
    have h := temps_includeFile_base d w f
    dsimp only [bindParser]
    split
    · exact h
    · exact h
    · split <;> exact h
  | runFn v n id =>
    simp only [Op.via] at hv; subst hv
    show (scriptRunFn w .base n id).temps = w.temps
    unfold scriptRunFn
    dsimp only [bindParser]
    split <;> rfl
  | autoReg v cb => simp only [Op.via] at hv; subst hv; rfl
  | useClass v n pt =>
    simp only [Op.via] at hv; subst hv
    show (scriptUse d w .base n pt).1.temps = w.temps
    unfold scriptUse getOrLoadClassOn
    have h := temps_baseGetOrLoadClass d w n
    dsimp only [bindParser]
    split
    · exact h
    · split <;> exact h
  | define v c =>
    simp only [Op.via] at hv; subst hv
    show (scriptDefine w .base c).temps = w.temps
    unfold scriptDefine
    dsimp only [bindParser]
    split <;> rfl
  | alias v a b => simp only [Op.via] at hv; subst hv; rfl
  | inert v => simp only [Op.via] at hv; subst hv; rfl

/-! ### world-level facts about the lookup order -/

theorem baseVisible_world (d : Disk) (w : World) : Spec.Temp.BaseVisible (resolve d w) := by
  intro i k n h
  cases k
  · simp only [resolve, getClass] at h ⊢
    cases hb : w.base.getClass d.fold n with
    | none => rw [hb] at h; cases h
    | some s => rfl
  · simp only [resolve, getInterface] at h ⊢
    cases hb : w.base.getInterface n with
    | none => rw [hb] at h; cases h
    | some s => rfl
  · simp only [resolve, getFunc] at h ⊢
    cases hl : (w.temps i).funcs.lookup n with
    | none => exact h
    | some s => rfl

theorem base_wins_world (d : Disk) (w : World) (i : Nat) (k : Kind) (n : Name) (s : Src)
    (hk : k ≠ .fn) (h : resolve d w .base k n = some s) : resolve d w (.temp i) k n = some s := by
  cases k
  · simp only [resolve, getClass] at h ⊢; rw [h]
  · simp only [resolve, getInterface] at h ⊢; rw [h]
  · exact absurd rfl hk

theorem own_visible_world (d : Disk) (w : World) (i : Nat) (k : Kind) (n : Name) (id : Nat) :
    (resolve d (step d w (.add (.temp i) k n id)).1 (.temp i) k n).isSome ∧
    (k = .fn → resolve d (step d w (.add (.temp i) k n id)).1 (.temp i) k n = some (.stub id)) := by
  cases k
  · refine ⟨?_, fun h => by cases h⟩
    simp only [resolve, getClass, step, okIf, addDef, World.setTemp, Temp.add]
    cases w.base.getClass d.fold n <;> simp
  · refine ⟨?_, fun h => by cases h⟩
    simp only [resolve, getInterface, step, okIf, addDef, World.setTemp, Temp.add]
    cases w.base.getInterface n <;> simp
  · have : resolve d (step d w (.add (.temp i) .fn n id)).1 (.temp i) .fn n = some (.stub id) := by
      simp [resolve, getFunc, step, okIf, addDef, World.setTemp, Temp.add]
    exact ⟨by rw [this]; rfl, fun _ => this⟩

theorem discard_forgets_world (d : Disk) (w : World) (i : Nat) :
    resolve d (step d w (.discard i)).1 (.temp i) = resolve d (step d w (.discard i)).1 .base := by
  funext k n
  cases k
  · simp only [resolve, getClass, step, World.setTemp]
    cases w.base.getClass d.fold n <;> simp
  · simp only [resolve, getInterface, step, World.setTemp]
    cases w.base.getInterface n <;> simp
  · simp [resolve, getFunc, step, World.setTemp]

/-! ### routes that define nothing -/

/-- binding the parser (what running any script does first) changes no resolve table -/
theorem resolve_bindParser (d : Disk) (w : World) (v v' : VMId) :
    resolve d (bindParser w v') v = resolve d w v := by
  cases v' with
  | base => rfl
  | temp i =>
    funext k n
    cases v with
    | base => cases k <;> rfl
    | temp j =>
      by_cases h : j = i
      · subst h; cases k <;> simp [resolve, getClass, getInterface, getFunc, bindParser, World.setTemp]
      · cases k <;> simp [resolve, getClass, getInterface, getFunc, bindParser, World.setTemp, h]

/-- changing only the shared-by-design part of the base changes no resolve table -/
theorem resolve_setBase_shared (d : Disk) (w : World) (b : Base) (v : VMId)
    (hc : b.classes = w.base.classes) (hi : b.ifaces = w.base.ifaces) (hf : b.funcs = w.base.funcs) :
    resolve d (w.setBase b) v = resolve d w v := by
  funext k n
  cases v <;> cases k <;>
    simp [resolve, getClass, getInterface, getFunc, World.setBase, Base.getClass, Base.getInterface,
      Base.getFunc, hc, hi, hf]

theorem resolve_throwControl (d : Disk) (w : World) (v : VMId) :
    resolve d (throwControl w) v = resolve d w v :=
  resolve_setBase_shared d w _ v rfl rfl rfl

/-- `eval()` on a TempVM is refused: nobody's table changes, not even the TempVM's own -/
theorem resolve_scriptEval_temp (d : Disk) (w : World) (i : Nat) (u : File) (id : Nat) (v : VMId) :
    resolve d (scriptEval d w (.temp i) u id) v = resolve d w v := by
  show resolve d (throwControl (bindParser w (.temp i))) v = _
  rw [resolve_throwControl, resolve_bindParser]

/-- the routes that define nothing: registering an autoload callback, `define`,
`class_alias`, anonymous classes / closures -/
def Op.inertRoute : Op → Bool
  | .autoReg _ _ | .define _ _ | .alias _ _ _ | .inert _ => true
  | _ => false

theorem resolve_inert (d : Disk) (w : World) (op : Op) (h : Op.inertRoute op = true) (v : VMId) :
    resolve d (step d w op).1 v = resolve d w v := by
  cases op <;> simp only [Op.inertRoute] at h <;> try (exact absurd h (by decide))
  · -- autoReg
    show resolve d (scriptAutoReg w _ _) v = _
    unfold scriptAutoReg
    dsimp only
    refine Eq.trans (resolve_setBase_shared d _ _ v ?_ ?_ ?_) (resolve_bindParser d w v _) <;> rfl
  · -- define
    show resolve d (scriptDefine w _ _) v = _
    unfold scriptDefine
    dsimp only
    split
    · rw [resolve_throwControl, resolve_bindParser]
    · refine Eq.trans (resolve_setBase_shared d _ _ v ?_ ?_ ?_) (resolve_bindParser d w v _) <;> rfl
  · -- alias
    show resolve d (bindParser w _) v = _
    rw [resolve_bindParser]
  · -- inert
    show resolve d (bindParser w _) v = _
    rw [resolve_bindParser]

end Proofs.Temp
