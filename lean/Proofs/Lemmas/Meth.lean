import Model.Meth
import Spec.Js
/-! Helper lemmas for C15 (array methods): argument binding, index arithmetic,
loops with an index counter against `List.zipIdx`. -/
namespace Proofs.Meth
open Model.Meth
open Spec.Js (Binds BindsVal rel range)

/-! ### argument binding -/

theorem intArg_of_binds {args : List Val} {i : Nat} {o : Option Int} (h : Binds args i o) :
    intArg args i 0 = o.getD 0 := by
  unfold Binds at h
  unfold intArg slot
  cases hget : args[i]? with
  | none => simp [hget] at h; simp [h, asInt?]
  | some v =>
    cases v <;> simp [hget] at h <;> simp [h, asInt?]

theorem optIntArg_of_binds {args : List Val} {i : Nat} {o : Option Int} (d : Int) (h : Binds args i o) :
    optIntArg args i d = o.getD d := by
  unfold Binds at h
  unfold optIntArg intArg slot
  cases hget : args[i]? with
  | none => simp [hget] at h; simp [h, given]
  | some v =>
    cases v <;> simp [hget] at h <;> simp [h, asInt?, given]

/-! ### index arithmetic -/

theorem sliceBounds_spec (n : Nat) (s e : Int) :
    let p := sliceBounds n s e
    let A := rel n s
    let B := rel n e
    (A < B → p.1 = A ∧ p.2 = B) ∧ (B ≤ A → p.1 = p.2) := by
  by_cases hs : s < 0 <;> by_cases he : e < 0 <;>
    simp only [sliceBounds, rel, hs, he, ↓reduceIte] <;> (repeat' split) <;> omega

theorem rel_le (n : Nat) (k : Int) : rel n k ≤ n := by
  unfold rel; split <;> omega

theorem rel_len (n : Nat) : rel n (n : Int) = n := by
  unfold rel; split <;> omega

theorem spliceBounds_spec (n : Nat) (s d : Int) :
    let p := spliceBounds n s d
    let A := rel n s
    p.1 = A ∧ p.2 = min d.toNat (n - A) := by
  by_cases hs : s < 0 <;>
    simp only [spliceBounds, rel, hs, ↓reduceIte] <;> (repeat' split) <;> omega

theorem spliceBounds_len (n : Nat) (s : Int) :
    (spliceBounds n s n).2 = ((n - rel n s : Nat) : Int) := by
  have := (spliceBounds_spec n s n).2
  have h2 := rel_le n s
  omega

/-! ### copying -/

theorem copyRange_eq (xs : List Val) : ∀ (n : Nat) (s : Nat), s + n ≤ xs.length →
    copyRange xs (s : Int) n = some ((xs.drop s).take n)
  | 0, s, _ => by simp [copyRange]
  | n + 1, s, h => by
    have hs : s < xs.length := by omega
    have ih := copyRange_eq xs n (s + 1) (by omega)
    have hcast : ((s : Int) + 1) = ((s + 1 : Nat) : Int) := by omega
    simp only [copyRange]
    rw [if_neg (by omega)]
    simp only [Int.toNat_natCast, List.getElem?_eq_getElem hs, hcast, ih, Option.map_some]
    rw [List.drop_eq_getElem_cons hs, List.take_succ_cons]

theorem copyRange_zero (xs : List Val) (s : Int) : copyRange xs s 0 = some [] := by
  simp [copyRange]

theorem range_eq (xs : List Val) (a b : Nat) : range xs a b = (xs.drop a).take (b - a) := by
  unfold range; rw [List.drop_take]

theorem range_empty (xs : List Val) (a b : Nat) (h : b ≤ a) : range xs a b = [] := by
  rw [range_eq]; simp [Nat.sub_eq_zero_of_le h]

theorem sliceExpr_eq (xs : List Val) (a b : Nat) (h1 : a ≤ b) (h2 : b ≤ xs.length) :
    sliceExpr xs (a : Int) (b : Int) = some ((xs.drop a).take (b - a)) := by
  unfold sliceExpr
  rw [if_pos (by omega)]
  congr 3
  omega

end Proofs.Meth
