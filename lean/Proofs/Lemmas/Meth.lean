import Model.Meth
import Spec.Js
/-! Helper lemmas for C15 (array methods): argument binding, index arithmetic,
loops with an index counter against `List.zipIdx`. -/
namespace Proofs.Meth
open Model.Meth
open Spec.Js (Binds BindsVal rel range IsSortOf)

/-! ### argument binding -/

theorem intArg_of_binds {args : List Val} {i : Nat} {o : Option Int} (h : Binds args i o) :
    intArg args i 0 = o.getD 0 := by
  unfold Binds at h
  unfold intArg slot
  cases hget : args[i]? with
  | none => simp [hget] at h; simp [h, asInt?]
  | some v =>
    cases v <;> simp [hget] at h <;> simp [h, asInt?]

theorem optIntArg_of_binds {args : List Val} {i : Nat} {o : Option Int} (d : Int) (h : Binds args i o) :
    optIntArg args i d = o.getD d := by
  unfold Binds at h
  unfold optIntArg intArg slot
  cases hget : args[i]? with
  | none => simp [hget] at h; simp [h, given]
  | some v =>
    cases v <;> simp [hget] at h <;> simp [h, asInt?, given]

/-! ### index arithmetic -/

theorem sliceBounds_spec (n : Nat) (s e : Int) :
    let p := sliceBounds n s e
    let A := rel n s
    let B := rel n e
    (A < B → p.1 = A ∧ p.2 = B) ∧ (B ≤ A → p.1 = p.2) := by
  by_cases hs : s < 0 <;> by_cases he : e < 0 <;>
    simp only [sliceBounds, rel, hs, he, ↓reduceIte] <;> (repeat' split) <;> omega

theorem rel_le (n : Nat) (k : Int) : rel n k ≤ n := by
  unfold rel; split <;> omega

theorem rel_len (n : Nat) : rel n (n : Int) = n := by
  unfold rel; split <;> omega

theorem spliceBounds_spec (n : Nat) (s d : Int) :
    let p := spliceBounds n s d
    let A := rel n s
    p.1 = A ∧ p.2 = min d.toNat (n - A) := by
  by_cases hs : s < 0 <;>
    simp only [spliceBounds, rel, hs, ↓reduceIte] <;> (repeat' split) <;> omega

theorem spliceBounds_len (n : Nat) (s : Int) :
    (spliceBounds n s n).2 = ((n - rel n s : Nat) : Int) := by
  have := (spliceBounds_spec n s n).2
  have h2 := rel_le n s
  omega

/-! ### copying -/

theorem copyRange_eq (xs : List Val) : ∀ (n : Nat) (s : Nat), s + n ≤ xs.length →
    copyRange xs (s : Int) n = some ((xs.drop s).take n)
  | 0, s, _ => by simp [copyRange]
  | n + 1, s, h => by
    have hs : s < xs.length := by omega
    have ih := copyRange_eq xs n (s + 1) (by omega)
    have hcast : ((s : Int) + 1) = ((s + 1 : Nat) : Int) := by omega
    simp only [copyRange]
    rw [if_neg (by omega)]
    simp only [Int.toNat_natCast, List.getElem?_eq_getElem hs, hcast, ih, Option.map_some]
    rw [List.drop_eq_getElem_cons hs, List.take_succ_cons]

theorem copyRange_zero (xs : List Val) (s : Int) : copyRange xs s 0 = some [] := by
  simp [copyRange]

theorem range_eq (xs : List Val) (a b : Nat) : range xs a b = (xs.drop a).take (b - a) := by
  unfold range; rw [List.drop_take]

theorem range_empty (xs : List Val) (a b : Nat) (h : b ≤ a) : range xs a b = [] := by
  rw [range_eq]; simp [Nat.sub_eq_zero_of_le h]

theorem sliceExpr_eq (xs : List Val) (a b : Nat) (h1 : a ≤ b) (h2 : b ≤ xs.length) :
    sliceExpr xs (a : Int) (b : Int) = some ((xs.drop a).take (b - a)) := by
  unfold sliceExpr
  rw [if_pos (by omega)]
  congr 3
  omega

/-! ### refinements, method by method -/

theorem spec_slice_eq (xs : List Val) (s e : Option Int) :
    Spec.Js.slice xs s e = ⟨.list (range xs (rel xs.length (s.getD 0)) (rel xs.length (e.getD xs.length))), xs⟩ := by
  cases e <;> simp [Spec.Js.slice, rel_len]

theorem slice_refines (xs args : List Val) (s e : Option Int) (h0 : Binds args 0 s) (h1 : Binds args 1 e) :
    slice xs args = .ok (Spec.Js.slice xs s e) := by
  rw [spec_slice_eq]
  unfold slice
  simp only [intArg_of_binds h0, optIntArg_of_binds _ h1]
  have hb := sliceBounds_spec xs.length (s.getD 0) (e.getD xs.length)
  simp only at hb
  generalize sliceBounds (xs.length) (s.getD 0) (e.getD xs.length) = p at hb ⊢
  generalize hA : rel xs.length (s.getD 0) = A at hb ⊢
  generalize hB : rel xs.length (e.getD xs.length) = B at hb ⊢
  have hBn : B ≤ xs.length := hB ▸ rel_le _ _
  rcases Nat.lt_or_ge A B with hlt | hge
  · obtain ⟨h1, h2⟩ := hb.1 hlt
    rw [h1, h2, if_neg (by omega)]
    have : ((B : Int) - (A : Int)).toNat = B - A := by omega
    rw [this, copyRange_eq xs (B - A) A (by omega), range_eq]
  · have h := hb.2 hge
    rw [h, if_neg (by omega)]
    simp [copyRange_zero, range_empty xs A B hge]

theorem spec_splice_eq (xs : List Val) (s d : Option Int) (items : List Val) :
    Spec.Js.splice xs s d items =
      (let a := rel xs.length (s.getD 0)
       let n := min (d.getD xs.length).toNat (xs.length - a)
       ⟨.list (range xs a (a + n)), xs.take a ++ items ++ xs.drop (a + n)⟩) := by
  have := rel_le xs.length (s.getD 0)
  cases d with
  | none =>
    have h : min ((xs.length : Int)).toNat (xs.length - rel xs.length (s.getD 0)) = xs.length - rel xs.length (s.getD 0) := by omega
    simp only [Spec.Js.splice, Option.getD_none, h]
  | some d => simp [Spec.Js.splice]

theorem splice_refines (xs args : List Val) (s d : Option Int) (h0 : Binds args 0 s) (h1 : Binds args 1 d) :
    splice xs args = .ok (Spec.Js.splice xs s d (args.drop 2)) := by
  rw [spec_splice_eq]
  unfold splice
  simp only [intArg_of_binds h0, optIntArg_of_binds _ h1]
  have hb := spliceBounds_spec xs.length (s.getD 0) (d.getD xs.length)
  simp only at hb
  generalize spliceBounds (xs.length) (s.getD 0) (d.getD xs.length) = p at hb ⊢
  have hAn := rel_le xs.length (s.getD 0)
  generalize rel xs.length (s.getD 0) = A at hb hAn ⊢
  generalize hN : min (d.getD xs.length).toNat (xs.length - A) = N at hb ⊢
  obtain ⟨h1, h2⟩ := hb
  have hN2 : A + N ≤ xs.length := by omega
  rw [h1, h2, if_neg (by omega)]
  have c1 : ((A : Int) + (N : Int)) = ((A + N : Nat) : Int) := by omega
  have c0 : (0 : Int) = ((0 : Nat) : Int) := rfl
  rw [c1, sliceExpr_eq xs A (A + N) (by omega) hN2]
  rw [c0, sliceExpr_eq xs 0 A (by omega) hAn]
  rw [sliceExpr_eq xs (A + N) xs.length hN2 (Nat.le_refl _)]
  simp only [rest, range_eq, Nat.add_sub_cancel_left, List.drop_zero, Nat.sub_zero]
  rw [List.take_of_length_le (l := List.drop (A + N) xs) (by simp)]

theorem push_refines (xs args : List Val) : push xs args = .ok (Spec.Js.push xs args) := by
  simp [push, rest, Spec.Js.push]

theorem unshift_refines (xs args : List Val) : unshift xs args = .ok (Spec.Js.unshift xs args) := by
  simp [unshift, rest, Spec.Js.unshift]

theorem pop_refines (xs : List Val) : pop xs = .ok (Spec.Js.pop xs) := by
  unfold pop Spec.Js.pop
  rw [List.getLast?_eq_getElem?, List.dropLast_eq_take]
  by_cases h : xs.length = 0
  · have : xs = [] := List.length_eq_zero_iff.mp h
    subst this; simp
  · rw [if_neg h]
    have hl : xs.length - 1 < xs.length := by omega
    simp [List.getElem?_eq_getElem hl]

theorem shift_refines (xs : List Val) : shift xs = .ok (Spec.Js.shift xs) := by
  cases xs <;> simp [shift, Spec.Js.shift]

theorem spread_eq : spread = Spec.Js.spreadable := by
  funext v; cases v <;> rfl

theorem foldl_append_flatMap {α β : Type} (f : α → List β) (l : List α) (init : List β) :
    l.foldl (fun acc it => acc ++ f it) init = init ++ l.flatMap f := by
  induction l generalizing init with
  | nil => simp
  | cons a l ih => simp [ih, List.append_assoc]

theorem concat_refines (xs args : List Val) : concat xs args = .ok (Spec.Js.concat xs args) := by
  simp only [concat, rest, Spec.Js.concat, foldl_append_flatMap, spread_eq, List.drop_zero]

def suffixStr (sep : String) : List Val → String
  | [] => ""
  | v :: r => sep ++ asString v ++ suffixStr sep r

theorem joinLoop_pos (sep : String) (l : List Val) : ∀ (i : Nat) (acc : String), i > 0 →
    joinLoop sep i acc l = acc ++ suffixStr sep l := by
  induction l with
  | nil => intro i acc _; simp [joinLoop, suffixStr]
  | cons v r ih =>
    intro i acc hi
    simp only [joinLoop, hi, ↓reduceIte, suffixStr]
    rw [ih (i + 1) _ (by omega)]
    simp [String.append_assoc]

theorem joinWith_cons (sep : String) (r : List Val) : ∀ v : Val,
    Spec.Js.joinWith sep (asString v :: r.map asString) = asString v ++ suffixStr sep r := by
  induction r with
  | nil => intro v; simp [Spec.Js.joinWith, suffixStr]
  | cons w r ih =>
    intro v
    have h := ih w
    simp only [List.map_cons, Spec.Js.joinWith, suffixStr] at h ⊢
    rw [h]
    simp [String.append_assoc]

theorem joinLoop_eq (sep : String) (xs : List Val) :
    joinLoop sep 0 "" xs = Spec.Js.joinWith sep (xs.map asString) := by
  cases xs with
  | nil => simp [joinLoop, Spec.Js.joinWith]
  | cons v r =>
    simp only [joinLoop, Nat.lt_irrefl, ↓reduceIte, List.map_cons, gt_iff_lt]
    rw [joinLoop_pos sep r 1 _ (by omega), joinWith_cons]
    simp

theorem join_refines (xs args : List Val) (sep : Option Val) (h : BindsVal args 0 sep) :
    join xs args = .ok (Spec.Js.join xs sep) := by
  unfold BindsVal at h
  unfold join Spec.Js.join slot
  simp only [joinLoop_eq]
  cases hget : args[0]? with
  | none => simp [hget] at h; simp [h, given]
  | some v => cases v <;> simp [hget] at h <;> simp [h, given]

theorem foldl_cons_rev (xs acc : List Val) : xs.foldl (fun acc x => x :: acc) acc = xs.reverse ++ acc := by
  induction xs generalizing acc with
  | nil => simp
  | cons a l ih => simp [ih]

theorem reverse_refines (xs : List Val) : reverse xs = .ok (Spec.Js.reverse xs) := by
  simp only [reverse, Spec.Js.reverse, foldl_cons_rev, List.append_nil]

theorem length_refines (xs : List Val) : Model.Meth.length xs = .ok (Spec.Js.length xs) := rfl

theorem drop_zipIdx {α : Type} (l : List α) : ∀ (i k : Nat), (l.zipIdx i).drop k = (l.drop k).zipIdx (i + k) := by
  induction l with
  | nil => intro i k; simp
  | cons a l ih =>
    intro i k
    cases k with
    | zero => simp
    | succ k => simp only [List.zipIdx_cons, List.drop_succ_cons, ih]; congr 1; omega

theorem scanFrom_eq (key : String) (l : List Val) : ∀ i : Nat,
    scanFrom key i l = ((l.zipIdx i).find? (fun (p : Val × Nat) => asString p.1 == key)).map (·.2) := by
  induction l with
  | nil => intro i; simp [scanFrom]
  | cons v r ih =>
    intro i
    simp only [scanFrom, List.zipIdx_cons, List.find?_cons]
    by_cases h : (asString v == key) = true
    · simp [h]
    · simp only [h]; rw [ih]; simp

theorem scanFrom_isSome (key : String) (l : List Val) : ∀ i : Nat,
    (scanFrom key i l).isSome = l.any (fun v => asString v == key) := by
  induction l with
  | nil => intro i; simp [scanFrom]
  | cons v r ih =>
    intro i
    simp only [scanFrom, List.any_cons]
    by_cases h : (asString v == key) = true
    · simp [h]
    · simp [h, ih]

theorem fromIndex_eq (xs args : List Val) (f : Option Int) (h : Binds args 1 f) :
    fromIndex xs args = (if rel xs.length (f.getD 0) ≥ xs.length then none else some (rel xs.length (f.getD 0))) := by
  unfold fromIndex
  simp only [intArg_of_binds h]
  generalize f.getD 0 = k
  unfold rel
  (repeat' split) <;> first | omega | rfl | (congr 1; omega)

theorem indexOf_refines (xs : List Val) (key : Val) (more : List Val) (f : Option Int)
    (h : Binds (key :: more) 1 f) :
    indexOf xs (key :: more) = .ok (Spec.Js.indexOf xs key f) := by
  simp only [indexOf, Spec.Js.indexOf, Spec.Js.firstMatch]
  rw [fromIndex_eq xs _ f h]
  have hk := rel_le xs.length (f.getD 0)
  generalize rel xs.length (f.getD 0) = k at hk ⊢
  have hslot : slot (key :: more) 0 = key := rfl
  rw [hslot, drop_zipIdx]
  by_cases hge : k ≥ xs.length
  · have : List.drop k xs = [] := List.drop_of_length_le hge
    simp [hge, this]
  · simp only [hge, ↓reduceIte, scanFrom_eq, Nat.zero_add]
    cases List.find? (fun (p : Val × Nat) => asString p.1 == asString key) ((List.drop k xs).zipIdx k) <;> rfl

theorem includes_refines (xs : List Val) (key : Val) (more : List Val) (f : Option Int)
    (h : Binds (key :: more) 1 f) :
    includes xs (key :: more) = .ok (Spec.Js.includes xs key f) := by
  unfold includes Spec.Js.includes
  rw [fromIndex_eq xs _ f h]
  have hk := rel_le xs.length (f.getD 0)
  generalize rel xs.length (f.getD 0) = k at hk ⊢
  have hslot : slot (key :: more) 0 = key := rfl
  rw [hslot]
  by_cases hge : k ≥ xs.length
  · have : List.drop k xs = [] := List.drop_of_length_le hge
    simp [hge, this]
  · simp only [hge, ↓reduceIte]
    rw [← scanFrom_isSome (asString key) (List.drop k xs) k]
    cases scanFrom (asString key) k (List.drop k xs) <;> rfl

theorem foldl_step_flatMap {α β : Type} (step : List β → α → List β) (g : α → List β)
    (h : ∀ r el, step r el = r ++ g el) (l : List α) (init : List β) :
    l.foldl step init = init ++ l.flatMap g := by
  have : step = fun acc it => acc ++ g it := by funext r el; exact h r el
  rw [this, foldl_append_flatMap]

theorem foldl_step_flatMap_nil {α β : Type} (step : List β → α → List β) (g : α → List β)
    (h : ∀ r el, step r el = r ++ g el) (l : List α) :
    l.foldl step [] = l.flatMap g := by
  rw [foldl_step_flatMap step g h]; simp

theorem flatten_eq : ∀ (d : Nat) (xs : List Val), flatten d xs = Spec.Js.flatDepth d xs
  | 0, xs => rfl
  | d + 1, xs => by
    simp only [flatten, Spec.Js.flatDepth]
    apply foldl_step_flatMap_nil
    intro r el
    cases el <;> simp [flatten_eq d]

theorem flat_refines (xs args : List Val) (depth : Option Int) (h : Binds args 0 depth) :
    flat xs args = .ok (Spec.Js.flat xs depth) := by
  unfold flat Spec.Js.flat
  simp only [optIntArg_of_binds _ h]
  generalize depth.getD 1 = d
  by_cases hd : d ≤ 0
  · have : d.toNat = 0 := by omega
    simp [hd, this, Spec.Js.flatDepth]
  · simp [hd, flatten_eq]

theorem forEachLoop_eq (arr : List Val) (l : List Val) : ∀ i : Nat,
    forEachLoop arr i l = (l.zipIdx i).map (fun p => (⟨p.1, p.2, arr⟩ : CallEv)) := by
  induction l with
  | nil => intro i; simp [forEachLoop]
  | cons v r ih => intro i; simp [forEachLoop, ih]

theorem mapLoop_eq (f : Cb) (arr : List Val) (l : List Val) : ∀ i : Nat,
    mapLoop f arr i l = (l.zipIdx i).map (fun p => f p.1 p.2 arr) := by
  induction l with
  | nil => intro i; simp [mapLoop]
  | cons v r ih => intro i; simp [mapLoop, ih]

theorem filterLoop_eq (p : Pred) (arr : List Val) (l : List Val) : ∀ (i : Nat) (acc : List Val),
    filterLoop p arr i acc l = acc ++ ((l.zipIdx i).filter (fun q => p q.1 q.2 arr)).map (·.1) := by
  induction l with
  | nil => intro i acc; simp [filterLoop]
  | cons v r ih =>
    intro i acc
    simp only [filterLoop, List.zipIdx_cons, List.filter_cons, ih]
    by_cases h : p v i arr = true <;> simp [h]

theorem findLoop_eq (p : Pred) (arr : List Val) (l : List Val) : ∀ i : Nat,
    findLoop p arr i l = ((l.zipIdx i).find? (fun q => p q.1 q.2 arr)).map (fun q => (q.2, q.1)) := by
  induction l with
  | nil => intro i; simp [findLoop]
  | cons v r ih =>
    intro i
    simp only [findLoop, List.zipIdx_cons, List.find?_cons]
    by_cases h : p v i arr = true
    · simp [h]
    · simp [h, ih]

theorem everyLoop_eq (p : Pred) (arr : List Val) (l : List Val) : ∀ i : Nat,
    everyLoop p arr i l = (l.zipIdx i).all (fun q => p q.1 q.2 arr) := by
  induction l with
  | nil => intro i; simp [everyLoop]
  | cons v r ih =>
    intro i
    simp only [everyLoop, List.zipIdx_cons, List.all_cons, ih]
    by_cases h : p v i arr = true <;> simp [h]

theorem someLoop_eq (p : Pred) (arr : List Val) (l : List Val) : ∀ i : Nat,
    someLoop p arr i l = (l.zipIdx i).any (fun q => p q.1 q.2 arr) := by
  induction l with
  | nil => intro i; simp [someLoop]
  | cons v r ih =>
    intro i
    simp only [someLoop, List.zipIdx_cons, List.any_cons, ih]
    by_cases h : p v i arr = true <;> simp [h]

theorem flatMapLoop_eq (f : Cb) (arr : List Val) (l : List Val) : ∀ (i : Nat) (acc : List Val),
    flatMapLoop f arr i acc l = acc ++ (l.zipIdx i).flatMap (fun p => Spec.Js.spreadable (f p.1 p.2 arr)) := by
  induction l with
  | nil => intro i acc; simp [flatMapLoop]
  | cons v r ih =>
    intro i acc
    simp [flatMapLoop, ih, spread_eq, List.append_assoc]

theorem reduceLoop_eq (f : Cb4) (arr : List Val) (l : List Val) : ∀ (i : Nat) (acc : Val),
    reduceLoop f arr i acc l = (l.zipIdx i).foldl (fun acc p => f acc p.1 p.2 arr) acc := by
  induction l with
  | nil => intro i acc; simp [reduceLoop]
  | cons v r ih => intro i acc; simp [reduceLoop, ih]

theorem forEach_refines (xs : List Val) :
    forEach xs = (.ok (Spec.Js.forEach xs), Spec.Js.calls xs) := by
  simp [forEach, Spec.Js.forEach, Spec.Js.calls, forEachLoop_eq]

theorem map_refines (xs : List Val) (f : Cb) : map xs f = .ok (Spec.Js.map xs f) := by
  simp [map, Spec.Js.map, mapLoop_eq]

theorem filter_refines (xs : List Val) (p : Pred) : filter xs p = .ok (Spec.Js.filter xs p) := by
  simp [filter, Spec.Js.filter, filterLoop_eq]

theorem find_refines (xs : List Val) (p : Pred) : find xs p = .ok (Spec.Js.find xs p) := by
  simp only [find, Spec.Js.find, findLoop_eq]
  cases List.find? (fun q => p q.1 q.2 xs) (xs.zipIdx 0) <;> rfl

theorem findIndex_refines (xs : List Val) (p : Pred) : findIndex xs p = .ok (Spec.Js.findIndex xs p) := by
  simp only [findIndex, Spec.Js.findIndex, findLoop_eq]
  cases List.find? (fun q => p q.1 q.2 xs) (xs.zipIdx 0) <;> rfl

theorem every_refines (xs : List Val) (p : Pred) : every xs p = .ok (Spec.Js.every xs p) := by
  simp [every, Spec.Js.every, everyLoop_eq]

theorem some_refines (xs : List Val) (p : Pred) : someP xs p = .ok (Spec.Js.someP xs p) := by
  simp [someP, Spec.Js.someP, someLoop_eq]

theorem flatMap_refines (xs : List Val) (f : Cb) : flatMap xs f = .ok (Spec.Js.flatMap xs f) := by
  simp [flatMap, Spec.Js.flatMap, flatMapLoop_eq]

theorem reduce_refines (xs : List Val) (f : Cb4) (args : List Val) (init : Option Val)
    (h : BindsVal args 0 init) : reduce xs f args = .ok (Spec.Js.reduce xs f init) := by
  unfold BindsVal at h
  unfold reduce Spec.Js.reduce slot
  cases hget : args[0]? with
  | none =>
    simp [hget] at h; subst h
    cases xs with
    | nil => simp [given]
    | cons x r => simp [given, reduceLoop_eq]
  | some v =>
    cases v <;> simp [hget] at h <;> subst h
    · cases xs with
      | nil => simp [given]
      | cons x r => simp [given, reduceLoop_eq]
    all_goals simp [given, reduceLoop_eq]

/-- descending in the reversed prefix -/

def Desc (a b : Val) : Prop := ¬ asString a < asString b

theorem mem_insRev (x : Val) : ∀ (l : List Val) (a : Val), a ∈ insRev x l → a = x ∨ a ∈ l := by
  intro l
  induction l with
  | nil => intro a h; simp [insRev] at h; exact Or.inl h
  | cons y r ih =>
    intro a h
    simp only [insRev] at h
    split at h
    · rcases List.mem_cons.mp h with h | h
      · exact Or.inr (by simp [h])
      · rcases ih a h with h | h
        · exact Or.inl h
        · exact Or.inr (List.mem_cons_of_mem _ h)
    · rcases List.mem_cons.mp h with h | h
      · exact Or.inl h
      · exact Or.inr h

theorem insRev_pairwise (x : Val) : ∀ l : List Val, l.Pairwise Desc → (insRev x l).Pairwise Desc := by
  intro l
  induction l with
  | nil => intro _; simp [insRev]
  | cons y r ih =>
    intro h
    obtain ⟨hy, hr⟩ := List.pairwise_cons.mp h
    simp only [insRev]
    split
    · rename_i hlt
      refine List.pairwise_cons.mpr ⟨?_, ih hr⟩
      intro a ha
      rcases mem_insRev x r a ha with rfl | ha
      · exact String.lt_asymm hlt
      · exact hy a ha
    · rename_i hnlt
      refine List.pairwise_cons.mpr ⟨?_, h⟩
      intro a ha
      rcases List.mem_cons.mp ha with rfl | ha
      · exact hnlt
      · have h1 : asString a ≤ asString y := String.not_lt.mp (hy a ha)
        have h2 : asString y ≤ asString x := String.not_lt.mp hnlt
        exact String.not_lt.mpr (String.le_trans h1 h2)

theorem insRev_filter (x : Val) (k : String) : ∀ l : List Val,
    (insRev x l).filter (fun v => asString v == k) =
      if asString x == k then x :: l.filter (fun v => asString v == k) else l.filter (fun v => asString v == k) := by
  intro l
  induction l with
  | nil => simp [insRev, List.filter_cons]
  | cons y r ih =>
    simp only [insRev]
    split
    · rename_i hlt
      simp only [List.filter_cons, ih]
      by_cases hx : (asString x == k) = true
      · have hxe : asString x = k := by simpa using hx
        have hy : ¬ (asString y == k) = true := by
          intro hy
          have hye : asString y = k := by simpa using hy
          rw [hxe, hye] at hlt
          exact String.lt_irrefl _ hlt
        simp [hx, hy]
      · simp [hx]
    · simp [List.filter_cons]

theorem foldl_insRev_inv (k : String) : ∀ (rest pre rp : List Val),
    rp.Pairwise Desc →
    rp.filter (fun v => asString v == k) = (pre.filter (fun v => asString v == k)).reverse →
    (rest.foldl (fun rp x => insRev x rp) rp).Pairwise Desc ∧
    (rest.foldl (fun rp x => insRev x rp) rp).filter (fun v => asString v == k) =
      ((pre ++ rest).filter (fun v => asString v == k)).reverse := by
  intro rest
  induction rest with
  | nil => intro pre rp h1 h2; simpa using ⟨h1, h2⟩
  | cons x r ih =>
    intro pre rp h1 h2
    have := ih (pre ++ [x]) (insRev x rp) (insRev_pairwise x rp h1) (by
      rw [insRev_filter, List.filter_append, List.reverse_append, h2]
      by_cases hx : (asString x == k) = true <;> simp [hx])
    simpa [List.append_assoc] using this

theorem sort_refines (xs : List Val) :
    ∃ ys, sort xs = .ok ⟨.list ys, ys⟩ ∧ IsSortOf xs ys := by
  refine ⟨(xs.foldl (fun rp x => insRev x rp) []).reverse, rfl, ?_, ?_⟩
  · have := (foldl_insRev_inv "" xs [] [] List.Pairwise.nil (by simp)).1
    rw [List.pairwise_reverse]
    exact this
  · intro k
    have := (foldl_insRev_inv k xs [] [] List.Pairwise.nil (by simp)).2
    rw [List.filter_reverse, this]
    simp

theorem isSortOf_unique (xs : List Val) : ∀ (ys zs : List Val), IsSortOf xs ys → IsSortOf xs zs → ys = zs := by
  intro ys zs hy hz
  have hf : ∀ k : String, ys.filter (fun v => asString v == k) = zs.filter (fun v => asString v == k) := by
    intro k; rw [hy.2 k, hz.2 k]
  have hys := hy.1
  have hzs := hz.1
  clear hy hz
  induction ys generalizing zs with
  | nil =>
    cases zs with
    | nil => rfl
    | cons z zs' =>
      have := hf (asString z)
      simp at this
  | cons y ys' ih =>
    cases zs with
    | nil =>
      have := hf (asString y)
      simp at this
    | cons z zs' =>
      obtain ⟨hy1, hy2⟩ := List.pairwise_cons.mp hys
      obtain ⟨hz1, hz2⟩ := List.pairwise_cons.mp hzs
      -- y occurs in z :: zs', z occurs in y :: ys'
      have hyin : y ∈ z :: zs' := by
        have : y ∈ (z :: zs').filter (fun v => asString v == asString y) := by
          rw [← hf]; simp
        exact (List.mem_filter.mp this).1
      have hzin : z ∈ y :: ys' := by
        have : z ∈ (y :: ys').filter (fun v => asString v == asString z) := by
          rw [hf]; simp
        exact (List.mem_filter.mp this).1
      have hzy : asString z ≤ asString y := by
        rcases List.mem_cons.mp hyin with h | h
        · rw [h]; exact String.le_refl _
        · exact String.not_lt.mp (hz1 y h)
      have hyz : asString y ≤ asString z := by
        rcases List.mem_cons.mp hzin with h | h
        · rw [h]; exact String.le_refl _
        · exact String.not_lt.mp (hy1 z h)
      have hkey : asString y = asString z := String.le_antisymm hyz hzy
      have hk := hf (asString y)
      simp only [List.filter_cons, beq_self_eq_true, ↓reduceIte] at hk
      rw [if_pos (by simp [hkey])] at hk
      obtain ⟨hhead, htail⟩ := List.cons.inj hk
      subst hhead
      congr 1
      apply ih zs' _ hy2 hz2
      intro k
      by_cases hk' : (asString y == k) = true
      · have : asString y = k := by simpa using hk'
        subst this; exact htail
      · have := hf k
        simpa [List.filter_cons, hk'] using this

/-! ### purity -/

open Spec.Js (documentedMutator) in
theorem nonmutators_pure (xs : List Val) (c : Call) (o : Out)
    (hc : documentedMutator c = false) (h : run xs c = .ok o) : o.recv = xs := by
  cases c <;> simp [documentedMutator] at hc <;>
    simp only [run, slice, concat, join, indexOf, includes, find, findIndex, forEach, map, filter,
      reduce, every, someP, flat, flatMap, Model.Meth.length] at h <;>
    (repeat' (split at h)) <;>
    first
      | (cases h; rfl)
      | contradiction

end Proofs.Meth
