import Model.Resp
import Spec.Resp
/-! Helper lemmas for C13 (refinement of the buffered writer to the commit-once spec). -/
namespace Proofs.Resp
open Model.Resp Spec.Resp

theorem foldl_app_acc (l : List String) (acc : String) :
    l.foldl (· ++ ·) acc = acc ++ l.foldl (· ++ ·) "" := by
  induction l generalizing acc with
  | nil => simp
  | cons x xs ih =>
    simp only [List.foldl_cons]
    rw [ih (acc ++ x), ih ("" ++ x)]
    simp [String.append_assoc]

@[simp] theorem concat_nil : concat [] = "" := rfl

theorem concat_append (a b : List String) : concat (a ++ b) = concat a ++ concat b := by
  unfold concat; rw [List.foldl_append, foldl_app_acc]

@[simp] theorem concat_snoc (a : List String) (x : String) : concat (a ++ [x]) = concat a ++ x := by
  rw [concat_append]; simp [concat]

theorem concat_cons (x : String) (a : List String) : concat (x :: a) = x ++ concat a := by
  have := concat_append [x] a
  simpa [concat] using this

/-- the invariant tying the buffered writer to the wire -/
structure Inv (s : St) : Prop where
  sent : s.headerSent = true → s.wire.committed = true ∧ s.wire.commits = 1
  unsent : s.headerSent = false → s.wire.committed = false ∧ s.wire.commits = 0 ∧ s.wire.body = []

theorem inv_init : Inv ({} : St) := ⟨by simp, by simp⟩

theorem inv_writeHeader (s : St) (c : Nat) (h : Inv s) : Inv (s.writeHeader c) := by
  unfold St.writeHeader; split
  · exact h
  · rename_i hs; simp at hs
    obtain ⟨h1, h2, _⟩ := h.unsent hs
    constructor <;> simp [Wire.writeHeader, h1, h2]

theorem inv_sendHeader (s : St) (h : Inv s) : Inv s.sendHeader := by
  unfold St.sendHeader; split
  · exact h
  · exact inv_writeHeader _ _ h

theorem sendHeader_sent (s : St) : s.sendHeader.headerSent = true := by
  unfold St.sendHeader St.writeHeader; split <;> simp_all

theorem inv_rawWrite (s : St) (b : String) (h : Inv s) (hs : s.headerSent = true) :
    Inv (s.rawWrite b) := by
  obtain ⟨h1, h2⟩ := h.sent hs
  constructor <;> simp [St.rawWrite, Wire.write, h1, h2, hs]

theorem inv_setHeader (s : St) (k v : String) (h : Inv s) : Inv (s.setHeader k v) :=
  ⟨h.sent, h.unsent⟩

theorem inv_setStatus (s : St) (c : Nat) (h : Inv s) : Inv (s.setStatus c) := by
  unfold St.setStatus; split
  · exact h
  · exact ⟨h.sent, h.unsent⟩

theorem inv_write (s : St) (b : String) (h : Inv s) : Inv (s.write b) :=
  inv_rawWrite _ _ (inv_sendHeader _ h) (sendHeader_sent _)

theorem inv_step (s : St) (op : Op) (h : Inv s) : Inv (step s op) := by
  cases op with
  | status c => exact inv_setStatus _ _ h
  | header k v => exact inv_setHeader _ _ _ h
  | cookie v => exact ⟨h.sent, h.unsent⟩
  | write b => exact inv_write _ _ h
  | json b => exact inv_write _ _ (inv_setHeader _ _ _ h)
  | html b c =>
    cases c with
    | none => exact inv_write _ _ (inv_setHeader _ _ _ h)
    | some c => exact inv_write _ _ (inv_setHeader _ _ _ (inv_setStatus _ _ h))
  | redirect u c =>
    exact inv_rawWrite _ _ (inv_sendHeader _ (inv_setStatus _ _ (inv_setHeader _ _ _ h))) (sendHeader_sent _)
  | noContent c => exact inv_sendHeader _ (inv_setStatus _ _ h)
  | writeHeader c => exact inv_writeHeader _ _ h

theorem inv_foldl (ops : List Op) (s : St) (h : Inv s) : Inv (ops.foldl step s) := by
  induction ops generalizing s with
  | nil => simpa
  | cons o os ih => exact ih _ (inv_step _ _ h)

/-! ### phase 1: before the commit -/

/-- state reached by non-committing operations only -/
structure Pre (s : St) (ops : List Op) : Prop where
  unsent : s.headerSent = false
  wire : s.wire = {}
  hdr : s.hdr = ops.foldl hdrEffect []
  statusSet : s.statusSet = (lastStatus ops).isSome
  status : s.status = (lastStatus ops).getD 200

theorem pre_init : Pre ({} : St) [] := ⟨rfl, rfl, rfl, rfl, rfl⟩

theorem lastStatus_snoc_none (ops : List Op) (o : Op) (h : statusOf o = none) :
    lastStatus (ops ++ [o]) = lastStatus ops := by
  simp [lastStatus, List.filterMap_append, h]

theorem lastStatus_snoc_some (ops : List Op) (o : Op) (c : Nat) (h : statusOf o = some c) :
    lastStatus (ops ++ [o]) = some c := by
  simp [lastStatus, List.filterMap_append, h]

theorem pre_step (s : St) (ops : List Op) (o : Op) (h : Pre s ops) (hc : committing o = false) :
    Pre (step s o) (ops ++ [o]) := by
  obtain ⟨h1, h2, h3, h4, h5⟩ := h
  cases o with
  | status c =>
    have hl := lastStatus_snoc_some ops (.status c) c rfl
    constructor <;> simp [step, St.setStatus, h1, h2, h3, hl, List.foldl_append, hdrEffect]
  | header k v =>
    have hl := lastStatus_snoc_none ops (.header k v) rfl
    constructor <;> simp [step, St.setHeader, h1, h2, h3, h4, h5, hl, List.foldl_append, hdrEffect]
  | cookie v =>
    have hl := lastStatus_snoc_none ops (.cookie v) rfl
    constructor <;> simp [step, h1, h2, h3, h4, h5, hl, List.foldl_append, hdrEffect]
  | write b => simp [committing] at hc
  | json b => simp [committing] at hc
  | html b c => simp [committing] at hc
  | redirect u c => simp [committing] at hc
  | noContent c => simp [committing] at hc
  | writeHeader c => simp [committing] at hc

theorem pre_foldl (pre : List Op) (hall : ∀ o ∈ pre, committing o = false)
    (s : St) (done : List Op) (h : Pre s done) : Pre (pre.foldl step s) (done ++ pre) := by
  induction pre generalizing s done with
  | nil => simpa
  | cons o os ih =>
    have := ih (fun x hx => hall x (List.mem_cons_of_mem _ hx)) (step s o) (done ++ [o])
      (pre_step s done o h (hall o List.mem_cons_self))
    simpa using this

/-! ### phase 2: the committing operation -/

/-- state after the head went out -/
structure Post (s : St) (st : Nat) (h : Hdr) (body : String) : Prop where
  sent : s.headerSent = true
  committed : s.wire.committed = true
  commits : s.wire.commits = 1
  status : s.wire.status = st
  hdr : s.wire.hdrAtCommit = h
  body : concat s.wire.body = body

theorem commit_step (s : St) (ops : List Op) (o : Op) (h : Pre s ops) (hc : committing o = true) :
    Post (step s o) ((lastStatus (ops ++ [o])).getD 200) ((ops ++ [o]).foldl hdrEffect []) (bodyOf o) := by
  obtain ⟨h1, h2, h3, h4, h5⟩ := h
  cases o with
  | status c => simp [committing] at hc
  | header k v => simp [committing] at hc
  | cookie v => simp [committing] at hc
  | write b =>
    have hl := lastStatus_snoc_none ops (.write b) rfl
    constructor <;>
      simp [step, St.write, St.sendHeader, St.writeHeader, St.rawWrite, Wire.writeHeader, Wire.write,
        h1, h2, h3, h5, hl, List.foldl_append, hdrEffect, bodyOf, concat]
  | json b =>
    have hl := lastStatus_snoc_none ops (.json b) rfl
    constructor <;>
      simp [step, St.write, St.sendHeader, St.writeHeader, St.rawWrite, St.setHeader, Wire.writeHeader,
        Wire.write, h1, h2, h3, h5, hl, List.foldl_append, hdrEffect, bodyOf, concat]
  | html b c =>
    cases c with
    | none =>
      have hl := lastStatus_snoc_none ops (.html b none) rfl
      constructor <;>
        simp [step, St.write, St.sendHeader, St.writeHeader, St.rawWrite, St.setHeader, Wire.writeHeader,
          Wire.write, h1, h2, h3, h5, hl, List.foldl_append, hdrEffect, bodyOf, concat]
    | some c =>
      have hl := lastStatus_snoc_some ops (.html b (some c)) c rfl
      constructor <;>
        simp [step, St.write, St.sendHeader, St.writeHeader, St.rawWrite, St.setHeader, St.setStatus,
          Wire.writeHeader, Wire.write, h1, h2, h3, hl, List.foldl_append, hdrEffect, bodyOf, concat]
  | redirect u c =>
    have hl := lastStatus_snoc_some ops (.redirect u c) c rfl
    constructor <;>
      simp [step, St.sendHeader, St.writeHeader, St.rawWrite, St.setHeader, St.setStatus,
        Wire.writeHeader, Wire.write, h1, h2, h3, hl, List.foldl_append, hdrEffect, bodyOf, concat]
  | noContent c =>
    have hl := lastStatus_snoc_some ops (.noContent c) c rfl
    constructor <;>
      simp [step, St.sendHeader, St.writeHeader, St.setStatus,
        Wire.writeHeader, h1, h2, h3, hl, List.foldl_append, hdrEffect, bodyOf, concat]
  | writeHeader c =>
    have hl := lastStatus_snoc_some ops (.writeHeader c) c rfl
    constructor <;>
      simp [step, St.writeHeader, Wire.writeHeader, h1, h2, h3, hl, List.foldl_append, hdrEffect,
        bodyOf, concat]

/-! ### phase 3: after the commit nothing but the body changes -/

theorem post_step (s : St) (st : Nat) (h : Hdr) (body : String) (o : Op) (hp : Post s st h body) :
    Post (step s o) st h (body ++ bodyOf o) := by
  obtain ⟨p1, p2, p3, p4, p5, p6⟩ := hp
  cases o with
  | status c => constructor <;> simp [step, St.setStatus, p1, p2, p3, p4, p5, p6, bodyOf]
  | header k v => constructor <;> simp [step, St.setHeader, p1, p2, p3, p4, p5, p6, bodyOf]
  | cookie v => constructor <;> simp [step, p1, p2, p3, p4, p5, p6, bodyOf]
  | write b =>
    constructor <;>
      simp [step, St.write, St.sendHeader, St.rawWrite, Wire.write, p1, p2, p3, p4, p5, p6, bodyOf]
  | json b =>
    constructor <;>
      simp [step, St.write, St.sendHeader, St.rawWrite, St.setHeader, Wire.write, p1, p2, p3, p4, p5,
        p6, bodyOf]
  | html b c =>
    cases c <;> constructor <;>
      simp [step, St.write, St.sendHeader, St.rawWrite, St.setHeader, St.setStatus, Wire.write, p1, p2,
        p3, p4, p5, p6, bodyOf]
  | redirect u c =>
    constructor <;>
      simp [step, St.sendHeader, St.rawWrite, St.setHeader, St.setStatus, Wire.write, p1, p2, p3, p4,
        p5, p6, bodyOf]
  | noContent c =>
    constructor <;> simp [step, St.sendHeader, St.setStatus, p1, p2, p3, p4, p5, p6, bodyOf]
  | writeHeader c =>
    constructor <;> simp [step, St.writeHeader, p1, p2, p3, p4, p5, p6, bodyOf]

theorem post_foldl (ops : List Op) (s : St) (st : Nat) (h : Hdr) (body : String)
    (hp : Post s st h body) : Post (ops.foldl step s) st h (body ++ concat (ops.map bodyOf)) := by
  induction ops generalizing s body with
  | nil => simpa using hp
  | cons o os ih =>
    have := ih (step s o) (body ++ bodyOf o) (post_step s st h body o hp)
    simpa [concat_cons, String.append_assoc] using this

theorem post_finish (s : St) (st : Nat) (h : Hdr) (body : String) (hp : Post s st h body) :
    s.finish = s := by
  simp [St.finish, hp.sent]

theorem post_client (s : St) (st : Nat) (h : Hdr) (body : String) (hp : Post s st h body) :
    s.client = { status := st, hdr := h, body := body, commits := 1 } := by
  simp [St.client, hp.committed, hp.status, hp.hdr, hp.body, hp.commits]

theorem takeWhile_all (ops : List Op) :
    ∀ o ∈ ops.takeWhile (fun o => !committing o), committing o = false := by
  induction ops with
  | nil => simp
  | cons x xs ih =>
    intro o ho
    rw [List.takeWhile_cons] at ho
    split at ho
    · rename_i hx
      rcases List.mem_cons.mp ho with rfl | h
      · simpa using hx
      · exact ih o h
    · simp at ho

theorem concat_map_bodyOf_pre (pre : List Op) (hall : ∀ o ∈ pre, committing o = false) :
    concat (pre.map bodyOf) = "" := by
  induction pre with
  | nil => rfl
  | cons o os ih =>
    rw [List.map_cons, concat_cons, ih (fun x hx => hall x (List.mem_cons_of_mem _ hx))]
    have := hall o List.mem_cons_self
    cases o <;> simp_all [committing, bodyOf]

theorem dw_head (ops : List Op) (c : Op) (rest : List Op)
    (h : ops.dropWhile (fun o => !committing o) = c :: rest) : committing c = true := by
  induction ops with
  | nil => simp at h
  | cons x xs ih =>
    rw [List.dropWhile_cons] at h
    split at h
    · exact ih h
    · rename_i hx
      injection h with h1 _
      subst h1; simpa using hx

theorem dw_nil_all (ops : List Op) (h : ops.dropWhile (fun o => !committing o) = []) :
    ∀ o ∈ ops, committing o = false := by
  induction ops with
  | nil => simp
  | cons x xs ih =>
    rw [List.dropWhile_cons] at h
    split at h
    · rename_i hx
      intro o ho
      rcases List.mem_cons.mp ho with rfl | ho
      · simpa using hx
      · exact ih h o ho
    · simp at h

theorem split_append (ops₁ ops₂ : List Op) (c : Op) (rest : List Op)
    (h : ops₁.dropWhile (fun o => !committing o) = c :: rest) :
    (ops₁ ++ ops₂).takeWhile (fun o => !committing o) = ops₁.takeWhile (fun o => !committing o) ∧
    (ops₁ ++ ops₂).dropWhile (fun o => !committing o) = c :: (rest ++ ops₂) := by
  induction ops₁ with
  | nil => simp at h
  | cons x xs ih =>
    rw [List.dropWhile_cons] at h
    simp only [List.cons_append, List.takeWhile_cons, List.dropWhile_cons]
    split at h
    · rename_i hx
      simp only [hx, if_true]
      exact ⟨by rw [(ih h).1], (ih h).2⟩
    · rename_i hx
      injection h with h1 h2
      subst h1; subst h2
      simp [hx]

end Proofs.Resp
