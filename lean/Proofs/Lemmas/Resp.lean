import Model.Resp
import Spec.Resp
/-! Helper lemmas for C13 (refinement of the buffered writer to the commit-once spec). -/
namespace Proofs.Resp
open Model.Resp Spec.Resp

theorem foldl_app_acc (l : List String) (acc : String) :
    l.foldl (· ++ ·) acc = acc ++ l.foldl (· ++ ·) "" := by
  induction l generalizing acc with
  | nil => simp
  | cons x xs ih =>
    simp only [List.foldl_cons]
    rw [ih (acc ++ x), ih ("" ++ x)]
    simp [String.append_assoc]

@[simp] theorem concat_nil : concat [] = "" := rfl

theorem concat_append (a b : List String) : concat (a ++ b) = concat a ++ concat b := by
  unfold concat; rw [List.foldl_append, foldl_app_acc]

@[simp] theorem concat_snoc (a : List String) (x : String) : concat (a ++ [x]) = concat a ++ x := by
  rw [concat_append]; simp [concat]

theorem concat_cons (x : String) (a : List String) : concat (x :: a) = x ++ concat a := by
  have := concat_append [x] a
  simpa [concat] using this

/-- the invariant tying the buffered writer to the wire -/
structure Inv (s : St) : Prop where
  sent : s.headerSent = true → s.wire.committed = true ∧ s.wire.commits = 1
  unsent : s.headerSent = false → s.wire.committed = false ∧ s.wire.commits = 0 ∧ s.wire.body = []

theorem inv_init (e : Bool) : Inv ({ wire := { enforce := e } } : St) := ⟨by simp, by simp⟩

theorem bodyAllowed_eq (c : Nat) : bodyAllowed c = !noContentStatus c := by
  unfold bodyAllowed noContentStatus
  split
  · rename_i h; simp; omega
  · split
    · rename_i h; simp [h]
    · split
      · rename_i h; simp [h]
      · simp; omega

theorem inv_writeHeader (s : St) (c : Nat) (h : Inv s) : Inv (s.writeHeader c) := by
  unfold St.writeHeader; split
  · exact h
  · rename_i hs; simp at hs
    obtain ⟨h1, h2, _⟩ := h.unsent hs
    constructor <;> simp [Wire.writeHeader, h1, h2]

theorem inv_sendHeader (s : St) (h : Inv s) : Inv s.sendHeader := by
  unfold St.sendHeader; split
  · exact h
  · exact inv_writeHeader _ _ h

theorem sendHeader_sent (s : St) : s.sendHeader.headerSent = true := by
  unfold St.sendHeader St.writeHeader; split <;> simp_all

theorem inv_rawWrite (s : St) (b : String) (h : Inv s) (hs : s.headerSent = true) :
    Inv (s.rawWrite b) := by
  obtain ⟨h1, h2⟩ := h.sent hs
  constructor <;> (simp only [St.rawWrite, Wire.write, h1, if_true]; split <;> simp [h1, h2, hs])

theorem inv_setHeader (s : St) (k v : String) (h : Inv s) : Inv (s.setHeader k v) :=
  ⟨h.sent, h.unsent⟩

theorem inv_setStatus (s : St) (c : Nat) (h : Inv s) : Inv (s.setStatus c) := by
  unfold St.setStatus; split
  · exact h
  · exact ⟨h.sent, h.unsent⟩

theorem inv_write (s : St) (b : String) (h : Inv s) : Inv (s.write b) :=
  inv_rawWrite _ _ (inv_sendHeader _ h) (sendHeader_sent _)

theorem inv_step (s : St) (op : Op) (h : Inv s) : Inv (step s op) := by
  cases op with
  | status c => exact inv_setStatus _ _ h
  | header k v => exact inv_setHeader _ _ _ h
  | cookie v => exact ⟨h.sent, h.unsent⟩
  | write b => exact inv_write _ _ h
  | json b => exact inv_write _ _ (inv_setHeader _ _ _ h)
  | html b c =>
    cases c with
    | none => exact inv_write _ _ (inv_setHeader _ _ _ h)
    | some c => exact inv_write _ _ (inv_setHeader _ _ _ (inv_setStatus _ _ h))
  | redirect u c =>
    exact inv_rawWrite _ _ (inv_sendHeader _ (inv_setStatus _ _ (inv_setHeader _ _ _ h))) (sendHeader_sent _)
  | noContent c => exact inv_sendHeader _ (inv_setStatus _ _ h)
  | writeHeader c => exact inv_writeHeader _ _ h

theorem inv_foldl (ops : List Op) (s : St) (h : Inv s) : Inv (ops.foldl step s) := by
  induction ops generalizing s with
  | nil => simpa
  | cons o os ih => exact ih _ (inv_step _ _ h)

/-! ### phase 1: before the commit -/

/-- state reached by non-committing operations only -/
structure Pre (e : Bool) (s : St) (ops : List Op) : Prop where
  unsent : s.headerSent = false
  wire : s.wire = { enforce := e }
  hdr : s.hdr = ops.foldl hdrEffect []
  statusSet : s.statusSet = (lastStatus ops).isSome
  status : s.status = (lastStatus ops).getD 200

theorem pre_init (e : Bool) : Pre e ({ wire := { enforce := e } } : St) [] := ⟨rfl, rfl, rfl, rfl, rfl⟩

theorem lastStatus_snoc_none (ops : List Op) (o : Op) (h : statusOf o = none) :
    lastStatus (ops ++ [o]) = lastStatus ops := by
  simp [lastStatus, List.filterMap_append, h]

theorem lastStatus_snoc_some (ops : List Op) (o : Op) (c : Nat) (h : statusOf o = some c) :
    lastStatus (ops ++ [o]) = some c := by
  simp [lastStatus, List.filterMap_append, h]

theorem pre_step (e : Bool) (s : St) (ops : List Op) (o : Op) (h : Pre e s ops) (hc : committing o = false) :
    Pre e (step s o) (ops ++ [o]) := by
  obtain ⟨h1, h2, h3, h4, h5⟩ := h
  cases o with
  | status c =>
    have hl := lastStatus_snoc_some ops (.status c) c rfl
    constructor <;> simp [step, St.setStatus, h1, h2, h3, hl, List.foldl_append, hdrEffect]
  | header k v =>
    have hl := lastStatus_snoc_none ops (.header k v) rfl
    constructor <;> simp [step, St.setHeader, h1, h2, h3, h4, h5, hl, List.foldl_append, hdrEffect]
  | cookie v =>
    have hl := lastStatus_snoc_none ops (.cookie v) rfl
    constructor <;> simp [step, h1, h2, h3, h4, h5, hl, List.foldl_append, hdrEffect]
  | write b => simp [committing] at hc
  | json b => simp [committing] at hc
  | html b c => simp [committing] at hc
  | redirect u c => simp [committing] at hc
  | noContent c => simp [committing] at hc
  | writeHeader c => simp [committing] at hc

theorem pre_foldl (e : Bool) (pre : List Op) (hall : ∀ o ∈ pre, committing o = false)
    (s : St) (done : List Op) (h : Pre e s done) : Pre e (pre.foldl step s) (done ++ pre) := by
  induction pre generalizing s done with
  | nil => simpa
  | cons o os ih =>
    have := ih (fun x hx => hall x (List.mem_cons_of_mem _ hx)) (step s o) (done ++ [o])
      (pre_step e s done o h (hall o List.mem_cons_self))
    simpa using this

/-! ### phase 2: the committing operation -/

/-- what of the handler's body bytes `body` the wire keeps: a connection (`e`) keeps nothing when
    the committed status `st` forbids a body -/
def kept (e : Bool) (st : Nat) (body : String) : String := if e && !bodyAllowed st then "" else body

/-- state after the head went out -/
structure Post (e : Bool) (s : St) (st : Nat) (h : Hdr) (body : String) : Prop where
  sent : s.headerSent = true
  enforce : s.wire.enforce = e
  committed : s.wire.committed = true
  commits : s.wire.commits = 1
  status : s.wire.status = st
  hdr : s.wire.hdrAtCommit = h
  body : concat s.wire.body = kept e st body

theorem kept_empty (e : Bool) (st : Nat) : kept e st "" = "" := by
  unfold kept; split <;> rfl

theorem post_congr {e : Bool} {s s' : St} {st : Nat} {h : Hdr} {body : String} (hp : Post e s st h body)
    (h1 : s'.headerSent = s.headerSent) (h2 : s'.wire = s.wire) : Post e s' st h body := by
  obtain ⟨p1, pe, p2, p3, p4, p5, p6⟩ := hp
  exact ⟨by rw [h1, p1], by rw [h2, pe], by rw [h2, p2], by rw [h2, p3], by rw [h2, p4], by rw [h2, p5],
    by rw [h2, p6]⟩

theorem post_cast {e : Bool} {s : St} {st st' : Nat} {h h' : Hdr} {body body' : String}
    (hp : Post e s st h body) (h1 : st = st') (h2 : h = h') (h3 : body = body') : Post e s st' h' body' := by
  subst h1 h2 h3; exact hp

/-- a raw write after the commit: the wire keeps the chunk unless it is a connection whose committed
    status forbids a body (`ErrBodyNotAllowed`, swallowed) -/
theorem post_rawWrite {e : Bool} {s : St} {st : Nat} {h : Hdr} {body : String} (hp : Post e s st h body)
    (b : String) : Post e (s.rawWrite b) st h (body ++ b) := by
  obtain ⟨p1, pe, p2, p3, p4, p5, p6⟩ := hp
  by_cases hk : (e && !bodyAllowed st) = true
  · have hw : (s.rawWrite b).wire = s.wire := by
      have : (s.wire.enforce && !bodyAllowed s.wire.status) = true := by rw [pe, p4]; exact hk
      simp only [St.rawWrite, Wire.write, p2, if_true, this]
    refine post_congr (s := s) ⟨p1, pe, p2, p3, p4, p5, ?_⟩ rfl hw
    rw [p6]; simp only [kept, hk, if_true]
  · have hw : (s.rawWrite b).wire = { s.wire with body := s.wire.body ++ [b] } := by
      have : ¬ (s.wire.enforce && !bodyAllowed s.wire.status) = true := by rw [pe, p4]; exact hk
      simp [St.rawWrite, Wire.write, p2, this]
    refine ⟨p1, by rw [hw]; exact pe, by rw [hw]; exact p2, by rw [hw]; exact p3, by rw [hw]; exact p4,
      by rw [hw]; exact p5, ?_⟩
    have hk' : (e && !bodyAllowed st) = false := by simpa using hk
    have p6' : concat s.wire.body = body := by rw [p6, kept, hk']; rfl
    have hk2 : kept e st (body ++ b) = body ++ b := by rw [kept, hk']; rfl
    rw [hw, hk2]
    show concat (s.wire.body ++ [b]) = body ++ b
    rw [concat_snoc, p6']

theorem sendHeader_of_sent (s : St) (h : s.headerSent = true) : s.sendHeader = s := by
  simp [St.sendHeader, h]

theorem setStatus_of_sent (s : St) (c : Nat) (h : s.headerSent = true) : s.setStatus c = s := by
  simp [St.setStatus, h]

theorem writeHeader_of_sent (s : St) (c : Nat) (h : s.headerSent = true) : s.writeHeader c = s := by
  simp [St.writeHeader, h]

/-- nothing on the wire yet -/
structure Fresh (e : Bool) (s : St) : Prop where
  unsent : s.headerSent = false
  wire : s.wire = { enforce := e }

theorem fresh_setHeader {e : Bool} {s : St} (hf : Fresh e s) (k v : String) : Fresh e (s.setHeader k v) :=
  ⟨hf.unsent, hf.wire⟩

theorem fresh_setStatus {e : Bool} {s : St} (hf : Fresh e s) (c : Nat) :
    Fresh e (s.setStatus c) ∧ (s.setStatus c).status = c ∧ (s.setStatus c).hdr = s.hdr := by
  have := hf.unsent
  refine ⟨⟨?_, ?_⟩, ?_, ?_⟩ <;> simp [St.setStatus, this, hf.wire]

/-- the head goes out: `WriteHeader(c)` on a fresh writer -/
theorem fresh_writeHeader {e : Bool} {s : St} (hf : Fresh e s) (c : Nat) :
    Post e (s.writeHeader c) c s.hdr "" := by
  have h1 := hf.unsent
  have h2 := hf.wire
  constructor <;> simp [St.writeHeader, Wire.writeHeader, h1, h2, kept_empty, concat]

theorem fresh_sendHeader {e : Bool} {s : St} (hf : Fresh e s) :
    Post e s.sendHeader s.status s.hdr "" := by
  have : s.sendHeader = s.writeHeader s.status := by simp [St.sendHeader, hf.unsent]
  rw [this]; exact fresh_writeHeader hf _

theorem fresh_write {e : Bool} {s : St} (hf : Fresh e s) (b : String) :
    Post e (s.write b) s.status s.hdr b := by
  have := post_rawWrite (fresh_sendHeader hf) b
  exact post_cast this rfl rfl (by simp)

theorem commit_step (e : Bool) (s : St) (ops : List Op) (o : Op) (h : Pre e s ops) (hc : committing o = true) :
    Post e (step s o) ((lastStatus (ops ++ [o])).getD 200) ((ops ++ [o]).foldl hdrEffect []) (bodyOf o) := by
  obtain ⟨h1, h2, h3, h4, h5⟩ := h
  have hf : Fresh e s := ⟨h1, h2⟩
  cases o with
  | status c => simp [committing] at hc
  | header k v => simp [committing] at hc
  | cookie v => simp [committing] at hc
  | write b =>
    have hl := lastStatus_snoc_none ops (.write b) rfl
    exact post_cast (fresh_write hf b) (by rw [hl, h5]) (by simp [List.foldl_append, hdrEffect, h3]) rfl
  | json b =>
    have hl := lastStatus_snoc_none ops (.json b) rfl
    exact post_cast (fresh_write (fresh_setHeader hf _ _) b) (by rw [hl, ← h5]; rfl)
      (by simp [List.foldl_append, hdrEffect, h3, St.setHeader]) rfl
  | html b c =>
    cases c with
    | none =>
      have hl := lastStatus_snoc_none ops (.html b none) rfl
      exact post_cast (fresh_write (fresh_setHeader hf _ _) b) (by rw [hl, ← h5]; rfl)
        (by simp [List.foldl_append, hdrEffect, h3, St.setHeader]) rfl
    | some c =>
      have hl := lastStatus_snoc_some ops (.html b (some c)) c rfl
      obtain ⟨hf2, hs2, hh2⟩ := fresh_setStatus hf c
      exact post_cast (fresh_write (fresh_setHeader hf2 _ _) b)
        (by rw [hl]; simp [St.setHeader, hs2])
        (by simp [List.foldl_append, hdrEffect, h3, St.setHeader, hh2]) rfl
  | redirect u c =>
    have hl := lastStatus_snoc_some ops (.redirect u c) c rfl
    obtain ⟨hf2, hs2, hh2⟩ := fresh_setStatus (fresh_setHeader hf "Location" u) c
    exact post_cast (post_rawWrite (fresh_sendHeader hf2) "")
      (by rw [hl]; simp [hs2])
      (by rw [hh2]; simp [List.foldl_append, hdrEffect, h3, St.setHeader]) (by simp [bodyOf])
  | noContent c =>
    have hl := lastStatus_snoc_some ops (.noContent c) c rfl
    obtain ⟨hf2, hs2, hh2⟩ := fresh_setStatus hf c
    exact post_cast (fresh_sendHeader hf2) (by rw [hl]; simp [hs2])
      (by simp [List.foldl_append, hdrEffect, h3, hh2]) (by simp [bodyOf])
  | writeHeader c =>
    have hl := lastStatus_snoc_some ops (.writeHeader c) c rfl
    exact post_cast (fresh_writeHeader hf c) (by rw [hl]; simp)
      (by simp [List.foldl_append, hdrEffect, h3]) (by simp [bodyOf])

/-! ### phase 3: after the commit nothing but the body changes -/

theorem post_step (e : Bool) (s : St) (st : Nat) (h : Hdr) (body : String) (o : Op) (hp : Post e s st h body) :
    Post e (step s o) st h (body ++ bodyOf o) := by
  have p1 := hp.sent
  cases o with
  | status c =>
    show Post e (s.setStatus c) st h (body ++ "")
    rw [setStatus_of_sent s c p1]; exact post_cast hp rfl rfl (by simp)
  | header k v => exact post_cast (post_congr (s' := s.setHeader k v) hp rfl rfl) rfl rfl (by simp [bodyOf])
  | cookie v =>
    exact post_cast (post_congr (s' := { s with hdr := s.hdr.add "Set-Cookie" v }) hp rfl rfl) rfl rfl
      (by simp [bodyOf])
  | write b =>
    show Post e ((s.sendHeader).rawWrite b) st h (body ++ b)
    rw [sendHeader_of_sent s p1]; exact post_rawWrite hp b
  | json b =>
    have hp1 := post_congr (s' := s.setHeader "Content-Type" "application/json; charset=utf-8") hp rfl rfl
    show Post e ((St.sendHeader _).rawWrite b) st h (body ++ b)
    rw [sendHeader_of_sent _ hp1.sent]; exact post_rawWrite hp1 b
  | html b c =>
    have hp1 := post_congr (s' := s.setHeader "Content-Type" "text/html; charset=utf-8") hp rfl rfl
    cases c with
    | none =>
      show Post e ((St.sendHeader (s.setHeader _ _)).rawWrite b) st h (body ++ b)
      rw [sendHeader_of_sent _ hp1.sent]; exact post_rawWrite hp1 b
    | some c =>
      show Post e ((St.sendHeader (St.setHeader (s.setStatus c) _ _)).rawWrite b) st h (body ++ b)
      rw [setStatus_of_sent s c p1, sendHeader_of_sent _ hp1.sent]; exact post_rawWrite hp1 b
  | redirect u c =>
    have hp1 := post_congr (s' := s.setHeader "Location" u) hp rfl rfl
    show Post e ((St.sendHeader (St.setStatus (s.setHeader "Location" u) c)).rawWrite "") st h (body ++ "")
    rw [setStatus_of_sent _ c hp1.sent, sendHeader_of_sent _ hp1.sent]; exact post_rawWrite hp1 ""
  | noContent c =>
    show Post e (St.sendHeader (s.setStatus c)) st h (body ++ "")
    rw [setStatus_of_sent s c p1, sendHeader_of_sent s p1]; exact post_cast hp rfl rfl (by simp)
  | writeHeader c =>
    show Post e (s.writeHeader c) st h (body ++ "")
    rw [writeHeader_of_sent s c p1]; exact post_cast hp rfl rfl (by simp)

theorem post_foldl (e : Bool) (ops : List Op) (s : St) (st : Nat) (h : Hdr) (body : String)
    (hp : Post e s st h body) : Post e (ops.foldl step s) st h (body ++ concat (ops.map bodyOf)) := by
  induction ops generalizing s body with
  | nil => simpa using hp
  | cons o os ih =>
    have := ih (step s o) (body ++ bodyOf o) (post_step e s st h body o hp)
    simpa [concat_cons, String.append_assoc] using this

theorem post_finish (e : Bool) (s : St) (st : Nat) (h : Hdr) (body : String) (hp : Post e s st h body) :
    s.finish = s := by
  simp [St.finish, hp.sent]

theorem post_client (e : Bool) (s : St) (st : Nat) (h : Hdr) (body : String) (hp : Post e s st h body) :
    s.client = { status := st, hdr := h, body := kept e st body, commits := 1 } := by
  simp [St.client, hp.committed, hp.status, hp.hdr, hp.body, hp.commits]

theorem takeWhile_all (ops : List Op) :
    ∀ o ∈ ops.takeWhile (fun o => !committing o), committing o = false := by
  induction ops with
  | nil => simp
  | cons x xs ih =>
    intro o ho
    rw [List.takeWhile_cons] at ho
    split at ho
    · rename_i hx
      rcases List.mem_cons.mp ho with rfl | h
      · simpa using hx
      · exact ih o h
    · simp at ho

theorem concat_map_bodyOf_pre (pre : List Op) (hall : ∀ o ∈ pre, committing o = false) :
    concat (pre.map bodyOf) = "" := by
  induction pre with
  | nil => rfl
  | cons o os ih =>
    rw [List.map_cons, concat_cons, ih (fun x hx => hall x (List.mem_cons_of_mem _ hx))]
    have := hall o List.mem_cons_self
    cases o <;> simp_all [committing, bodyOf]

theorem dw_head (ops : List Op) (c : Op) (rest : List Op)
    (h : ops.dropWhile (fun o => !committing o) = c :: rest) : committing c = true := by
  induction ops with
  | nil => simp at h
  | cons x xs ih =>
    rw [List.dropWhile_cons] at h
    split at h
    · exact ih h
    · rename_i hx
      injection h with h1 _
      subst h1; simpa using hx

theorem dw_nil_all (ops : List Op) (h : ops.dropWhile (fun o => !committing o) = []) :
    ∀ o ∈ ops, committing o = false := by
  induction ops with
  | nil => simp
  | cons x xs ih =>
    rw [List.dropWhile_cons] at h
    split at h
    · rename_i hx
      intro o ho
      rcases List.mem_cons.mp ho with rfl | ho
      · simpa using hx
      · exact ih h o ho
    · simp at h

theorem split_append (ops₁ ops₂ : List Op) (c : Op) (rest : List Op)
    (h : ops₁.dropWhile (fun o => !committing o) = c :: rest) :
    (ops₁ ++ ops₂).takeWhile (fun o => !committing o) = ops₁.takeWhile (fun o => !committing o) ∧
    (ops₁ ++ ops₂).dropWhile (fun o => !committing o) = c :: (rest ++ ops₂) := by
  induction ops₁ with
  | nil => simp at h
  | cons x xs ih =>
    rw [List.dropWhile_cons] at h
    simp only [List.cons_append, List.takeWhile_cons, List.dropWhile_cons]
    split at h
    · rename_i hx
      simp only [hx, if_true]
      exact ⟨by rw [(ih h).1], (ih h).2⟩
    · rename_i hx
      injection h with h1 h2
      subst h1; subst h2
      simp [hx]

end Proofs.Resp
