import Model.Heap
import Spec.Val
/-!
C06 helper lemmas, part 1: forgetting identities (`eraseL`) commutes with every
list-level operation of one array (`storeAct`, `unsetKey`, `applyMeth`), and where
the slot values of the result come from.
-/
namespace Proofs.Heap
open Model.Heap Spec.Val

theorem eraseL_map (l : List Slot) : eraseL l = l.map (fun x => (x.2.1, eraseVal x.2.2)) := by
  induction l with
  | nil => rfl
  | cons h t ih => obtain ⟨c, k, v⟩ := h; simp [eraseL, ih]

@[simp] theorem eraseL_length (l : List Slot) : (eraseL l).length = l.length := by
  simp [eraseL_map]

@[simp] theorem tkeys_eraseL (l : List Slot) : tkeys (eraseL l) = keys l := by
  simp [tkeys, keys, eraseL_map, List.map_map, Function.comp_def]

theorem eraseL_append (a b : List Slot) : eraseL (a ++ b) = eraseL a ++ eraseL b := by
  simp [eraseL_map]

theorem eraseL_getElem? (l : List Slot) (j : Nat) :
    (eraseL l)[j]? = (l[j]?).map (fun x => (x.2.1, eraseVal x.2.2)) := by
  simp [eraseL_map]

theorem eraseL_set (l : List Slot) (j : Nat) (x : Slot) :
    eraseL (l.set j x) = (eraseL l).set j (x.2.1, eraseVal x.2.2) := by
  simp [eraseL_map, List.map_set]

theorem eraseL_eraseIdx (l : List Slot) (j : Nat) : eraseL (l.eraseIdx j) = (eraseL l).eraseIdx j := by
  induction l generalizing j with
  | nil => simp [eraseL]
  | cons h t ih =>
    obtain ⟨c, k, v⟩ := h
    cases j with
    | zero => simp [eraseL]
    | succ j => simp [eraseL, ih]

theorem eraseL_dropLast (l : List Slot) : eraseL l.dropLast = (eraseL l).dropLast := by
  simp [eraseL_map]

theorem eraseL_tail (l : List Slot) : eraseL l.tail = (eraseL l).tail := by
  simp [eraseL_map]

theorem erase_storeSlot (l : List Slot) (j cid : Nat) (v : Val) :
    eraseL (storeSlot l j cid v) = setVal (eraseL l) j (eraseVal v) := by
  unfold storeSlot setVal
  rw [eraseL_getElem?]
  cases h : l[j]? with
  | none => simp
  | some x => obtain ⟨c, k, w⟩ := x; simp [eraseL_set]

/-- the result of a store on the fixed tree is always a new slot list -/
def Act.slots (l : List Slot) : Act → List Slot
  | .list l' => l'
  | .cell _ _ => l

theorem setIntKey_fixed (l : List Slot) (i cid : Nat) (v : Val) :
    ∃ l', setIntKey .fixed l i cid v = .list l' ∧ eraseL l' = store (eraseL l) (some (.int i)) (eraseVal v) := by
  unfold setIntKey store
  simp only [tkeys_eraseL, eraseL_length]
  cases h : Keys.findInt i (keys l) with
  | some j => exact ⟨_, by simp [hitAct, Cfg.fixed], erase_storeSlot l j cid v⟩
  | none =>
    by_cases h1 : i = l.length
    · exact ⟨l ++ [(cid, .pos, v)], by simp [h1], by simp [h1, eraseL_append, eraseL]⟩
    · by_cases h2 : l.length < i
      · exact ⟨l ++ [(cid, .int i, v)], by simp [h1, h2], by simp [h1, h2, eraseL_append, eraseL]⟩
      · exact ⟨l.set i (cid, .pos, v), by simp [h1, h2], by simp [h1, h2, eraseL_set]⟩

theorem setNamedKey_fixed (l : List Slot) (k : Key) (cid : Nat) (v : Val) :
    ∃ l', setNamedKey .fixed l k cid v = .list l' ∧
      eraseL l' = (match Keys.findKey k (keys l) with
        | some j => setVal (eraseL l) j (eraseVal v)
        | none => eraseL l ++ [(k, eraseVal v)]) := by
  unfold setNamedKey
  cases h : Keys.findKey k (keys l) with
  | some j => exact ⟨_, by simp [hitAct, Cfg.fixed], erase_storeSlot l j cid v⟩
  | none => exact ⟨_, rfl, by simp [eraseL_append, eraseL]⟩

/-- `storeAct` on the fixed tree: a new slot list whose erasure is the spec's `store` -/
theorem storeAct_fixed (l : List Slot) (k : Option IKey) (cid : Nat) (v : Val) :
    ∃ l', storeAct .fixed l k cid v = .list l' ∧ eraseL l' = store (eraseL l) k (eraseVal v) := by
  cases k with
  | none => exact ⟨_, rfl, by simp [store, eraseL_append, eraseL]⟩
  | some k =>
    cases k with
    | int i => exact setIntKey_fixed l i cid v
    | str s =>
      obtain ⟨l', h1, h2⟩ := setNamedKey_fixed l (.str s) cid v
      refine ⟨l', h1, ?_⟩
      rw [h2]; simp only [store, tkeys_eraseL]
      cases Keys.findKey (.str s) (keys l) <;> rfl

theorem erase_normFrom (j cid0 : Nat) (l : List Slot) :
    eraseL (Model.Heap.normFrom j cid0 l) = Spec.Val.normFrom j (eraseL l) := by
  induction l generalizing j with
  | nil => rfl
  | cons h t ih =>
    obtain ⟨c, k, v⟩ := h
    by_cases hk : k = .pos <;> simp [Model.Heap.normFrom, Spec.Val.normFrom, eraseL, hk, ih]

theorem erase_unsetKey (l : List Slot) (k : IKey) (cid0 : Nat) :
    eraseL (unsetKey l k cid0).1 = unsetK (eraseL l) k := by
  cases k with
  | int i =>
    simp only [unsetKey, unsetK]
    rw [← erase_normFrom 0 cid0 l, tkeys_eraseL]
    cases Keys.findKey (.int i) (keys (Model.Heap.normFrom 0 cid0 l)) with
    | none => rfl
    | some j => simp [eraseL_eraseIdx]
  | str s =>
    simp only [unsetKey, unsetK, tkeys_eraseL]
    cases Keys.findKey (.str s) (keys l) with
    | none => rfl
    | some j => simp [eraseL_eraseIdx]

theorem rank_erase (v : Val) : (eraseVal v).rank = v.rank := by
  cases v with
  | sc s => cases s <;> simp [eraseVal, Val.rank, Tree.rank]
  | arr a kids => simp [eraseVal, Val.rank, Tree.rank]

theorem erase_insSlot (x : Slot) (l : List Slot) :
    eraseL (insSlot x l) = insEntry (x.2.1, eraseVal x.2.2) (eraseL l) := by
  induction l with
  | nil => obtain ⟨c, k, v⟩ := x; simp [insSlot, insEntry, eraseL]
  | cons y ys ih =>
    obtain ⟨c, k, v⟩ := x
    obtain ⟨c', k', v'⟩ := y
    simp only [insSlot, insEntry, eraseL, rank_erase]
    split
    · simp [eraseL]
    · simp only [eraseL]; rw [ih]

theorem erase_sortSlots (l : List Slot) : eraseL (sortSlots l) = sortEntries (eraseL l) := by
  unfold sortSlots sortEntries
  suffices h : ∀ acc : List Slot, eraseL (l.foldl (fun acc x => insSlot x acc) acc) =
      (eraseL l).foldl (fun acc x => insEntry x acc) (eraseL acc) from h []
  induction l with
  | nil => intro acc; rfl
  | cons x t ih =>
    intro acc
    obtain ⟨c, k, v⟩ := x
    simp only [List.foldl, eraseL]
    rw [ih, erase_insSlot]

theorem erase_applyMeth (l : List Slot) (m : Meth) (cid : Nat) :
    eraseL (Model.Heap.applyMeth l m cid) = Spec.Val.applyMeth (eraseL l) m := by
  cases m with
  | push n => simp [Model.Heap.applyMeth, Spec.Val.applyMeth, eraseL_append, eraseL, eraseVal]
  | pop => simp [Model.Heap.applyMeth, Spec.Val.applyMeth, eraseL_dropLast]
  | shift => simp [Model.Heap.applyMeth, Spec.Val.applyMeth, eraseL_tail]
  | unshift n => simp [Model.Heap.applyMeth, Spec.Val.applyMeth, eraseL, eraseVal]
  | sort => simp [Model.Heap.applyMeth, Spec.Val.applyMeth, erase_sortSlots]

/-! ### where the slot values of a result come from -/

/-- every slot value of `l'` is a slot value of `l` or is `x` -/
def ValsFrom (l' l : List Slot) (x : Val) : Prop :=
  ∀ sl ∈ l', (∃ sl0 ∈ l, sl.2.2 = sl0.2.2) ∨ sl.2.2 = x

theorem ValsFrom.refl (l : List Slot) (x : Val) : ValsFrom l l x :=
  fun sl h => Or.inl ⟨sl, h, rfl⟩

theorem valsFrom_set (l : List Slot) (j c : Nat) (k : Key) (x : Val) : ValsFrom (l.set j (c, k, x)) l x := by
  intro sl h
  rcases List.mem_or_eq_of_mem_set h with h | h
  · exact Or.inl ⟨sl, h, rfl⟩
  · exact Or.inr (by rw [h])

theorem valsFrom_snoc (l : List Slot) (c : Nat) (k : Key) (x : Val) : ValsFrom (l ++ [(c, k, x)]) l x := by
  intro sl h
  rcases List.mem_append.mp h with h | h
  · exact Or.inl ⟨sl, h, rfl⟩
  · simp at h; exact Or.inr (by rw [h])

theorem valsFrom_storeSlot (l : List Slot) (j c : Nat) (x : Val) : ValsFrom (storeSlot l j c x) l x := by
  unfold storeSlot
  split
  · exact valsFrom_set _ _ _ _ _
  · exact ValsFrom.refl _ _

theorem valsFrom_storeAct (l l' : List Slot) (k : Option IKey) (c : Nat) (x : Val)
    (h : storeAct .fixed l k c x = .list l') : ValsFrom l' l x := by
  cases k with
  | none => simp [storeAct] at h; subst h; exact valsFrom_snoc _ _ _ _
  | some k =>
    cases k with
    | int i =>
      simp only [storeAct, setIntKey] at h
      split at h
      · simp [hitAct, Cfg.fixed] at h; subst h; exact valsFrom_storeSlot _ _ _ _
      · split at h
        · simp at h; subst h; exact valsFrom_snoc _ _ _ _
        · split at h
          · simp at h; subst h; exact valsFrom_snoc _ _ _ _
          · simp at h; subst h; exact valsFrom_set _ _ _ _ _
    | str s =>
      simp only [storeAct, setNamedKey] at h
      split at h
      · simp [hitAct, Cfg.fixed] at h; subst h; exact valsFrom_storeSlot _ _ _ _
      · simp at h; subst h; exact valsFrom_snoc _ _ _ _

theorem valsFrom_of_sub (l' l : List Slot) (x : Val) (h : ∀ sl ∈ l', ∃ sl0 ∈ l, sl.2.2 = sl0.2.2) :
    ValsFrom l' l x := fun sl hs => Or.inl (h sl hs)

theorem normFrom_vals (j cid0 : Nat) (l : List Slot) :
    ∀ sl ∈ Model.Heap.normFrom j cid0 l, ∃ sl0 ∈ l, sl.2.2 = sl0.2.2 := by
  induction l generalizing j with
  | nil => intro sl h; simp [Model.Heap.normFrom] at h
  | cons hd t ih =>
    obtain ⟨c, k, v⟩ := hd
    intro sl h
    simp only [Model.Heap.normFrom, List.mem_cons] at h
    rcases h with h | h
    · refine ⟨(c, k, v), by simp, ?_⟩
      split at h <;> simp [h]
    · obtain ⟨sl0, h0, e⟩ := ih (j + 1) sl h
      exact ⟨sl0, List.mem_cons_of_mem _ h0, e⟩

theorem unsetKey_vals (l : List Slot) (k : IKey) (cid0 : Nat) :
    ∀ sl ∈ (unsetKey l k cid0).1, ∃ sl0 ∈ l, sl.2.2 = sl0.2.2 := by
  intro sl h
  cases k with
  | int i =>
    simp only [unsetKey] at h
    split at h
    · exact normFrom_vals 0 cid0 l sl (List.mem_of_mem_eraseIdx h)
    · exact normFrom_vals 0 cid0 l sl h
  | str s =>
    simp only [unsetKey] at h
    split at h
    · exact ⟨sl, List.mem_of_mem_eraseIdx h, rfl⟩
    · exact ⟨sl, h, rfl⟩

theorem mem_insSlot (x sl : Slot) (l : List Slot) : sl ∈ insSlot x l ↔ sl = x ∨ sl ∈ l := by
  induction l with
  | nil => simp [insSlot]
  | cons y ys ih =>
    simp only [insSlot]
    split
    · simp
    · simp [ih]; constructor
      · rintro (h | h | h) <;> simp [h]
      · rintro (h | h | h) <;> simp [h]

theorem mem_sortSlots (sl : Slot) (l : List Slot) : sl ∈ sortSlots l ↔ sl ∈ l := by
  unfold sortSlots
  suffices h : ∀ acc : List Slot, sl ∈ l.foldl (fun acc x => insSlot x acc) acc ↔ sl ∈ l ∨ sl ∈ acc by
    simpa using h []
  induction l with
  | nil => intro acc; simp
  | cons x t ih =>
    intro acc
    simp only [List.foldl, ih, mem_insSlot, List.mem_cons]
    constructor
    · rintro (h | h | h) <;> simp [h]
    · rintro ((h | h) | h) <;> simp [h]

theorem applyMeth_vals (l : List Slot) (m : Meth) (cid : Nat) :
    ∀ sl ∈ Model.Heap.applyMeth l m cid, (∃ sl0 ∈ l, sl.2.2 = sl0.2.2) ∨ ∃ n, sl.2.2 = .sc (.int n) := by
  intro sl h
  cases m with
  | push n =>
    simp only [Model.Heap.applyMeth, List.mem_append, List.mem_singleton] at h
    rcases h with h | h
    · exact Or.inl ⟨sl, h, rfl⟩
    · exact Or.inr ⟨n, by rw [h]⟩
  | pop => exact Or.inl ⟨sl, List.dropLast_subset _ h, rfl⟩
  | shift => exact Or.inl ⟨sl, List.mem_of_mem_tail h, rfl⟩
  | unshift n =>
    simp only [Model.Heap.applyMeth, List.mem_cons] at h
    rcases h with h | h
    · exact Or.inr ⟨n, by rw [h]⟩
    · exact Or.inl ⟨sl, h, rfl⟩
  | sort => exact Or.inl ⟨sl, (mem_sortSlots sl l).mp h, rfl⟩

/-! ### array identities of a slot list -/

theorem mem_aidsL (i : Nat) (l : List Slot) : i ∈ aidsL l ↔ ∃ sl ∈ l, i ∈ sl.2.2.aids := by
  induction l with
  | nil => simp [aidsL]
  | cons h t ih =>
    obtain ⟨c, k, v⟩ := h
    simp [aidsL, ih]

/-- array identities strictly inside a value -/
def innerAids : Val → List Nat
  | .sc _ => []
  | .arr _ kids => aidsL kids

theorem innerAids_sub (v : Val) : ∀ i ∈ innerAids v, i ∈ v.aids := by
  cases v with
  | sc s => simp [innerAids]
  | arr a kids => intro i h; simp [innerAids] at h; simp [Val.aids, h]

end Proofs.Heap
