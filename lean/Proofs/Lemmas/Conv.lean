import Model.Conv
import Spec.Conv
/-!
Helper definitions and lemmas for C17: decidable well-formedness of the regenerated kind-switch
tables and what it implies for `toGo`, `toScript`, `call`, `convertValue`.
-/
namespace Proofs.Conv
open Model.Conv Spec.Conv

/-! ### well-formedness of the script → Go table -/

/-- the kinds an accessor's result can be handed to without changing the value -/
def exactKinds : Acc → List Kind
  | .asString => [.string]
  | .asInt => [.int, .int64]
  | .asFloat => [.float64]
  | .asBool => [.bool]

/-- an arm hands over a value of exactly the requested type: no narrowing typed conversion,
`.Convert(goType)` present, and only kinds that hold every value of the accessor's type -/
def InArm.exact (a : InArm) : Bool :=
  a.convert && a.produced == a.acc.kind && a.kinds.all (fun k => (exactKinds a.acc).contains k)

def InWF (tbl : List InArm) : Bool := tbl.all InArm.exact

/-- every supported kind has an arm -/
def InCovers (tbl : List InArm) : Bool := supported.all (fun k => (findIn tbl k).isSome)

/-- the obligation on the regenerated table -/
def tableExact (tbl : List InArm) : Bool := InWF tbl && InCovers tbl

theorem findIn_some {tbl : List InArm} {k : Kind} {a : InArm} (h : findIn tbl k = some a) :
    a ∈ tbl ∧ a.kinds.contains k = true := by
  unfold findIn at h
  exact ⟨List.mem_of_find?_eq_some h, by simpa using List.find?_some h⟩

theorem arm_of_wf {tbl : List InArm} (hwf : InWF tbl = true) {k : Kind} {a : InArm}
    (h : findIn tbl k = some a) :
    a.convert = true ∧ a.produced = a.acc.kind ∧ (exactKinds a.acc).contains k = true := by
  obtain ⟨hm, hk⟩ := findIn_some h
  have ha : InArm.exact a = true := by
    unfold InWF at hwf
    exact (List.all_eq_true.mp hwf) a hm
  unfold InArm.exact at ha
  simp only [Bool.and_eq_true, beq_iff_eq, List.all_eq_true] at ha
  refine ⟨ha.1.1, ha.1.2, ?_⟩
  have : k ∈ a.kinds := by simpa using hk
  exact ha.2 k this

/-! ### integer facts -/

theorem wrap_of_fits {k : Kind} {n : Int} (h : k.fits n = true) : k.wrap n = n := by
  unfold Kind.fits at h
  unfold Kind.wrap
  cases k <;> simp [Kind.intRange] at h ⊢ <;> omega

theorem fits_int_of_fits_int64 {n : Int} : Kind.int64.fits n = Kind.int.fits n := by
  simp [Kind.fits, Kind.intRange]

theorem fits_signed_int {k : Kind} {n : Int} (hs : k.isSigned = true) (h : k.fits n = true) :
    Kind.int.fits n = true := by
  cases k <;> simp [Kind.isSigned] at hs <;> simp [Kind.fits, Kind.intRange] at h ⊢ <;> omega

/-! ### toGo under a well-formed table -/

/-- class of the payload an accessor yields -/
def payloadIs (k : Kind) : Payload → Bool
  | .str _ => k == .string
  | .int _ => k.isInt
  | .flt _ => k.isFloat
  | .bool _ => k == .bool
  | .opaque => false

theorem access_class (pr : Prim) (a : Acc) (v : SVal) (p : Payload) (h : access pr a v = .ok p) :
    payloadIs a.kind p = true := by
  cases a <;> cases v <;> simp [access] at h <;> try (subst h; rfl)
  all_goals (rename_i s; cases s <;> simp at h)
  all_goals (split at h <;> simp at h; subst h; rfl)

/-- under a well-formed table `toGo` never panics, and a value it returns has exactly the
requested type -/
theorem toGo_wf (pr : Prim) {tbl : List InArm} (hwf : InWF tbl = true) (t : GoType) (v : SVal) :
    (∃ g, toGo pr tbl t v = .ok g ∧ g.ty = t) ∨ (∃ e, toGo pr tbl t v = .throw e) := by
  unfold toGo
  cases hf : findIn tbl t.kind with
  | none => exact .inr ⟨_, rfl⟩
  | some a =>
    obtain ⟨hc, hp, hk⟩ := arm_of_wf hwf hf
    simp only
    cases hacc : access pr a.acc v with
    | notImpl => exact .inr ⟨_, rfl⟩
    | err => exact .inr ⟨_, rfl⟩
    | ok p =>
      have hcl := access_class pr a.acc v p hacc
      simp only [hp, hc, if_true]
      -- the four accessors, the kinds they may serve
      cases hA : a.acc <;> rw [hA] at hcl hk <;> simp [exactKinds] at hk <;>
        cases p <;> simp [payloadIs, Acc.kind, Kind.isInt, Kind.isFloat, Kind.intRange] at hcl
      · -- asString
        left; simp [castP, Acc.kind, convertTo, hk]
      · -- asInt
        left
        rcases hk with hk | hk <;>
          simp [castP, Acc.kind, convertTo, hk, Kind.isInt, Kind.intRange]
      · -- asFloat
        left; simp [castP, Acc.kind, convertTo, hk, Kind.isFloat]
      · -- asBool
        left; simp [castP, Acc.kind, convertTo, hk]

theorem toGo_no_panic (pr : Prim) {tbl : List InArm} (hwf : InWF tbl = true) (t : GoType) (v : SVal) :
    (toGo pr tbl t v).isPanic = false := by
  rcases toGo_wf pr hwf t v with ⟨g, h, _⟩ | ⟨e, h⟩ <;> simp [h, Outcome.isPanic]

/-! ### the Go → script table -/

def OutArm.exact (a : OutArm) : Bool :=
  match a.acc, a.cast, a.ctor with
  | .string, none, .str => a.kinds.all (fun k => k == .string)
  | .int, some .int, .int => a.kinds.all Kind.isSigned
  | .float, none, .float => a.kinds.all Kind.isFloat
  | .bool, none, .bool => a.kinds.all (fun k => k == .bool)
  | _, _, _ => false

def OutWF (tbl : List OutArm) : Bool := tbl.all OutArm.exact
def OutCovers (tbl : List OutArm) : Bool := supported.all (fun k => (findOut tbl k).isSome)
def outTableExact (tbl : List OutArm) : Bool := OutWF tbl && OutCovers tbl

theorem findOut_some {tbl : List OutArm} {k : Kind} {a : OutArm} (h : findOut tbl k = some a) :
    a ∈ tbl ∧ k ∈ a.kinds := by
  unfold findOut at h
  exact ⟨List.mem_of_find?_eq_some h, by simpa using List.find?_some h⟩

theorem outArm_of_wf {tbl : List OutArm} (hwf : OutWF tbl = true) {k : Kind} {a : OutArm}
    (h : findOut tbl k = some a) : OutArm.exact a = true ∧ k ∈ a.kinds := by
  obtain ⟨hm, hk⟩ := findOut_some h
  unfold OutWF at hwf
  exact ⟨(List.all_eq_true.mp hwf) a hm, hk⟩

/-! ### exactness of toGo -/

theorem mem_supported {k : Kind} (h : supported.contains k = true) :
    k = .string ∨ k = .bool ∨ k = .int ∨ k = .int64 ∨ k = .float64 := by
  simp [supported] at h
  rcases h with h | h | h | h | h <;> simp [h]

theorem covers_find {tbl : List InArm} (hc : InCovers tbl = true) {k : Kind}
    (hk : supported.contains k = true) : ∃ a, findIn tbl k = some a := by
  unfold InCovers at hc
  have := (List.all_eq_true.mp hc) k (by simpa using hk)
  exact Option.isSome_iff_exists.mp this

/-- what an exact arm does once the accessor has produced a payload -/
theorem toGo_arm (pr : Prim) {tbl : List InArm} (hwf : InWF tbl = true) (t : GoType) (v : SVal)
    {a : InArm} (hf : findIn tbl t.kind = some a) (p : Payload) (hacc : access pr a.acc v = .ok p) :
    toGo pr tbl t v = convertTo pr ⟨⟨a.acc.kind, 0⟩, p⟩ t := by
  obtain ⟨hcv, hp, hex⟩ := arm_of_wf hwf hf
  unfold toGo
  simp [hf, hacc, hp, hcv]

/-- the accessor that serves a supported kind -/
theorem acc_of_kind {a : InArm} {k : Kind} (hex : (exactKinds a.acc).contains k = true) :
    (k = .string ∧ a.acc = .asString) ∨ ((k = .int ∨ k = .int64) ∧ a.acc = .asInt) ∨
    (k = .float64 ∧ a.acc = .asFloat) ∨ (k = .bool ∧ a.acc = .asBool) := by
  cases hA : a.acc <;> rw [hA] at hex <;> simp [exactKinds] at hex <;> simp [hex]

theorem toGo_exact (pr : Prim) {tbl : List InArm} (hwf : InWF tbl = true) (hc : InCovers tbl = true)
    (t : GoType) (hk : supported.contains t.kind = true) (v : SVal) (g : GoVal)
    (hd : denote t v = some g) : toGo pr tbl t v = .ok g := by
  obtain ⟨a, hf⟩ := covers_find hc hk
  obtain ⟨hcv, hp, hex⟩ := arm_of_wf hwf hf
  rcases acc_of_kind hex with ⟨hk', hA⟩ | ⟨hk', hA⟩ | ⟨hk', hA⟩ | ⟨hk', hA⟩
  · cases v <;> simp [denote, hk', Kind.fits, Kind.intRange] at hd
    subst hd
    rw [toGo_arm pr hwf t _ hf (.str _) (by rw [hA]; rfl)]
    simp [convertTo, castP, hA, Acc.kind, hk', SVal.asString]
  · cases v <;> (try (rcases hk' with hk' | hk' <;> simp [denote, hk', Kind.fits, Kind.intRange] at hd; done))
    rename_i n
    have hr : Kind.int.fits n = true ∧ g = ⟨t, .int n⟩ := by
      rcases hk' with hk' | hk' <;> simp [denote, hk', Kind.fits, Kind.intRange] at hd ⊢ <;>
        exact ⟨hd.1, hd.2.symm⟩
    obtain ⟨hr, hg⟩ := hr
    subst hg
    rw [toGo_arm pr hwf t _ hf (.int n) (by rw [hA]; rfl)]
    have hw : t.kind.wrap n = n := by
      rcases hk' with hk' | hk' <;> rw [hk'] <;> apply wrap_of_fits
      · exact hr
      · rw [fits_int_of_fits_int64]; exact hr
    rcases hk' with hk' | hk' <;>
      simp [convertTo, castP, hA, Acc.kind, Kind.isInt, Kind.intRange, hk'] <;> rw [hk'] at hw <;> exact hw
  · cases v <;> simp [denote, hk', Kind.fits, Kind.intRange] at hd
    subst hd
    rw [toGo_arm pr hwf t _ hf (.flt _) (by rw [hA]; rfl)]
    simp [convertTo, castP, hA, Acc.kind, hk', Kind.isFloat]
  · cases v <;> simp [denote, hk', Kind.fits, Kind.intRange] at hd
    subst hd
    rw [toGo_arm pr hwf t _ hf (.bool _) (by rw [hA]; rfl)]
    simp [convertTo, castP, hA, Acc.kind, hk']

/-- kinds outside the arms of a well-formed table are refused with a catchable error -/
theorem toGo_unsupported (pr : Prim) {tbl : List InArm} (hwf : InWF tbl = true) (t : GoType)
    (hk : supported.contains t.kind = false) (v : SVal) : toGo pr tbl t v = .throw .unsupportedType := by
  unfold toGo
  cases hf : findIn tbl t.kind with
  | none => rfl
  | some a =>
    obtain ⟨_, _, hex⟩ := arm_of_wf hwf hf
    exfalso
    rcases acc_of_kind hex with ⟨hk', _⟩ | ⟨hk' | hk', _⟩ | ⟨hk', _⟩ | ⟨hk', _⟩ <;>
      simp [supported, hk'] at hk

/-! ### toScript under a well-formed table -/

/-- the shapes an exact out-arm can have -/
theorem outArm_shape {a : OutArm} (h : OutArm.exact a = true) :
    (a.acc = .string ∧ a.cast = none ∧ a.ctor = .str ∧ ∀ k ∈ a.kinds, k = .string) ∨
    (a.acc = .int ∧ a.cast = some .int ∧ a.ctor = .int ∧ ∀ k ∈ a.kinds, k.isSigned = true) ∨
    (a.acc = .float ∧ a.cast = none ∧ a.ctor = .float ∧ ∀ k ∈ a.kinds, k.isFloat = true) ∨
    (a.acc = .bool ∧ a.cast = none ∧ a.ctor = .bool ∧ ∀ k ∈ a.kinds, k = .bool) := by
  unfold OutArm.exact at h
  split at h <;> simp_all <;> exact h

theorem toScript_arm (pr : Prim) {tbl : List OutArm} (hwf : OutWF tbl = true) (g : GoVal)
    (hg : g.wt = true) {a : OutArm} (hf : findOut tbl g.ty.kind = some a) :
    ∃ v, toScript pr tbl g = .ok v ∧
      ((g.ty.kind = .string ∧ ∃ s, g.val = .str s ∧ v = .str s) ∨
       (g.ty.kind.isSigned = true ∧ ∃ n, g.val = .int n ∧ v = .int (Kind.int.wrap n)) ∨
       (g.ty.kind.isFloat = true ∧ ∃ f, g.val = .flt f ∧ v = .float f) ∨
       (g.ty.kind = .bool ∧ ∃ b, g.val = .bool b ∧ v = .bool b)) := by
  obtain ⟨hex, hk⟩ := outArm_of_wf hwf hf
  obtain ⟨ty, val⟩ := g
  obtain ⟨k, nm⟩ := ty
  simp only at hk hf ⊢
  unfold toScript
  simp only [hf]
  rcases outArm_shape hex with ⟨h1, h2, h3, h4⟩ | ⟨h1, h2, h3, h4⟩ | ⟨h1, h2, h3, h4⟩ | ⟨h1, h2, h3, h4⟩
  · have := h4 k hk; subst this
    cases val <;> simp [GoVal.wt, Kind.fits, Kind.intRange] at hg
    simp [h1, h2, h3, gaccess, GAcc.kind, SCtor.kind, construct]
  · have hs := h4 k hk
    cases val <;> cases k <;> simp [Kind.isSigned] at hs <;>
      simp [GoVal.wt, Kind.fits, Kind.intRange] at hg <;>
      simp [h1, h2, h3, gaccess, GAcc.kind, castP, SCtor.kind, construct, Kind.isSigned,
        Kind.isInt, Kind.intRange, Kind.isFloat]
  · have hs := h4 k hk
    cases val <;> cases k <;> simp [Kind.isFloat] at hs <;>
      simp [GoVal.wt, Kind.fits, Kind.intRange] at hg <;>
      simp [h1, h2, h3, gaccess, GAcc.kind, SCtor.kind, construct, Kind.isFloat, Kind.isSigned]
  · have := h4 k hk; subst this
    cases val <;> simp [GoVal.wt, Kind.fits, Kind.intRange] at hg
    simp [h1, h2, h3, gaccess, GAcc.kind, SCtor.kind, construct, Kind.isSigned, Kind.isFloat]

theorem toScript_no_panic (pr : Prim) {tbl : List OutArm} (hwf : OutWF tbl = true) (g : GoVal)
    (hg : g.wt = true) : ∃ v, toScript pr tbl g = .ok v := by
  cases hf : findOut tbl g.ty.kind with
  | none => exact ⟨.str (fmtV g), by unfold toScript; simp [hf]⟩
  | some a =>
    obtain ⟨v, hv, _⟩ := toScript_arm pr hwf g hg hf
    exact ⟨v, hv⟩

theorem outCovers_find {tbl : List OutArm} (hc : OutCovers tbl = true) {k : Kind}
    (hk : supported.contains k = true) : ∃ a, findOut tbl k = some a := by
  unfold OutCovers at hc
  have := (List.all_eq_true.mp hc) k (by simpa using hk)
  exact Option.isSome_iff_exists.mp this

/-- a well-typed Go value of a supported kind arrives in the script as exactly that value -/
theorem toScript_exact (pr : Prim) {tbl : List OutArm} (hwf : OutWF tbl = true) (hc : OutCovers tbl = true)
    (g : GoVal) (hg : g.wt = true) (hk : supported.contains g.ty.kind = true) :
    ∃ v, reflectBack g = some v ∧ toScript pr tbl g = .ok v := by
  obtain ⟨a, hf⟩ := outCovers_find hc hk
  obtain ⟨v, hv, hsh⟩ := toScript_arm pr hwf g hg hf
  refine ⟨v, ?_, hv⟩
  obtain ⟨ty, val⟩ := g
  obtain ⟨k, nm⟩ := ty
  simp only at hk hsh hg ⊢
  rcases hsh with ⟨h1, s, h2, h3⟩ | ⟨h1, n, h2, h3⟩ | ⟨h1, f, h2, h3⟩ | ⟨h1, b, h2, h3⟩
  · subst h1 h2 h3; rfl
  · subst h2 h3
    have hfit : k.fits n = true := by
      cases k <;> simp [Kind.isSigned] at h1 <;> simpa [GoVal.wt] using hg
    have hw := wrap_of_fits (fits_signed_int h1 hfit)
    cases k <;> simp [Kind.isSigned] at h1 <;> simp [reflectBack, Kind.isSigned, hfit, hw]
  · subst h2 h3
    rcases mem_supported hk with h | h | h | h | h <;> subst h <;> simp [Kind.isFloat] at h1
    rfl
  · subst h1 h2 h3; rfl

/-! ### argument lists and the call -/

theorem convArgs_wf (pr : Prim) {tin : List InArm} (hwf : InWF tin = true) :
    ∀ (ps : List GoType) (as : List SVal),
      (∃ gs, convArgs pr tin ps as = .ok gs ∧ assignableAll ps gs = true) ∨
      (∃ e, convArgs pr tin ps as = .throw e) := by
  intro ps
  induction ps with
  | nil => intro as; left; exact ⟨[], by simp [convArgs], rfl⟩
  | cons t ts ih =>
    intro as
    have step : ∀ (v : SVal) (rest : List SVal),
        (∃ gs, ((toGo pr tin t v).bind fun g => (convArgs pr tin ts rest).map (g :: ·)) = .ok gs ∧
          assignableAll (t :: ts) gs = true) ∨
        (∃ e, ((toGo pr tin t v).bind fun g => (convArgs pr tin ts rest).map (g :: ·)) = .throw e) := by
      intro v rest
      rcases toGo_wf pr hwf t v with ⟨g, hg, hty⟩ | ⟨e, he⟩
      · rcases ih rest with ⟨gs, hgs, hasg⟩ | ⟨e, he⟩
        · left; exact ⟨g :: gs, by simp [hg, hgs, Outcome.bind, Outcome.map], by simp [assignableAll, hty, hasg]⟩
        · right; exact ⟨e, by simp [hg, he, Outcome.bind, Outcome.map]⟩
      · right; exact ⟨e, by simp [he, Outcome.bind]⟩
    cases as with
    | nil => simpa [convArgs] using step .null []
    | cons a as => simpa [convArgs] using step a as

/-- arguments that denote at supported parameter types are all handed over exactly -/
theorem convArgs_exact (pr : Prim) {tin : List InArm} (hwf : InWF tin = true) (hc : InCovers tin = true) :
    ∀ (ps : List GoType) (as : List SVal) (gs : List GoVal),
      (∀ t ∈ ps, supported.contains t.kind = true) → denoteAll ps as = some gs →
      convArgs pr tin ps as = .ok gs := by
  intro ps
  induction ps with
  | nil => intro as gs _ hd; cases as <;> simp [denoteAll] at hd; subst hd; simp [convArgs]
  | cons t ts ih =>
    intro as gs hs hd
    cases as with
    | nil => simp [denoteAll] at hd
    | cons a as =>
      simp only [denoteAll] at hd
      cases h1 : denote t a with
      | none => simp [h1] at hd
      | some g =>
        cases h2 : denoteAll ts as with
        | none => simp [h1, h2] at hd
        | some gs' =>
          simp [h1, h2] at hd
          subst hd
          have e1 := toGo_exact pr hwf hc t (hs t (by simp)) a g h1
          have e2 := ih as gs' (fun t ht => hs t (by simp [ht])) h2
          simp [convArgs, e1, e2, Outcome.bind, Outcome.map]

end Proofs.Conv
