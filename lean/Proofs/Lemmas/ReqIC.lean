import Model.ReqIC
import Spec.ReqIC
/-! Lemmas for the call-site-memory part of C11 (`Model.ReqIC`). -/
namespace Proofs.ReqIC
open Model.ReqIC
open Model.Req (Rid)

/-- no other request's receiver has the class identity of `r`'s receiver -/
def Apart (w : World) (r : Rid) : Prop := ∀ r', w.cls r' = w.cls r → r' = r

/-- every filled node cache holds a method resolved on a receiver of the class it is filed under -/
def Coherent (w : World) (c : Cache) : Prop :=
  ∀ s k, c.cls s = some k → ∃ m, c.meth s = some m ∧ w.cls m.owner = k

/-- what is left of the request's program, run by the specification from where the request stands,
gives the specified response -/
def OnTrack (w : World) (r : Rid) (q : ReqSt) : Prop :=
  Spec.ReqIC.go (w.env r) q.pc q.pending q.body = Spec.ReqIC.respond (w.env r) (w.prog r)

theorem localStep_nil {pub : Publish} {k : Cls} {self : Rid} {env : Rid → Val} {q : ReqSt} {c : Cache}
    (h : q.pc = []) : localStep pub k self env q c = (q, c) := by
  simp [localStep, h]

theorem localStep_cons {pub : Publish} {k : Cls} {self : Rid} {env : Rid → Val} {q : ReqSt} {c : Cache}
    {st : Step} {rest : List Step} (h : q.pc = st :: rest) :
    localStep pub k self env q c = exec pub k self env q rest c st := by
  simp [localStep, h]

/-- a turn of ANY request keeps the caches coherent, as long as fills are indivisible -/
theorem localStep_coherent (w : World) (hp : w.publish ≠ .torn) (r' : Rid) (q : ReqSt) (c : Cache)
    (hc : Coherent w c) : Coherent w (localStep w.publish (w.cls r') r' w.env q c).2 := by
  cases hpc : q.pc with
  | nil => rw [localStep_nil hpc]; exact hc
  | cons st rest =>
    rw [localStep_cons hpc]
    cases st with
    | gate => exact hc
    | write => exact hc
    | call s =>
      cases hpub : w.publish with
      | torn => exact absurd hpub hp
      | none => simp only [exec]; exact hc
      | atomic =>
        simp only [exec]
        split
        · exact hc
        · intro s' k hk
          simp only [Cache.setMeth, Cache.setCls] at hk ⊢
          by_cases hs : s' = s
          · simp only [hs, ↓reduceIte, Option.some.injEq] at hk ⊢
            exact ⟨⟨r'⟩, rfl, hk⟩
          · simp only [hs, ↓reduceIte] at hk ⊢
            exact hc s' k hk

/-- a turn of a request whose class identity is its own keeps it on track: a hit can only find the
method it filed itself -/
theorem localStep_onTrack (w : World) (hp : w.publish ≠ .torn) (r : Rid) (ha : w.publish = .atomic → Apart w r)
    (q : ReqSt) (c : Cache)
    (hc : Coherent w c) (hq : OnTrack w r q) :
    OnTrack w r (localStep w.publish (w.cls r) r w.env q c).1 := by
  unfold OnTrack at hq ⊢
  cases hpc : q.pc with
  | nil => rw [localStep_nil hpc]; exact hq
  | cons st rest =>
    rw [localStep_cons hpc]
    rw [hpc] at hq
    cases st with
    | gate => simpa [exec, Spec.ReqIC.go] using hq
    | write => simpa [exec, Spec.ReqIC.go] using hq
    | call s =>
      simp only [Spec.ReqIC.go] at hq
      cases hpub : w.publish with
      | torn => exact absurd hpub hp
      | none => simpa [exec, invoke] using hq
      | atomic =>
        simp only [exec]
        split
        · rename_i hhit
          obtain ⟨m, hm, hk⟩ := hc s _ hhit
          have ho : m.owner = r := ha hpub _ hk
          simpa [invoke, hm, ho] using hq
        · simpa [invoke] using hq

structure Inv (w : World) (r : Rid) (s : State) : Prop where
  coherent : Coherent w s.cache
  onTrack  : OnTrack w r (s.req r)

theorem inv_init (w : World) (r : Rid) : Inv w r (init w) :=
  ⟨fun s k hk => by simp [init] at hk, rfl⟩

theorem inv_step (w : World) (hp : w.publish ≠ .torn) (r : Rid) (ha : w.publish = .atomic → Apart w r)
    (s : State) (r' : Rid)
    (h : Inv w r s) : Inv w r (stepReq w s r') := by
  refine ⟨localStep_coherent w hp r' (s.req r') s.cache h.coherent, ?_⟩
  show OnTrack w r ((stepReq w s r').req r)
  by_cases hr : r = r'
  · subst hr
    simp only [stepReq, ↓reduceIte]
    exact localStep_onTrack w hp r ha (s.req r) s.cache h.coherent h.onTrack
  · simp only [stepReq, hr, ↓reduceIte]
    exact h.onTrack

theorem inv_run (w : World) (hp : w.publish ≠ .torn) (r : Rid) (ha : w.publish = .atomic → Apart w r)
    (sched : List Rid) :
    ∀ s, Inv w r s → Inv w r (run w s sched) := by
  induction sched with
  | nil => intro s h; exact h
  | cons r' rest ih => intro s h; exact ih _ (inv_step w hp r ha s r' h)

/-- a request that is on track and has finished has written the specified response -/
theorem onTrack_finished {w : World} {r : Rid} {q : ReqSt} (h : OnTrack w r q) (hf : q.pc = []) :
    q.body = Spec.ReqIC.respond (w.env r) (w.prog r) := by
  unfold OnTrack at h
  rw [hf] at h
  simpa [Spec.ReqIC.go] using h

/-- without the two-word protocol every own turn takes one step off the program counter -/
theorem localStep_pc (w : World) (hp : w.publish ≠ .torn) (r : Rid) (q : ReqSt) (c : Cache) :
    (localStep w.publish (w.cls r) r w.env q c).1.pc = q.pc.tail := by
  cases hpc : q.pc with
  | nil => rw [localStep_nil hpc]; simp [hpc]
  | cons st rest =>
    rw [localStep_cons hpc]
    cases st with
    | gate => rfl
    | write => rfl
    | call s =>
      cases hpub : w.publish with
      | torn => exact absurd hpub hp
      | none => rfl
      | atomic => simp only [exec]; split <;> rfl

theorem run_replicate_pc (w : World) (hp : w.publish ≠ .torn) (r : Rid) (n : Nat) :
    ∀ s, ((run w s (List.replicate n r)).req r).pc = (s.req r).pc.drop n := by
  induction n with
  | zero => intro s; simp [run]
  | succ n ih =>
    intro s
    have h := ih (stepReq w s r)
    simp only [run, List.replicate_succ, List.foldl_cons] at h ⊢
    rw [h]
    simp only [stepReq, ↓reduceIte]
    rw [localStep_pc w hp r]
    simp

/-- alone, a request finishes within the turns `solo` gives it -/
theorem solo_finished (w : World) (hp : w.publish ≠ .torn) (r : Rid) : ((solo w r).req r).pc = [] := by
  unfold solo
  rw [run_replicate_pc w hp r]
  simp only [init]
  apply List.drop_eq_nil_of_le
  omega

end Proofs.ReqIC
