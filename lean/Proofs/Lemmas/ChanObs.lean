import Proofs.Lemmas.ChanData
import Proofs.Lemmas.ChanProto
import Spec.Chan
/-! Consequences of the invariants, monotonicity facts and the link to `Spec.Chan`. -/
namespace Proofs.Chan
open Model.Chan

/-- the observation a run exposes -/
def obsOf (s : St) : Spec.Chan.Obs := { hist := s.hist, order := s.recvd, buffered := s.buf }

theorem sentOK_eq (h : List (Op × Res)) : Spec.Chan.sentOK h = okSends h := by
  induction h with
  | nil => rfl
  | cons x h ih =>
    obtain ⟨op, r⟩ := x
    cases op <;> cases r <;> simp_all [Spec.Chan.sentOK, okSends, List.filterMap_cons]
    rename_i b; cases b <;> simp_all [okSends]

theorem received_eq (h : List (Op × Res)) : Spec.Chan.received h = gots h := by
  induction h with
  | nil => rfl
  | cons x h ih =>
    obtain ⟨op, r⟩ := x
    cases r <;> simp_all [Spec.Chan.received, gots]

/-- distinct sequence numbers per sender ⇒ no message occurs twice -/
theorem nodup_of_ids (l : List Msg) (n : Nat → Nat)
    (h : ∀ t, (l.filter (fun m => m.tid == t)).map (·.seq) = List.range (n t)) : l.Nodup := by
  rw [List.nodup_iff_count]
  intro m
  have h1 : List.count m (l.filter (fun x => x.tid == m.tid)) = List.count m l :=
    List.count_filter (by simp)
  have h2 := List.count_le_count_map (l := l.filter (fun x => x.tid == m.tid)) (f := (·.seq)) (x := m)
  rw [h m.tid] at h2
  have h3 : List.count m.seq (List.range (n m.tid)) ≤ 1 := List.nodup_iff_count.1 List.nodup_range _
  omega

theorem Data.nodup {s : St} (h : Data s) : (msgs s ++ s.buf).Nodup :=
  nodup_of_ids _ (fun t => (s.sentLog t).length) (fun t => by rw [h.data t, h.ids t])

theorem inj_of_nodup_map {α β : Type} (f : α → β) (l : List α) (h : (l.map f).Nodup)
    (a b : α) (ha : a ∈ l) (hb : b ∈ l) (e : f a = f b) : a = b := by
  induction l with
  | nil => cases ha
  | cons x l ih =>
    simp only [List.map_cons, List.nodup_cons] at h
    cases ha with
    | head =>
      cases hb with
      | head => rfl
      | tail _ hb => exact absurd (e ▸ List.mem_map_of_mem (f := f) hb) h.1
    | tail _ ha =>
      cases hb with
      | head => exact absurd (e ▸ List.mem_map_of_mem (f := f) ha) h.1
      | tail _ hb => exact ih h.2 ha hb

/-! ### observation-level invariant -/

structure ObsInv (s : St) : Prop where
  nullc : ∀ r, (Op.recv, Res.null) ∈ s.hist r → s.chClosed = true ∧ s.buf = []
  closeRet : ∀ t, (Op.close, Res.unit) ∈ s.hist t → s.flag = true

theorem obs_init (cap : Nat) (prog : Nat → List Op) : ObsInv (init cap prog) := by
  constructor <;> simp [init]

macro "obs_tac" t:term : tactic =>
  `(tactic| (constructor <;> intro x <;> by_cases hx : x = $t <;>
      simp_all [St.finish, upd] <;> (try grind)))

theorem obs_step (s s' : St) (hpr : Proto s) (h : ObsInv s) (hp : Prim s s') : ObsInv s' := by
  obtain ⟨h1, h2⟩ := h
  cases hp with
  | sendCheck t v hpc =>
    unfold stepSendCheck
    split
    · obs_tac t
    · obs_tac t
  | sendDo t v s' hpc hs =>
    unfold stepSendDo at hs
    split at hs
    · cases hs; obs_tac t
    · split at hs
      · cases hs; obs_tac t
      · cases hs
  | abort t v s' hpc hs =>
    unfold stepAbort at hs
    split at hs
    · cases hs; obs_tac t
    · cases hs
  | recv r s' hpc hs =>
    unfold stepRecv at hs
    split at hs
    · cases hs; obs_tac r
    · split at hs
      · cases hs; obs_tac r
      · cases hs
  | closeCas t hpc =>
    unfold stepCloseCas
    split
    · obs_tac t
    · obs_tac t
  | closeSignal t hpc =>
    unfold stepCloseSignal
    split
    · obs_tac t
    · obs_tac t
  | closeFinal t s' hpc hs =>
    have hf : s.flag = true := hpr.cflag t (by simp [hpc, isCloser])
    unfold stepCloseFinal at hs
    split at hs
    · cases hs
    · split at hs
      · cases hs; obs_tac t
      · cases hs; obs_tac t
  | isClosed t hpc =>
    unfold stepIsClosed
    obs_tac t
  | hand t r v hpt hpr' hc hcap hb =>
    unfold handSt
    constructor <;> intro x <;> by_cases hx : x = t <;> by_cases hy : x = r <;>
      simp_all [St.finish, upd] <;> (try grind)

/-! ### all invariants together, for every schedule -/

structure Inv (s : St) : Prop where
  proto : Proto s
  data : Data s
  obs : ObsInv s

theorem inv_exec (cap : Nat) (prog : Nat → List Op) (sched : List Act) :
    Inv (exec (init cap prog) sched) :=
  exec_induct Inv (fun s s' h _ hp => ⟨proto_step s s' h.proto hp, data_step s s' h.data hp, obs_step s s' h.proto h.obs hp⟩)
    sched _ ⟨proto_init cap prog, data_init cap prog, obs_init cap prog⟩

theorem inv_exec_from (s : St) (h : Inv s) (sched : List Act) : Inv (exec s sched) :=
  exec_induct Inv (fun s s' h _ hp => ⟨proto_step s s' h.proto hp, data_step s s' h.data hp, obs_step s s' h.proto h.obs hp⟩)
    sched _ h

end Proofs.Chan
