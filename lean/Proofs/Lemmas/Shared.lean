import Model.Shared

/-! Lemmas about `Model.Shared`: what an unwinding leaves in the error object, and what a raise shows
under the two allocation disciplines. -/

namespace Proofs.Lemmas.Shared
open Model.Shared

variable {P F : Type}

theorem unwind_nil (e : ErrObj P F) : unwind [] e = e := rfl

theorem unwind_cons (s : Step P F) (r : List (Step P F)) (e : ErrObj P F) :
    unwind (s :: r) e = unwind r (s.apply e) := rfl

theorem unwind_append (r1 r2 : List (Step P F)) (e : ErrObj P F) :
    unwind (r1 ++ r2) e = unwind r2 (unwind r1 e) := by
  simp [unwind, List.foldl_append]

/-- frames are only ever appended -/
theorem unwind_frames (r : List (Step P F)) (e : ErrObj P F) :
    (unwind r e).frames = e.frames ++ pushes r := by
  induction r generalizing e with
  | nil => simp [unwind_nil, pushes]
  | cons s r ih =>
    rw [unwind_cons, ih]
    cases s with
    | fill p =>
      simp only [Step.apply, pushes]
      cases e.pos <;> rfl
    | push f => simp [Step.apply, pushes]

/-- the position is written once -/
theorem unwind_pos (r : List (Step P F)) (e : ErrObj P F) :
    (unwind r e).pos = match e.pos with
      | some p => some p
      | none => firstFill r := by
  induction r generalizing e with
  | nil => cases h : e.pos <;> simp [unwind_nil, firstFill, h]
  | cons s r ih =>
    rw [unwind_cons, ih]
    cases s with
    | fill p =>
      cases h : e.pos <;> simp [Step.apply, firstFill, h]
    | push f =>
      cases h : e.pos <;> simp [Step.apply, firstFill, h]

theorem firstFill_append (r1 r2 : List (Step P F)) :
    firstFill (r1 ++ r2) = match firstFill r1 with
      | some p => some p
      | none => firstFill r2 := by
  induction r1 with
  | nil => cases h : firstFill r2 <;> simp [firstFill, h]
  | cons s r ih =>
    cases s with
    | fill p => simp [firstFill]
    | push f => simpa [firstFill] using ih

theorem pushes_append (r1 r2 : List (Step P F)) : pushes (r1 ++ r2) = pushes r1 ++ pushes r2 := by
  induction r1 with
  | nil => rfl
  | cons s r ih => cases s <;> simp [pushes, ih]

theorem runRaises_length (a : Alloc) (st : ErrObj P F) (rs : List (List (Step P F))) :
    (runRaises a st rs).2.length = rs.length := by
  induction rs generalizing st with
  | nil => rfl
  | cons r rs ih => cases a <;> simp [runRaises, ih]

theorem runRaises_append (a : Alloc) (st : ErrObj P F) (h b : List (List (Step P F))) :
    runRaises a st (h ++ b) =
      ((runRaises a (runRaises a st h).1 b).1, (runRaises a st h).2 ++ (runRaises a (runRaises a st h).1 b).2) := by
  induction h generalizing st with
  | nil => simp [runRaises]
  | cons r rs ih => cases a <;> simp [runRaises, ih]

/-- per-raise allocation: the process-wide state is never touched and every raise shows its own steps -/
theorem runRaises_perRaise (st : ErrObj P F) (rs : List (List (Step P F))) :
    runRaises .perRaise st rs = (st, rs.map (fun r => unwind r ErrObj.fresh)) := by
  induction rs generalizing st with
  | nil => rfl
  | cons r rs ih => simp [runRaises, ih]

/-- shared object: after a history the object has been through every step of every raise -/
theorem runRaises_shared_state (st : ErrObj P F) (rs : List (List (Step P F))) :
    (runRaises .shared st rs).1 = unwind rs.flatten st := by
  induction rs generalizing st with
  | nil => rfl
  | cons r rs ih => simp [runRaises, ih, unwind_append]

theorem shows_eq (a : Alloc) (h b : List (List (Step P F))) :
    shows a h b = (runRaises a (runRaises a ErrObj.fresh h).1 b).2 := by
  unfold shows
  rw [runRaises_append]
  simp only
  rw [← runRaises_length a ErrObj.fresh h, List.drop_left]

end Proofs.Lemmas.Shared
