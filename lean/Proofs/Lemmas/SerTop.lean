import Proofs.Lemmas.SerRT2
/-! Top-level `unserialize` on `serialize` output; serializer totality on float-free values. -/
namespace Proofs.Ser
open Model.Ser

theorem wrapArr_prefix {n : Nat} {r : Option Bytes} {bs : Bytes} (h : wrapArr n r = some bs) :
    ∃ tl, bs = 97 :: 58 :: tl := by
  obtain ⟨body, _, hb⟩ := wrapArr_some h
  exact ⟨dec n ++ [58, 123] ++ body ++ [125], by rw [hb]; simp⟩

theorem ser_prefix (v : PV) (bs : Bytes) (h : ser v = some bs) : bs ≠ [] ∧ knownPrefix bs = true := by
  cases v with
  | null => simp only [ser, Option.some.injEq] at h; subst h; exact ⟨by simp, by decide⟩
  | bool b => simp only [ser, Option.some.injEq] at h; subst h; exact ⟨by simp, by simp [knownPrefix, startsWith]⟩
  | int i =>
    simp only [ser, Option.some.injEq] at h; subst h
    exact ⟨by simp, by simp [knownPrefix, startsWith]⟩
  | str s =>
    simp only [ser, Option.some.injEq] at h; subst h
    exact ⟨by simp [serStr], by simp [knownPrefix, startsWith, serStr]⟩
  | float r =>
    simp only [ser, Option.some.injEq] at h; subst h
    exact ⟨by simp, by simp [knownPrefix, startsWith]⟩
  | arr items =>
    simp only [ser] at h
    obtain ⟨tl, rfl⟩ := wrapArr_prefix h
    exact ⟨by simp, by simp [knownPrefix, startsWith]⟩
  | obj props =>
    simp only [ser] at h
    obtain ⟨tl, rfl⟩ := wrapArr_prefix h
    exact ⟨by simp, by simp [knownPrefix, startsWith]⟩

theorem unserialize_ser (v : PV) (hc : CanonV v) (bs : Bytes) (hs : ser v = some bs) :
    unserializeT bs = .value v := by
  obtain ⟨hne, hp⟩ := ser_prefix v bs hs
  have h := rtV v hc bs hs (2 * bs.length + 1) [] (by simp)
  simp only [List.append_nil] at h
  simp [unserializeT, hne, hp, parseAll, h]

mutual
theorem ser_some : (v : PV) → CanonV v → ∃ bs, ser v = some bs
  | .null, _ => ⟨_, rfl⟩
  | .bool _, _ => ⟨_, rfl⟩
  | .int _, _ => ⟨_, rfl⟩
  | .str _, _ => ⟨_, rfl⟩
  | .float _, _ => ⟨_, rfl⟩
  | .arr items, h => by
    obtain ⟨body, hb⟩ := serItems_some items h.1 0
    simp only [ser, hb, wrapArr]; exact ⟨_, rfl⟩
  | .obj props, h => by
    obtain ⟨body, hb⟩ := serProps_some props h.1
    simp only [ser, hb, wrapArr]; exact ⟨_, rfl⟩
theorem serItems_some : (l : PL) → CanonItems l → ∀ idx, ∃ bs, serItems idx l = some bs
  | .nil, _, _ => ⟨_, rfl⟩
  | .cons k v rest, h, idx => by
    obtain ⟨y, hy⟩ := ser_some v h.2.1
    obtain ⟨z, hz⟩ := serItems_some rest h.2.2 (idx + 1)
    simp only [serItems, hy, hz, cat3]; exact ⟨_, rfl⟩
theorem serProps_some : (l : PL) → CanonProps l → ∃ bs, serProps l = some bs
  | .nil, _ => ⟨_, rfl⟩
  | .cons k v rest, h => by
    obtain ⟨y, hy⟩ := ser_some v h.2.1
    obtain ⟨z, hz⟩ := serProps_some rest h.2.2
    simp only [serProps, hy, hz, cat3]; exact ⟨_, rfl⟩
end

end Proofs.Ser
