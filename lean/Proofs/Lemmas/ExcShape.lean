import Model.ExcShape
import Proofs.Lemmas.ExcRefine
/-! C05: the clause list — closed form of the scan, what leaving clauses out does to it, the parser's clause loop. -/
namespace Proofs.Exc
open Model.Exc
open Model.Hier (Name Graph)

/-! ### `execC` in closed form -/

/-- the scan runs the body of the clause `sel` names (after the clause's `caught` event, the variable bound to the
thrown value), or leaves the value pending when `sel` finds none -/
theorem execC_sel (G : Graph) (cfg : Cfg) (A : Act) (i : Nat) (x : Thrown) :
    ∀ (cs : Catches) (k : Nat) (tr : List Ev),
      execC G cfg A i k x cs tr = handleWith G cfg A i k x tr (sel G x cs)
  | .nil, k, tr => by simp [execC, sel, handleWith]
  | .cons tys body rest, k, tr => by
    rw [execC, sel]
    by_cases h : clauseMatches G tys x = true
    · simp [h, handleWith]
    · rw [if_neg h, if_neg h, execC_sel G cfg A i x rest (k+1) tr]
      cases sel G x rest with
      | none => rfl
      | some p => simp [handleWith, Nat.add_assoc, Nat.add_comm 1 p.1]

theorem sel_toList (G : Graph) (x : Thrown) : ∀ (cs : Catches),
    (sel G x cs).map (·.2) = (selClause G x cs.toList).map (·.2)
  | .nil => rfl
  | .cons tys body rest => by
    rw [sel, Catches.toList, selClause, List.find?_cons]
    by_cases h : clauseMatches G tys x = true
    · simp [h]
    · have := sel_toList G x rest
      simp only [Bool.not_eq_true] at h
      simp only [h, Bool.false_eq_true, if_false, Option.map_map]
      simpa [selClause, Function.comp_def] using this

theorem toList_keepC (keep : Clause → Bool) : ∀ (cs : Catches), (keepC keep cs).toList = cs.toList.filter keep
  | .nil => rfl
  | .cons tys body rest => by
    rw [keepC, Catches.toList, List.filter_cons]
    by_cases h : keep (tys, body) = true
    · simp [h, Catches.toList, toList_keepC keep rest]
    · simp [h, toList_keepC keep rest]

/-! ### leaving clauses out -/

/-- the scan of a filtered list stops at the first clause that is kept *and* matches -/
theorem selClause_filter (G : Graph) (x : Thrown) (keep : Clause → Bool) (cs : List Clause) :
    selClause G x (cs.filter keep) = cs.find? (fun c => keep c && clauseMatches G c.1 x) := by
  simp [selClause, List.find?_filter]

/-- **leaving clauses out is invisible for `x` iff the clause that handles `x` stays** -/
theorem selClause_filter_iff (G : Graph) (x : Thrown) (keep : Clause → Bool) (cs : List Clause) :
    selClause G x (cs.filter keep) = selClause G x cs ↔ ∀ c, selClause G x cs = some c → keep c = true := by
  induction cs with
  | nil => simp [selClause]
  | cons c rest ih =>
    by_cases hm : clauseMatches G c.1 x = true
    · by_cases hk : keep c = true
      · simp [selClause, hk, hm]
      · simp only [Bool.not_eq_true] at hk
        constructor
        · intro h
          have h1 : selClause G x (c :: rest) = some c := by simp [selClause, hm]
          rw [h1] at h
          have h2 : selClause G x (List.filter keep (c :: rest)) = selClause G x (rest.filter keep) := by
            simp [hk]
          rw [h2, selClause_filter] at h
          have := List.find?_some h
          simp [hk] at this
        · intro h
          have := h c (by simp [selClause, hm])
          simp [hk] at this
    · simp only [Bool.not_eq_true] at hm
      have h1 : selClause G x (c :: rest) = selClause G x rest := by simp [selClause, hm]
      have h2 : selClause G x (List.filter keep (c :: rest)) = selClause G x (rest.filter keep) := by
        rw [selClause_filter, selClause_filter]
        simp [hm]
      rw [h1, h2]
      exact ih

/-- when the handling clause is left out, the next kept clause that matches takes over (or none does) -/
theorem selClause_filter_dropped (G : Graph) (x : Thrown) (keep : Clause → Bool) (pre post : List Clause) (c : Clause)
    (hpre : ∀ d ∈ pre, clauseMatches G d.1 x = false) (hk : keep c = false) :
    selClause G x ((pre ++ c :: post).filter keep) = selClause G x (post.filter keep) := by
  rw [selClause_filter, selClause_filter, List.find?_append]
  have : pre.find? (fun c => keep c && clauseMatches G c.1 x) = none := by
    rw [List.find?_eq_none]
    intro d hd
    simp [hpre d hd]
  simp [this, hk]

/-! ### the parser's clause loop -/

open Model.ExcShape in
theorem step_ok (ev : String → Clause → Bool) (F : ParserFacts) (hok : clauseLoopOK F = true) (acc : List Clause)
    (c : Clause) : step ev F acc c = acc ++ [c] := by
  simp only [clauseLoopOK, Bool.and_eq_true] at hok
  obtain ⟨⟨happ, hskip⟩, _⟩ := hok
  have hs : F.skips.any (fun gs => gs.all (fun g => g.holds ev c)) = false := by
    rw [List.any_eq_false]
    intro gs hgs
    have := (List.all_eq_true.1 hskip) gs hgs
    rw [List.any_eq_true] at this
    obtain ⟨g, hg, hn⟩ := this
    intro hall
    have := (List.all_eq_true.1 hall) g hg
    cases g <;> simp_all [Guard.isNever, Guard.holds]
  unfold step
  rw [hs]
  simp only [Bool.false_eq_true, if_false]
  split at happ
  · rename_i w hw
    rw [hw]
    have : w.guards.all (fun g => g.holds ev c) = true := by
      rw [List.all_eq_true]
      intro g hg
      have := (List.all_eq_true.1 happ) g hg
      cases g <;> simp_all [Guard.isAlways, Guard.holds]
    simp [this]
  · simp at happ

open Model.ExcShape in
theorem built_ok (ev : String → Clause → Bool) (F : ParserFacts) (hok : clauseLoopOK F = true) (src : List Clause) :
    built ev F src = src := by
  have : ∀ (src acc : List Clause), src.foldl (step ev F) acc = acc ++ src := by
    intro src
    induction src with
    | nil => simp
    | cons c rest ih => intro acc; rw [List.foldl_cons, step_ok ev F hok, ih]; simp
  simpa [built] using this src []

open Model.ExcShape in
/-- a clause loop with one unconditional append and one `continue` under the test `g` placed before it builds the
source list without the clauses that pass `g` -/
theorem built_skip (ev : String → Clause → Bool) (F : ParserFacts) (g : String) (w : Write)
    (happ : F.appends = [w]) (hw : w.guards.all Guard.isAlways = true) (hskip : F.skips = [[.other g]])
    (src : List Clause) : built ev F src = src.filter (fun c => !ev g c) := by
  have hwg : ∀ c, w.guards.all (fun g => g.holds ev c) = true := by
    intro c
    rw [List.all_eq_true]
    intro g' hg'
    have := (List.all_eq_true.1 hw) g' hg'
    cases g' <;> simp_all [Guard.isAlways, Guard.holds]
  have hstep : ∀ acc c, step ev F acc c = if ev g c then acc else acc ++ [c] := by
    intro acc c
    have hs : (F.skips.any (fun gs => gs.all (fun g => g.holds ev c))) = ev g c := by
      rw [hskip]; simp [Guard.holds]
    unfold step
    rw [happ, hs]
    by_cases h : ev g c = true
    · simp [h]
    · simp [h, hwg c]
  have : ∀ (src acc : List Clause), src.foldl (step ev F) acc = acc ++ src.filter (fun c => !ev g c) := by
    intro src
    induction src with
    | nil => simp
    | cons c rest ih =>
      intro acc
      rw [List.foldl_cons, hstep, ih, List.filter_cons]
      by_cases h : ev g c = true <;> simp [h]
  simpa [built] using this src []

/-! ### the scan loop -/

open Model.ExcShape in
theorem scanSelect_ok (S : ScanFacts) (hok : scanOK S = true) (G : Graph) (x : Thrown) (cs : List Clause) :
    scanSelect G x cs S.loops = selClause G x cs := by
  simp only [scanOK, Bool.and_eq_true] at hok
  obtain ⟨⟨hl, _⟩, _⟩ := hok
  split at hl
  · rename_i l hl'
    simp only [Bool.and_eq_true] at hl
    rw [hl']
    simp only [scanSelect, ScanLoop.select, hl.1.1, hl.2, if_true, selClause]
    cases List.find? (fun c => clauseMatches G c.1 x) cs <;> rfl
  · simp at hl

end Proofs.Exc
