import Model.Access
import Spec.Access
/-! Helper lemmas for C07: the chain walks of `isCallerInClassHierarchy` decide `Spec.Access.Related`. -/
namespace Proofs.Access
open Model.Access Spec.Access

/-- every parent that is named is declared (origami's parser refuses `extends` of an unknown class) -/
def NoDangling (H : Hier) : Prop := ∀ n p, extOf H n = some p → (getClass H p).isSome

theorem extOf_of_getClass {H : Hier} {n : Name} {c : Cls} (h : getClass H n = some c) : extOf H n = c.ext := by
  simp [extOf, h]

theorem Sub.trans {H : Hier} {a b c : Name} (h1 : Sub H a b) (h2 : Sub H b c) : Sub H a c := by
  induction h1 with
  | refl _ => exact h2
  | step he _ ih => exact Sub.step he (ih h2)

theorem Sub.of_ext {H : Hier} {a p : Name} (h : extOf H a = some p) : Sub H a p :=
  Sub.step h (Sub.refl p)

/-- a strict step: either equal or through the parent -/
theorem Sub.cases_ne {H : Hier} {a b : Name} (h : Sub H a b) (hne : a ≠ b) :
    ∃ p, extOf H a = some p ∧ Sub H p b := by
  cases h with
  | refl => exact absurd rfl hne
  | step he hs => exact ⟨_, he, hs⟩

/-- `extends` is a partial function, so the ancestors of a class form a chain -/
theorem Sub.linear {H : Hier} {r l d : Name} (h1 : Sub H r l) (h2 : Sub H r d) : Sub H l d ∨ Sub H d l := by
  induction h1 with
  | refl _ => exact Or.inl h2
  | step he hs ih =>
    cases h2 with
    | refl => exact Or.inr (Sub.step he hs)
    | step he' hs' =>
      rw [he] at he'
      cases he'
      exact ih hs'

theorem Related.symm {H : Hier} {a b : Name} (h : Related H a b) : Related H b a := Or.symm h

theorem Related.refl {H : Hier} (a : Name) : Related H a a := Or.inl (Sub.refl a)

/-! ### one loop -/

theorem chainHas_yes {H : Hier} {t : Name} : ∀ (f : Nat) (e : Option Name),
    chainHas H t f e = .yes → ∃ x, e = some x ∧ Sub H x t
  | _, none, h => by simp [chainHas] at h
  | 0, some _, h => by simp [chainHas] at h
  | f+1, some x, h => by
    unfold chainHas at h
    by_cases hx : x = t
    · exact ⟨x, rfl, hx ▸ Sub.refl x⟩
    · rw [if_neg hx] at h
      cases hg : getClass H x with
      | none => rw [hg] at h; cases h
      | some c =>
        rw [hg] at h
        obtain ⟨y, hy, hs⟩ := chainHas_yes f c.ext h
        exact ⟨x, rfl, Sub.step (by rw [extOf_of_getClass hg]; exact hy) hs⟩

theorem chainHas_no {H : Hier} {t : Name} : ∀ (f : Nat) (e : Option Name),
    chainHas H t f e = .no → ∀ x, e = some x → ¬ Sub H x t
  | _, none, _ => by intro x hx; cases hx
  | 0, some _, h => by simp [chainHas] at h
  | f+1, some x, h => by
    intro y hy hs
    cases hy
    unfold chainHas at h
    by_cases hx : x = t
    · rw [if_pos hx] at h; cases h
    · rw [if_neg hx] at h
      cases hg : getClass H x with
      | none => rw [hg] at h; cases h
      | some c =>
        rw [hg] at h
        obtain ⟨p, hp, hsp⟩ := Sub.cases_ne hs hx
        rw [extOf_of_getClass hg] at hp
        exact chainHas_no f c.ext h p hp hsp

theorem chainHas_not_missing {H : Hier} (hd : NoDangling H) {t : Name} : ∀ (f : Nat) (e : Option Name),
    (∀ x, e = some x → (getClass H x).isSome) → chainHas H t f e ≠ .missing
  | _, none, _ => by simp [chainHas]
  | 0, some _, _ => by simp [chainHas]
  | f+1, some x, he => by
    unfold chainHas
    by_cases hx : x = t
    · rw [if_pos hx]; simp
    · rw [if_neg hx]
      cases hg : getClass H x with
      | none => have := he x rfl; rw [hg] at this; cases this
      | some c =>
        simp only []
        apply chainHas_not_missing hd f c.ext
        intro y hy
        exact hd x y (by rw [extOf_of_getClass hg]; exact hy)

/-! ### `isCallerInClassHierarchy` -/

/-- whenever the two walks terminate, `isCallerInClassHierarchy` answers "same class, descendant or
ancestor" -/
theorem inHierarchy_spec {H : Hier} (hd : NoDangling H) {c t : Name} {b : Bool}
    (h : inHierarchy H (some c) t = some b) : b = true ↔ Related H c t := by
  unfold inHierarchy at h
  simp only [] at h
  by_cases hc : c = t
  · rw [if_pos hc] at h
    cases h
    simp [hc, Related.refl]
  · rw [if_neg hc] at h
    have hstart : ∀ (n x : Name), extOf H n = some x → (getClass H x).isSome := fun n x hx => hd n x hx
    cases h1 : chainHas H t (fuel H) (extOf H c) with
    | fuel => rw [h1] at h; cases h
    | yes =>
      rw [h1] at h; cases h
      obtain ⟨x, hx, hs⟩ := chainHas_yes _ _ h1
      simp only [true_iff]
      exact Or.inl (Sub.step hx hs)
    | missing => exact absurd h1 (chainHas_not_missing hd _ _ (hstart c))
    | no =>
      rw [h1] at h
      have n1 : ¬ Sub H c t := by
        intro hs
        obtain ⟨p, hp, hsp⟩ := Sub.cases_ne hs hc
        exact chainHas_no _ _ h1 p hp hsp
      have hc' : t ≠ c := fun e => hc e.symm
      cases h2 : chainHas H c (fuel H) (extOf H t) with
      | fuel => rw [h2] at h; cases h
      | yes =>
        rw [h2] at h; cases h
        obtain ⟨x, hx, hs⟩ := chainHas_yes _ _ h2
        simp only [true_iff]
        exact Or.inr (Sub.step hx hs)
      | missing => exact absurd h2 (chainHas_not_missing hd _ _ (hstart t))
      | no =>
        rw [h2] at h; cases h
        have n2 : ¬ Sub H t c := by
          intro hs
          obtain ⟨p, hp, hsp⟩ := Sub.cases_ne hs hc'
          exact chainHas_no _ _ h2 p hp hsp
        constructor
        · intro hf; cases hf
        · intro hr; cases hr with
          | inl h => exact absurd h n1
          | inr h => exact absurd h n2

theorem inHierarchy_none_ctx (H : Hier) (t : Name) : inHierarchy H none t = some false := rfl

/-- `Out`-level reading of the helper -/
theorem ofCheck_allowed {H : Hier} (hd : NoDangling H) {ctx : Option Name} {t : Name}
    (h : Out.ofCheck (inHierarchy H ctx t) = .allowed) : ∃ c, ctx = some c ∧ Related H c t := by
  cases ctx with
  | none => simp [inHierarchy, Out.ofCheck] at h
  | some c =>
    cases hb : inHierarchy H (some c) t with
    | none => rw [hb] at h; simp [Out.ofCheck] at h
    | some b =>
      rw [hb] at h
      cases b with
      | false => simp [Out.ofCheck] at h
      | true => exact ⟨c, rfl, (inHierarchy_spec hd hb).mp rfl⟩

theorem ofCheck_denied {H : Hier} (hd : NoDangling H) {ctx : Option Name} {t : Name}
    (h : Out.ofCheck (inHierarchy H ctx t) = .denied) : ¬ ∃ c, ctx = some c ∧ Related H c t := by
  cases ctx with
  | none => intro ⟨c, hc, _⟩; cases hc
  | some c =>
    cases hb : inHierarchy H (some c) t with
    | none => rw [hb] at h; simp [Out.ofCheck] at h
    | some b =>
      rw [hb] at h
      cases b with
      | true => simp [Out.ofCheck] at h
      | false =>
        intro ⟨c', hc', hr⟩
        cases hc'
        have := (inHierarchy_spec hd hb).mpr hr
        cases this

/-- `canAccessMember` decides PHP's rule on (scope class, declaring class) whenever its walks terminate -/
theorem lexRule_spec {H : Hier} (hd : NoDangling H) {m : Mod} {scope : Option Name} {decl : Name} {b : Bool}
    (h : lexRule H m scope decl = some b) : b = true ↔ allowed H m scope decl := by
  cases m with
  | pub =>
    simp only [lexRule, Option.some.injEq] at h
    subst h
    simp [allowed]
  | priv =>
    simp only [lexRule, Option.some.injEq] at h
    subst h
    simp [allowed]
  | prot =>
    cases scope with
    | none =>
      simp only [lexRule, inHierarchy, Option.some.injEq] at h
      subst h
      simp [allowed]
    | some c =>
      simp only [lexRule] at h
      rw [inHierarchy_spec hd h]
      simp [allowed]

theorem ofCheck_cases (o : Option Bool) :
    Out.ofCheck o = .allowed ∨ Out.ofCheck o = .denied ∨ Out.ofCheck o = .stuck := by
  cases o with
  | none => simp [Out.ofCheck]
  | some b => cases b <;> simp [Out.ofCheck]

/-! ### the decision procedure of the specification -/

theorem subB_spec {H : Hier} (hd : NoDangling H) {a b : Name} {r : Bool} (h : subB H a b = some r) :
    r = true ↔ Sub H a b := by
  unfold subB at h
  by_cases hab : a = b
  · rw [if_pos hab] at h; cases h; simp [hab, Sub.refl]
  · rw [if_neg hab] at h
    cases hw : chainHas H b (fuel H) (extOf H a) with
    | fuel => rw [hw] at h; cases h
    | yes =>
      rw [hw] at h; cases h
      obtain ⟨x, hx, hs⟩ := chainHas_yes _ _ hw
      simp only [true_iff]
      exact Sub.step hx hs
    | missing => exact absurd hw (chainHas_not_missing hd _ _ (fun x hx => hd a x hx))
    | no =>
      rw [hw] at h; cases h
      constructor
      · intro hf; cases hf
      · intro hs
        obtain ⟨p, hp, hsp⟩ := Sub.cases_ne hs hab
        exact absurd hsp (chainHas_no _ _ hw p hp)

theorem relatedB_spec {H : Hier} (hd : NoDangling H) {a b : Name} {r : Bool} (h : relatedB H a b = some r) :
    r = true ↔ Related H a b := by
  unfold relatedB at h
  cases h1 : subB H a b with
  | none => rw [h1] at h; cases h
  | some x =>
    rw [h1] at h
    cases x with
    | true => cases h; simp only [true_iff]; exact Or.inl ((subB_spec hd h1).mp rfl)
    | false =>
      simp only [] at h
      have n1 : ¬ Sub H a b := fun hs => by have := (subB_spec hd h1).mpr hs; cases this
      rw [subB_spec hd h]
      constructor
      · intro hs; exact Or.inr hs
      · intro hr; cases hr with
        | inl h' => exact absurd h' n1
        | inr h' => exact h'

theorem allowedB_spec {H : Hier} (hd : NoDangling H) {m : Mod} {caller : Option Name} {decl : Name} {r : Bool}
    (h : allowedB H m caller decl = some r) : r = true ↔ allowed H m caller decl := by
  cases m with
  | pub => simp [allowedB] at h; simp [allowed, h]
  | priv =>
    simp only [allowedB, Option.some.injEq] at h
    subst h
    simp [allowed]
  | prot =>
    cases caller with
    | none =>
      simp only [allowedB, Option.some.injEq] at h
      subst h
      simp [allowed]
    | some c =>
      simp only [allowedB] at h
      rw [relatedB_spec hd h]
      simp [allowed]

/-- the store after one access: its effect when the verdict is `allowed`, unchanged otherwise -/
theorem exec_store (T : Table) (H : Hier) (s : Site) (σ : Store) (op : Op) :
    (exec T H s σ op).2 = if verdict T H ⟨s, op⟩ = .allowed then σ.after op else σ := by
  cases op with
  | read k =>
    unfold exec verdict
    cases hd : decide T H s <;> simp [Store.after]
  | write k v ok =>
    unfold exec verdict
    cases ok with
    | false => simp
    | true => cases hd : decide T H s <;> simp [Store.after]
  | call k =>
    unfold exec verdict
    cases hd : decide T H s <;> simp [Store.after]

end Proofs.Access
