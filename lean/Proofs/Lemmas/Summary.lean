import Spec.SummaryVal
/-
C06 — lemmas about `Model.Summary` (arrays with a cached summary of their contents):
the flag invariant, the simulation against `Spec.SummaryVal`, the leak witness.
-/
namespace Proofs.Lemmas.Summary
open Model.Summary Spec.SummaryVal

/-- the flag tells the truth: a flagged array holds scalars only -/
def HintSound (s : State) : Prop :=
  ∀ a ∈ s.vars, a.hint = true → ∀ e ∈ a.elems, e.isSc = true

/-- the four-step history: flat at the last copy, an array enters through editor `e`, copy,
nested write through the copy.
`$v0 = [1, 2]; $v1 = $v0; EDIT_e($v1, [10, 20]); $v2 = $v1; $v2[2][0] = 99;` -/
def witness (e : Editor) : List Op :=
  [.lit 0 [.sc 1, .sc 2], .copy 0 1, .put e 1 2 (.arr [10, 20]), .copy 1 2, .wr 2 2 0 99]

/-! ### `step`, case by case -/

theorem step_lit (cfg : Cfg) (s : State) (x : Nat) (es : List LitE) :
    Model.Summary.step cfg s (.lit x es)
      = ⟨s.vars.set x ⟨false, (build es s.next).1⟩, (build es s.next).2⟩ := rfl

theorem step_copy_none {cfg : Cfg} {s : State} {x y : Nat} (hx : s.vars[x]? = none) :
    Model.Summary.step cfg s (.copy x y) = s := by
  simp [Model.Summary.step, hx]

theorem step_copy_some {cfg : Cfg} {s : State} {x y : Nat} {a : Arr} (hx : s.vars[x]? = some a) :
    Model.Summary.step cfg s (.copy x y)
      = ⟨s.vars.set y (clone cfg a s.next).1, (clone cfg a s.next).2⟩ := by
  simp [Model.Summary.step, hx]

theorem step_put_none {cfg : Cfg} {s : State} {e : Editor} {x k : Nat} {v : LitE}
    (hx : s.vars[x]? = none) : Model.Summary.step cfg s (.put e x k v) = s := by
  simp [Model.Summary.step, hx]

theorem step_put_sc {cfg : Cfg} {s : State} {e : Editor} {x k n : Nat} {a : Arr}
    (hx : s.vars[x]? = some a) :
    Model.Summary.step cfg s (.put e x k (.sc n))
      = ⟨s.vars.set x ⟨a.hint, Model.Summary.putAt a.elems k (.sc n)⟩, s.next⟩ := by
  simp [Model.Summary.step, hx, setVar]

theorem step_put_arr {cfg : Cfg} {s : State} {e : Editor} {x k : Nat} {c : List Nat} {a : Arr}
    (hx : s.vars[x]? = some a) :
    Model.Summary.step cfg s (.put e x k (.arr c))
      = ⟨s.vars.set x ⟨if cfg.maintains e then false else a.hint,
            Model.Summary.putAt a.elems k (.inner s.next c)⟩, s.next + 1⟩ := by
  simp [Model.Summary.step, hx]

theorem step_del_none {cfg : Cfg} {s : State} {x k : Nat} (hx : s.vars[x]? = none) :
    Model.Summary.step cfg s (.del x k) = s := by
  simp [Model.Summary.step, hx]

theorem step_del_some {cfg : Cfg} {s : State} {x k : Nat} {a : Arr} (hx : s.vars[x]? = some a) :
    Model.Summary.step cfg s (.del x k) = ⟨s.vars.set x ⟨a.hint, a.elems.eraseIdx k⟩, s.next⟩ := by
  simp [Model.Summary.step, hx, setVar]

theorem step_wr_none {cfg : Cfg} {s : State} {x k j n : Nat} (hx : s.vars[x]? = none) :
    Model.Summary.step cfg s (.wr x k j n) = s := by
  simp [Model.Summary.step, hx]

theorem step_wr_inner {cfg : Cfg} {s : State} {x k j n id : Nat} {c : List Nat} {a : Arr}
    (hx : s.vars[x]? = some a) (hk : a.elems[k]? = some (.inner id c)) :
    Model.Summary.step cfg s (.wr x k j n) = ⟨s.vars.map (Arr.poke id j n), s.next⟩ := by
  simp [Model.Summary.step, hx, hk]

theorem step_wr_other {cfg : Cfg} {s : State} {x k j n : Nat} {a : Arr}
    (hx : s.vars[x]? = some a) (hk : ∀ id c, a.elems[k]? ≠ some (.inner id c)) :
    Model.Summary.step cfg s (.wr x k j n) = s := by
  simp only [Model.Summary.step, hx]

/-! ### the flag invariant -/

theorem hs_set {s : State} (hs : HintSound s) (x : Nat) (b : Arr) (n' : Nat)
    (hb : b.hint = true → ∀ e ∈ b.elems, e.isSc = true) : HintSound ⟨s.vars.set x b, n'⟩ := by
  intro a ha
  have ha' : a ∈ s.vars.set x b := ha
  rcases List.mem_or_eq_of_mem_set ha' with h | h
  · exact hs a h
  · subst h; exact hb

theorem mem_putAt {l : List Elem} {k : Nat} {e e' : Elem}
    (h : e' ∈ Model.Summary.putAt l k e) : e' ∈ l ∨ e' = e := by
  unfold Model.Summary.putAt at h
  split at h
  · exact List.mem_or_eq_of_mem_set h
  · simpa using h

theorem clone_sound (cfg : Cfg) (a : Arr) (n : Nat)
    (ha : a.hint = true → ∀ e ∈ a.elems, e.isSc = true) :
    (clone cfg a n).1.hint = true → ∀ e ∈ (clone cfg a n).1.elems, e.isSc = true := by
  unfold clone
  split
  · rename_i hc
    intro _
    simp at hc
    exact ha hc.2
  · intro hh
    simpa [List.all_eq_true] using hh

theorem isSc_poke (id j n : Nat) (e : Elem) : (Elem.poke id j n e).isSc = e.isSc := by
  cases e with
  | sc v => rfl
  | inner i c => simp only [Elem.poke]; split <;> rfl

theorem hs_poke {s : State} (hs : HintSound s) (id j n : Nat) :
    HintSound ⟨s.vars.map (Arr.poke id j n), s.next⟩ := by
  intro a' ha' hh e' he'
  have ha'' : a' ∈ s.vars.map (Arr.poke id j n) := ha'
  obtain ⟨a, ha, rfl⟩ := List.mem_map.1 ha''
  have he'' : e' ∈ a.elems.map (Elem.poke id j n) := he'
  obtain ⟨e, he, rfl⟩ := List.mem_map.1 he''
  rw [isSc_poke]
  exact hs a ha hh e he

theorem hint_step (cfg : Cfg) (h : ∀ e, cfg.maintains e = true) (s : State) (hs : HintSound s)
    (op : Op) : HintSound (Model.Summary.step cfg s op) := by
  cases op with
  | lit x es =>
    rw [step_lit]
    exact hs_set hs _ _ _ (fun hh => by simp at hh)
  | copy x y =>
    cases hx : s.vars[x]? with
    | none => rw [step_copy_none hx]; exact hs
    | some a =>
      rw [step_copy_some hx]
      exact hs_set hs _ _ _ (clone_sound cfg a _ (hs a (List.mem_of_getElem? hx)))
  | put e x k v =>
    cases hx : s.vars[x]? with
    | none => rw [step_put_none hx]; exact hs
    | some a =>
      cases v with
      | sc n =>
        rw [step_put_sc hx]
        refine hs_set hs _ _ _ ?_
        intro hh e' he'
        rcases mem_putAt he' with h1 | h1
        · exact hs a (List.mem_of_getElem? hx) hh e' h1
        · subst h1; rfl
      | arr c =>
        rw [step_put_arr hx]
        refine hs_set hs _ _ _ ?_
        intro hh
        simp [h e] at hh
  | del x k =>
    cases hx : s.vars[x]? with
    | none => rw [step_del_none hx]; exact hs
    | some a =>
      rw [step_del_some hx]
      refine hs_set hs _ _ _ ?_
      intro hh e' he'
      exact hs a (List.mem_of_getElem? hx) hh e' (List.mem_of_mem_eraseIdx he')
  | wr x k j n =>
    cases hx : s.vars[x]? with
    | none => rw [step_wr_none hx]; exact hs
    | some a =>
      cases hk : a.elems[k]? with
      | none => rw [step_wr_other hx (by simp [hk])]; exact hs
      | some el =>
        cases el with
        | sc v => rw [step_wr_other hx (by simp [hk])]; exact hs
        | inner id c => rw [step_wr_inner hx hk]; exact hs_poke hs id j n

theorem hint_fold (cfg : Cfg) (h : ∀ e, cfg.maintains e = true) (p : List Op) :
    ∀ s, HintSound s → HintSound (p.foldl (Model.Summary.step cfg) s) := by
  induction p with
  | nil => intro s hs; exact hs
  | cons op r ih => intro s hs; exact ih _ (hint_step cfg h s hs op)

theorem hs_init (nv : Nat) : HintSound (init nv) := by
  intro a ha hh
  have ha' : a ∈ List.replicate nv (⟨false, []⟩ : Arr) := ha
  have := (List.mem_replicate.1 ha').2
  subst this
  simp at hh

theorem hint_sound (cfg : Cfg) (h : ∀ e, cfg.maintains e = true) (nv : Nat) (p : List Op) :
    HintSound (run cfg nv p) :=
  hint_fold cfg h p _ (hs_init nv)

/-! ### counting the occurrences of an identity -/

def cntE (id : Nat) : Elem → Nat
  | .sc _ => 0
  | .inner i _ => if i = id then 1 else 0

def cntL (id : Nat) : List Elem → Nat
  | [] => 0
  | e :: r => cntE id e + cntL id r

def cntS (id : Nat) : List Arr → Nat
  | [] => 0
  | a :: r => cntL id a.elems + cntS id r

/-- identities below `next`, none twice -/
def Cnt (s : State) : Prop :=
  (∀ id, s.next ≤ id → cntS id s.vars = 0) ∧ (∀ id, cntS id s.vars ≤ 1)

theorem cntE_le (id : Nat) (e : Elem) : cntE id e ≤ 1 := by
  cases e with
  | sc v => simp [cntE]
  | inner i c => simp only [cntE]; split <;> omega

theorem cntL_sc (id : Nat) : ∀ l : List Elem, (∀ e ∈ l, e.isSc = true) → cntL id l = 0
  | [], _ => rfl
  | e :: r, h => by
    have h1 := h e (by simp)
    have h2 := cntL_sc id r (fun e' he' => h e' (by simp [he']))
    cases e with
    | sc v => simp [cntL, cntE, h2]
    | inner i c => simp [Elem.isSc] at h1

theorem cntL_set_le (id : Nat) (e : Elem) :
    ∀ (l : List Elem) (k : Nat), cntL id (l.set k e) ≤ cntL id l + cntE id e
  | [], _ => by simp [cntL]
  | a :: r, 0 => by simp only [List.set_cons_zero, cntL]; omega
  | a :: r, k + 1 => by
    have := cntL_set_le id e r k
    simp only [List.set_cons_succ, cntL]; omega

theorem cntL_append_one (id : Nat) (e : Elem) :
    ∀ l : List Elem, cntL id (l ++ [e]) = cntL id l + cntE id e
  | [] => by simp [cntL]
  | a :: r => by
    have := cntL_append_one id e r
    simp only [List.cons_append, cntL]; omega

theorem cntL_putAt_le (id : Nat) (l : List Elem) (k : Nat) (e : Elem) :
    cntL id (Model.Summary.putAt l k e) ≤ cntL id l + cntE id e := by
  unfold Model.Summary.putAt
  split
  · exact cntL_set_le id e l k
  · rw [cntL_append_one]; exact Nat.le_refl _

theorem cntL_eraseIdx_le (id : Nat) :
    ∀ (l : List Elem) (k : Nat), cntL id (l.eraseIdx k) ≤ cntL id l
  | [], _ => by simp [cntL]
  | a :: r, 0 => by simp only [List.eraseIdx_cons_zero, cntL]; omega
  | a :: r, k + 1 => by
    have := cntL_eraseIdx_le id r k
    simp only [List.eraseIdx_cons_succ, cntL]; omega

theorem cntS_set_le (id : Nat) (b : Arr) (d : Nat) :
    ∀ (vars : List Arr) (x : Nat),
      (∀ a, vars[x]? = some a → cntL id b.elems ≤ cntL id a.elems + d) →
      cntS id (vars.set x b) ≤ cntS id vars + d
  | [], _, _ => by simp [cntS]
  | a :: r, 0, h => by
    have := h a (by simp)
    simp only [List.set_cons_zero, cntS]; omega
  | a :: r, x + 1, h => by
    have := cntS_set_le id b d r x (fun a' ha' => h a' (by simpa using ha'))
    simp only [List.set_cons_succ, cntS]; omega

theorem cnt_set (s : State) (x : Nat) (b : Arr) (n' : Nat) (d : Nat → Nat)
    (hc : Cnt s) (hn : s.next ≤ n')
    (hb : ∀ id a, s.vars[x]? = some a → cntL id b.elems ≤ cntL id a.elems + d id)
    (hd : ∀ id, d id ≤ 1 ∧ (id < s.next → d id = 0) ∧ (n' ≤ id → d id = 0)) :
    Cnt ⟨s.vars.set x b, n'⟩ := by
  obtain ⟨hc1, hc2⟩ := hc
  have key : ∀ id, cntS id (s.vars.set x b) ≤ cntS id s.vars + d id :=
    fun id => cntS_set_le id b (d id) s.vars x (hb id)
  refine ⟨fun id hid => ?_, fun id => ?_⟩
  · have hid' : n' ≤ id := hid
    show cntS id (s.vars.set x b) = 0
    have := key id
    obtain ⟨_, _, h3⟩ := hd id
    have := h3 hid'
    have := hc1 id (by omega)
    omega
  · show cntS id (s.vars.set x b) ≤ 1
    have := key id
    obtain ⟨h1, h2, _⟩ := hd id
    have := hc2 id
    by_cases hlt : id < s.next
    · have := h2 hlt; omega
    · have := hc1 id (by omega); omega

/-! ### literals and element-by-element copies -/

theorem build_cnt : ∀ (es : List LitE) (n : Nat),
    n ≤ (build es n).2 ∧ ∀ id, cntL id (build es n).1 ≤ 1
      ∧ (id < n → cntL id (build es n).1 = 0) ∧ ((build es n).2 ≤ id → cntL id (build es n).1 = 0)
  | [], n => by simp [build, cntL]
  | .sc v :: r, n => by
    obtain ⟨ih1, ih2⟩ := build_cnt r n
    simp only [build, cntL, cntE]
    refine ⟨ih1, fun id => ?_⟩
    obtain ⟨a, b, c⟩ := ih2 id
    refine ⟨by omega, fun h => by have := b h; omega, fun h => by have := c h; omega⟩
  | .arr c :: r, n => by
    obtain ⟨ih1, ih2⟩ := build_cnt r (n + 1)
    simp only [build, cntL, cntE]
    refine ⟨by omega, fun id => ?_⟩
    obtain ⟨a, b, c⟩ := ih2 id
    by_cases hid : n = id
    · have := b (by omega)
      simp only [hid, if_true]
      subst hid
      refine ⟨by omega, fun h => by omega, fun h => by omega⟩
    · simp only [hid, if_false]
      refine ⟨by omega, fun h => by have := b (by omega); omega, fun h => by have := c h; omega⟩

def toLit : Elem → LitE
  | .sc v => .sc v
  | .inner _ c => .arr c

theorem freshen_eq_build : ∀ (l : List Elem) (n : Nat), freshen l n = build (l.map toLit) n
  | [], _ => rfl
  | .sc v :: r, n => by simp [freshen, build, toLit, freshen_eq_build r n]
  | .inner i c :: r, n => by simp [freshen, build, toLit, freshen_eq_build r (n + 1)]

theorem build_abs : ∀ (es : List LitE) (n : Nat), (build es n).1.map absE = es.map ofLit
  | [], _ => rfl
  | .sc v :: r, n => by simp [build, absE, ofLit, build_abs r n]
  | .arr c :: r, n => by simp [build, absE, ofLit, build_abs r (n + 1)]

theorem freshen_abs : ∀ (l : List Elem) (n : Nat), (freshen l n).1.map absE = l.map absE
  | [], _ => rfl
  | .sc v :: r, n => by simp [freshen, absE, freshen_abs r n]
  | .inner i c :: r, n => by simp [freshen, absE, freshen_abs r (n + 1)]

theorem clone_abs (cfg : Cfg) (a : Arr) (n : Nat) : absA (clone cfg a n).1 = absA a := by
  unfold clone
  split
  · rfl
  · simp [absA, freshen_abs]

theorem clone_cnt (cfg : Cfg) (a : Arr) (n : Nat)
    (ha : cfg.useHint = true → a.hint = true → ∀ e ∈ a.elems, e.isSc = true) :
    n ≤ (clone cfg a n).2 ∧ ∀ id, cntL id (clone cfg a n).1.elems ≤ 1
      ∧ (id < n → cntL id (clone cfg a n).1.elems = 0)
      ∧ ((clone cfg a n).2 ≤ id → cntL id (clone cfg a n).1.elems = 0) := by
  unfold clone
  split
  · rename_i hc
    simp at hc
    have h0 : ∀ id, cntL id a.elems = 0 := fun id => cntL_sc id a.elems (ha hc.1 hc.2)
    refine ⟨Nat.le_refl _, fun id => ?_⟩
    show cntL id a.elems ≤ 1 ∧ (id < n → cntL id a.elems = 0) ∧ (n ≤ id → cntL id a.elems = 0)
    rw [h0 id]
    exact ⟨by omega, fun _ => rfl, fun _ => rfl⟩
  · have := build_cnt (a.elems.map toLit) n
    rw [← freshen_eq_build] at this
    exact this

theorem map_putAt (l : List Elem) (k : Nat) (e : Elem) :
    (Model.Summary.putAt l k e).map absE = Spec.SummaryVal.putAt (l.map absE) k (absE e) := by
  unfold Model.Summary.putAt Spec.SummaryVal.putAt
  rw [List.length_map]
  split
  · rw [List.map_set]
  · simp

theorem map_eraseIdx' : ∀ (l : List Elem) (k : Nat), (l.eraseIdx k).map absE = (l.map absE).eraseIdx k
  | [], _ => rfl
  | _ :: _, 0 => rfl
  | a :: r, k + 1 => by
    simp only [List.eraseIdx_cons_succ, List.map_cons, map_eraseIdx' r k]

theorem abs_set (s : State) (x : Nat) (b : Arr) (n' : Nat) :
    abs ⟨s.vars.set x b, n'⟩ = (abs s).set x (absA b) := by
  simp [abs, List.map_set]

theorem set_self {α : Type} : ∀ (l : List α) (x : Nat) (a : α), l[x]? = some a → l.set x a = l
  | [], _, _, h => by simp at h
  | b :: r, 0, a, h => by simp at h; simp [h]
  | b :: r, x + 1, a, h => by
    have := set_self r x a (by simpa using h)
    simp [this]

/-! ### in-place writes -/

theorem cntE_poke (id' id j n : Nat) (e : Elem) : cntE id' (Elem.poke id j n e) = cntE id' e := by
  cases e with
  | sc v => rfl
  | inner i c => simp only [Elem.poke]; split <;> rfl

theorem cntL_poke (id' id j n : Nat) :
    ∀ l : List Elem, cntL id' (l.map (Elem.poke id j n)) = cntL id' l
  | [] => rfl
  | e :: r => by simp only [List.map_cons, cntL, cntE_poke, cntL_poke id' id j n r]

theorem cntS_poke (id' id j n : Nat) :
    ∀ vars : List Arr, cntS id' (vars.map (Arr.poke id j n)) = cntS id' vars
  | [] => rfl
  | a :: r => by
    simp only [List.map_cons, cntS, Arr.poke, cntL_poke, cntS_poke id' id j n r]

theorem poke_id_E (id j n : Nat) (e : Elem) (h : cntE id e = 0) : Elem.poke id j n e = e := by
  cases e with
  | sc v => rfl
  | inner i c =>
    simp only [cntE] at h
    by_cases hi : i = id
    · simp [hi] at h
    · simp [Elem.poke, hi]

theorem poke_id_L (id j n : Nat) :
    ∀ l : List Elem, cntL id l = 0 → l.map (Elem.poke id j n) = l
  | [], _ => rfl
  | e :: r, h => by
    simp only [cntL] at h
    rw [List.map_cons, poke_id_E id j n e (by omega), poke_id_L id j n r (by omega)]

theorem poke_id_A (id j n : Nat) (a : Arr) (h : cntL id a.elems = 0) : Arr.poke id j n a = a := by
  unfold Arr.poke
  rw [poke_id_L id j n a.elems h]

theorem poke_id_S (id j n : Nat) :
    ∀ vars : List Arr, cntS id vars = 0 → vars.map (Arr.poke id j n) = vars
  | [], _ => rfl
  | a :: r, h => by
    simp only [cntS] at h
    rw [List.map_cons, poke_id_A id j n a (by omega), poke_id_S id j n r (by omega)]

theorem cntL_ge (id : Nat) (c : List Nat) :
    ∀ (l : List Elem) (k : Nat), l[k]? = some (.inner id c) → 1 ≤ cntL id l
  | [], _, h => by simp at h
  | e :: r, 0, h => by
    simp at h; subst h
    simp [cntL, cntE]
  | e :: r, k + 1, h => by
    have := cntL_ge id c r k (by simpa using h)
    simp only [cntL]; omega

theorem cntS_ge (id : Nat) (a : Arr) :
    ∀ (vars : List Arr) (x : Nat), vars[x]? = some a → cntL id a.elems ≤ cntS id vars
  | [], _, h => by simp at h
  | b :: r, 0, h => by
    simp at h; subst h
    simp only [cntS]; omega
  | b :: r, x + 1, h => by
    have := cntS_ge id a r x (by simpa using h)
    simp only [cntS]; omega

theorem poke_L (id j n : Nat) (c : List Nat) :
    ∀ (l : List Elem) (k : Nat), l[k]? = some (.inner id c) → cntL id l ≤ 1 →
      l.map (Elem.poke id j n) = l.set k (.inner id (c.set j n))
  | [], _, h, _ => by simp at h
  | e :: r, 0, h, hc => by
    simp at h; subst h
    simp only [cntL, cntE, if_true] at hc
    rw [List.map_cons, poke_id_L id j n r (by omega)]
    simp [Elem.poke]
  | e :: r, k + 1, h, hc => by
    have hr : r[k]? = some (.inner id c) := by simpa using h
    have := cntL_ge id c r k hr
    simp only [cntL] at hc
    rw [List.map_cons, poke_id_E id j n e (by omega), poke_L id j n c r k hr (by omega)]
    simp

theorem poke_S (id j n : Nat) (c : List Nat) (a : Arr) (k : Nat)
    (hk : a.elems[k]? = some (.inner id c)) :
    ∀ (vars : List Arr) (x : Nat), vars[x]? = some a → cntS id vars ≤ 1 →
      vars.map (Arr.poke id j n) = vars.set x ⟨a.hint, a.elems.set k (.inner id (c.set j n))⟩
  | [], _, h, _ => by simp at h
  | b :: r, 0, h, hc => by
    simp at h; subst h
    have := cntL_ge id c b.elems k hk
    simp only [cntS] at hc
    rw [List.map_cons, poke_id_S id j n r (by omega)]
    simp only [List.set_cons_zero, Arr.poke]
    rw [poke_L id j n c b.elems k hk (by omega)]
  | b :: r, x + 1, h, hc => by
    have hr : r[x]? = some a := by simpa using h
    have h1 := cntL_ge id c a.elems k hk
    have h2 := cntS_ge id a r x hr
    simp only [cntS] at hc
    rw [List.map_cons, poke_id_A id j n b (by omega), poke_S id j n c a k hk r x hr (by omega)]
    simp

/-! ### the simulation -/

theorem sim_step (cfg : Cfg) (s : State) (hh : cfg.useHint = true → HintSound s) (hc : Cnt s)
    (op : Op) :
    Cnt (Model.Summary.step cfg s op)
      ∧ abs (Model.Summary.step cfg s op) = Spec.SummaryVal.step (abs s) op := by
  cases op with
  | lit x es =>
    rw [step_lit]
    have hb := build_cnt es s.next
    refine ⟨cnt_set s x _ _ (fun id => cntL id (build es s.next).1) hc hb.1
      (fun id a _ => Nat.le_add_left _ _) (fun id => hb.2 id), ?_⟩
    rw [abs_set]
    simp [Spec.SummaryVal.step, absA, build_abs]
  | copy x y =>
    cases hx : s.vars[x]? with
    | none =>
      rw [step_copy_none hx]
      exact ⟨hc, by simp [Spec.SummaryVal.step, abs, hx]⟩
    | some a =>
      rw [step_copy_some hx]
      have hb := clone_cnt cfg a s.next (fun hu => hh hu a (List.mem_of_getElem? hx))
      refine ⟨cnt_set s y _ _ (fun id => cntL id (clone cfg a s.next).1.elems) hc hb.1
        (fun id a _ => Nat.le_add_left _ _) (fun id => hb.2 id), ?_⟩
      rw [abs_set, clone_abs]
      simp [Spec.SummaryVal.step, abs, hx]
  | put e x k v =>
    cases hx : s.vars[x]? with
    | none =>
      rw [step_put_none hx]
      exact ⟨hc, by simp [Spec.SummaryVal.step, abs, hx]⟩
    | some a =>
      cases v with
      | sc n =>
        rw [step_put_sc hx]
        refine ⟨cnt_set s x _ _ (fun _ => 0) hc (Nat.le_refl _) ?_
          (fun id => ⟨by omega, fun _ => rfl, fun _ => rfl⟩), ?_⟩
        · intro id a' ha'
          rw [hx] at ha'
          cases ha'
          exact cntL_putAt_le id a.elems k (.sc n)
        · rw [abs_set]
          simp [Spec.SummaryVal.step, abs, hx, absA, map_putAt, absE, ofLit]
      | arr c =>
        rw [step_put_arr hx]
        refine ⟨cnt_set s x _ _ (fun id => cntE id (.inner s.next c)) hc (by omega) ?_ ?_, ?_⟩
        · intro id a' ha'
          rw [hx] at ha'
          cases ha'
          exact cntL_putAt_le id a.elems k (.inner s.next c)
        · intro id
          refine ⟨cntE_le _ _, fun h => ?_, fun h => ?_⟩
          · simp only [cntE]; rw [if_neg (by omega)]
          · simp only [cntE]; rw [if_neg (by omega)]
        · rw [abs_set]
          simp [Spec.SummaryVal.step, abs, hx, absA, map_putAt, absE, ofLit]
  | del x k =>
    cases hx : s.vars[x]? with
    | none =>
      rw [step_del_none hx]
      exact ⟨hc, by simp [Spec.SummaryVal.step, abs, hx]⟩
    | some a =>
      rw [step_del_some hx]
      refine ⟨cnt_set s x _ _ (fun _ => 0) hc (Nat.le_refl _) ?_
        (fun id => ⟨by omega, fun _ => rfl, fun _ => rfl⟩), ?_⟩
      · intro id a' ha'
        rw [hx] at ha'
        cases ha'
        exact cntL_eraseIdx_le id a.elems k
      · rw [abs_set]
        simp [Spec.SummaryVal.step, abs, hx, absA, map_eraseIdx']
  | wr x k j n =>
    cases hx : s.vars[x]? with
    | none =>
      rw [step_wr_none hx]
      exact ⟨hc, by simp [Spec.SummaryVal.step, abs, hx]⟩
    | some a =>
      have hax : (abs s)[x]? = some (absA a) := by simp [abs, hx]
      cases hk : a.elems[k]? with
      | none =>
        rw [step_wr_other hx (by simp [hk])]
        refine ⟨hc, ?_⟩
        have hp : pokeAt (absA a) k j n = absA a := by simp [pokeAt, absA, hk]
        simp only [Spec.SummaryVal.step, hax, hp]
        exact (set_self _ _ _ hax).symm
      | some el =>
        cases el with
        | sc v =>
          rw [step_wr_other hx (by simp [hk])]
          refine ⟨hc, ?_⟩
          have hp : pokeAt (absA a) k j n = absA a := by simp [pokeAt, absA, hk, absE]
          simp only [Spec.SummaryVal.step, hax, hp]
          exact (set_self _ _ _ hax).symm
        | inner id c =>
          rw [step_wr_inner hx hk]
          refine ⟨?_, ?_⟩
          · refine ⟨fun id' h' => ?_, fun id' => ?_⟩
            · show cntS id' (s.vars.map (Arr.poke id j n)) = 0
              rw [cntS_poke]; exact hc.1 id' h'
            · show cntS id' (s.vars.map (Arr.poke id j n)) ≤ 1
              rw [cntS_poke]; exact hc.2 id'
          · rw [poke_S id j n c a k hk s.vars x hx (hc.2 id), abs_set]
            have hp : pokeAt (absA a) k j n = (absA a).set k (.arr (c.set j n)) := by
              simp [pokeAt, absA, hk, absE]
            simp only [Spec.SummaryVal.step, hax, hp]
            simp [absA, List.map_set, absE]

theorem sim_fold (cfg : Cfg) (h : cfg.useHint = true → ∀ e, cfg.maintains e = true) (p : List Op) :
    ∀ s, (cfg.useHint = true → HintSound s) → Cnt s →
      abs (p.foldl (Model.Summary.step cfg) s) = p.foldl Spec.SummaryVal.step (abs s) := by
  induction p with
  | nil => intro s _ _; rfl
  | cons op r ih =>
    intro s hh hc
    obtain ⟨c', a'⟩ := sim_step cfg s hh hc op
    simp only [List.foldl_cons]
    rw [← a']
    exact ih _ (fun hu => hint_step cfg (h hu) s (hh hu) op) c'

theorem cntS_replicate (id nv : Nat) : cntS id (List.replicate nv (⟨false, []⟩ : Arr)) = 0 := by
  induction nv with
  | zero => rfl
  | succ m ih => simp only [List.replicate_succ, cntS, cntL, ih]

theorem cnt_init (nv : Nat) : Cnt (init nv) :=
  ⟨fun id _ => cntS_replicate id nv, fun id => by
    show cntS id (List.replicate nv (⟨false, []⟩ : Arr)) ≤ 1
    rw [cntS_replicate]; omega⟩

theorem abs_init (nv : Nat) : abs (init nv) = List.replicate nv [] := by
  simp [abs, init, absA]

theorem sim (cfg : Cfg) (h : cfg.useHint = true → ∀ e, cfg.maintains e = true) (nv : Nat) (p : List Op) :
    abs (run cfg nv p) = Spec.SummaryVal.run nv p := by
  have := sim_fold cfg h p (init nv) (fun _ => hs_init nv) (cnt_init nv)
  rw [abs_init] at this
  exact this

theorem stale_leaks (cfg : Cfg) (hu : cfg.useHint = true) (e : Editor) (he : cfg.maintains e = false) :
    abs (run cfg 3 (witness e)) ≠ Spec.SummaryVal.run 3 (witness e) := by
  have h1 : abs (run cfg 3 (witness e))
      = [[.sc 1, .sc 2], [.sc 1, .sc 2, .arr [99, 20]], [.sc 1, .sc 2, .arr [99, 20]]] := by
    simp [witness, Model.Summary.run, init, Model.Summary.step, clone, build, freshen,
      Model.Summary.putAt, hu, he, abs, absA, absE, Arr.poke, Elem.poke, Elem.isSc, List.replicate]
  have h2 : Spec.SummaryVal.run 3 (witness e)
      = [[.sc 1, .sc 2], [.sc 1, .sc 2, .arr [10, 20]], [.sc 1, .sc 2, .arr [99, 20]]] := by
    simp [witness, Spec.SummaryVal.run, Spec.SummaryVal.step, Spec.SummaryVal.putAt, pokeAt, ofLit,
      List.replicate]
  rw [h1, h2]
  decide

end Proofs.Lemmas.Summary
