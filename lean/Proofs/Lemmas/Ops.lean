import Model.Ops
import Spec.Ops
/-! Helper lemmas for C03: well-formed truthiness tables, bytewise string order, 64-bit arithmetic. -/
namespace Proofs.Ops
open Model.Ops

/-! ## well-formed truthiness tables -/

/-- the one test each value kind must be subjected to (the reference truthiness) -/
def refCmp : Kind → Cmp
  | .int => .ne0 | .float => .ne0 | .bool => .field | .str => .nonEmpty
  | .null => .constFalse | .arr => .lenGt0 | .obj => .constTrue | .cls => .constTrue

/-- a test shape that means the same as the reference on that kind (`len(s) > 0` ≡ `s != ""`) -/
def cmpOk (k : Kind) (c : Cmp) : Bool :=
  c == refCmp k || (k == .str && c == .lenGt0)

def siteOk (s : Site) : Bool :=
  s.asBool && s.arms.all (fun p => cmpOk p.1 p.2)

/-- decidable well-formedness of a regenerated truthiness table: nothing unrecognised, every
`AsBool` body is the reference test of its kind, every context of the property statement has a
site, every concrete-type arm of every such site is the reference test, and the rest goes through `AsBool` -/
def wf (T : TruthTable) : Bool :=
  T.shapeChanged.isEmpty
  && Kind.all.all (fun k => lookupCmp T.asBoolImpl k == some (refCmp k))
  && contexts.all (fun n => match findSite T n with
      | some s => siteOk s
      | none => false)

section
variable {F : Type} (P : Prim F)

theorem refCmp_eval (v : Val F) : (refCmp v.kind).eval P v = some (Spec.Ops.truthy P v) := by
  cases v <;> simp [refCmp, Val.kind, Cmp.eval, Spec.Ops.truthy]

theorem cmpOk_eval {k : Kind} {c : Cmp} (h : cmpOk k c = true) (v : Val F) (hk : v.kind = k) :
    c.eval P v = some (Spec.Ops.truthy P v) := by
  unfold cmpOk at h
  simp only [Bool.or_eq_true, Bool.and_eq_true, beq_iff_eq] at h
  rcases h with h | ⟨h1, h2⟩
  · subst h; subst hk; exact refCmp_eval P v
  · subst h2; subst hk
    cases v <;> simp_all [Val.kind, Cmp.eval, Spec.Ops.truthy]

theorem kind_mem_all (k : Kind) : k ∈ Kind.all := by cases k <;> simp [Kind.all]

theorem wf_asBool {T : TruthTable} (h : wf T = true) (v : Val F) :
    valAsBool P T v = some (Spec.Ops.truthy P v) := by
  unfold wf at h
  simp only [Bool.and_eq_true, List.all_eq_true, beq_iff_eq] at h
  have := h.1.2 v.kind (kind_mem_all _)
  unfold valAsBool
  rw [this]
  exact refCmp_eval P v

theorem lookupCmp_mem {l : List (Kind × Cmp)} {k : Kind} {c : Cmp} (h : lookupCmp l k = some c) :
    (k, c) ∈ l := by
  unfold lookupCmp at h
  split at h
  · rename_i p hp
    have h1 := List.find?_some hp
    have h2 := List.mem_of_find?_eq_some hp
    simp only [beq_iff_eq] at h1
    cases h
    cases p
    simp_all
  · cases h

theorem siteOk_truthy {T : TruthTable} (hT : wf T = true) {s : Site} (hs : siteOk s = true) (v : Val F) :
    s.truthy P T v = some (Spec.Ops.truthy P v) := by
  unfold siteOk at hs
  simp only [Bool.and_eq_true, List.all_eq_true] at hs
  unfold Site.truthy
  split
  · rename_i c hc
    have := hs.2 _ (lookupCmp_mem hc)
    exact cmpOk_eval P this v rfl
  · rw [if_pos hs.1]; exact wf_asBool P hT v

/-- under a well-formed table every context of the property computes the reference truthiness -/
theorem wf_truthyAt {T : TruthTable} (hT : wf T = true) {ctx : String} (hc : ctx ∈ contexts) (v : Val F) :
    truthyAt P T ctx v = some (Spec.Ops.truthy P v) := by
  have h := hT
  unfold wf at h
  simp only [Bool.and_eq_true, List.all_eq_true] at h
  have := h.2 ctx hc
  unfold truthyAt
  split at this
  · rename_i s hs
    rw [hs]
    exact siteOk_truthy P hT this v
  · cases this

end

/-! ## bytewise order of strings -/

theorem strLt_irrefl (a : Str) : strLt a a = false := by
  induction a with
  | nil => rfl
  | cons x xs ih => simp [strLt, ih]

theorem strLt_asymm : ∀ (a b : Str), strLt a b = true → strLt b a = false
  | [], [], h => by simp [strLt] at h
  | [], _ :: _, _ => by simp [strLt]
  | _ :: _, [], h => by simp [strLt] at h
  | x :: xs, y :: ys, h => by
    unfold strLt at h ⊢
    by_cases h1 : x < y
    · have : ¬ y < x := by
        intro h2
        exact absurd (UInt8.lt_trans h1 h2) (UInt8.lt_irrefl x)
      simp [this, h1]
    · by_cases h2 : y < x
      · simp [h1, h2] at h
      · simp only [h1, h2, if_false] at h ⊢
        exact strLt_asymm xs ys h

end Proofs.Ops
