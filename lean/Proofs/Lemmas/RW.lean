import Model.RW
/-! Helper lemmas for C10: the lock invariant of `Model.RW` and its preservation
by every step (so by every schedule). -/
namespace Proofs.RW
open Model.RW
variable {Λ L S : Type}

@[simp] theorem upd_same {α : Type} (f : Tid → α) (t : Tid) (v : α) : upd f t v t = v := by
  simp [upd]

theorem upd_other {α : Type} (f : Tid → α) {t x : Tid} (h : x ≠ t) (v : α) : upd f t v x = f x := by
  simp [upd, h]

def restOk (m : Mode) (rest : List (Acc L S)) : Prop := ∀ a ∈ rest, permits m a.kind = true

def PcOk : Pc Λ L S → Prop
  | .idle => True
  | .held sec rest => restOk sec.mode rest
  | .inAcc sec a rest => permits sec.mode a.kind = true ∧ restOk sec.mode rest

/-- lock state and thread states agree, and everything still to be executed is
permitted by the lock it runs under -/
structure Inv (s : State Λ L S) : Prop where
  pcOk : ∀ t, PcOk (s.thr t).pc
  progOk : ∀ t, ∀ sec ∈ (s.thr t).prog, sec.ok
  curOk : ∀ t, ∀ sec ∈ (s.thr t).pc.sec, sec.ok
  wHolds : ∀ t, (s.thr t).pc.mode = .W → s.writer = some t
  rHolds : ∀ t, (s.thr t).pc.mode = .R → t ∈ s.readers
  wExcl : ∀ t, s.writer = some t → s.readers = []
  wIs : ∀ t, s.writer = some t → (s.thr t).pc.mode = .W
  rIs : ∀ t, t ∈ s.readers → (s.thr t).pc.mode = .R
  nodup : s.readers.Nodup

theorem inv_init (store : S) (loc : Tid → L) (prog : Tid → List (Sec Λ L S))
    (h : ∀ t, ∀ sec ∈ prog t, sec.ok) : Inv (mkInit store loc prog) := by
  constructor <;> simp [mkInit, PcOk, Pc.mode, Pc.sec]
  exact h

/-- a thread-local step: only `thr t` changes, to a pc of the same mode -/
theorem inv_local (s : State Λ L S) (t : Tid) (hi : Inv s) (pc' : Pc Λ L S) (loc' : L) (store' : S)
    (hm : pc'.mode = (s.thr t).pc.mode) (hok : PcOk pc') (hsec : ∀ sec ∈ pc'.sec, sec.ok) :
    Inv { s with store := store', thr := upd s.thr t { (s.thr t) with pc := pc', loc := loc' } } := by
  constructor
  · intro x; by_cases hx : x = t
    · subst hx; simpa using hok
    · simpa [upd_other _ hx] using hi.pcOk x
  · intro x; by_cases hx : x = t
    · subst hx; simpa using hi.progOk x
    · simpa [upd_other _ hx] using hi.progOk x
  · intro x; by_cases hx : x = t
    · subst hx; simpa using hsec
    · simpa [upd_other _ hx] using hi.curOk x
  · intro x; by_cases hx : x = t
    · subst hx; simpa [hm] using hi.wHolds x
    · simpa [upd_other _ hx] using hi.wHolds x
  · intro x; by_cases hx : x = t
    · subst hx; simpa [hm] using hi.rHolds x
    · simpa [upd_other _ hx] using hi.rHolds x
  · exact hi.wExcl
  · intro x; by_cases hx : x = t
    · subst hx; simpa [hm] using hi.wIs x
    · simpa [upd_other _ hx] using hi.wIs x
  · intro x; by_cases hx : x = t
    · subst hx; simpa [hm] using hi.rIs x
    · simpa [upd_other _ hx] using hi.rIs x
  · exact hi.nodup

theorem idle_not_reader (s : State Λ L S) (t : Tid) (hi : Inv s) (h : (s.thr t).pc = .idle) : t ∉ s.readers := by
  intro hm
  have := hi.rIs t hm
  simp [h, Pc.mode] at this

theorem ok_restOk (sec : Sec Λ L S) (h : sec.ok) : restOk sec.mode sec.accs := h

theorem inv_enter (s : State Λ L S) (t : Tid) (sec : Sec Λ L S) (more : List (Sec Λ L S)) (hi : Inv s)
    (hpc : (s.thr t).pc = .idle) (hprog : (s.thr t).prog = sec :: more) : Inv (enter s t sec more) := by
  have hsec : sec.ok := hi.progOk t sec (by simp [hprog])
  have hmore : ∀ x ∈ more, x.ok := fun x hx => hi.progOk t x (by simp [hprog, hx])
  have hnr := idle_not_reader s t hi hpc
  unfold enter
  cases hm : sec.mode with
  | none =>
    simp only []
    constructor
    · intro x; by_cases hx : x = t
      · subst hx; simpa [PcOk, hm] using ok_restOk sec hsec
      · simpa [upd_other _ hx] using hi.pcOk x
    · intro x; by_cases hx : x = t
      · subst hx; simpa using hmore
      · simpa [upd_other _ hx] using hi.progOk x
    · intro x; by_cases hx : x = t
      · subst hx; simpa [Pc.sec] using hsec
      · simpa [upd_other _ hx] using hi.curOk x
    · intro x; by_cases hx : x = t
      · subst hx; simp [Pc.mode, hm]
      · simpa [upd_other _ hx] using hi.wHolds x
    · intro x; by_cases hx : x = t
      · subst hx; simp [Pc.mode, hm]
      · simpa [upd_other _ hx] using hi.rHolds x
    · exact hi.wExcl
    · intro x; by_cases hx : x = t
      · subst hx; intro hw; have := hi.wIs x hw; simp [hpc, Pc.mode] at this
      · simpa [upd_other _ hx] using hi.wIs x
    · intro x; by_cases hx : x = t
      · subst hx; intro hr; exact absurd hr hnr
      · simpa [upd_other _ hx] using hi.rIs x
    · exact hi.nodup
  | R =>
    simp only []
    split
    · rename_i hw
      constructor
      · intro x; by_cases hx : x = t
        · subst hx; simpa [PcOk, hm] using ok_restOk sec hsec
        · simpa [upd_other _ hx] using hi.pcOk x
      · intro x; by_cases hx : x = t
        · subst hx; simpa using hmore
        · simpa [upd_other _ hx] using hi.progOk x
      · intro x; by_cases hx : x = t
        · subst hx; simpa [Pc.sec] using hsec
        · simpa [upd_other _ hx] using hi.curOk x
      · intro x; by_cases hx : x = t
        · subst hx; simp [Pc.mode, hm]
        · simp only [upd_other _ hx]; intro h; have := hi.wHolds x h; simp [hw] at this
      · intro x; by_cases hx : x = t
        · subst hx; simp
        · simp only [upd_other _ hx]; intro h; exact List.mem_cons_of_mem _ (hi.rHolds x h)
      · intro x h; simp [hw] at h
      · intro x h; simp [hw] at h
      · intro x; by_cases hx : x = t
        · subst hx; simp [Pc.mode, hm]
        · simp only [upd_other _ hx]; intro h
          rcases List.mem_cons.mp h with h | h
          · exact absurd h hx
          · exact hi.rIs x h
      · exact List.nodup_cons.mpr ⟨hnr, hi.nodup⟩
    · exact hi
  | W =>
    simp only []
    split
    · rename_i hw
      obtain ⟨hw, hr⟩ := hw
      constructor
      · intro x; by_cases hx : x = t
        · subst hx; simpa [PcOk, hm] using ok_restOk sec hsec
        · simpa [upd_other _ hx] using hi.pcOk x
      · intro x; by_cases hx : x = t
        · subst hx; simpa using hmore
        · simpa [upd_other _ hx] using hi.progOk x
      · intro x; by_cases hx : x = t
        · subst hx; simpa [Pc.sec] using hsec
        · simpa [upd_other _ hx] using hi.curOk x
      · intro x; by_cases hx : x = t
        · subst hx; simp
        · simp only [upd_other _ hx]; intro h; have := hi.wHolds x h; simp [hw] at this
      · intro x; by_cases hx : x = t
        · subst hx; simp [Pc.mode, hm]
        · simp only [upd_other _ hx]; intro h; have := hi.rHolds x h; simp [hr] at this
      · intro x _; exact hr
      · intro x h
        have : t = x := by simpa using h
        subst this; simp [Pc.mode, hm]
      · intro x h; simp [hr] at h
      · exact hi.nodup
    · exact hi

theorem inv_leave (s : State Λ L S) (t : Tid) (sec : Sec Λ L S) (hi : Inv s)
    (hpc : (s.thr t).pc = .held sec []) : Inv (leave s t sec) := by
  have hmode : (s.thr t).pc.mode = sec.mode := by simp [hpc, Pc.mode]
  unfold leave
  cases hm : sec.mode with
  | none =>
    simp only []
    constructor
    · intro x; by_cases hx : x = t
      · subst hx; simp [PcOk]
      · simpa [upd_other _ hx] using hi.pcOk x
    · intro x; by_cases hx : x = t
      · subst hx; simpa using hi.progOk x
      · simpa [upd_other _ hx] using hi.progOk x
    · intro x; by_cases hx : x = t
      · subst hx; simp [Pc.sec]
      · simpa [upd_other _ hx] using hi.curOk x
    · intro x; by_cases hx : x = t
      · subst hx; simp [Pc.mode]
      · simpa [upd_other _ hx] using hi.wHolds x
    · intro x; by_cases hx : x = t
      · subst hx; simp [Pc.mode]
      · simpa [upd_other _ hx] using hi.rHolds x
    · exact hi.wExcl
    · intro x; by_cases hx : x = t
      · subst hx; intro hw; have := hi.wIs x hw; simp [hmode, hm] at this
      · simpa [upd_other _ hx] using hi.wIs x
    · intro x; by_cases hx : x = t
      · subst hx; intro hr; have := hi.rIs x hr; simp [hmode, hm] at this
      · simpa [upd_other _ hx] using hi.rIs x
    · exact hi.nodup
  | R =>
    simp only []
    constructor
    · intro x; by_cases hx : x = t
      · subst hx; simp [PcOk]
      · simpa [upd_other _ hx] using hi.pcOk x
    · intro x; by_cases hx : x = t
      · subst hx; simpa using hi.progOk x
      · simpa [upd_other _ hx] using hi.progOk x
    · intro x; by_cases hx : x = t
      · subst hx; simp [Pc.sec]
      · simpa [upd_other _ hx] using hi.curOk x
    · intro x; by_cases hx : x = t
      · subst hx; simp [Pc.mode]
      · simpa [upd_other _ hx] using hi.wHolds x
    · intro x; by_cases hx : x = t
      · subst hx; simp [Pc.mode]
      · simp only [upd_other _ hx]; intro h
        exact (List.mem_erase_of_ne hx).mpr (hi.rHolds x h)
    · intro x h; simp [hi.wExcl x h]
    · intro x; by_cases hx : x = t
      · subst hx; intro hw; have := hi.wIs x hw; simp [hmode, hm] at this
      · simpa [upd_other _ hx] using hi.wIs x
    · intro x; by_cases hx : x = t
      · subst hx; intro hr
        exact absurd ((hi.nodup.mem_erase_iff (a := x) (b := x)).mp hr).1 (by simp)
      · simp only [upd_other _ hx]; intro h; exact hi.rIs x (List.mem_of_mem_erase h)
    · exact hi.nodup.erase t
  | W =>
    simp only []
    have hwt : s.writer = some t := hi.wHolds t (by simp [hmode, hm])
    have hre : s.readers = [] := hi.wExcl t hwt
    constructor
    · intro x; by_cases hx : x = t
      · subst hx; simp [PcOk]
      · simpa [upd_other _ hx] using hi.pcOk x
    · intro x; by_cases hx : x = t
      · subst hx; simpa using hi.progOk x
      · simpa [upd_other _ hx] using hi.progOk x
    · intro x; by_cases hx : x = t
      · subst hx; simp [Pc.sec]
      · simpa [upd_other _ hx] using hi.curOk x
    · intro x; by_cases hx : x = t
      · subst hx; simp [Pc.mode]
      · simp only [upd_other _ hx]; intro h
        have := hi.wHolds x h; rw [hwt] at this; exact absurd (Option.some.inj this).symm hx
    · intro x; by_cases hx : x = t
      · subst hx; simp [Pc.mode]
      · simpa [upd_other _ hx] using hi.rHolds x
    · intro x h; simp at h
    · intro x h; simp at h
    · intro x h; simp [hre] at h
    · exact hi.nodup

theorem inv_step (s : State Λ L S) (t : Tid) (hi : Inv s) : Inv (step s t) := by
  unfold step
  simp only []
  cases hpc : (s.thr t).pc with
  | idle =>
    simp only []
    cases hprog : (s.thr t).prog with
    | nil => exact hi
    | cons sec more => exact inv_enter s t sec more hi hpc hprog
  | held sec rest =>
    cases rest with
    | nil => exact inv_leave s t sec hi hpc
    | cons a rest =>
      simp only []
      have hok := hi.pcOk t
      rw [hpc] at hok
      have := inv_local s t hi (.inAcc sec a rest) (s.thr t).loc s.store (by simp [hpc, Pc.mode])
        (by simp only [PcOk]; exact ⟨hok a (by simp), fun b hb => hok b (by simp [hb])⟩)
        (by simpa [Pc.sec, hpc] using hi.curOk t)
      simpa using this
  | inAcc sec a rest =>
    simp only []
    have hok := hi.pcOk t
    rw [hpc] at hok
    exact inv_local s t hi (.held sec rest) _ _ (by simp [hpc, Pc.mode]) (by simpa [PcOk] using hok.2)
      (by simpa [Pc.sec, hpc] using hi.curOk t)

theorem inv_run (s : State Λ L S) (sched : List Tid) (hi : Inv s) : Inv (run s sched) := by
  induction sched generalizing s with
  | nil => exact hi
  | cons t rest ih => exact ih (step s t) (inv_step s t hi)

/-- exclusion in any state satisfying the invariant -/
theorem inv_no_conflict (s : State Λ L S) (hi : Inv s) (t1 t2 : Tid) : ¬ Conflict s t1 t2 := by
  rintro ⟨hne, a1, a2, h1, h2, -, hk⟩
  -- a thread inside a write access holds W; one inside a read holds R or W
  have key : ∀ t a, (s.thr t).pc.cur = some a →
      permits (s.thr t).pc.mode a.kind = true := by
    intro t a h
    have hok := hi.pcOk t
    cases hpc : (s.thr t).pc with
    | idle => simp [hpc, Pc.cur] at h
    | held sec rest => simp [hpc, Pc.cur] at h
    | inAcc sec b rest =>
      rw [hpc] at hok h
      simp only [Pc.cur, Option.some.injEq] at h
      subst h
      simpa [Pc.mode] using hok.1
  have wr_holds : ∀ t a, (s.thr t).pc.cur = some a → a.kind = .wr → s.writer = some t := by
    intro t a h hk
    have hp := key t a h
    rw [hk] at hp
    apply hi.wHolds
    cases hm : (s.thr t).pc.mode <;> simp [hm, permits] at hp ⊢
  have any_holds : ∀ t a, (s.thr t).pc.cur = some a →
      (s.thr t).pc.mode = .W ∨ (s.thr t).pc.mode = .R := by
    intro t a h
    have hp := key t a h
    cases hm : (s.thr t).pc.mode <;> cases hk : a.kind <;> simp [hm, hk, permits] at hp ⊢
  have excl : ∀ t u a b, t ≠ u → (s.thr t).pc.cur = some a → (s.thr u).pc.cur = some b →
      a.kind = .wr → False := by
    intro t u a b hne ha hb hk
    have hw := wr_holds t a ha hk
    rcases any_holds u b hb with hm | hm
    · have := hi.wHolds u hm
      rw [hw] at this
      exact hne (Option.some.inj this)
    · have := hi.rHolds u hm
      rw [hi.wExcl t hw] at this
      simp at this
  rcases hk with hk | hk
  · exact excl t1 t2 a1 a2 hne h1 h2 hk
  · exact excl t2 t1 a2 a1 (Ne.symm hne) h2 h1 hk

end Proofs.RW
