import Proofs.Lemmas.HierDispatch
import Model.HierShape
/-! C08: every well-shaped loop over the extends chain (leaves at the first hit, no extra condition in the hit test,
advances to the parent of the class it examined, reports that class) IS `Model.Hier.walkUp` with the tagging visit, hence
finds the most-derived declaration. -/
namespace Proofs.HierShape
open Model.Hier Spec.Hier Model.HierShape Proofs.Hier

variable {α : Type}

structure COK (S : Chain) : Prop where
  advance : S.advance = .parentOfVisited
  extra : S.extra = []
  onHit : S.onHit = .leave
  found : S.foundOK = true

theorem cok_of_okCore {S : Chain} (h : S.okCore = true) : COK S := by
  simp only [Chain.okCore, Bool.and_eq_true, beq_iff_eq, List.isEmpty_iff] at h
  obtain ⟨⟨⟨h1, h2⟩, h3⟩, h4⟩ := h
  exact ⟨h1, h2, h3, h4⟩

theorem reported_ok {S : Chain} (h : COK S) (stale c : Cls) : S.reported stale c = c := by
  have := h.found
  unfold Chain.foundOK at this
  unfold Chain.reported
  cases hf : S.found with
  | current => rfl
  | unrecorded => rfl
  | start s => rw [hf] at this; simp only at this; simp [this]
  | stale s => rw [hf] at this; cases this

theorem examine_ok {S : Chain} (h : COK S) (decl : Cls → Option α) (keep : α → Bool) (stale c : Cls) :
    examine S decl keep stale c = (decl c).map (fun x => (c, x)) := by
  unfold examine Chain.filters
  cases decl c with
  | none => rfl
  | some x =>
    simp only [h.extra, List.isEmpty_nil, Bool.not_true, Bool.false_and, Bool.false_eq_true, if_false, Option.map_some,
      reported_ok h]

theorem next_ok {S : Chain} (h : COK S) (c : Cls) : S.next c = c.ext := by
  unfold Chain.next; rw [h.advance]

/-- **a well-shaped chain loop IS `walkUp`** with the visit that tags the declaration with its class -/
theorem runC_eq_walkUp {S : Chain} (h : COK S) (G : Graph) (decl : Cls → Option α) (keep : α → Bool) (stale : Cls) :
    ∀ f e, runC S G decl keep stale f none e =
      walkUp G (fun d => some ((decl d).map (fun x => (d, x)))) f e := by
  intro f
  induction f with
  | zero =>
    intro e
    cases e with
    | none => simp [runC, walkUp, finish]
    | some e => simp [runC, walkUp]
  | succ f ih =>
    intro e
    cases e with
    | none => simp [runC, walkUp, finish]
    | some e =>
      rw [runC, walkUp]
      cases getClass G e with
      | none => rfl
      | some c =>
        simp only [examine_ok h, next_ok h, h.onHit]
        cases decl c with
        | none => simp only [Option.map_none]; exact ih c.ext
        | some x => simp

/-- the lookup of a well-shaped site that examines the base class first is `lookupG` -/
theorem lookupS_base {S : Chain} (h : COK S) (hb : S.«from» = .base) (G : Graph) (decl : Cls → Option α) (keep : α → Bool)
    (stale b : Cls) : lookupS S G decl keep stale b = lookupG G decl b := by
  unfold lookupS lookupG
  rw [hb]
  simp only [examine_ok h, next_ok h, h.onHit]
  cases decl b with
  | none => simp only [Option.map_none]; exact runC_eq_walkUp h G decl keep stale _ _
  | some x => simp

/-- the lookup of a well-shaped site that starts above the base class is the walk from the base's parent -/
theorem lookupS_above {S : Chain} (h : COK S) (hb : S.«from» ≠ .base) (G : Graph) (decl : Cls → Option α) (keep : α → Bool)
    (stale b : Cls) :
    lookupS S G decl keep stale b = walkUp G (fun d => some ((decl d).map (fun x => (d, x)))) (classFuel G) b.ext := by
  unfold lookupS
  cases hf : S.«from» with
  | base => exact absurd hf hb
  | above => exact runC_eq_walkUp h G decl keep stale _ _
  | handed => exact runC_eq_walkUp h G decl keep stale _ _
  | other s => exact runC_eq_walkUp h G decl keep stale _ _

/-! ### `lookupG` finds the most-derived declaration (the statements of `lookupFrom_*` for an arbitrary table) -/

theorem lookupFrom_eq_lookupG (G : Graph) (pick : Cls → List Meth) (c : Cls) (m : Name) :
    lookupFrom G pick c m = lookupG G (fun k => findM (pick k) m) c := by
  unfold lookupFrom lookupG
  dsimp only
  cases findM (pick c) m <;> rfl

theorem lookupG_found (G : Graph) (g : Cls → Option α) (c d : Cls) (x : α)
    (h : lookupG G g c = .found (d, x)) : MostDerived G g c d x := by
  unfold lookupG at h
  split at h
  · rename_i y hy
    simp only [Walk.found.injEq, Prod.mk.injEq] at h
    obtain ⟨rfl, rfl⟩ := h
    exact ⟨[], AncVia.self c, hy, by simp⟩
  · rename_i hnone
    cases hext : c.ext with
    | none => rw [hext] at h; simp [walkUp] at h
    | some p =>
      rw [hext] at h
      obtain ⟨c0, hc0, via, hvia, hd, hno⟩ := walkTag_found G g _ p d x h
      refine ⟨c :: via, AncVia.up hext hc0 hvia, hd, ?_⟩
      intro y hy
      rcases List.mem_cons.1 hy with rfl | hy
      · exact hnone
      · exact hno y hy

theorem lookupG_complete (G : Graph) (hn : NoCycle (csucc G)) (g : Cls → Option α) (c d : Cls) (x : α)
    (h : MostDerived G g c d x) : lookupG G g c = .found (d, x) := by
  obtain ⟨via, hvia, hd, hnone⟩ := h
  unfold lookupG
  cases hvia with
  | self => rw [hd]
  | @up _ d' _ p via' hp hd' hrest =>
    have hc : g c = none := hnone c (by simp)
    rw [hc, hp]
    exact walkTag_complete G hn g p d' d x hd' ⟨via', hrest, hd, fun e he => hnone e (by simp [he])⟩

end Proofs.HierShape
