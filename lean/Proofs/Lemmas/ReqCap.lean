import Model.ReqCap
import Spec.ReqCap
/-!
Lemmas for `Model.ReqCap`: with a private binding (`bindsPrivate`) no request ever touches the
value of the definition-time environment, so a request's state after any schedule is the iterate
of its own step over the boot value, and that iterate is what `Spec.ReqCap` says.
-/
namespace Proofs.ReqCap
open Model.ReqCap

def toOp : Step → Spec.ReqCap.Op
  | .set i => .set i
  | .push => .push
  | .rewind => .rewind
  | .next => .next
  | .readAll => .readAll
  | .gate => .gate
  | .write => .write

def iter {α : Type} : Nat → (α → α) → α → α
  | 0, _, x => x
  | n + 1, f, x => iter n f (f x)

theorem iter_succ {α : Type} (n : Nat) (f : α → α) (x : α) : iter (n + 1) f x = iter n f (f x) := rfl

theorem iter_fix {α : Type} (f : α → α) (x : α) (h : f x = x) : ∀ n, iter n f x = x := by
  intro n
  induction n with
  | zero => rfl
  | succ n ih => simp [iter, h, ih]

theorem iter_add {α : Type} (f : α → α) : ∀ (m n : Nat) (x : α), iter (m + n) f x = iter n f (iter m f x) := by
  intro m
  induction m with
  | zero => intro n x; simp [iter]
  | succ m ih => intro n x; rw [Nat.succ_add]; simp only [iter]; exact ih n (f x)

theorem iter_stable {α : Type} (f : α → α) (P : α → Prop) (hfix : ∀ x, P x → f x = x) (x : α) (a b : Nat)
    (ha : P (iter a f x)) (hb : P (iter b f x)) : iter a f x = iter b f x := by
  rcases Nat.le_total a b with h | h
  · obtain ⟨c, rfl⟩ := Nat.exists_eq_add_of_le h
    rw [iter_add, iter_fix f _ (hfix _ ha)]
  · obtain ⟨c, rfl⟩ := Nat.exists_eq_add_of_le h
    rw [iter_add, iter_fix f _ (hfix _ hb)]

def ownStep (w : World) (r : Rid) (sh : Val) (rs : ReqSt) : ReqSt := (localStep w (w.datum r) rs sh).1

def NoAlias (s : State) : Prop := ∀ r, (s.reqs r).loc ≠ .alias

theorem localStep_private (w : World) (hp : bindsPrivate w = true) (d : Nat) (rs : ReqSt) (sh : Val)
    (h : rs.loc ≠ .alias) :
    (localStep w d rs sh).2 = sh ∧ (localStep w d rs sh).1.loc ≠ .alias := by
  unfold localStep
  cases hb : rs.body with
  | some b => simp [h]
  | none =>
    cases hl : rs.loc with
    | unbound => simp [hp]
    | alias => exact absurd hl h
    | own v =>
      cases hpc : rs.pc with
      | nil => simp [hl]
      | cons st rest => cases st <;> simp [hl]

theorem stepReq_private (w : World) (hp : bindsPrivate w = true) (s : State) (hs : NoAlias s) (q : Rid) :
    (stepReq w s q).shared = s.shared ∧ NoAlias (stepReq w s q) := by
  have h := localStep_private w hp (w.datum q) (s.reqs q) s.shared (hs q)
  refine ⟨h.1, ?_⟩
  intro r
  by_cases hr : r = q
  · subst hr; simp only [stepReq, if_pos]; exact h.2
  · simp only [stepReq, if_neg hr]; exact hs r

theorem run_private (w : World) (hp : bindsPrivate w = true) : ∀ (sched : List Rid) (s : State), NoAlias s →
    (run w s sched).shared = s.shared ∧
    ∀ r, (run w s sched).reqs r = iter (sched.count r) (ownStep w r s.shared) (s.reqs r) := by
  intro sched
  induction sched with
  | nil => intro s _; simp [run, iter]
  | cons q rest ih =>
    intro s hs
    have h1 := stepReq_private w hp s hs q
    have h2 := ih (stepReq w s q) h1.2
    simp only [run]
    refine ⟨h2.1.trans h1.1, ?_⟩
    intro r
    rw [h2.2 r, h1.1]
    by_cases hr : q = r
    · subst hr
      have : (stepReq w s q).reqs q = ownStep w q s.shared (s.reqs q) := by simp [stepReq, ownStep]
      rw [this, List.count_cons_self]
      rfl
    · have : (stepReq w s q).reqs r = s.reqs r := by simp [stepReq, Ne.symm hr]
      rw [this, List.count_cons_of_ne hr]

theorem init_noAlias (w : World) : NoAlias (init w) := by
  intro r; simp [init]

theorem ownStep_done (w : World) (r : Rid) (sh : Val) (rs : ReqSt) (h : rs.body.isSome = true) :
    ownStep w r sh rs = rs := by
  unfold ownStep localStep
  cases hb : rs.body with
  | none => simp [hb] at h
  | some b => rfl

theorem exec_spec (d : Nat) (st : Step) (hw : st ≠ .write) (rest : List Step) (v : Val) (obs : List Nat) :
    Spec.ReqCap.go d (toOp st :: rest.map toOp) v.items v.cur obs =
      Spec.ReqCap.go d (rest.map toOp) (exec st d v).1.items (exec st d v).1.cur (obs ++ (exec st d v).2) := by
  cases st <;> simp_all [toOp, Spec.ReqCap.go, exec]

theorem own_run (w : World) (r : Rid) (sh : Val) : ∀ (p : List Step) (rs : ReqSt) (v : Val),
    rs.body = none → rs.loc = .own v → rs.pc = p →
    (iter (p.length + 1) (ownStep w r sh) rs).body =
      some (Spec.ReqCap.go (w.datum r) (p.map toOp) v.items v.cur rs.obs) := by
  intro p
  induction p with
  | nil =>
    intro rs v hb hl hpc
    simp [iter, ownStep, localStep, hb, hl, hpc, Spec.ReqCap.go]
  | cons st rest ih =>
    intro rs v hb hl hpc
    by_cases hw : st = .write
    · subst hw
      have h1 : ownStep w r sh rs = { rs with pc := [], body := some rs.obs } := by
        simp [ownStep, localStep, hb, hl, hpc]
      rw [List.length_cons, iter_succ, h1, iter_fix _ _ (ownStep_done w r sh _ (by simp))]
      simp [toOp, Spec.ReqCap.go]
    · have h1 : ownStep w r sh rs =
          { rs with pc := rest, loc := .own (exec st (w.datum r) v).1, obs := rs.obs ++ (exec st (w.datum r) v).2 } := by
        cases st <;> simp_all [ownStep, localStep]
      have h2 := ih { rs with pc := rest, loc := .own (exec st (w.datum r) v).1, obs := rs.obs ++ (exec st (w.datum r) v).2 }
        (exec st (w.datum r) v).1 hb rfl rfl
      rw [List.length_cons, iter_succ, h1, h2]
      simp only [List.map_cons]
      rw [exec_spec _ st hw]

theorem solo_spec (w : World) (hp : bindsPrivate w = true) (r : Rid) :
    (iter ((w.prog r).length + 2) (ownStep w r (init w).shared) ((init w).reqs r)).body =
      some (Spec.ReqCap.respond w.boot (w.datum r) ((w.prog r).map toOp)) := by
  have h1 : ownStep w r (init w).shared ((init w).reqs r) =
      { pc := w.prog r, loc := .own { items := w.boot, cur := 0 }, obs := [], body := none } := by
    simp [ownStep, localStep, init, hp]
  rw [iter_succ, h1, own_run w r _ (w.prog r) _ { items := w.boot, cur := 0 } rfl rfl rfl]
  rfl

end Proofs.ReqCap
