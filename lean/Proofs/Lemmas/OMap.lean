import Model.OMap
import Spec.OMap
/-!
Lemmas for C20 (i): the `OrderedMap` model refines the insertion-ordered association list.

`Rep m ks`: the representation invariant, phrased through the key list `ks` the two Go maps encode:
`nameMap i = ks[i]?`, `indexMap k = some i ↔ ks[i]? = some k`, `ks` has no duplicates and is as long
as `data`. Under `Rep`, `range m = ks.zip data`.
-/
namespace Proofs.OMap
open Model.OMap

set_option linter.unusedSectionVars false
set_option linter.unusedSimpArgs false

variable {κ ν : Type} [DecidableEq κ]

structure Rep (m : OM κ ν) (ks : List κ) : Prop where
  nodup : ks.Nodup
  len : ks.length = m.data.length
  name : ∀ i, m.nameMap i = ks[i]?
  index : ∀ k i, m.indexMap k = some i ↔ ks[i]? = some k

theorem rep_empty : Rep (empty : OM κ ν) [] :=
  ⟨List.nodup_nil, rfl, fun _ => by simp [empty, GoMap.empty], fun _ _ => by simp [empty, GoMap.empty]⟩

/-! ### index plumbing: the loops over `data` with a running position -/

theorem rangeFrom_eq (nameMap : GoMap Nat κ) (ks : List κ) (hn : ∀ i, nameMap i = ks[i]?) :
    ∀ (rest : List ν) (i : Nat), i + rest.length = ks.length →
      rangeFrom nameMap i rest = (ks.drop i).zip rest
  | [], i, _ => by simp [rangeFrom]
  | z :: rest, i, h => by
    have hi : i < ks.length := by simp at h; omega
    have hk : nameMap i = some ks[i] := by rw [hn i, List.getElem?_eq_getElem hi]
    have ih := rangeFrom_eq nameMap ks hn rest (i + 1) (by simp at h; omega)
    rw [rangeFrom, hk]
    simp only
    rw [ih, List.drop_eq_getElem_cons hi, List.zip_cons_cons]

theorem range_eq {m : OM κ ν} {ks : List κ} (h : Rep m ks) : range m = ks.zip m.data := by
  have := rangeFrom_eq m.nameMap ks h.name m.data 0 (by simp [h.len])
  simpa [range] using this

/-- pushing a list of pairs, the accumulated effect of the `Delete` loop -/
def pushAll (acc : OM κ ν) (ps : List (κ × ν)) : OM κ ν := ps.foldl (fun a p => a.push p.1 p.2) acc

theorem delLoop_eq (key : κ) (nameMap : GoMap Nat κ) (ks : List κ) (hn : ∀ i, nameMap i = ks[i]?) :
    ∀ (rest : List ν) (i : Nat) (acc : OM κ ν), i + rest.length = ks.length →
      delLoop key nameMap i rest acc = pushAll acc (((ks.drop i).zip rest).filter (fun p => p.1 ≠ key))
  | [], i, acc, _ => by simp [delLoop, pushAll]
  | z :: rest, i, acc, h => by
    have hi : i < ks.length := by simp at h; omega
    have hk : nameMap i = some ks[i] := by rw [hn i, List.getElem?_eq_getElem hi]
    rw [delLoop, hk]
    simp only
    rw [List.drop_eq_getElem_cons hi, List.zip_cons_cons]
    by_cases hkey : ks[i] = key
    · rw [if_pos hkey, delLoop_eq key nameMap ks hn rest (i + 1) acc (by simp at h; omega)]
      simp [hkey]
    · rw [if_neg hkey, delLoop_eq key nameMap ks hn rest (i + 1) _ (by simp at h; omega)]
      simp [hkey, pushAll]

/-! ### the invariant is preserved -/

theorem getElem?_append_singleton (ks : List κ) (k : κ) (i : Nat) :
    (ks ++ [k])[i]? = if i = ks.length then some k else ks[i]? := by
  by_cases h : i < ks.length
  · rw [List.getElem?_append_left h, if_neg (by omega)]
  · by_cases h2 : i = ks.length
    · subst h2; simp
    · rw [if_neg h2, List.getElem?_eq_none (by simp; omega), List.getElem?_eq_none (by omega)]

theorem rep_push {m : OM κ ν} {ks : List κ} (h : Rep m ks) (k : κ) (v : ν) (hk : k ∉ ks) :
    Rep (m.push k v) (ks ++ [k]) := by
  refine ⟨?_, ?_, ?_, ?_⟩
  · rw [List.nodup_append]
    exact ⟨h.nodup, (by simp), by intro a ha b hb; simp at hb; subst hb; intro e; exact hk (e ▸ ha)⟩
  · simp [OM.push, h.len]
  · intro i
    rw [getElem?_append_singleton]
    simp only [OM.push, GoMap.put, h.len]
    by_cases hi : i = m.data.length
    · simp [hi]
    · simp [hi, h.name i]
  · intro k' i
    rw [getElem?_append_singleton]
    simp only [OM.push, GoMap.put]
    by_cases hk' : k' = k
    · subst hk'
      by_cases hi : i = ks.length
      · simp [hi, h.len]
      · simp only [if_pos rfl, hi, if_false]
        constructor
        · intro e; simp [← h.len] at e; exact absurd e.symm hi
        · intro e; exact absurd (List.mem_of_getElem? e) hk
    · by_cases hi : i = ks.length
      · simp only [if_neg hk', hi, if_pos rfl]
        constructor
        · intro e
          have := (h.index k' ks.length).1 e
          rw [List.getElem?_eq_none (Nat.le_refl _)] at this
          exact absurd this (by simp)
        · intro e; simp at e; exact absurd e.symm hk'
      · simp only [if_neg hk', hi, if_false]
        exact h.index k' i

theorem pushAll_data (acc : OM κ ν) (ps : List (κ × ν)) :
    (pushAll acc ps).data = acc.data ++ ps.map (·.2) := by
  induction ps generalizing acc with
  | nil => simp [pushAll]
  | cons p ps ih =>
    have : pushAll acc (p :: ps) = pushAll (acc.push p.1 p.2) ps := rfl
    rw [this, ih]; simp [OM.push]

theorem rep_pushAll {acc : OM κ ν} {ksA : List κ} (h : Rep acc ksA) (ps : List (κ × ν))
    (hnd : (ksA ++ ps.map (·.1)).Nodup) : Rep (pushAll acc ps) (ksA ++ ps.map (·.1)) := by
  induction ps generalizing acc ksA with
  | nil => simpa [pushAll] using h
  | cons p ps ih =>
    have e : pushAll acc (p :: ps) = pushAll (acc.push p.1 p.2) ps := rfl
    have hp : p.1 ∉ ksA := by
      intro hm
      rw [List.nodup_append] at hnd
      exact hnd.2.2 _ hm _ (by simp) rfl
    have h' := rep_push h p.1 p.2 hp
    have hnd' : ((ksA ++ [p.1]) ++ ps.map (·.1)).Nodup := by simpa using hnd
    have := ih h' hnd'
    rw [e]; simpa using this

/-! ### zip facts -/

theorem zip_map_fst_snd (l : List (κ × ν)) : (l.map (·.1)).zip (l.map (·.2)) = l := by
  induction l with
  | nil => rfl
  | cons p l ih => simp [ih]

theorem map_fst_zip (ks : List κ) (d : List ν) (h : ks.length = d.length) : (ks.zip d).map (·.1) = ks := by
  induction ks generalizing d with
  | nil => simp
  | cons k ks ih =>
    cases d with
    | nil => simp at h
    | cons z d => simp at h; simp [ih d h]

theorem zip_set (ks : List κ) (hnd : ks.Nodup) :
    ∀ (d : List ν) (idx : Nat) (k : κ) (v : ν), ks.length = d.length → ks[idx]? = some k →
      ks.zip (d.set idx v) = (ks.zip d).map (fun p => if p.1 = k then (k, v) else p) := by
  induction ks with
  | nil => intro d idx k v _ hk; simp at hk
  | cons k0 ks ih =>
    intro d idx k v hl hk
    cases d with
    | nil => simp at hl
    | cons z d =>
      have hnd' := (List.nodup_cons.1 hnd)
      cases idx with
      | zero =>
        simp at hk; subst hk
        simp only [List.set_cons_zero, List.zip_cons_cons, List.map_cons, if_pos]
        congr 1
        -- no other pair has key k0
        have : ∀ p ∈ ks.zip d, p.1 ≠ k0 := by
          intro p hp e
          have := (List.of_mem_zip hp).1
          exact hnd'.1 (e ▸ this)
        symm
        calc (ks.zip d).map (fun p => if p.1 = k0 then (k0, v) else p)
            = (ks.zip d).map id := List.map_congr_left (fun p hp => by simp [this p hp])
          _ = ks.zip d := by simp
      | succ idx =>
        simp at hk
        have hne : k0 ≠ k := by
          intro e; subst e
          exact hnd'.1 (List.mem_of_getElem? hk)
        simp only [List.set_cons_succ, List.zip_cons_cons, List.map_cons, if_neg hne]
        congr 1
        exact ih hnd'.2 d idx k v (by simpa using hl) hk

/-! ### each operation against the specification -/

theorem mem_keys_iff {m : OM κ ν} {ks : List κ} (h : Rep m ks) (k : κ) :
    k ∈ ks ↔ ∃ i, m.indexMap k = some i := by
  constructor
  · intro hk
    obtain ⟨i, hi, e⟩ := List.getElem_of_mem hk
    exact ⟨i, (h.index k i).2 (by rw [List.getElem?_eq_getElem hi, e])⟩
  · rintro ⟨i, hi⟩
    exact List.mem_of_getElem? ((h.index k i).1 hi)

theorem spec_keys_zip (ks : List κ) (d : List ν) (h : ks.length = d.length) :
    Spec.OMap.keys (ks.zip d) = ks := map_fst_zip ks d h

/-- `Set` -/
theorem set_refines {m : OM κ ν} {ks : List κ} (h : Rep m ks) (k : κ) (v : ν) :
    ∃ ks', Rep (set m k v) ks' ∧ ks'.zip (set m k v).data = Spec.OMap.set (ks.zip m.data) k v := by
  unfold Model.OMap.set
  cases hi : m.indexMap k with
  | some idx =>
    have hk := (h.index k idx).1 hi
    have hlt : idx < m.data.length := by
      rw [← h.len]
      by_cases hh : idx < ks.length
      · exact hh
      · rw [List.getElem?_eq_none (by omega)] at hk; exact absurd hk (by simp)
    simp only [if_pos hlt]
    refine ⟨ks, ⟨h.nodup, by simp [h.len], h.name, h.index⟩, ?_⟩
    have hmem : k ∈ Spec.OMap.keys (ks.zip m.data) := by
      rw [spec_keys_zip ks m.data h.len]; exact List.mem_of_getElem? hk
    simp only [Spec.OMap.set, if_pos hmem]
    exact zip_set ks h.nodup m.data idx k v h.len hk
  | none =>
    have hk : k ∉ ks := by
      intro hm
      obtain ⟨i, e⟩ := (mem_keys_iff h k).1 hm
      rw [hi] at e; exact absurd e (by simp)
    refine ⟨ks ++ [k], rep_push h k v hk, ?_⟩
    have hmem : k ∉ Spec.OMap.keys (ks.zip m.data) := by rw [spec_keys_zip ks m.data h.len]; exact hk
    simp only [Spec.OMap.set, if_neg hmem, OM.push]
    rw [List.zip_append h.len]; rfl

/-- `Delete` -/
theorem delete_refines {m : OM κ ν} {ks : List κ} (h : Rep m ks) (key : κ) :
    ∃ ks', Rep (delete m key) ks' ∧ ks'.zip (delete m key).data = Spec.OMap.delete (ks.zip m.data) key := by
  unfold delete
  cases hi : m.indexMap key with
  | none =>
    have hk : key ∉ ks := by
      intro hm
      obtain ⟨i, e⟩ := (mem_keys_iff h key).1 hm
      rw [hi] at e; exact absurd e (by simp)
    refine ⟨ks, h, ?_⟩
    simp only [Spec.OMap.delete]
    symm
    rw [List.filter_eq_self]
    intro p hp
    have := (List.of_mem_zip hp).1
    simp only [ne_eq, decide_eq_true_eq]
    intro e; exact hk (e ▸ this)
  | some _ =>
    simp only
    have e := delLoop_eq key m.nameMap ks h.name m.data 0 (empty : OM κ ν) (by simp [h.len])
    simp only [List.drop_zero] at e
    rw [e]
    obtain ⟨ps, hps⟩ : ∃ ps, ps = (ks.zip m.data).filter (fun p => p.1 ≠ key) := ⟨_, rfl⟩
    rw [← hps]
    have hsub : (ps.map (·.1)).Sublist ks := by
      have h1 : (ps.map (·.1)).Sublist ((ks.zip m.data).map (·.1)) := by
        rw [hps]; exact (List.filter_sublist).map _
      rwa [map_fst_zip ks m.data h.len] at h1
    have hnd : (([] : List κ) ++ ps.map (·.1)).Nodup := by simpa using hsub.nodup h.nodup
    have hr := rep_pushAll (rep_empty (κ := κ) (ν := ν)) ps hnd
    refine ⟨ps.map (·.1), by simpa using hr, ?_⟩
    rw [pushAll_data]
    simp only [empty, List.nil_append]
    rw [zip_map_fst_snd, hps]
    rfl

/-- `Get` -/
theorem get_refines {m : OM κ ν} {ks : List κ} (h : Rep m ks) (k : κ) :
    get m k = Spec.OMap.get (ks.zip m.data) k := by
  unfold Model.OMap.get Spec.OMap.get
  cases hi : m.indexMap k with
  | none =>
    have hk : k ∉ ks := by
      intro hm
      obtain ⟨i, e⟩ := (mem_keys_iff h k).1 hm
      rw [hi] at e; exact absurd e (by simp)
    simp only
    rw [List.find?_eq_none.2]
    · rfl
    · intro p hp
      have := (List.of_mem_zip hp).1
      simp only [decide_eq_true_eq]
      intro e; exact hk (e ▸ this)
  | some idx =>
    have hk := (h.index k idx).1 hi
    have hlt : idx < m.data.length := by
      rw [← h.len]
      by_cases hh : idx < ks.length
      · exact hh
      · rw [List.getElem?_eq_none (by omega)] at hk; exact absurd hk (by simp)
    simp only [dif_pos hlt]
    -- the first pair with key k in ks.zip data is at idx
    have : ∀ (ks : List κ) (d : List ν) (idx : Nat) (hl : idx < d.length), ks.Nodup → ks.length = d.length →
        ks[idx]? = some k → (ks.zip d).find? (fun p => p.1 = k) = some (k, d[idx]) := by
      intro ks
      induction ks with
      | nil => intro d idx _ _ _ hk; simp at hk
      | cons k0 ks ih =>
        intro d idx hl hnd hlen hk
        cases d with
        | nil => simp at hl
        | cons z d =>
          cases idx with
          | zero => simp at hk; subst hk; simp
          | succ idx =>
            simp at hk
            have hnd' := List.nodup_cons.1 hnd
            have hne : k0 ≠ k := by intro e; subst e; exact hnd'.1 (List.mem_of_getElem? hk)
            simp only [List.zip_cons_cons, List.find?_cons, hne, decide_false]
            simpa using ih d idx (by simpa using hl) hnd'.2 (by simpa using hlen) hk
    rw [this ks m.data idx hlt h.nodup h.len hk]
    rfl

/-- `GetByIndex` -/
theorem getByIndex_refines {m : OM κ ν} {ks : List κ} (h : Rep m ks) (i : Int) :
    getByIndex m i = Spec.OMap.getByIndex (ks.zip m.data) i := by
  unfold getByIndex Spec.OMap.getByIndex
  by_cases h0 : 0 ≤ i
  · by_cases hl : i.toNat < m.data.length
    · rw [dif_pos ⟨h0, hl⟩, if_pos h0]
      have hlk : i.toNat < ks.length := by rw [h.len]; exact hl
      rw [h.name, List.getElem?_eq_getElem hlk]
      simp only
      rw [List.getElem?_eq_getElem (by simp [List.length_zip, h.len]; exact hl)]
      simp [List.getElem_zip]
    · rw [dif_neg (by intro c; exact hl c.2), if_pos h0]
      rw [List.getElem?_eq_none]
      simp [List.length_zip, h.len]; omega
  · rw [dif_neg (by intro c; exact h0 c.1), if_neg h0]

/-! ### all op sequences -/

def toSpec : Op κ ν → Spec.OMap.Op κ ν
  | .set k v => .set k v
  | .delete k => .delete k

theorem step_refines {m : OM κ ν} {ks : List κ} (h : Rep m ks) (op : Op κ ν) :
    ∃ ks', Rep (step m op) ks' ∧ ks'.zip (step m op).data = Spec.OMap.step (ks.zip m.data) (toSpec op) := by
  cases op with
  | set k v => exact set_refines h k v
  | delete k => exact delete_refines h k

theorem foldl_refines (ops : List (Op κ ν)) :
    ∀ (m : OM κ ν) (ks : List κ), Rep m ks →
      ∃ ks', Rep (ops.foldl step m) ks' ∧
        ks'.zip (ops.foldl step m).data = (ops.map toSpec).foldl Spec.OMap.step (ks.zip m.data) := by
  induction ops with
  | nil => intro m ks h; exact ⟨ks, h, rfl⟩
  | cons op ops ih =>
    intro m ks h
    obtain ⟨ks1, h1, e1⟩ := step_refines h op
    obtain ⟨ks2, h2, e2⟩ := ih _ ks1 h1
    exact ⟨ks2, h2, by simp only [List.foldl_cons, List.map_cons]; rw [e2, e1]⟩

theorem run_refines (ops : List (Op κ ν)) :
    ∃ ks, Rep (run ops) ks ∧ ks.zip (run ops).data = Spec.OMap.run (ops.map toSpec) := by
  have := foldl_refines ops (empty : OM κ ν) [] rep_empty
  simpa [run, Spec.OMap.run] using this

/-! ### the specification itself: keys are unique -/

theorem spec_keys_nodup (ops : List (Spec.OMap.Op κ ν)) : (Spec.OMap.keys (Spec.OMap.run ops)).Nodup := by
  suffices H : ∀ (s : Spec.OMap.St κ ν), (Spec.OMap.keys s).Nodup →
      (Spec.OMap.keys (ops.foldl Spec.OMap.step s)).Nodup from H [] (by simp [Spec.OMap.keys])
  induction ops with
  | nil => intro s h; exact h
  | cons op ops ih =>
    intro s h
    apply ih
    cases op with
    | set k v =>
      simp only [Spec.OMap.step, Spec.OMap.set]
      split
      · -- in place: the key list is unchanged
        have : Spec.OMap.keys (s.map (fun p => if p.1 = k then (k, v) else p)) = Spec.OMap.keys s := by
          simp only [Spec.OMap.keys, List.map_map]
          apply List.map_congr_left
          intro p _
          by_cases e : p.1 = k <;> simp [e]
        rw [this]; exact h
      · rename_i hk
        simp only [Spec.OMap.keys, List.map_append, List.map_cons, List.map_nil]
        rw [List.nodup_append]
        exact ⟨h, (by simp), by intro a ha b hb; simp at hb; subst hb; intro e; exact hk (e ▸ ha)⟩
    | delete k =>
      simp only [Spec.OMap.step, Spec.OMap.delete, Spec.OMap.keys]
      exact ((List.filter_sublist).map _).nodup h

end Proofs.OMap
