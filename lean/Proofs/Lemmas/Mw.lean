import Model.Mw
namespace Proofs.Mw
open Model.Mw

theorem ins_perm (e : Entry) (l : List Entry) : (ins e l).Perm (e :: l) := by
  induction l with
  | nil => simp [ins]
  | cons x xs ih =>
    unfold ins; split
    · exact List.Perm.refl _
    · exact (List.Perm.cons x ih).trans (List.Perm.swap e x xs)

theorem sort_perm (l : List Entry) : (sortStable l).Perm l := by
  induction l with
  | nil => exact List.Perm.refl _
  | cons e es ih => exact (ins_perm e _).trans (List.Perm.cons e ih)

def Asc (l : List Entry) : Prop := l.Pairwise (fun a b => a.prio ≤ b.prio)

theorem ins_asc (e : Entry) (l : List Entry) (h : Asc l) : Asc (ins e l) := by
  induction l with
  | nil => simp [ins, Asc]
  | cons x xs ih =>
    unfold ins; split
    · rename_i hle
      have hx := List.pairwise_cons.mp h
      refine List.pairwise_cons.mpr ⟨?_, h⟩
      intro b hb
      rcases List.mem_cons.mp hb with rfl | hb
      · exact hle
      · exact Int.le_trans hle (hx.1 b hb)
    · rename_i hgt
      have hx := List.pairwise_cons.mp h
      refine List.pairwise_cons.mpr ⟨?_, ih hx.2⟩
      intro b hb
      have := (ins_perm e xs).mem_iff.mp hb
      rcases List.mem_cons.mp this with rfl | hb'
      · omega
      · exact hx.1 b hb'

theorem sort_asc (l : List Entry) : Asc (sortStable l) := by
  induction l with
  | nil => simp [sortStable, Asc]
  | cons e es ih => exact ins_asc e _ ih

/-- inserting `e` in front of a list whose entries of priority `e.prio` all … -/
theorem ins_filter (e : Entry) (l : List Entry) (p : Int) (h : Asc l) :
    (ins e l).filter (fun x => x.prio == p) = (e :: l).filter (fun x => x.prio == p) := by
  induction l with
  | nil => simp [ins]
  | cons x xs ih =>
    have hx := List.pairwise_cons.mp h
    unfold ins; split
    · rfl
    · rename_i hgt
      have ih' := ih hx.2
      simp only [List.filter_cons] at ih' ⊢
      by_cases hxp : x.prio = p
      · have hep : ¬ e.prio = p := by omega
        simp [hxp, hep] at ih' ⊢
        exact ih'
      · by_cases hep : e.prio = p
        · simp [hxp, hep] at ih' ⊢
          exact ih'
        · simp [hxp, hep] at ih' ⊢
          exact ih'

theorem sort_stable (l : List Entry) (p : Int) :
    (sortStable l).filter (fun x => x.prio == p) = l.filter (fun x => x.prio == p) := by
  induction l with
  | nil => rfl
  | cons e es ih =>
    simp only [sortStable]
    rw [ins_filter e _ p (sort_asc es)]
    simp only [List.filter_cons]
    split <;> simp [ih]

theorem chain_all_call (final : Handler) (l : List Entry) (h : ∀ e ∈ l, e.calls = true) :
    chain final l = l.map (fun e => Ev.pre e.id) ++ final ++ l.reverse.map (fun e => Ev.post e.id) := by
  induction l with
  | nil => simp [chain]
  | cons e es ih =>
    have he := h e List.mem_cons_self
    have := ih (fun x hx => h x (List.mem_cons_of_mem _ hx))
    simp only [chain, List.foldr_cons] at this ⊢
    simp [wrap, he, this]

/-- general form with short-circuiting middlewares: everything after the first
    non-calling middleware (and the final handler) is skipped. -/
def expected (final : Handler) : List Entry → Handler
  | [] => final
  | e :: es => if e.calls then [Ev.pre e.id] ++ expected final es ++ [Ev.post e.id]
               else [Ev.pre e.id, Ev.post e.id]

theorem chain_eq_expected (final : Handler) (l : List Entry) : chain final l = expected final l := by
  induction l with
  | nil => rfl
  | cons e es ih =>
    simp only [chain, List.foldr_cons] at ih ⊢
    simp [wrap, expected, ih]

end Proofs.Mw
