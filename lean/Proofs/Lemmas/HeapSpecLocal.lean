import Proofs.Lemmas.HeapRun
/-!
C06 helper lemmas, part 9: in `Spec.Val` a mutating statement at **any depth** changes
the name its place is rooted in and nothing else (the property at full strength, on the
spec side).
-/
namespace Proofs.Heap
open Model.Heap
open Spec.Val (Tree Entry)

theorem spec_setVar_other (s : Spec.Val.St) (x : Nat) (t : Tree) :
    (s.setVar x t).objs = s.objs ∧ (s.setVar x t).names = s.names ∧
    ∀ y, s.names[y]? ≠ s.names[x]? → (s.setVar x t).varVal? y = s.varVal? y := by
  simp only [Spec.Val.St.setVar]
  cases hc : s.names[x]? with
  | none => simp
  | some c =>
    refine ⟨rfl, rfl, ?_⟩
    intro y hy
    simp only [Spec.Val.St.varVal?]
    cases hcy : s.names[y]? with
    | none => rfl
    | some cy =>
      have : c ≠ cy := fun e => hy (by rw [hcy, e])
      simp [List.getElem?_set, this]

theorem spec_setProp_other (s : Spec.Val.St) (hx p : Nat) (t : Tree) :
    (s.setProp hx p t).vars = s.vars ∧ (s.setProp hx p t).names = s.names ∧
    ∀ h0 p', (hx ≠ h0 ∨ p' ≠ p) → (s.setProp hx p t).propVal? h0 p' = s.propVal? h0 p' := by
  simp only [Spec.Val.St.setProp]
  cases hps : s.objs[hx]? with
  | none => simp
  | some ps =>
    refine ⟨rfl, rfl, ?_⟩
    intro h0 p' hne
    simp only [Spec.Val.St.propVal?]
    by_cases e : hx = h0
    · subst e
      have hlt : hx < s.objs.length := (List.getElem?_eq_some_iff.mp hps).1
      have hp : p' ≠ p := by
        rcases hne with hne | hne
        · exact (hne rfl).elim
        · exact hne
      have hget : s.objs[hx] = ps := by
        have := List.getElem?_eq_getElem hlt
        rw [hps] at this; injection this with this; exact this.symm
      simp [List.getElem?_set, hlt, Ne.symm hp, hget]
    · simp [List.getElem?_set, e]

/-- a write at any depth is a rewrite of the tree of the root name -/
theorem spec_modify_root (s : Spec.Val.St) (c : Bool) : (b : Place) → (F : Tree → Option Tree) →
    ∃ F', Spec.Val.modify s c b F = Spec.Val.modify s c b.root F'
  | .var x, F => ⟨F, rfl⟩
  | .prop x p, F => ⟨F, rfl⟩
  | .idx b k, F => by
      simp only [Spec.Val.modify, Place.root]
      exact spec_modify_root s c b _

theorem spec_modify_local (s s' : Spec.Val.St) (c : Bool) (b : Place) (F : Tree → Option Tree)
    (h : Spec.Val.modify s c b F = some s') :
    match b.root with
    | .var x => s'.objs = s.objs ∧ ∀ y, s.names[y]? ≠ s.names[x]? → s'.varVal? y = s.varVal? y
    | .prop x p => (∀ y, s'.varVal? y = s.varVal? y) ∧
        ∀ h0 p', (s.varObj? x ≠ some h0 ∨ p' ≠ p) → s'.propVal? h0 p' = s.propVal? h0 p'
    | .idx _ _ => True := by
  obtain ⟨F', hF⟩ := spec_modify_root s c b F
  rw [hF] at h
  cases hr : b.root with
  | idx b' k => trivial
  | var x =>
    rw [hr] at h
    simp only [Spec.Val.modify] at h
    cases hv : s.varVal? x with
    | none => simp [hv] at h
    | some t =>
      simp only [hv] at h
      cases hf : F' t with
      | none => simp [hf] at h
      | some t' =>
        simp only [hf, Option.map_some, Option.some.injEq] at h
        subst h
        obtain ⟨h1, _, h3⟩ := spec_setVar_other s x t'
        exact ⟨h1, h3⟩
  | prop x p =>
    rw [hr] at h
    simp only [Spec.Val.modify] at h
    cases hh : s.varObj? x with
    | none => simp [hh] at h
    | some hx =>
      simp only [hh] at h
      cases hv : s.propVal? hx p with
      | none => simp [hv] at h
      | some t =>
        simp only [hv] at h
        cases hf : F' t with
        | none => simp [hf] at h
        | some t' =>
          simp only [hf, Option.map_some, Option.some.injEq] at h
          subst h
          obtain ⟨h1, h2, h3⟩ := spec_setProp_other s hx p t'
          refine ⟨fun y => by simp only [Spec.Val.St.varVal?, h1, h2], ?_⟩
          intro h0 p' hne
          apply h3
          rcases hne with hne | hne
          · left; intro e; exact hne (by rw [hh, e])
          · right; exact hne

end Proofs.Heap
