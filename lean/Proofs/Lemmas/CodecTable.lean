import Model.CodecTable
import Proofs.Lemmas.Codec
/-!
# Lemmas about `Model.CodecTable` (C14): the rows of the wrapper table denote the functions of `Model.Codec`;
an encoder row and a decoder row that `pairOK` accepts are inverse to each other on every byte string.
-/
namespace Proofs.CodecTable
open Model.Codec Model.CodecTable Proofs.Codec

theorem pipe_b64enc : pipeline ["base64.StdEncoding.EncodeToString(_)"] = some (fun s => some (base64Encode s)) := by
  simp [pipeline, libStep]

theorem pipe_b64dec : pipeline ["base64.StdEncoding.DecodeString(_)"] = some (fun s => base64Decode s) := by
  simp only [pipeline, libStep]
  simp
  funext s
  cases base64Decode s <;> rfl

theorem pipe_query : pipeline ["url.QueryEscape(_)"] = some (fun s => some (queryEscape s)) := by
  simp [pipeline, libStep]

theorem pipe_raw : pipeline ["url.QueryEscape(_)", "strings.ReplaceAll(_,\"+\",\"%20\")"]
    = some (fun s => some (replacePlus (queryEscape s))) := by
  simp [pipeline, libStep]

theorem pipe_unq : pipeline ["url.QueryUnescape(_)"] = some (fun s => unescape true s) := by
  simp only [pipeline, libStep]
  simp
  funext s
  cases unescape true s <;> rfl

theorem pipe_unp : pipeline ["url.PathUnescape(_)"] = some (fun s => unescape false s) := by
  simp only [pipeline, libStep]
  simp
  funext s
  cases unescape false s <;> rfl

theorem pipe_hex : pipeline ["hex.EncodeToString(_)"] = some (fun s => some (hexEncode s)) := by
  simp [pipeline, libStep]

/-- a row that denotes a function: where its pipeline succeeds the function gives that result -/
theorem interp_some {w : Wrapper} {f : Bytes → Out} (h : interp w = some f) :
    ∃ p, pipeline w.libs = some p ∧ ∀ s r, p s = some r → f s = .bytes r := by
  unfold interp at h
  split at h
  · cases h
  · rename_i p hp
    refine ⟨p, hp, ?_⟩
    split at h
    · injection h with h; subst h; intro s r hr; simp [hr]
    · split at h
      · injection h with h; subst h; intro s r hr; simp [hr]
      · cases h

/-- **Every accepted pair of rows is a round trip**: whatever the registered names and the answers on failure,
if the encoder row and the decoder row name a pair of library calls that `pairOK` lists, the decoder row undoes the
encoder row on every byte string. -/
theorem pair_roundtrip (enc dec : Wrapper) (hp : pairOK enc dec = true) (fe fd : Bytes → Out)
    (he : interp enc = some fe) (hd : interp dec = some fd) (bs : Bytes) (hb : IsBytes bs) :
    ∃ mid, fe bs = .bytes mid ∧ fd mid = .bytes bs := by
  obtain ⟨pe, hpe, hfe⟩ := interp_some he
  obtain ⟨pd, hpd, hfd⟩ := interp_some hd
  simp only [pairOK, Bool.or_eq_true, Bool.and_eq_true, beq_iff_eq] at hp
  rcases hp with (⟨h1, h2⟩ | ⟨h1, h2⟩) | ⟨h1, h2⟩
  · rw [h1, pipe_b64enc] at hpe; rw [h2, pipe_b64dec] at hpd
    injection hpe with hpe; injection hpd with hpd; subst hpe; subst hpd
    exact ⟨base64Encode bs, hfe bs _ rfl, hfd _ bs (b64_roundtrip bs hb)⟩
  · rw [h1, pipe_query] at hpe; rw [h2, pipe_unq] at hpd
    injection hpe with hpe; injection hpd with hpd; subst hpe; subst hpd
    exact ⟨queryEscape bs, hfe bs _ rfl, hfd _ bs (query_roundtrip bs hb)⟩
  · rw [h1, pipe_raw] at hpe; rw [h2, pipe_unp] at hpd
    injection hpe with hpe; injection hpd with hpd; subst hpe; subst hpd
    exact ⟨replacePlus (queryEscape bs), hfe bs _ rfl, hfd _ bs (raw_roundtrip bs hb)⟩

/-! ## what the model rows denote -/

theorem interp_enc (w : Wrapper) (p : Bytes → Bytes) (hp : pipeline w.libs = some (fun s => some (p s)))
    (ho : w.onError = "none") : interp w = some (fun s => .bytes (p s)) := by
  simp [interp, hp, ho]

theorem interp_dec_input (w : Wrapper) (p : Bytes → Option Bytes) (hp : pipeline w.libs = some p)
    (ho : w.onError = "input") : interp w = some (fun s => .bytes ((p s).getD s)) := by
  simp only [interp, hp, ho, if_true]
  congr 1
  funext s
  cases p s <;> rfl

theorem interp_dec_false (w : Wrapper) (p : Bytes → Option Bytes) (hp : pipeline w.libs = some p)
    (ho : w.onError = "false") :
    interp w = some (fun s => match p s with
      | some r => .bytes r
      | none => .false) := by
  simp [interp, hp, ho]
  funext s
  cases p s <;> rfl

/-- the seven rows with a byte-level model denote the functions of `Model.Codec` the round-trip theorems are about -/
theorem model_rows_denote :
    (find modelRows "base64_encode").bind interp = some (fun s => .bytes (base64Encode s)) ∧
    (find modelRows "base64_decode").bind interp = some (fun s => match base64Decode s with
      | some r => .bytes r
      | none => .false) ∧
    (find modelRows "urlencode").bind interp = some (fun s => .bytes (urlencode s)) ∧
    (find modelRows "urldecode").bind interp = some (fun s => .bytes (urldecode s)) ∧
    (find modelRows "rawurlencode").bind interp = some (fun s => .bytes (rawurlencode s)) ∧
    (find modelRows "rawurldecode").bind interp = some (fun s => .bytes (rawurldecode s)) ∧
    (find modelRows "bin2hex").bind interp = some (fun s => .bytes (bin2hex s)) := by
  have r1 : find modelRows "base64_encode" = some ⟨"base64_encode", ["base64.StdEncoding.EncodeToString(_)"], "none"⟩ := by decide
  have r2 : find modelRows "base64_decode" = some ⟨"base64_decode", ["base64.StdEncoding.DecodeString(_)"], "false"⟩ := by decide
  have r3 : find modelRows "urlencode" = some ⟨"urlencode", ["url.QueryEscape(_)"], "none"⟩ := by decide
  have r4 : find modelRows "urldecode" = some ⟨"urldecode", ["url.QueryUnescape(_)"], "input"⟩ := by decide
  have r5 : find modelRows "rawurlencode" = some ⟨"rawurlencode", ["url.QueryEscape(_)", "strings.ReplaceAll(_,\"+\",\"%20\")"], "none"⟩ := by decide
  have r6 : find modelRows "rawurldecode" = some ⟨"rawurldecode", ["url.PathUnescape(_)"], "input"⟩ := by decide
  have r7 : find modelRows "bin2hex" = some ⟨"bin2hex", ["hex.EncodeToString(_)"], "none"⟩ := by decide
  rw [r1, r2, r3, r4, r5, r6, r7]
  simp only [Option.bind_some]
  exact ⟨interp_enc _ _ pipe_b64enc rfl, interp_dec_false _ _ pipe_b64dec rfl, interp_enc _ _ pipe_query rfl,
    interp_dec_input _ _ pipe_unq rfl, interp_enc _ _ pipe_raw rfl, interp_dec_input _ _ pipe_unp rfl,
    interp_enc _ _ pipe_hex rfl⟩

/-- negation witness: `urlencode`'s library call paired with `rawurldecode`'s is not a round trip (a space comes back as `+`) -/
theorem mismatched_pair :
    let enc : Wrapper := ⟨"rawurlencode", ["url.QueryEscape(_)"], "none"⟩
    let dec : Wrapper := ⟨"rawurldecode", ["url.PathUnescape(_)"], "input"⟩
    pairOK enc dec = false ∧
    ∃ fe fd, interp enc = some fe ∧ interp dec = some fd ∧ fe [32] = .bytes [43] ∧ fd [43] = .bytes [43] := by
  refine ⟨by decide, _, _, interp_enc _ _ pipe_query rfl, interp_dec_input _ _ pipe_unp rfl, by decide, by decide⟩

end Proofs.CodecTable
