import Spec.Val
/-!
C06 helper lemmas: the reference semantics (`Spec.Val`) along a *path*.

`Spec.Val.modify` / `read` recurse on the place from the leaf up (`$x[k1][k2]` is
`idx (idx (var x) k1) k2`).  Here the same functions are given from the root down, on one
tree, so that statements about nested writes can be proved by induction on the path:
`modPath` (= `modify` below the root name), `walkT` (= `read`), `existsAt`
(= `indexExpressionKeyExists`: is the last key of the path there? a missing intermediate
key answers "no").  Then: creating a missing key first and storing afterwards is the same
as the single store that creates on the way (`modPath_vivify`).
-/
namespace Proofs.Heap
open Model.Heap (Key IKey Place)
open Model.Heap
open Spec.Val (Tree Entry tkeys store)

/-- the keys from the root name of a place down to the place -/
def pathOf : Place → List IKey
  | .idx b k => pathOf b ++ [k]
  | _ => []

/-- `Spec.Val.modify` below the root name, root first -/
def modPath (c : Bool) : List IKey → (Tree → Option Tree) → Tree → Option Tree
  | [], F => F
  | k :: π, F => Tree.modifyAt c k (modPath c π F)

/-- `Spec.Val.read` below the root name, root first (a missing key reads as null) -/
def walkT : List IKey → Tree → Option Tree
  | [], t => some t
  | k :: π, .arr kids =>
    (match Keys.find k (tkeys kids) with
     | some j => ((kids[j]?).map (·.2)).bind (walkT π)
     | none => walkT π (.sc .null))
  | _ :: _, .sc _ => none

/-- is the last key of the (non-empty) path present?  `some false` as soon as a key on
the way is missing, `none` when something on the way is not an array -/
def existsAt : List IKey → Tree → Option Bool
  | [], _ => none
  | k :: π, .arr kids =>
    (match Keys.find k (tkeys kids) with
     | some j =>
       if π.isEmpty then some true
       else (match kids[j]? with
         | some (_, c) => existsAt π c
         | none => none)
     | none => some false)
  | _ :: _, .sc _ => none

/-- the function `Spec.Val.onArray` hands to `modify` -/
def onArr (g : List Entry → List Entry) : Tree → Option Tree :=
  fun t => match t with | .arr l => some (.arr (g l)) | .sc _ => none

theorem onArray_eq (s : Spec.Val.St) (c : Bool) (b : Place) (g : List Entry → List Entry) :
    Spec.Val.onArray s c b g = Spec.Val.modify s c b (onArr g) := rfl

/-! ### key lookup facts -/

theorem findKey_some (k : Key) : ∀ (l : List Key) (j : Nat),
    Keys.findKey k l = some j → j < l.length ∧ l[j]? = some k
  | [], j, h => by simp [Keys.findKey] at h
  | a :: r, j, h => by
    simp only [Keys.findKey] at h
    split at h
    · cases h; subst_vars; simp
    · cases h' : Keys.findKey k r with
      | none => simp [h'] at h
      | some j' =>
        simp [h'] at h; subst h
        have := findKey_some k r j' h'
        exact ⟨Nat.succ_lt_succ this.1, by rw [List.getElem?_cons_succ]; exact this.2⟩

theorem findKey_cons_none {k a : Key} {r : List Key} (h : Keys.findKey k (a :: r) = none) :
    a ≠ k ∧ Keys.findKey k r = none := by
  simp only [Keys.findKey] at h
  split at h
  · cases h
  · rename_i hne
    refine ⟨hne, ?_⟩
    cases hh : Keys.findKey k r with
    | none => rfl
    | some j => simp [hh] at h

theorem findKey_append_none (k k' : Key) : ∀ (l : List Key), Keys.findKey k l = none →
    Keys.findKey k (l ++ [k']) = if k' = k then some l.length else none
  | [], _ => by simp [Keys.findKey]
  | a :: r, h => by
    have ⟨hne, h'⟩ := findKey_cons_none h
    simp only [List.cons_append, Keys.findKey, if_neg hne, findKey_append_none k k' r h']
    split <;> simp

theorem findKey_set_none (k k' : Key) (hne : k' ≠ k) : ∀ (l : List Key) (i : Nat),
    Keys.findKey k l = none → Keys.findKey k (l.set i k') = none
  | [], _, _ => by simp [Keys.findKey]
  | a :: r, i, h => by
    have ⟨hne', h'⟩ := findKey_cons_none h
    cases i with
    | zero => simp [Keys.findKey, hne, h']
    | succ i => simp [Keys.findKey, hne', findKey_set_none k k' hne r i h']

theorem tkeys_append (l : List Entry) (e : Entry) : tkeys (l ++ [e]) = tkeys l ++ [e.1] := by
  simp [tkeys]

theorem tkeys_length (l : List Entry) : (tkeys l).length = l.length := by simp [tkeys]

/-- overwriting the value of an entry keeps the keys -/
theorem tkeys_set (kids : List Entry) (j : Nat) (kk : Key) (c0 c' : Tree)
    (h : kids[j]? = some (kk, c0)) : tkeys (kids.set j (kk, c')) = tkeys kids := by
  induction kids generalizing j with
  | nil => rfl
  | cons a r ih =>
    cases j with
    | zero =>
      simp at h; subst h; rfl
    | succ j =>
      simp at h
      simp only [List.set_cons_succ, tkeys, List.map_cons] at ih ⊢
      rw [ih j h]

/-! ### one step of `modifyAt` / `walkT` / `existsAt`, with the lookup resolved -/

theorem modifyAt_sc (c : Bool) (k : IKey) (f : Tree → Option Tree) (s) :
    Tree.modifyAt c k f (.sc s) = none := rfl

theorem modifyAt_found (c : Bool) (k : IKey) (f : Tree → Option Tree) (kids : List Entry)
    (j : Nat) (kk : Key) (c0 : Tree)
    (h : Keys.find k (tkeys kids) = some j) (hj : kids[j]? = some (kk, c0)) :
    Tree.modifyAt c k f (.arr kids) = (f c0).map (fun c' => .arr (kids.set j (kk, c'))) := by
  simp only [Tree.modifyAt, h, hj]

theorem modifyAt_found_none (c : Bool) (k : IKey) (f : Tree → Option Tree) (kids : List Entry)
    (j : Nat) (h : Keys.find k (tkeys kids) = some j) (hj : kids[j]? = none) :
    Tree.modifyAt c k f (.arr kids) = none := by
  simp only [Tree.modifyAt, h, hj]

theorem modifyAt_missing (k : IKey) (f : Tree → Option Tree) (kids : List Entry)
    (h : Keys.find k (tkeys kids) = none) :
    Tree.modifyAt true k f (.arr kids) =
      (f (.arr [])).map (fun c' => .arr (store kids (some k) c')) := by
  simp only [Tree.modifyAt, h, if_true]

theorem modifyAt_missing_nocreate (k : IKey) (f : Tree → Option Tree) (kids : List Entry)
    (h : Keys.find k (tkeys kids) = none) :
    Tree.modifyAt false k f (.arr kids) = none := by
  simp [Tree.modifyAt, h]

theorem walkT_cons_found (k : IKey) (π : List IKey) (kids : List Entry) (j : Nat) (kk : Key)
    (c0 : Tree) (h : Keys.find k (tkeys kids) = some j) (hj : kids[j]? = some (kk, c0)) :
    walkT (k :: π) (.arr kids) = walkT π c0 := by
  simp [walkT, h, hj]

theorem walkT_cons_found_none (k : IKey) (π : List IKey) (kids : List Entry) (j : Nat)
    (h : Keys.find k (tkeys kids) = some j) (hj : kids[j]? = none) :
    walkT (k :: π) (.arr kids) = none := by
  simp [walkT, h, hj]

theorem walkT_cons_missing (k : IKey) (π : List IKey) (kids : List Entry)
    (h : Keys.find k (tkeys kids) = none) :
    walkT (k :: π) (.arr kids) = walkT π (.sc .null) := by
  simp [walkT, h]

theorem existsAt_cons_missing (k : IKey) (π : List IKey) (kids : List Entry)
    (h : Keys.find k (tkeys kids) = none) :
    existsAt (k :: π) (.arr kids) = some false := by
  simp [existsAt, h]

theorem existsAt_cons_found (k : IKey) (π : List IKey) (kids : List Entry) (j : Nat) (kk : Key)
    (c0 : Tree) (hπ : π ≠ []) (h : Keys.find k (tkeys kids) = some j)
    (hj : kids[j]? = some (kk, c0)) :
    existsAt (k :: π) (.arr kids) = existsAt π c0 := by
  simp [existsAt, h, hj, hπ]

theorem existsAt_cons_found_none (k : IKey) (π : List IKey) (kids : List Entry) (j : Nat)
    (hπ : π ≠ []) (h : Keys.find k (tkeys kids) = some j) (hj : kids[j]? = none) :
    existsAt (k :: π) (.arr kids) = none := by
  simp [existsAt, h, hj, hπ]

theorem existsAt_nil_arr (π : List IKey) (k : IKey) : existsAt (π ++ [k]) (.arr []) = some false := by
  cases π with
  | nil => exact existsAt_cons_missing k [] [] (by cases k <;> rfl)
  | cons a π => exact existsAt_cons_missing a _ [] (by cases a <;> rfl)

/-! ### leaf-up = root-down -/

theorem modPath_snoc (c : Bool) (π : List IKey) (k : IKey) (F : Tree → Option Tree) :
    modPath c (π ++ [k]) F = modPath c π (Tree.modifyAt c k F) := by
  induction π with
  | nil => rfl
  | cons a π ih => simp only [List.cons_append, modPath, ih]

theorem walkT_snoc (π : List IKey) (k : IKey) (t : Tree) :
    walkT (π ++ [k]) t = (walkT π t).bind (walkT [k]) := by
  induction π generalizing t with
  | nil => simp [walkT]
  | cons a π ih =>
    cases t with
    | sc s => simp [walkT]
    | arr kids =>
      cases hf : Keys.find a (tkeys kids) with
      | none =>
        rw [List.cons_append, walkT_cons_missing _ _ _ hf, walkT_cons_missing _ _ _ hf, ih]
      | some j =>
        cases hj : kids[j]? with
        | none =>
          rw [List.cons_append, walkT_cons_found_none _ _ _ _ hf hj,
            walkT_cons_found_none _ _ _ _ hf hj]; rfl
        | some e =>
          obtain ⟨kk, c0⟩ := e
          rw [List.cons_append, walkT_cons_found _ _ _ _ _ _ hf hj,
            walkT_cons_found _ _ _ _ _ _ hf hj, ih]

/-- a write at any depth is a rewrite of the tree of the root name, along the path -/
theorem modify_root_path (s : Spec.Val.St) (c : Bool) (b : Place) (F : Tree → Option Tree) :
    Spec.Val.modify s c b F = Spec.Val.modify s c b.root (modPath c (pathOf b) F) := by
  induction b generalizing F with
  | var x => rfl
  | prop x p => rfl
  | idx b k ih =>
    simp only [Spec.Val.modify, Place.root, pathOf, modPath_snoc]
    exact ih _

theorem walkT_single (k : IKey) (t : Tree) :
    walkT [k] t = (match t with
      | .arr kids =>
        (match Keys.find k (tkeys kids) with
         | some j => (kids[j]?).map (·.2)
         | none => some (.sc .null))
      | .sc _ => none) := by
  cases t with
  | sc s => simp [walkT]
  | arr kids =>
    cases hf : Keys.find k (tkeys kids) with
    | none => simp [walkT, hf]
    | some j =>
      cases hj : kids[j]? <;> simp [walkT, hf, hj]

theorem read_root_path (s : Spec.Val.St) (b : Place) :
    Spec.Val.read s b = (Spec.Val.read s b.root).bind (walkT (pathOf b)) := by
  induction b with
  | var x => simp [Place.root, pathOf, walkT]
  | prop x p => simp [Place.root, pathOf, walkT]
  | idx b k ih =>
    have hw : ∀ t, walkT (pathOf b ++ [k]) t = (walkT (pathOf b) t).bind (walkT [k]) :=
      fun t => walkT_snoc _ _ _
    simp only [Place.root, pathOf]
    rw [show walkT (pathOf b ++ [k]) = fun t => (walkT (pathOf b) t).bind (walkT [k]) from
      funext hw, ← Option.bind_assoc, ← ih]
    simp only [Spec.Val.read]
    cases hr : Spec.Val.read s b with
    | none => rfl
    | some t =>
      cases t with
      | sc sc => simp [walkT]
      | arr kids => simp only [Option.bind_some, walkT_single]; rfl

theorem existsAt_single (k : IKey) (t : Tree) :
    existsAt [k] t = (match t with
      | .arr kids => some (Keys.find k (tkeys kids)).isSome
      | .sc _ => none) := by
  cases t with
  | sc s => simp [existsAt]
  | arr kids =>
    cases hf : Keys.find k (tkeys kids) <;> simp [existsAt, hf]

/-- `existsAt` one key further: the parent key is asked first (as `Model.Heap.keyExists` does) -/
theorem existsAt_snoc (π : List IKey) (k' k : IKey) (t : Tree) :
    existsAt (π ++ [k'] ++ [k]) t =
      (match existsAt (π ++ [k']) t with
       | some true =>
         (match walkT (π ++ [k']) t with
          | some (.arr kids) => some (Keys.find k (tkeys kids)).isSome
          | _ => none)
       | r => r) := by
  induction π generalizing t with
  | nil =>
    cases t with
    | sc s => simp [existsAt]
    | arr kids =>
      cases hf : Keys.find k' (tkeys kids) with
      | none =>
        simp only [List.nil_append, List.cons_append, existsAt_cons_missing _ _ _ hf]
      | some j =>
        cases hj : kids[j]? with
        | none =>
          simp [existsAt, walkT, hf, hj]
        | some e =>
          obtain ⟨kk, c0⟩ := e
          simp only [List.nil_append, List.cons_append]
          rw [existsAt_cons_found _ _ _ _ _ _ (by simp) hf hj, walkT_cons_found _ _ _ _ _ _ hf hj,
            existsAt_single, existsAt_single]
          simp only [hf, Option.isSome_some, walkT]
          cases c0 <;> rfl
  | cons a π ih =>
    cases t with
    | sc s => simp [existsAt]
    | arr kids =>
      cases hf : Keys.find a (tkeys kids) with
      | none =>
        simp only [List.cons_append, existsAt_cons_missing _ _ _ hf]
      | some j =>
        cases hj : kids[j]? with
        | none =>
          simp only [List.cons_append]
          rw [existsAt_cons_found_none _ _ _ _ (by simp) hf hj,
            existsAt_cons_found_none _ _ _ _ (by simp) hf hj]
        | some e =>
          obtain ⟨kk, c0⟩ := e
          simp only [List.cons_append]
          rw [existsAt_cons_found _ _ _ _ _ _ (by simp) hf hj,
            existsAt_cons_found _ _ _ _ _ _ (by simp) hf hj,
            walkT_cons_found _ _ _ _ _ _ hf hj]
          exact ih c0

/-! ### a store under a missing key, and looking it up again -/

theorem store_find_aux (kids : List Entry) (c : Tree) (e : Tree → Entry) (j : Nat)
    (hj : j = kids.length) :
    (kids ++ [e c])[j]? = some (e c) ∧ ∀ c', (kids ++ [e c]).set j (e c') = kids ++ [e c'] := by
  subst hj
  simp

/-- storing under a key that is not there creates an entry that the same key finds, and
overwriting that entry is the same as having stored the other value in the first place -/
theorem store_find (kids : List Entry) (k : IKey) (c : Tree)
    (h : Keys.find k (tkeys kids) = none) :
    ∃ j kk, Keys.find k (tkeys (store kids (some k) c)) = some j ∧
      (store kids (some k) c)[j]? = some (kk, c) ∧
      ∀ c', (store kids (some k) c).set j (kk, c') = store kids (some k) c' := by
  cases k with
  | str s =>
    simp only [Keys.find] at h
    have hs : ∀ c, store kids (some (.str s)) c = kids ++ [(.str s, c)] := by
      intro c; simp only [store, h]
    refine ⟨kids.length, .str s, ?_, ?_, ?_⟩
    · simp only [hs, Keys.find, tkeys_append, findKey_append_none _ _ _ h, if_true, tkeys_length]
    · rw [hs]; simp
    · intro c'; rw [hs, hs]; simp
  | int i =>
    simp only [Keys.find] at h
    have hk : Keys.findKey (.int i) (tkeys kids) = none := by
      cases hk : Keys.findKey (.int i) (tkeys kids) with
      | none => rfl
      | some j => simp [Keys.findInt, hk] at h
    have hpos : (tkeys kids)[i]? ≠ some .pos := by
      intro hp; simp [Keys.findInt, hk, hp] at h
    by_cases h1 : i = kids.length
    · have hs : ∀ c, store kids (some (.int i)) c = kids ++ [(.pos, c)] := by
        intro c; simp only [store, h, if_pos h1]
      refine ⟨kids.length, .pos, ?_, ?_, ?_⟩
      · simp only [hs, Keys.find, Keys.findInt, tkeys_append, findKey_append_none _ _ _ hk]
        subst h1
        simp [tkeys_length]
      · rw [hs]; simp
      · intro c'; rw [hs, hs]; simp
    · by_cases h2 : kids.length < i
      · have hs : ∀ c, store kids (some (.int i)) c = kids ++ [(.int i, c)] := by
          intro c; simp only [store, h, if_neg h1, if_pos h2]
        refine ⟨kids.length, .int i, ?_, ?_, ?_⟩
        · simp only [hs, Keys.find, Keys.findInt, tkeys_append, findKey_append_none _ _ _ hk,
            if_true, tkeys_length]
        · rw [hs]; simp
        · intro c'; rw [hs, hs]; simp
      · have hs : ∀ c, store kids (some (.int i)) c = kids.set i (.pos, c) := by
          intro c; simp only [store, h, if_neg h1, if_neg h2]
        have hlt : i < kids.length := by omega
        refine ⟨i, .pos, ?_, ?_, ?_⟩
        · have : tkeys (kids.set i (.pos, c)) = (tkeys kids).set i .pos := by
            simp [tkeys, List.map_set]
          simp only [hs, Keys.find, Keys.findInt, this,
            findKey_set_none (.int i) .pos (by simp) _ _ hk]
          simp [tkeys_length, hlt]
        · rw [hs]; simp [hlt]
        · intro c'; rw [hs, hs]; simp

/-! ### creating the missing parent first -/

/-- `$x[…][k2][…] = v` with `k2` (or a key before it) missing: creating `…[k2] = []`
first and then storing is the single store that creates on the way.
(`IndexExpression.SetValue` does the former, `Spec.Val.modify` the latter.) -/
theorem modPath_vivify (π : List IKey) (k2 : IKey) (F : Tree → Option Tree) (t : Tree)
    (h : existsAt (π ++ [k2]) t = some false) :
    modPath true (π ++ [k2]) F t =
      (modPath true π (onArr (fun l => store l (some k2) (.arr []))) t).bind
        (modPath true (π ++ [k2]) F) := by
  induction π generalizing t F with
  | nil =>
    cases t with
    | sc s => simp [existsAt] at h
    | arr kids =>
      rw [List.nil_append, existsAt_single] at h
      have hf : Keys.find k2 (tkeys kids) = none := by
        cases hf : Keys.find k2 (tkeys kids) with
        | none => rfl
        | some j => simp [hf] at h
      obtain ⟨j, kk, h1, h2, h3⟩ := store_find kids k2 (.arr []) hf
      simp only [List.nil_append, modPath, onArr, Option.bind_some]
      rw [modifyAt_missing _ _ _ hf, modifyAt_found _ _ _ _ _ _ _ h1 h2]
      simp only [h3]
  | cons k π ih =>
    cases t with
    | sc s => simp [existsAt] at h
    | arr kids =>
      simp only [List.cons_append, modPath] at h ⊢
      cases hf : Keys.find k (tkeys kids) with
      | none =>
        rw [modifyAt_missing _ _ _ hf, modifyAt_missing _ _ _ hf,
          ih F (.arr []) (existsAt_nil_arr π k2)]
        cases hm : modPath true π (onArr fun l => store l (some k2) (Tree.arr [])) (.arr []) with
        | none => rfl
        | some c1 =>
          obtain ⟨j, kk, h1, h2, h3⟩ := store_find kids k c1 hf
          simp only [Option.bind_some, Option.map_some]
          rw [modifyAt_found _ _ _ _ _ _ _ h1 h2]
          simp only [h3]
      | some j =>
        cases hj : kids[j]? with
        | none =>
          rw [existsAt_cons_found_none _ _ _ _ (by simp) hf hj] at h
          cases h
        | some e =>
          obtain ⟨kk, c0⟩ := e
          rw [existsAt_cons_found _ _ _ _ _ _ (by simp) hf hj] at h
          rw [modifyAt_found _ _ _ _ _ _ _ hf hj, modifyAt_found _ _ _ _ _ _ _ hf hj, ih F c0 h]
          cases hm : modPath true π (onArr fun l => store l (some k2) (Tree.arr [])) c0 with
          | none => rfl
          | some c1 =>
            simp only [Option.bind_some, Option.map_some]
            have hj' : (kids.set j (kk, c1))[j]? = some (kk, c1) := by
              have := (List.getElem?_eq_some_iff.mp hj).1
              simp [this]
            have hf' : Keys.find k (tkeys (kids.set j (kk, c1))) = some j := by
              rw [tkeys_set _ _ _ _ _ hj]; exact hf
            rw [modifyAt_found _ _ _ _ _ _ _ hf' hj']
            simp only [List.set_set]

/-- … and after that creation the place holds the empty array -/
theorem walkT_vivify (π : List IKey) (k2 : IKey) (t t1 : Tree)
    (h : existsAt (π ++ [k2]) t = some false)
    (h1 : modPath true π (onArr (fun l => store l (some k2) (.arr []))) t = some t1) :
    walkT (π ++ [k2]) t1 = some (.arr []) := by
  induction π generalizing t t1 with
  | nil =>
    cases t with
    | sc s => simp [existsAt] at h
    | arr kids =>
      rw [List.nil_append, existsAt_single] at h
      have hf : Keys.find k2 (tkeys kids) = none := by
        cases hf : Keys.find k2 (tkeys kids) with
        | none => rfl
        | some j => simp [hf] at h
      obtain ⟨j, kk, h2, h3, _⟩ := store_find kids k2 (.arr []) hf
      simp only [modPath, onArr, Option.some.injEq] at h1
      subst h1
      rw [List.nil_append, walkT_cons_found _ _ _ _ _ _ h2 h3]; rfl
  | cons k π ih =>
    cases t with
    | sc s => simp [existsAt] at h
    | arr kids =>
      simp only [List.cons_append, modPath] at h h1 ⊢
      cases hf : Keys.find k (tkeys kids) with
      | none =>
        rw [modifyAt_missing _ _ _ hf] at h1
        cases hm : modPath true π (onArr fun l => store l (some k2) (Tree.arr [])) (.arr []) with
        | none => simp [hm] at h1
        | some c1 =>
          simp only [hm, Option.map_some, Option.some.injEq] at h1
          subst h1
          obtain ⟨j, kk, h2, h3, _⟩ := store_find kids k c1 hf
          rw [walkT_cons_found _ _ _ _ _ _ h2 h3]
          exact ih (.arr []) c1 (existsAt_nil_arr π k2) hm
      | some j =>
        cases hj : kids[j]? with
        | none =>
          rw [existsAt_cons_found_none _ _ _ _ (by simp) hf hj] at h
          cases h
        | some e =>
          obtain ⟨kk, c0⟩ := e
          rw [existsAt_cons_found _ _ _ _ _ _ (by simp) hf hj] at h
          rw [modifyAt_found _ _ _ _ _ _ _ hf hj] at h1
          cases hm : modPath true π (onArr fun l => store l (some k2) (Tree.arr [])) c0 with
          | none => simp [hm] at h1
          | some c1 =>
            simp only [hm, Option.map_some, Option.some.injEq] at h1
            subst h1
            have hj' : (kids.set j (kk, c1))[j]? = some (kk, c1) := by
              have := (List.getElem?_eq_some_iff.mp hj).1
              simp [this]
            have hf' : Keys.find k (tkeys (kids.set j (kk, c1))) = some j := by
              rw [tkeys_set _ _ _ _ _ hj]; exact hf
            rw [walkT_cons_found _ _ _ _ _ _ hf' hj']
            exact ih c0 c1 h hm

/-! ### when nothing is written -/

/-- `unset` / an in-place method through a place that holds no array: no effect -/
theorem modPath_nocreate_none (π : List IKey) (g : List Entry → List Entry) (t : Tree)
    (h : ∀ l, walkT π t ≠ some (.arr l)) : modPath false π (onArr g) t = none := by
  induction π generalizing t with
  | nil =>
    cases t with
    | sc s => rfl
    | arr kids => exact absurd rfl (h kids)
  | cons k π ih =>
    cases t with
    | sc s => rfl
    | arr kids =>
      simp only [modPath]
      cases hf : Keys.find k (tkeys kids) with
      | none => exact modifyAt_missing_nocreate _ _ _ hf
      | some j =>
        cases hj : kids[j]? with
        | none => exact modifyAt_found_none _ _ _ _ _ hf hj
        | some e =>
          obtain ⟨kk, c0⟩ := e
          rw [walkT_cons_found _ _ _ _ _ _ hf hj] at h
          rw [modifyAt_found _ _ _ _ _ _ _ hf hj, ih c0 h]; rfl

/-- a store through a place that holds no array, when no key on the way is missing
(so nothing is created): no effect -/
theorem modPath_create_none (π : List IKey) (k : IKey) (g : List Entry → List Entry) (t : Tree)
    (he : existsAt (π ++ [k]) t ≠ some false)
    (h : ∀ l, walkT (π ++ [k]) t ≠ some (.arr l)) : modPath true (π ++ [k]) (onArr g) t = none := by
  induction π generalizing t with
  | nil =>
    cases t with
    | sc s => rfl
    | arr kids =>
      simp only [List.nil_append, modPath] at he h ⊢
      cases hf : Keys.find k (tkeys kids) with
      | none => exact absurd (existsAt_cons_missing _ _ _ hf) he
      | some j =>
        cases hj : kids[j]? with
        | none => exact modifyAt_found_none _ _ _ _ _ hf hj
        | some e =>
          obtain ⟨kk, c0⟩ := e
          rw [walkT_cons_found _ _ _ _ _ _ hf hj] at h
          rw [modifyAt_found _ _ _ _ _ _ _ hf hj]
          cases c0 with
          | sc s => rfl
          | arr l => exact absurd rfl (h l)
  | cons a π ih =>
    cases t with
    | sc s => rfl
    | arr kids =>
      simp only [List.cons_append, modPath] at he h ⊢
      cases hf : Keys.find a (tkeys kids) with
      | none => exact absurd (existsAt_cons_missing _ _ _ hf) he
      | some j =>
        cases hj : kids[j]? with
        | none => exact modifyAt_found_none _ _ _ _ _ hf hj
        | some e =>
          obtain ⟨kk, c0⟩ := e
          rw [walkT_cons_found _ _ _ _ _ _ hf hj] at h
          rw [existsAt_cons_found _ _ _ _ _ _ (by simp) hf hj] at he
          rw [modifyAt_found _ _ _ _ _ _ _ hf hj, ih c0 he h]; rfl

end Proofs.Heap
