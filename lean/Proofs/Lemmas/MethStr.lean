import Model.MethStr
import Spec.JsStr
import Spec.Js
/-! Helper lemmas for C15 (string methods): on ASCII text the byte view of a
string is its character view, so byte offsets are character positions. -/
namespace Proofs.MethStr
open Model.Text
open Model.Meth (Val slot asString)
open Model.MethStr

/-- every character is ASCII (one byte in UTF-8) -/
def AllAscii (s : List Char) : Prop := ∀ c ∈ s, c.toNat < 128

theorem encodeChar_ascii (c : Char) (h : c.toNat < 128) : encodeChar c = [c.toNat] := by
  simp [encodeChar, h]

theorem utf8_ascii : ∀ (s : List Char), AllAscii s → utf8 s = s.map Char.toNat := by
  intro s
  induction s with
  | nil => intro _; rfl
  | cons c r ih =>
    intro h
    have hc : c.toNat < 128 := h c (by simp)
    have hr : AllAscii r := fun d hd => h d (by simp [hd])
    simp only [utf8, List.flatMap_cons, List.map_cons, encodeChar_ascii c hc] at *
    rw [ih hr]; rfl

theorem isPrefixOf_map_toNat : ∀ (p l : List Char),
    (p.map Char.toNat).isPrefixOf (l.map Char.toNat) = p.isPrefixOf l := by
  intro p
  induction p with
  | nil => intro l; simp
  | cons a p ih =>
    intro l
    cases l with
    | nil => simp
    | cons b l =>
      simp only [List.map_cons, List.isPrefixOf_cons_cons, ih]
      by_cases h : a = b
      · subst h; simp
      · have : a.toNat ≠ b.toNat := fun hh => h (Char.toNat_inj.mp hh)
        have h1 : (a.toNat == b.toNat) = false := by simpa using this
        have h2 : (a == b) = false := by simpa using h
        rw [h1, h2]

theorem indexFrom_map_toNat (p : List Char) : ∀ (l : List Char) (i : Nat),
    indexFrom (p.map Char.toNat) (l.map Char.toNat) i = indexFrom p l i := by
  intro l
  induction l with
  | nil => intro i; simp [indexFrom]
  | cons c r ih =>
    intro i
    have := isPrefixOf_map_toNat p (c :: r)
    simp only [List.map_cons] at this
    simp only [indexFrom, List.map_cons, this, ih]

theorem length_ascii (s : List Char) (h : AllAscii s) :
    length s = .int (Spec.JsStr.length s) := by
  simp [length, Spec.JsStr.length, utf8_ascii s h]

theorem indexOf_ascii (s : List Char) (p : String) (more : List Val) (hs : AllAscii s) (hp : AllAscii p.toList) :
    indexOf s (.str p :: more) = .int (Spec.JsStr.indexOf s p.toList) := by
  have harg : argText (slot (.str p :: more) 0) = p.toList := rfl
  unfold indexOf Spec.JsStr.indexOf
  rw [harg, utf8_ascii s hs, utf8_ascii _ hp, indexFrom_map_toNat]
  cases indexFrom p.toList s 0 <;> rfl

theorem cutBounds_spec (n : Nat) (a e : Int) :
    let p := cutBounds n a e
    let A := min a.toNat n
    let B := min e.toNat n
    p.1 = (min A B : Nat) ∧ p.2 = (max A B : Nat) := by
  simp only [cutBounds]
  (repeat' split) <;> simp only [] <;> omega

theorem cutArg_stop (args : List Val) (e : Option Int) (len : Int) (h : Spec.Js.Binds args 1 e) :
    cutArg (slot args 1) len = some (e.getD len) := by
  unfold Spec.Js.Binds at h
  unfold slot
  cases hget : args[1]? with
  | none => simp [hget] at h; simp [h, cutArg]
  | some v => cases v <;> simp [hget] at h <;> simp [h, cutArg]

theorem spec_substring_eq (s : List Char) (a : Int) (e : Option Int) :
    Spec.JsStr.substring s a e =
      (s.take (max (min a.toNat s.length) (min (e.getD (s.length : Int)).toNat s.length))).drop
        (min (min a.toNat s.length) (min (e.getD (s.length : Int)).toNat s.length)) := by
  cases e <;> simp [Spec.JsStr.substring]

theorem substring_ascii (s : List Char) (a : Int) (more : List Val) (e : Option Int)
    (hs : AllAscii s) (h1 : Spec.Js.Binds (.int a :: more) 1 e) :
    substring s (.int a :: more) = .bytes (utf8 (Spec.JsStr.substring s a e)) := by
  have h0 : cutArg (slot (.int a :: more) 0) 0 = some a := rfl
  unfold substring
  simp only [h0, cutArg_stop _ e _ h1, utf8_ascii s hs, List.length_map]
  have hb := cutBounds_spec s.length a (e.getD s.length)
  simp only at hb
  generalize cutBounds (s.length) a (e.getD s.length) = p at hb ⊢
  rw [spec_substring_eq]
  have hAn : min a.toNat s.length ≤ s.length := by omega
  generalize min a.toNat s.length = A at hb hAn ⊢
  generalize hBB : min (e.getD (s.length : Int)).toNat s.length = B at hb ⊢
  have hBn : B ≤ s.length := by omega
  obtain ⟨h1, h2⟩ := hb
  rw [h1, h2, if_pos (by omega)]
  have hsub : AllAscii (List.drop (min A B) (List.take (max A B) s)) := by
    intro c hc
    exact hs c (List.mem_of_mem_take (List.mem_of_mem_drop hc))
  rw [utf8_ascii _ hsub]
  congr 1
  have e1 : ((min A B : Nat) : Int).toNat = min A B := by omega
  have e2 : (((max A B : Nat) : Int) - ((min A B : Nat) : Int)).toNat = max A B - min A B := by omega
  rw [e1, e2, List.drop_take, List.map_take, List.map_drop]

/-! ### the position-based spec of replace / split against the scanning loops -/

open Spec.JsStr (replaceScan pieces)

theorem replaceGo_skip (old new : List Char) : ∀ (l : List Char) (k : Nat),
    replaceGo old new k l = replaceGo old new 0 (l.drop k) := by
  intro l
  induction l with
  | nil => intro k; cases k <;> simp [replaceGo]
  | cons c t ih =>
    intro k
    cases k with
    | zero => simp
    | succ k => simp only [replaceGo, List.drop_succ_cons]; exact ih k

theorem replaceScan_eq (old new : List Char) (hold : old ≠ []) : ∀ (f : Nat) (l : List Char), l.length ≤ f →
    replaceScan old new f l = replaceGo old new 0 l := by
  intro f
  induction f with
  | zero => intro l h; have : l = [] := List.length_eq_zero_iff.mp (by omega); subst this; simp [replaceScan, replaceGo]
  | succ f ih =>
    intro l h
    cases l with
    | nil => simp [replaceScan, replaceGo]
    | cons c t =>
      have hlen : 1 ≤ old.length := by
        cases old with
        | nil => exact absurd rfl hold
        | cons _ _ => simp
      simp only [replaceScan, replaceGo]
      split
      · rw [replaceGo_skip old new t (old.length - 1)]
        have hd : List.drop old.length (c :: t) = List.drop (old.length - 1) t := by
          obtain ⟨n, hn⟩ : ∃ n, old.length = n + 1 := ⟨old.length - 1, by omega⟩
          rw [hn]; simp
        rw [hd, ih _ (by simp at h ⊢; omega)]
      · rw [ih t (by simp at h; omega)]

theorem spec_replace_eq (s old new : List Char) : Spec.JsStr.replace s old new = replaceAll s old new := by
  unfold Spec.JsStr.replace replaceAll
  by_cases h : old.isEmpty = true
  · simp [h]
  · have hne : old ≠ [] := by intro hh; subst hh; simp at h
    simp only [h]
    exact replaceScan_eq old new hne s.length s (Nat.le_refl _)

theorem splitGo_skip (sep : List Char) : ∀ (l cur : List Char) (k : Nat),
    splitGo sep k cur l = splitGo sep 0 cur (l.drop k) := by
  intro l
  induction l with
  | nil => intro cur k; cases k <;> simp [splitGo]
  | cons c t ih =>
    intro cur k
    cases k with
    | zero => simp
    | succ k => simp only [splitGo, List.drop_succ_cons]; exact ih cur k

theorem indexFrom_shift (pat : List Char) : ∀ (l : List Char) (i k : Nat),
    indexFrom pat l (i + k) = (indexFrom pat l i).map (· + k) := by
  intro l
  induction l with
  | nil => intro i k; simp only [indexFrom]; split <;> simp
  | cons c t ih =>
    intro i k
    simp only [indexFrom]
    split
    · simp
    · have : i + k + 1 = (i + 1) + k := by omega
      rw [this, ih]

theorem splitGo_index (sep : List Char) (hsep : sep ≠ []) : ∀ (l cur : List Char),
    splitGo sep 0 cur l =
      match indexFrom sep l 0 with
      | none => [cur.reverse ++ l]
      | some i => (cur.reverse ++ l.take i) :: splitGo sep 0 [] (l.drop (i + sep.length)) := by
  have hlen : ∃ n, sep.length = n + 1 := by
    cases sep with
    | nil => exact absurd rfl hsep
    | cons _ r => exact ⟨r.length, by simp⟩
  have hemp : sep.isEmpty = false := by cases sep <;> simp_all
  intro l
  induction l with
  | nil => intro cur; simp [splitGo, indexFrom, hemp]
  | cons c t ih =>
    intro cur
    simp only [splitGo, indexFrom]
    by_cases hp : sep.isPrefixOf (c :: t) = true
    · obtain ⟨n, hn⟩ := hlen
      simp only [hp, ↓reduceIte, List.take_zero, List.append_nil, Nat.zero_add]
      rw [splitGo_skip, hn]
      simp
    · simp only [hp, Bool.false_eq_true, ↓reduceIte]
      have h1 : indexFrom sep t (0 + 1) = (indexFrom sep t 0).map (· + 1) := indexFrom_shift sep t 0 1
      simp only [Nat.zero_add] at h1
      rw [ih (c :: cur), h1]
      cases indexFrom sep t 0 with
      | none => simp
      | some i =>
        have : i + 1 + sep.length = (i + sep.length) + 1 := by omega
        simp [this]

theorem pieces_eq (sep : List Char) (hsep : sep ≠ []) : ∀ (f : Nat) (l : List Char), l.length ≤ f →
    pieces sep f l = splitGo sep 0 [] l := by
  have hlen : 1 ≤ sep.length := by
    cases sep with
    | nil => exact absurd rfl hsep
    | cons _ r => simp
  intro f
  induction f with
  | zero =>
    intro l h
    have : l = [] := List.length_eq_zero_iff.mp (by omega)
    subst this; simp [pieces, splitGo]
  | succ f ih =>
    intro l h
    rw [splitGo_index sep hsep l []]
    simp only [pieces]
    cases indexFrom sep l 0 with
    | none => simp
    | some i =>
      simp only [List.reverse_nil, List.nil_append]
      rw [ih _ (by simp; omega)]

theorem spec_split_eq (s sep : List Char) : Spec.JsStr.split s (some sep) = Model.Text.split s sep := by
  unfold Spec.JsStr.split Model.Text.split
  simp only []
  by_cases h : sep.isEmpty = true
  · simp [h]
  · have hne : sep ≠ [] := by intro hh; subst hh; simp at h
    simp only [h]
    exact pieces_eq sep hne s.length s (Nat.le_refl _)

end Proofs.MethStr
