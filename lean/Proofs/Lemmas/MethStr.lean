import Model.MethStr
import Spec.JsStr
import Spec.Js
/-! Helper lemmas for C15 (string methods): on ASCII text the byte view of a
string is its character view, so byte offsets are character positions. -/
namespace Proofs.MethStr
open Model.Text
open Model.Meth (Val slot asString)
open Model.MethStr

/-- every character is ASCII (one byte in UTF-8) -/
def AllAscii (s : List Char) : Prop := ∀ c ∈ s, c.toNat < 128

theorem encodeChar_ascii (c : Char) (h : c.toNat < 128) : encodeChar c = [c.toNat] := by
  simp [encodeChar, h]

theorem utf8_ascii : ∀ (s : List Char), AllAscii s → utf8 s = s.map Char.toNat := by
  intro s
  induction s with
  | nil => intro _; rfl
  | cons c r ih =>
    intro h
    have hc : c.toNat < 128 := h c (by simp)
    have hr : AllAscii r := fun d hd => h d (by simp [hd])
    simp only [utf8, List.flatMap_cons, List.map_cons, encodeChar_ascii c hc] at *
    rw [ih hr]; rfl

theorem isPrefixOf_map_toNat : ∀ (p l : List Char),
    (p.map Char.toNat).isPrefixOf (l.map Char.toNat) = p.isPrefixOf l := by
  intro p
  induction p with
  | nil => intro l; simp
  | cons a p ih =>
    intro l
    cases l with
    | nil => simp
    | cons b l =>
      simp only [List.map_cons, List.isPrefixOf_cons_cons, ih]
      by_cases h : a = b
      · subst h; simp
      · have : a.toNat ≠ b.toNat := fun hh => h (Char.toNat_inj.mp hh)
        have h1 : (a.toNat == b.toNat) = false := by simpa using this
        have h2 : (a == b) = false := by simpa using h
        rw [h1, h2]

theorem indexFrom_map_toNat (p : List Char) : ∀ (l : List Char) (i : Nat),
    indexFrom (p.map Char.toNat) (l.map Char.toNat) i = indexFrom p l i := by
  intro l
  induction l with
  | nil => intro i; simp [indexFrom]
  | cons c r ih =>
    intro i
    have := isPrefixOf_map_toNat p (c :: r)
    simp only [List.map_cons] at this
    simp only [indexFrom, List.map_cons, this, ih]

theorem length_ascii (s : List Char) (h : AllAscii s) :
    length s = .int (Spec.JsStr.length s) := by
  simp [length, Spec.JsStr.length, utf8_ascii s h]

theorem indexOf_ascii (s : List Char) (p : String) (more : List Val) (hs : AllAscii s) (hp : AllAscii p.toList) :
    indexOf s (.str p :: more) = .int (Spec.JsStr.indexOf s p.toList) := by
  have harg : argText (slot (.str p :: more) 0) = p.toList := rfl
  unfold indexOf Spec.JsStr.indexOf
  rw [harg, utf8_ascii s hs, utf8_ascii _ hp, indexFrom_map_toNat]
  cases indexFrom p.toList s 0 <;> rfl

theorem cutBounds_spec (n : Nat) (a e : Int) :
    let p := cutBounds n a e
    let A := min a.toNat n
    let B := min e.toNat n
    p.1 = (min A B : Nat) ∧ p.2 = (max A B : Nat) := by
  simp only [cutBounds]
  (repeat' split) <;> simp only [] <;> omega

theorem cutArg_stop (args : List Val) (e : Option Int) (len : Int) (h : Spec.Js.Binds args 1 e) :
    cutArg (slot args 1) len = some (e.getD len) := by
  unfold Spec.Js.Binds at h
  unfold slot
  cases hget : args[1]? with
  | none => simp [hget] at h; simp [h, cutArg]
  | some v => cases v <;> simp [hget] at h <;> simp [h, cutArg]

theorem spec_substring_eq (s : List Char) (a : Int) (e : Option Int) :
    Spec.JsStr.substring s a e =
      (s.take (max (min a.toNat s.length) (min (e.getD (s.length : Int)).toNat s.length))).drop
        (min (min a.toNat s.length) (min (e.getD (s.length : Int)).toNat s.length)) := by
  cases e <;> simp [Spec.JsStr.substring]

theorem substring_ascii (s : List Char) (a : Int) (more : List Val) (e : Option Int)
    (hs : AllAscii s) (h1 : Spec.Js.Binds (.int a :: more) 1 e) :
    substring s (.int a :: more) = .bytes (utf8 (Spec.JsStr.substring s a e)) := by
  have h0 : cutArg (slot (.int a :: more) 0) 0 = some a := rfl
  unfold substring
  simp only [h0, cutArg_stop _ e _ h1, utf8_ascii s hs, List.length_map]
  have hb := cutBounds_spec s.length a (e.getD s.length)
  simp only at hb
  generalize cutBounds (s.length) a (e.getD s.length) = p at hb ⊢
  rw [spec_substring_eq]
  have hAn : min a.toNat s.length ≤ s.length := by omega
  generalize min a.toNat s.length = A at hb hAn ⊢
  generalize hBB : min (e.getD (s.length : Int)).toNat s.length = B at hb ⊢
  have hBn : B ≤ s.length := by omega
  obtain ⟨h1, h2⟩ := hb
  rw [h1, h2, if_pos (by omega)]
  have hsub : AllAscii (List.drop (min A B) (List.take (max A B) s)) := by
    intro c hc
    exact hs c (List.mem_of_mem_take (List.mem_of_mem_drop hc))
  rw [utf8_ascii _ hsub]
  congr 1
  have e1 : ((min A B : Nat) : Int).toNat = min A B := by omega
  have e2 : (((max A B : Nat) : Int) - ((min A B : Nat) : Int)).toNat = max A B - min A B := by omega
  rw [e1, e2, List.drop_take, List.map_take, List.map_drop]

end Proofs.MethStr
