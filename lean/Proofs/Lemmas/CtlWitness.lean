import Model.Ctl
import Spec.Ctl
import Spec.CtlFrag
/-! Concrete programs used by the non-vacuity examples and the negation witnesses of C02
(each is also a case of the harness corpus / known streams, run on the real interpreter). -/
namespace Proofs.Ctl
open Spec.Ctl

def blk : List Stmt → Block
  | [] => .nil
  | s :: r => .cons s (blk r)

def args : List Expr → Args
  | [] => .nil
  | e :: r => .cons e (args r)

def cases : List (Expr × List Stmt) → Cases
  | [] => .nil
  | (l, b) :: r => .cons l (blk b) (cases r)

def int (n : Int) : Expr := .lit (.int n)
def str (s : String) : Expr := .lit (.str s)
def echo (es : List Expr) : Stmt := .echo (args es)

/-- `for ($x = 0; $x < n; $x++) { body }` -/
def forUpTo (x : Var) (n : Int) (body : List Stmt) : Stmt :=
  .for_ (args [.assign x (int 0)]) (.bin .lt (.var x) (int n)) (args [.inc .postInc x]) (blk body)

/-- `for ($i…2) { for ($j…2) { break 2; } echo "a"; }` — the reference semantics prints nothing -/
def progBreak2 : Prog :=
  { funs := [], main := blk [forUpTo 0 2 [forUpTo 1 2 [.brk 2], echo [str "a"]]] }

/-- `for ($i…2) { switch (1) { case 1: continue 2; } echo "a"; }` — the reference semantics prints nothing -/
def progContinue2 : Prog :=
  { funs := [], main := blk [forUpTo 0 2 [.switch (int 1) (cases [(int 1, [.cont 2])]) .nil, echo [str "a"]]] }

/-- `function f() { $a = 5; }  echo "[", f(), "]";` — the reference semantics prints `[]` -/
def progNoReturn : Prog :=
  { funs := [{ name := 0, params := [], statics := [], body := blk [.expr (.assign 0 (int 5))] }],
    main := blk [echo [str "[", .call 0 .nil, str "]"]] }

/-- `function f($a, $b) { return $a; }  echo f(1);` — a missing argument is an error in the reference semantics -/
def progTooFew : Prog :=
  { funs := [{ name := 0, params := [⟨0, none⟩, ⟨1, none⟩], statics := [], body := blk [.ret (some (.var 0))] }],
    main := blk [echo [.call 0 (args [int 1])], echo [str "after"]] }

/-- a program inside the fragment that uses every construct:
```
function f($d, $k = 2) { static $n = 0; $n++; if ($d <= 0) { return $n; } return f($d - 1) + $k; }
$i = 0;
while ($i < 5) { $i++; if ($i == 2) { continue; } if ($i == 4) { break; } echo "w", $i; }
do { $i += 1; } while ($i <= 5);
foreach ([1, 2, 3] as $k => $v) { switch ($v) { case 1: case 2: echo "s", $k; break; default: echo "d"; } }
for ($j = 0; $j <= 1; $j++) { $t = $j * 2; echo match ($t) { 0 => "z", default => "n" }; }
echo f(2), f(0, 5);
```
-/
def progAll : Prog :=
  { funs := [{ name := 0, params := [⟨0, none⟩, ⟨1, some (.int 2)⟩], statics := [(2, .int 0)],
               body := blk [.expr (.inc .postInc 2),
                 .ite (.bin .le (.var 0) (int 0)) (blk [.ret (some (.var 2))]) .nil .nil,
                 .ret (some (.bin .add (.call 0 (args [.bin .sub (.var 0) (int 1)])) (.var 1)))] }],
    main := blk [
      .expr (.assign 0 (int 0)),
      .while_ (.bin .lt (.var 0) (int 5)) (blk [.expr (.inc .postInc 0),
        .ite (.bin .eq (.var 0) (int 2)) (blk [.cont 1]) .nil .nil,
        .ite (.bin .eq (.var 0) (int 4)) (blk [.brk 1]) .nil .nil,
        echo [str "w", .var 0]]),
      .doWhile (blk [.expr (.assign 0 (.bin .add (.var 0) (int 1)))]) (.bin .le (.var 0) (int 5)),
      .foreach (.lit (.list [1, 2, 3])) (some 1) 2 (blk [
        .switch (.var 2) (cases [(int 1, []), (int 2, [echo [str "s", .var 1], .brk 1])]) (blk [echo [str "d"]])]),
      .for_ (args [.assign 3 (int 0)]) (.bin .le (.var 3) (int 1)) (args [.inc .postInc 3]) (blk [
        .expr (.assign 4 (.bin .mul (.var 3) (int 2))),
        echo [.matchE (.var 4) (.cons (int 0) (str "z") .nil) (str "n")]]),
      echo [.call 0 (args [int 2]), .call 0 (args [int 0, int 5])] ] }

end Proofs.Ctl
